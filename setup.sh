#!/bin/bash
# MANIFEST.setup_cmd: full clean build of the framework from files on disk only (offline).
set -u
cd "$(dirname "$0")"
export GOFLAGS=-mod=mod GOPROXY=off GOSUMDB=off GOTOOLCHAIN=local CGO_ENABLED=0
mkdir -p build build/logs evidence replays coq/Generated
# 1. forbidden vernacular
if grep -rnE '^\s*(Axiom|Parameter|Conjecture|Admitted|Admit Obligations)\b|\badmit\b|Unset Guard|bypass_check|-type-in-type|Unset Universe Checking|Unset Positivity' coq --include='*.v' | grep -v '^coq/Generated/' ; then
  echo "setup: forbidden vernacular found" >&2; exit 1
fi
if grep -rnE '^\s*(Variable|Hypothesis|Variables|Hypotheses)\b' coq --include='*.v' | grep -v 'Section' >/dev/null; then
  # Variables/Hypotheses are only allowed inside sections; checked by script below
  python3 - <<'PY' || exit 1
import re,sys,glob
bad=False
for f in glob.glob('coq/**/*.v',recursive=True):
    depth=0
    for i,l in enumerate(open(f),1):
        if re.match(r'\s*Section\s',l): depth+=1
        elif re.match(r'\s*End\s',l) and depth>0: depth-=1
        elif re.match(r'\s*(Variable|Hypothesis|Variables|Hypotheses|Context)\b',l) and depth==0:
            print("setup: %s:%d: Variable/Hypothesis outside a section"%(f,i)); bad=True
sys.exit(1 if bad else 0)
PY
fi
# 2. translators + generated files
cp /repo/go.sum harness/go.sum
[ -f harness/go.sum.extra ] && cat harness/go.sum.extra >> harness/go.sum
(cd harness && go build -o ../build/constgen ./cmd/constgen) || { echo "setup: constgen build failed" >&2; exit 1; }
if [ -d harness/cmd/lockgen ]; then
  (cd harness && go build -o ../build/lockgen ./cmd/lockgen) || { echo "setup: lockgen build failed" >&2; exit 1; }
  (cd harness && ../build/lockgen /repo ../coq/Generated/Locks.v ../build/locks.json) || { echo "setup: lockgen failed" >&2; exit 1; }
fi
build/constgen /repo coq/Generated/Consts.v || { echo "setup: constgen failed" >&2; exit 1; }
# 3. Coq: full .vo build (never -vos)
(cd coq && coq_makefile -f _CoqProject -o Makefile >/dev/null 2>&1 && timeout 7200 make -j16 2>&1 | grep -v '^COQ\|^Closed under\|WARNING' ; exit ${PIPESTATUS[0]}) || { echo "setup: coq build failed" >&2; exit 1; }
# 4. extraction + model runner, harness
rm -f build/vmodel.hash
python3 - <<'PY' || exit 1
import sys,importlib.util,importlib.machinery
loader=importlib.machinery.SourceFileLoader('check','./check')
spec=importlib.util.spec_from_loader('check',loader); m=importlib.util.module_from_spec(spec); loader.exec_module(m)
log=[]
ok,msg=m.build_model(log)
if not ok: print("setup: "+msg); sys.exit(1)
ok,msg=m.build_vh(log)
if not ok: print("setup: vh build failed: "+msg); sys.exit(1)
PY
echo "setup: done"
