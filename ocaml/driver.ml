(* vmodel: line protocol driver for the extracted Coq model.
   input line : <fn> <arg> <arg> ...   (ints in decimal; byte strings as x<hex>; booleans t/f)
   output line: one result per input line *)
open Model_gen

let rec pos_of_int (n : int) : positive =
  if n = 1 then XH
  else if n land 1 = 0 then XO (pos_of_int (n lsr 1))
  else XI (pos_of_int (n lsr 1))

let z_of_int (n : int) : z =
  if n = 0 then Z0 else if n > 0 then Zpos (pos_of_int n) else Zneg (pos_of_int (-n))

let z10 = z_of_int 10

(* arbitrary precision decimal parse through the extracted arithmetic *)
let z_of_string (s : string) : z =
  if String.length s <= 17 then (match int_of_string_opt s with Some n -> z_of_int n | None -> failwith ("bad int: " ^ s)) else
  let neg, start = if String.length s > 0 && s.[0] = '-' then (true, 1) else (false, 0) in
  let acc = ref Z0 in
  for i = start to String.length s - 1 do
    let d = Char.code s.[i] - 48 in
    if d < 0 || d > 9 then failwith ("bad int: " ^ s);
    acc := Z.add (Z.mul !acc z10) (z_of_int d)
  done;
  if neg then Z.opp !acc else !acc

let rec int_of_pos (p : positive) : int =
  match p with XH -> 1 | XO q -> 2 * int_of_pos q | XI q -> 2 * int_of_pos q + 1

let small_int_of_z (x : z) : int =
  match x with Z0 -> 0 | Zpos p -> int_of_pos p | Zneg p -> - (int_of_pos p)

let rec pos_bits (p : positive) : int = match p with XH -> 1 | XO q | XI q -> 1 + pos_bits q

let string_of_z (x : z) : string =
  let small = (match x with Z0 -> true | Zpos p | Zneg p -> pos_bits p <= 61) in
  if small then string_of_int (small_int_of_z x) else
  let neg, a = (match x with Zneg p -> (true, Zpos p) | _ -> (false, x)) in
  begin
    let buf = Buffer.create 20 in
    let cur = ref a in
    let digits = ref [] in
    while !cur <> Z0 do
      let d = Z.modulo !cur z10 in
      digits := (small_int_of_z d) :: !digits;
      cur := Z.div !cur z10
    done;
    if neg then Buffer.add_char buf '-';
    List.iter (fun d -> Buffer.add_char buf (Char.chr (48 + d))) !digits;
    Buffer.contents buf
  end

let bytes_of_hex (s : string) : z list =
  (* s starts with 'x' *)
  let n = (String.length s - 1) / 2 in
  List.init n (fun i -> z_of_int (int_of_string ("0x" ^ String.sub s (1 + 2 * i) 2)))

let hex_of_bytes (l : z list) : string =
  let buf = Buffer.create 16 in
  Buffer.add_char buf 'x';
  List.iter (fun b -> Buffer.add_string buf (Printf.sprintf "%02x" ((small_int_of_z b) land 255))) l;
  Buffer.contents buf

let bool_of_arg s = (s = "t")
let str_bool b = if b then "t" else "f"

let show_res (f : 'a -> string) (r : 'a res) : string =
  match r with
  | Ok a -> "ok " ^ f a
  | Err e -> "err " ^ string_of_z e
  | Panic p -> "panic " ^ string_of_z p

let handlers : (string, string list -> string) Hashtbl.t = Hashtbl.create 64
let reg name f = Hashtbl.replace handlers name f

let () =
  reg "c20.col_name_to_number" (fun a -> match a with
    | [s] -> show_res string_of_z (col_name_to_number (bytes_of_hex s)) | _ -> "bad-args");
  reg "c20.col_number_to_name" (fun a -> match a with
    | [n] -> show_res hex_of_bytes (col_number_to_name (z_of_string n)) | _ -> "bad-args");
  reg "c20.split_cell_name" (fun a -> match a with
    | [s] -> show_res (fun (c, r) -> hex_of_bytes c ^ " " ^ string_of_z r) (split_cell_name (bytes_of_hex s)) | _ -> "bad-args");
  reg "c20.join_cell_name" (fun a -> match a with
    | [c; r] -> show_res hex_of_bytes (join_cell_name (bytes_of_hex c) (z_of_string r)) | _ -> "bad-args");
  reg "c20.cell_name_to_coords" (fun a -> match a with
    | [s] -> show_res (fun (c, r) -> string_of_z c ^ " " ^ string_of_z r) (cell_name_to_coords (bytes_of_hex s)) | _ -> "bad-args");
  reg "c20.coords_to_cell_name" (fun a -> match a with
    | [c; r; ab] -> show_res hex_of_bytes (coords_to_cell_name (z_of_string c) (z_of_string r) (bool_of_arg ab)) | _ -> "bad-args");
  reg "c20.range_ref_to_coords" (fun a -> match a with
    | [s] -> show_res (fun (((c1, r1), c2), r2) -> String.concat " " (List.map string_of_z [c1; r1; c2; r2])) (range_ref_to_coords (bytes_of_hex s)) | _ -> "bad-args");
  reg "c20.coords_to_range_ref" (fun a -> match a with
    | [c1; r1; c2; r2; ab] -> show_res hex_of_bytes (coords_to_range_ref (((z_of_string c1, z_of_string r1), z_of_string c2), z_of_string r2) (bool_of_arg ab)) | _ -> "bad-args");
  reg "c20.sort_coords" (fun a -> match a with
    | [c1; r1; c2; r2] -> let (((a1, b1), a2), b2) = sort_coords (((z_of_string c1, z_of_string r1), z_of_string c2), z_of_string r2) in
      String.concat " " (List.map string_of_z [a1; b1; a2; b2]) | _ -> "bad-args")


(* floats cross the boundary as 16 hex digits (IEEE-754 bits) *)
let float_of_hexbits (s : string) : Float64.t =
  Float64.of_float (Int64.float_of_bits (Int64.of_string ("0x" ^ s)))
let hexbits_of_float (x : Float64.t) : string =
  Printf.sprintf "%016Lx" (Int64.bits_of_float (Float64.to_float x))

let show_fields (((((((y, m), d), h), mi), s), ns)) =
  String.concat " " (List.map string_of_z [y; m; d; h; mi; s; ns])

let () =
  reg "c19.encode" (fun a -> match a with
    | [sys; y; m; d; ns] ->
      let s = bool_of_arg sys and y = z_of_string y and m = z_of_string m and d = z_of_string d and ns = z_of_string ns in
      (match encode_float s y m d ns with
       | Some x -> "ok " ^ hexbits_of_float x ^ " " ^ str_bool (is_num s y m d ns x)
       | None -> "outoffuel")
    | _ -> "bad-args");
  reg "c19.exact" (fun a -> match a with
    | [sys; y; m; d; ns] ->
      (match encode_exact (bool_of_arg sys) (z_of_string y) (z_of_string m) (z_of_string d) (z_of_string ns) with
       | Some (w, r) -> "ok " ^ string_of_z w ^ " " ^ string_of_z r
       | None -> "outoffuel")
    | _ -> "bad-args");
  reg "c19.decode" (fun a -> match a with
    | [sys; bits] -> "ok " ^ show_fields (decode_float (bool_of_arg sys) (float_of_hexbits bits))
    | _ -> "bad-args");
  reg "c19.days_of_civil" (fun a -> match a with
    | [y; m; d] -> string_of_z (days_of_civil (z_of_string y) (z_of_string m) (z_of_string d))
    | _ -> "bad-args");
  reg "c19.civil_of_days" (fun a -> match a with
    | [n] -> let ((y, m), d) = civil_of_days (z_of_string n) in String.concat " " (List.map string_of_z [y; m; d])
    | _ -> "bad-args");
  reg "c19.excel_serial_spec" (fun a -> match a with
    | [y; m; d] -> string_of_z (excel_serial_spec (z_of_string y) (z_of_string m) (z_of_string d))
    | _ -> "bad-args")

(* ---- sheet histories ---- *)
let parse_op (tok : string) : op =
  match String.split_on_char ',' tok with
  | ["S"; c; r; t; v] -> OSet (z_of_string c, z_of_string r, z_of_string t, bytes_of_hex v)
  | ["F"; c; r; f] -> OFormula (z_of_string c, z_of_string r, bytes_of_hex f)
  | ["Y"; c; r; st] -> OStyle (z_of_string c, z_of_string r, z_of_string st)
  | ["R"; r; st] -> ORowStyle (z_of_string r, z_of_string st)
  | ["Z"; c; st] -> OColStyle (z_of_string c, z_of_string st)
  | ["M"; c1; r1; c2; r2] -> OMerge (z_of_string c1, z_of_string r1, z_of_string c2, z_of_string r2)
  | ["W"] -> OSave
  | _ -> failwith ("bad op " ^ tok)

let show_obs (((t, v), f), _) st =
  (* the cached value of a formula cell is not part of the compared projection *)
  string_of_z t ^ ":" ^ (match f with Some _ -> "x" | None -> hex_of_bytes v) ^ ":" ^ (match f with Some x -> hex_of_bytes x | None -> "-") ^ ":" ^ string_of_z st

let () =
  reg "sheet.run" (fun a -> match a with
    | c0 :: r0 :: w :: h :: ops ->
      let c0 = int_of_string c0 and r0 = int_of_string r0 and w = int_of_string w and h = int_of_string h in
      let sh = Model_gen.run (List.map parse_op ops) empty_sheet in
      let buf = Buffer.create 256 in
      for r = r0 to r0 + h - 1 do
        for c = c0 to c0 + w - 1 do
          if Buffer.length buf > 0 then Buffer.add_char buf ' ';
          Buffer.add_string buf (show_obs (observe sh (z_of_int c) (z_of_int r)) (get_cell_style sh (z_of_int c) (z_of_int r)))
        done
      done;
      Buffer.contents buf
    | _ -> "bad-args");
  (* the serialised worksheet: rows holding at least one cell with content, as row:col,col,... *)
  reg "sheet.xml" (fun a ->
      let sh = Model_gen.run (List.map parse_op a) empty_sheet in
      let rows = List.filter_map (fun r ->
        let cs = List.filter has_value r.r_cells in
        if cs = [] then None
        else Some (string_of_z r.r_r ^ ":" ^ String.concat "," (List.map (fun c -> string_of_z c.c_col) cs))) (xml_rows sh) in
      "xml " ^ String.concat ";" rows);
  reg "sheet.rows" (fun a ->
      let sh = Model_gen.run (List.map parse_op a) empty_sheet in
      let rows = get_rows (fun c -> c.c_v) sh in
      "rows " ^ String.concat ";" (List.map (fun r -> String.concat "," (List.map hex_of_bytes r)) rows))

let () =
  reg "sheet.cols" (fun a ->
      let sh = Model_gen.run (List.map parse_op a) empty_sheet in
      let cols = get_cols (fun c -> c.c_v) sh in
      "cols " ^ String.concat ";" (List.map (fun r -> String.concat "," (List.map hex_of_bytes r)) cols))

(* ---- C16 sheet collection ---- *)
let parse_wop (tok : string) : wop =
  match String.split_on_char ',' tok with
  | ["N"; n] -> WNew (bytes_of_hex n)
  | ["D"; n] -> WDelete (bytes_of_hex n)
  | ["M"; a; b] -> WMove (bytes_of_hex a, bytes_of_hex b)
  | ["R"; a; b] -> WRename (bytes_of_hex a, bytes_of_hex b)
  | ["V"; n; v; h] -> WVisible (bytes_of_hex n, bool_of_arg v, bool_of_arg h)
  | ["A"; i] -> WActive (z_of_string i)
  | ["C"; a; b] -> WCopy (z_of_string a, z_of_string b)
  | ["T"; n] -> WTouch (bytes_of_hex n)
  | ["DN"; nm; sc] -> WSetName (bytes_of_hex nm, bytes_of_hex sc, [])
  | _ -> failwith ("bad wop " ^ tok)

let () =
  reg "c16.run" (fun a ->
      let wb = wrun (List.map parse_wop a) init_wb in
      let sh = List.map (fun s -> hex_of_bytes s.w_name ^ ":" ^ string_of_z s.w_id ^ ":" ^ (if s.w_state = Z0 then "v" else "h") ^ ":" ^ string_of_z s.w_content) wb.sheets in
      let nms = List.sort compare (List.map (fun d -> hex_of_bytes d.d_name ^ "@" ^ (match scope_name wb d with Some n -> hex_of_bytes n | None -> "-")) wb.names) in
      "active=" ^ string_of_z (active_index wb) ^ " " ^ String.concat " " sh ^ " consistent=" ^ str_bool (consistent wb) ^ " names=" ^ String.concat "," nms)

let parse_eop (tok : string) : eop =
  match String.split_on_char ',' tok with
  | ["IR"; r; n] -> EInsertRows (z_of_string r, z_of_string n)
  | ["RR"; r] -> ERemoveRow (z_of_string r)
  | ["IC"; c; n] -> EInsertCols (z_of_string c, z_of_string n)
  | ["RC"; c] -> ERemoveCol (z_of_string c)
  | ["DR"; r; r2] -> EDupRowTo (z_of_string r, z_of_string r2)
  | _ -> EBase (parse_op tok)

let () =
  reg "sheet.erun" (fun a -> match a with
    | c0 :: r0 :: w :: h :: ops ->
      let c0 = int_of_string c0 and r0 = int_of_string r0 and w = int_of_string w and h = int_of_string h in
      let sh = erun (List.map parse_eop ops) empty_sheet in
      let buf = Buffer.create 256 in
      for r = r0 to r0 + h - 1 do
        for c = c0 to c0 + w - 1 do
          if Buffer.length buf > 0 then Buffer.add_char buf ' ';
          (* formula text is rewritten by structural edits (C07); only its presence is compared here *)
          let (((t, v), f), st0) = observe sh (z_of_int c) (z_of_int r) in
          let f' = (match f with Some _ -> Some [] | None -> None) in
          Buffer.add_string buf (show_obs (((t, v), f'), st0) (get_cell_style sh (z_of_int c) (z_of_int r)))
        done
      done;
      let ms = List.map (fun (((x1, y1), x2), y2) -> String.concat "," (List.map string_of_z [x1; y1; x2; y2])) sh.merges in
      Buffer.contents buf ^ " |M " ^ String.concat ";" (List.sort compare ms)
    | _ -> "bad-args")

let () =
  reg "c07.operand" (fun a -> match a with
    | [isrows; num; off; sheet; same; cell] ->
      let sp = if sheet = "-" then None else Some (bytes_of_hex sheet) in
      show_res hex_of_bytes (adjust_operand (bool_of_arg isrows) (z_of_string num) (z_of_string off) sp (bool_of_arg same) (bytes_of_hex cell))
    | _ -> "bad-args")

(* ---- C08 evaluator machine ---- *)
let binop_of_sym (s : string) : binop =
  match s with
  | "^" -> OPow | "*" -> OMul | "/" -> ODiv | "+" -> OAdd | "-" -> OSub | "&" -> OCat
  | "=" -> OEq | "<>" -> ONe | "<" -> OLt | "<=" -> OLe | ">" -> OGt | ">=" -> OGe
  | _ -> failwith ("bad op " ^ s)

let parse_c08_tok (t : string) : val0 tok =
  if t = "pre" then TPre else if t = "(" then TL else if t = ")" then TR else if t = "%" then TPct
  else match t.[0] with
    | 'n' -> TLit (VNum (float_of_hexbits (String.sub t 1 16), false))
    | 'b' -> TLit (VNum (Float64.of_float (if t = "b1" then 1.0 else 0.0), true))
    | 's' -> TLit (VStr (bytes_of_hex ("x" ^ String.sub t 1 (String.length t - 1))))
    | 'o' -> TOp (binop_of_sym (String.sub t 1 (String.length t - 1)))
    | _ -> failwith ("bad c08 token " ^ t)

let show_val (v : val0) : string =
  match v with
  | VNum (x, b) -> "num " ^ hexbits_of_float x ^ " " ^ str_bool b
  | VStr s -> "str " ^ hex_of_bytes s
  | VUnsup -> "unsup"

let parse_cellv (t : string) : cellv =
  if t = "_" then CBlank else match t.[0] with
    | 'n' -> CNum (float_of_hexbits (String.sub t 1 16))
    | 't' -> CText (bytes_of_hex ("x" ^ String.sub t 1 (String.length t - 1)))
    | 'b' -> CBool (t = "b1")
    | _ -> failwith ("bad cell " ^ t)

let () =
  reg "c08.eval" (fun a -> show_res show_val (eval_impl (List.map parse_c08_tok a)));
  reg "c08.agg" (fun a -> match a with
    | fn :: cells ->
      let cs = List.map parse_cellv cells in
      (match fn with
       | "SUM" -> hexbits_of_float (agg_sum cs)
       | "PRODUCT" -> hexbits_of_float (agg_product cs)
       | "MIN" -> hexbits_of_float (agg_min cs)
       | "MAX" -> hexbits_of_float (agg_max cs)
       | "COUNT" -> string_of_z (agg_count cs)
       | "COUNTA" -> string_of_z (agg_counta cs)
       | _ -> "bad-fn")
    | _ -> "bad-args")

let () =
  reg "c13.locate" (fun a -> match a with
    | np :: sizes ->
      (match locate (List.map z_of_string sizes) (z_of_string np) with
       | Some g -> String.concat " " (List.map string_of_z [g.g_difat; g.g_fat; g.g_minifat; g.g_dir; g.g_big; g.g_mini; g.g_ministream_start; g.g_end])
       | None -> "outoffuel")
    | _ -> "bad-args");
  (* the allocation tables of the writer for streams of the given sizes (directory order): FAT words and chain
     starts, mini FAT words and starts, the 109 header DIFAT slots, the words of every DIFAT sector *)
  reg "c13.tables" (fun a -> match a with
    | np :: sizes ->
      let sz = List.map z_of_string sizes in
      (match locate sz (z_of_string np) with
       | Some g ->
         let zs l = String.concat "," (List.map string_of_z l) in
         let (t, st) = fat_table g sz in
         let (mt, mst) = minifat_table sz in
         let rec difs o acc = if Z.ltb o g.g_difat then difs (Z.add o (z_of_string "1")) (zs (msat_sector g o) :: acc) else List.rev acc in
         "fat=" ^ zs t ^ " st=" ^ zs st ^ " mfat=" ^ zs mt ^ " mst=" ^ zs mst ^ " hdr=" ^ zs (msat_header g)
         ^ " dif=" ^ String.concat "|" (difs (z_of_string "0") [])
       | None -> "outoffuel")
    | _ -> "bad-args");
  (* package layer with the identity "cipher": exposes size prefix, padding and truncation *)
  reg "c13.pkg" (fun a -> match a with
    | [b] -> let enc = encrypt_pkg (fun x -> x) (bytes_of_hex b) in
      hex_of_bytes enc ^ " " ^ show_res hex_of_bytes (decrypt_pkg (fun x -> x) enc)
    | _ -> "bad-args");
  reg "c13.decrypt" (fun a -> match a with
    | [s] -> show_res hex_of_bytes (decrypt_pkg (fun x -> x) (bytes_of_hex s))
    | _ -> "bad-args")

(* ---- C14 checkSheet over arbitrary row numbers ---- *)
let () =
  reg "c14.checksheet" (fun a ->
    let rs = List.map (fun t -> match String.split_on_char ',' t with
      | [r; n] -> (z_of_string r, z_of_string n)
      | _ -> failwith ("bad row " ^ t)) a in
    let (n, pl) = check_sheet rs in
    string_of_z n ^ " " ^ String.concat " " (List.map (fun o -> match o with Some i -> string_of_z i | None -> "-1") pl))

(* ---- C14 checkRow over arbitrary cell references of one row (0 = no r attribute) ---- *)
let rec int_of_nat n = match n with O -> 0 | S m -> 1 + int_of_nat m
let () =
  reg "c14.checkrow" (fun a ->
    let cells = List.map (fun t -> let z = z_of_string t in if Z.eqb z (z_of_string "0") then None else Some z) a in
    match check_row cells with
    | Ok t -> "ok " ^ String.concat " " (List.map (fun o -> match o with Some k -> string_of_int (int_of_nat k) | None -> "-1") t)
    | Err e -> "err " ^ string_of_z e
    | Panic p -> "panic " ^ string_of_z p)

(* ---- C03 merged ranges: MergeCell / UnmergeCell / GetMergeCells ---- *)
let () =
  reg "c03.merges" (fun a ->
    let rect_of l = match l with
      | [x1; y1; x2; y2] -> (((z_of_string x1, z_of_string y1), z_of_string x2), z_of_string y2)
      | _ -> failwith "bad rect" in
    let show l = String.concat ";" (List.map (fun (((x1, y1), x2), y2) ->
      String.concat "," (List.map string_of_z [x1; y1; x2; y2])) l) in
    let outs = ref [] in
    let st = List.fold_left (fun st t ->
      match String.split_on_char ',' t with
      | "M" :: r -> merge_step st (MMerge (rect_of r))
      | "U" :: r -> merge_step st (MUnmerge (rect_of r))
      | ["G"] -> let st' = merge_step st MGet in outs := show st' :: !outs; st'
      | _ -> failwith ("bad mop " ^ t)) [] a in
    outs := show (norm st) :: !outs;
    String.concat " | " (List.rev !outs))

(* ---- C18 defined names ---- *)
let () =
  reg "c18.names" (fun a ->
    let acc = Buffer.create 16 in
    let l = List.fold_left (fun l t ->
      let o = (match String.split_on_char ',' t with
        | ["S"; n; s; r; v] -> DSet (bytes_of_hex n, bytes_of_hex s, bytes_of_hex r, bool_of_arg v)
        | ["D"; n; s; _; _] -> DDel (bytes_of_hex n, bytes_of_hex s)
        | _ -> failwith ("bad dnop " ^ t)) in
      Buffer.add_string acc (str_bool (daccept l o)); dstep l o) [] a in
    let items = List.sort compare (List.map (fun d -> hex_of_bytes d.dn_name ^ "/" ^ hex_of_bytes d.dn_scope ^ "=" ^ hex_of_bytes d.dn_ref) l) in
    Buffer.contents acc ^ " | " ^ String.concat " " items)

(* ---- C10 numeric rendering ---- *)
let parse_ntok (t : string) : ntok =
  let n = String.length t in
  match t.[0] with
  | 'Z' -> NZero (z_of_string (String.sub t 1 (n - 1)))
  | 'H' -> NHash (z_of_string (String.sub t 1 (n - 1)))
  | 'P' -> NPoint
  | 'C' -> NComma
  | '%' -> NPct (z_of_string (String.sub t 1 (n - 1)))
  | 'L' -> NLit (bytes_of_hex (String.sub t 1 (n - 1)))
  | _ -> failwith ("bad ntok " ^ t)

let () =
  reg "c10.render" (fun a -> match a with
    | sign :: nn :: m :: toks ->
      (* sections separated by "/" *)
      let rec split cur acc = function
        | [] -> List.rev (List.rev cur :: acc)
        | "/" :: tl -> split [] (List.rev cur :: acc) tl
        | x :: tl -> split (parse_ntok x :: cur) acc tl in
      hex_of_bytes (render (split [] [] toks) (z_of_string sign) (z_of_string nn) (z_of_string m))
    | _ -> "bad-args")

(* ---- C12 part locations and temp files ---- *)
let () =
  reg "c12.run" (fun a ->
    (* <xmlLimit> <class,key,size>... | <ops...> *)
    match a with
    | lim :: rest ->
      let rec split acc = function
        | "|" :: ops -> (List.rev acc, ops)
        | x :: tl -> split (x :: acc) tl
        | [] -> (List.rev acc, []) in
      let (parts, ops) = split [] rest in
      let parts = List.map (fun t -> match String.split_on_char ',' t with
        | [c; k; sz] -> { p_class = z_of_string c; p_key = z_of_string k; p_size = z_of_string sz }
        | _ -> failwith ("bad part " ^ t)) parts in
      (* the size limit is not what this request is about: take it large *)
      (match open_with (z_of_string lim) (z_of_string "4611686018427387904") parts with
       | None -> "rejected"
       | Some s ->
         let nat_len l = List.length l in
         let out = ref [string_of_int (nat_len s.fs)] in
         let st = List.fold_left (fun st t ->
           let n = String.length t in
           let o = (match t.[0] with
             | 'W' -> FSave
             | 'S' -> FSetStr (z_of_string (String.sub t 1 (n - 1)))
             | 'N' -> FSetNum (z_of_string (String.sub t 1 (n - 1)))
             | 'G' -> FGet (z_of_string (String.sub t 1 (n - 2)), t.[n - 1] = 't')
             | 'R' -> FRows (z_of_string (String.sub t 1 (n - 2)), t.[n - 1] = 't')
             | _ -> failwith ("bad fop " ^ t)) in
           let st' = fstep st o in
           out := string_of_int (nat_len st'.fs) :: !out; st') s ops in
         out := string_of_int (nat_len (close st).fs) :: !out;
         String.concat " " (List.rev !out))
    | _ -> "bad-args")

(* ---- C11 stream writer ---- *)
let parse_sval (t : string) : sval option =
  if t = "_" then None else
  match String.split_on_char ':' t with
  | [st; f; has; ty; v; bad] ->
    Some { sv_style = z_of_string st; sv_f = bytes_of_hex f; sv_has = bool_of_arg has; sv_t = z_of_string ty; sv_v = bytes_of_hex v; sv_bad = bool_of_arg bad }
  | _ -> failwith ("bad sval " ^ t)

let parse_sop (tok : string) : sop =
  match String.split_on_char ',' tok with
  | ["K"; col; s; ok] -> SColStyle (z_of_string col, z_of_string s, bool_of_arg ok)
  | "R" :: col :: row :: rs :: ok :: vals -> SRow (z_of_string col, z_of_string row, z_of_string rs, bool_of_arg ok, List.map parse_sval vals)
  | _ -> failwith ("bad sop " ^ tok)

let () =
  reg "c11.run" (fun a -> match a with
    | c0 :: r0 :: w :: h :: ops ->
      let c0 = int_of_string c0 and r0 = int_of_string r0 and w = int_of_string w and h = int_of_string h in
      let sops = List.map parse_sop ops in
      (* acceptance of every call, in order *)
      let acc = Buffer.create 16 in
      let st = List.fold_left (fun st o ->
        let (ok, st') = (match o with
          | SRow (col, row, rs, k, vals) -> set_row st col row rs k vals
          | SColStyle (col, s, k) -> Model_gen.set_col_style0 st col s k) in
        Buffer.add_string acc (str_bool ok); st') sw_init sops in
      let sh = Model_gen.flush0 st in
      let buf = Buffer.create 256 in
      for r = r0 to r0 + h - 1 do
        for c = c0 to c0 + w - 1 do
          Buffer.add_char buf ' ';
          let (((k, v), f), s) = kview (Model_gen.w sh (z_of_int c) (z_of_int r)) in
          (* the cached value of a formula cell is not part of the compared projection *)
          let v = (match f with Some _ -> [] | None -> v) in
          Buffer.add_string buf (string_of_z k ^ ":" ^ hex_of_bytes v ^ ":" ^ (match f with Some x -> hex_of_bytes x | None -> "-") ^ ":" ^ string_of_z s)
        done
      done;
      Buffer.contents acc ^ " " ^ String.concat "," (List.map (fun r -> string_of_z r.r_r) st.sw_out) ^ " |" ^ Buffer.contents buf
    | _ -> "bad-args");
  (* buffered writer: W<hex> writes, S syncs (temp file can be created), s syncs (cannot); prints contents and whether spilled *)
  reg "c11.bw" (fun a -> match a with
    | chunk :: ops ->
      let b = List.fold_left (fun b t ->
        let o = if t = "S" then BSync true else if t = "s" then BSync false else BWrite (bytes_of_hex (String.sub t 1 (String.length t - 1))) in
        bw_step (z_of_string chunk) b o) { bw_buf = []; bw_tmp = None } ops in
      hex_of_bytes (bw_contents b) ^ " " ^ str_bool (b.bw_tmp <> None) ^ " " ^ string_of_int (List.length b.bw_buf)
    | _ -> "bad-args")

let () =
  reg "c17.run" (fun a ->
      let (ids, r) = run_styles (List.map z_of_string a) init_reg in
      "ids " ^ String.concat "," (List.map string_of_z ids) ^ " size " ^ string_of_int (List.length r))

let () =
  try
    while true do
      let line = input_line stdin in
      let toks = String.split_on_char ' ' line |> List.filter (fun s -> s <> "") in
      (match toks with
       | [] -> print_string "empty\n"
       | fn :: args ->
         (match Hashtbl.find_opt handlers fn with
          | Some h -> (try print_string (h args) with e -> print_string ("exn " ^ Printexc.to_string e)); print_char '\n'
          | None -> print_string ("unknown-fn " ^ fn ^ "\n")))
    done
  with End_of_file -> ()
