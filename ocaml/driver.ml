(* vmodel: line protocol driver for the extracted Coq model.
   input line : <fn> <arg> <arg> ...   (ints in decimal; byte strings as x<hex>; booleans t/f)
   output line: one result per input line *)
open Model_gen

let rec pos_of_int (n : int) : positive =
  if n = 1 then XH
  else if n land 1 = 0 then XO (pos_of_int (n lsr 1))
  else XI (pos_of_int (n lsr 1))

let z_of_int (n : int) : z =
  if n = 0 then Z0 else if n > 0 then Zpos (pos_of_int n) else Zneg (pos_of_int (-n))

let z10 = z_of_int 10

(* arbitrary precision decimal parse through the extracted arithmetic *)
let z_of_string (s : string) : z =
  let neg, start = if String.length s > 0 && s.[0] = '-' then (true, 1) else (false, 0) in
  let acc = ref Z0 in
  for i = start to String.length s - 1 do
    let d = Char.code s.[i] - 48 in
    if d < 0 || d > 9 then failwith ("bad int: " ^ s);
    acc := Z.add (Z.mul !acc z10) (z_of_int d)
  done;
  if neg then Z.opp !acc else !acc

let rec int_of_pos (p : positive) : int =
  match p with XH -> 1 | XO q -> 2 * int_of_pos q | XI q -> 2 * int_of_pos q + 1

let small_int_of_z (x : z) : int =
  match x with Z0 -> 0 | Zpos p -> int_of_pos p | Zneg p -> - (int_of_pos p)

let string_of_z (x : z) : string =
  let neg, a = (match x with Zneg p -> (true, Zpos p) | _ -> (false, x)) in
  if a = Z0 then "0" else begin
    let buf = Buffer.create 20 in
    let cur = ref a in
    let digits = ref [] in
    while !cur <> Z0 do
      let d = Z.modulo !cur z10 in
      digits := (small_int_of_z d) :: !digits;
      cur := Z.div !cur z10
    done;
    if neg then Buffer.add_char buf '-';
    List.iter (fun d -> Buffer.add_char buf (Char.chr (48 + d))) !digits;
    Buffer.contents buf
  end

let bytes_of_hex (s : string) : z list =
  (* s starts with 'x' *)
  let n = (String.length s - 1) / 2 in
  List.init n (fun i -> z_of_int (int_of_string ("0x" ^ String.sub s (1 + 2 * i) 2)))

let hex_of_bytes (l : z list) : string =
  let buf = Buffer.create 16 in
  Buffer.add_char buf 'x';
  List.iter (fun b -> Buffer.add_string buf (Printf.sprintf "%02x" ((small_int_of_z b) land 255))) l;
  Buffer.contents buf

let bool_of_arg s = (s = "t")
let str_bool b = if b then "t" else "f"

let show_res (f : 'a -> string) (r : 'a res) : string =
  match r with
  | Ok a -> "ok " ^ f a
  | Err e -> "err " ^ string_of_z e
  | Panic p -> "panic " ^ string_of_z p

let handlers : (string, string list -> string) Hashtbl.t = Hashtbl.create 64
let reg name f = Hashtbl.replace handlers name f

let () =
  reg "c20.col_name_to_number" (fun a -> match a with
    | [s] -> show_res string_of_z (col_name_to_number (bytes_of_hex s)) | _ -> "bad-args");
  reg "c20.col_number_to_name" (fun a -> match a with
    | [n] -> show_res hex_of_bytes (col_number_to_name (z_of_string n)) | _ -> "bad-args");
  reg "c20.split_cell_name" (fun a -> match a with
    | [s] -> show_res (fun (c, r) -> hex_of_bytes c ^ " " ^ string_of_z r) (split_cell_name (bytes_of_hex s)) | _ -> "bad-args");
  reg "c20.join_cell_name" (fun a -> match a with
    | [c; r] -> show_res hex_of_bytes (join_cell_name (bytes_of_hex c) (z_of_string r)) | _ -> "bad-args");
  reg "c20.cell_name_to_coords" (fun a -> match a with
    | [s] -> show_res (fun (c, r) -> string_of_z c ^ " " ^ string_of_z r) (cell_name_to_coords (bytes_of_hex s)) | _ -> "bad-args");
  reg "c20.coords_to_cell_name" (fun a -> match a with
    | [c; r; ab] -> show_res hex_of_bytes (coords_to_cell_name (z_of_string c) (z_of_string r) (bool_of_arg ab)) | _ -> "bad-args")


let () =
  try
    while true do
      let line = input_line stdin in
      let toks = String.split_on_char ' ' line |> List.filter (fun s -> s <> "") in
      (match toks with
       | [] -> print_string "empty\n"
       | fn :: args ->
         (match Hashtbl.find_opt handlers fn with
          | Some h -> (try print_string (h args) with e -> print_string ("exn " ^ Printexc.to_string e)); print_char '\n'
          | None -> print_string ("unknown-fn " ^ fn ^ "\n")))
    done
  with End_of_file -> ()
