// lockgen: translator from the excelize source to the lock table checked in Coq (coq/Generated/Locks.v).
//
// For every function whose documentation says "concurrency safe" it walks the body (and, to a bounded depth,
// the package functions it calls) keeping the set of mutex classes held at each point, and records every access
// to a tracked shared field together with that set.  Lock classes and resources are identified by the struct type
// that owns the mutex / the field (resolved with go/types, imports stubbed), so renaming a variable changes nothing
// while removing a Lock call does.
//
//	lockgen <repo-dir> <out.v> [out.json]
package main

import (
	"encoding/json"
	"fmt"
	"go/ast"
	"go/importer"
	"go/parser"
	"go/token"
	"go/types"
	"os"
	"path/filepath"
	"sort"
	"strings"
)

var lockClass = map[string]int{"File": 1, "xlsxWorksheet": 2, "xlsxStyleSheet": 3, "xlsxSST": 4, "xlsxRelationships": 5, "xlsxTypes": 6}
var lockName = map[int]string{1: "File.mu", 2: "xlsxWorksheet.mu", 3: "xlsxStyleSheet.mu", 4: "xlsxSST.mu", 5: "xlsxRelationships.mu", 6: "xlsxTypes.mu"}

// tracked shared fields: owner type . field -> resource id
var resourceOf = map[string]int{
	"xlsxWorksheet.SheetData": 1, "xlsxSheetData.Row": 1,
	"xlsxWorksheet.Cols":            2,
	"xlsxWorksheet.DataValidations": 3,
	"xlsxWorksheet.Drawing":         7,
	"xlsxStyleSheet.CellXfs":        4, "xlsxStyleSheet.Fonts": 4, "xlsxStyleSheet.Fills": 4, "xlsxStyleSheet.Borders": 4, "xlsxStyleSheet.NumFmts": 4,
	"xlsxSST.SI": 5, "xlsxSST.Count": 5, "xlsxSST.UniqueCount": 5, "File.sharedStringsMap": 5,
}
var resourceName = map[int]string{1: "worksheet cells (SheetData)", 2: "worksheet columns (Cols)", 3: "worksheet data validations", 4: "style sheet tables", 5: "shared string table", 6: "decoding and publishing a worksheet part", 7: "worksheet drawing reference"}

// Part readers decode into an object no other goroutine can see yet and publish it: their internal accesses are
// not shared accesses.  A call to one of them is itself an access to resource 6 and must be made under File.mu.
// Only the worksheet reader is checked this way; the style sheet, workbook and shared strings are decoded when the
// workbook is created or opened, or by sharedStringsReader under its own File.mu section (stated in DESIGN, C15).
var partReaders = map[string]bool{"workSheetReader": true}
var skippedReaders = map[string]bool{"stylesReader": true, "sharedStringsReader": true, "workbookReader": true}

// The formula engine reads the whole workbook and is not among the concurrency-safe functions; GetPictures reaches it
// only for cells holding a DISPIMG formula.  Not descended into (stated in DESIGN, C15).
// setArrayFormulaCells is called by getCellFormula only when asked for transformed formulas, which only the engine does.
var notDescended = map[string]bool{"CalcCellValue": true, "setArrayFormulaCells": true}

// Resources 4, 5 and 6 (style sheet, shared strings, publication of decoded parts) belong to the workbook, and two
// calls may work on different worksheets: the lock of "the" worksheet (class 2, one mutex per worksheet) excludes
// nothing between them and is not counted as protection of a workbook-level resource.  (Resources 1, 2, 3 and 7
// belong to one worksheet and are protected by that worksheet's lock.)
var workbookLevel = map[int]bool{4: true, 5: true, 6: true}

func protecting(res int, held []int) []int {
	if !workbookLevel[res] {
		return held
	}
	out := []int{}
	for _, l := range held {
		if l != 2 {
			out = append(out, l)
		}
	}
	return out
}

type access struct {
	Res   int    `json:"resource"`
	Write bool   `json:"write"`
	Locks []int  `json:"locks"`
	Pos   string `json:"pos"`
	Via   string `json:"via"`
	// the critical section (Lock call number) of every lock held at the access
	Secs map[int]int `json:"-"`
}

type stubImporter struct{ pkgs map[string]*types.Package }

func (s *stubImporter) Import(path string) (*types.Package, error) {
	if p, ok := s.pkgs[path]; ok {
		return p, nil
	}
	// the standard library is available from source; everything else is stubbed
	if !strings.Contains(path, ".") {
		if p, err := importer.ForCompiler(token.NewFileSet(), "source", nil).Import(path); err == nil {
			s.pkgs[path] = p
			return p, nil
		}
	}
	name := path[strings.LastIndex(path, "/")+1:]
	p := types.NewPackage(path, name)
	p.MarkComplete()
	s.pkgs[path] = p
	return p, nil
}

// lock class -> acquisition sequence number (the order in which the held locks were taken)
type lockset map[int]int

func (l lockset) copy() lockset {
	c := lockset{}
	for k, v := range l {
		c[k] = v
	}
	return c
}

// held locks in acquisition order
func (l lockset) list() []int {
	var out []int
	for k := range l {
		out = append(out, k)
	}
	sort.Slice(out, func(i, j int) bool { return l[out[i]] < l[out[j]] })
	return out
}
func (l lockset) acquire(cl int) {
	if _, ok := l[cl]; ok {
		return
	}
	max := 0
	for _, v := range l {
		if v > max {
			max = v
		}
	}
	l[cl] = max + 1
}
func intersect(a, b lockset) lockset {
	c := lockset{}
	for k, v := range a {
		if _, ok := b[k]; ok {
			c[k] = v
		}
	}
	return c
}

type gen struct {
	fset  *token.FileSet
	info  *types.Info
	decls map[*types.Func]*ast.FuncDecl
	out   []access
	stack map[*types.Func]bool
	via   string
	// function literals passed as arguments: analysed where the callee invokes the parameter, with the locks held there
	closures map[*types.Var]*ast.FuncLit
	// (held, acquired) pairs seen at every Lock call reachable from a documented function
	order map[[2]int]string
	// block nesting below the spine of the documented function (through calls made on the spine), and whether a
	// part reader has already run on the spine under File.mu: the worksheet is then decoded and published, and a
	// later reader call in the same documented function is a lookup of the published object (sync.Map), not an
	// access to resource 6.  Assumes one worksheet per documented call (true of every function in the table).
	nest        int
	published   bool
	republished []string
	// critical sections: a counter advanced at every Lock call, and the section each lock class is currently in
	sectionSeq int
	section    map[int]int
}

func namedOf(t types.Type) string {
	for {
		switch x := t.(type) {
		case *types.Pointer:
			t = x.Elem()
			continue
		case *types.Named:
			return x.Obj().Name()
		}
		return ""
	}
}

// X.mu.Lock() / Unlock(): returns class, isLock, ok
func (g *gen) lockCall(call *ast.CallExpr) (int, bool, bool) {
	sel, ok := call.Fun.(*ast.SelectorExpr)
	if !ok {
		return 0, false, false
	}
	op := sel.Sel.Name
	if op != "Lock" && op != "Unlock" && op != "RLock" && op != "RUnlock" {
		return 0, false, false
	}
	mu, ok := sel.X.(*ast.SelectorExpr)
	if !ok || mu.Sel.Name != "mu" {
		return 0, false, false
	}
	tv, ok := g.info.Types[mu.X]
	if !ok {
		return 0, false, false
	}
	cl, ok := lockClass[namedOf(tv.Type)]
	if !ok {
		return 0, false, false
	}
	return cl, op == "Lock" || op == "RLock", true
}

func (g *gen) record(sel *ast.SelectorExpr, write bool, held lockset) {
	tv, ok := g.info.Types[sel.X]
	if !ok {
		return
	}
	res, ok := resourceOf[namedOf(tv.Type)+"."+sel.Sel.Name]
	if !ok {
		return
	}
	p := g.fset.Position(sel.Pos())
	secs := map[int]int{}
	for _, l := range held.list() {
		secs[l] = g.section[l]
	}
	g.out = append(g.out, access{Res: res, Write: write, Locks: protecting(res, held.list()), Pos: fmt.Sprintf("%s:%d", filepath.Base(p.Filename), p.Line), Via: g.via, Secs: secs})
}

// scan an expression: accesses (write if under an assignment target), calls into the package
func (g *gen) expr(e ast.Expr, write bool, held lockset, depth int) {
	if e == nil {
		return
	}
	switch x := e.(type) {
	case *ast.SelectorExpr:
		g.record(x, write, held)
		g.expr(x.X, write, held, depth)
	case *ast.IndexExpr:
		g.expr(x.X, write, held, depth)
		g.expr(x.Index, false, held, depth)
	case *ast.SliceExpr:
		g.expr(x.X, write, held, depth)
		g.expr(x.Low, false, held, depth)
		g.expr(x.High, false, held, depth)
	case *ast.StarExpr:
		g.expr(x.X, write, held, depth)
	case *ast.ParenExpr:
		g.expr(x.X, write, held, depth)
	case *ast.UnaryExpr:
		// &x.F hands out a pointer through which the callee may write
		g.expr(x.X, write || x.Op == token.AND, held, depth)
	case *ast.BinaryExpr:
		g.expr(x.X, false, held, depth)
		g.expr(x.Y, false, held, depth)
	case *ast.KeyValueExpr:
		g.expr(x.Value, false, held, depth)
	case *ast.CompositeLit:
		for _, el := range x.Elts {
			g.expr(el, false, held, depth)
		}
	case *ast.TypeAssertExpr:
		g.expr(x.X, false, held, depth)
	case *ast.FuncLit:
		g.nest++
		g.block(x.Body.List, held.copy(), depth)
		g.nest--
	case *ast.CallExpr:
		// a call of a parameter bound to a function literal: the literal runs here
		if id, ok := x.Fun.(*ast.Ident); ok {
			if v, ok := g.info.Uses[id].(*types.Var); ok {
				if lit := g.closures[v]; lit != nil {
					g.nest++
					g.block(lit.Body.List, held.copy(), depth)
					g.nest--
				}
			}
		}
		inPackage := g.calleeDecl(x) != nil
		for _, a := range x.Args {
			if _, isLit := a.(*ast.FuncLit); isLit && inPackage {
				continue // analysed inside the callee
			}
			g.expr(a, false, held, depth)
		}
		if sel, ok := x.Fun.(*ast.SelectorExpr); ok {
			g.expr(sel.X, false, held, depth)
		}
		g.call(x, held, depth)
	}
}

func (g *gen) calleeDecl(call *ast.CallExpr) *ast.FuncDecl {
	var id *ast.Ident
	switch f := call.Fun.(type) {
	case *ast.Ident:
		id = f
	case *ast.SelectorExpr:
		id = f.Sel
	}
	if id == nil {
		return nil
	}
	if fn, ok := g.info.Uses[id].(*types.Func); ok {
		return g.decls[fn]
	}
	return nil
}

func (g *gen) call(call *ast.CallExpr, held lockset, depth int) {
	var id *ast.Ident
	switch f := call.Fun.(type) {
	case *ast.Ident:
		id = f
	case *ast.SelectorExpr:
		id = f.Sel
	}
	if id == nil || depth <= 0 {
		return
	}
	fn, ok := g.info.Uses[id].(*types.Func)
	if !ok {
		return
	}
	if partReaders[fn.Name()] {
		p := g.fset.Position(call.Pos())
		if _, underFile := held[1]; underFile && g.nest == 0 {
			g.published = true
		} else if !underFile && g.published {
			g.republished = append(g.republished, fmt.Sprintf("%s:%d via %s", filepath.Base(p.Filename), p.Line, g.via))
			return
		}
		g.out = append(g.out, access{Res: 6, Write: true, Locks: protecting(6, held.list()), Pos: fmt.Sprintf("%s:%d", filepath.Base(p.Filename), p.Line), Via: g.via})
		return
	}
	if notDescended[fn.Name()] || skippedReaders[fn.Name()] {
		return
	}
	decl, ok := g.decls[fn]
	if !ok || decl.Body == nil || g.stack[fn] {
		return
	}
	// bind function-literal arguments to the callee's parameters
	var bound []*types.Var
	if decl.Type.Params != nil {
		i := 0
		for _, fld := range decl.Type.Params.List {
			for _, nm := range fld.Names {
				if i < len(call.Args) {
					if lit, ok := call.Args[i].(*ast.FuncLit); ok {
						if v, ok := g.info.Defs[nm].(*types.Var); ok {
							g.closures[v] = lit
							bound = append(bound, v)
						}
					}
				}
				i++
			}
		}
	}
	g.stack[fn] = true
	g.block(decl.Body.List, held.copy(), depth-1)
	delete(g.stack, fn)
	for _, v := range bound {
		delete(g.closures, v)
	}
}

func terminates(list []ast.Stmt) bool {
	if len(list) == 0 {
		return false
	}
	switch s := list[len(list)-1].(type) {
	case *ast.ReturnStmt:
		return true
	case *ast.BranchStmt:
		return s.Tok == token.CONTINUE || s.Tok == token.BREAK || s.Tok == token.GOTO
	case *ast.ExprStmt:
		if c, ok := s.X.(*ast.CallExpr); ok {
			if id, ok := c.Fun.(*ast.Ident); ok && id.Name == "panic" {
				return true
			}
		}
	}
	return false
}

// walk a statement list; returns the lock set at the end
func (g *gen) block(list []ast.Stmt, held lockset, depth int) lockset {
	for _, st := range list {
		held = g.stmt(st, held, depth)
	}
	return held
}

func (g *gen) stmt(st ast.Stmt, held lockset, depth int) lockset {
	switch s := st.(type) {
	case *ast.ExprStmt:
		if c, ok := s.X.(*ast.CallExpr); ok {
			if cl, isLock, ok := g.lockCall(c); ok {
				if isLock {
					for h := range held {
						if h != cl {
							if _, seen := g.order[[2]int{h, cl}]; !seen {
								p := g.fset.Position(c.Pos())
								g.order[[2]int{h, cl}] = fmt.Sprintf("%s:%d via %s", filepath.Base(p.Filename), p.Line, g.via)
							}
						}
					}
					held.acquire(cl)
					g.sectionSeq++
					if g.section == nil {
						g.section = map[int]int{}
					}
					g.section[cl] = g.sectionSeq
				} else {
					delete(held, cl)
				}
				return held
			}
		}
		g.expr(s.X, false, held, depth)
	case *ast.DeferStmt:
		if _, _, ok := g.lockCall(s.Call); ok {
			return held // released when the function returns
		}
		g.expr(s.Call, false, held, depth)
	case *ast.GoStmt:
		g.expr(s.Call, false, lockset{}, depth)
	case *ast.AssignStmt:
		for _, r := range s.Rhs {
			g.expr(r, false, held, depth)
		}
		for _, l := range s.Lhs {
			g.expr(l, true, held, depth)
		}
	case *ast.IncDecStmt:
		g.expr(s.X, true, held, depth)
	case *ast.DeclStmt:
		if gd, ok := s.Decl.(*ast.GenDecl); ok {
			for _, sp := range gd.Specs {
				if vs, ok := sp.(*ast.ValueSpec); ok {
					for _, v := range vs.Values {
						g.expr(v, false, held, depth)
					}
				}
			}
		}
	case *ast.ReturnStmt:
		for _, r := range s.Results {
			g.expr(r, false, held, depth)
		}
	case *ast.BlockStmt:
		return g.block(s.List, held, depth)
	case *ast.IfStmt:
		if s.Init != nil {
			held = g.stmt(s.Init, held, depth)
		}
		g.expr(s.Cond, false, held, depth)
		g.nest++
		thenEnd := g.block(s.Body.List, held.copy(), depth)
		g.nest--
		elseEnd := held.copy()
		elseTerm := false
		if s.Else != nil {
			g.nest++
			elseEnd = g.stmt(s.Else, held.copy(), depth)
			g.nest--
			if b, ok := s.Else.(*ast.BlockStmt); ok {
				elseTerm = terminates(b.List)
			}
		}
		switch {
		case terminates(s.Body.List) && elseTerm:
			return held
		case terminates(s.Body.List):
			return elseEnd
		case elseTerm:
			return thenEnd
		}
		return intersect(thenEnd, elseEnd)
	case *ast.ForStmt:
		if s.Init != nil {
			held = g.stmt(s.Init, held, depth)
		}
		g.expr(s.Cond, false, held, depth)
		g.nest++
		end := g.block(s.Body.List, held.copy(), depth)
		g.nest--
		if s.Post != nil {
			g.stmt(s.Post, end, depth)
		}
		return intersect(held, end)
	case *ast.RangeStmt:
		g.expr(s.X, false, held, depth)
		g.nest++
		end := g.block(s.Body.List, held.copy(), depth)
		g.nest--
		return intersect(held, end)
	case *ast.SwitchStmt:
		if s.Init != nil {
			held = g.stmt(s.Init, held, depth)
		}
		g.expr(s.Tag, false, held, depth)
		res := held.copy()
		for _, cc := range s.Body.List {
			c := cc.(*ast.CaseClause)
			for _, e := range c.List {
				g.expr(e, false, held, depth)
			}
			g.nest++
			end := g.block(c.Body, held.copy(), depth)
			g.nest--
			if !terminates(c.Body) {
				res = intersect(res, end)
			}
		}
		return res
	case *ast.TypeSwitchStmt:
		res := held.copy()
		for _, cc := range s.Body.List {
			c := cc.(*ast.CaseClause)
			g.nest++
			end := g.block(c.Body, held.copy(), depth)
			g.nest--
			if !terminates(c.Body) {
				res = intersect(res, end)
			}
		}
		return res
	case *ast.LabeledStmt:
		return g.stmt(s.Stmt, held, depth)
	}
	return held
}

func main() {
	if len(os.Args) < 3 {
		fmt.Fprintln(os.Stderr, "usage: lockgen <repo-dir> <out.v> [out.json]")
		os.Exit(2)
	}
	dir, outV := os.Args[1], os.Args[2]
	fset := token.NewFileSet()
	pkgs, err := parser.ParseDir(fset, dir, func(fi os.FileInfo) bool {
		return !strings.HasSuffix(fi.Name(), "_test.go") && fi.Name() != "verif_hooks.go"
	}, parser.ParseComments)
	if err != nil {
		fmt.Fprintln(os.Stderr, "lockgen: parse:", err)
		os.Exit(1)
	}
	pkg := pkgs["excelize"]
	if pkg == nil {
		fmt.Fprintln(os.Stderr, "lockgen: package excelize not found in", dir)
		os.Exit(1)
	}
	var files []*ast.File
	var names []string
	for n := range pkg.Files {
		names = append(names, n)
	}
	sort.Strings(names)
	for _, n := range names {
		files = append(files, pkg.Files[n])
	}
	info := &types.Info{Types: map[ast.Expr]types.TypeAndValue{}, Uses: map[*ast.Ident]types.Object{}, Defs: map[*ast.Ident]types.Object{}, Selections: map[*ast.SelectorExpr]*types.Selection{}}
	conf := types.Config{Importer: &stubImporter{pkgs: map[string]*types.Package{}}, Error: func(error) {}, FakeImportC: true}
	_, _ = conf.Check("github.com/xuri/excelize/v2", fset, files, info)

	g := &gen{fset: fset, info: info, decls: map[*types.Func]*ast.FuncDecl{}, closures: map[*types.Var]*ast.FuncLit{}, order: map[[2]int]string{}}
	type doc struct {
		name string
		decl *ast.FuncDecl
	}
	var docs []doc
	for _, f := range files {
		for _, d := range f.Decls {
			fd, ok := d.(*ast.FuncDecl)
			if !ok {
				continue
			}
			if obj, ok := info.Defs[fd.Name].(*types.Func); ok {
				g.decls[obj] = fd
			}
			if fd.Doc != nil && strings.Contains(strings.ReplaceAll(strings.Join(strings.Fields(fd.Doc.Text()), " "), "concurrency-safe", "concurrency safe"), "concurrency safe") {
				name := fd.Name.Name
				if fd.Recv != nil && len(fd.Recv.List) > 0 {
					name = namedOfExpr(fd.Recv.List[0].Type) + "." + name
				}
				docs = append(docs, doc{name, fd})
			}
		}
	}
	sort.Slice(docs, func(i, j int) bool { return docs[i].name < docs[j].name })
	if len(docs) == 0 {
		fmt.Fprintln(os.Stderr, "lockgen: no function documented as concurrency safe found")
		os.Exit(1)
	}
	type entry struct {
		Name     string   `json:"name"`
		Accesses []access `json:"accesses"`
	}
	var table []entry
	type splitRec struct {
		Fn       string `json:"function"`
		Res      int    `json:"resource"`
		Sections int    `json:"sections"`
	}
	var splits []splitRec
	for _, d := range docs {
		g.out, g.stack, g.via = nil, map[*types.Func]bool{}, d.name
		g.nest, g.published = 0, false
		if obj, ok := info.Defs[d.decl.Name].(*types.Func); ok {
			g.stack[obj] = true
		}
		g.sectionSeq, g.section = 0, map[int]int{}
		g.block(d.decl.Body.List, lockset{}, 6)
		// a worksheet-level resource (1, 2, 3, 7) written by the function in a critical section of the worksheet lock
		// after having been read or written by it in an EARLIER critical section of that lock: between the two
		// sections another goroutine may change the resource, so what the later section writes rests on stale state
		// (check-then-act across sections).  Recorded per function as (resource, number of sections).
		for _, res := range []int{1, 2, 3, 7} {
			first, split := 0, false
			secs := map[int]bool{}
			for _, a := range g.out {
				if a.Res != res {
					continue
				}
				sec, ok := a.Secs[2]
				if !ok {
					continue
				}
				secs[sec] = true
				if first == 0 || sec < first {
					first = sec
				}
			}
			for _, a := range g.out {
				if a.Res == res && a.Write {
					if sec, ok := a.Secs[2]; ok && sec > first {
						split = true
					}
				}
			}
			if split {
				splits = append(splits, splitRec{d.name, res, len(secs)})
			}
		}
		// de-duplicate (resource, write, locks)
		seen := map[string]bool{}
		var acc []access
		for _, a := range g.out {
			k := fmt.Sprint(a.Res, a.Write, a.Locks)
			if !seen[k] {
				seen[k] = true
				acc = append(acc, a)
			}
		}
		sort.SliceStable(acc, func(i, j int) bool {
			if acc[i].Res != acc[j].Res {
				return acc[i].Res < acc[j].Res
			}
			return fmt.Sprint(acc[i].Write, acc[i].Locks) < fmt.Sprint(acc[j].Write, acc[j].Locks)
		})
		table = append(table, entry{d.name, acc})
	}
	var sb strings.Builder
	sb.WriteString("(* GENERATED by harness/cmd/lockgen from the excelize source: do not edit.\n")
	sb.WriteString("   One entry per function documented as concurrency safe: the accesses to tracked shared state it can make\n")
	sb.WriteString("   (resource, is-write, lock classes held).  Lock classes: ")
	for i := 1; i <= 6; i++ {
		fmt.Fprintf(&sb, "%d=%s ", i, lockName[i])
	}
	sb.WriteString("\n   Resources: ")
	for i := 1; i <= 6; i++ {
		fmt.Fprintf(&sb, "%d=%s; ", i, resourceName[i])
	}
	sb.WriteString("*)\nFrom Coq Require Import ZArith List.\nImport ListNotations.\nOpen Scope Z_scope.\n\n")
	sb.WriteString("Definition lock_table : list (list (Z * bool * list Z)) := [\n")
	for i, e := range table {
		fmt.Fprintf(&sb, "  (* %d %s *)\n  [", i, e.Name)
		for j, a := range e.Accesses {
			if j > 0 {
				sb.WriteString("; ")
			}
			var ls []string
			for _, l := range a.Locks {
				ls = append(ls, fmt.Sprint(l))
			}
			fmt.Fprintf(&sb, "(%d, %v, [%s])", a.Res, a.Write, strings.Join(ls, "; "))
		}
		sb.WriteString("]")
		if i < len(table)-1 {
			sb.WriteString(";")
		}
		sb.WriteString("\n")
	}
	sb.WriteString("].\n\n(* (held, acquired) for every Lock call reachable from those functions *)\nDefinition lock_order : list (Z * Z) := [")
	var pairs [][2]int
	for k := range g.order {
		pairs = append(pairs, k)
	}
	sort.Slice(pairs, func(i, j int) bool { return pairs[i][0]*10+pairs[i][1] < pairs[j][0]*10+pairs[j][1] })
	for i, k := range pairs {
		if i > 0 {
			sb.WriteString("; ")
		}
		fmt.Fprintf(&sb, "(%d, %d)", k[0], k[1])
	}
	sb.WriteString("].\n")
	for _, k := range pairs {
		fmt.Fprintf(&sb, "(* %s then %s: %s *)\n", lockName[k[0]], lockName[k[1]], g.order[k])
	}
	sb.WriteString("\n(* (function index, resource) written in a later critical section of the worksheet lock than the one it was first\n   accessed in by the same call *)\nDefinition split_sections : list (Z * Z) := [")
	for i, sp := range splits {
		if i > 0 {
			sb.WriteString("; ")
		}
		idx := 0
		for k, e := range table {
			if e.Name == sp.Fn {
				idx = k
			}
		}
		fmt.Fprintf(&sb, "(%d, %d)", idx, sp.Res)
	}
	sb.WriteString("].\n")
	for _, sp := range splits {
		fmt.Fprintf(&sb, "(* %s: %s in %d critical sections *)\n", sp.Fn, resourceName[sp.Res], sp.Sections)
	}
	if err := os.WriteFile(outV, []byte(sb.String()), 0o644); err != nil {
		fmt.Fprintln(os.Stderr, "lockgen:", err)
		os.Exit(1)
	}
	if len(os.Args) > 3 {
		b, _ := json.MarshalIndent(map[string]interface{}{"functions": table, "locks": lockName, "resources": resourceName, "lookups_of_published_sheet": g.republished, "split_sections": splits}, "", " ")
		os.WriteFile(os.Args[3], b, 0o644)
	}
	fmt.Printf("lockgen: %d documented functions\n", len(table))
}

func namedOfExpr(e ast.Expr) string {
	switch x := e.(type) {
	case *ast.StarExpr:
		return namedOfExpr(x.X)
	case *ast.Ident:
		return x.Name
	}
	return "?"
}
