// vh: correspondence + direct-oracle harness. One subcommand per property.
//   vh C20 --tier quick --seed 1 --out result.json [--replay file]
package main

import (
	"bufio"
	"crypto/sha256"
	"encoding/hex"
	"encoding/json"
	"flag"
	"fmt"
	"io"
	"math/rand"
	"os"
	"os/exec"
	"sort"
	"strings"
	"time"
)

type Failure struct {
	Kind     string      `json:"kind"`     // "model-impl" | "oracle"
	Relation string      `json:"relation"` // which relation / oracle failed
	Case     interface{} `json:"case"`
	Detail   string      `json:"detail"`
	KnownID  string      `json:"known_id,omitempty"`
}

type Result struct {
	Property   string         `json:"property"`
	Tier       string         `json:"tier"`
	Seed       int64          `json:"seed"`
	Evals      int            `json:"evaluations"`
	Distinct   int            `json:"distinct_nontrivial"`
	Rule       string         `json:"rule"`
	Samples    []interface{}  `json:"samples"`
	Traces     int            `json:"traces_validated_against_impl"`
	Dist       map[string]int `json:"input_distribution"`
	Failures   []Failure      `json:"failures"`
	Known      []Failure      `json:"known_findings_seen"`
	Notes      []string       `json:"notes"`
	Exhaustive bool           `json:"exhaustive"`
	hashes     map[string]struct{}
}

type Ctx struct {
	Tier   string
	Seed   int64
	Rng    *rand.Rand
	R      *Result
	Model  *Model
	Known  map[string]bool // listed known-finding ids for this property
	Replay string
	maxFail int
}

func (c *Ctx) Thorough() bool { return c.Tier == "thorough" }

// Count records one evaluation; nontrivial cases are hashed for the distinct count.
func (c *Ctx) Count(kind string, nontrivial bool, canon string) {
	c.R.Evals++
	c.R.Dist[kind]++
	if nontrivial {
		h := sha256.Sum256([]byte(kind + "|" + canon))
		c.R.hashes[hex.EncodeToString(h[:8])] = struct{}{}
	}
}

func (c *Ctx) Sample(s interface{}) {
	if len(c.R.Samples) < 12 {
		c.R.Samples = append(c.R.Samples, s)
	}
}

// Fail records a failure; matcher ids decide known vs. new.
func (c *Ctx) Fail(kind, relation string, cs interface{}, detail string, knownID string) {
	f := Failure{Kind: kind, Relation: relation, Case: cs, Detail: detail}
	if knownID != "" && c.Known[knownID] {
		f.KnownID = knownID
		for _, k := range c.R.Known {
			if k.KnownID == knownID {
				return // one line per listed finding
			}
		}
		c.R.Known = append(c.R.Known, f)
		return
	}
	// the cap is per kind: correspondence failures must not crowd out a concrete failing input found later
	n := 0
	for _, g := range c.R.Failures {
		if (g.Kind == "oracle") == (kind == "oracle") {
			n++
		}
	}
	if n < c.maxFail {
		c.R.Failures = append(c.R.Failures, f)
	}
}

func (c *Ctx) Failed() bool { return len(c.R.Failures) > 0 }

// ---- model client (extracted Coq model, line protocol) ----

type Model struct {
	path string
}

// Call evaluates a batch of request lines in one vmodel process.
func (m *Model) Call(lines []string) []string {
	if len(lines) == 0 {
		return nil
	}
	cmd := exec.Command(m.path)
	stdin, _ := cmd.StdinPipe()
	stdout, _ := cmd.StdoutPipe()
	cmd.Stderr = os.Stderr
	if err := cmd.Start(); err != nil {
		fatal("cannot start vmodel: %v", err)
	}
	go func() {
		w := bufio.NewWriterSize(stdin, 1<<20)
		for _, l := range lines {
			w.WriteString(l)
			w.WriteByte('\n')
		}
		w.Flush()
		stdin.Close()
	}()
	out := make([]string, 0, len(lines))
	rd := bufio.NewReaderSize(stdout, 1<<20)
	for {
		l, err := rd.ReadString('\n')
		if len(l) > 0 {
			out = append(out, strings.TrimRight(l, "\n"))
		}
		if err != nil {
			if err != io.EOF {
				fatal("vmodel read: %v", err)
			}
			break
		}
	}
	cmd.Wait()
	if len(out) != len(lines) {
		fatal("vmodel returned %d lines for %d requests", len(out), len(lines))
	}
	return out
}

func hexb(s string) string { return "x" + hex.EncodeToString([]byte(s)) }
func unhex(s string) string {
	b, err := hex.DecodeString(strings.TrimPrefix(s, "x"))
	if err != nil {
		return "<badhex:" + s + ">"
	}
	return string(b)
}
func tf(b bool) string {
	if b {
		return "t"
	}
	return "f"
}

func fatal(format string, a ...interface{}) {
	fmt.Fprintf(os.Stderr, "vh: "+format+"\n", a...)
	os.Exit(2)
}

// ---- known findings ----

func loadKnown(path, prop string) map[string]bool {
	res := map[string]bool{}
	b, err := os.ReadFile(path)
	if err != nil {
		return res
	}
	for _, l := range strings.Split(string(b), "\n") {
		l = strings.TrimSpace(l)
		if !strings.HasPrefix(l, "known:") {
			continue
		}
		fs := strings.Fields(l)
		p, id := "", ""
		for _, f := range fs {
			if strings.HasPrefix(f, "property=") {
				p = strings.TrimPrefix(f, "property=")
			}
			if strings.HasPrefix(f, "id=") {
				id = strings.TrimPrefix(f, "id=")
			}
		}
		if p == prop && id != "" {
			res[id] = true
		}
	}
	return res
}

type propFn struct {
	run    func(c *Ctx)
	replay func(c *Ctx, f Failure)
}

var props = map[string]propFn{}

func main() {
	if len(os.Args) < 2 {
		fatal("usage: vh <property> [flags]")
	}
	prop := os.Args[1]
	fs := flag.NewFlagSet("vh", flag.ExitOnError)
	tier := fs.String("tier", "quick", "quick|thorough")
	seed := fs.Int64("seed", 1, "PRNG seed")
	out := fs.String("out", "", "result json path")
	replay := fs.String("replay", "", "replay file")
	vmodel := fs.String("vmodel", "/verif/build/vmodel", "model runner")
	known := fs.String("known", "/verif/KNOWN_FINDINGS.txt", "known findings file")
	fs.Parse(os.Args[2:])
	if prop == "worker" {
		workerMain(fs.Args())
		return
	}
	p, ok := props[prop]
	if !ok {
		fatal("unknown property %s", prop)
	}
	r := &Result{Property: prop, Tier: *tier, Seed: *seed, Dist: map[string]int{}, hashes: map[string]struct{}{}}
	c := &Ctx{Tier: *tier, Seed: *seed, Rng: rand.New(rand.NewSource(*seed)), R: r,
		Model: &Model{path: *vmodel}, Known: loadKnown(*known, prop), Replay: *replay, maxFail: 5}
	if v := os.Getenv("VH_MAXFAIL"); v != "" {
		fmt.Sscan(v, &c.maxFail)
	}
	start := time.Now()
	if *replay != "" {
		b, err := os.ReadFile(*replay)
		if err != nil {
			fatal("replay: %v", err)
		}
		var rp struct {
			Failures []Failure `json:"failures"`
		}
		if err := json.Unmarshal(b, &rp); err != nil {
			fatal("replay: %v", err)
		}
		for _, f := range rp.Failures {
			if p.replay != nil {
				p.replay(c, f)
			}
		}
	} else {
		p.run(c)
	}
	r.Distinct = len(r.hashes)
	_ = start
	keys := make([]string, 0, len(r.Dist))
	for k := range r.Dist {
		keys = append(keys, k)
	}
	sort.Strings(keys)
	b, _ := json.MarshalIndent(r, "", " ")
	if *out != "" {
		os.WriteFile(*out, b, 0o644)
	} else {
		os.Stdout.Write(b)
	}
	for _, k := range r.Known {
		fmt.Printf("KNOWN-FINDING: property=%s %s: %s\n", prop, k.KnownID, k.Detail)
	}
	if len(r.Failures) > 0 {
		for _, f := range r.Failures {
			fmt.Printf("FAIL %s %s: %s\n", f.Kind, f.Relation, f.Detail)
		}
		os.Exit(1)
	}
}
