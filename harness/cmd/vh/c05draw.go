package main

import (
	"bytes"
	"fmt"
	"image"
	"image/color"
	"image/png"

	"github.com/xuri/excelize/v2"
)

// C05: histories over the drawing layer of several worksheets: pictures (two image contents, so media parts are
// shared between cells and between sheets), charts, shapes, comments, their deletions, sheet deletion and copy,
// and reopen steps in between, so that parts of sheets the session has not touched exist only as package bytes.
// Every history ends in the package validator: each relationship target and each r:id must resolve.

type dop struct {
	Op    string `json:"op"`
	Sheet string `json:"sheet,omitempty"`
	Cell  string `json:"cell,omitempty"`
	Img   int    `json:"img,omitempty"`
}

func c05Image(i int) []byte {
	img := image.NewRGBA(image.Rect(0, 0, 4+i, 4))
	for x := 0; x < 4+i; x++ {
		for y := 0; y < 4; y++ {
			img.Set(x, y, color.RGBA{uint8(40 * i), uint8(60 * x), uint8(60 * y), 255})
		}
	}
	var b bytes.Buffer
	png.Encode(&b, img)
	return b.Bytes()
}

var c05images = [][]byte{c05Image(0), c05Image(1)}

// drawGen tracks which cells were given a picture so deletions mostly hit one; histories come in phases
// (mostly additions, then a reopen, then mostly deletions) as well as unphased
type drawGen struct {
	c      *Ctx
	sheets []string
	pics   []dop
}

func (g *drawGen) op(phase int) dop {
	c := g.c
	cells := []string{"B2", "D4", "F9"}
	o := dop{Sheet: g.sheets[c.Rng.Intn(len(g.sheets))], Cell: cells[c.Rng.Intn(len(cells))]}
	k := c.Rng.Intn(20)
	switch phase {
	case 1: // build
		if k < 12 {
			k = 0
		}
	case 2: // take apart
		if k < 12 {
			k = 6
		}
	}
	switch {
	case k < 6:
		o.Op, o.Img = "addpic", c.Rng.Intn(len(c05images))
		g.pics = append(g.pics, o)
	case k < 10:
		o.Op = "delpic"
		if len(g.pics) > 0 && c.Rng.Intn(5) != 0 {
			i := c.Rng.Intn(len(g.pics))
			o.Sheet, o.Cell = g.pics[i].Sheet, g.pics[i].Cell
			g.pics = append(g.pics[:i], g.pics[i+1:]...)
		}
	case k < 12:
		o.Op = "reopen"
	case k < 13:
		o.Op = "getpics"
	case k < 14:
		o.Op = "addchart"
	case k < 15:
		o.Op = "delchart"
	case k < 16:
		o.Op = "addshape"
	case k < 17:
		o.Op = "addcomment"
	case k < 18:
		o.Op = "delcomment"
	case k < 19:
		o.Op = "copysheet"
	default:
		o.Op = "delsheet"
	}
	return o
}

func (g *drawGen) history() []dop {
	c := g.c
	g.pics = nil
	var ops []dop
	if c.Rng.Intn(3) == 0 {
		for j := 0; j < 4+c.Rng.Intn(14); j++ {
			ops = append(ops, g.op(0))
		}
		return ops
	}
	for j := 0; j < 3+c.Rng.Intn(6); j++ {
		ops = append(ops, g.op(1))
	}
	ops = append(ops, dop{Op: "reopen"})
	for j := 0; j < 1+c.Rng.Intn(5); j++ {
		ops = append(ops, g.op(2))
	}
	return ops
}

// apply returns the (possibly reopened) workbook
func c05DrawApply(f *excelize.File, o dop) (*excelize.File, error) {
	switch o.Op {
	case "addpic":
		return f, f.AddPictureFromBytes(o.Sheet, o.Cell, &excelize.Picture{Extension: ".png", File: c05images[o.Img], Format: &excelize.GraphicOptions{AltText: "p<&>"}})
	case "delpic":
		return f, f.DeletePicture(o.Sheet, o.Cell)
	case "getpics":
		_, err := f.GetPictures(o.Sheet, o.Cell)
		return f, err
	case "addchart":
		return f, f.AddChart(o.Sheet, o.Cell, &excelize.Chart{Type: excelize.Col, Series: []excelize.ChartSeries{{Name: "S1!$A$1", Categories: "S1!$A$1:$A$3", Values: "S1!$B$1:$B$3"}}})
	case "delchart":
		return f, f.DeleteChart(o.Sheet, o.Cell)
	case "addshape":
		return f, f.AddShape(o.Sheet, &excelize.Shape{Cell: o.Cell, Type: "rect", Paragraph: []excelize.RichTextRun{{Text: "s"}}, Width: 40, Height: 20})
	case "addcomment":
		return f, f.AddComment(o.Sheet, excelize.Comment{Cell: o.Cell, Author: "a", Paragraph: []excelize.RichTextRun{{Text: "c"}}})
	case "delcomment":
		return f, f.DeleteComment(o.Sheet, o.Cell)
	case "copysheet":
		from, err := f.GetSheetIndex(o.Sheet)
		if err != nil || from < 0 {
			return f, err
		}
		name := fmt.Sprintf("%sc%d", o.Sheet, len(f.GetSheetList()))
		to, err := f.NewSheet(name)
		if err != nil {
			return f, err
		}
		return f, f.CopySheet(from, to)
	case "delsheet":
		if len(f.GetSheetList()) > 2 {
			return f, f.DeleteSheet(o.Sheet)
		}
		return f, nil
	case "reopen":
		var buf bytes.Buffer
		if err := f.Write(&buf); err != nil {
			return f, err
		}
		g, err := excelize.OpenReader(bytes.NewReader(buf.Bytes()))
		if err != nil {
			return f, fmt.Errorf("reopen: %w", err)
		}
		f.Close()
		return g, nil
	}
	return f, nil
}

func (c *Ctx) c05DrawingHistories(n int) {
	sheets := []string{"S1", "S2", "S3"}
	for i := 0; i < n; i++ {
		ops := (&drawGen{c: c, sheets: sheets}).history()
		c.guard("C05_no_panic", ops, func() {
			f := excelize.NewFile()
			f.SetSheetName("Sheet1", "S1")
			f.NewSheet("S2")
			f.NewSheet("S3")
			for r := 1; r <= 3; r++ {
				f.SetSheetRow("S1", fmt.Sprintf("A%d", r), &[]interface{}{fmt.Sprintf("k%d", r), r})
			}
			for _, o := range ops {
				g, err := c05DrawApply(f, o)
				f = g
				if err != nil {
					c.R.Dist["drawing-op-rejected"]++
					if o.Op == "reopen" {
						c.Fail("oracle", "C05_wf", ops, "drawing history: the workbook written mid-history does not reopen: "+err.Error(), "")
						break
					}
				} else {
					c.R.Dist["drawing-op-"+o.Op]++
				}
			}
			c.c05Check("drawing history", ops, f, nil)
			f.Close()
		})
	}
}
