package main

import (
	"errors"
	"fmt"
	"math"
	"regexp"
	"strconv"
	"strings"
	"time"

	"github.com/xuri/excelize/v2"
)

func init() { props["C20"] = propFn{run: runC20, replay: replayC20} }

func c20ErrClass(err error) int {
	if err == nil {
		return 0
	}
	switch {
	case errors.Is(err, excelize.ErrColumnNumber):
		return 2
	case errors.Is(err, excelize.ErrMaxRows):
		return 4
	}
	m := err.Error()
	switch {
	case strings.HasPrefix(m, "invalid column name"):
		return 1
	case strings.HasPrefix(m, "cannot convert cell"), strings.HasPrefix(m, "invalid cell name"):
		return 3
	case strings.HasPrefix(m, "invalid cell reference"):
		return 5
	case strings.HasPrefix(m, "invalid row number"):
		return 6
	}
	return 99
}

func implColNameToNumber(s string) (out string) {
	defer func() {
		if r := recover(); r != nil {
			out = fmt.Sprintf("panic %v", r)
		}
	}()
	n, err := excelize.ColumnNameToNumber(s)
	return okOrErr(strconv.Itoa(n), c20ErrClass(err), err)
}
func implColNumberToName(n int) (out string) {
	defer func() {
		if r := recover(); r != nil {
			out = fmt.Sprintf("panic %v", r)
		}
	}()
	s, err := excelize.ColumnNumberToName(n)
	return okOrErr(hexb(s), c20ErrClass(err), err)
}
func implSplit(s string) (out string) {
	defer func() {
		if r := recover(); r != nil {
			out = fmt.Sprintf("panic %v", r)
		}
	}()
	c, r, err := excelize.SplitCellName(s)
	return okOrErr(hexb(c)+" "+strconv.Itoa(r), c20ErrClass(err), err)
}
func implJoin(col string, row int) (out string) {
	defer func() {
		if r := recover(); r != nil {
			out = fmt.Sprintf("panic %v", r)
		}
	}()
	s, err := excelize.JoinCellName(col, row)
	return okOrErr(hexb(s), c20ErrClass(err), err)
}
func implCellToCoords(s string) (out string) {
	defer func() {
		if r := recover(); r != nil {
			out = fmt.Sprintf("panic %v", r)
		}
	}()
	c, r, err := excelize.CellNameToCoordinates(s)
	return okOrErr(strconv.Itoa(c)+" "+strconv.Itoa(r), c20ErrClass(err), err)
}
func implCoordsToCell(col, row int, abs bool) (out string) {
	defer func() {
		if r := recover(); r != nil {
			out = fmt.Sprintf("panic %v", r)
		}
	}()
	s, err := excelize.CoordinatesToCellName(col, row, abs)
	return okOrErr(hexb(s), c20ErrClass(err), err)
}

var a1Re = regexp.MustCompile(`^\$?[A-Za-z]{1,3}\$?[0-9]+$`)

// canonical spelling of an accepted reference: no $, upper case, no leading zeros
func canonRef(s string) string {
	s = strings.ToUpper(strings.ReplaceAll(s, "$", ""))
	i := strings.IndexFunc(s, func(r rune) bool { return r >= '0' && r <= '9' })
	if i < 0 {
		return s
	}
	row := strings.TrimLeft(s[i:], "0")
	return s[:i] + row
}

// direct oracle on a candidate string
func (c *Ctx) c20Strict(s string) {
	col, row, err := excelize.CellNameToCoordinates(s)
	if err != nil {
		return
	}
	if !a1Re.MatchString(s) {
		c.Fail("oracle", "C20_cell_strict", map[string]interface{}{"cell": s},
			fmt.Sprintf("CellNameToCoordinates(%q) = (%d,%d,nil) but %q is not an A1-style reference", s, col, row, s), "")
		return
	}
	if col < 1 || col > excelize.MaxColumns || row < 1 || row > excelize.TotalRows {
		c.Fail("oracle", "C20_cell_strict", map[string]interface{}{"cell": s},
			fmt.Sprintf("CellNameToCoordinates(%q) = (%d,%d) outside the grid", s, col, row), "")
		return
	}
	back, err := excelize.CoordinatesToCellName(col, row)
	if err != nil || back != canonRef(s) {
		c.Fail("oracle", "C20_cell_strict", map[string]interface{}{"cell": s},
			fmt.Sprintf("CellNameToCoordinates(%q) = (%d,%d) which names %q, expected %q", s, col, row, back, canonRef(s)), "")
	}
}

func (c *Ctx) c20ColStrict(s string) {
	n, err := excelize.ColumnNameToNumber(s)
	if err != nil {
		return
	}
	okName := len(s) >= 1 && len(s) <= 3
	for i := 0; i < len(s); i++ {
		ch := s[i]
		if !((ch >= 'A' && ch <= 'Z') || (ch >= 'a' && ch <= 'z')) {
			okName = false
		}
	}
	back, err2 := excelize.ColumnNumberToName(n)
	if !okName || n < 1 || n > excelize.MaxColumns || err2 != nil || back != strings.ToUpper(s) {
		c.Fail("oracle", "C20_col_canonical", map[string]interface{}{"col": s},
			fmt.Sprintf("ColumnNameToNumber(%q) = %d, ColumnNumberToName(%d) = %q: not the canonical column of that name", s, n, n, back), "")
	}
}

// spellings of one cell that the API accepts must all address the same cell
func (c *Ctx) c20Spelling(col string, row int) {
	sp := []string{
		col + strconv.Itoa(row), strings.ToLower(col) + strconv.Itoa(row), "$" + col + "$" + strconv.Itoa(row),
		"$" + col + strconv.Itoa(row), col + "$" + strconv.Itoa(row), col + "0" + strconv.Itoa(row),
		"$" + strings.ToLower(col) + "$00" + strconv.Itoa(row),
	}
	canon := col + strconv.Itoa(row)
	for wi, w := range sp {
		f := excelize.NewFile()
		sh := "Sheet1"
		val := fmt.Sprintf("v%d", wi)
		fail := func(what string, a ...interface{}) {
			c.Fail("oracle", "C20_same_cell", map[string]interface{}{"write": w, "col": col, "row": row}, fmt.Sprintf(what, a...), "")
		}
		if err := f.SetCellValue(sh, w, val); err != nil {
			if _, _, e2 := excelize.CellNameToCoordinates(w); e2 == nil {
				fail("SetCellValue(%q) fails (%v) although CellNameToCoordinates accepts it", w, err)
			}
			f.Close()
			continue
		}
		// one sheet per paired API so that the pairs do not interact
		for _, n := range []string{"F", "S", "H", "R"} {
			f.NewSheet(n)
		}
		_ = f.SetCellFormula("F", w, "1+"+strconv.Itoa(wi))
		sid, _ := f.NewStyle(&excelize.Style{Font: &excelize.Font{Bold: true}})
		_ = f.SetCellStyle("S", w, w, sid)
		_ = f.SetCellHyperLink("H", w, "https://example.com/"+val, "External")
		_ = f.SetCellRichText("R", w, []excelize.RichTextRun{{Text: "r" + val}})
		for _, rd := range sp {
			c.Count("spelling", true, w+"|"+rd)
			if got, err := f.GetCellValue(sh, rd); err != nil || got != val {
				fail("SetCellValue(%q,%q) then GetCellValue(%q) = %q, %v", w, val, rd, got, err)
			}
			if got, err := f.GetCellFormula("F", rd); err != nil || got != "1+"+strconv.Itoa(wi) {
				fail("SetCellFormula(%q) then GetCellFormula(%q) = %q, %v", w, rd, got, err)
			}
			if got, err := f.GetCellStyle("S", rd); err != nil || got != sid {
				fail("SetCellStyle(%q) then GetCellStyle(%q) = %d, %v (want %d)", w, rd, got, err, sid)
			}
			if ok, got, err := f.GetCellHyperLink("H", rd); err != nil || !ok || got != "https://example.com/"+val {
				fail("SetCellHyperLink(%q) then GetCellHyperLink(%q) = %v %q, %v", w, rd, ok, got, err)
			}
			if got, err := f.GetCellRichText("R", rd); err != nil || len(got) != 1 || got[0].Text != "r"+val {
				fail("SetCellRichText(%q) then GetCellRichText(%q) = %v, %v", w, rd, got, err)
			}
			if got, err := f.GetCellType(sh, rd); err != nil || got != excelize.CellTypeSharedString {
				fail("GetCellType(%q) after SetCellValue(%q) = %v, %v", rd, w, got, err)
			}
		}
		// nothing but the canonical cell is occupied
		rows, _ := f.GetRows(sh)
		cnt := 0
		for _, r := range rows {
			for _, v := range r {
				if v != "" {
					cnt++
				}
			}
		}
		if got, _ := f.GetCellValue(sh, canon); got != val || cnt != 1 {
			fail("after SetCellValue(%q): canonical cell %s holds %q and %d cells are non-empty", w, canon, got, cnt)
		}
		f.Close()
	}
}

func runC20(c *Ctx) {
	tStart := time.Now()
	c.R.Rule = "columns: every n in -2..16390 plus int limits; coordinates: boundary rows x boundary cols x abs; " +
		"strings: every string up to length L (4 quick / 5 thorough) over the alphabet {A Z a x F D 0 1 9 $ + - space : ! .}, " +
		"long letter names (incl. 2-adic wrap witnesses), random mixed strings; range codecs over boundary and random corner pairs in both orders and $ forms and hostile range texts; paired setters/getters over all accepted spellings. " +
		"non-trivial = accepted by at least one codec or of A1 shape; distinct = distinct canonical input"
	var cases []mcase
	// (a) columns
	nums := []int{math.MinInt64, -1 << 40, math.MaxInt64, 1 << 40, 16384 * 26}
	for n := -2; n <= 16390; n++ {
		nums = append(nums, n)
	}
	for _, n := range nums {
		impl := implColNumberToName(n)
		cases = append(cases, mcase{Req: "c20.col_number_to_name " + strconv.Itoa(n), Impl: impl, Rel: "col_number_to_name"})
		c.Count("col_number", n >= 1 && n <= 16384, strconv.Itoa(n))
		if name, err := excelize.ColumnNumberToName(n); err == nil {
			for _, nm := range []string{name, strings.ToLower(name)} {
				back, err := excelize.ColumnNameToNumber(nm)
				if err != nil || back != n {
					c.Fail("oracle", "C20_col_roundtrip", map[string]interface{}{"n": n},
						fmt.Sprintf("ColumnNameToNumber(ColumnNumberToName(%d)=%q) = %d, %v", n, nm, back, err), "")
				}
				cases = append(cases, mcase{Req: "c20.col_name_to_number " + hexb(nm), Impl: implColNameToNumber(nm), Rel: "col_name_to_number"})
			}
			if n < 1 || n > 16384 {
				c.Fail("oracle", "C20_col_roundtrip", map[string]interface{}{"n": n}, fmt.Sprintf("ColumnNumberToName(%d) accepted", n), "")
			}
		}
	}
	c.Sample(map[string]interface{}{"fn": "ColumnNumberToName", "n": 16384, "impl": implColNumberToName(16384)})
	// (b) coordinates
	rowsB := []int{math.MinInt64, -1, 0, 1, 2, 9, 10, 99, 100, 1048575, 1048576, 1048577, math.MaxInt64}
	colsB := []int{math.MinInt64, -1, 0, 1, 2, 25, 26, 27, 52, 53, 701, 702, 703, 704, 16383, 16384, 16385, math.MaxInt64}
	nb := 30
	if c.Thorough() {
		nb = 300
	}
	for i := 0; i < nb; i++ {
		rowsB = append(rowsB, 1+c.Rng.Intn(1048576))
		colsB = append(colsB, 1+c.Rng.Intn(16384))
	}
	for _, r := range rowsB {
		for _, col := range colsB {
			if len(cases) > 400000 {
				break
			}
			for _, ab := range []bool{false, true} {
				impl := implCoordsToCell(col, r, ab)
				cases = append(cases, mcase{Req: fmt.Sprintf("c20.coords_to_cell_name %d %d %s", col, r, tf(ab)), Impl: impl, Rel: "coords_to_cell_name"})
				in := col >= 1 && col <= 16384 && r >= 1 && r <= 1048576
				c.Count("coords", in, fmt.Sprint(col, r, ab))
				if strings.HasPrefix(impl, "panic") {
					c.Fail("oracle", "C20_cell_roundtrip", map[string]interface{}{"col": col, "row": r, "abs": ab}, fmt.Sprintf("CoordinatesToCellName(%d, %d, %v) does not return: %s", col, r, ab, impl), "")
					continue
				}
				name, err := excelize.CoordinatesToCellName(col, r, ab)
				if err == nil {
					if !in {
						c.Fail("oracle", "C20_cell_roundtrip", map[string]interface{}{"col": col, "row": r}, fmt.Sprintf("CoordinatesToCellName(%d,%d) accepted: %q", col, r, name), "")
					}
					c2, r2, err := excelize.CellNameToCoordinates(name)
					if err != nil || c2 != col || r2 != r {
						c.Fail("oracle", "C20_cell_roundtrip", map[string]interface{}{"col": col, "row": r, "abs": ab},
							fmt.Sprintf("CellNameToCoordinates(CoordinatesToCellName(%d,%d,%v)=%q) = (%d,%d,%v)", col, r, ab, name, c2, r2, err), "")
					}
					cn, rn, err := excelize.SplitCellName(name)
					if err == nil {
						j, err2 := excelize.JoinCellName(cn, rn)
						plain, _ := excelize.CoordinatesToCellName(col, r)
						if err2 != nil || j != plain {
							c.Fail("oracle", "C20_split_join", map[string]interface{}{"cell": name}, fmt.Sprintf("JoinCellName(SplitCellName(%q)) = %q, %v; want %q", name, j, err2, plain), "")
						}
					} else {
						c.Fail("oracle", "C20_split_join", map[string]interface{}{"cell": name}, fmt.Sprintf("SplitCellName(%q) fails: %v", name, err), "")
					}
					cases = append(cases, mcase{Req: "c20.cell_name_to_coords " + hexb(name), Impl: implCellToCoords(name), Rel: "cell_name_to_coords"})
				} else if in {
					c.Fail("oracle", "C20_cell_roundtrip", map[string]interface{}{"col": col, "row": r}, fmt.Sprintf("CoordinatesToCellName(%d,%d) rejected: %v", col, r, err), "")
				}
			}
		}
	}
	// (c) all short strings
	alphabet := []byte("AZaxFD019$+- :!.")
	maxLen := 4
	if c.Thorough() {
		maxLen = 5
	}
	var gen func(prefix []byte, l int)
	strs := []string{""}
	gen = func(prefix []byte, l int) {
		if l == 0 {
			strs = append(strs, string(prefix))
			return
		}
		for _, ch := range alphabet {
			gen(append(prefix, ch), l-1)
		}
	}
	for l := 1; l <= maxLen; l++ {
		gen(nil, l)
	}
	// (d) long / crafted names
	wrap64Name := "ABABAAABBABBBAAABBABABABBAAAABABBABABBBBBABAABABABAABABBAAABAABA"
	crafted := []string{wrap64Name, wrap64Name + "7", strings.ToLower(wrap64Name), "XFD1048576", "XFE1", "xfd1048577", "A01", "A001048576",
		"A+5", "A-5", "$$A1", "A$$1", "$A$$1", "A$B1", "$1", "$", "$$", "A", "1", "A1A", "A1 ", " A1", "A1\n", "À1", "AÀ1", "A1\x00",
		"A9223372036854775807", "A9223372036854775808", "A18446744073709551617", "A_1", "A1_0", "A0x1", "A１", "Ａ1", "AAAA1", "AAA1", "ZZZ1", "XFD0", "XFD01",
		"$XFD$1048576", "$xfd1", "a$1", strings.Repeat("A", 14) + "1", strings.Repeat("Z", 40), strings.Repeat("A", 13), strings.Repeat("A", 14), strings.Repeat("A", 15)}
	letters := "ABab ZzXxFDdf"
	for i := 0; i < 3000; i++ {
		n := 4 + c.Rng.Intn(70)
		b := make([]byte, n)
		for j := range b {
			b[j] = letters[c.Rng.Intn(2)*5+c.Rng.Intn(4)]
			if c.Rng.Intn(3) == 0 {
				b[j] = byte('A' + c.Rng.Intn(26))
			}
		}
		crafted = append(crafted, string(b), string(b)+strconv.Itoa(1+c.Rng.Intn(99)))
	}
	// 2-adic solver: names of length 64 over {A,B} (digits 1,2) whose value is
	// congruent to a small target modulo 2^64: choose digits greedily from the low end.
	for target := uint64(1); target <= 40; target++ {
		crafted = append(crafted, solve2adic(target), solve2adic(target)+"3")
	}
	mix := "AZaz09$+-.: \tx"
	nmix := 5000
	if c.Thorough() {
		nmix = 100000
	}
	for i := 0; i < nmix; i++ {
		n := 1 + c.Rng.Intn(9)
		b := make([]byte, n)
		for j := range b {
			b[j] = mix[c.Rng.Intn(len(mix))]
		}
		crafted = append(crafted, string(b))
	}
	strs = append(strs, crafted...)
	for _, s := range strs {
		_, _, e1 := excelize.CellNameToCoordinates(s)
		_, e2 := excelize.ColumnNameToNumber(s)
		nontrivial := e1 == nil || e2 == nil || a1Re.MatchString(s)
		c.Count("string", nontrivial, s)
		cases = append(cases,
			mcase{Req: "c20.cell_name_to_coords " + hexb(s), Impl: implCellToCoords(s), Rel: "cell_name_to_coords"},
			mcase{Req: "c20.col_name_to_number " + hexb(s), Impl: implColNameToNumber(s), Rel: "col_name_to_number"},
			mcase{Req: "c20.split_cell_name " + hexb(s), Impl: implSplit(s), Rel: "split_cell_name"})
		c.c20Strict(s)
		c.c20ColStrict(s)
		if len(s) <= 3 {
			for _, row := range []int{0, 1, -1, 7} {
				cases = append(cases, mcase{Req: fmt.Sprintf("c20.join_cell_name %s %d", hexb(s), row), Impl: implJoin(s, row), Rel: "join_cell_name"})
			}
		}
	}
	c.Sample(map[string]interface{}{"fn": "CellNameToCoordinates", "in": "$$A1", "impl": implCellToCoords("$$A1")})
	c.Sample(map[string]interface{}{"fn": "CellNameToCoordinates", "in": wrap64Name + "7", "impl": implCellToCoords(wrap64Name + "7")})
	c.Sample(map[string]interface{}{"fn": "SplitCellName", "in": "$xfd$001", "impl": implSplit("$xfd$001")})
	// (d2) range codecs: corners over boundary columns/rows in both orders and both $ forms; hostile range texts
	ints := func(l []int) string {
		var ss []string
		for _, v := range l {
			ss = append(ss, strconv.Itoa(v))
		}
		return strings.Join(ss, " ")
	}
	implRange := func(ref string) string {
		co, err := excelize.VerifRangeRefToCoordinates(ref)
		cls := c20ErrClass(err)
		if err != nil && errors.Is(err, excelize.ErrParameterInvalid) {
			cls = 20
		}
		return okOrErr(ints(co), cls, err)
	}
	rc := []int{0, 1, 2, 26, 27, 702, 703, 16383, 16384, 16385}
	rr := []int{0, 1, 9, 10, 1048575, 1048576, 1048577}
	for i := 0; i < 400; i++ {
		co := []int{rc[c.Rng.Intn(len(rc))], rr[c.Rng.Intn(len(rr))], rc[c.Rng.Intn(len(rc))], rr[c.Rng.Intn(len(rr))]}
		if i%3 == 0 {
			co = []int{1 + c.Rng.Intn(16384), 1 + c.Rng.Intn(1048576), 1 + c.Rng.Intn(16384), 1 + c.Rng.Intn(1048576)}
		}
		ab := i%2 == 0
		var ref string
		var err error
		paniced := false
		c.guard("C20_range_roundtrip", map[string]interface{}{"coordinates": co, "abs": ab}, func() {
			paniced = true
			ref, err = excelize.VerifCoordinatesToRangeRef(co, ab)
			paniced = false
		})
		if paniced {
			continue
		}
		cases = append(cases, mcase{Req: fmt.Sprintf("c20.coords_to_range_ref %d %d %d %d %s", co[0], co[1], co[2], co[3], tf(ab)), Impl: okOrErr(hexb(ref), c20ErrClass(err), err), Rel: "coords_to_range_ref"})
		sorted, _ := excelize.VerifSortCoordinates(co)
		cases = append(cases, mcase{Req: fmt.Sprintf("c20.sort_coords %d %d %d %d", co[0], co[1], co[2], co[3]), Impl: ints(sorted), Rel: "sort_coords"})
		c.Count("range", err == nil, fmt.Sprint(co, ab))
		if err == nil {
			back, err2 := excelize.VerifRangeRefToCoordinates(ref)
			if err2 != nil || ints(back) != ints(co) {
				c.Fail("oracle", "C20_range_roundtrip", map[string]interface{}{"coordinates": co, "abs": ab}, fmt.Sprintf("coordinatesToRangeRef(%v) = %q reads back as %v (err %v)", co, ref, back, err2), "")
			}
			cases = append(cases, mcase{Req: "c20.range_ref_to_coords " + hexb(ref), Impl: implRange(ref), Rel: "range_ref_to_coords"})
		}
		lo := func(a, b int) int {
			if a < b {
				return a
			}
			return b
		}
		hi := func(a, b int) int {
			if a > b {
				return a
			}
			return b
		}
		if want := []int{lo(co[0], co[2]), lo(co[1], co[3]), hi(co[0], co[2]), hi(co[1], co[3])}; ints(sorted) != ints(want) {
			c.Fail("oracle", "C20_sort_coords", map[string]interface{}{"coordinates": co}, fmt.Sprintf("sortCoordinates(%v) = %v, the ordered corners are %v", co, sorted, want), "")
		}
	}
	for _, ref := range []string{"", ":", "A1", "A1:", ":B2", "A1:B2:C3", "$A$1:$B$2", "a1:b2", "A1:B", "A:B", "1:2", "A1::B2", "A1:B2 ", "$$A1:B2", "A1:XFE1", "A1:A1048577", "A0:B2", "A1;B2", "Sheet1!A1:B2", "A1:B2,C3:D4", "B2:A1", "XFD1048576:A1"} {
		cases = append(cases, mcase{Req: "c20.range_ref_to_coords " + hexb(ref), Impl: implRange(ref), Rel: "range_ref_to_coords"})
		c.Count("range-text", false, ref)
	}
	t0 := time.Now()
	c.R.Notes = append(c.R.Notes, fmt.Sprintf("gen+oracles %.1fs cases=%d", time.Since(tStart).Seconds(), len(cases)))
	c.compareBatch(cases)
	c.R.Notes = append(c.R.Notes, fmt.Sprintf("model batch %.1fs", time.Since(t0).Seconds()))
	// (e) spellings through the cell API
	for _, cr := range []struct {
		col string
		row int
	}{{"A", 1}, {"A", 5}, {"B", 10}, {"Z", 9}, {"AA", 99}, {"XFD", 3}, {"C", 1200}} {
		c.c20Spelling(cr.col, cr.row)
	}
	if c.Thorough() {
		c.c20Spelling("XFD", 1048576)
	}
	c.Sample(map[string]interface{}{"oracle": "C20_same_cell", "spellings": []string{"A5", "a5", "$A$5", "$A5", "A$5", "A05", "$a$005"}})
}

// solve2adic returns a 64-letter name over {A,B} whose bijective base-26 value is
// congruent to target mod 2^64 (found digit by digit from the least significant end).
func solve2adic(target uint64) string {
	// value = sum d_i * 26^i, d_i in {1,2}; 26^i = 2^i * 13^i, so bit i of the
	// running difference is decided by d_i.
	digits := make([]byte, 64)
	var acc uint64
	pow := uint64(1)
	for i := 0; i < 64; i++ {
		// choose d so that (acc + d*pow) agrees with target on bit i
		d := uint64(1)
		if ((acc+d*pow)^target)>>uint(i)&1 != 0 {
			d = 2
		}
		acc += d * pow
		digits[63-i] = byte('A' + d - 1)
		pow *= 26
	}
	return string(digits)
}

func replayC20(c *Ctx, f Failure) {
	m, _ := f.Case.(map[string]interface{})
	if f.Kind == "model-impl" {
		req, _ := m["req"].(string)
		fs := strings.Fields(req)
		impl := ""
		switch fs[0] {
		case "c20.col_name_to_number":
			impl = implColNameToNumber(unhex(fs[1]))
		case "c20.col_number_to_name":
			n, _ := strconv.Atoi(fs[1])
			impl = implColNumberToName(n)
		case "c20.split_cell_name":
			impl = implSplit(unhex(fs[1]))
		case "c20.cell_name_to_coords":
			impl = implCellToCoords(unhex(fs[1]))
		case "c20.join_cell_name":
			n, _ := strconv.Atoi(fs[2])
			impl = implJoin(unhex(fs[1]), n)
		case "c20.coords_to_cell_name":
			a, _ := strconv.Atoi(fs[1])
			b, _ := strconv.Atoi(fs[2])
			impl = implCoordsToCell(a, b, fs[3] == "t")
		}
		c.compareBatch([]mcase{{Req: req, Impl: impl, Rel: f.Relation}})
		return
	}
	if s, ok := m["cell"].(string); ok {
		c.c20Strict(s)
	}
	if s, ok := m["col"].(string); ok && f.Relation == "C20_col_canonical" {
		c.c20ColStrict(s)
	}
	if f.Relation == "C20_same_cell" {
		col, _ := m["col"].(string)
		row, _ := m["row"].(float64)
		c.c20Spelling(col, int(row))
	}
	if f.Relation == "C20_col_roundtrip" || f.Relation == "C20_cell_roundtrip" || f.Relation == "C20_split_join" {
		runC20(c)
	}
}
