package main

import (
	"bytes"
	"encoding/json"
	"fmt"
	"math"
	"strconv"
	"strings"
	"time"
	"unicode/utf8"

	"github.com/xuri/excelize/v2"
)

func init() {
	props["C01"] = propFn{run: runC01, replay: replayC01}
	histCheckers["C01"] = func(c *Ctx, h hist, cases *[]mcase) { c.checkHistC01(h, cases) }
}

func reopen(f *excelize.File) (*excelize.File, error) {
	buf, err := f.WriteToBuffer()
	if err != nil {
		return nil, err
	}
	return excelize.OpenReader(bytes.NewReader(buf.Bytes()))
}

func workbookObservation(f *excelize.File, w, h int) string {
	var sb strings.Builder
	fmt.Fprintf(&sb, "sheets=%v active=%d", f.GetSheetList(), f.GetActiveSheetIndex())
	for _, sh := range f.GetSheetList() {
		v, _ := f.GetSheetVisible(sh)
		fmt.Fprintf(&sb, "|vis:%s=%v", sh, v)
	}
	sb.WriteString(allSheetsObservation(f, w, h))
	// style definitions behind the ids seen in the window
	for _, sh := range f.GetSheetList() {
		for r := 1; r <= h; r++ {
			for col := 1; col <= w; col++ {
				name, _ := excelize.CoordinatesToCellName(col, r)
				id, _ := f.GetCellStyle(sh, name)
				if id != 0 {
					st, _ := f.GetStyle(id)
					fmt.Fprintf(&sb, "|style:%s!%s=%s", sh, name, styleString(st))
				}
			}
		}
	}
	return sb.String()
}

func styleString(s *excelize.Style) string {
	b, _ := json.Marshal(s)
	return string(b)
}

func (c *Ctx) checkHistC01(h hist, cases *[]mcase) {
	c.guard("C01_no_panic", h, func() { c.checkHistC01x(h, cases) })
}

func (c *Ctx) checkHistC01x(h hist, cases *[]mcase) {
	f, styles, err := runHist(h)
	if err != nil {
		f.Close()
		return
	}
	nontrivial := len(h.Ops) >= 3
	c.Count("history", nontrivial, fmt.Sprint(h))
	for _, o := range h.Ops {
		c.R.Dist["op:"+o.K+o.PK]++
	}
	far := h.C0 > 1 || h.R0 > 1
	obs := func(x *excelize.File) string {
		if far {
			w, _ := observeWindowAt(x, h.Sheet, h.C0, h.R0, h.W, h.H)
			return w
		}
		return workbookObservation(x, h.W, h.H)
	}
	o0 := obs(f)
	g, err := reopen(f)
	f.Close()
	if err != nil {
		c.Fail("oracle", "C01_roundtrip", h, "save/open failed: "+err.Error(), "")
		return
	}
	o1 := obs(g)
	if o0 != o1 {
		c.Fail("oracle", "C01_roundtrip", h, "observation differs after save+open: "+firstDiff(o0, o1), "")
		g.Close()
		return
	}
	win, werr := observeWindowAt(g, h.Sheet, h.C0, h.R0, h.W, h.H)
	g2, err := reopen(g)
	g.Close()
	if err != nil {
		c.Fail("oracle", "C01_fixpoint", h, "second save/open failed: "+err.Error(), "")
		return
	}
	o2 := obs(g2)
	g2.Close()
	if o2 != o1 {
		c.Fail("oracle", "C01_fixpoint", h, "second save/open cycle is not a fixed point: "+firstDiff(o1, o2), "")
	}
	hm := h
	hm.Ops = append(append([]sop{}, h.Ops...), sop{K: "W"})
	if req, ok := hm.modelReq(styles); ok && werr == nil {
		*cases = append(*cases, mcase{Req: req, Impl: win, Rel: "sheet.run+save/open", Desc: h})
	}
}

// payload sweep: strings, floats, ints through one save/open
func (c *Ctx) c01Payloads() {
	var strs []string
	strs = append(strs, strDict...)
	// text that spells a namespace name or a relationship type the reader translates (strict -> transitional), and
	// other text that looks like markup the package layer handles
	strs = append(strs, "http://purl.oclc.org/ooxml/spreadsheetml/main", "see http://purl.oclc.org/ooxml/officeDocument/relationships for details",
		"http://purl.oclc.org/ooxml/drawingml/main", "xmlns=\"http://purl.oclc.org/ooxml/spreadsheetml/main\"", "http://schemas.openxmlformats.org/spreadsheetml/2006/main",
		"<c r=\"A1\"><v>1</v></c>", "]]>", "<![CDATA[x]]>", "&amp;", "&#10;", "<?xml version=\"1.0\"?>", "mc:Ignorable=\"x14ac\"", "xml:space=\"preserve\"")
	for _, n := range []int{32766, 32767, 32768} {
		strs = append(strs, strings.Repeat("a", n), strings.Repeat("é", n), strings.Repeat("😀", n/2)+"_x0041_")
	}
	alpha := []string{"_", "x", "0", "5", "F", "f", "4", "1", "D", "8", "_x0041_", "_x005F_", "_x005f", "Z", " "}
	nrand := 1500
	if c.Thorough() {
		nrand = 60000
	}
	for i := 0; i < nrand; i++ {
		n := 1 + c.Rng.Intn(10)
		var sb strings.Builder
		for j := 0; j < n; j++ {
			sb.WriteString(alpha[c.Rng.Intn(len(alpha))])
		}
		strs = append(strs, sb.String())
	}
	specials := []string{" ", "\t", "\n", "\r", "a b", "&amp;", "<![CDATA[x]]>", "]]>", "'", "\"", " ", " ", "\ufeffbom", "\U0010ffff", "a\r\nb", "x\ry", " \n "}
	strs = append(strs, specials...)
	floats := []float64{0, 1, -1, 0.1, 0.2, 0.1 + 0.2, 1e15, 1e16, 1e17, 1e21, 1e22, 1e-7, 1e-5, 123456789012345678, 1234567890.1234567, 5e-324, 2.2250738585072014e-308,
		math.MaxFloat64, -math.MaxFloat64, math.SmallestNonzeroFloat64, 4.35, 2.675, 1.0000000000000002, 9007199254740993, 0.30000000000000004, 1e23, 8.41e21, 5e-7}
	nf := 800
	if c.Thorough() {
		nf = 50000
	}
	for i := 0; i < nf; i++ {
		x := math.Float64frombits(c.Rng.Uint64())
		if !math.IsNaN(x) && !math.IsInf(x, 0) {
			floats = append(floats, x)
		}
	}
	ints := []int64{0, 1, -1, math.MaxInt64, math.MinInt64, math.MaxInt32, math.MinInt32, 1 << 53, (1 << 53) + 1, 999999999999999, 1000000000000000}
	f := excelize.NewFile()
	for i, s := range strs {
		name, _ := excelize.CoordinatesToCellName(1, i+1)
		f.SetCellValue("Sheet1", name, s)
	}
	for i, x := range floats {
		name, _ := excelize.CoordinatesToCellName(2, i+1)
		f.SetCellValue("Sheet1", name, x)
	}
	for i, x := range ints {
		name, _ := excelize.CoordinatesToCellName(3, i+1)
		f.SetCellValue("Sheet1", name, x)
		name, _ = excelize.CoordinatesToCellName(4, i+1)
		f.SetCellValue("Sheet1", name, uint64(x))
	}
	check := func(x *excelize.File, stage string) {
		for i, s := range strs {
			name, _ := excelize.CoordinatesToCellName(1, i+1)
			want := s
			if utf8.RuneCountInString(want) > excelize.TotalCellChars {
				want = string([]rune(want)[:excelize.TotalCellChars])
			}
			got, err := x.GetCellValue("Sheet1", name)
			c.Count("payload-str", strings.Contains(s, "_x") || len(s) > 1000 || strings.ContainsAny(s, " \t\r\n&<>\"'"), stage+s)
			if err != nil || got != want {
				short := func(z string) string {
					if len(z) > 60 {
						return fmt.Sprintf("%q...(%d bytes)", z[:60], len(z))
					}
					return fmt.Sprintf("%q", z)
				}
				c.Fail("oracle", "C01_string_roundtrip", map[string]interface{}{"payload": s, "stage": stage}, fmt.Sprintf("%s: string %s reads back %s (err %v)", stage, short(want), short(got), err), "")
			}
		}
		for i, v := range floats {
			name, _ := excelize.CoordinatesToCellName(2, i+1)
			raw, err := x.GetCellValue("Sheet1", name, excelize.Options{RawCellValue: true})
			p, perr := strconv.ParseFloat(raw, 64)
			c.Count("payload-float", true, stage+raw)
			if err != nil || perr != nil || math.Float64bits(p) != math.Float64bits(v) && !(p == 0 && v == 0) {
				c.Fail("oracle", "C01_float_roundtrip", map[string]interface{}{"bits": fmt.Sprintf("%016x", math.Float64bits(v)), "stage": stage}, fmt.Sprintf("%s: float %v stored as %q parses back to %v", stage, v, raw, p), "")
			}
		}
		for i, v := range ints {
			name, _ := excelize.CoordinatesToCellName(3, i+1)
			raw, _ := x.GetCellValue("Sheet1", name, excelize.Options{RawCellValue: true})
			c.Count("payload-int", true, stage+raw)
			if raw != strconv.FormatInt(v, 10) {
				c.Fail("oracle", "C01_int_roundtrip", map[string]interface{}{"int": v, "stage": stage}, fmt.Sprintf("%s: int %d reads back %q", stage, v, raw), "")
			}
			name, _ = excelize.CoordinatesToCellName(4, i+1)
			raw, _ = x.GetCellValue("Sheet1", name, excelize.Options{RawCellValue: true})
			if raw != strconv.FormatUint(uint64(v), 10) {
				c.Fail("oracle", "C01_int_roundtrip", map[string]interface{}{"uint": uint64(v), "stage": stage}, fmt.Sprintf("%s: uint %d reads back %q", stage, uint64(v), raw), "")
			}
		}
	}
	check(f, "in-memory")
	g, err := reopen(f)
	f.Close()
	if err != nil {
		c.Fail("oracle", "C01_roundtrip", "payload sweep", "save/open failed: "+err.Error(), "")
		return
	}
	check(g, "reopened")
	g2, err := reopen(g)
	g.Close()
	if err == nil {
		check(g2, "second cycle")
		g2.Close()
	}
	c.Sample(map[string]interface{}{"payload sweep": []string{"_x0041_", "_x005F_x0041_", "_x0042_x0041_", " lead", "a\r\nb"}, "strings": len(strs), "floats": len(floats)})
}

// column attributes of adjacent columns (mergeExpandedCols merges equal neighbours on save):
// every combination of outline level / width / style / visibility on columns B and C
func (c *Ctx) c01ColAttrs() {
	type ca struct{ ol, w, st, hid int }
	var opts []ca
	for ol := 0; ol < 3; ol++ {
		for w := 0; w < 3; w++ {
			for st := 0; st < 2; st++ {
				for hid := 0; hid < 2; hid++ {
					opts = append(opts, ca{ol, w, st, hid})
				}
			}
		}
	}
	widths := []float64{0, 20, 30.5}
	apply := func(f *excelize.File, col string, a ca, styles []int) {
		if a.ol > 0 {
			f.SetColOutlineLevel("Sheet1", col, uint8(a.ol))
		}
		if a.w > 0 {
			f.SetColWidth("Sheet1", col, col, widths[a.w])
		}
		if a.st > 0 {
			f.SetColStyle("Sheet1", col, styles[a.st])
		}
		if a.hid > 0 {
			f.SetColVisible("Sheet1", col, false)
		}
	}
	obs := func(f *excelize.File) string {
		var sb strings.Builder
		for _, col := range []string{"A", "B", "C", "D", "E"} {
			w, _ := f.GetColWidth("Sheet1", col)
			ol, _ := f.GetColOutlineLevel("Sheet1", col)
			v, _ := f.GetColVisible("Sheet1", col)
			st, _ := f.GetColStyle("Sheet1", col)
			fmt.Fprintf(&sb, "%s:w=%v,ol=%d,vis=%v,st=%d ", col, w, ol, v, st)
		}
		return sb.String()
	}
	n := 0
	for i, a := range opts {
		for j, b := range opts {
			if !c.Thorough() && (i*37+j)%3 != 0 {
				continue
			}
			n++
			f := excelize.NewFile()
			styles := registerStyles(f)
			if (i+j)%2 == 0 {
				apply(f, "B", a, styles)
				apply(f, "C", b, styles)
			} else {
				apply(f, "C", b, styles)
				apply(f, "B", a, styles)
			}
			if j%5 == 0 {
				apply(f, "D", a, styles)
			}
			o0 := obs(f)
			g, err := reopen(f)
			f.Close()
			desc := map[string]interface{}{"colB": a, "colC": b, "order": (i + j) % 2}
			c.Count("col-attrs", a != b, fmt.Sprint(a, b))
			if err != nil {
				c.Fail("oracle", "C01_roundtrip", desc, "save/open failed: "+err.Error(), "")
				continue
			}
			o1 := obs(g)
			g.Close()
			if o0 != o1 {
				c.Fail("oracle", "C01_col_attrs", desc, fmt.Sprintf("column attributes changed by save+open (B=%+v C=%+v): %s  ->  %s", a, b, o0, o1), "")
				if c.Failed() && len(c.R.Failures) >= 3 {
					return
				}
			}
		}
	}
	c.R.Dist["col-attr-pairs"] = n
}

// fixtures shipped with the repository: open, observe, save, open, observe
func (c *Ctx) c01Fixtures() {
	for _, fx := range []string{"Book1.xlsx", "SharedStrings.xlsx", "MergeCell.xlsx", "CalcChain.xlsx", "BadWorkbook.xlsx"} {
		f, err := excelize.OpenFile("/repo/test/" + fx)
		if err != nil {
			continue
		}
		o0 := workbookObservation(f, 8, 12)
		g, err := reopen(f)
		f.Close()
		c.Count("fixture", true, fx)
		if err != nil {
			c.Fail("oracle", "C01_roundtrip", map[string]interface{}{"fixture": fx}, "save/open of fixture failed: "+err.Error(), "")
			continue
		}
		o1 := workbookObservation(g, 8, 12)
		g.Close()
		if o0 != o1 {
			c.Fail("oracle", "C01_roundtrip", map[string]interface{}{"fixture": fx}, "fixture "+fx+": observation differs after save+open: "+firstDiff(o0, o1), "")
		}
	}
}

func runC01(c *Ctx) {
	t0 := time.Now()
	c.R.Rule = "histories (cell payloads of every kind, formulas, styles, row/column attributes, merges, hyperlinks, rich text, defined names) on the initial or a NewSheet sheet, then save+open: whole-workbook observation before vs after, second cycle fixed point, window vs extracted model (run + OSave); payload sweep (escape-like strings over {_ x 0 5 F f 4 1 D 8 Z}, whitespace/XML specials, 32766..32768 runes, float boundary table + random bit patterns, all integer widths); repository fixtures. non-trivial history = >= 3 ops"
	n := 300
	if c.Thorough() {
		n = 8000
	}
	g := histGen{c: c, merges: true, attrs: true, rowStyle: true, far: true}
	var cases []mcase
	for i := 0; i < n; i++ {
		g.attrs = i%5 < 2
		h := g.gen(1 + c.Rng.Intn(30))
		c.checkHistC01(h, &cases)
		if i < 2 {
			c.Sample(h)
		}
	}
	c.R.Notes = append(c.R.Notes, fmt.Sprintf("histories %.1fs", time.Since(t0).Seconds()))
	c.compareBatch(cases)
	c.c01ColAttrs()
	c.c01RowHeights()
	c.c01Formulas()
	c.c01WorkbookOps(60)
	c.R.Notes = append(c.R.Notes, fmt.Sprintf("+colattrs %.1fs", time.Since(t0).Seconds()))
	c.c01Payloads()
	c.R.Notes = append(c.R.Notes, fmt.Sprintf("+payloads %.1fs", time.Since(t0).Seconds()))
	c.c01Fixtures()
	c.R.Notes = append(c.R.Notes, fmt.Sprintf("+fixtures %.1fs", time.Since(t0).Seconds()))
	c.overlapMergeProbe("C01")
}

func replayC01(c *Ctx, f Failure) {
	hs := extractHists(f.Case)
	var cases []mcase
	for _, h := range hs {
		c.checkHistC01(h, &cases)
	}
	c.compareBatch(cases)
	if len(hs) == 0 {
		c.c01ColAttrs()
		c.c01RowHeights()
		c.c01Formulas()
		c.c01Payloads()
		c.c01Fixtures()
	}
}

// row heights against the worksheet's own default row height: every combination of a sheet default (none, the
// built-in 15, a custom 30 with and without the customHeight flag) with explicit heights on rows 1..3 (none, 15, 30,
// 20.5, 0, 409) and hidden rows; GetRowHeight / GetRowVisible of rows 1..5 and the sheet properties before saving,
// after save+open and after a second cycle
func (c *Ctx) c01RowHeights() {
	type sp struct {
		Default float64 `json:"default_row_height"`
		Custom  int     `json:"custom_height"` // 0 unset, 1 false, 2 true
	}
	sps := []sp{{0, 0}, {15, 2}, {30, 2}, {30, 1}, {30, 0}, {20.5, 2}}
	hts := []float64{-1, 15, 30, 20.5, 0, 409}
	obs := func(f *excelize.File) string {
		var sb strings.Builder
		for r := 1; r <= 5; r++ {
			h, _ := f.GetRowHeight("Sheet1", r)
			v, _ := f.GetRowVisible("Sheet1", r)
			fmt.Fprintf(&sb, "row%d:h=%v,vis=%v ", r, h, v)
		}
		if p, err := f.GetSheetProps("Sheet1"); err == nil {
			d, ch := "-", "-"
			if p.DefaultRowHeight != nil {
				d = fmt.Sprint(*p.DefaultRowHeight)
			}
			if p.CustomHeight != nil {
				ch = fmt.Sprint(*p.CustomHeight)
			}
			fmt.Fprintf(&sb, "default=%s custom=%s", d, ch)
		}
		return sb.String()
	}
	for si, s := range sps {
		for i, h1 := range hts {
			for j, h2 := range hts {
				if !c.Thorough() && (si+i*7+j)%2 != 0 {
					continue
				}
				desc := map[string]interface{}{"sheet_props": s, "row1_height": h1, "row2_height": h2, "row3_hidden": (i+j)%3 == 0}
				c.guard("C01_no_panic", desc, func() {
					f := excelize.NewFile()
					defer f.Close()
					if s.Default > 0 || s.Custom > 0 {
						o := &excelize.SheetPropsOptions{}
						if s.Default > 0 {
							d := s.Default
							o.DefaultRowHeight = &d
						}
						if s.Custom > 0 {
							b := s.Custom == 2
							o.CustomHeight = &b
						}
						if err := f.SetSheetProps("Sheet1", o); err != nil {
							return
						}
					}
					f.SetCellValue("Sheet1", "A1", 1)
					f.SetCellValue("Sheet1", "B4", "x")
					if h1 >= 0 {
						f.SetRowHeight("Sheet1", 1, h1)
					}
					if h2 >= 0 {
						f.SetRowHeight("Sheet1", 2, h2)
					}
					if (i+j)%3 == 0 {
						f.SetRowVisible("Sheet1", 3, false)
					}
					c.Count("row-heights", h1 >= 0 || h2 >= 0, fmt.Sprint(desc))
					o0 := obs(f)
					g, err := reopen(f)
					if err != nil {
						c.Fail("oracle", "C01_roundtrip", desc, "save/open failed: "+err.Error(), "")
						return
					}
					defer g.Close()
					o1 := obs(g)
					if o0 != o1 {
						c.Fail("oracle", "C01_row_attrs", desc, fmt.Sprintf("row heights changed by save+open: %s  ->  %s", o0, o1), "")
						return
					}
					g2, err := reopen(g)
					if err != nil {
						c.Fail("oracle", "C01_roundtrip", desc, "second save/open failed: "+err.Error(), "")
						return
					}
					defer g2.Close()
					if o2 := obs(g2); o2 != o1 {
						c.Fail("oracle", "C01_fixpoint", desc, fmt.Sprintf("row heights changed by the second save+open: %s  ->  %s", o1, o2), "")
					}
				})
				if len(c.R.Failures) >= 3 {
					return
				}
			}
		}
	}
}

// formula kinds across save+open: shared formula groups (master + derived cells), array formulas, formulas holding
// XML specials, quotes, line breaks and leading spaces; what GetCellFormula and GetCellType report for every cell of
// the area before saving, after save+open and after a second cycle
func (c *Ctx) c01Formulas() {
	const sh = "Sheet1"
	shared, array := excelize.STCellFormulaTypeShared, excelize.STCellFormulaTypeArray
	type fs struct {
		Cell    string `json:"cell"`
		Formula string `json:"formula"`
		Type    string `json:"type,omitempty"`
		Ref     string `json:"ref,omitempty"`
	}
	sets := [][]fs{
		{{"C1", "A1+B1", shared, "C1:C5"}},
		{{"C1", "A1+$B$1", shared, "C1:E1"}},
		{{"C2", "SUM(A2:B2)", shared, "C2:D4"}, {"F1", "A1*2", shared, "F1:F3"}},
		{{"E1", "A1:A3*2", array, "E1:E3"}},
		{{"E1", "SUM(A1:A3*B1:B3)", array, "E1"}},
		{{"C1", "IF(A1<B1,\"<&>\",\"a\"\"b\")", "", ""}, {"C2", " A1+1", "", ""}, {"C3", "A1+\n1", "", ""}, {"C4", "A1&\"'\"&B1", "", ""}},
		{{"C1", "A1+B1", shared, "C1:C5"}, {"C3", "A3*10", "", ""}},
		{{"C1", "A1+B1", shared, "C1:C5"}, {"C1", "", "", ""}},
	}
	obs := func(f *excelize.File) string {
		var sb strings.Builder
		for r := 1; r <= 6; r++ {
			for col := 3; col <= 6; col++ {
				n, _ := excelize.CoordinatesToCellName(col, r)
				fm, _ := f.GetCellFormula(sh, n)
				t, _ := f.GetCellType(sh, n)
				fmt.Fprintf(&sb, "%s=%q/%d ", n, fm, cellTypeCode[t])
			}
		}
		return sb.String()
	}
	for _, set := range sets {
		desc := map[string]interface{}{"formulas": set}
		c.guard("C01_no_panic", desc, func() {
			f := excelize.NewFile()
			defer f.Close()
			for r := 1; r <= 5; r++ {
				f.SetCellValue(sh, "A"+strconv.Itoa(r), r)
				f.SetCellValue(sh, "B"+strconv.Itoa(r), r*10)
			}
			for _, x := range set {
				var err error
				if x.Type != "" {
					t, ref := x.Type, x.Ref
					err = f.SetCellFormula(sh, x.Cell, x.Formula, excelize.FormulaOpts{Type: &t, Ref: &ref})
				} else {
					err = f.SetCellFormula(sh, x.Cell, x.Formula)
				}
				if err != nil {
					return
				}
			}
			c.Count("formula-kinds", true, fmt.Sprint(set))
			o0 := obs(f)
			g, err := reopen(f)
			if err != nil {
				c.Fail("oracle", "C01_roundtrip", desc, "save/open failed: "+err.Error(), "")
				return
			}
			defer g.Close()
			if o1 := obs(g); o1 != o0 {
				c.Fail("oracle", "C01_roundtrip", desc, "formulas changed by save+open: "+firstDiff(o0, o1), "")
				return
			}
			g2, err := reopen(g)
			if err != nil {
				c.Fail("oracle", "C01_roundtrip", desc, "second save/open failed: "+err.Error(), "")
				return
			}
			defer g2.Close()
			if o2 := obs(g2); o2 != o0 {
				c.Fail("oracle", "C01_fixpoint", desc, "formulas changed by the second save+open: "+firstDiff(o0, o2), "")
			}
		})
	}
}

// sheet-collection histories (new, delete, move, rename incl. other spellings of the name, visibility, active sheet,
// copy, cell writes, scoped names) followed by the whole-workbook comparison before saving / after save+open
func (c *Ctx) c01WorkbookOps(n int) {
	fixed := [][]wop{
		{{K: "N", A: "Budget"}, {K: "T", A: "Budget"}, {K: "R", A: "budget", B: "Costs"}},
		{{K: "T", A: "Sheet1"}, {K: "R", A: "sheet1", B: "Sheet1"}},
		{{K: "N", A: "S2"}, {K: "T", A: "S2"}, {K: "R", A: "S2", B: "s2"}, {K: "T", A: "S2"}},
		{{K: "N", A: "S2"}, {K: "N", A: "Q3"}, {K: "T", A: "Q3"}, {K: "M", A: "Q3", B: "Sheet1"}, {K: "R", A: "q3", B: "First"}, {K: "D", A: "s2"}},
	}
	for i := 0; i < n+len(fixed); i++ {
		var ops []wop
		if i < len(fixed) {
			ops = fixed[i]
		} else {
			ns := 1
			for j := 0; j < 3+c.Rng.Intn(10); j++ {
				o := c.c16Op(ns, true)
				if o.K == "N" {
					ns++
				}
				ops = append(ops, o)
			}
		}
		c.guard("C01_no_panic", ops, func() {
			st := &c16state{f: excelize.NewFile(), scoped: map[string]int{}}
			defer st.f.Close()
			for _, o := range ops {
				_ = st.apply(o)
			}
			for k, sh := range st.f.GetSheetList() {
				st.f.SetCellValue(sh, "B2", fmt.Sprintf("content of sheet %d", k))
				st.f.SetCellHyperLink(sh, "B2", "https://example.com/"+strconv.Itoa(k), "External")
			}
			c.Count("workbook-ops", len(ops) > 2, fmt.Sprint(ops))
			before := workbookObservation(st.f, 4, 4)
			g, err := reopen(st.f)
			if err != nil {
				c.Fail("oracle", "C01_roundtrip", ops, "save/open failed: "+err.Error(), "")
				return
			}
			defer g.Close()
			if after := workbookObservation(g, 4, 4); after != before {
				c.Fail("oracle", "C01_roundtrip", ops, "workbook observation differs after save+open: "+firstDiff(before, after), "")
			}
		})
		if len(c.R.Failures) >= 3 {
			return
		}
	}
}
