package main

import (
	"fmt"
	"sort"
	"strings"

	"github.com/xuri/excelize/v2"
)

// C06: DuplicateRowTo over a sheet whose rows each carry their own single-row data validation, conditional
// format and merged range: the copy gets the objects of the SOURCE row, every object at or below the target moves
// down by one, nothing above changes; then a write into every row of the window lands in that row (the row list
// stays addressable by position), and removing the copy restores everything.
func (c *Ctx) c06Duplicates() {
	const sh = "Sheet1"
	nm := func(col, r int) string { s, _ := excelize.CoordinatesToCellName(col, r); return s }
	build := func(rows int) *excelize.File {
		f := excelize.NewFile()
		for r := 1; r <= rows; r++ {
			f.SetCellValue(sh, nm(1, r), r*11)
			f.SetCellValue(sh, nm(5, r), fmt.Sprintf("m%d", r))
			dv := excelize.NewDataValidation(true)
			dv.SetSqref(nm(1, r) + ":" + nm(2, r))
			dv.SetRange(r*10, r*10+5, excelize.DataValidationTypeWhole, excelize.DataValidationOperatorBetween)
			f.AddDataValidation(sh, dv)
			f.SetConditionalFormat(sh, nm(3, r)+":"+nm(4, r), []excelize.ConditionalFormatOptions{{Type: "cell", Criteria: ">", Value: fmt.Sprint(r * 100)}})
			f.MergeCell(sh, nm(5, r), nm(6, r))
			f.SetRowHeight(sh, r, float64(20+r))
		}
		return f
	}
	type objs struct {
		dv, cf, mg, val, ht map[int]string
	}
	observe := func(f *excelize.File, upto int) objs {
		o := objs{map[int]string{}, map[int]string{}, map[int]string{}, map[int]string{}, map[int]string{}}
		dvs, _ := f.GetDataValidations(sh)
		for _, dv := range dvs {
			for _, ref := range strings.Split(dv.Sqref, " ") {
				p := strings.Split(ref, ":")
				_, r, _ := excelize.CellNameToCoordinates(p[0])
				o.dv[r] += ref + "=" + dv.Formula1 + ";"
			}
		}
		cfs, _ := f.GetConditionalFormats(sh)
		var ks []string
		for k := range cfs {
			ks = append(ks, k)
		}
		sort.Strings(ks)
		for _, k := range ks {
			for _, ref := range strings.Split(k, " ") {
				p := strings.Split(ref, ":")
				_, r, _ := excelize.CellNameToCoordinates(p[0])
				for _, opt := range cfs[k] {
					o.cf[r] += ref + ">" + opt.Value + ";"
				}
			}
		}
		mcs, _ := f.GetMergeCells(sh)
		for _, m := range mcs {
			_, r, _ := excelize.CellNameToCoordinates(m.GetStartAxis())
			o.mg[r] += m.GetStartAxis() + ":" + m.GetEndAxis() + ";"
		}
		for r := 1; r <= upto; r++ {
			a, _ := f.GetCellValue(sh, nm(1, r))
			e, _ := f.GetCellValue(sh, nm(5, r))
			o.val[r] = a + "/" + e
			h, _ := f.GetRowHeight(sh, r)
			o.ht[r] = fmt.Sprint(h)
		}
		return o
	}
	// rename the row number inside an observation string of row `from` to row `to`
	rerow := func(s string, from, to int) string {
		if from == to {
			return s
		}
		for col := 1; col <= 6; col++ {
			s = strings.ReplaceAll(s, nm(col, from)+":", "\x00"+fmt.Sprint(col)+":")
			s = strings.ReplaceAll(s, ":"+nm(col, from), ":\x01"+fmt.Sprint(col))
		}
		for col := 1; col <= 6; col++ {
			s = strings.ReplaceAll(s, "\x00"+fmt.Sprint(col)+":", nm(col, to)+":")
			s = strings.ReplaceAll(s, ":\x01"+fmt.Sprint(col), ":"+nm(col, to))
		}
		return s
	}
	rows := 5
	for src := 1; src <= rows+1; src++ {
		for dst := 1; dst <= rows+4; dst++ {
			if src == dst {
				continue
			}
			desc := map[string]int{"rows": rows, "source": src, "target": dst}
			c.guard("C06_no_panic", desc, func() {
				f := build(rows)
				defer f.Close()
				before := observe(f, rows+6)
				if err := f.DuplicateRowTo(sh, src, dst); err != nil {
					c.Fail("oracle", "C06_duplicate", desc, "DuplicateRowTo rejected: "+err.Error(), "")
					return
				}
				c.Count("duplicate", true, fmt.Sprint(src, dst))
				after := observe(f, rows+6)
				for r := 1; r <= rows+6; r++ {
					from := r
					switch {
					case r == dst:
						from = src
					case r > dst:
						from = r - 1
					}
					for _, k := range []struct {
						what string
						b, a map[int]string
					}{{"data validations", before.dv, after.dv}, {"conditional formats", before.cf, after.cf}, {"merged ranges", before.mg, after.mg}, {"values", before.val, after.val}, {"row height", before.ht, after.ht}} {
						want := rerow(k.b[from], from, r)
						if k.a[r] != want {
							c.Fail("oracle", "C06_duplicate", desc, fmt.Sprintf("after DuplicateRowTo(%d, %d) row %d has %s %q; the rule gives those of former row %d: %q", src, dst, r, k.what, k.a[r], from, want), "")
							return
						}
					}
				}
				// every row is still addressed by its number
				for r := 1; r <= rows+6; r++ {
					f.SetCellValue(sh, nm(2, r), fmt.Sprintf("w%d", r))
				}
				for r := 1; r <= rows+6; r++ {
					if v, _ := f.GetCellValue(sh, nm(2, r)); v != fmt.Sprintf("w%d", r) {
						c.Fail("oracle", "C06_duplicate", desc, fmt.Sprintf("after DuplicateRowTo(%d, %d) a write to %s reads back %q", src, dst, nm(2, r), v), "")
						return
					}
					f.SetCellValue(sh, nm(2, r), nil)
				}
				// removing the copy restores the sheet
				if err := f.RemoveRow(sh, dst); err != nil {
					return
				}
				restored := observe(f, rows+6)
				for r := 1; r <= rows+6; r++ {
					if restored.dv[r] != before.dv[r] || restored.cf[r] != before.cf[r] || restored.mg[r] != before.mg[r] || restored.val[r] != before.val[r] || restored.ht[r] != before.ht[r] {
						c.Fail("oracle", "C06_duplicate", desc, fmt.Sprintf("DuplicateRowTo(%d, %d) then RemoveRow(%d) does not restore row %d: %q %q %q %q %q vs %q %q %q %q %q", src, dst, dst, r,
							restored.dv[r], restored.cf[r], restored.mg[r], restored.val[r], restored.ht[r], before.dv[r], before.cf[r], before.mg[r], before.val[r], before.ht[r]), "")
						return
					}
				}
			})
		}
	}
	// targets at and beyond the row limit
	for _, dst := range []int{excelize.TotalRows, excelize.TotalRows + 1, 2000000} {
		desc := map[string]int{"source": 1, "target": dst}
		c.guard("C06_no_panic", desc, func() {
			f := build(2)
			defer f.Close()
			before := c06Observation(f, 8, 8)
			err := f.DuplicateRowTo(sh, 1, dst)
			c.Count("duplicate-limit", true, fmt.Sprint(dst))
			if dst > excelize.TotalRows {
				if err == nil {
					c.Fail("oracle", "C06_reject_atomic", desc, fmt.Sprintf("DuplicateRowTo(1, %d) was accepted: the copy lies beyond row %d", dst, excelize.TotalRows), "")
				} else if after := c06Observation(f, 8, 8); after != before {
					c.Fail("oracle", "C06_reject_atomic", desc, "rejected DuplicateRowTo changed the workbook: "+firstDiff(before, after), "")
				}
			} else if err == nil {
				if v, _ := f.GetCellValue(sh, nm(1, dst)); v != "11" {
					c.Fail("oracle", "C06_duplicate", desc, fmt.Sprintf("copy at row %d reads %q", dst, v), "")
				}
			}
		})
	}
}
