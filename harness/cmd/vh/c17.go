package main

import (
	"strconv"
	"encoding/json"
	"fmt"
	"reflect"
	"strings"

	"github.com/xuri/excelize/v2"
)

func init() { props["C17"] = propFn{run: runC17, replay: replayC17} }

func sp(s string) *string { return &s }
func ip(i int) *int       { return &i }

// genStyle: a field-wise generator of Style values in normal form (no field that NewStyle normalises away)
func (c *Ctx) genStyle() *excelize.Style {
	r := c.Rng
	st := &excelize.Style{}
	if r.Intn(3) > 0 {
		f := &excelize.Font{}
		f.Bold = r.Intn(2) == 0
		f.Italic = r.Intn(3) == 0
		f.Underline = []string{"", "single", "double"}[r.Intn(3)]
		f.Family = []string{"Calibri", "Arial", "Times New Roman"}[r.Intn(3)]
		f.Size = []float64{11, 8, 12, 14.5}[r.Intn(4)]
		f.Strike = r.Intn(4) == 0
		f.Color = []string{"", "FF0000", "00B050"}[r.Intn(3)]
		st.Font = f
	}
	switch r.Intn(4) {
	case 1:
		st.Fill = excelize.Fill{Type: "pattern", Pattern: 1 + r.Intn(18), Color: []string{[]string{"FFFF00", "E0EBF5", "4F81BD"}[r.Intn(3)]}}
	case 2:
		st.Fill = excelize.Fill{Type: "gradient", Color: []string{"FFFFFF", []string{"E0EBF5", "4F81BD"}[r.Intn(2)]}, Shading: r.Intn(6)}
	}
	if r.Intn(3) == 0 {
		types := []string{"left", "right", "top", "bottom", "diagonalUp", "diagonalDown"}
		n := 1 + r.Intn(3)
		start := r.Intn(len(types))
		for i := 0; i < n; i++ {
			st.Border = append(st.Border, excelize.Border{Type: types[(start+i)%len(types)], Color: []string{"000000", "FF0000"}[r.Intn(2)], Style: 1 + r.Intn(13)})
		}
		// diagonal borders must share one colour and style
		for i := range st.Border {
			if strings.HasPrefix(st.Border[i].Type, "diagonal") {
				st.Border[i].Color, st.Border[i].Style = "000000", 2
			}
		}
	}
	if r.Intn(3) == 0 {
		st.Alignment = &excelize.Alignment{Horizontal: []string{"", "center", "left", "right"}[r.Intn(4)], Vertical: []string{"", "top", "center"}[r.Intn(3)],
			WrapText: r.Intn(2) == 0, TextRotation: []int{0, 45, 90}[r.Intn(3)], Indent: r.Intn(3), ShrinkToFit: r.Intn(4) == 0}
	}
	if r.Intn(4) == 0 {
		st.Protection = &excelize.Protection{Hidden: r.Intn(2) == 0, Locked: r.Intn(2) == 0}
	}
	switch r.Intn(5) {
	case 1:
		st.NumFmt = []int{1, 2, 3, 4, 9, 10, 11, 14, 22, 49}[r.Intn(10)]
	case 2:
		st.CustomNumFmt = sp([]string{"0.000", "#,##0.00;[Red]-#,##0.00", "yyyy-mm-dd", "0.0%", "[h]:mm:ss"}[r.Intn(5)])
	case 3:
		// currency formats: the id names a format code, DecimalPlaces and NegRed complete it
		st.NumFmt = []int{165, 188, 164, 200, 189}[r.Intn(5)]
		st.NegRed = r.Intn(2) == 0
		switch r.Intn(3) {
		case 1:
			st.DecimalPlaces = ip(2)
		case 2:
			st.DecimalPlaces = ip(4)
		}
	}
	return st
}

func styleJSON(s *excelize.Style) string {
	b, _ := json.Marshal(s)
	return string(b)
}

// subsumes: every field the request supplied (non-zero) reads back; returns a description of the first mismatch
func styleSubsumes(req, got *excelize.Style) string {
	if got == nil {
		return "GetStyle returned nil"
	}
	if req.Font != nil {
		if got.Font == nil {
			return "font lost"
		}
		a, b := *req.Font, *got.Font
		if a.Bold != b.Bold || a.Italic != b.Italic || a.Underline != b.Underline || a.Strike != b.Strike || a.Family != b.Family || a.Size != b.Size ||
			!strings.EqualFold(a.Color, b.Color) {
			return fmt.Sprintf("font %+v reads back %+v", a, b)
		}
	}
	if req.Fill.Type != "" {
		if req.Fill.Type != got.Fill.Type || req.Fill.Pattern != got.Fill.Pattern || req.Fill.Shading != got.Fill.Shading || len(req.Fill.Color) != len(got.Fill.Color) {
			return fmt.Sprintf("fill %+v reads back %+v", req.Fill, got.Fill)
		}
		for i := range req.Fill.Color {
			if !strings.EqualFold(req.Fill.Color[i], got.Fill.Color[i]) {
				return fmt.Sprintf("fill %+v reads back %+v", req.Fill, got.Fill)
			}
		}
	}
	for _, rb := range req.Border {
		found := false
		for _, gb := range got.Border {
			if gb.Type == rb.Type && gb.Style == rb.Style && strings.EqualFold(gb.Color, rb.Color) {
				found = true
			}
		}
		if !found {
			return fmt.Sprintf("border %+v missing in %+v", rb, got.Border)
		}
	}
	if len(got.Border) != len(req.Border) {
		return fmt.Sprintf("borders %+v read back %+v", req.Border, got.Border)
	}
	if req.Alignment != nil && (got.Alignment == nil || !reflect.DeepEqual(*req.Alignment, *got.Alignment)) {
		return fmt.Sprintf("alignment %+v reads back %+v", req.Alignment, got.Alignment)
	}
	if req.Protection != nil && (got.Protection == nil || *req.Protection != *got.Protection) {
		return fmt.Sprintf("protection %+v reads back %+v", req.Protection, got.Protection)
	}
	if code, ok := c17CurrencyCode(req); ok {
		// a currency format reads back as its format code (the id too when the code is the plain one)
		if got.CustomNumFmt == nil || *got.CustomNumFmt != code {
			gc := "<nil>"
			if got.CustomNumFmt != nil {
				gc = *got.CustomNumFmt
			}
			return fmt.Sprintf("currency format %d (decimal places %v, negative red %v) is the code %q, reads back %q", req.NumFmt, c17dp(req), req.NegRed, code, gc)
		}
		if got.NegRed != req.NegRed {
			return fmt.Sprintf("NegRed %v reads back %v", req.NegRed, got.NegRed)
		}
		return ""
	}
	if req.NumFmt != got.NumFmt {
		return fmt.Sprintf("NumFmt %d reads back %d", req.NumFmt, got.NumFmt)
	}
	if req.CustomNumFmt != nil && (got.CustomNumFmt == nil || *req.CustomNumFmt != *got.CustomNumFmt) {
		return fmt.Sprintf("CustomNumFmt %q lost", *req.CustomNumFmt)
	}
	return ""
}

func (c *Ctx) c17Registry(seq []*excelize.Style, cases *[]mcase) {
	c.guard("C17_no_panic", "registry sequence", func() {
		f := excelize.NewFile()
		defer f.Close()
		known := map[int]string{} // id -> GetStyle JSON at issue time
		tok := map[string]int{}    // request JSON -> token
		var toks, ids []string
		for i, st := range seq {
			desc := map[string]interface{}{"step": i, "style": st}
			id, err := f.NewStyle(st)
			if err != nil {
				c.Fail("oracle", "C17_get_new", desc, "NewStyle rejected a valid style: "+err.Error(), "")
				return
			}
			got, err := f.GetStyle(id)
			if err != nil {
				c.Fail("oracle", "C17_get_new", desc, "GetStyle of the issued id failed: "+err.Error(), "")
				return
			}
			if m := styleSubsumes(st, got); m != "" {
				c.Fail("oracle", "C17_get_new", desc, fmt.Sprintf("GetStyle(NewStyle(s)) differs from s: %s", m), "")
			}
			id2, _ := f.NewStyle(st)
			if id2 != id {
				c.Fail("oracle", "C17_dedup", desc, fmt.Sprintf("registering the same definition again returned id %d, first id %d", id2, id), "")
			}
			for oid, js := range known {
				g, _ := f.GetStyle(oid)
				if styleJSON(g) != js {
					c.Fail("oracle", "C17_stable", desc, fmt.Sprintf("style id %d changed its meaning: %s -> %s", oid, js, styleJSON(g)), "")
				}
			}
			known[id] = styleJSON(got)
			// idempotence through the read-back definition
			id3, err := f.NewStyle(got)
			if err != nil {
				c.Fail("oracle", "C17_idem", desc, "NewStyle(GetStyle(id)) rejected: "+err.Error(), "")
			} else {
				g3, _ := f.GetStyle(id3)
				if styleJSON(g3) != styleJSON(got) {
					c.Fail("oracle", "C17_idem", desc, fmt.Sprintf("NewStyle(GetStyle(%d)) = %d whose definition differs: %s vs %s", id, id3, styleJSON(got), styleJSON(g3)), "")
				}
				known[id3] = styleJSON(g3)
			}
			js := styleJSON(st)
			if _, ok := tok[js]; !ok {
				tok[js] = len(tok) + 1
			}
			c.Count("style", true, js)
			// the token model sees both registrations (request, then read-back) only through the request token
			toks = append(toks, fmt.Sprint(tok[js]))
			ids = append(ids, fmt.Sprint(id))
		}
		_ = toks
		_ = ids
	})
}

// registry ids vs the token model: distinct normal-form requests only (read-back registrations are not interleaved)
func (c *Ctx) c17Model(seq []*excelize.Style, cases *[]mcase) {
	f := excelize.NewFile()
	defer f.Close()
	tok := map[string]int{}
	var toks, ids []string
	for _, st := range seq {
		id, err := f.NewStyle(st)
		if err != nil {
			return
		}
		got, _ := f.GetStyle(id)
		key := styleJSON(got) // the normalised definition is the token
		if _, ok := tok[key]; !ok {
			tok[key] = len(tok) + 1
		}
		if id == 0 {
			tok[key] = 0
		}
		toks = append(toks, fmt.Sprint(tok[key]))
		ids = append(ids, fmt.Sprint(id))
	}
	sz := 1
	seen := map[string]bool{"0": true}
	for _, t := range toks {
		if !seen[t] {
			seen[t] = true
			sz++
		}
	}
	*cases = append(*cases, mcase{Req: "c17.run " + strings.Join(toks, " "), Impl: fmt.Sprintf("ids %s size %d", strings.Join(ids, ","), sz), Rel: "c17.run", Desc: toks})
}

func (c *Ctx) c17Resolve(cases *[]mcase) {
	g := histGen{c: c, rowStyle: true}
	n := 120
	if c.Thorough() {
		n = 6000
	}
	for i := 0; i < n; i++ {
		h := g.gen(4 + c.Rng.Intn(20))
		// bias towards style assignments at the three levels
		for j := range h.Ops {
			switch c.Rng.Intn(6) {
			case 0:
				h.Ops[j] = sop{K: "Y", Col: h.Ops[j].Col, Row: h.Ops[j].Row, St: c.Rng.Intn(5)}
			case 1:
				h.Ops[j] = sop{K: "R", Col: h.Ops[j].Col, Row: h.Ops[j].Row, St: c.Rng.Intn(5)}
			case 2:
				h.Ops[j] = sop{K: "CS", Col: h.Ops[j].Col, Row: h.Ops[j].Row, St: c.Rng.Intn(5)}
			}
		}
		c.guard("C17_no_panic", h, func() {
			f, styles, err := runHist(h)
			defer f.Close()
			if err != nil {
				c.Fail("oracle", "C17_resolve", h, "valid history rejected: "+err.Error(), "")
				return
			}
			win, err := observeWindowAt(f, h.Sheet, h.C0, h.R0, h.W, h.H)
			if err != nil {
				return
			}
			c.Count("resolve-history", true, fmt.Sprint(h))
			if req, ok := h.modelReq(styles); ok {
				*cases = append(*cases, mcase{Req: req, Impl: win, Rel: "sheet.run(styles)", Desc: h})
			}
			// direct oracle: a cell that was never written or styled itself, in a row that existed with no row
			// style when... simpler invariant: an untouched cell beyond the used rows shows its column's style
			touchedRow := map[int]bool{}
			for _, o := range h.Ops {
				touchedRow[o.Row] = true
			}
			for col := h.C0; col < h.C0+h.W; col++ {
				cn, _ := excelize.ColumnNumberToName(col)
				cs, _ := f.GetColStyle(h.Sheet, cn)
				far, _ := excelize.CoordinatesToCellName(col, h.R0+h.H+40)
				if gs, _ := f.GetCellStyle(h.Sheet, far); gs != cs {
					c.Fail("oracle", "C17_resolve", h, fmt.Sprintf("untouched cell %s reports style %d but its column's style is %d", far, gs, cs), "")
				}
			}
			// invalid ids are rejected without any change
			before := fullObservation(f, h.Sheet, h.W, h.H)
			for _, bad := range []int{-1, len(styles) + 50, 1 << 30} {
				e1 := f.SetCellStyle(h.Sheet, "A1", "B2", bad)
				e2 := f.SetRowStyle(h.Sheet, 1, 2, bad)
				e3 := f.SetColStyle(h.Sheet, "A:B", bad)
				if e1 == nil || e2 == nil || e3 == nil {
					c.Fail("oracle", "C17_invalid_id", h, fmt.Sprintf("invalid style id %d accepted: %v %v %v", bad, e1, e2, e3), "")
				}
			}
			if after := fullObservation(f, h.Sheet, h.W, h.H); after != before {
				c.Fail("oracle", "C17_invalid_id", h, "rejected style assignments changed the sheet: "+firstDiff(before, after), "")
			}
			// a range assignment affects exactly the range
			if len(styles) > 2 {
				c1, r1 := 2+c.Rng.Intn(2), 2+c.Rng.Intn(2)
				c2, r2 := c1+c.Rng.Intn(2), r1+c.Rng.Intn(2)
				var pre [8][8]int
				for r := 1; r <= 6; r++ {
					for col := 1; col <= 6; col++ {
						n, _ := excelize.CoordinatesToCellName(col, r)
						pre[r][col], _ = f.GetCellStyle(h.Sheet, n)
					}
				}
				a, _ := excelize.CoordinatesToCellName(c1, r1)
				b, _ := excelize.CoordinatesToCellName(c2, r2)
				if err := f.SetCellStyle(h.Sheet, a, b, styles[2]); err == nil {
					for r := 1; r <= 6; r++ {
						for col := 1; col <= 6; col++ {
							n, _ := excelize.CoordinatesToCellName(col, r)
							got, _ := f.GetCellStyle(h.Sheet, n)
							want := pre[r][col]
							if col >= c1 && col <= c2 && r >= r1 && r <= r2 {
								want = styles[2]
							}
							if got != want {
								c.Fail("oracle", "C17_range_exact", h, fmt.Sprintf("SetCellStyle(%s:%s,%d): cell %s has style %d, expected %d", a, b, styles[2], n, got, want), "")
							}
						}
					}
				}
			}
			// SetColStyle and SetRowStyle affect exactly the addressed column / row: every cell of it reports the new
			// style (whatever row style, column style or own style it reported before), every other cell what it did
			if len(styles) > 4 {
				for _, byCol := range []bool{true, false} {
					at := 1 + c.Rng.Intn(7)
					var pre [10][10]int
					for r := 1; r <= 8; r++ {
						for col := 1; col <= 8; col++ {
							n, _ := excelize.CoordinatesToCellName(col, r)
							pre[r][col], _ = f.GetCellStyle(h.Sheet, n)
						}
					}
					st := styles[3]
					var err error
					what := ""
					if byCol {
						cn, _ := excelize.ColumnNumberToName(at)
						err, what = f.SetColStyle(h.Sheet, cn, st), "SetColStyle("+cn+")"
					} else {
						st = styles[4]
						err, what = f.SetRowStyle(h.Sheet, at, at, st), fmt.Sprintf("SetRowStyle(%d)", at)
					}
					if err != nil {
						continue
					}
					for r := 1; r <= 8; r++ {
						for col := 1; col <= 8; col++ {
							n, _ := excelize.CoordinatesToCellName(col, r)
							got, _ := f.GetCellStyle(h.Sheet, n)
							want := pre[r][col]
							if (byCol && col == at) || (!byCol && r == at) {
								want = st
							}
							if got != want {
								c.Fail("oracle", "C17_range_exact", map[string]interface{}{"history": h, "then": what}, fmt.Sprintf("%s with style %d: cell %s reports style %d, expected %d", what, st, n, got, want), "")
								return
							}
						}
					}
				}
			}
		})
	}
}

func runC17(c *Ctx) {
	c.R.Rule = "Style values from a field-wise generator (fonts, pattern and gradient fills, borders, alignment, protection, built-in and custom number formats) registered in random orders with repeats: GetStyle(NewStyle(s)) vs s, NewStyle twice, GetStyle of all earlier ids after each NewStyle, NewStyle(GetStyle(id)); id sequence vs the extracted token registry; cell/row/column style assignments interleaved with cell writes vs the extracted three-level model; invalid ids; range exactness. non-trivial = every style/hist; distinct = distinct definitions/histories"
	var cases []mcase
	n := 25
	if c.Thorough() {
		n = 800
	}
	for i := 0; i < n; i++ {
		var pool []*excelize.Style
		for j := 0; j < 4+c.Rng.Intn(8); j++ {
			pool = append(pool, c.genStyle())
		}
		// the default-font style (the former font-0 deduplication defect) and the empty style
		pool = append(pool, &excelize.Style{Font: &excelize.Font{Family: "Calibri", Size: 11, Color: ""}}, &excelize.Style{})
		var seq []*excelize.Style
		for j := 0; j < 10+c.Rng.Intn(15); j++ {
			seq = append(seq, pool[c.Rng.Intn(len(pool))])
		}
		c.c17Registry(seq, &cases)
		c.c17Model(seq, &cases)
		if i == 0 {
			c.Sample(map[string]interface{}{"registry sequence (first 3)": seq[:3]})
		}
	}
	c.c17Resolve(&cases)
	c.compareBatch(cases)
}

func replayC17(c *Ctx, f Failure) {
	var cases []mcase
	hs := extractHists(f.Case)
	if len(hs) > 0 {
		g := c
		_ = g
		for _, h := range hs {
			fl, styles, err := runHist(h)
			if err == nil {
				win, _ := observeWindowAt(fl, h.Sheet, h.C0, h.R0, h.W, h.H)
				if req, ok := h.modelReq(styles); ok {
					cases = append(cases, mcase{Req: req, Impl: win, Rel: "sheet.run(styles)", Desc: h})
				}
			}
			fl.Close()
		}
		c.compareBatch(cases)
		return
	}
	runC17(c)
}

// the plain format code of a currency id, as a fresh workbook reports it for the id alone (the table of codes is the
// library's; what is judged is how DecimalPlaces, NegRed and earlier registrations interact with it)
var c17currency = map[int]string{}

func c17CurrencyBase(id int) (string, bool) {
	if code, ok := c17currency[id]; ok {
		return code, code != ""
	}
	f := excelize.NewFile()
	defer f.Close()
	code := ""
	if sid, err := f.NewStyle(&excelize.Style{NumFmt: id}); err == nil {
		if g, err := f.GetStyle(sid); err == nil && g.CustomNumFmt != nil {
			code = *g.CustomNumFmt
		}
	}
	c17currency[id] = code
	return code, code != ""
}

func c17dp(s *excelize.Style) string {
	if s.DecimalPlaces == nil {
		return "unset"
	}
	return strconv.Itoa(*s.DecimalPlaces)
}

// the format code a currency style denotes (documented: DecimalPlaces replaces the two decimals, NegRed adds a red
// negative section)
func c17CurrencyCode(s *excelize.Style) (string, bool) {
	if s.NumFmt < 164 || s.CustomNumFmt != nil {
		return "", false
	}
	fc, ok := c17CurrencyBase(s.NumFmt)
	if !ok {
		return "", false
	}
	if s.DecimalPlaces != nil {
		dp := "0"
		if *s.DecimalPlaces > 0 {
			dp += "." + strings.Repeat("0", *s.DecimalPlaces)
		}
		fc = strings.ReplaceAll(fc, "0.00", dp)
	}
	if s.NegRed {
		fc = fc + ";[Red]" + fc
	}
	return fc, true
}
