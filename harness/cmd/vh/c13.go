package main

import (
	"strconv"
	"bytes"
	"encoding/binary"
	"fmt"
	"strings"

	"github.com/xuri/excelize/v2"
)

func init() { props["C13"] = propFn{run: runC13, replay: func(c *Ctx, f Failure) { runC13(c) }} }

// ---- independent compound-file reader (written from MS-CFB; shares no code with excelize or mscfb) ----
type cfbDoc struct {
	streams  map[string][]byte
	problems []string
	// the allocation tables as 32-bit words (signed: -1 free, -2 end of chain, -3 FAT sector, -4 DIFAT sector)
	fatWords, miniFATWords, hdrSlots []int32
	difSectors                       [][]int32
	dirStart, miniFATStart           int32
	nMiniFAT                         int
	rootStart                        int32
	rootSize                         uint64
	entryNames                       []string // stream entries in directory order
	entryStart                       []int32
	entrySize                        []uint64
}

func cfbRead(b []byte) *cfbDoc {
	d := &cfbDoc{streams: map[string][]byte{}}
	bad := func(f string, a ...interface{}) { d.problems = append(d.problems, fmt.Sprintf(f, a...)) }
	if len(b) < 512 || len(b)%512 != 0 {
		bad("file length %d is not a positive multiple of 512", len(b))
		return d
	}
	if !bytes.Equal(b[:8], []byte{0xD0, 0xCF, 0x11, 0xE0, 0xA1, 0xB1, 0x1A, 0xE1}) {
		bad("bad signature")
		return d
	}
	u16 := func(off int) int { return int(binary.LittleEndian.Uint16(b[off:])) }
	u32 := func(off int) uint32 { return binary.LittleEndian.Uint32(b[off:]) }
	if u16(0x1A) != 3 || u16(0x1E) != 9 || u16(0x20) != 6 || u16(0x1C) != 0xFFFE {
		bad("header version/shift fields: major %d sector shift %d mini shift %d byte order %x", u16(0x1A), u16(0x1E), u16(0x20), u16(0x1C))
	}
	nSectors := len(b)/512 - 1
	nFAT, dirStart, miniCutoff := int(u32(0x2C)), u32(0x30), u32(0x38)
	miniFATStart, nMiniFAT, difatStart, nDIFAT := u32(0x3C), int(u32(0x40)), u32(0x44), int(u32(0x48))
	if miniCutoff != 4096 {
		bad("mini stream cutoff %d", miniCutoff)
	}
	const (
		free   = 0xFFFFFFFF
		eoc    = 0xFFFFFFFE
		fatSec = 0xFFFFFFFD
		difSec = 0xFFFFFFFC
	)
	sector := func(i uint32) []byte {
		if int(i) >= nSectors {
			return nil
		}
		return b[512*(int(i)+1) : 512*(int(i)+2)]
	}
	d.dirStart, d.miniFATStart, d.nMiniFAT = int32(dirStart), int32(miniFATStart), nMiniFAT
	// DIFAT
	var fatSectors []uint32
	for i := 0; i < 109; i++ {
		d.hdrSlots = append(d.hdrSlots, int32(u32(0x4C+4*i)))
		if v := u32(0x4C + 4*i); v != free {
			fatSectors = append(fatSectors, v)
		}
	}
	cur := difatStart
	seenDif := 0
	for cur != eoc && cur != free {
		s := sector(cur)
		if s == nil || seenDif > nSectors {
			bad("DIFAT chain leaves the file at sector %d", cur)
			break
		}
		seenDif++
		var words []int32
		for i := 0; i < 128; i++ {
			words = append(words, int32(binary.LittleEndian.Uint32(s[4*i:])))
		}
		d.difSectors = append(d.difSectors, words)
		for i := 0; i < 127; i++ {
			if v := binary.LittleEndian.Uint32(s[4*i:]); v != free {
				fatSectors = append(fatSectors, v)
			}
		}
		cur = binary.LittleEndian.Uint32(s[508:])
	}
	if seenDif != nDIFAT {
		bad("header says %d DIFAT sectors, chain has %d", nDIFAT, seenDif)
	}
	if len(fatSectors) != nFAT {
		bad("header says %d FAT sectors, DIFAT lists %d", nFAT, len(fatSectors))
	}
	// FAT
	fat := make([]uint32, 0, 128*len(fatSectors))
	for _, fs := range fatSectors {
		s := sector(fs)
		if s == nil {
			bad("FAT sector %d outside the file", fs)
			return d
		}
		for i := 0; i < 128; i++ {
			fat = append(fat, binary.LittleEndian.Uint32(s[4*i:]))
		}
	}
	for _, w := range fat {
		d.fatWords = append(d.fatWords, int32(w))
	}
	if len(fat) < nSectors {
		bad("FAT has %d entries for %d sectors", len(fat), nSectors)
		return d
	}
	for _, fs := range fatSectors {
		if fat[fs] != fatSec {
			bad("FAT sector %d is not marked FATSECT (%#x)", fs, fat[fs])
		}
	}
	used := make([]string, nSectors)
	chain := func(start uint32, what string) []byte {
		var out []byte
		n := 0
		for cur := start; cur != eoc; cur = fat[cur] {
			if int(cur) >= nSectors || n > nSectors {
				bad("%s: chain leaves the file or loops at sector %d", what, cur)
				return out
			}
			if used[cur] != "" {
				bad("%s: sector %d already belongs to %s", what, cur, used[cur])
				return out
			}
			used[cur] = what
			out = append(out, sector(cur)...)
			n++
		}
		return out
	}
	dir := chain(dirStart, "directory")
	var miniFAT []uint32
	if nMiniFAT > 0 {
		mf := chain(miniFATStart, "miniFAT")
		if len(mf) != 512*nMiniFAT {
			bad("mini FAT chain has %d sectors, header says %d", len(mf)/512, nMiniFAT)
		}
		for i := 0; i+4 <= len(mf); i += 4 {
			miniFAT = append(miniFAT, binary.LittleEndian.Uint32(mf[i:]))
			d.miniFATWords = append(d.miniFATWords, int32(binary.LittleEndian.Uint32(mf[i:])))
		}
	}
	type entry struct {
		name  string
		typ   byte
		start uint32
		size  uint64
	}
	var entries []entry
	for off := 0; off+128 <= len(dir); off += 128 {
		e := dir[off : off+128]
		nl := int(binary.LittleEndian.Uint16(e[64:]))
		if e[66] == 0 {
			continue
		}
		if nl < 2 || nl > 64 {
			bad("directory entry %d: name length %d", off/128, nl)
			continue
		}
		var sb strings.Builder
		for i := 0; i+2 <= nl-2; i += 2 {
			sb.WriteRune(rune(binary.LittleEndian.Uint16(e[i:])))
		}
		entries = append(entries, entry{sb.String(), e[66], binary.LittleEndian.Uint32(e[116:]), binary.LittleEndian.Uint64(e[120:])})
	}
	if len(entries) == 0 || entries[0].typ != 5 {
		bad("first directory entry is not the root storage")
		return d
	}
	d.rootStart, d.rootSize = int32(entries[0].start), entries[0].size
	for _, e := range entries[1:] {
		if e.typ == 2 {
			d.entryNames, d.entryStart, d.entrySize = append(d.entryNames, e.name), append(d.entryStart, int32(e.start)), append(d.entrySize, e.size)
		}
	}
	var mini []byte
	if entries[0].size > 0 {
		mini = chain(entries[0].start, "mini stream container")
		if uint64(len(mini)) < entries[0].size {
			bad("mini stream container has %d bytes, root entry says %d", len(mini), entries[0].size)
		}
	}
	miniUsed := map[uint32]string{}
	for _, e := range entries[1:] {
		if e.typ != 2 {
			continue
		}
		var data []byte
		if e.size >= 4096 {
			data = chain(e.start, "stream "+e.name)
		} else if e.size > 0 {
			n := 0
			for cur := e.start; cur != eoc; cur = miniFAT[cur] {
				if int(cur) >= len(miniFAT) || 64*(int(cur)+1) > len(mini) || n > len(miniFAT) {
					bad("stream %s: mini chain leaves the mini stream at %d", e.name, cur)
					break
				}
				if miniUsed[cur] != "" {
					bad("stream %s: mini sector %d already belongs to %s", e.name, cur, miniUsed[cur])
					break
				}
				miniUsed[cur] = e.name
				data = append(data, mini[64*cur:64*(cur+1)]...)
				n++
			}
		}
		if uint64(len(data)) < e.size {
			bad("stream %s: chain holds %d bytes, entry says %d", e.name, len(data), e.size)
			d.streams[e.name] = data
			continue
		}
		want := (e.size + 511) / 512 * 512
		if e.size < 4096 {
			want = (e.size + 63) / 64 * 64
		}
		if uint64(len(data)) != want {
			bad("stream %s: chain length %d bytes, expected %d for size %d", e.name, len(data), want, e.size)
		}
		d.streams[e.name] = data[:e.size]
	}
	for i := 0; i < nSectors; i++ {
		switch fat[i] {
		case fatSec, difSec, free:
		default:
			if used[i] == "" {
				bad("sector %d is allocated in the FAT (%#x) but belongs to no chain", i, fat[i])
			}
		}
	}
	return d
}

func pattern(n, salt int) []byte {
	b := make([]byte, n)
	for i := range b {
		b[i] = byte((i*131 + salt*17 + i/251) % 256)
	}
	return b
}

func (c *Ctx) c13Container(sizes [][2]int) {
	var reqs []string
	type pend struct {
		s   [2]int
		loc []int
	}
	var ps []pend
	var treqs []string
	var tdocs []*cfbDoc
	var tsizes [][2]int
	defer func() { c.c13Tables(treqs, tdocs, tsizes) }()
	for _, s := range sizes {
		desc := map[string]interface{}{"EncryptionInfo_size": s[0], "EncryptedPackage_size": s[1]}
		c.guard("C13_no_panic", desc, func() {
			a, b := pattern(s[0], 1), pattern(s[1], 2)
			raw := excelize.VerifCfbWrite([]string{"EncryptionInfo", "EncryptedPackage"}, [][]byte{a, b})
			doc := cfbRead(raw)
			c.Count("container", s[0] > 0 && s[1] > 0, fmt.Sprint(s))
			for _, p := range doc.problems {
				c.Fail("oracle", "C13_cfb_structure", desc, p, "")
			}
			if got := doc.streams["EncryptionInfo"]; !bytes.Equal(got, a) {
				c.Fail("oracle", "C13_cfb_roundtrip", desc, fmt.Sprintf("independent reader extracts %d bytes for EncryptionInfo (%d written), equal=%v", len(got), len(a), false), "")
			}
			if got := doc.streams["EncryptedPackage"]; !bytes.Equal(got, b) {
				c.Fail("oracle", "C13_cfb_roundtrip", desc, fmt.Sprintf("independent reader extracts %d bytes for EncryptedPackage (%d written) with different content", len(got), len(b)), "")
			}
			loc := excelize.VerifCfbLocate([]string{"EncryptionInfo", "EncryptedPackage"}, []int{s[0], s[1]})
			ps = append(ps, pend{s, loc})
			if len(doc.problems) == 0 && len(doc.entrySize) == 2 {
				treqs = append(treqs, fmt.Sprintf("c13.tables 3 %d %d", doc.entrySize[0], doc.entrySize[1]))
				tdocs = append(tdocs, doc)
				tsizes = append(tsizes, s)
			}
			// stream order after prepare(): the model takes the sizes as a multiset
			reqs = append(reqs, fmt.Sprintf("c13.locate 3 %d %d", s[0], s[1]))
		})
	}
	if c.Model == nil || c.Model.path == "" || len(reqs) == 0 {
		return
	}
	outs := c.Model.Call(reqs)
	for i, p := range ps {
		c.R.Traces++
		l := p.loc
		impl := fmt.Sprintf("%d %d %d %d %d %d %d", l[1], l[2], l[3], l[4], l[5], l[6], l[7])
		fs := strings.Fields(outs[i])
		if len(fs) != 8 {
			c.Fail("model-impl", "locate", p.s, "model: "+outs[i], "")
			continue
		}
		model := strings.Join(append(fs[:6:6], fs[7]), " ")
		if model != impl {
			c.Fail("model-impl", "locate", map[string]interface{}{"sizes": p.s}, fmt.Sprintf("sector layout for sizes %v: implementation [difat fat minifat dir big mini end] = %s, model %s", p.s, impl, model), "")
		}
	}
}

// layout only (nothing is written): every payload sector count up to two DIFAT sectors, model vs implementation,
// plus the covering inequalities of MS-CFB stated directly on the implementation's answer
func (c *Ctx) c13Locate(maxSectors, step int) {
	var reqs []string
	var locs [][]int
	var ns []int
	// the hook keeps one zero buffer that only grows: size it once
	excelize.VerifCfbLocate([]string{"EncryptedPackage"}, []int{512*maxSectors + 512})
	for n := 0; n <= maxSectors; n += step {
		for _, off := range []int{0, 100} {
			size := 512*n + off
			if size == 0 {
				continue
			}
			l := excelize.VerifCfbLocate([]string{"EncryptionInfo", "EncryptedPackage"}, []int{248, size})
			c.Count("locate", true, "")
			difat, fat, minifat, dir, big, mini := l[1], l[2], l[3], l[4], l[5], l[6]
			total := difat + fat + minifat + dir + big + (mini+7)/8
			if fat*128 < total {
				c.Fail("oracle", "C13_cfb_geometry", map[string]interface{}{"EncryptedPackage_size": size}, fmt.Sprintf("payload of %d bytes: %d FAT sectors hold %d entries but the file has %d sectors", size, fat, fat*128, total), "")
			}
			if fat > 109 && difat*127 < fat-109 {
				c.Fail("oracle", "C13_cfb_geometry", map[string]interface{}{"EncryptedPackage_size": size}, fmt.Sprintf("payload of %d bytes: %d DIFAT sectors cannot list %d FAT sectors", size, difat, fat), "")
			}
			if (fat-1)*128 >= total+1 && fat > 1 {
				c.Fail("oracle", "C13_cfb_geometry", map[string]interface{}{"EncryptedPackage_size": size}, fmt.Sprintf("payload of %d bytes: %d FAT sectors for %d sectors is more than needed", size, fat, total), "")
			}
			reqs = append(reqs, fmt.Sprintf("c13.locate 3 248 %d", size))
			locs = append(locs, l)
			ns = append(ns, size)
		}
	}
	if c.Model == nil || c.Model.path == "" {
		return
	}
	outs := c.Model.Call(reqs)
	for i, l := range locs {
		c.R.Traces++
		impl := fmt.Sprintf("%d %d %d %d %d %d %d", l[1], l[2], l[3], l[4], l[5], l[6], l[7])
		fs := strings.Fields(outs[i])
		if len(fs) != 8 {
			c.Fail("model-impl", "locate", ns[i], "model: "+outs[i], "")
			continue
		}
		if model := strings.Join(append(fs[:6:6], fs[7]), " "); model != impl {
			c.Fail("model-impl", "locate", map[string]interface{}{"EncryptedPackage_size": ns[i]}, fmt.Sprintf("sector layout for a %d-byte package: implementation [difat fat minifat dir big mini end] = %s, model %s", ns[i], impl, model), "")
		}
	}
}

func (c *Ctx) c13Crypt(sizes []int) {
	var reqs []string
	for _, n := range sizes {
		desc := map[string]interface{}{"plaintext_size": n}
		c.guard("C13_no_panic", desc, func() {
			b := pattern(n, 3)
			pw := []string{"pw", "пароль", "😀🔑", "a\x00b", strings.Repeat("x", 255), "p"}[n%6]
			enc, err := excelize.Encrypt(b, &excelize.Options{Password: pw})
			c.Count("encrypt", n > 0, fmt.Sprint(n, pw))
			if err != nil {
				c.Fail("oracle", "C13_crypt_roundtrip", desc, "Encrypt failed: "+err.Error(), "")
				return
			}
			doc := cfbRead(enc)
			for _, p := range doc.problems {
				c.Fail("oracle", "C13_cfb_structure", desc, p, "")
			}
			pkg := doc.streams["EncryptedPackage"]
			padded := (n + 15) / 16 * 16
			if len(pkg) != 8+padded || (len(pkg) >= 8 && binary.LittleEndian.Uint64(pkg[:8]) != uint64(n)) {
				c.Fail("oracle", "C13_crypt_layout", desc, fmt.Sprintf("EncryptedPackage stream has %d bytes (want %d) / wrong size prefix", len(pkg), 8+padded), "")
			}
			dec, err := excelize.Decrypt(enc, &excelize.Options{Password: pw})
			if err != nil || !bytes.Equal(dec, b) {
				c.Fail("oracle", "C13_crypt_roundtrip", desc, fmt.Sprintf("Decrypt(Encrypt(b)) differs from b: %d bytes in, %d bytes out, err %v", n, len(dec), err), "")
			}
			if n <= 600 {
				reqs = append(reqs, "c13.pkg "+hexb(string(b)))
			}
		})
	}
	// the package layer of the model (identity cipher) round-trips on the same payloads and has the same layout
	if c.Model != nil && c.Model.path != "" && len(reqs) > 0 {
		outs := c.Model.Call(reqs)
		for i, o := range outs {
			c.R.Traces++
			fs := strings.Fields(o)
			in := strings.TrimPrefix(strings.Fields(reqs[i])[1], "x")
			if len(fs) != 3 || fs[1] != "ok" || strings.TrimPrefix(fs[2], "x") != in {
				c.Fail("model-impl", "pkg-layer", reqs[i], "model package layer does not round-trip: "+o, "")
				continue
			}
			n := len(in) / 2
			if (len(fs[0])-1)/2 != 8+(n+15)/16*16 {
				c.Fail("model-impl", "pkg-layer", reqs[i], fmt.Sprintf("model stream length %d for payload %d", (len(fs[0])-1)/2, n), "")
			}
		}
	}
}

func (c *Ctx) c13Workbook() {
	for i, pw := range []string{"p", "secret", "пароль-ключ", "😀🔑", strings.Repeat("k", 255), "a b\tc", "pw\U0001F600", "\U00010348x"} {
		desc := map[string]interface{}{"password": pw}
		c.guard("C13_no_panic", desc, func() {
			f := excelize.NewFile()
			for r := 1; r <= 20*(i+1); r++ {
				n, _ := excelize.CoordinatesToCellName(1+r%5, r)
				f.SetCellValue("Sheet1", n, fmt.Sprintf("v%d", r*i))
			}
			before := allSheetsObservation(f, 5, 12)
			var buf bytes.Buffer
			if err := f.Write(&buf, excelize.Options{Password: pw}); err != nil {
				c.Fail("oracle", "C13_open_roundtrip", desc, "saving with a password failed: "+err.Error(), "")
				return
			}
			f.Close()
			c.Count("workbook", true, pw)
			g, err := excelize.OpenReader(bytes.NewReader(buf.Bytes()), excelize.Options{Password: pw})
			if err != nil {
				c.Fail("oracle", "C13_open_roundtrip", desc, "opening with the same password failed: "+err.Error(), "")
				return
			}
			if after := allSheetsObservation(g, 5, 12); after != before {
				c.Fail("oracle", "C13_open_roundtrip", desc, "content differs after password save/open: "+firstDiff(before, after), "")
			}
			g.Close()
			for _, wrong := range append([]string{"", pw + "x", strings.ToUpper(pw) + "1", "wrong"}, nearMissPasswords(pw)...) {
				if len(wrong) > 255 {
					continue
				}
				if wrong == pw {
					continue
				}
				h, err := excelize.OpenReader(bytes.NewReader(buf.Bytes()), excelize.Options{Password: wrong})
				if err == nil {
					c.Fail("oracle", "C13_open_gate", map[string]interface{}{"password": pw, "tried": wrong}, fmt.Sprintf("workbook protected with %q opened with %q", pw, wrong), "")
					h.Close()
				}
			}
		})
	}
	// passwords beyond 255 bytes are refused at save time, not truncated
	c.guard("C13_no_panic", "long password", func() {
		f := excelize.NewFile()
		defer f.Close()
		var buf bytes.Buffer
		if err := f.Write(&buf, excelize.Options{Password: strings.Repeat("p", 256)}); err == nil {
			if g, err := excelize.OpenReader(bytes.NewReader(buf.Bytes()), excelize.Options{Password: strings.Repeat("p", 255)}); err == nil {
				g.Close()
				c.Fail("oracle", "C13_open_gate", "256-byte password", "a 256-byte password was accepted and the file opens with its 255-byte prefix", "")
			}
		}
	})
	// documents protected by Office
	for _, fx := range []struct{ file, pw string }{{"encryptAES.xlsx", "password"}, {"encryptSHA1.xlsx", "password"}} {
		f, err := excelize.OpenFile("/repo/test/"+fx.file, excelize.Options{Password: fx.pw})
		c.Count("office-fixture", true, fx.file)
		if err != nil {
			c.Fail("oracle", "C13_office_fixture", fx.file, "Office-protected fixture does not open: "+err.Error(), "")
			continue
		}
		if _, err := f.GetRows(f.GetSheetName(0)); err != nil {
			c.Fail("oracle", "C13_office_fixture", fx.file, "decrypted fixture is not readable: "+err.Error(), "")
		}
		f.Close()
		if g, err := excelize.OpenFile("/repo/test/"+fx.file, excelize.Options{Password: "nope"}); err == nil {
			c.Fail("oracle", "C13_open_gate", fx.file, "Office-protected fixture opened with a wrong password", "")
			g.Close()
		}
	}
}

func runC13(c *Ctx) {
	c.R.Rule = "compound-file writer driven with deterministic stream contents at sizes 0.., around the 4096-byte mini-stream cutoff, every 512 boundary +-1 up to 128 KiB (quick: every 8th), 128-entry FAT boundaries, the 109-FAT-sector DIFAT threshold (~7 MiB; quick: one size each side, thorough: a sweep and 2 DIFAT sectors): independent MS-CFB reader (structure + extracted streams = written streams), sector layout vs extracted model; Encrypt/Decrypt round trip and EncryptedPackage layout for payload sizes 0..600 and boundaries with passwords (ASCII, Cyrillic, astral, NUL, 255 bytes); workbook save/open with password and wrong passwords; the password gate judged by an independent ECMA-376 standard-encryption verifier (UTF-16LE, SHA-1, 50000 iterations) on the written EncryptionInfo, with near-miss passwords (characters above U+FFFF cut to 16 bits, surrogate halves, 8-bit cuts, case, trailing NUL/space, prefixes); Office fixtures. non-trivial = non-empty streams"
	var sizes [][2]int
	infos := []int{248, 0, 1, 63, 64, 65, 4095, 4096}
	for _, n := range []int{0, 1, 8, 63, 64, 65, 127, 128, 4087, 4088, 4089, 4095, 4096, 4097, 4608, 8191, 8192, 8193} {
		for _, i := range infos {
			sizes = append(sizes, [2]int{i, n})
		}
	}
	step := 8
	if c.Thorough() {
		step = 1
	}
	for k := 9; k <= 256; k += step {
		for _, d := range []int{-1, 0, 1} {
			sizes = append(sizes, [2]int{248, 512*k + d})
		}
	}
	// FAT sector boundaries (128 entries per FAT sector) and the DIFAT threshold (109 FAT sectors)
	for _, secs := range []int{125, 126, 127, 128, 253, 254, 255, 256, 13800, 13840, 13945, 13946, 13947, 13948, 13949, 13950, 14000, 14079} {
		sizes = append(sizes, [2]int{248, 512 * secs})
		if c.Thorough() {
			sizes = append(sizes, [2]int{248, 512*secs - 1}, [2]int{248, 512*secs + 1})
		}
	}
	if c.Thorough() {
		for secs := 13900; secs <= 14100; secs += 3 {
			sizes = append(sizes, [2]int{248, 512 * secs})
		}
		sizes = append(sizes, [2]int{248, 512 * 30300}, [2]int{4095, 512*30300 + 7}, [2]int{248, 512 * 46500})
	}
	c.c13Container(sizes)
	if c.Thorough() {
		c.c13Locate(47000, 1)
	} else {
		c.c13Locate(31000, 1)
	}
	var ns []int
	for n := 0; n <= 600; n += 7 {
		ns = append(ns, n)
	}
	ns = append(ns, 7340040, 15, 16, 17, 31, 32, 33, 4079, 4080, 4081, 4087, 4088, 4089, 4095, 4096, 4097, 8192, 65536, 70001, 1<<20+5)
	if c.Thorough() {
		for n := 0; n <= 5000; n++ {
			ns = append(ns, n)
		}
		ns = append(ns, 7340032, 7340033, 7200000)
	}
	c.c13Crypt(ns)
	c.c13Workbook()
	c.c13Gate()
	c.Sample(map[string]interface{}{"container sizes": len(sizes), "examples": sizes[:3], "payload sizes": len(ns)})
}

func i32s(l []int32) string {
	var sb strings.Builder
	for i, v := range l {
		if i > 0 {
			sb.WriteByte(',')
		}
		sb.WriteString(strconv.Itoa(int(v)))
	}
	return sb.String()
}

// the allocation tables of the written container, word for word, against the extracted table model
// (C13/Chains.v: fat_table, minifat_table, msat_header, msat_sector), and the start sectors stored in the header,
// the root entry and the stream entries against the chain starts of the model
func (c *Ctx) c13Tables(reqs []string, docs []*cfbDoc, sizes [][2]int) {
	if c.Model == nil || c.Model.path == "" || len(reqs) == 0 {
		return
	}
	outs := c.Model.Call(reqs)
	for i, o := range outs {
		c.R.Traces++
		d := docs[i]
		desc := map[string]interface{}{"EncryptionInfo_size": sizes[i][0], "EncryptedPackage_size": sizes[i][1]}
		kv := map[string]string{}
		for _, f := range strings.Fields(o) {
			if p := strings.SplitN(f, "=", 2); len(p) == 2 {
				kv[p[0]] = p[1]
			}
		}
		if _, ok := kv["fat"]; !ok {
			c.Fail("model-impl", "c13.tables", desc, "model: "+o, "")
			continue
		}
		diff := func(what, model, impl string) {
			if model != impl {
				c.Fail("model-impl", "c13.tables", desc, what+" differs between the written container and the model: "+firstDiff(impl, model), "")
			}
		}
		diff("FAT", kv["fat"], i32s(d.fatWords))
		diff("mini FAT", kv["mfat"], i32s(d.miniFATWords))
		diff("header DIFAT slots", kv["hdr"], i32s(d.hdrSlots))
		var ds []string
		for _, w := range d.difSectors {
			ds = append(ds, i32s(w))
		}
		diff("DIFAT sectors", kv["dif"], strings.Join(ds, "|"))
		st := strings.Split(kv["st"], ",")
		mst := strings.Split(kv["mst"], ",")
		if len(st) != 5 || len(mst) != 2 {
			c.Fail("model-impl", "c13.tables", desc, "model starts: "+kv["st"]+" / "+kv["mst"], "")
			continue
		}
		eq := func(what, model string, impl int32) {
			if model != strconv.Itoa(int(impl)) {
				c.Fail("model-impl", "c13.tables", desc, fmt.Sprintf("%s: the container says sector %d, the model's chain starts at %s", what, impl, model), "")
			}
		}
		eq("directory start (header)", st[1], d.dirStart)
		if d.nMiniFAT > 0 {
			eq("mini FAT start (header)", st[0], d.miniFATStart)
		}
		if d.rootSize > 0 {
			eq("mini stream container start (root entry)", st[4], d.rootStart)
		}
		for k := 0; k < 2; k++ {
			switch {
			case d.entrySize[k] >= 4096:
				eq("start of stream "+d.entryNames[k], st[2+k], d.entryStart[k])
			case d.entrySize[k] > 0:
				eq("mini start of stream "+d.entryNames[k], mst[k], d.entryStart[k])
			}
		}
	}
}
