package main

import (
	"bytes"
	"encoding/json"
	"fmt"
	"math/rand"
	"os"
	"os/exec"
	"path/filepath"
	"regexp"
	"sort"
	"strconv"
	"strings"
	"sync"
	"time"

	"github.com/xuri/excelize/v2"
)

func init() {
	props["C15"] = propFn{run: runC15, replay: func(c *Ctx, f Failure) { runC15(c) }}
	workers["c15"] = c15Worker
}

// ---- the operations issued concurrently ----
type c15call struct {
	Fn    string `json:"fn"`
	Sheet string `json:"sheet"`
	Cell  string `json:"cell,omitempty"`
	Kind  string `json:"kind,omitempty"` // payload kind for setters
	N     int    `json:"n,omitempty"`
}

type c15scenario struct {
	Name       string      `json:"name"`
	Goroutines [][]c15call `json:"goroutines"`
	// Reopen > 0: the workbook is saved and reopened (no worksheet decoded yet) and the goroutines make the first
	// touches; repeated that many times, each on a freshly opened workbook
	Reopen int `json:"reopen,omitempty"`
}

var c15pic = func() []byte {
	// 1x1 PNG
	return []byte{0x89, 0x50, 0x4e, 0x47, 0x0d, 0x0a, 0x1a, 0x0a, 0, 0, 0, 0x0d, 0x49, 0x48, 0x44, 0x52, 0, 0, 0, 1, 0, 0, 0, 1, 8, 6, 0, 0, 0, 0x1f, 0x15, 0xc4, 0x89, 0, 0, 0, 0x0d, 0x49, 0x44, 0x41, 0x54, 0x78, 0x9c, 0x62, 0, 1, 0, 0, 5, 0, 1, 0x0d, 0x0a, 0x2d, 0xb4, 0, 0, 0, 0, 0x49, 0x45, 0x4e, 0x44, 0xae, 0x42, 0x60, 0x82}
}()

func c15payload(kind string, n int) interface{} {
	switch kind {
	case "int":
		return n
	case "float":
		return float64(n) / 4
	case "str":
		return fmt.Sprintf("s-%d", n) // extends the shared-string table
	case "bool":
		return n%2 == 0
	case "time":
		return time.Date(2020, 1, 1+n%300, n%24, 0, 0, 0, time.UTC)
	case "dur":
		return time.Duration(n) * time.Second
	case "bytes":
		return []byte(fmt.Sprintf("b-%d", n))
	case "nil":
		return nil
	}
	return n
}

// run one call; the returned string is what a sequential execution must also be able to produce
func c15Do(f *excelize.File, cl c15call) (string, error) {
	switch cl.Fn {
	case "SetCellValue":
		return "", f.SetCellValue(cl.Sheet, cl.Cell, c15payload(cl.Kind, cl.N))
	case "SetCellInt":
		return "", f.SetCellInt(cl.Sheet, cl.Cell, int64(cl.N))
	case "SetCellStr":
		return "", f.SetCellStr(cl.Sheet, cl.Cell, fmt.Sprintf("str-%d", cl.N))
	case "SetCellBool":
		return "", f.SetCellBool(cl.Sheet, cl.Cell, cl.N%2 == 0)
	case "SetCellFloat":
		return "", f.SetCellFloat(cl.Sheet, cl.Cell, float64(cl.N)/8, -1, 64)
	case "SetCellDefault":
		return "", f.SetCellDefault(cl.Sheet, cl.Cell, strconv.Itoa(cl.N))
	case "GetCellValue":
		_, err := f.GetCellValue(cl.Sheet, cl.Cell)
		return "", err
	case "SetSheetRow":
		return "", f.SetSheetRow(cl.Sheet, cl.Cell, &[]interface{}{cl.N, fmt.Sprintf("r-%d", cl.N), float64(cl.N) / 2})
	case "NewStyle":
		id, err := f.NewStyle(&excelize.Style{Font: &excelize.Font{Size: float64(8 + cl.N%9), Bold: cl.N%2 == 0}, NumFmt: cl.N % 5})
		return fmt.Sprintf("style:%d:%d", cl.N, id), err
	case "SetCellStyle":
		id, err := f.NewStyle(&excelize.Style{Font: &excelize.Font{Size: float64(8 + cl.N%9), Bold: cl.N%2 == 0}, NumFmt: cl.N % 5})
		if err != nil {
			return "", err
		}
		return fmt.Sprintf("style:%d:%d", cl.N, id), f.SetCellStyle(cl.Sheet, cl.Cell, cl.Cell, id)
	case "GetCellStyle":
		_, err := f.GetCellStyle(cl.Sheet, cl.Cell)
		return "", err
	case "Rows":
		rows, err := f.Rows(cl.Sheet)
		if err != nil {
			return "", err
		}
		for rows.Next() {
			if _, err := rows.Columns(); err != nil {
				break
			}
		}
		return "", rows.Close()
	case "Cols":
		cols, err := f.Cols(cl.Sheet)
		if err != nil {
			return "", err
		}
		for cols.Next() {
			if _, err := cols.Rows(); err != nil {
				break
			}
		}
		return "", nil
	case "SetColWidth":
		col, _, _ := excelize.SplitCellName(cl.Cell)
		return "", f.SetColWidth(cl.Sheet, col, col, float64(10+cl.N%30))
	case "GetColWidth":
		col, _, _ := excelize.SplitCellName(cl.Cell)
		_, err := f.GetColWidth(cl.Sheet, col)
		return "", err
	case "SetColStyle":
		col, _, _ := excelize.SplitCellName(cl.Cell)
		return "", f.SetColStyle(cl.Sheet, col, 0)
	case "GetColStyle":
		col, _, _ := excelize.SplitCellName(cl.Cell)
		_, err := f.GetColStyle(cl.Sheet, col)
		return "", err
	case "SetColVisible":
		col, _, _ := excelize.SplitCellName(cl.Cell)
		return "", f.SetColVisible(cl.Sheet, col, cl.N%2 == 0)
	case "GetColVisible":
		col, _, _ := excelize.SplitCellName(cl.Cell)
		_, err := f.GetColVisible(cl.Sheet, col)
		return "", err
	case "AddPicture":
		return "", f.AddPictureFromBytes(cl.Sheet, cl.Cell, &excelize.Picture{Extension: ".png", File: c15pic, Format: &excelize.GraphicOptions{AltText: "p"}})
	case "GetPictures":
		_, err := f.GetPictures(cl.Sheet, cl.Cell)
		return "", err
	case "AddDataValidation":
		dv := excelize.NewDataValidation(true)
		dv.SetSqref(cl.Cell)
		dv.SetRange(1, 10+cl.N, excelize.DataValidationTypeWhole, excelize.DataValidationOperatorBetween)
		return "", f.AddDataValidation(cl.Sheet, dv)
	case "DeleteDataValidation":
		return "", f.DeleteDataValidation(cl.Sheet, cl.Cell)
	}
	return "", fmt.Errorf("unknown call %s", cl.Fn)
}

type c15result struct {
	Panics  []string          `json:"panics"`
	Errors  []string          `json:"errors"`
	Styles  []string          `json:"styles"`
	Cells   map[string]string `json:"cells"`   // sheet!cell -> raw value after all calls
	StyleOK []string          `json:"style_ok"` // mismatches between a handed-out id and the style it denotes
	Hung    bool              `json:"hung"`
	Lost    []string          `json:"lost"` // first-touch rounds: writes missing after all goroutines finished
}

// worker: vh worker c15 <scenario.json> <out.json>
func c15Worker(args []string) {
	data, err := os.ReadFile(args[0])
	if err != nil {
		fatal("c15 worker: %v", err)
	}
	var sc c15scenario
	if err := json.Unmarshal(data, &sc); err != nil {
		fatal("c15 worker: %v", err)
	}
	base := excelize.NewFile()
	base.NewSheet("S2")
	for _, g := range sc.Goroutines {
		for _, cl := range g {
			if idx, _ := base.GetSheetIndex(cl.Sheet); idx == -1 {
				base.NewSheet(cl.Sheet)
			}
		}
	}
	nseed := 6
	if sc.Reopen > 0 {
		nseed = 4000 // decoding takes long enough for first touches to overlap
	}
	for r := 1; r <= nseed; r++ {
		base.SetCellValue("Sheet1", "Z"+strconv.Itoa(r), "seed-"+strconv.Itoa(r))
		base.SetCellValue("S2", "Z"+strconv.Itoa(r), r)
	}
	res := c15result{Cells: map[string]string{}}
	var packed []byte
	if sc.Reopen > 0 {
		var buf bytes.Buffer
		base.Write(&buf)
		packed = buf.Bytes()
	}
	rounds := sc.Reopen
	if rounds == 0 {
		rounds = 1
	}
	var f *excelize.File
	for round := 0; round < rounds; round++ {
		f = base
		if sc.Reopen > 0 {
			g, err := excelize.OpenReader(bytes.NewReader(packed))
			if err != nil {
				fatal("c15 worker: reopen: %v", err)
			}
			f = g
		}
		var mu sync.Mutex
		var wg sync.WaitGroup
		start := make(chan struct{})
		for _, g := range sc.Goroutines {
			wg.Add(1)
			go func(calls []c15call) {
				defer wg.Done()
				defer func() {
					if r := recover(); r != nil {
						mu.Lock()
						res.Panics = append(res.Panics, fmt.Sprint(r))
						mu.Unlock()
					}
				}()
				<-start
				for _, cl := range calls {
					out, err := c15Do(f, cl)
					mu.Lock()
					if err != nil {
						res.Errors = append(res.Errors, cl.Fn+": "+err.Error())
					}
					if out != "" {
						res.Styles = append(res.Styles, out)
					}
					mu.Unlock()
				}
			}(g)
		}
		close(start)
		done := make(chan struct{})
		go func() { wg.Wait(); close(done) }()
		select {
		case <-done:
		case <-time.After(60 * time.Second):
			res.Hung = true
			out, _ := json.Marshal(res)
			os.WriteFile(args[1], out, 0o644)
			os.Exit(3)
		}
		if sc.Reopen > 0 {
			res.Styles = nil // ids are per workbook: the style oracle applies to the single-workbook scenarios
		}
		if sc.Reopen > 0 && round < rounds-1 {
			// a lost write in any round is a failure: check the singly written cells now
			for _, g := range sc.Goroutines {
				for _, cl := range g {
					if want, ok := c15Expected(cl); ok {
						if v, _ := f.GetCellValue(cl.Sheet, cl.Cell, excelize.Options{RawCellValue: true}); v != want {
							res.Lost = append(res.Lost, fmt.Sprintf("round %d: %s(%s!%s) wrote %q but the cell holds %q", round, cl.Fn, cl.Sheet, cl.Cell, want, v))
						}
					}
				}
			}
			f.Close()
		}
	}
	// final observation (sequential)
	for _, g := range sc.Goroutines {
		for _, cl := range g {
			if strings.HasPrefix(cl.Fn, "SetCell") && cl.Fn != "SetCellStyle" {
				v, _ := f.GetCellValue(cl.Sheet, cl.Cell, excelize.Options{RawCellValue: true})
				res.Cells[cl.Sheet+"!"+cl.Cell] = v
			}
			if cl.Fn == "SetSheetRow" {
				col, row, _ := excelize.CellNameToCoordinates(cl.Cell)
				for k := 0; k < 3; k++ {
					nm, _ := excelize.CoordinatesToCellName(col+k, row)
					v, _ := f.GetCellValue(cl.Sheet, nm, excelize.Options{RawCellValue: true})
					res.Cells[cl.Sheet+"!"+nm] = v
				}
			}
		}
	}
	// every style id handed out denotes the style asked for
	for _, s := range res.Styles {
		p := strings.Split(s, ":")
		n, _ := strconv.Atoi(p[1])
		id, _ := strconv.Atoi(p[2])
		st, err := f.GetStyle(id)
		if err != nil || st.Font == nil || st.Font.Size != float64(8+n%9) || st.Font.Bold != (n%2 == 0) || st.NumFmt != n%5 {
			res.StyleOK = append(res.StyleOK, fmt.Sprintf("request %d got id %d which denotes %+v (err %v)", n, id, st, err))
		}
	}
	// the workbook still saves and reopens
	var buf bytes.Buffer
	if err := f.Write(&buf); err != nil {
		res.Errors = append(res.Errors, "save: "+err.Error())
	} else if g, err := excelize.OpenReader(bytes.NewReader(buf.Bytes())); err != nil {
		res.Errors = append(res.Errors, "reopen: "+err.Error())
	} else {
		g.Close()
	}
	out, _ := json.Marshal(res)
	os.WriteFile(args[1], out, 0o644)
}

// expected raw value of a cell written exactly once
func c15Expected(cl c15call) (string, bool) {
	switch cl.Fn {
	case "SetCellInt", "SetCellDefault":
		return strconv.Itoa(cl.N), true
	case "SetCellStr":
		return fmt.Sprintf("str-%d", cl.N), true
	case "SetCellBool":
		return map[bool]string{true: "1", false: "0"}[cl.N%2 == 0], true
	case "SetCellFloat":
		return strconv.FormatFloat(float64(cl.N)/8, 'f', -1, 64), true
	case "SetCellValue":
		switch cl.Kind {
		case "int":
			return strconv.Itoa(cl.N), true
		case "str":
			return fmt.Sprintf("s-%d", cl.N), true
		case "bytes":
			return fmt.Sprintf("b-%d", cl.N), true
		case "float":
			return strconv.FormatFloat(float64(cl.N)/4, 'f', -1, 64), true
		case "bool":
			return map[bool]string{true: "1", false: "0"}[cl.N%2 == 0], true
		}
	}
	return "", false
}

var c15raceRe = regexp.MustCompile(`(?s)WARNING: DATA RACE\n(.*?)\n==================`)
var c15frameRe = regexp.MustCompile(`github\.com/xuri/excelize/v2\.(\(\*?\w+\)\.)?(\w+)\(\)\n\s+/repo/(\w+\.go):(\d+)`)

// the two innermost excelize frames of a race report: "func@file:line <-> func@file:line"
func c15RaceKey(report string) string {
	parts := regexp.MustCompile(`\n\n`).Split(report, -1)
	var tops []string
	for _, p := range parts {
		if !(strings.Contains(p, "rite at") || strings.Contains(p, "ead at")) {
			continue
		}
		if m := c15frameRe.FindStringSubmatch(p); m != nil {
			tops = append(tops, m[2]+"@"+m[3])
		}
	}
	sort.Strings(tops)
	return strings.Join(tops, " <-> ")
}

func (c *Ctx) c15Scenarios() []c15scenario {
	r := c.Rng
	setters := []string{"SetCellValue", "SetCellInt", "SetCellStr", "SetCellBool", "SetCellFloat", "SetCellDefault"}
	kinds := []string{"int", "float", "str", "bool", "time", "dur", "bytes", "nil"}
	var out []c15scenario
	cell := func(g, i int) string {
		nm, _ := excelize.CoordinatesToCellName(1+g%20, 1+i)
		return nm
	}
	// 1. pairs of documented functions on one sheet, distinct cells (every ordered pair over a representative set)
	reps := []string{"SetCellValue:str", "SetCellValue:time", "SetCellValue:int", "SetCellInt", "SetCellStr", "GetCellValue", "SetSheetRow", "SetCellStyle", "GetCellStyle", "NewStyle", "Rows", "Cols", "SetColWidth", "GetColWidth", "SetColStyle", "SetColVisible", "GetColVisible", "AddPicture", "GetPictures", "AddDataValidation", "DeleteDataValidation"}
	mk := func(spec string, g, i int) c15call {
		p := strings.Split(spec, ":")
		cl := c15call{Fn: p[0], Sheet: "Sheet1", Cell: cell(g, i), N: g*1000 + i}
		if len(p) > 1 {
			cl.Kind = p[1]
		}
		if cl.Fn == "SetSheetRow" {
			nm, _ := excelize.CoordinatesToCellName(1+(g%5)*4, 30+i)
			cl.Cell = nm
		}
		return cl
	}
	for a := 0; a < len(reps); a++ {
		for b := a; b < len(reps); b++ {
			sc := c15scenario{Name: "pair " + reps[a] + " || " + reps[b]}
			for g := 0; g < 4; g++ {
				var calls []c15call
				spec := reps[a]
				if g%2 == 1 {
					spec = reps[b]
				}
				for i := 0; i < 25; i++ {
					calls = append(calls, mk(spec, g, i))
				}
				sc.Goroutines = append(sc.Goroutines, calls)
			}
			out = append(out, sc)
		}
	}
	// 1b. pairs the lock table flags: longer runs, more goroutines
	specOf := func(fn string) string {
		for _, r := range reps {
			if strings.HasPrefix(r, fn) {
				return r
			}
		}
		return fn
	}
	for _, pr := range c15StaticPairs() {
		sc := c15scenario{Name: "flagged by the lock table: " + pr[0] + " || " + pr[1]}
		for g := 0; g < 8; g++ {
			var calls []c15call
			spec := specOf(pr[g%2])
			for i := 0; i < 60; i++ {
				calls = append(calls, mk(spec, g, i))
			}
			sc.Goroutines = append(sc.Goroutines, calls)
		}
		out = append(out, sc)
		// and as first touches of a freshly opened workbook (no worksheet decoded yet), distinct cells, few calls
		ft := c15scenario{Name: "flagged by the lock table, first touches: " + pr[0] + " || " + pr[1], Reopen: 25}
		for g := 0; g < 4; g++ {
			ft.Goroutines = append(ft.Goroutines, []c15call{mk(specOf(pr[g%2]), g, 0), mk("SetCellInt", g, 1)})
		}
		out = append(out, ft)
		c.R.Dist["lock-table-flagged-pairs"]++
	}
	// 1c. first touches of a freshly opened workbook by a setter and each getter/accessor
	for _, other := range []string{"GetCellValue", "GetColWidth", "GetColVisible", "GetColStyle", "GetCellStyle", "SetColVisible", "SetColWidth", "AddDataValidation", "Rows", "SetCellStyle"} {
		ft := c15scenario{Name: "first touches: SetCellInt || " + other, Reopen: 6}
		for g := 0; g < 4; g++ {
			spec := "SetCellInt"
			if g%2 == 1 {
				spec = other
			}
			ft.Goroutines = append(ft.Goroutines, []c15call{mk(spec, g, 0), mk("SetCellInt", g, 1)})
		}
		out = append(out, ft)
	}
	// 1d. one worksheet per goroutine: the worksheet locks exclude nothing between the goroutines, only the
	// workbook-level state (shared strings, styles, part publication) is shared
	for _, spec := range []string{"SetCellValue:str", "SetCellStr", "SetSheetRow", "SetCellValue:time", "NewStyle", "SetCellStyle"} {
		for _, other := range []string{spec, "GetCellValue", "SetCellValue:str"} {
			sc := c15scenario{Name: "one worksheet per goroutine: " + spec + " || " + other}
			for g := 0; g < 8; g++ {
				var calls []c15call
				for i := 0; i < 150; i++ {
					sp := spec
					if g%2 == 1 {
						sp = other
					}
					cl := mk(sp, g, i)
					cl.Sheet = "W" + strconv.Itoa(g)
					cl.Cell = cell(i%7, i/7)
					if cl.Fn == "SetSheetRow" {
						nm, _ := excelize.CoordinatesToCellName(1, 40+i)
						cl.Cell = nm
					}
					calls = append(calls, cl)
				}
				sc.Goroutines = append(sc.Goroutines, calls)
			}
			out = append(out, sc)
		}
	}
	// 2. random mixes, 2..32 goroutines, shared and distinct cells, two sheets
	n := 6
	if c.Thorough() {
		n = 60
	}
	all := append([]string{}, reps...)
	for k := 0; k < n; k++ {
		ng := []int{2, 3, 8, 16, 32}[r.Intn(5)]
		sc := c15scenario{Name: fmt.Sprintf("mix %d goroutines #%d", ng, k)}
		shared := r.Intn(2) == 0
		for g := 0; g < ng; g++ {
			var calls []c15call
			for i := 0; i < 20; i++ {
				spec := all[r.Intn(len(all))]
				cl := mk(spec, g, i)
				if strings.HasPrefix(cl.Fn, "SetCell") && cl.Fn != "SetCellStyle" && r.Intn(2) == 0 {
					cl.Fn, cl.Kind = setters[r.Intn(len(setters))], kinds[r.Intn(len(kinds))]
				}
				if r.Intn(4) == 0 {
					cl.Sheet = "S2"
				}
				if shared && r.Intn(3) == 0 {
					cl.Cell = []string{"B2", "C3", "D4"}[r.Intn(3)]
				}
				calls = append(calls, cl)
			}
			sc.Goroutines = append(sc.Goroutines, calls)
		}
		out = append(out, sc)
	}
	return out
}

// pairs of documented functions whose generated access records conflict without a common lock (empty on a tree
// where Locks_ok holds): they get extra, more intense scenarios so that a broken proof comes with a race report
func c15StaticPairs() [][2]string {
	root := os.Getenv("VERIF_ROOT")
	if root == "" {
		root = "/verif"
	}
	data, err := os.ReadFile(filepath.Join(root, "build", "locks.json"))
	if err != nil {
		return nil
	}
	var t struct {
		Functions []struct {
			Name     string `json:"name"`
			Accesses []struct {
				Resource int   `json:"resource"`
				Write    bool  `json:"write"`
				Locks    []int `json:"locks"`
			} `json:"accesses"`
		} `json:"functions"`
	}
	if json.Unmarshal(data, &t) != nil {
		return nil
	}
	seen := map[[2]string]bool{}
	var out [][2]string
	for _, f1 := range t.Functions {
		for _, f2 := range t.Functions {
			for _, a := range f1.Accesses {
				for _, b := range f2.Accesses {
					if a.Resource != b.Resource || !(a.Write || b.Write) {
						continue
					}
					common := false
					for _, x := range a.Locks {
						for _, y := range b.Locks {
							if x == y {
								common = true
							}
						}
					}
					k := [2]string{strings.TrimPrefix(f1.Name, "File."), strings.TrimPrefix(f2.Name, "File.")}
					if !common && !seen[k] && !seen[[2]string{k[1], k[0]}] {
						seen[k] = true
						out = append(out, k)
					}
				}
			}
		}
	}
	return out
}

func (c *Ctx) c15RaceBinary() (string, error) {
	root := os.Getenv("VERIF_ROOT")
	if root == "" {
		root = "/verif"
	}
	bin := filepath.Join(root, "build", "vh-race")
	cmd := exec.Command("go", "build", "-race", "-tags", "verif", "-o", bin, "./cmd/vh")
	cmd.Dir = filepath.Join(root, "harness")
	cmd.Env = append(os.Environ(), "GOFLAGS=-mod=mod", "GOPROXY=off", "GOSUMDB=off", "GOTOOLCHAIN=local", "CGO_ENABLED=1")
	if out, err := cmd.CombinedOutput(); err != nil {
		return "", fmt.Errorf("%v: %s", err, out)
	}
	return bin, nil
}

func (c *Ctx) c15Stress() {
	bin, err := c.c15RaceBinary()
	if err != nil {
		c.Fail("oracle", "C15_race_free", "build", "cannot build the race-detector worker: "+err.Error(), "")
		return
	}
	dir, _ := os.MkdirTemp("", "vh-c15-")
	defer os.RemoveAll(dir)
	scs := c.c15Scenarios()
	type outcome struct {
		sc     c15scenario
		stderr string
		res    c15result
		err    error
	}
	outs := make([]outcome, len(scs))
	sem := make(chan struct{}, 14)
	var wg sync.WaitGroup
	for i := range scs {
		wg.Add(1)
		go func(i int) {
			defer wg.Done()
			sem <- struct{}{}
			defer func() { <-sem }()
			in, outp := filepath.Join(dir, fmt.Sprintf("s%d.json", i)), filepath.Join(dir, fmt.Sprintf("o%d.json", i))
			b, _ := json.Marshal(scs[i])
			os.WriteFile(in, b, 0o644)
			cmd := exec.Command(bin, "worker", "c15", in, outp)
			cmd.Env = append(os.Environ(), "GORACE=halt_on_error=0 exitcode=0 history_size=2", "TMPDIR="+dir)
			var stderr bytes.Buffer
			cmd.Stderr = &stderr
			err := cmd.Run()
			o := outcome{sc: scs[i], stderr: stderr.String(), err: err}
			if data, e := os.ReadFile(outp); e == nil {
				json.Unmarshal(data, &o.res)
			}
			outs[i] = o
		}(i)
	}
	wg.Wait()
	seenRace := map[string]bool{}
	for _, o := range outs {
		desc := map[string]interface{}{"scenario": o.sc.Name, "goroutines": len(o.sc.Goroutines)}
		calls := 0
		for _, g := range o.sc.Goroutines {
			calls += len(g)
		}
		c.Count("scenario", true, o.sc.Name)
		c.R.Dist["calls"] += calls
		if o.res.Hung {
			c.Fail("oracle", "C15_no_deadlock", desc, o.sc.Name+": the goroutines did not finish within 60 s", "")
			continue
		}
		if o.err != nil && o.res.Cells == nil {
			c.Fail("oracle", "C15_no_panic", desc, fmt.Sprintf("%s: worker died: %v: %.300s", o.sc.Name, o.err, o.stderr), "")
			continue
		}
		for _, p := range o.res.Panics {
			c.Fail("oracle", "C15_no_panic", desc, o.sc.Name+": a goroutine panicked: "+p, "")
		}
		for _, m := range c15raceRe.FindAllStringSubmatch(o.stderr, -1) {
			key := c15RaceKey(m[1])
			if key == "" || seenRace[key] {
				continue
			}
			seenRace[key] = true
			full := map[string]interface{}{"scenario": o.sc, "race_report": m[1]}
			c.Fail("oracle", "C15_race_free", full, fmt.Sprintf("data race %s (scenario %q)", key, o.sc.Name), "c15-race "+key)
		}
		for i, l := range o.res.Lost {
			if i < 2 {
				c.Fail("oracle", "C15_linearizable", map[string]interface{}{"scenario": o.sc}, o.sc.Name+": "+l, "")
			}
		}
		for _, s := range o.res.StyleOK {
			c.Fail("oracle", "C15_linearizable", desc, o.sc.Name+": "+s, "")
		}
		for _, e := range o.res.Errors {
			if strings.HasPrefix(e, "save:") || strings.HasPrefix(e, "reopen:") {
				c.Fail("oracle", "C15_linearizable", desc, o.sc.Name+": after the concurrent calls the workbook fails to "+e, "")
			}
		}
		// writes to cells written exactly once are all present
		count := map[string]int{}
		for _, g := range o.sc.Goroutines {
			for _, cl := range g {
				if strings.HasPrefix(cl.Fn, "SetCell") && cl.Fn != "SetCellStyle" {
					count[cl.Sheet+"!"+cl.Cell]++
				}
				if cl.Fn == "SetSheetRow" {
					col, row, _ := excelize.CellNameToCoordinates(cl.Cell)
					for k := 0; k < 3; k++ {
						nm, _ := excelize.CoordinatesToCellName(col+k, row)
						count[cl.Sheet+"!"+nm]++
					}
				}
			}
		}
		for _, g := range o.sc.Goroutines {
			for _, cl := range g {
				key := cl.Sheet + "!" + cl.Cell
				if want, ok := c15Expected(cl); ok && count[key] == 1 {
					if got := o.res.Cells[key]; got != want {
						c.Fail("oracle", "C15_linearizable", desc, fmt.Sprintf("%s: %s(%s) wrote %q but the cell holds %q after all goroutines finished", o.sc.Name, cl.Fn, key, want, got), "")
						break
					}
				}
			}
		}
	}
}

func runC15(c *Ctx) {
	c.R.Rule = "lock table regenerated from the source (Generated/Locks.v) checked by the Coq lockset theorem; stress: every unordered pair of 21 representative documented functions (4 goroutines x 25 calls, distinct cells of one sheet) and random mixes of all of them (2..32 goroutines, shared and distinct cells, two sheets, all payload kinds incl. time values and new shared strings) in workers built with the Go race detector: race reports (keyed by the two innermost excelize frames), panics, hangs, final cells of singly-written cells, style ids vs the styles they denote, save/reopen. non-trivial = all"
	_ = rand.Int
	c.c15Stress()
	c.c15ValidationAtomicity()
}

// atomicity of the data-validation calls (every access is under the worksheet lock, so the race detector and the
// lock table are silent about a call that does its work in two critical sections): a delete over a huge reference
// sequence (long to expand) runs against "delete the last rule, then add one elsewhere"; whichever way the calls are
// ordered, exactly the added rule remains
func (c *Ctx) c15ValidationAtomicity() {
	for trial := 0; trial < 12; trial++ {
		delay := time.Duration(trial*3) * time.Millisecond
		desc := map[string]interface{}{"goroutine_D": "DeleteDataValidation(Sheet1, A1:Z40000)", "goroutine_M": "DeleteDataValidation(Sheet1, A1:A2); AddDataValidation(AB1:AB2)", "M_starts_after_ms": trial * 3}
		c.guard("C15_no_panic", desc, func() {
			f := excelize.NewFile()
			defer f.Close()
			dv := excelize.NewDataValidation(true)
			dv.SetSqref("A1:A2")
			dv.SetRange(1, 5, excelize.DataValidationTypeWhole, excelize.DataValidationOperatorBetween)
			if f.AddDataValidation("Sheet1", dv) != nil {
				return
			}
			var wg sync.WaitGroup
			wg.Add(2)
			go func() {
				defer wg.Done()
				_ = f.DeleteDataValidation("Sheet1", "A1:Z40000")
			}()
			go func() {
				defer wg.Done()
				time.Sleep(delay)
				_ = f.DeleteDataValidation("Sheet1", "A1:A2")
				nv := excelize.NewDataValidation(true)
				nv.SetSqref("AB1:AB2")
				nv.SetRange(1, 9, excelize.DataValidationTypeWhole, excelize.DataValidationOperatorBetween)
				_ = f.AddDataValidation("Sheet1", nv)
			}()
			done := make(chan struct{})
			go func() { wg.Wait(); close(done) }()
			select {
			case <-done:
			case <-time.After(60 * time.Second):
				c.Fail("oracle", "C15_linearizable", desc, "the two goroutines did not finish within 60 s", "")
				return
			}
			c.Count("validation-atomicity", true, fmt.Sprint(trial))
			dvs, _ := f.GetDataValidations("Sheet1")
			var got []string
			for _, d := range dvs {
				got = append(got, d.Sqref)
			}
			if len(got) != 1 || got[0] != "AB1:AB2" {
				c.Fail("oracle", "C15_linearizable", desc, fmt.Sprintf("the worksheet ends with the data validations %q; every sequential order of the three calls leaves exactly [\"AB1:AB2\"]: a completed AddDataValidation was lost", got), "")
			}
		})
		if c.Failed() {
			return
		}
	}
}
