package main

import (
	"io"
	"bytes"
	"archive/zip"
	"fmt"
	"sort"
	"strconv"
	"strings"

	"github.com/xuri/excelize/v2"
)

func init() { props["C16"] = propFn{run: runC16, replay: replayC16} }

type wop struct {
	K string `json:"k"` // N new, D delete, M move, R rename, V visible, A active, C copy, T touch (cell write), DN defined name, G group, U ungroup
	A string `json:"a,omitempty"`
	B string `json:"b,omitempty"`
	I int    `json:"i,omitempty"`
	J int    `json:"j,omitempty"`
	V bool   `json:"v,omitempty"`
	H bool   `json:"h,omitempty"`
}

func (o wop) token() (string, bool) {
	switch o.K {
	case "N", "D", "T":
		return o.K + "," + hexb(o.A), true
	case "M", "R":
		return o.K + "," + hexb(o.A) + "," + hexb(o.B), true
	case "V":
		return "V," + hexb(o.A) + "," + tf(o.V) + "," + tf(o.H), true
	case "A":
		return "A," + strconv.Itoa(o.I), true
	case "C":
		return fmt.Sprintf("C,%d,%d", o.I, o.J), true
	}
	return "", false
}

type c16state struct {
	f       *excelize.File
	counter int
	dnCount int
	// defined names created by the harness: name -> sheet id it was scoped to
	scoped map[string]int
}

func (st *c16state) apply(o wop) error {
	f := st.f
	switch o.K {
	case "N":
		_, err := f.NewSheet(o.A)
		return err
	case "D":
		return f.DeleteSheet(o.A)
	case "M":
		return f.MoveSheet(o.A, o.B)
	case "R":
		return f.SetSheetName(o.A, o.B)
	case "V":
		return f.SetSheetVisible(o.A, o.V, o.H)
	case "A":
		f.SetActiveSheet(o.I)
		return nil
	case "C":
		return f.CopySheet(o.I, o.J)
	case "T":
		err := f.SetCellValue(o.A, "A1", st.counter+1)
		if err == nil {
			st.counter++
		}
		return err
	case "DN":
		// a fresh name for every call: a workbook-level name and a sheet-level one must not share a name here,
		// the oracle below looks names up by name only
		st.dnCount++
		name := fmt.Sprintf("dn%d", st.dnCount)
		err := f.SetDefinedName(&excelize.DefinedName{Name: name, RefersTo: "Sheet1!$A$1", Scope: o.A})
		if err == nil {
			for id, n := range f.GetSheetMap() {
				if strings.EqualFold(n, o.A) {
					st.scoped[name] = id
				}
			}
		}
		return err
	case "G":
		return f.GroupSheets(strings.Split(o.A, "|"))
	case "U":
		return f.UngroupSheets()
	}
	return nil
}

func (st *c16state) observe() string {
	f := st.f
	var sb strings.Builder
	fmt.Fprintf(&sb, "active=%d", f.GetActiveSheetIndex())
	ids := map[string]int{}
	for id, n := range f.GetSheetMap() {
		ids[n] = id
	}
	for _, n := range f.GetSheetList() {
		vis, _ := f.GetSheetVisible(n)
		v := "h"
		if vis {
			v = "v"
		}
		a1, _ := f.GetCellValue(n, "A1")
		if a1 == "" {
			a1 = "0"
		}
		fmt.Fprintf(&sb, " %s:%d:%s:%s", hexb(n), ids[n], v, a1)
	}
	return sb.String()
}

// worksheet-scoped defined names as GetDefinedName reports them: name@scope, sorted
func (st *c16state) scopedNames() string {
	var ns []string
	for _, dn := range st.f.GetDefinedName() {
		if dn.Scope != "Workbook" && dn.Scope != "" {
			ns = append(ns, hexb(dn.Name)+"@"+hexb(dn.Scope))
		}
	}
	sort.Strings(ns)
	return strings.Join(ns, ",")
}

// direct oracle on the implementation's own observations
func (c *Ctx) c16Oracle(st *c16state, desc interface{}) {
	f := st.f
	list := f.GetSheetList()
	fail := func(format string, a ...interface{}) {
		c.Fail("oracle", "C16_inv", desc, fmt.Sprintf(format, a...), "")
	}
	if len(list) == 0 {
		fail("no sheet left")
		return
	}
	seen := map[string]bool{}
	anyVisible := false
	for _, n := range list {
		k := strings.ToLower(n)
		if seen[k] {
			fail("sheet names not unique case-insensitively: %q", list)
		}
		seen[k] = true
		if n == "" || len([]rune(n)) > 31 || strings.ContainsAny(n, ":\\/?*[]") || strings.HasPrefix(n, "'") || strings.HasSuffix(n, "'") {
			fail("invalid sheet name %q in the sheet list", n)
		}
		if v, _ := f.GetSheetVisible(n); v {
			anyVisible = true
		}
	}
	if !anyVisible {
		fail("no visible sheet left: %q", list)
	}
	if a := f.GetActiveSheetIndex(); a < 0 || a >= len(list) {
		fail("active sheet index %d does not denote a sheet of %q", a, list)
	}
	idSeen := map[int]bool{}
	for id := range f.GetSheetMap() {
		if idSeen[id] {
			fail("duplicate sheet id %d", id)
		}
		idSeen[id] = true
	}
	if len(f.GetSheetMap()) != len(list) {
		fail("sheet map %v and sheet list %q differ in size", f.GetSheetMap(), list)
	}
	// scoped defined names keep pointing at the sheet they were created for, or vanish with it
	cur := map[int]string{}
	for id, n := range f.GetSheetMap() {
		cur[id] = n
	}
	got := map[string]string{}
	for _, dn := range f.GetDefinedName() {
		got[dn.Name] = dn.Scope
	}
	for name, id := range st.scoped {
		sheetName, alive := cur[id]
		scope, present := got[name]
		if !alive && present {
			c.Fail("oracle", "C16_delete_names", desc, fmt.Sprintf("defined name %s was scoped to a deleted sheet but still exists with scope %q", name, scope), "")
		}
		if !alive && !present {
			// gone with its sheet: forget it (NewSheet gives the highest id + 1, so the id of a deleted sheet can come
			// back for a new, unrelated sheet)
			delete(st.scoped, name)
			continue
		}
		if alive && !present {
			c.Fail("oracle", "C16_delete_names", desc, fmt.Sprintf("defined name %s scoped to sheet %q disappeared", name, sheetName), "")
		}
		if alive && present && !strings.EqualFold(scope, sheetName) {
			c.Fail("oracle", "C16_delete_names", desc, fmt.Sprintf("defined name %s was scoped to sheet %q (id %d) but now reports scope %q", name, sheetName, id, scope), "c16-scoped-name-after-move")
		}
	}
}

func (c *Ctx) c16Run(ops []wop, cases *[]mcase) {
	c.guard("C16_no_panic", ops, func() {
		st := &c16state{f: excelize.NewFile(), scoped: map[string]int{}}
		defer st.f.Close()
		var toks []string
		modelOK := true
		for i, o := range ops {
			before := st.observe()
			err := st.apply(o)
			if err != nil && st.observe() != before {
				c.Fail("oracle", "C16_reject_unchanged", ops[:i+1], fmt.Sprintf("op %d (%v) returned %v but changed the sheet collection: %s -> %s", i, o, err, before, st.observe()), "")
			}
			if t, ok := o.token(); ok {
				toks = append(toks, t)
			} else if o.K == "DN" && o.A != "" && o.A != "Workbook" {
				// a worksheet-scoped definition (the name was chosen by apply); workbook-level names are not modelled
				toks = append(toks, "DN,"+hexb(fmt.Sprintf("dn%d", st.dnCount))+","+hexb(o.A))
			} else if o.K != "DN" {
				modelOK = false
			}
			c.c16Oracle(st, ops[:i+1])
			c.R.Dist["op:"+o.K]++
			if c.Failed() {
				return
			}
		}
		c.Count("history", len(ops) >= 2, fmt.Sprint(ops))
		if len(ops) >= 3 {
			c.c16Package(st, ops)
		}
		if modelOK {
			*cases = append(*cases, mcase{Req: "c16.run " + strings.Join(toks, " "), Impl: st.observe() + " consistent=t names=" + st.scopedNames(), Rel: "c16.run", Desc: ops})
		}
	})
}

var c16names = []string{"Sheet1", "sheet1", "SHEET1", "S2", "s2", "Data 1", "x'y", "Sheet2", strings.Repeat("n", 31), strings.Repeat("n", 32), "a:b", "", "'q", "Q3"}

func (c *Ctx) c16Op(nsheets int, names bool) wop {
	r := c.Rng
	nm := func() string { return c16names[r.Intn(len(c16names))] }
	k := r.Intn(100)
	switch {
	case k < 20:
		return wop{K: "N", A: nm()}
	case k < 32:
		return wop{K: "D", A: nm()}
	case k < 44:
		return wop{K: "M", A: nm(), B: nm()}
	case k < 56:
		return wop{K: "R", A: nm(), B: nm()}
	case k < 70:
		return wop{K: "V", A: nm(), V: r.Intn(3) == 0, H: r.Intn(2) == 0}
	case k < 78:
		return wop{K: "A", I: r.Intn(nsheets+2) - 1}
	case k < 86:
		return wop{K: "C", I: r.Intn(nsheets + 1), J: r.Intn(nsheets + 1)}
	case k < 90 || !names:
		return wop{K: "T", A: nm()}
	case k < 97:
		return wop{K: "DN", A: nm()}
	case k < 99:
		return wop{K: "G", A: nm() + "|" + nm()}
	default:
		return wop{K: "U"}
	}
}

func runC16(c *Ctx) {
	c.R.Rule = "operation sequences over NewSheet, DeleteSheet, MoveSheet, SetSheetName, SetSheetVisible, SetActiveSheet, CopySheet, cell writes (content tokens), scoped defined names, Group/UngroupSheets with names differing only in case, at the 31-character limit, invalid names; exhaustive over a 14-op alphabet up to length 3 (quick) / 4 (thorough), random up to length 40; sheet list, ids, visibility, active index, A1 content token vs the extracted list model; invariants evaluated after every step. non-trivial = >= 2 ops"
	var cases []mcase
	alphabet := []wop{
		{K: "N", A: "S2"}, {K: "N", A: "s2"}, {K: "N", A: "Q3"}, {K: "D", A: "Sheet1"}, {K: "D", A: "S2"},
		{K: "M", A: "S2", B: "Sheet1"}, {K: "M", A: "Sheet1", B: "Q3"}, {K: "R", A: "Sheet1", B: "S2"}, {K: "R", A: "S2", B: "sheet1"},
		{K: "V", A: "Sheet1", V: false, H: true}, {K: "V", A: "S2", V: false}, {K: "A", I: 1}, {K: "C", I: 0, J: 1}, {K: "T", A: "S2"},
	}
	depth := 3
	if c.Thorough() {
		depth = 4
	}
	var rec func(prefix []wop, d int)
	rec = func(prefix []wop, d int) {
		if len(prefix) > 0 {
			c.c16Run(prefix, &cases)
		}
		if d == 0 || c.Failed() {
			return
		}
		for _, o := range alphabet {
			rec(append(append([]wop{}, prefix...), o), d-1)
		}
	}
	rec(nil, depth)
	// corpus: scoped names through moves, renames and deletions
	for _, ops := range [][]wop{
		{{K: "N", A: "S2"}, {K: "N", A: "Q3"}, {K: "DN", A: "S2"}, {K: "DN", A: "Q3"}, {K: "M", A: "Q3", B: "Sheet1"}},
		{{K: "N", A: "S2"}, {K: "N", A: "Q3"}, {K: "DN", A: "Q3"}, {K: "D", A: "S2"}, {K: "R", A: "Q3", B: "Z9"}},
		{{K: "N", A: "S2"}, {K: "DN", A: "S2"}, {K: "DN", A: "Sheet1"}, {K: "M", A: "S2", B: "Sheet1"}, {K: "D", A: "Sheet1"}},
		{{K: "N", A: "S2"}, {K: "N", A: "Q3"}, {K: "DN", A: "S2"}, {K: "D", A: "S2"}, {K: "N", A: "S2"}},
	} {
		c.c16Run(ops, &cases)
	}
	for _, ops := range c05NameHistories {
		c.c16Run(ops, &cases)
	}
	// groups dissolved by activation, deletion, moves and ungrouping
	for _, tail := range [][]wop{{{K: "A", I: 3}}, {{K: "A", I: 0}}, {{K: "D", A: "Sheet1"}, {K: "A", I: 2}}, {{K: "U"}}, {{K: "A", I: 1}, {K: "V", A: "Q3", V: false}}, {{K: "M", A: "Q3", B: "Sheet1"}, {K: "A", I: 1}}} {
		for _, grp := range []string{"Sheet1|S2", "S2|Q3", "Sheet1|S2|Q3", "S2|Q3|W4"} {
			ops := append([]wop{{K: "N", A: "S2"}, {K: "N", A: "Q3"}, {K: "N", A: "W4"}, {K: "A", I: 1}, {K: "G", A: grp}}, tail...)
			c.c16Run(ops, &cases)
		}
	}
	n := 300
	if c.Thorough() {
		n = 20000
	}
	for i := 0; i < n; i++ {
		l := 2 + c.Rng.Intn(39)
		var ops []wop
		ns := 1
		for j := 0; j < l; j++ {
			o := c.c16Op(ns, i%2 == 0)
			if o.K == "N" {
				ns++
			}
			ops = append(ops, o)
		}
		c.c16Run(ops, &cases)
		if i < 2 {
			c.Sample(ops)
		}
	}
	c.compareBatch(cases)
}

func replayC16(c *Ctx, f Failure) {
	var cases []mcase
	b, _ := jsonMarshal(f.Case)
	var ops []wop
	if jsonUnmarshal(b, &ops) == nil && len(ops) > 0 {
		c.c16Run(ops, &cases)
	} else {
		var m struct {
			Desc []wop `json:"desc"`
		}
		if jsonUnmarshal(b, &m) == nil && len(m.Desc) > 0 {
			c.c16Run(m.Desc, &cases)
		}
	}
	c.compareBatch(cases)
}

// the written package after the history: one worksheet part per sheet of the list and none left over from deleted
// sheets (nor their relationship parts), every worksheet part referenced from the workbook relationships, the
// package structurally valid, and the reopened workbook shows the same sheet collection
func (c *Ctx) c16Package(st *c16state, ops []wop) {
	var buf bytes.Buffer
	if err := st.f.Write(&buf); err != nil {
		c.Fail("oracle", "C16_parts", ops, "saving after the history failed: "+err.Error(), "")
		return
	}
	zr, err := zip.NewReader(bytes.NewReader(buf.Bytes()), int64(buf.Len()))
	if err != nil {
		c.Fail("oracle", "C16_parts", ops, "the written package is not a zip archive: "+err.Error(), "")
		return
	}
	var sheetParts, relParts []string
	var wbRels string
	for _, e := range zr.File {
		switch {
		case strings.HasPrefix(e.Name, "xl/worksheets/_rels/"):
			relParts = append(relParts, e.Name)
		case strings.HasPrefix(e.Name, "xl/worksheets/") || strings.HasPrefix(e.Name, "xl/chartsheets/sheet"):
			sheetParts = append(sheetParts, e.Name)
		case e.Name == "xl/_rels/workbook.xml.rels":
			if rc, err := e.Open(); err == nil {
				b, _ := io.ReadAll(rc)
				rc.Close()
				wbRels = string(b)
			}
		}
	}
	list := st.f.GetSheetList()
	if len(sheetParts) != len(list) {
		c.Fail("oracle", "C16_parts", ops, fmt.Sprintf("the written package holds %d worksheet parts %v for the %d sheets %q: a deleted sheet left its part behind, or a sheet has none", len(sheetParts), sheetParts, len(list), list), "")
		return
	}
	// a workbook built from NewFile names the part of a sheet after its sheet id (the list model's ids are unique,
	// C16_inv): the parts are exactly those of the ids in the sheet map
	var wantParts []string
	for id := range st.f.GetSheetMap() {
		wantParts = append(wantParts, fmt.Sprintf("xl/worksheets/sheet%d.xml", id))
	}
	sort.Strings(wantParts)
	gotParts := append([]string{}, sheetParts...)
	sort.Strings(gotParts)
	if strings.Join(gotParts, ",") != strings.Join(wantParts, ",") {
		c.Fail("oracle", "C16_parts", ops, fmt.Sprintf("worksheet parts %v, the sheet ids of the workbook call for %v", gotParts, wantParts), "")
		return
	}
	for _, p := range sheetParts {
		if !strings.Contains(wbRels, strings.TrimPrefix(p, "xl/")) {
			c.Fail("oracle", "C16_parts", ops, fmt.Sprintf("worksheet part %s is not the target of a workbook relationship", p), "")
			return
		}
	}
	for _, rp := range relParts {
		owner := "xl/worksheets/" + strings.TrimSuffix(strings.TrimPrefix(rp, "xl/worksheets/_rels/"), ".rels")
		found := false
		for _, p := range sheetParts {
			if p == owner {
				found = true
			}
		}
		if !found {
			c.Fail("oracle", "C16_parts", ops, fmt.Sprintf("relationship part %s belongs to no worksheet part of the package", rp), "")
			return
		}
	}
	for i, p := range pkgCheck(buf.Bytes()) {
		if i < 2 {
			c.Fail("oracle", "C16_parts", ops, "the package written after the history is not valid: "+p, "")
		}
	}
	g, err := excelize.OpenReader(bytes.NewReader(buf.Bytes()))
	if err != nil {
		c.Fail("oracle", "C16_parts", ops, "the written package does not reopen: "+err.Error(), "")
		return
	}
	defer g.Close()
	st2 := &c16state{f: g, scoped: st.scoped}
	if a, b := st.observe(), st2.observe(); a != b {
		c.Fail("oracle", "C16_parts", ops, "sheet collection after save+open differs: "+firstDiff(a, b), "")
	}
	// activating a sheet (SetActiveSheet, or the re-activation DeleteSheet performs) or UngroupSheets leaves exactly the
	// active sheet selected: once a group has been dissolved that way, every other visible sheet can be hidden
	grouped := false
	for _, o := range ops {
		switch o.K {
		case "G":
			grouped = true
		case "A", "U":
			grouped = false
		}
	}
	if !grouped {
		active := g.GetActiveSheetIndex()
		for i, n := range g.GetSheetList() {
			if v, _ := g.GetSheetVisible(n); i == active || !v {
				continue
			}
			others := 0
			for _, m := range g.GetSheetList() {
				if v, _ := g.GetSheetVisible(m); v && m != n {
					others++
				}
			}
			if others == 0 {
				continue // the last visible sheet cannot be hidden
			}
			h, err := excelize.OpenReader(bytes.NewReader(buf.Bytes()))
			if err != nil {
				return
			}
			errHide := h.SetSheetVisible(n, false)
			still, _ := h.GetSheetVisible(n)
			h.Close()
			if errHide == nil && still {
				c.Fail("oracle", "C16_group", ops, fmt.Sprintf("sheet %q is neither active nor part of a group (the last group was dissolved by activating a sheet or by UngroupSheets), yet SetSheetVisible(%q, false) leaves it visible: its tab is still selected", n, n), "")
				return
			}
		}
	}
}
