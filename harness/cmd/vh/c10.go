package main

import (
	"fmt"
	"math"
	"math/big"
	"strconv"
	"strings"
	"time"

	"github.com/xuri/excelize/v2"
	"github.com/xuri/nfp"
)

func init() { props["C10"] = propFn{run: runC10, replay: func(c *Ctx, f Failure) { runC10(c) }} }

// one section of a generated numeric format code
type c10sec struct {
	Prefix, Suffix string // literal text (unquoted)
	IntPat         string // e.g. "#,##0", "0", "000", "#"
	Decimals       string // placeholders after the point, e.g. "00", "0#", ""
	Percent        int
}

func (s c10sec) code() string {
	q := func(t string) string {
		if t == "" {
			return ""
		}
		return "\"" + t + "\""
	}
	c := q(s.Prefix) + s.IntPat
	if s.Decimals != "" {
		c += "." + s.Decimals
	}
	c += strings.Repeat("%", s.Percent) + q(s.Suffix)
	return c
}

type c10code struct {
	Secs []c10sec // 1..3 numeric sections
	Text string   // optional 4th section literal + @
}

func (k c10code) code() string {
	var ps []string
	for _, s := range k.Secs {
		ps = append(ps, s.code())
	}
	if k.Text != "" {
		for len(ps) < 3 {
			ps = append(ps, ps[0])
		}
		ps = append(ps, "\""+k.Text+"\"@")
	}
	return strings.Join(ps, ";")
}

func (c *Ctx) c10GenSec(tag string) c10sec {
	r := c.Rng
	s := c10sec{IntPat: []string{"0", "#,##0", "000", "#", "#,###", "00000", "##0"}[r.Intn(7)]}
	nd := []int{0, 0, 1, 2, 2, 3, 4, 6, 9, 12}[r.Intn(10)]
	for i := 0; i < nd; i++ {
		if r.Intn(4) == 0 && i > 0 {
			s.Decimals += "#"
		} else if strings.Contains(s.Decimals, "#") {
			s.Decimals += "#"
		} else {
			s.Decimals += "0"
		}
	}
	if r.Intn(5) == 0 {
		s.Percent = 1
	}
	if r.Intn(3) == 0 {
		s.Prefix = tag + []string{"$", "EUR ", "x", "(", "€"}[r.Intn(5)]
	} else if tag != "" {
		s.Prefix = tag
	}
	if r.Intn(4) == 0 {
		s.Suffix = []string{" units", ")", " kg", "!"}[r.Intn(4)]
	}
	return s
}

var c10Values = []float64{0, 1, -1, 0.5, -0.5, 2.5, 1234.5678, -1234.5678, 999.995, 0.001, 1e-7, 123456789, 1e10, 0.125, 0.375, 99.95, -0.004, 0.004, 1e15, 123456.789012, 1.005, 2.675, 1e-308, 1e308, 1e20, 12345678901234.129, 0.1 + 0.2, 100, 1e3, 4.35, 5e-324, 999999.9999995}

// exact rational value denoted by the digits in a rendered string (commas dropped)
func c10Denote(s string) (*big.Rat, bool) {
	s = strings.ReplaceAll(s, ",", "")
	if s == "" || s == "." {
		return new(big.Rat), s == ""
	}
	for _, ch := range s {
		if !(ch >= '0' && ch <= '9') && ch != '.' {
			return nil, false
		}
	}
	if strings.Count(s, ".") > 1 {
		return nil, false
	}
	if strings.HasPrefix(s, ".") {
		s = "0" + s
	}
	if strings.HasSuffix(s, ".") {
		s += "0"
	}
	r, ok := new(big.Rat).SetString(s)
	return r, ok
}

func (c *Ctx) c10Numeric(n int) {
	type cs struct {
		code c10code
		val  float64
	}
	var cases []cs
	for i := 0; i < n; i++ {
		k := c10code{}
		ns := 1 + c.Rng.Intn(3)
		for j := 0; j < ns; j++ {
			tag := ""
			if ns > 1 {
				tag = []string{"P", "N", "Z"}[j]
			}
			k.Secs = append(k.Secs, c.c10GenSec(tag))
		}
		if c.Rng.Intn(6) == 0 {
			k.Text = "T"
		}
		var v float64
		switch c.Rng.Intn(6) {
		case 0, 1:
			v = c10Values[c.Rng.Intn(len(c10Values))]
		case 2:
			// a decimal tie at a random place
			p := c.Rng.Intn(6)
			v = (float64(c.Rng.Intn(2000)) + 0.5) / math.Pow(10, float64(p))
		case 3:
			v = math.Round(c.Rng.Float64()*1e6) / 1e3
		case 4:
			v = c.Rng.Float64() * math.Pow(10, float64(c.Rng.Intn(30)-12))
		default:
			v = float64(c.Rng.Intn(100000))
		}
		if c.Rng.Intn(3) == 0 {
			v = -v
		}
		for _, sc := range k.Secs {
			if sc.Percent > 0 && math.Abs(v) > 1e300 {
				v = 1e300 // 100 x the value must still be a number
			}
		}
		cases = append(cases, cs{k, v})
	}
	for _, x := range cases {
		code := x.code.code()
		vtxt := strconv.FormatFloat(x.val, 'f', -1, 64)
		desc := map[string]interface{}{"value": vtxt, "code": code}
		c.guard("C10_total", desc, func() {
			out := excelize.VerifFormat(vtxt, code, false, excelize.CellTypeNumber)
			c.Count("numeric", x.val != 0, code+"|"+vtxt)
			// the section the value selects
			idx := 0
			switch {
			case x.val < 0 && len(x.code.Secs) >= 2:
				idx = 1
			case x.val == 0 && len(x.code.Secs) >= 3:
				idx = 2
			}
			sec := x.code.Secs[idx]
			body := out
			if !strings.HasPrefix(body, sec.Prefix) && !(x.val < 0 && len(x.code.Secs) == 1 && strings.HasPrefix(body, "-"+sec.Prefix)) {
				c.Fail("oracle", "C10_section", desc, fmt.Sprintf("%s formatted with %q gives %q: section %d (%q) was expected to apply", vtxt, code, out, idx+1, sec.code()), "")
				return
			}
			neg := false
			if x.val < 0 && len(x.code.Secs) == 1 {
				if !strings.HasPrefix(body, "-") {
					// a value that rounds to zero may lose its sign
					neg = false
				} else {
					neg = true
					body = body[1:]
				}
			}
			body = strings.TrimPrefix(body, sec.Prefix)
			if !strings.HasSuffix(body, sec.Suffix) {
				c.Fail("oracle", "C10_section", desc, fmt.Sprintf("%s formatted with %q gives %q: the section's suffix %q is missing", vtxt, code, out, sec.Suffix), "")
				return
			}
			body = strings.TrimSuffix(body, sec.Suffix)
			for i := 0; i < sec.Percent; i++ {
				if !strings.HasSuffix(body, "%") {
					c.Fail("oracle", "C10_numeric_accuracy", desc, fmt.Sprintf("%s formatted with %q gives %q: percent sign missing", vtxt, code, out), "")
					return
				}
				body = strings.TrimSuffix(body, "%")
			}
			// digit grouping: by three from the units digit when the code asks for it, none otherwise
			ip := body
			if i := strings.Index(ip, "."); i >= 0 {
				ip = ip[:i]
			}
			if strings.Contains(sec.IntPat, ",") {
				groups := strings.Split(ip, ",")
				for gi, g := range groups {
					if (gi > 0 && len(g) != 3) || (gi == 0 && (len(g) > 3 || (len(g) == 0 && len(groups) > 1))) {
						c.Fail("oracle", "C10_numeric_accuracy", desc, fmt.Sprintf("%s formatted with %q gives %q: thousands separators are not every three digits from the units", vtxt, code, out), "")
						return
					}
				}
			} else if strings.Contains(ip, ",") {
				c.Fail("oracle", "C10_numeric_accuracy", desc, fmt.Sprintf("%s formatted with %q gives %q: separators without a thousands separator in the code", vtxt, code, out), "")
				return
			}
			got, ok := c10Denote(body)
			if !ok {
				c.Fail("oracle", "C10_numeric_accuracy", desc, fmt.Sprintf("%s formatted with %q gives %q: %q is not a decimal numeral", vtxt, code, out, body), "")
				return
			}
			_ = neg
			// exact stored value, scaled by the percent signs
			want := new(big.Rat).SetFloat64(math.Abs(x.val))
			for i := 0; i < sec.Percent; i++ {
				want.Mul(want, big.NewRat(100, 1))
			}
			places := 0
			if i := strings.Index(body, "."); i >= 0 {
				places = len(body) - i - 1
			}
			half := new(big.Rat).SetFrac(big.NewInt(1), new(big.Int).Mul(big.NewInt(2), new(big.Int).Exp(big.NewInt(10), big.NewInt(int64(places)), nil)))
			// tolerance: the stored binary value of a 15-digit decimal lies within 1e-15 relative of it
			tol := new(big.Rat).Mul(want, big.NewRat(1, 1e15))
			tol.Add(tol, half)
			diff := new(big.Rat).Sub(got, want)
			diff.Abs(diff)
			// the format may also show fewer places than the code allows when '#' places are unused:
			// then the value must be exact at the shown places, which the same bound states
			if diff.Cmp(tol) > 0 {
				c.Fail("oracle", "C10_numeric_accuracy", desc, fmt.Sprintf("%s formatted with %q gives %q: the digits denote %s, off by %s (more than half a unit of the last shown place, %d places)", vtxt, code, out, got.FloatString(places+3), diff.FloatString(places+4), places), c10Known(x.val, sec, places))
			}
			// the code's mandatory places are all shown
			if must := strings.Count(sec.Decimals, "0"); places < must {
				c.Fail("oracle", "C10_numeric_accuracy", desc, fmt.Sprintf("%s formatted with %q gives %q: %d decimal places shown, the code requires %d", vtxt, code, out, places, must), "")
			}
		})
	}
}

// more than 15 significant digits: the library keeps 15 as Excel does (known, documented behaviour)
func c10Known(v float64, sec c10sec, places int) string {
	digits := len(strings.ReplaceAll(strings.TrimLeft(strings.ReplaceAll(strconv.FormatFloat(math.Abs(v), 'f', -1, 64), ".", ""), "0"), ".", ""))
	if digits > 15 {
		return "c10-over-15-significant-digits"
	}
	return ""
}

// stored texts with more than 15 significant digits (a file written by another producer may hold them)
func (c *Ctx) c10LongValues() {
	for _, tc := range []struct{ v, code string }{
		{"12345678901234.129", "0.00"}, {"1234567890.1234567", "0.0000000"}, {"0.12345678901234567", "0.00000000000000000"}, {"98765432109876.54321", "#,##0.000"},
	} {
		got := excelize.VerifFormat(tc.v, tc.code, false, excelize.CellTypeNumber)
		c.Count("long-value", true, tc.v+tc.code)
		want, _ := new(big.Rat).SetString(tc.v)
		g, ok := c10Denote(got)
		places := 0
		if i := strings.Index(got, "."); i >= 0 {
			places = len(got) - i - 1
		}
		half := new(big.Rat).SetFrac(big.NewInt(1), new(big.Int).Mul(big.NewInt(2), new(big.Int).Exp(big.NewInt(10), big.NewInt(int64(places)), nil)))
		if !ok {
			c.Fail("oracle", "C10_numeric_accuracy", tc, fmt.Sprintf("%s with %q gives %q: not a numeral", tc.v, tc.code, got), "")
			continue
		}
		if d := new(big.Rat).Sub(g, want); d.Abs(d).Cmp(half) > 0 {
			c.Fail("oracle", "C10_numeric_accuracy", tc, fmt.Sprintf("%s with %q gives %q: off by %s, more than half a unit of the last shown place (the library keeps 15 significant digits, as Excel does)", tc.v, tc.code, got, d.FloatString(places+3)), "c10-over-15-significant-digits")
		}
	}
}

// the big-number path (more than 15 digit characters in the stored text) drops the integer zero padding
func (c *Ctx) c10BigNumberPadding() {
	v, code, want := "-0.009420104189207", "00000.00##########%", "-00000.942010418921%"
	got := excelize.VerifFormat(v, code, false, excelize.CellTypeNumber)
	c.Count("big-number-padding", true, v+code)
	if got != want {
		c.Fail("oracle", "C10_numeric_accuracy", map[string]string{"value": v, "code": code}, fmt.Sprintf("%s with %q gives %q; the code's five mandatory integer places give %q", v, code, got, want), "c10-big-number-int-padding")
	}
}

func (c *Ctx) c10Sections() {
	for _, tc := range []struct{ val, code, want string }{
		{"5", `"P"0;"N"0;"Z"0;"T"@`, "P5"}, {"-5", `"P"0;"N"0;"Z"0;"T"@`, "N5"}, {"0", `"P"0;"N"0;"Z"0;"T"@`, "Z0"},
		{"0", `0.0;-0.0;"zero"`, "zero"}, {"0", `#,##0_);(#,##0);"-"`, "-"}, {"0", `0.00;[Red]-0.00`, "0.00"}, {"-0.001", `0.00;(0.00)`, "(0.00)"},
		{"-3", `0.0`, "-3.0"}, {"-3", `0.0;"neg "0.0`, "neg 3.0"}, {"0", `"P"0;"N"0`, "P0"}, {"7", `0;;`, "7"},
	} {
		got := excelize.VerifFormat(tc.val, tc.code, false, excelize.CellTypeNumber)
		c.Count("section-table", true, tc.val+tc.code)
		if got != tc.want {
			c.Fail("oracle", "C10_section", map[string]interface{}{"value": tc.val, "code": tc.code}, fmt.Sprintf("%s formatted with %q gives %q; the section rule (positive;negative;zero;text) gives %q", tc.val, tc.code, got, tc.want), "")
		}
	}
	// text values use the fourth section, or pass through
	for _, tc := range []struct{ val, code, want string }{
		{"abc", `0;-0;0;"T:"@`, "T:abc"}, {"abc", `0.00`, "abc"}, {"abc", `0;-0`, "abc"},
	} {
		got := excelize.VerifFormat(tc.val, tc.code, false, excelize.CellTypeSharedString)
		c.Count("section-table", true, tc.val+tc.code)
		if got != tc.want {
			c.Fail("oracle", "C10_section", map[string]interface{}{"value": tc.val, "code": tc.code}, fmt.Sprintf("text %q formatted with %q gives %q, expected %q", tc.val, tc.code, got, tc.want), "")
		}
	}
}

// civil date and time of day of a serial in the 1900 system (serial >= 61) or the 1904 system, by the
// day-count algorithm (independent of time.Time and of excelize's conversion)
func c10Civil(serial float64, date1904 bool) (y, m, d, hh, mi, ss int) {
	days := math.Floor(serial)
	secs := int(math.Round((serial - days) * 86400))
	if secs == 86400 {
		secs, days = 0, days+1
	}
	z := int64(days)
	if date1904 {
		z += 1462
	}
	// days since 1899-12-30 -> civil (Howard Hinnant's algorithm on days since 1970-01-01)
	z -= 25569
	z += 719468
	era := z / 146097
	if z < 0 {
		era = (z - 146096) / 146097
	}
	doe := z - era*146097
	yoe := (doe - doe/1460 + doe/36524 - doe/146096) / 365
	yy := yoe + era*400
	doy := doe - (365*yoe + yoe/4 - yoe/100)
	mp := (5*doy + 2) / 153
	dd := doy - (153*mp+2)/5 + 1
	mm := mp + 3
	if mm > 12 {
		mm -= 12
	}
	if mm <= 2 {
		yy++
	}
	return int(yy), int(mm), int(dd), secs / 3600, secs / 60 % 60, secs % 60
}

func (c *Ctx) c10Dates(n int) {
	months := []string{"January", "February", "March", "April", "May", "June", "July", "August", "September", "October", "November", "December"}
	for i := 0; i < n; i++ {
		date1904 := c.Rng.Intn(4) == 0
		var serial float64
		switch c.Rng.Intn(5) {
		case 0:
			serial = float64(61 + c.Rng.Intn(2958404))
		case 1:
			serial = float64(61+c.Rng.Intn(80000)) + float64(c.Rng.Intn(86400))/86400
		case 2:
			serial = float64(36526+c.Rng.Intn(20000)) + c.Rng.Float64()
		case 3:
			serial = float64(61+c.Rng.Intn(60000)) + []float64{0, 0.5, 0.25, 0.75, 0.99999, 0.041666667, 0.4999999, 0.52, 0.54, 0.02, 0.001, 0.5006944444444444, 0.4993055555555556}[c.Rng.Intn(13)]
		default:
			serial = float64([]int{61, 366, 367, 59 + 2, 36525, 36526, 73050, 73051, 2958465, 43831, 44256, 45351}[c.Rng.Intn(12)])
		}
		y, mo, d, hh, mi, ss := c10Civil(serial, date1904)
		if y > 9999 {
			continue
		}
		// a time within a millisecond of a half second may be shown either way (C19 fixes the conversion)
		if fs := math.Mod((serial-math.Floor(serial))*86400, 1); fs > 0.498 && fs < 0.502 {
			continue
		}
		type piece struct{ code, want string }
		h12 := hh % 12
		if h12 == 0 {
			h12 = 12
		}
		ap := "AM"
		if hh >= 12 {
			ap = "PM"
		}
		layouts := [][]piece{
			{{"yyyy", fmt.Sprintf("%04d", y)}, {"-", "-"}, {"mm", fmt.Sprintf("%02d", mo)}, {"-", "-"}, {"dd", fmt.Sprintf("%02d", d)}},
			{{"d", strconv.Itoa(d)}, {"/", "/"}, {"m", strconv.Itoa(mo)}, {"/", "/"}, {"yy", fmt.Sprintf("%02d", y%100)}},
			{{"yyyy", fmt.Sprintf("%04d", y)}, {"-", "-"}, {"mm", fmt.Sprintf("%02d", mo)}, {"-", "-"}, {"dd", fmt.Sprintf("%02d", d)}, {" ", " "}, {"hh", fmt.Sprintf("%02d", hh)}, {":", ":"}, {"mm", fmt.Sprintf("%02d", mi)}, {":", ":"}, {"ss", fmt.Sprintf("%02d", ss)}},
			{{"h", strconv.Itoa(hh)}, {":", ":"}, {"mm", fmt.Sprintf("%02d", mi)}},
			{{"h", strconv.Itoa(h12)}, {":", ":"}, {"mm", fmt.Sprintf("%02d", mi)}, {":", ":"}, {"ss", fmt.Sprintf("%02d", ss)}, {" ", " "}, {"AM/PM", ap}},
			{{"mmmm", months[mo-1]}, {" ", " "}, {"d", strconv.Itoa(d)}, {", ", ", "}, {"yyyy", fmt.Sprintf("%04d", y)}},
			{{"mmm", months[mo-1][:3]}, {"-", "-"}, {"yy", fmt.Sprintf("%02d", y%100)}},
			{{"hh", fmt.Sprintf("%02d", hh)}, {":", ":"}, {"mm", fmt.Sprintf("%02d", mi)}, {":", ":"}, {"ss", fmt.Sprintf("%02d", ss)}},
			{{"mm", fmt.Sprintf("%02d", mi)}, {":", ":"}, {"ss", fmt.Sprintf("%02d", ss)}},
			// the designator before the hour, and the one-letter form
			{{"AM/PM", ap}, {" ", " "}, {"h", strconv.Itoa(h12)}, {":", ":"}, {"mm", fmt.Sprintf("%02d", mi)}},
			{{"AM/PM", ap}, {" ", " "}, {"hh", fmt.Sprintf("%02d", h12)}, {":", ":"}, {"mm", fmt.Sprintf("%02d", mi)}, {":", ":"}, {"ss", fmt.Sprintf("%02d", ss)}},
			{{"h", strconv.Itoa(h12)}, {":", ":"}, {"mm", fmt.Sprintf("%02d", mi)}, {" ", " "}, {"A/P", ap[:1]}},
			{{"A/P", ap[:1]}, {" ", " "}, {"h", strconv.Itoa(h12)}},
		}
		lay := layouts[c.Rng.Intn(len(layouts))]
		var code, want string
		for _, p := range lay {
			if p.code == p.want && !strings.ContainsAny(p.code, "ymdhs") {
				if p.code == " " || p.code == ", " {
					code += "\"" + p.code + "\""
				} else {
					code += p.code
				}
			} else {
				code += p.code
			}
			want += p.want
		}
		vtxt := strconv.FormatFloat(serial, 'f', -1, 64)
		desc := map[string]interface{}{"serial": vtxt, "code": code, "date1904": date1904}
		c.guard("C10_total", desc, func() {
			got := excelize.VerifFormat(vtxt, code, date1904, excelize.CellTypeNumber)
			c.Count("datetime", true, code+vtxt)
			if got != want {
				c.Fail("oracle", "C10_date_fields", desc, fmt.Sprintf("serial %s (date1904=%v) with %q gives %q; the calendar instant is %04d-%02d-%02d %02d:%02d:%02d, i.e. %q", vtxt, date1904, code, got, y, mo, d, hh, mi, ss, want), "")
			}
		})
	}
	// elapsed forms agree with the 24-hour value
	for i := 0; i < n/4; i++ {
		days, sec := c.Rng.Intn(400), c.Rng.Intn(86400)
		frac := 0.0
		switch i % 4 {
		case 1:
			// a fraction of a second (not within 2 ms of a half): the elapsed value is that of the instant rounded
			// to the nearest second, also when rounding crosses midnight
			frac = []float64{0.25, 0.4, 0.6, 0.75, 0.9, 0.999}[c.Rng.Intn(6)]
		case 2:
			sec, frac = 86399, []float64{0.6, 0.75, 0.9, 0.99}[c.Rng.Intn(4)]
		case 3:
			days = []int{400, 1000, 45000, 60000, 106000}[c.Rng.Intn(5)] + c.Rng.Intn(300)
		}
		serial := float64(days) + (float64(sec)+frac)/86400
		total := days*86400 + sec
		if frac > 0.5 {
			total++
		}
		if back, err := strconv.ParseFloat(strconv.FormatFloat(serial, 'f', -1, 64), 64); err != nil || math.Abs(back*86400-(float64(days)*86400+float64(sec)+frac)) > 0.002 {
			continue
		}
		vtxt := strconv.FormatFloat(serial, 'f', -1, 64)
		for _, tc := range []struct{ code, want string }{
			{"[h]:mm:ss", fmt.Sprintf("%d:%02d:%02d", total/3600, total/60%60, total%60)},
			{"[m]:ss", fmt.Sprintf("%d:%02d", total/60, total%60)},
			{"[s]", strconv.Itoa(total)},
			{"[hh]:mm", fmt.Sprintf("%02d:%02d", total/3600, total/60%60)},
		} {
			desc := map[string]interface{}{"serial": vtxt, "code": tc.code, "date1904": i%3 == 0}
			c.guard("C10_total", desc, func() {
				got := excelize.VerifFormat(vtxt, tc.code, i%3 == 0, excelize.CellTypeNumber)
				c.Count("elapsed", true, tc.code+vtxt)
				if got != tc.want {
					c.Fail("oracle", "C10_elapsed", desc, fmt.Sprintf("serial %s with %q gives %q; %d elapsed seconds are %q", vtxt, tc.code, got, total, tc.want), "")
				}
			})
		}
	}
}

// arbitrary codes and values: a string comes back, in bounded time; unsupported codes give the stored value
func (c *Ctx) c10Totality(n int) {
	alphabet := []string{"0", "#", "?", ".", ",", "%", "E+", "E-", "e+", "\"x\"", "\\", "_", "*", "@", ";", "[Red]", "[>=100]", "[<0]", "[$-409]", "[$€-407]", "[h]", "[mm]", "[ss]", "yyyy", "yy", "mmmmm", "mmm", "mm", "m", "dddd", "ddd", "dd", "d", "hh", "h", "ss", "s", "AM/PM", "A/P", "/", "-", ":", " ", "General", "[DBNum1]", "[$-F800]", "[$-F400]", "B2", "e", "g", "gg", "ggg", "r", "aaa", "aaaa", "上午/下午", "\x00", "[", "]", "\"", "0/0", "# ?/?", "?/8"}
	values := []string{"0", "1", "-1", "0.5", "1234.5678", "-1234.5678", "1e10", "1E+300", "1E-300", "43831.5", "2958465.99999", "2958466", "-43831", "abc", "", "TRUE", "1.7976931348623157e308", "5e-324", "NaN", "Inf", "60", "0.999999999", "12345678901234567890"}
	types := []excelize.CellType{excelize.CellTypeNumber, excelize.CellTypeUnset, excelize.CellTypeSharedString, excelize.CellTypeDate, excelize.CellTypeBool}
	done := make(chan struct{})
	var cur string
	go func() {
		defer close(done)
		for i := 0; i < n; i++ {
			var sb strings.Builder
			for j := 0; j < 1+c.Rng.Intn(8); j++ {
				sb.WriteString(alphabet[c.Rng.Intn(len(alphabet))])
			}
			code, v := sb.String(), values[c.Rng.Intn(len(values))]
			ct := types[c.Rng.Intn(len(types))]
			cur = fmt.Sprintf("%q with %q", v, code)
			c.guard("C10_total", map[string]interface{}{"value": v, "code": code, "cell_type": int(ct)}, func() {
				start := time.Now()
				_ = excelize.VerifFormat(v, code, c.Rng.Intn(2) == 0, ct)
				c.Count("arbitrary-code", true, code+"|"+v)
				if el := time.Since(start); el > 2*time.Second {
					c.Fail("oracle", "C10_total", map[string]interface{}{"value": v, "code": code}, fmt.Sprintf("formatting %q with %q took %v", v, code, el), "")
				}
			})
		}
	}()
	select {
	case <-done:
	case <-time.After(120 * time.Second):
		c.Fail("oracle", "C10_total", cur, "formatting did not return within the watchdog time: "+cur, "")
	}
	// every built-in id and language tag path through the public API
	f := excelize.NewFile()
	defer f.Close()
	for id := 0; id <= 81; id++ {
		for _, v := range []float64{0, 1234.5678, -1234.5678, 43831.75} {
			c.guard("C10_total", map[string]interface{}{"numFmt": id, "value": v}, func() {
				st, err := f.NewStyle(&excelize.Style{NumFmt: id})
				if err != nil {
					return
				}
				f.SetCellValue("Sheet1", "A1", v)
				f.SetCellStyle("Sheet1", "A1", "A1", st)
				for _, culture := range []excelize.CultureName{excelize.CultureNameUnknown, excelize.CultureNameEnUS, excelize.CultureNameZhCN, excelize.CultureNameJaJP, excelize.CultureNameKoKR, excelize.CultureNameZhTW} {
					f2 := f
					_ = f2
					got, err := f.GetCellValue("Sheet1", "A1", excelize.Options{CultureInfo: culture})
					c.Count("builtin", true, fmt.Sprint(id, v, culture))
					if err != nil {
						c.Fail("oracle", "C10_total", map[string]interface{}{"numFmt": id, "value": v}, "GetCellValue failed: "+err.Error(), "")
					}
					if got == "" {
						c.Fail("oracle", "C10_fallback", map[string]interface{}{"numFmt": id, "value": v}, "formatted reading returned an empty string", "")
					}
				}
			})
		}
	}
	// unsupported codes fall back to the stored value
	for _, tc := range []struct{ v, code string }{{"1234.5", "0.0E+0"}, {"1234.5", "[DBNum1]0"}, {"5", "0*x"}, {"43831", "yyyy 0.0"}, {"1234.5", "# ?/?x[$-zz]"}} {
		got := excelize.VerifFormat(tc.v, tc.code, false, excelize.CellTypeNumber)
		c.Count("fallback", true, tc.code)
		if got == "" {
			c.Fail("oracle", "C10_fallback", tc, fmt.Sprintf("%q with %q gives an empty string instead of a rendering or the stored value", tc.v, tc.code), "")
		}
	}
}

func runC10(c *Ctx) {
	c.R.Rule = "numeric: values (specials, decimal ties at a random place, 1e-12..1e18, negatives, zero, >15 digits) x codes from a grammar (integer pattern 0/#,##0/000/#/..., 0..12 decimals of 0 and #, percent, quoted prefix/suffix literals, 1..3 numeric sections + text section): section chosen by sign/zero, digits parsed as an exact rational and compared with the exact binary64 value x 100^percent within half a unit of the last shown place (+1e-15 relative); section table incl. zero and text sections; date/time: serials 61..2958465 with time fractions x 9 layouts (yyyy yy m mm mmm mmmm d dd h hh mm ss AM/PM) x 1900/1904 against an independent civil-from-days computation; elapsed [h] [m] [s]; totality: random token strings x hostile values x cell types with a watchdog, every built-in id x culture; fallback on unsupported codes. non-trivial = non-zero value"
	n := 4000
	if c.Thorough() {
		n = 60000
	}
	c.c10Sections()
	c.c10LongValues()
	c.c10BigNumberPadding()
	c.c10Numeric(n)
	c.c10Dates(n / 2)
	c.c10Totality(n)
	c.c10Model(n / 4)
}

// extracted model vs implementation on exact decimals of at most 15 significant digits without a digit 5
// (no decimal rounding ties: there the binary value decides, which the model, working on the decimal, does not see),
// plus dyadic fractions (k/2, k/4, k/8), which are exact in both bases: a tie there is a true tie
func (c *Ctx) c10Model(n int) {
	var reqs, impl []string
	var descs []interface{}
	for i := 0; i < n; i++ {
		k := c10code{}
		ns := 1 + c.Rng.Intn(3)
		for j := 0; j < ns; j++ {
			tag := ""
			if ns > 1 {
				tag = []string{"P", "N", "Z"}[j]
			}
			k.Secs = append(k.Secs, c.c10GenSec(tag))
		}
		code := k.code()
		// the decimal: N with digits from {0..4,6..9}, m fraction digits, N not ending in 0 when m > 0
		nd := 1 + c.Rng.Intn(13)
		var sb strings.Builder
		for d := 0; d < nd; d++ {
			ch := "012346789"[c.Rng.Intn(9)]
			if d == 0 && ch == '0' {
				ch = '1'
			}
			sb.WriteByte(ch)
		}
		digits := sb.String()
		m := c.Rng.Intn(nd + 3)
		if c.Rng.Intn(5) == 0 {
			m = 0
		}
		if m > 0 && digits[len(digits)-1] == '0' {
			digits = digits[:len(digits)-1] + "7"
		}
		if c.Rng.Intn(5) == 0 {
			// a dyadic fraction: exact in binary64 and in decimal, so a tie at the last shown place is a true tie
			// (rounded away from zero by numberHandler's math.Round, as Excel does)
			fr := []string{"5", "25", "75", "125", "375", "625", "875"}[c.Rng.Intn(7)]
			ip := c.Rng.Intn(100000)
			if c.Rng.Intn(3) == 0 {
				ip = c.Rng.Intn(10)
			}
			frn, _ := strconv.Atoi(fr)
			p10 := 1
			for range fr {
				p10 *= 10
			}
			digits, m = strconv.Itoa(ip*p10+frn), len(fr)
			c.R.Dist["model dyadic tie candidates"]++
		}
		sign := 1
		switch c.Rng.Intn(8) {
		case 0:
			sign, digits, m = 0, "0", 0
		case 1, 2, 3:
			sign = -1
		}
		// the numeral as the cell stores it
		txt := digits
		if m > 0 {
			for len(txt) <= m {
				txt = "0" + txt
			}
			txt = txt[:len(txt)-m] + "." + txt[len(txt)-m:]
		}
		if sign < 0 {
			txt = "-" + txt
		}
		if f, err := strconv.ParseFloat(txt, 64); err != nil || strconv.FormatFloat(f, 'f', -1, 64) != txt {
			continue // the stored text must be the shortest representation of its own value
		}
		// model tokens from the real tokenizer
		var toks []string
		ok := true
		ps := nfp.NumberFormatParser() // a parser keeps the sections of earlier calls
		for si, sec := range ps.Parse(code) {
			if si > 0 {
				toks = append(toks, "/")
			}
			for _, t := range sec.Items {
				switch t.TType {
				case nfp.TokenTypeZeroPlaceHolder:
					toks = append(toks, "Z"+strconv.Itoa(len(t.TValue)))
				case nfp.TokenTypeHashPlaceHolder:
					toks = append(toks, "H"+strconv.Itoa(len(t.TValue)))
				case nfp.TokenTypeDecimalPoint:
					toks = append(toks, "P")
				case nfp.TokenTypeThousandsSeparator:
					toks = append(toks, "C")
				case nfp.TokenTypePercent:
					toks = append(toks, "%"+strconv.Itoa(len(t.TValue)))
				case nfp.TokenTypeLiteral:
					toks = append(toks, "L"+hexb(t.TValue))
				default:
					ok = false
				}
			}
		}
		if !ok {
			c.R.Dist["model-unsupported-token"]++
			continue
		}
		desc := map[string]interface{}{"value": txt, "code": code}
		c.guard("C10_total", desc, func() {
			out := excelize.VerifFormat(txt, code, false, excelize.CellTypeNumber)
			c.Count("model-case", sign != 0, code+"|"+txt)
			// beyond 15 shown digits the implementation prints the binary expansion of the stored double
			// (40093431.20681 with 12 decimals ends ...810005009); the exact-decimal model does not apply there
			shown := 0
			for _, ch := range out {
				if ch >= '0' && ch <= '9' {
					shown++
				}
			}
			// a stored text of more than 15 digit characters (leading zeros of 0.00942... included) takes the
			// library's big-number path, which the model does not cover (finding c10-big-number-int-padding)
			chars := 0
			for _, ch := range txt {
				if ch >= '0' && ch <= '9' {
					chars++
				}
			}
			if shown > 15 || chars > 15 {
				c.R.Dist["model-beyond-15-digits"]++
				return
			}
			reqs = append(reqs, fmt.Sprintf("c10.render %d %s %d %s", sign, digits, m, strings.Join(toks, " ")))
			impl = append(impl, hexb(out))
			descs = append(descs, desc)
		})
	}
	if c.Model == nil || c.Model.path == "" || len(reqs) == 0 {
		return
	}
	outs := c.Model.Call(reqs)
	for i, o := range outs {
		c.R.Traces++
		if o != impl[i] {
			c.Fail("model-impl", "c10.render", descs[i], fmt.Sprintf("%v: implementation %q, model %q", descs[i], unhex(impl[i]), unhex(o)), "")
		}
	}
}
