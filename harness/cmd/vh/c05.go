package main

import (
	"archive/zip"
	"bytes"
	"io"
	"fmt"
	"os"
	"strconv"
	"strings"

	"github.com/xuri/excelize/v2"
)

func init() { props["C05"] = propFn{run: runC05, replay: func(c *Ctx, f Failure) { runC05(c) }} }

func (c *Ctx) c05Check(what string, desc interface{}, f *excelize.File, known func(problem string) string) {
	var buf bytes.Buffer
	if err := f.Write(&buf); err != nil {
		c.Fail("oracle", "C05_wf", desc, what+": saving failed: "+err.Error(), "")
		return
	}
	c.Count(what, true, fmt.Sprint(desc))
	for i, p := range pkgCheck(buf.Bytes()) {
		if i >= 3 {
			break
		}
		id := ""
		if known != nil {
			id = known(p)
		}
		c.Fail("oracle", "C05_wf", desc, what+": "+p, id)
	}
	// a second save of the same workbook is valid too
	buf.Reset()
	if err := f.Write(&buf); err == nil {
		for i, p := range pkgCheck(buf.Bytes()) {
			if i >= 2 {
				break
			}
			id := ""
			if known != nil {
				id = known(p)
			}
			c.Fail("oracle", "C05_wf", desc, what+" (second save): "+p, id)
		}
	}
}

func (c *Ctx) c05SheetHistories(n int) {
	for i := 0; i < n; i++ {
		var h hist
		if i%2 == 0 {
			h = histGen{c: c, merges: true, rowStyle: true, attrs: true, saves: "WO"}.gen(6 + c.Rng.Intn(14))
		} else {
			h = c.genC06(6+c.Rng.Intn(14), true)
		}
		c.guard("C05_no_panic", h, func() {
			f := excelize.NewFile()
			defer func() { f.Close() }()
			f.NewSheet("Other")
			if h.Sheet != "Sheet1" {
				f.NewSheet(h.Sheet)
			}
			f.SetCellFormula("Other", "A1", "SUM("+h.Sheet+"!A1:C5)")
			styles := registerStyles(f)
			for _, o := range h.Ops {
				var g *excelize.File
				if isEdit(o.K) {
					g, _ = o.eapply(f, h.Sheet, styles)
				} else {
					g, _ = o.apply(f, h.Sheet, styles)
				}
				if g != nil {
					f = g
				}
			}
			c.c05Check("sheet history", h, f, nil)
		})
	}
}

// rows and cells with content as the saved worksheet part lists them: "row:col,col;..."
func c05XMLRows(data []byte, part string) (string, bool) {
	zr, err := zip.NewReader(bytes.NewReader(data), int64(len(data)))
	if err != nil {
		return "", false
	}
	for _, zf := range zr.File {
		if zf.Name != part {
			continue
		}
		rc, _ := zf.Open()
		b, _ := io.ReadAll(rc)
		rc.Close()
		t, err := pkgParse(b)
		if err != nil {
			return "", false
		}
		var rows []string
		for _, row := range t.find("sheetData", "row") {
			var cols []string
			for _, cell := range row.find("c") {
				_, hasS := cell.Attr["s"]
				_, hasT := cell.Attr["t"]
				if hasS && cell.Attr["s"] == "0" {
					hasS = false
				}
				if hasS || hasT || len(cell.Kids) > 0 {
					col, _, _ := pkgCell(cell.Attr["r"])
					cols = append(cols, strconv.Itoa(col))
				}
			}
			if len(cols) > 0 {
				rows = append(rows, row.Attr["r"]+":"+strings.Join(cols, ","))
			}
		}
		return "xml " + strings.Join(rows, ";"), true
	}
	return "", false
}

// the serialised structure of modelled sheet histories against the extracted model
func (c *Ctx) c05ModelRows(n int) {
	var reqs, impl []string
	var descs []interface{}
	for i := 0; i < n; i++ {
		h := histGen{c: c, merges: i%3 == 0, rowStyle: true, saves: "W"}.gen(5 + c.Rng.Intn(14))
		if h.Sheet != "Sheet1" {
			continue
		}
		c.guard("C05_no_panic", h, func() {
			f, styles, err := runHist(h)
			defer func() { f.Close() }()
			if err != nil {
				return
			}
			var toks []string
			for _, o := range h.Ops {
				t, ok := o.token(styles)
				if !ok {
					return
				}
				toks = append(toks, t)
			}
			var buf bytes.Buffer
			if err := f.Write(&buf); err != nil {
				return
			}
			got, ok := c05XMLRows(buf.Bytes(), "xl/worksheets/sheet1.xml")
			if !ok {
				return
			}
			c.Count("model-rows", true, fmt.Sprint(h))
			reqs, impl, descs = append(reqs, "sheet.xml "+strings.Join(toks, " ")), append(impl, got), append(descs, h)
		})
	}
	if c.Model == nil || c.Model.path == "" || len(reqs) == 0 {
		return
	}
	outs := c.Model.Call(reqs)
	for i, o := range outs {
		c.R.Traces++
		if strings.TrimSpace(o) != strings.TrimSpace(impl[i]) {
			c.Fail("model-impl", "sheet.xml", descs[i], "rows and cells written to the worksheet part: implementation ["+impl[i]+"] model ["+o+"]", "")
		}
	}
}

// merge and unmerge calls over a small grid, most of them overlapping what is already merged
func (c *Ctx) c05Merges(n int) {
	for i := 0; i < n; i++ {
		type mop struct {
			Unmerge bool   `json:"unmerge,omitempty"`
			A       string `json:"a"`
			B       string `json:"b"`
		}
		var ops []mop
		for j := 0; j < 2+c.Rng.Intn(6); j++ {
			c1, r1 := 1+c.Rng.Intn(6), 1+c.Rng.Intn(6)
			c2, r2 := c1+c.Rng.Intn(3), r1+c.Rng.Intn(3)
			a, _ := excelize.CoordinatesToCellName(c1, r1)
			b, _ := excelize.CoordinatesToCellName(c2, r2)
			if c.Rng.Intn(2) == 0 {
				a, b = b, a
			}
			ops = append(ops, mop{Unmerge: c.Rng.Intn(7) == 0, A: a, B: b})
		}
		c.guard("C05_no_panic", ops, func() {
			f := excelize.NewFile()
			defer f.Close()
			for _, o := range ops {
				if o.Unmerge {
					f.UnmergeCell("Sheet1", o.A, o.B)
				} else {
					f.MergeCell("Sheet1", o.A, o.B)
				}
			}
			c.c05Check("merge history", ops, f, nil)
		})
	}
}

// several sheet-scoped defined names in a row on one sheet (and on its neighbours), then that sheet deleted
var c05NameHistories = [][]wop{
	{{K: "N", A: "S2"}, {K: "N", A: "Q3"}, {K: "DN", A: "Q3"}, {K: "DN", A: "Q3"}, {K: "D", A: "Q3"}},
	{{K: "N", A: "S2"}, {K: "N", A: "Q3"}, {K: "DN", A: "S2"}, {K: "DN", A: "S2"}, {K: "DN", A: "S2"}, {K: "D", A: "S2"}},
	{{K: "N", A: "S2"}, {K: "N", A: "Q3"}, {K: "DN", A: "Sheet1"}, {K: "DN", A: "S2"}, {K: "DN", A: "S2"}, {K: "DN", A: "Q3"}, {K: "DN", A: "Q3"}, {K: "D", A: "S2"}},
	{{K: "N", A: "S2"}, {K: "N", A: "Q3"}, {K: "DN", A: "Q3"}, {K: "DN", A: "S2"}, {K: "DN", A: "S2"}, {K: "DN", A: "Workbook"}, {K: "DN", A: "Sheet1"}, {K: "DN", A: "Sheet1"}, {K: "D", A: "Sheet1"}, {K: "D", A: "S2"}},
}

func (c *Ctx) c05WorkbookHistories(n int) {
	for i := 0; i < n+len(c05NameHistories); i++ {
		var ops []wop
		if i < len(c05NameHistories) {
			ops = c05NameHistories[i]
		} else {
			for j := 0; j < 3+c.Rng.Intn(12); j++ {
				ops = append(ops, c.c16Op(3, true))
			}
		}
		c.guard("C05_no_panic", ops, func() {
			st := &c16state{f: excelize.NewFile(), scoped: map[string]int{}}
			defer st.f.Close()
			for _, o := range ops {
				_ = st.apply(o)
			}
			c.c05Check("workbook history", ops, st.f, nil)
		})
	}
}

var c05png = c15pic

// one scenario per feature family, each followed by deletions of what it added
func (c *Ctx) c05Features() {
	type scen struct {
		name string
		run  func(f *excelize.File) error
	}
	const sh = "Sheet1"
	fill := func(f *excelize.File) {
		for r := 1; r <= 6; r++ {
			f.SetSheetRow(sh, "A"+strconv.Itoa(r), &[]interface{}{fmt.Sprintf("cat%d", r), r * 3, r * 5, float64(r) / 2})
		}
		f.SetSheetRow(sh, "A1", &[]interface{}{"Name", "Q1", "Q2", "Q3"})
	}
	scens := []scen{
		{"charts of several types, then one deleted", func(f *excelize.File) error {
			fill(f)
			for i, t := range []excelize.ChartType{excelize.Col, excelize.Line, excelize.Pie, excelize.Scatter, excelize.Bar3DClustered, excelize.Area, excelize.Doughnut, excelize.Radar} {
				cell, _ := excelize.CoordinatesToCellName(7, 1+i*16)
				if err := f.AddChart(sh, cell, &excelize.Chart{Type: t, Series: []excelize.ChartSeries{{Name: "Sheet1!$B$1", Categories: "Sheet1!$A$2:$A$6", Values: "Sheet1!$B$2:$B$6"}}, Title: []excelize.RichTextRun{{Text: "T <&> " + strconv.Itoa(i)}}}); err != nil {
					return err
				}
			}
			return f.DeleteChart(sh, "G1")
		}},
		{"chart sheet", func(f *excelize.File) error {
			fill(f)
			return f.AddChartSheet("Chart1", &excelize.Chart{Type: excelize.Col, Series: []excelize.ChartSeries{{Name: "Sheet1!$B$1", Categories: "Sheet1!$A$2:$A$6", Values: "Sheet1!$B$2:$B$6"}}})
		}},
		{"pictures in several cells, one deleted", func(f *excelize.File) error {
			for _, cell := range []string{"B2", "D4", "B2"} {
				if err := f.AddPictureFromBytes(sh, cell, &excelize.Picture{Extension: ".png", File: c05png, Format: &excelize.GraphicOptions{AltText: "a<b>"}}); err != nil {
					return err
				}
			}
			return f.DeletePicture(sh, "D4")
		}},
		{"shapes", func(f *excelize.File) error {
			return f.AddShape(sh, &excelize.Shape{Cell: "C5", Type: "rect", Paragraph: []excelize.RichTextRun{{Text: "shape <&>"}}, Width: 120, Height: 60})
		}},
		{"comments added and one deleted", func(f *excelize.File) error {
			for _, cell := range []string{"A1", "B5", "C9"} {
				if err := f.AddComment(sh, excelize.Comment{Cell: cell, Author: "A&B", Paragraph: []excelize.RichTextRun{{Text: "c <" + cell + ">"}}}); err != nil {
					return err
				}
			}
			return f.DeleteComment(sh, "B5")
		}},
		{"form controls", func(f *excelize.File) error {
			if err := f.AddFormControl(sh, excelize.FormControl{Cell: "A1", Type: excelize.FormControlButton, Text: "Press"}); err != nil {
				return err
			}
			return f.AddFormControl(sh, excelize.FormControl{Cell: "A5", Type: excelize.FormControlCheckBox, Text: "Tick", Checked: true})
		}},
		{"sparklines", func(f *excelize.File) error {
			fill(f)
			return f.AddSparkline(sh, &excelize.SparklineOptions{Location: []string{"F2", "F3"}, Range: []string{"Sheet1!B2:D2", "Sheet1!B3:D3"}, Markers: true})
		}},
		{"pivot table and slicer", func(f *excelize.File) error {
			fill(f)
			f.NewSheet("Pivot")
			if err := f.AddPivotTable(&excelize.PivotTableOptions{DataRange: "Sheet1!A1:D6", PivotTableRange: "Pivot!A3:E20", Rows: []excelize.PivotTableField{{Data: "Name"}}, Data: []excelize.PivotTableField{{Data: "Q1", Subtotal: "Sum"}}, Name: "PT1"}); err != nil {
				return err
			}
			if err := f.AddTable(sh, &excelize.Table{Range: "A1:D6", Name: "Tbl"}); err != nil {
				return err
			}
			return f.AddSlicer(sh, &excelize.SlicerOptions{Name: "Name", Cell: "H2", TableSheet: sh, TableName: "Tbl", Caption: "Name"})
		}},
		{"tables added and deleted, auto filter", func(f *excelize.File) error {
			fill(f)
			if err := f.AddTable(sh, &excelize.Table{Range: "A1:B6", Name: "T1"}); err != nil {
				return err
			}
			if err := f.AddTable(sh, &excelize.Table{Range: "F1:G4", Name: "T2"}); err != nil {
				return err
			}
			if err := f.DeleteTable("T1"); err != nil {
				return err
			}
			return f.AutoFilter(sh, "C1:D6", nil)
		}},
		{"conditional formats, data validations, defined names, hyperlinks", func(f *excelize.File) error {
			fill(f)
			st, _ := f.NewConditionalStyle(&excelize.Style{Font: &excelize.Font{Color: "9A0511"}})
			f.SetConditionalFormat(sh, "B2:B6", []excelize.ConditionalFormatOptions{{Type: "cell", Criteria: ">", Format: &st, Value: "6"}})
			f.SetConditionalFormat(sh, "C2:C6", []excelize.ConditionalFormatOptions{{Type: "data_bar", Criteria: "=", MinType: "min", MaxType: "max", BarColor: "#638EC6"}})
			f.UnsetConditionalFormat(sh, "B2:B6")
			dv := excelize.NewDataValidation(true)
			dv.SetSqref("E1:E5")
			dv.SetDropList([]string{"a<b", "c&d", "\"q\""})
			f.AddDataValidation(sh, dv)
			f.SetDefinedName(&excelize.DefinedName{Name: "total", RefersTo: "Sheet1!$B$2:$B$6"})
			f.SetDefinedName(&excelize.DefinedName{Name: "total", RefersTo: "Sheet1!$C$2", Scope: sh})
			f.SetCellHyperLink(sh, "A2", "https://example.com/?a=1&b=2", "External")
			f.SetCellHyperLink(sh, "A3", "Sheet1!A1", "Location")
			return f.SetCellHyperLink(sh, "A2", "", "None")
		}},
		{"data validations whose escaped formulas hold references, then structural edits on this and another sheet", func(f *excelize.File) error {
			fill(f)
			f.NewSheet("Other")
			for i, item := range []string{"=IF($A$5<LEN($B$5&$C$5),$B$6:$B$8,$C$6:$C$8)", "A3<B3", "x&B4", "=Other!$A$2&\"<\"", "IF(B2>3,\"a<b\",C2&\"&\")"} {
				dv := excelize.NewDataValidation(true)
				dv.SetSqref(fmt.Sprintf("F%d:G%d", 2+i, 2+i))
				if err := dv.SetDropList([]string{item}); err != nil {
					return err
				}
				if err := f.AddDataValidation(sh, dv); err != nil {
					return err
				}
			}
			dv := excelize.NewDataValidation(true)
			dv.SetSqref("H2:H4")
			dv.SetRange("B2", "C6", excelize.DataValidationTypeWhole, excelize.DataValidationOperatorBetween)
			f.AddDataValidation(sh, dv)
			if err := f.InsertRows(sh, 3, 2); err != nil {
				return err
			}
			if err := f.InsertCols(sh, "B", 1); err != nil {
				return err
			}
			if err := f.RemoveRow("Other", 1); err != nil {
				return err
			}
			return f.RemoveCol(sh, "A")
		}},
		{"sheet with everything deleted, copied and renamed", func(f *excelize.File) error {
			fill(f)
			f.AddComment(sh, excelize.Comment{Cell: "A1", Author: "x", Paragraph: []excelize.RichTextRun{{Text: "c"}}})
			f.AddPictureFromBytes(sh, "B2", &excelize.Picture{Extension: ".png", File: c05png})
			f.AddTable(sh, &excelize.Table{Range: "A1:B6", Name: "TD"})
			f.SetDefinedName(&excelize.DefinedName{Name: "local", RefersTo: "Sheet1!$A$1", Scope: sh})
			f.SetCellFormula(sh, "F1", "SUM(B2:B6)")
			i2, _ := f.NewSheet("Copy")
			i1, _ := f.GetSheetIndex(sh)
			if err := f.CopySheet(i1, i2); err != nil {
				return err
			}
			f.SetSheetName("Copy", "Renamed <&>")
			return f.DeleteSheet(sh)
		}},
		{"stream writer with merged cells, panes and a table", func(f *excelize.File) error {
			sw, err := f.NewStreamWriter(sh)
			if err != nil {
				return err
			}
			sw.SetColWidth(1, 3, 18)
			sw.SetPanes(&excelize.Panes{Freeze: true, YSplit: 1, TopLeftCell: "A2", ActivePane: "bottomLeft"})
			for r := 1; r <= 30; r++ {
				sw.SetRow("A"+strconv.Itoa(r), []interface{}{fmt.Sprintf("n%d <&>", r), r, excelize.Cell{Formula: "B" + strconv.Itoa(r) + "*2"}})
			}
			sw.MergeCell("E1", "F2")
			sw.AddTable(&excelize.Table{Range: "A1:B30", Name: "ST"})
			return sw.Flush()
		}},
		{"styles of every component, rich text, number formats", func(f *excelize.File) error {
			for i := 0; i < 12; i++ {
				cf := "0.0" + strings.Repeat("0", i) + ";[Red]-0.0"
				st, err := f.NewStyle(&excelize.Style{Font: &excelize.Font{Bold: i%2 == 0, Size: float64(8 + i), Color: "1265BE"}, Fill: excelize.Fill{Type: "pattern", Pattern: 1 + i%3, Color: []string{"E0EBF5"}}, Border: []excelize.Border{{Type: "left", Color: "0000FF", Style: 1 + i%5}}, CustomNumFmt: &cf, Alignment: &excelize.Alignment{WrapText: true}})
				if err != nil {
					return err
				}
				cell, _ := excelize.CoordinatesToCellName(1+i, 1)
				f.SetCellStyle(sh, cell, cell, st)
			}
			return f.SetCellRichText(sh, "A3", []excelize.RichTextRun{{Text: "bold <&>", Font: &excelize.Font{Bold: true}}, {Text: " plain\n"}})
		}},
	}
	for _, s := range scens {
		c.guard("C05_no_panic", s.name, func() {
			f := excelize.NewFile()
			defer f.Close()
			if err := s.run(f); err != nil {
				c.R.Dist["feature-rejected"]++
				c.Sample(map[string]string{"scenario": s.name, "rejected": err.Error()})
			}
			c.c05Check("feature: "+s.name, s.name, f, nil)
			// reopen, touch, save again
			var buf bytes.Buffer
			if err := f.Write(&buf); err == nil {
				if g, err := excelize.OpenReader(bytes.NewReader(buf.Bytes())); err == nil {
					for _, nm := range g.GetSheetList() {
						g.SetCellValue(nm, "Z99", "touched")
						g.InsertRows(nm, 2, 1)
					}
					c.c05Check("feature reopened and edited: "+s.name, s.name, g, nil)
					g.Close()
				} else {
					c.Fail("oracle", "C05_wf", s.name, "feature: "+s.name+": the saved workbook does not reopen: "+err.Error(), "")
				}
			}
		})
	}
	// the data-validation formula written verbatim (see C18): recorded here under its own id
	c.guard("C05_no_panic", "data validation with raw formula", func() {
		f := excelize.NewFile()
		defer f.Close()
		dv := excelize.NewDataValidation(true)
		dv.SetSqref("A1:B2")
		dv.Type, dv.Formula1 = "custom", "A1<5"
		f.AddDataValidation(sh, dv)
		c.c05Check("data validation with arbitrary formula text", map[string]string{"Formula1": "A1<5"}, f, func(p string) string {
			if strings.Contains(p, "not well-formed XML") {
				return "c05-data-validation-formula-not-escaped"
			}
			return ""
		})
	})
}

func (c *Ctx) c05Fixtures() {
	for _, name := range []string{"Book1.xlsx", "CalcChain.xlsx", "MergeCell.xlsx", "SharedStrings.xlsx"} {
		data, err := os.ReadFile("/repo/test/" + name)
		if err != nil {
			continue
		}
		edits := []struct {
			what string
			do   func(f *excelize.File)
		}{
			{"saved unchanged", func(f *excelize.File) {}},
			{"cell writes and a formula", func(f *excelize.File) {
				s := f.GetSheetName(0)
				f.SetCellValue(s, "A1", "changed <&>")
				f.SetCellFormula(s, "B1", "SUM(A1:A3)")
				f.SetCellValue(s, "C7", 42)
			}},
			{"rows and columns inserted and removed", func(f *excelize.File) {
				s := f.GetSheetName(0)
				f.InsertRows(s, 2, 2)
				f.RemoveRow(s, 5)
				f.InsertCols(s, "B", 1)
				f.RemoveCol(s, "D")
			}},
			{"first sheet deleted, a sheet added", func(f *excelize.File) {
				f.NewSheet("Added")
				f.SetCellValue("Added", "A1", 1)
				if len(f.GetSheetList()) > 1 {
					f.DeleteSheet(f.GetSheetName(0))
				}
			}},
			{"every formula cell overwritten by a value", func(f *excelize.File) {
				for _, s := range f.GetSheetList() {
					rows, _ := f.GetRows(s)
					for r := range rows {
						for col := range rows[r] {
							nm, _ := excelize.CoordinatesToCellName(col+1, r+1)
							if fm, _ := f.GetCellFormula(s, nm); fm != "" {
								f.SetCellValue(s, nm, 7)
							}
						}
					}
				}
			}},
		}
		for _, e := range edits {
			desc := map[string]string{"fixture": name, "edit": e.what}
			c.guard("C05_no_panic", desc, func() {
				f, err := excelize.OpenReader(bytes.NewReader(data))
				if err != nil {
					return
				}
				defer f.Close()
				e.do(f)
				c.c05Check("fixture "+name+" "+e.what, desc, f, nil)
			})
		}
	}
}

func runC05(c *Ctx) {
	c.R.Rule = "every saved package goes through an independent validator (archive/zip + XML tokenizer; no excelize code): unique entries, well-formed XML parts, content types, relationship targets and r:id resolution, sheet list (unique valid names and ids, one sheet per part), defined names, rows and cells strictly ascending and consistent with references, shared-string / cell-format / differential-format / number-format / font / fill / border indices in range, merged ranges disjoint, calc chain pointing at formula cells, table refs and names. Sources: random sheet histories (values, formulas, styles, merges, attributes, hyperlinks, saves) with and without structural edits, random workbook histories (new, delete, move, rename, copy, visibility, grouping, defined names), random merge/unmerge histories over a 8x8 grid (mostly overlapping ranges, either corner order), random drawing-layer histories over three worksheets (pictures of two image contents in shared cells and shared media parts, charts, shapes, comments, their deletions, sheet copy and deletion, with reopen steps so untouched parts exist only as package bytes), one scenario per feature family (charts, chart sheet, pictures, shapes, comments, form controls, sparklines, pivot table + slicer, tables + auto filter, conditional formats + data validations + defined names + hyperlinks, delete/copy/rename of a loaded sheet, stream writer, styles) each also reopened, edited and saved again, and edited fixture files. non-trivial = all"
	n := 60
	if c.Thorough() {
		n = 1500
	}
	c.c05SheetHistories(n)
	c.c05WorkbookHistories(n)
	c.c05Merges(n * 3)
	c.c05DrawingHistories(n * 2)
	c.c05Features()
	c.c05Fixtures()
	c.c05ModelRows(n * 2)
}
