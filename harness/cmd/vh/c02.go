package main

import (
	"archive/zip"
	"bytes"
	"fmt"
	"sort"
	"strings"
	"time"

	"github.com/xuri/excelize/v2"
)

func init() {
	props["C02"] = propFn{run: runC02, replay: func(c *Ctx, f Failure) {
		if m, ok := f.Case.(map[string]interface{}); ok {
			if sh, ok := m["streamed"]; ok {
				b, _ := jsonMarshal(sh)
				var h c11hist
				if jsonUnmarshal(b, &h) == nil {
					c.c02Streamed(h)
				}
				return
			}
		}
		replayHist("C02")(c, f)
	}}
	histCheckers["C02"] = func(c *Ctx, h hist, cases *[]mcase) { c.checkHistC02(h, cases) }
}

func eraseSaves(h hist) hist {
	g := h
	g.Ops = nil
	for _, o := range h.Ops {
		if o.K != "W" && o.K != "O" {
			g.Ops = append(g.Ops, o)
		}
	}
	return g
}

func allSheetsObservation(f *excelize.File, w, h int) string {
	var sb strings.Builder
	for _, sh := range f.GetSheetList() {
		sb.WriteString("[" + sh + "]")
		sb.WriteString(fullObservation(f, sh, w, h))
	}
	for _, dn := range f.GetDefinedName() {
		fmt.Fprintf(&sb, "|dn:%s=%s@%s", dn.Name, dn.RefersTo, dn.Scope)
	}
	return sb.String()
}

func decodedObservation(f *excelize.File, w, h int) (string, []string, error) {
	buf, err := f.WriteToBuffer()
	if err != nil {
		return "", nil, err
	}
	zr, err := zip.NewReader(bytes.NewReader(buf.Bytes()), int64(buf.Len()))
	if err != nil {
		return "", nil, err
	}
	var names []string
	for _, e := range zr.File {
		names = append(names, e.Name)
	}
	sort.Strings(names)
	g, err := excelize.OpenReader(bytes.NewReader(buf.Bytes()))
	if err != nil {
		return "", names, err
	}
	defer g.Close()
	return allSheetsObservation(g, w, h), names, nil
}

func firstDiff(a, b string) string {
	n := len(a)
	if len(b) < n {
		n = len(b)
	}
	i := 0
	for i < n && a[i] == b[i] {
		i++
	}
	lo := i - 60
	if lo < 0 {
		lo = 0
	}
	ha, hb := i+60, i+60
	if ha > len(a) {
		ha = len(a)
	}
	if hb > len(b) {
		hb = len(b)
	}
	return fmt.Sprintf("...%q vs ...%q", a[lo:ha], b[lo:hb])
}

// twin files: A executes the history with its saves, B the same history without them
func (c *Ctx) checkHistC02(h hist, cases *[]mcase) {
	c.guard("C02_no_panic", h, func() { c.checkHistC02x(h, cases) })
}

func (c *Ctx) checkHistC02x(h hist, cases *[]mcase) {
	a, stylesA, errA := runHist(h)
	defer a.Close()
	hb := eraseSaves(h)
	b, _, errB := runHist(hb)
	defer b.Close()
	nsaves := len(h.Ops) - len(hb.Ops)
	c.Count("twin", nsaves > 0 && len(hb.Ops) > 0, fmt.Sprint(h))
	c.R.Dist[fmt.Sprintf("saves=%d", nsaves)]++
	if (errA == nil) != (errB == nil) {
		c.Fail("oracle", "C02_commutes", h, fmt.Sprintf("history with saves: err=%v; without saves: err=%v", errA, errB), "")
		return
	}
	if errA != nil {
		return
	}
	var oa, ob string
	if h.C0 > 1 || h.R0 > 1 {
		oa, _ = observeWindowAt(a, h.Sheet, h.C0, h.R0, h.W, h.H)
		ob, _ = observeWindowAt(b, h.Sheet, h.C0, h.R0, h.W, h.H)
	} else {
		oa, ob = allSheetsObservation(a, h.W, h.H), allSheetsObservation(b, h.W, h.H)
	}
	if oa != ob {
		c.Fail("oracle", "C02_commutes", h, "observation after the history differs with vs. without interleaved saves: "+firstDiff(oa, ob), "")
		return
	}
	if h.C0 == 1 && h.R0 == 1 {
		da, na, e1 := decodedObservation(a, h.W, h.H)
		db, nb, e2 := decodedObservation(b, h.W, h.H)
		if e1 != nil || e2 != nil {
			c.Fail("oracle", "C02_commutes", h, fmt.Sprintf("final save/open failed: %v / %v", e1, e2), "")
			return
		}
		if da != db {
			c.Fail("oracle", "C02_saved_content", h, "decoded content of the final package differs with vs. without earlier saves: "+firstDiff(da, db), "")
		}
		if strings.Join(na, ",") != strings.Join(nb, ",") {
			c.Fail("oracle", "C02_saved_content", h, fmt.Sprintf("part sets differ: %v vs %v", na, nb), "")
		}
		// saving twice: same parts, same decoded content; observation unchanged by the saves
		da2, na2, e3 := decodedObservation(a, h.W, h.H)
		if e3 != nil || da2 != da || strings.Join(na2, ",") != strings.Join(na, ",") {
			c.Fail("oracle", "C02_save_twice", h, "a second save of the unmodified workbook decodes differently: "+firstDiff(da, da2), "")
		}
		if oa2 := allSheetsObservation(a, h.W, h.H); oa2 != oa {
			c.Fail("oracle", "C02_getters_pure", h, "getters changed after saving: "+firstDiff(oa, oa2), "")
		}
	}
	if req, ok := h.modelReq(stylesA); ok {
		win, err := observeWindowAt(a, h.Sheet, h.C0, h.R0, h.W, h.H)
		if err == nil {
			*cases = append(*cases, mcase{Req: req, Impl: win, Rel: "sheet.run(with saves)", Desc: h})
		}
	}
}

func runC02(c *Ctx) {
	t0 := time.Now()
	defer func() { c.R.Notes = append(c.R.Notes, fmt.Sprintf("total %.1fs", time.Since(t0).Seconds())) }()
	c.R.Rule = "twin files: history with saves (WriteToBuffer) inserted at generator-chosen positions vs the same history with the saves erased; all subsets of save positions for histories of length <= 5, random beyond; sheets: initial sheet, NewSheet-created sheet; observation of every sheet + decoded final package + part set; extracted model run with OSave at the same positions. non-trivial = at least one save followed by at least one mutation"
	var cases []mcase
	g := histGen{c: c, merges: true, attrs: true, rowStyle: true, far: true}
	// systematic: every subset of save positions in short histories
	nsys := 5
	nrand := 120
	if c.Thorough() {
		nsys, nrand = 200, 10000
	}
	for i := 0; i < nsys; i++ {
		base := g.gen(2 + c.Rng.Intn(4))
		n := len(base.Ops)
		for mask := 1; mask < (1 << uint(n+1)); mask++ {
			h := base
			h.Ops = nil
			for j := 0; j <= n; j++ {
				if mask&(1<<uint(j)) != 0 {
					h.Ops = append(h.Ops, sop{K: "W"})
				}
				if j < n {
					h.Ops = append(h.Ops, base.Ops[j])
				}
			}
			c.checkHistC02(h, &cases)
			if c.Failed() {
				break
			}
		}
	}
	c.R.Notes = append(c.R.Notes, fmt.Sprintf("systematic %.1fs evals=%d", time.Since(t0).Seconds(), c.R.Evals))
	gs := histGen{c: c, merges: true, attrs: true, rowStyle: true, far: true, saves: "W"}
	for i := 0; i < nrand; i++ {
		h := gs.gen(3 + c.Rng.Intn(30))
		c.checkHistC02(h, &cases)
		if i < 2 {
			c.Sample(h)
		}
	}
	c.compareBatch(cases)
	c.overlapMergeProbe("C02")
	c.c02ColAttrs()
	c.c02ItemsAcrossSaves()
	nst := 40
	if c.Thorough() {
		nst = 1500
	}
	for i := 0; i < nst && !c.Failed(); i++ {
		c.c02Streamed(c.c11Gen(3+c.Rng.Intn(10), false))
	}
}

// a worksheet written through a StreamWriter (flushed, still held in memory) next to an ordinary sheet:
// saving must neither change what the getters report nor what the next save writes
func (c *Ctx) c02Streamed(h c11hist) {
	// GetCols decodes the worksheet once per column: keep the rows away from column XFD
	var near []c11op
	for _, o := range h.Ops {
		if o.Op == "row" && colOf(o.Cell) > 40 {
			continue
		}
		near = append(near, o)
	}
	h.Ops = near
	desc := map[string]interface{}{"streamed": h}
	c.guard("C02_no_panic", desc, func() {
		f, _, _, err := c11Stream(h)
		if err != nil {
			c.R.Dist["stream-rejected"]++
			return
		}
		defer f.Close()
		if _, err := f.NewSheet("Plain"); err != nil {
			return
		}
		_ = f.SetCellValue("Plain", "B2", "p")
		c.Count("streamed", true, fmt.Sprint(h))
		c.R.Dist["streamed-sheet"]++
		o0 := allSheetsObservation(f, 9, 12)
		d1, n1, e1 := decodedObservation(f, 9, 12)
		o1 := allSheetsObservation(f, 9, 12)
		d2, n2, e2 := decodedObservation(f, 9, 12)
		o2 := allSheetsObservation(f, 9, 12)
		if e1 != nil || e2 != nil {
			c.Fail("oracle", "C02_save_twice", desc, fmt.Sprintf("saving a workbook with a stream-written sheet failed: %v / %v", e1, e2), "")
			return
		}
		if o0 != o1 || o1 != o2 {
			a, b := o0, o1
			if o0 == o1 {
				a, b = o1, o2
			}
			c.Fail("oracle", "C02_getters_pure", desc, "stream-written sheet: getters changed after saving: "+firstDiff(a, b), "")
		}
		if d1 != d2 || strings.Join(n1, ",") != strings.Join(n2, ",") {
			c.Fail("oracle", "C02_save_twice", desc, "stream-written sheet: a second save of the unmodified workbook decodes differently: "+firstDiff(d1, d2), "")
		}
	})
}

// column attributes of two adjacent columns (every combination of outline level, width, style, visibility, both
// orders of setting): what the getters report must not change when the workbook is saved, and a second save must
// decode to the same content; also for a workbook that was opened from a package
func (c *Ctx) c02ColAttrs() {
	type ca struct{ Ol, W, St, Hid int }
	var opts []ca
	for ol := 0; ol < 3; ol++ {
		for w := 0; w < 3; w++ {
			for st := 0; st < 2; st++ {
				for hid := 0; hid < 2; hid++ {
					opts = append(opts, ca{ol, w, st, hid})
				}
			}
		}
	}
	widths := []float64{0, 20, 30.5}
	apply := func(f *excelize.File, col string, a ca, styles []int) {
		if a.Ol > 0 {
			f.SetColOutlineLevel("Sheet1", col, uint8(a.Ol))
		}
		if a.W > 0 {
			f.SetColWidth("Sheet1", col, col, widths[a.W])
		}
		if a.St > 0 {
			f.SetColStyle("Sheet1", col, styles[a.St])
		}
		if a.Hid > 0 {
			f.SetColVisible("Sheet1", col, false)
		}
	}
	obs := func(f *excelize.File) string {
		var sb strings.Builder
		for _, col := range []string{"A", "B", "C", "D", "E"} {
			w, _ := f.GetColWidth("Sheet1", col)
			ol, _ := f.GetColOutlineLevel("Sheet1", col)
			v, _ := f.GetColVisible("Sheet1", col)
			st, _ := f.GetColStyle("Sheet1", col)
			fmt.Fprintf(&sb, "%s:w=%v,ol=%d,vis=%v,st=%d ", col, w, ol, v, st)
		}
		return sb.String()
	}
	for i, a := range opts {
		for j, b := range opts {
			if !c.Thorough() && (i*31+j)%3 != 0 {
				continue
			}
			desc := map[string]interface{}{"colB": a, "colC": b, "order": (i + j) % 2}
			c.guard("C02_no_panic", desc, func() {
				f := excelize.NewFile()
				defer f.Close()
				styles := registerStyles(f)
				if (i+j)%2 == 0 {
					apply(f, "B", a, styles)
					apply(f, "C", b, styles)
				} else {
					apply(f, "C", b, styles)
					apply(f, "B", a, styles)
				}
				c.Count("col-attrs", a != b, fmt.Sprint(a, b))
				o0 := obs(f)
				buf, err := f.WriteToBuffer()
				if err != nil {
					c.Fail("oracle", "C02_save_twice", desc, "save failed: "+err.Error(), "")
					return
				}
				if o1 := obs(f); o1 != o0 {
					c.Fail("oracle", "C02_getters_pure", desc, fmt.Sprintf("column attributes reported by the getters changed when the workbook was saved: %s  ->  %s", o0, o1), "")
					return
				}
				g, err := excelize.OpenReader(bytes.NewReader(buf.Bytes()))
				if err != nil {
					c.Fail("oracle", "C02_save_twice", desc, "reopen failed: "+err.Error(), "")
					return
				}
				defer g.Close()
				g0 := obs(g)
				if _, err := g.WriteToBuffer(); err != nil {
					c.Fail("oracle", "C02_save_twice", desc, "second save failed: "+err.Error(), "")
					return
				}
				if g1 := obs(g); g1 != g0 {
					c.Fail("oracle", "C02_getters_pure", desc, fmt.Sprintf("opened workbook: column attributes changed when it was saved: %s  ->  %s", g0, g1), "")
				}
			})
			if len(c.R.Failures) >= 3 {
				return
			}
		}
	}
}

// items of every kind (comments, validations, conditional formats, tables, hyperlinks, pictures, form controls, scoped
// names) added one by one with a save after each addition, against a twin that receives the same additions without
// any save: the getters of the two workbooks agree after every step, and so do the workbooks reopened from their
// final packages; one item is then deleted on both and the comparison repeated
func (c *Ctx) c02ItemsAcrossSaves() {
	// (a reference sequence may come back as an equivalent list of ranges in another order: D.3)
	norm := func(l []string) string {
		var out []string
		for _, x := range l {
			p := strings.Fields(x)
			sort.Strings(p)
			out = append(out, strings.Join(p, " "))
		}
		sort.Strings(out)
		return strings.Join(out, ",")
	}
	for _, kd := range c18kinds() {
		for _, opened := range []bool{false, true} {
			desc := map[string]interface{}{"kind": kd.name, "workbook_opened_from_a_package": opened}
			c.guard("C02_no_panic", desc, func() {
				mk := func() *excelize.File {
					f := excelize.NewFile()
					for r := 1; r <= 9; r++ {
						f.SetSheetRow("Sheet1", fmt.Sprintf("A%d", r), &[]interface{}{"h", r, r, r, r, r, r, r})
					}
					if opened {
						if g, err := reopen(f); err == nil {
							f.Close()
							return g
						}
					}
					return f
				}
				a, b := mk(), mk()
				defer a.Close()
				defer b.Close()
				c.Count("items-across-saves", true, fmt.Sprint(desc))
				for k := 0; k < 3; k++ {
					ea, eb := kd.add(a, "Sheet1", k), kd.add(b, "Sheet1", k)
					if ea != nil || eb != nil {
						return
					}
					if _, err := a.WriteToBuffer(); err != nil {
						c.Fail("oracle", "C02_save_twice", desc, "save failed: "+err.Error(), "")
						return
					}
					if sa, sb := norm(kd.show(a, "Sheet1")), norm(kd.show(b, "Sheet1")); sa != sb {
						c.Fail("oracle", "C02_commutes", desc, fmt.Sprintf("after adding %s %d: the workbook saved after every addition shows [%s], its never-saved twin [%s]", kd.name, k+1, sa, sb), "")
						return
					}
				}
				_ = kd.del(a, "Sheet1", 1)
				_ = kd.del(b, "Sheet1", 1)
				ra, e1 := reopen(a)
				rb, e2 := reopen(b)
				if e1 != nil || e2 != nil {
					c.Fail("oracle", "C02_saved_content", desc, fmt.Sprintf("final save/open failed: %v / %v", e1, e2), "")
					return
				}
				defer ra.Close()
				defer rb.Close()
				if sa, sb := norm(kd.show(ra, "Sheet1")), norm(kd.show(rb, "Sheet1")); sa != sb {
					c.Fail("oracle", "C02_saved_content", desc, fmt.Sprintf("the final package of the workbook saved after every addition holds the %ss [%s], that of its never-saved twin [%s]", kd.name, sa, sb), "")
				}
				if sa, sb := norm(kd.show(a, "Sheet1")), norm(kd.show(ra, "Sheet1")); sa != sb {
					c.Fail("oracle", "C02_getters_pure", desc, fmt.Sprintf("the live workbook shows the %ss [%s], its saved package [%s]", kd.name, sa, sb), "")
				}
			})
		}
	}
}
