package main

import (
	"fmt"
	"strings"

	"github.com/xuri/excelize/v2"
)

func init() { props["C03"] = propFn{run: runC03, replay: replayHist("C03")} }

var strDict = []string{"", "a", "B", " lead", "trail ", "a\nb", "tab\there", "<&>\"'", "_x0041_", "_x005F_x0041_", "_x0042_x0041_",
	"_x005f_", "_xD800_", "_xZZZZ_", "ünï", "日本語", "😀", "123", "1e5", "TRUE", "0.1", "=1+1", strings.Repeat("long ", 8), "\r\n"}
var formulaDict = []string{"1+1", "A1*2", "SUM(A1:B2)", "\"x\"&\"y\"", "B2", "", "IF(A1>1,\"a\",\"b\")"}

type hist struct {
	Sheet string `json:"sheet"` // "Sheet1" (initial sheet) or "S2" (created with NewSheet)
	Ops   []sop  `json:"ops"`
	W     int    `json:"w"`
	H     int    `json:"h"`
	C0    int    `json:"c0"`
	R0    int    `json:"r0"`
}

type histGen struct {
	c        *Ctx
	attrs    bool // row/column attributes, hyperlinks, rich text, defined names (oracle only)
	merges   bool
	saves    string // "" | "W" | "O" | "WO"
	far      bool
	rowStyle bool
}

func (g histGen) payload() sop {
	r := g.c.Rng
	switch r.Intn(12) {
	case 0, 1, 2:
		return sop{K: "S", PK: "int", I: []int64{0, 1, -1, 42, 1 << 40, -9223372036854775808, 9223372036854775807}[r.Intn(7)]}
	case 3, 4:
		return sop{K: "S", PK: "float", F: []float64{0.5, -2.25, 1e-7, 1.0e15, 123456789.123456789, 5e-324, 1.7976931348623157e308, 0.1 + 0.2, 1234567890.1234567}[r.Intn(9)]}
	case 5, 6, 7, 8:
		return sop{K: "S", PK: "str", S: strDict[r.Intn(len(strDict))]}
	case 9:
		return sop{K: "S", PK: "bool", B: r.Intn(2) == 0}
	case 10:
		return sop{K: "S", PK: "nil"}
	default:
		return sop{K: "S", PK: "bytes", S: strDict[r.Intn(len(strDict))]}
	}
}

func rectsOverlap(a, b [4]int) bool {
	return a[0] <= b[2] && b[0] <= a[2] && a[1] <= b[3] && b[1] <= a[3]
}

func (g histGen) gen(n int) hist {
	r := g.c.Rng
	h := hist{Sheet: []string{"Sheet1", "S2"}[r.Intn(2)], W: 6, H: 6, C0: 1, R0: 1}
	if g.far && r.Intn(10) == 0 {
		h.C0, h.R0 = []int{16379, 700, 26, 53}[r.Intn(4)], []int{1, 250, 40}[r.Intn(3)]
	}
	var rects [][4]int
	for i := 0; i < n; i++ {
		col, row := h.C0+r.Intn(h.W), h.R0+r.Intn(h.H)
		k := r.Intn(100)
		var o sop
		switch {
		case k < 55:
			o = g.payload()
		case k < 65:
			o = sop{K: "F", S: formulaDict[r.Intn(len(formulaDict))]}
		case k < 75:
			o = sop{K: "Y", St: r.Intn(5)}
		case k < 80 && g.rowStyle:
			o = sop{K: "R", St: r.Intn(5)}
		case k < 88 && g.merges:
			c2, r2 := col+r.Intn(3), row+r.Intn(3)
			if c2 >= h.C0+h.W {
				c2 = h.C0 + h.W - 1
			}
			if r2 >= h.R0+h.H {
				r2 = h.R0 + h.H - 1
			}
			nr := [4]int{col, row, c2, r2}
			ok := !(c2 == col && r2 == row)
			for _, e := range rects {
				if rectsOverlap(e, nr) {
					ok = false
				}
			}
			if !ok {
				o = g.payload()
			} else {
				rects = append(rects, nr)
				o = sop{K: "M", Col2: c2, Row2: r2}
			}
		case k < 94 && g.saves != "":
			o = sop{K: string(g.saves[r.Intn(len(g.saves))])}
		case g.attrs && k < 100 && (k >= 94 || r.Intn(3) == 0):
			switch r.Intn(11) {
			case 9:
				o = sop{K: "CO", I: int64(r.Intn(4))}
			case 10:
				o = sop{K: "RO", I: int64(r.Intn(4))}
			case 0:
				o = sop{K: "H", F: []float64{15, 20.5, 0, 409, 33.75}[r.Intn(5)]}
			case 1:
				o = sop{K: "V", B: r.Intn(2) == 0}
			case 2:
				o = sop{K: "CW", F: []float64{8.43, 20, 0.5, 255, 12.25}[r.Intn(5)]}
			case 3:
				o = sop{K: "CS", St: r.Intn(5)}
			case 4:
				o = sop{K: "CV", B: r.Intn(2) == 0}
			case 5:
				o = sop{K: "L", B: r.Intn(2) == 0, S: "https://example.com/?a=1&b=<2>"}
			case 6:
				o = sop{K: "T", S: strDict[r.Intn(len(strDict))]}
			case 7:
				o = sop{K: "D", S: fmt.Sprintf("name_%d", r.Intn(4))}
			default:
				o = sop{K: "S", PK: []string{"dur", "time"}[r.Intn(2)], I: []int64{3600e9, 86399e9, 1700000000, 0, 4102444800}[r.Intn(5)]}
			}
		default:
			o = g.payload()
		}
		o.Col, o.Row = col, row
		if o.K == "S" && r.Intn(6) == 0 {
			// alternative accepted spellings of the same cell
			cn, _ := excelize.ColumnNumberToName(col)
			o.Name = []string{strings.ToLower(cn) + fmt.Sprint(row), "$" + cn + "$" + fmt.Sprint(row), cn + "0" + fmt.Sprint(row)}[r.Intn(3)]
		}
		h.Ops = append(h.Ops, o)
	}
	return h
}

// runHist executes a history on the implementation; returns the final file, the style table and the first error.
func runHist(h hist) (*excelize.File, []int, error) {
	f := excelize.NewFile()
	if h.Sheet != "Sheet1" {
		if _, err := f.NewSheet(h.Sheet); err != nil {
			return f, nil, err
		}
	}
	styles := registerStyles(f)
	for i, o := range h.Ops {
		g, err := o.apply(f, h.Sheet, styles)
		f = g
		if err != nil {
			return f, styles, fmt.Errorf("op %d (%s %s): %v", i, o.K, o.cell(), err)
		}
	}
	return f, styles, nil
}

func (h hist) modelReq(styles []int) (string, bool) {
	var sb strings.Builder
	fmt.Fprintf(&sb, "sheet.run %d %d %d %d", h.C0, h.R0, h.W, h.H)
	for _, o := range h.Ops {
		t, ok := o.token(styles)
		if !ok {
			return "", false
		}
		sb.WriteString(" " + t)
	}
	return sb.String(), true
}

// last-writer-wins reference for histories without merges: value text and kind per cell
func (h hist) lww() map[[2]int][2]string {
	m := map[[2]int][2]string{}
	for _, o := range h.Ops {
		k := [2]int{o.Col, o.Row}
		if o.K == "F" {
			m[k] = [2]string{"", "float"} // the cached value of a formula cell is not specified
		}
		if o.K != "S" {
			continue
		}
		switch o.PK {
		case "int":
			m[k] = [2]string{fmt.Sprint(o.I), "num"}
		case "str", "bytes":
			m[k] = [2]string{o.S, "str"}
		case "bool":
			if o.B {
				m[k] = [2]string{"1", "bool"}
			} else {
				m[k] = [2]string{"0", "bool"}
			}
		case "nil":
			m[k] = [2]string{"", "empty"}
		case "float":
			m[k] = [2]string{"", "float"}
		}
	}
	return m
}

func hasOp(h hist, kinds string) bool {
	for _, o := range h.Ops {
		if strings.Contains(kinds, o.K) {
			return true
		}
	}
	return false
}

func (c *Ctx) checkHistC03(h hist, cases *[]mcase) {
	c.guard("C03_no_panic", h, func() { c.checkHistC03x(h, cases) })
}

func (c *Ctx) checkHistC03x(h hist, cases *[]mcase) {
	f, styles, err := runHist(h)
	defer f.Close()
	if err != nil {
		c.Fail("oracle", "C03_total", h, "valid history rejected: "+err.Error(), "")
		return
	}
	win, err := observeWindowAt(f, h.Sheet, h.C0, h.R0, h.W, h.H)
	if err != nil {
		c.Fail("oracle", "C03_total", h, "observation failed: "+err.Error(), "")
		return
	}
	if req, ok := h.modelReq(styles); ok {
		*cases = append(*cases, mcase{Req: req, Impl: win, Rel: "sheet.run", Desc: h})
	}
	nontrivial := false
	seen := map[[2]int]bool{}
	for _, o := range h.Ops {
		if o.K == "M" {
			nontrivial = true
		}
		if o.K == "S" || o.K == "F" {
			if seen[[2]int{o.Col, o.Row}] {
				nontrivial = true
			}
			seen[[2]int{o.Col, o.Row}] = true
		}
	}
	c.Count("history", nontrivial, fmt.Sprint(h))
	for _, o := range h.Ops {
		c.R.Dist["op:"+o.K+o.PK]++
	}
	// direct oracle: last writer wins, untouched cells stay empty (histories without merges)
	if !hasOp(h, "M") {
		ref := h.lww()
		for r := h.R0; r < h.R0+h.H; r++ {
			for col := h.C0; col < h.C0+h.W; col++ {
				name, _ := excelize.CoordinatesToCellName(col, r)
				got, _ := f.GetCellValue(h.Sheet, name, excelize.Options{RawCellValue: true})
				want, touched := ref[[2]int{col, r}]
				if !touched {
					if got != "" {
						c.Fail("oracle", "C03_no_other_cell", h, fmt.Sprintf("cell %s was never written but reads %q", name, got), "")
					}
					continue
				}
				if want[1] == "float" {
					continue
				}
				if got != want[0] {
					c.Fail("oracle", "C03_last_writer_wins", h, fmt.Sprintf("cell %s: last payload %q (%s) reads back %q", name, want[0], want[1], got), "")
				}
			}
		}
	}
	// merged ranges reported are pairwise disjoint
	mcs, _ := f.GetMergeCells(h.Sheet)
	var rs [][4]int
	for _, m := range mcs {
		c1, r1, _ := excelize.CellNameToCoordinates(m.GetStartAxis())
		c2, r2, _ := excelize.CellNameToCoordinates(m.GetEndAxis())
		rs = append(rs, [4]int{c1, r1, c2, r2})
	}
	for i := range rs {
		for j := i + 1; j < len(rs); j++ {
			if rectsOverlap(rs[i], rs[j]) {
				c.Fail("oracle", "C03_merges_disjoint", h, fmt.Sprintf("GetMergeCells reports overlapping ranges %v and %v", rs[i], rs[j]), "")
			}
		}
	}
	// merging clears the non-anchor cells and every later write inside the range goes to the anchor: once a range
	// that is still merged at the end is unmerged, its non-anchor cells hold neither a value nor a formula
	// (GetCellValue hides them while the range is merged; GetRows and the saved file do not)
	for _, r := range rs {
		a, _ := excelize.CoordinatesToCellName(r[0], r[1])
		b, _ := excelize.CoordinatesToCellName(r[2], r[3])
		if err := f.UnmergeCell(h.Sheet, a, b); err != nil {
			continue
		}
		for col := r[0]; col <= r[2]; col++ {
			for row := r[1]; row <= r[3]; row++ {
				if col == r[0] && row == r[1] {
					continue
				}
				name, _ := excelize.CoordinatesToCellName(col, row)
				v, _ := f.GetCellValue(h.Sheet, name, excelize.Options{RawCellValue: true})
				fm, _ := f.GetCellFormula(h.Sheet, name)
				if v != "" || fm != "" {
					c.Fail("oracle", "C03_merge_clears", h, fmt.Sprintf("cell %s lay inside merged range %s:%s; after unmerging it holds value %q formula %q", name, a, b, v, fm), "")
					return
				}
			}
		}
	}
}

func runC03(c *Ctx) {
	c.R.Rule = "merge/unmerge/read histories of overlapping, nested, chained and crossing ranges: ranges reported mid-history, at the end and by the reopened file compared with the extracted model of mergeOverlapCells and checked pairwise disjoint; write histories (1..25 ops: every SetCellValue payload kind, formulas, cell/row styles, non-overlapping merges, alternative spellings) on the initial sheet or a sheet created by NewSheet, over a 6x6 window at the origin or at far positions (XFD, row 1000); observation of the whole window (raw value, type, formula, effective style) compared with the extracted model; typed setters (SetCellInt/Uint/Float with precision/Str/Bool/Default) and bulk setters (SetSheetRow, SetSheetCol) against a twin workbook receiving the equivalent SetCellValue calls, in memory and after save+open; SetCellHyperLink sequences (external, location, removal) read back by GetCellHyperLink; non-trivial = at least one overwrite of a cell or a merge"
	n := 400
	if c.Thorough() {
		n = 20000
	}
	g := histGen{c: c, merges: true, far: true, rowStyle: true}
	var cases []mcase
	for i := 0; i < n; i++ {
		h := g.gen(1 + c.Rng.Intn(25))
		c.checkHistC03(h, &cases)
		if i < 2 {
			c.Sample(h)
		}
	}
	c.compareBatch(cases)
	c.c03Overlaps()
	c.c03Merges(n)
	c.c03Typed(n / 2)
	c.c03Hyperlinks(n / 2)
	c.overlapMergeProbe("C03")
}

// overlapping / nested merges: oracle only (anchor value, clearing, disjointness)
func (c *Ctx) c03Overlaps() {
	type r4 = [4]int
	var rects []r4
	for c1 := 1; c1 <= 3; c1++ {
		for r1 := 1; r1 <= 3; r1++ {
			for c2 := c1; c2 <= 4; c2++ {
				for r2 := r1; r2 <= 4; r2++ {
					if c1 != c2 || r1 != r2 {
						rects = append(rects, r4{c1, r1, c2, r2})
					}
				}
			}
		}
	}
	n := 0
	for i, a := range rects {
		for j, b := range rects {
			if (i*31+j)%7 != 0 && !c.Thorough() {
				continue
			}
			n++
			f := excelize.NewFile()
			for r := 1; r <= 5; r++ {
				for col := 1; col <= 5; col++ {
					name, _ := excelize.CoordinatesToCellName(col, r)
					f.SetCellValue("Sheet1", name, name)
				}
			}
			nm := func(col, r int) string { s, _ := excelize.CoordinatesToCellName(col, r); return s }
			f.MergeCell("Sheet1", nm(a[0], a[1]), nm(a[2], a[3]))
			f.MergeCell("Sheet1", nm(b[0], b[1]), nm(b[2], b[3]))
			mcs, err := f.GetMergeCells("Sheet1")
			desc := map[string]interface{}{"merge1": a, "merge2": b}
			c.Count("merge-pair", rectsOverlap(a, b), fmt.Sprint(a, b))
			if err != nil {
				c.Fail("oracle", "C03_merges_disjoint", desc, "GetMergeCells: "+err.Error(), "")
			}
			var rs []r4
			for _, m := range mcs {
				x1, y1, _ := excelize.CellNameToCoordinates(m.GetStartAxis())
				x2, y2, _ := excelize.CellNameToCoordinates(m.GetEndAxis())
				rs = append(rs, r4{x1, y1, x2, y2})
			}
			for p := range rs {
				for q := p + 1; q < len(rs); q++ {
					if rectsOverlap(rs[p], rs[q]) {
						c.Fail("oracle", "C03_merges_disjoint", desc, fmt.Sprintf("GetMergeCells reports overlapping ranges %v %v", rs[p], rs[q]), "")
					}
				}
			}
			// every cell of a reported range reads the anchor's value
			for _, rr := range rs {
				av, _ := f.GetCellValue("Sheet1", nm(rr[0], rr[1]))
				for col := rr[0]; col <= rr[2]; col++ {
					for r := rr[1]; r <= rr[3]; r++ {
						if v, _ := f.GetCellValue("Sheet1", nm(col, r)); v != av {
							c.Fail("oracle", "C03_merge_anchor", desc, fmt.Sprintf("cell %s inside merged %v reads %q, anchor reads %q", nm(col, r), rr, v, av), "")
						}
					}
				}
			}
			f.Close()
		}
	}
	c.R.Dist["merge-pairs"] = n
}

// replayHist re-runs stored histories for the sheet-core properties.
func replayHist(prop string) func(c *Ctx, f Failure) {
	return func(c *Ctx, f Failure) {
		hs := extractHists(f.Case)
		var cases []mcase
		for _, h := range hs {
			switch prop {
			case "C03":
				c.checkHistC03(h, &cases)
			default:
				if fn, ok := histCheckers[prop]; ok {
					fn(c, h, &cases)
				}
			}
		}
		c.compareBatch(cases)
		if prop == "C03" && len(hs) == 0 {
			c.c03Overlaps()
		}
	}
}

var histCheckers = map[string]func(c *Ctx, h hist, cases *[]mcase){}
