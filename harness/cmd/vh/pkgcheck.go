package main

// pkgcheck: an independent structural validator for OPC/SpreadsheetML packages.  It uses archive/zip and the
// encoding/xml tokenizer only and shares no code with excelize.  Each problem is a sentence naming the part.

import (
	"archive/zip"
	"bytes"
	"encoding/xml"
	"fmt"
	"io"
	"path"
	"regexp"
	"sort"
	"strconv"
	"strings"
)

type pkgElem struct {
	Name  string
	Attr  map[string]string // local name (prefixed "r:" for the relationships namespace)
	Kids  []*pkgElem
	Text  string
	Depth int
}

func (e *pkgElem) find(names ...string) []*pkgElem {
	cur := []*pkgElem{e}
	for _, n := range names {
		var next []*pkgElem
		for _, c := range cur {
			for _, k := range c.Kids {
				if k.Name == n {
					next = append(next, k)
				}
			}
		}
		cur = next
	}
	return cur
}

func (e *pkgElem) walk(fn func(*pkgElem)) {
	fn(e)
	for _, k := range e.Kids {
		k.walk(fn)
	}
}

const nsRel = "http://schemas.openxmlformats.org/officeDocument/2006/relationships"

func pkgParse(data []byte) (*pkgElem, error) {
	d := xml.NewDecoder(bytes.NewReader(data))
	d.Strict = true
	root := &pkgElem{Name: "#root", Attr: map[string]string{}}
	stack := []*pkgElem{root}
	for {
		tok, err := d.Token()
		if err == io.EOF {
			break
		}
		if err != nil {
			return nil, err
		}
		switch t := tok.(type) {
		case xml.StartElement:
			el := &pkgElem{Name: t.Name.Local, Attr: map[string]string{}, Depth: len(stack)}
			for _, a := range t.Attr {
				k := a.Name.Local
				if a.Name.Space == nsRel || strings.HasSuffix(a.Name.Space, "/relationships") {
					k = "r:" + k
				}
				el.Attr[k] = a.Value
			}
			stack[len(stack)-1].Kids = append(stack[len(stack)-1].Kids, el)
			stack = append(stack, el)
		case xml.EndElement:
			stack = stack[:len(stack)-1]
		case xml.CharData:
			stack[len(stack)-1].Text += string(t)
		}
	}
	if len(root.Kids) != 1 {
		return nil, fmt.Errorf("%d root elements", len(root.Kids))
	}
	return root.Kids[0], nil
}

var cellRefRe = regexp.MustCompile(`^\$?([A-Z]{1,3})\$?([0-9]{1,7})$`)

func pkgCell(ref string) (col, row int, ok bool) {
	m := cellRefRe.FindStringSubmatch(ref)
	if m == nil {
		return 0, 0, false
	}
	for _, ch := range m[1] {
		col = col*26 + int(ch-'A') + 1
	}
	row, _ = strconv.Atoi(m[2])
	return col, row, col >= 1 && col <= 16384 && row >= 1 && row <= 1048576
}

func pkgRange(ref string) (c1, r1, c2, r2 int, ok bool) {
	p := strings.Split(ref, ":")
	if len(p) == 1 {
		p = append(p, p[0])
	}
	if len(p) != 2 {
		return
	}
	var ok1, ok2 bool
	c1, r1, ok1 = pkgCell(p[0])
	c2, r2, ok2 = pkgCell(p[1])
	return c1, r1, c2, r2, ok1 && ok2 && c1 <= c2 && r1 <= r2
}

// pkgCheck returns the list of structural problems of a package (empty = valid as far as checked)
func pkgCheck(data []byte) []string {
	var probs []string
	bad := func(f string, a ...interface{}) {
		if len(probs) < 40 {
			probs = append(probs, fmt.Sprintf(f, a...))
		}
	}
	zr, err := zip.NewReader(bytes.NewReader(data), int64(len(data)))
	if err != nil {
		return []string{"not a readable zip archive: " + err.Error()}
	}
	parts := map[string][]byte{}
	for _, f := range zr.File {
		name := strings.ReplaceAll(f.Name, "\\", "/")
		if _, dup := parts[strings.ToLower(name)]; dup {
			bad("entry name %q occurs more than once", f.Name)
		}
		rc, err := f.Open()
		if err != nil {
			bad("entry %q cannot be read: %v", f.Name, err)
			continue
		}
		b, err := io.ReadAll(rc)
		rc.Close()
		if err != nil {
			bad("entry %q cannot be inflated: %v", f.Name, err)
		}
		parts[strings.ToLower(name)] = b
		parts[name] = b
	}
	has := func(p string) bool { _, ok := parts[strings.ToLower(strings.TrimPrefix(p, "/"))]; return ok }

	trees := map[string]*pkgElem{}
	for _, f := range zr.File {
		n := strings.ReplaceAll(f.Name, "\\", "/")
		ext := strings.ToLower(path.Ext(n))
		if ext == ".xml" || ext == ".rels" || ext == ".vml" {
			t, err := pkgParse(parts[n])
			if err != nil {
				bad("part %s is not well-formed XML: %v", n, err)
				continue
			}
			trees[strings.ToLower(n)] = t
		}
	}
	tree := func(p string) *pkgElem { return trees[strings.ToLower(strings.TrimPrefix(p, "/"))] }
	// content types
	ct := tree("[Content_Types].xml")
	if ct == nil {
		bad("[Content_Types].xml is missing or malformed")
		return probs
	}
	defaults, overrides := map[string]string{}, map[string]string{}
	for _, d := range ct.find("Default") {
		defaults[strings.ToLower(d.Attr["Extension"])] = d.Attr["ContentType"]
	}
	for _, o := range ct.find("Override") {
		pn := strings.ToLower(strings.TrimPrefix(o.Attr["PartName"], "/"))
		if _, dup := overrides[pn]; dup {
			bad("[Content_Types].xml has two Override elements for %s", o.Attr["PartName"])
		}
		overrides[pn] = o.Attr["ContentType"]
		if !has(pn) {
			bad("[Content_Types].xml declares %s, which is not in the package", o.Attr["PartName"])
		}
	}
	for _, f := range zr.File {
		n := strings.ToLower(strings.ReplaceAll(f.Name, "\\", "/"))
		if n == "[content_types].xml" || strings.HasSuffix(n, "/") {
			continue
		}
		if _, ok := overrides[n]; ok {
			continue
		}
		if _, ok := defaults[strings.TrimPrefix(path.Ext(n), ".")]; !ok {
			bad("part %s has no content type (no Override and no Default for its extension)", f.Name)
		}
	}
	// relationships
	type rel struct{ id, typ, target, mode string }
	relsMemo := map[string]map[string]rel{}
	relsOf := func(source string) map[string]rel {
		if m, ok := relsMemo[source]; ok {
			return m
		}
		dir, base := path.Split(source)
		rp := dir + "_rels/" + base + ".rels"
		t := tree(rp)
		out := map[string]rel{}
		relsMemo[source] = out
		if t == nil {
			return out
		}
		for _, r := range t.find("Relationship") {
			id := r.Attr["Id"]
			if _, dup := out[id]; dup {
				bad("%s has two relationships with Id %s", rp, id)
			}
			tg := r.Attr["Target"]
			if r.Attr["TargetMode"] != "External" {
				if strings.HasPrefix(tg, "/") {
					tg = strings.TrimPrefix(tg, "/")
				} else {
					tg = path.Clean(dir + tg)
				}
				if !has(tg) {
					bad("%s: relationship %s (%s) points to %s, which is not in the package", rp, id, path.Base(r.Attr["Type"]), r.Attr["Target"])
				}
			}
			out[id] = rel{id, r.Attr["Type"], tg, r.Attr["TargetMode"]}
		}
		return out
	}
	for n := range trees {
		if strings.HasSuffix(n, ".rels") {
			dir := path.Dir(path.Dir(n))
			src := path.Join(dir, strings.TrimSuffix(path.Base(n), ".rels"))
			if dir == "." {
				src = strings.TrimSuffix(path.Base(n), ".rels")
			}
			if src != "" && src != "." && !has(src) {
				bad("%s belongs to %s, which is not in the package", n, src)
				continue
			}
			// every relationships part of the package (drawings, charts, comments, tables, pivot caches ...):
			// internal targets exist, ids unique; the source's own r:id / r:embed / r:link / r:pict references resolve
			rels := relsOf(src)
			if st := tree(src); st != nil && src != "" {
				st.walk(func(e *pkgElem) {
					for k, v := range e.Attr {
						if strings.HasPrefix(k, "r:") && v != "" {
							if _, ok := rels[v]; !ok {
								bad("%s: <%s %s=%q> has no relationship in %s", src, e.Name, k, v, n)
							}
						}
					}
				})
			}
		}
	}
	rootRels := relsOf("")
	wbPath := ""
	for _, r := range rootRels {
		if strings.HasSuffix(r.typ, "/officeDocument") {
			wbPath = r.target
		}
	}
	if wbPath == "" || tree(wbPath) == nil {
		bad("no workbook part reachable from _rels/.rels")
		return probs
	}
	wb := tree(wbPath)
	wbRels := relsOf(wbPath)
	// styles and shared strings
	nXf, nDxf, nSST := -1, -1, -1
	numFmts := map[string]bool{}
	for _, r := range wbRels {
		if strings.HasSuffix(r.typ, "/styles") && tree(r.target) != nil {
			st := tree(r.target)
			nXf, nDxf = 0, 0
			for _, x := range st.find("cellXfs", "xf") {
				nXf++
				_ = x
			}
			nDxf = len(st.find("dxfs", "dxf"))
			for _, nf := range st.find("numFmts", "numFmt") {
				numFmts[nf.Attr["numFmtId"]] = true
			}
			nFont, nFill, nBorder := len(st.find("fonts", "font")), len(st.find("fills", "fill")), len(st.find("borders", "border"))
			for i, x := range st.find("cellXfs", "xf") {
				chk := func(attr string, n int) {
					if v, ok := x.Attr[attr]; ok {
						if k, err := strconv.Atoi(v); err != nil || k < 0 || k >= n {
							bad("styles: cellXfs[%d] %s=%q is out of range (%d defined)", i, attr, v, n)
						}
					}
				}
				chk("fontId", nFont)
				chk("fillId", nFill)
				chk("borderId", nBorder)
				if v, ok := x.Attr["numFmtId"]; ok {
					if k, err := strconv.Atoi(v); err != nil || k < 0 || (k >= 164 && !numFmts[v]) {
						bad("styles: cellXfs[%d] numFmtId=%q is neither built-in nor defined in numFmts", i, v)
					}
				}
			}
		}
		if strings.HasSuffix(r.typ, "/sharedStrings") && tree(r.target) != nil {
			nSST = len(tree(r.target).find("si"))
		}
	}
	// sheets
	sheets := wb.find("sheets", "sheet")
	names, ids, rids := map[string]bool{}, map[string]bool{}, map[string]bool{}
	var sheetParts []string
	for _, s := range sheets {
		nm := s.Attr["name"]
		if names[strings.ToLower(nm)] {
			bad("workbook: sheet name %q is not unique", nm)
		}
		names[strings.ToLower(nm)] = true
		if nm == "" || len([]rune(nm)) > 31 || strings.ContainsAny(nm, ":\\/?*[]") || strings.HasPrefix(nm, "'") || strings.HasSuffix(nm, "'") {
			bad("workbook: sheet name %q is not a valid sheet name", nm)
		}
		if ids[s.Attr["sheetId"]] {
			bad("workbook: sheetId %s is not unique", s.Attr["sheetId"])
		}
		ids[s.Attr["sheetId"]] = true
		rid := s.Attr["r:id"]
		if rids[rid] {
			bad("workbook: two sheets use relationship %s", rid)
		}
		rids[rid] = true
		r, ok := wbRels[rid]
		if !ok {
			bad("workbook: sheet %q refers to relationship %s, which does not exist", nm, rid)
			sheetParts = append(sheetParts, "")
			continue
		}
		sheetParts = append(sheetParts, r.target)
	}
	if len(sheets) == 0 {
		bad("workbook has no sheets")
	}
	for _, r := range wbRels {
		if strings.HasSuffix(r.typ, "/worksheet") || strings.HasSuffix(r.typ, "/chartsheet") {
			n := 0
			for _, sp := range sheetParts {
				if sp == r.target {
					n++
				}
			}
			if n != 1 {
				bad("workbook: sheet part %s is used by %d sheets", r.target, n)
			}
		}
	}
	// defined names
	dnSeen := map[string]bool{}
	for _, dn := range wb.find("definedNames", "definedName") {
		k := strings.ToLower(dn.Attr["name"]) + "|" + dn.Attr["localSheetId"]
		if dnSeen[k] {
			bad("workbook: defined name %q is defined twice in one scope", dn.Attr["name"])
		}
		dnSeen[k] = true
		if ls, ok := dn.Attr["localSheetId"]; ok {
			if k, err := strconv.Atoi(ls); err != nil || k < 0 || k >= len(sheets) {
				bad("workbook: defined name %q has localSheetId %s but there are %d sheets", dn.Attr["name"], ls, len(sheets))
			}
		}
	}
	// worksheets
	formulaCells := map[int]map[string]bool{}
	tableNames := map[string]bool{}
	for si, sp := range sheetParts {
		ws := tree(sp)
		if ws == nil || ws.Name != "worksheet" {
			continue
		}
		formulaCells[si] = map[string]bool{}
		rels := relsOf(sp)
		lastRow := 0
		for _, row := range ws.find("sheetData", "row") {
			r, err := strconv.Atoi(row.Attr["r"])
			if err != nil || r < 1 || r > 1048576 {
				bad("%s: row r=%q is not a valid row number", sp, row.Attr["r"])
				continue
			}
			if r <= lastRow {
				bad("%s: row %d follows row %d (rows must be strictly ascending)", sp, r, lastRow)
			}
			lastRow = r
			lastCol := 0
			for _, c := range row.find("c") {
				col, cr, ok := pkgCell(c.Attr["r"])
				if !ok {
					bad("%s: cell reference %q is not valid", sp, c.Attr["r"])
					continue
				}
				if cr != r {
					bad("%s: cell %s is inside row %d", sp, c.Attr["r"], r)
				}
				if col <= lastCol {
					bad("%s: cell %s follows column %d in its row (cells must be strictly ascending)", sp, c.Attr["r"], lastCol)
				}
				lastCol = col
				if s, ok := c.Attr["s"]; ok && nXf >= 0 {
					if k, err := strconv.Atoi(s); err != nil || k < 0 || k >= nXf {
						bad("%s: cell %s has style %q but there are %d cell formats", sp, c.Attr["r"], s, nXf)
					}
				}
				if c.Attr["t"] == "s" {
					vs := c.find("v")
					if len(vs) == 1 {
						if k, err := strconv.Atoi(strings.TrimSpace(vs[0].Text)); err != nil || k < 0 || k >= nSST {
							bad("%s: cell %s refers to shared string %q but there are %d", sp, c.Attr["r"], vs[0].Text, nSST)
						}
					}
				}
				if len(c.find("f")) > 0 {
					formulaCells[si][c.Attr["r"]] = true
				}
			}
		}
		// merged ranges
		type box struct{ c1, r1, c2, r2 int }
		var boxes []box
		for _, m := range ws.find("mergeCells", "mergeCell") {
			c1, r1, c2, r2, ok := pkgRange(m.Attr["ref"])
			if !ok {
				bad("%s: merged range %q is not a valid range", sp, m.Attr["ref"])
				continue
			}
			for _, b := range boxes {
				if c1 <= b.c2 && b.c1 <= c2 && r1 <= b.r2 && b.r1 <= r2 {
					bad("%s: merged range %s overlaps another merged range", sp, m.Attr["ref"])
				}
			}
			boxes = append(boxes, box{c1, r1, c2, r2})
		}
		if mc := ws.find("mergeCells"); len(mc) == 1 {
			if n, ok := mc[0].Attr["count"]; ok && n != strconv.Itoa(len(boxes)) && len(boxes) > 0 {
				bad("%s: mergeCells count=%s but %d ranges listed", sp, n, len(boxes))
			}
		}
		// r:id users
		ws.walk(func(e *pkgElem) {
			if id, ok := e.Attr["r:id"]; ok {
				if _, ok := rels[id]; !ok {
					bad("%s: <%s r:id=%q> has no such relationship", sp, e.Name, id)
				}
			}
		})
		for _, cf := range ws.find("conditionalFormatting") {
			for _, rule := range cf.find("cfRule") {
				if d, ok := rule.Attr["dxfId"]; ok && nDxf >= 0 {
					if k, err := strconv.Atoi(d); err != nil || k < 0 || k >= nDxf {
						bad("%s: conditional format refers to differential style %q but there are %d", sp, d, nDxf)
					}
				}
			}
			for _, r := range strings.Fields(cf.Attr["sqref"]) {
				if _, _, _, _, ok := pkgRange(r); !ok {
					bad("%s: conditional format range %q is not valid", sp, r)
				}
			}
		}
		for _, dv := range ws.find("dataValidations", "dataValidation") {
			for _, r := range strings.Fields(dv.Attr["sqref"]) {
				if _, _, _, _, ok := pkgRange(r); !ok {
					bad("%s: data validation range %q is not valid", sp, r)
				}
			}
		}
		for _, h := range ws.find("hyperlinks", "hyperlink") {
			if _, _, _, _, ok := pkgRange(h.Attr["ref"]); !ok {
				bad("%s: hyperlink ref %q is not valid", sp, h.Attr["ref"])
			}
		}
		for _, r := range rels {
			if strings.HasSuffix(r.typ, "/table") && tree(r.target) != nil {
				t := tree(r.target)
				if _, _, _, _, ok := pkgRange(t.Attr["ref"]); !ok {
					bad("%s: table ref %q is not valid", r.target, t.Attr["ref"])
				}
				nm := strings.ToLower(t.Attr["name"])
				if tableNames[nm] {
					bad("%s: table name %q is not unique", r.target, t.Attr["name"])
				}
				tableNames[nm] = true
			}
		}
	}
	// calc chain
	for _, r := range wbRels {
		if strings.HasSuffix(r.typ, "/calcChain") && tree(r.target) != nil {
			cur := 0
			for _, c := range tree(r.target).find("c") {
				if i, ok := c.Attr["i"]; ok {
					cur, _ = strconv.Atoi(i)
				}
				found := false
				for si, s := range sheets {
					if s.Attr["sheetId"] == strconv.Itoa(cur) {
						found = true
						if fc := formulaCells[si]; fc != nil && !fc[c.Attr["r"]] {
							bad("calcChain lists %s on sheet id %d, which holds no formula", c.Attr["r"], cur)
						}
					}
				}
				if !found {
					bad("calcChain refers to sheet id %d, which does not exist", cur)
				}
			}
		}
	}
	sort.Strings(probs)
	return probs
}
