package main

import (
	"bytes"
	"crypto/aes"
	"crypto/sha1"
	"encoding/binary"
	"fmt"
	"unicode/utf16"

	"github.com/xuri/excelize/v2"
)

// Independent password verifier for ECMA-376 standard encryption, written from MS-OFFCRYPTO 2.3.4.5 - 2.3.4.9 (shares
// no code with excelize): key = SHA-1 over salt and the UTF-16LE password, 50000 iterations, block 0, the 0x36/0x5C
// derivation, truncated to the key size; the decrypted verifier must hash to the decrypted verifier hash.
func stdVerify(info []byte, password string) (bool, string) {
	if len(info) < 12 {
		return false, "EncryptionInfo shorter than its fixed header"
	}
	if binary.LittleEndian.Uint16(info[2:]) != 2 {
		return false, fmt.Sprintf("EncryptionInfo version %d.%d is not standard encryption", binary.LittleEndian.Uint16(info[0:]), binary.LittleEndian.Uint16(info[2:]))
	}
	hs := int(binary.LittleEndian.Uint32(info[8:]))
	if 12+hs+4+16+16+4+32 > len(info) || hs < 32 {
		return false, "EncryptionInfo too short for header and verifier"
	}
	hdr := info[12 : 12+hs]
	keyBits := int(binary.LittleEndian.Uint32(hdr[16:]))
	v := info[12+hs:]
	saltSize := int(binary.LittleEndian.Uint32(v[0:]))
	if saltSize != 16 || keyBits%8 != 0 || keyBits < 128 || keyBits > 256 {
		return false, fmt.Sprintf("salt size %d, key bits %d", saltSize, keyBits)
	}
	salt, encVerifier := v[4:20], v[20:36]
	encHash := v[40:72]
	var pw []byte
	for _, u := range utf16.Encode([]rune(password)) {
		pw = append(pw, byte(u), byte(u>>8))
	}
	h := sha1.Sum(append(append([]byte{}, salt...), pw...))
	for i := 0; i < 50000; i++ {
		var it [4]byte
		binary.LittleEndian.PutUint32(it[:], uint32(i))
		h = sha1.Sum(append(it[:], h[:]...))
	}
	h = sha1.Sum(append(h[:], 0, 0, 0, 0))
	derive := func(pad byte) []byte {
		buf := bytes.Repeat([]byte{pad}, 64)
		for i := range h {
			buf[i] ^= h[i]
		}
		x := sha1.Sum(buf)
		return x[:]
	}
	key := append(derive(0x36), derive(0x5C)...)[:keyBits/8]
	blk, err := aes.NewCipher(key)
	if err != nil {
		return false, err.Error()
	}
	verifier := make([]byte, 16)
	blk.Decrypt(verifier, encVerifier)
	hash := make([]byte, 32)
	blk.Decrypt(hash[:16], encHash[:16])
	blk.Decrypt(hash[16:], encHash[16:])
	want := sha1.Sum(verifier)
	return bytes.Equal(want[:], hash[:20]), ""
}

// passwords that differ from pw in ways an encoding slip would hide: a character above U+FFFF cut to 16 bits or to
// its surrogates' halves, a character cut to 8 bits, case, a trailing NUL or space, the first 15 characters
func nearMissPasswords(pw string) []string {
	rs := []rune(pw)
	seen := map[string]bool{pw: true}
	var out []string
	add := func(s string) {
		if !seen[s] {
			seen[s] = true
			out = append(out, s)
		}
	}
	for i, r := range rs {
		alt := func(x rune) {
			c := append([]rune{}, rs...)
			c[i] = x
			add(string(c))
		}
		if r > 0xFFFF {
			alt(r & 0xFFFF)
			hi, lo := utf16.EncodeRune(r)
			alt(hi & 0xFFFF)
			alt(lo & 0xFFFF)
			alt(0xFFFD)
		}
		if r > 0xFF {
			alt(r & 0xFF)
			alt(r >> 8)
		}
		if r >= 'a' && r <= 'z' {
			alt(r - 32)
		}
	}
	add(pw + "\x00")
	add(pw + " ")
	if len(rs) > 15 {
		add(string(rs[:15]))
	}
	if len(rs) > 1 {
		add(string(rs[:len(rs)-1]))
	}
	return out
}

// the password gate, judged independently: the EncryptionInfo written for a password must verify under the
// independent derivation with that password, and with none of its near misses; excelize must refuse the near misses
func (c *Ctx) c13Gate() {
	for _, pw := range []string{"p", "Secret1", "пароль", "pw\U0001F600", "\U0001F511key\U00010348", "café", "é", "日本語パスワード", "a b\tc", "ÿĀＡ"} {
		desc := map[string]interface{}{"password": pw}
		c.guard("C13_no_panic", desc, func() {
			raw, err := excelize.Encrypt(pattern(600, 7), &excelize.Options{Password: pw})
			if err != nil {
				c.Fail("oracle", "C13_open_gate", desc, "Encrypt failed: "+err.Error(), "")
				return
			}
			c.Count("gate", true, pw)
			doc := cfbRead(raw)
			info := doc.streams["EncryptionInfo"]
			ok, why := stdVerify(info, pw)
			if why != "" {
				c.Fail("oracle", "C13_open_gate", desc, "independent verifier cannot read the EncryptionInfo stream: "+why, "")
				return
			}
			if !ok {
				c.Fail("oracle", "C13_open_gate", desc, fmt.Sprintf("the verifier written for the password %q does not verify under the ECMA-376 key derivation (UTF-16LE password, SHA-1, 50000 iterations): Office would refuse the right password", pw), "")
			}
			if out, err := excelize.Decrypt(raw, &excelize.Options{Password: pw}); err != nil || !bytes.Equal(out, pattern(600, 7)) {
				c.Fail("oracle", "C13_crypt_roundtrip", desc, fmt.Sprintf("Decrypt with the right password: err %v", err), "")
			}
			for _, wrong := range nearMissPasswords(pw) {
				d2 := map[string]interface{}{"password": pw, "tried": wrong, "tried_runes": fmt.Sprintf("%U", []rune(wrong))}
				if ok, _ := stdVerify(info, wrong); ok {
					c.Fail("oracle", "C13_open_gate", d2, fmt.Sprintf("the verifier written for %q also verifies with the different password %q", pw, wrong), "")
				}
				// (standard decryption does not check the verifier: with a wrong password it returns noise, which is not
				// content; what must never come back is the package)
				if out, err := excelize.Decrypt(raw, &excelize.Options{Password: wrong}); err == nil && bytes.Equal(out, pattern(600, 7)) {
					c.Fail("oracle", "C13_open_gate", d2, fmt.Sprintf("a package protected with %q (%U) decrypts to its content with the different password %q (%U)", pw, []rune(pw), wrong, []rune(wrong)), "")
				}
			}
		})
	}
}
