package main

import (
	"bytes"
	"encoding/hex"
	"fmt"
	"math"
	"strconv"
	"strings"
	"time"

	"github.com/xuri/excelize/v2"
)

// sop: one operation of a sheet history (shared by C01-C04, C06).
type sop struct {
	K    string  `json:"k"` // S set value, F formula, Y cell style, R row style, M merge, W save, O save+reopen
	Col  int     `json:"col,omitempty"`
	Row  int     `json:"row,omitempty"`
	Col2 int     `json:"col2,omitempty"`
	Row2 int     `json:"row2,omitempty"`
	PK   string  `json:"pk,omitempty"` // payload kind: int, float, str, bool, nil, bytes, uint, dur, time
	I    int64   `json:"i,omitempty"`
	F    float64 `json:"f,omitempty"`
	S    string  `json:"s,omitempty"`
	B    bool    `json:"b,omitempty"`
	St   int     `json:"style,omitempty"` // index into the harness style table (0 = none)
	Name string  `json:"name,omitempty"`  // spelling used for the cell name ("" = canonical)
}

func (o sop) cell() string {
	if o.Name != "" {
		return o.Name
	}
	n, _ := excelize.CoordinatesToCellName(o.Col, o.Row)
	return n
}

// model token for an op; ok=false when the model does not cover the op
func (o sop) token(styles []int) (string, bool) {
	switch o.K {
	case "S":
		t, v := 0, ""
		switch o.PK {
		case "int":
			v = strconv.FormatInt(o.I, 10)
		case "uint":
			v = strconv.FormatUint(uint64(o.I), 10)
		case "float":
			if math.IsNaN(o.F) || math.IsInf(o.F, 0) {
				return "", false
			}
			v = strconv.FormatFloat(o.F, 'f', -1, 64)
		case "str", "bytes":
			t, v = 2, o.S
		case "bool":
			t, v = 1, "0"
			if o.B {
				v = "1"
			}
		case "nil":
		default:
			return "", false
		}
		return fmt.Sprintf("S,%d,%d,%d,x%s", o.Col, o.Row, t, hex.EncodeToString([]byte(v))), true
	case "F":
		return fmt.Sprintf("F,%d,%d,x%s", o.Col, o.Row, hex.EncodeToString([]byte(o.S))), true
	case "Y":
		return fmt.Sprintf("Y,%d,%d,%d", o.Col, o.Row, styles[o.St]), true
	case "R":
		return fmt.Sprintf("R,%d,%d", o.Row, styles[o.St]), true
	case "CS":
		return fmt.Sprintf("Z,%d,%d", o.Col, styles[o.St]), true
	case "M":
		return fmt.Sprintf("M,%d,%d,%d,%d", o.Col, o.Row, o.Col2, o.Row2), true
	case "W", "O":
		return "W", true
	}
	return "", false
}

// apply executes the op on the implementation; "O" returns a reopened file.
func (o sop) apply(f *excelize.File, sheet string, styles []int) (*excelize.File, error) {
	var err error
	switch o.K {
	case "S":
		var v interface{}
		switch o.PK {
		case "int":
			v = o.I
		case "uint":
			v = uint64(o.I)
		case "float":
			v = o.F
		case "str":
			v = o.S
		case "bytes":
			v = []byte(o.S)
		case "bool":
			v = o.B
		case "nil":
			v = nil
		case "dur":
			v = time.Duration(o.I)
		case "time":
			v = time.Unix(o.I, 0).UTC()
		}
		err = f.SetCellValue(sheet, o.cell(), v)
	case "F":
		err = f.SetCellFormula(sheet, o.cell(), o.S)
	case "Y":
		err = f.SetCellStyle(sheet, o.cell(), o.cell(), styles[o.St])
	case "R":
		err = f.SetRowStyle(sheet, o.Row, o.Row, styles[o.St])
	case "M":
		a, _ := excelize.CoordinatesToCellName(o.Col, o.Row)
		b, _ := excelize.CoordinatesToCellName(o.Col2, o.Row2)
		err = f.MergeCell(sheet, a, b)
	case "H":
		err = f.SetRowHeight(sheet, o.Row, o.F)
	case "V":
		err = f.SetRowVisible(sheet, o.Row, o.B)
	case "CW":
		cn, _ := excelize.ColumnNumberToName(o.Col)
		err = f.SetColWidth(sheet, cn, cn, o.F)
	case "CS":
		cn, _ := excelize.ColumnNumberToName(o.Col)
		err = f.SetColStyle(sheet, cn, styles[o.St])
	case "CV":
		cn, _ := excelize.ColumnNumberToName(o.Col)
		err = f.SetColVisible(sheet, cn, o.B)
	case "CO":
		cn, _ := excelize.ColumnNumberToName(o.Col)
		err = f.SetColOutlineLevel(sheet, cn, uint8(o.I))
	case "RO":
		err = f.SetRowOutlineLevel(sheet, o.Row, uint8(o.I))
	case "L":
		if o.B {
			err = f.SetCellHyperLink(sheet, o.cell(), o.S, "External")
		} else {
			err = f.SetCellHyperLink(sheet, o.cell(), "Sheet1!A1", "Location")
		}
	case "T":
		err = f.SetCellRichText(sheet, o.cell(), []excelize.RichTextRun{{Text: o.S, Font: &excelize.Font{Bold: true}}, {Text: " tail"}})
	case "D":
		err = f.SetDefinedName(&excelize.DefinedName{Name: o.S, RefersTo: sheet + "!$A$1:$B$2", Scope: sheet})
	case "W":
		_, err = f.WriteToBuffer()
	case "O":
		var buf *bytes.Buffer
		buf, err = f.WriteToBuffer()
		if err != nil {
			return f, err
		}
		g, err2 := excelize.OpenReader(bytes.NewReader(buf.Bytes()))
		if err2 != nil {
			return f, err2
		}
		f.Close()
		return g, nil
	}
	return f, err
}

var cellTypeCode = map[excelize.CellType]int{
	excelize.CellTypeUnset: 0, excelize.CellTypeBool: 1, excelize.CellTypeSharedString: 2, excelize.CellTypeFormula: 3,
	excelize.CellTypeInlineString: 4, excelize.CellTypeDate: 5, excelize.CellTypeError: 6, excelize.CellTypeNumber: 7,
}

// observeWindow renders the window in the model's syntax (t:xv:xf|-:style per cell, row-major).
func observeWindow(f *excelize.File, sheet string, w, h int) (string, error) {
	return observeWindowAt(f, sheet, 1, 1, w, h)
}

func observeWindowAt(f *excelize.File, sheet string, c0, r0, w, h int) (string, error) {
	var sb strings.Builder
	for r := r0; r < r0+h; r++ {
		for c := c0; c < c0+w; c++ {
			name, _ := excelize.CoordinatesToCellName(c, r)
			v, err := f.GetCellValue(sheet, name, excelize.Options{RawCellValue: true})
			if err != nil {
				return "", err
			}
			t, err := f.GetCellType(sheet, name)
			if err != nil {
				return "", err
			}
			fm, err := f.GetCellFormula(sheet, name)
			if err != nil {
				return "", err
			}
			st, err := f.GetCellStyle(sheet, name)
			if err != nil {
				return "", err
			}
			if sb.Len() > 0 {
				sb.WriteByte(' ')
			}
			fs := "-"
			if fm != "" {
				fs = "x" + hex.EncodeToString([]byte(fm))
				v = "" // the cached value of a formula cell is not part of the compared projection
			}
			fmt.Fprintf(&sb, "%d:x%s:%s:%d", cellTypeCode[t], hex.EncodeToString([]byte(v)), fs, st)
		}
	}
	return sb.String(), nil
}

// fullObservation: everything the getters show for the window (formatted values, hyperlinks, merges, ...)
func fullObservation(f *excelize.File, sheet string, w, h int) string {
	var sb strings.Builder
	win, err := observeWindow(f, sheet, w, h)
	sb.WriteString(win)
	if err != nil {
		sb.WriteString("ERR:" + err.Error())
	}
	for r := 1; r <= h; r++ {
		for c := 1; c <= w; c++ {
			name, _ := excelize.CoordinatesToCellName(c, r)
			v, _ := f.GetCellValue(sheet, name)
			ok, link, _ := f.GetCellHyperLink(sheet, name)
			rt, _ := f.GetCellRichText(sheet, name)
			fmt.Fprintf(&sb, "|%q,%v,%q,%d", v, ok, link, len(rt))
		}
	}
	mcs, _ := f.GetMergeCells(sheet)
	for _, m := range mcs {
		fmt.Fprintf(&sb, "|M%s=%q", m.GetStartAxis()+":"+m.GetEndAxis(), m.GetCellValue())
	}
	// the bulk readers, exactly as they answer (lengths of rows and columns included)
	if rows, err := f.GetRows(sheet); err == nil {
		fmt.Fprintf(&sb, "|rows%q", rows)
	}
	if cols, err := f.GetCols(sheet); err == nil {
		fmt.Fprintf(&sb, "|cols%q", cols)
	}
	for r := 1; r <= h; r++ {
		ht, _ := f.GetRowHeight(sheet, r)
		vis, _ := f.GetRowVisible(sheet, r)
		ol, _ := f.GetRowOutlineLevel(sheet, r)
		fmt.Fprintf(&sb, "|r%d:%v,%v,%d", r, ht, vis, ol)
	}
	for c := 1; c <= w; c++ {
		cn, _ := excelize.ColumnNumberToName(c)
		wd, _ := f.GetColWidth(sheet, cn)
		vis, _ := f.GetColVisible(sheet, cn)
		st, _ := f.GetColStyle(sheet, cn)
		ol, _ := f.GetColOutlineLevel(sheet, cn)
		fmt.Fprintf(&sb, "|c%s:%v,%v,%d,%d", cn, wd, vis, st, ol)
	}
	return sb.String()
}

// harness style table: index 0 = no style, 1.. = registered ids (registered in a fixed order)
func registerStyles(f *excelize.File) []int {
	ids := []int{0}
	defs := []*excelize.Style{
		{Font: &excelize.Font{Bold: true}},
		{Fill: excelize.Fill{Type: "pattern", Pattern: 1, Color: []string{"FF0000"}}},
		{NumFmt: 2},
		{Alignment: &excelize.Alignment{Horizontal: "center"}},
	}
	for _, d := range defs {
		id, err := f.NewStyle(d)
		if err != nil {
			id = 0
		}
		ids = append(ids, id)
	}
	return ids
}
