package main

import (
	"io/fs"
	"runtime/debug"
	"archive/zip"
	"bytes"
	"encoding/json"
	"fmt"
	"io"
	"os"
	"os/exec"
	"path/filepath"
	"regexp"
	"sort"
	"strconv"
	"strings"
	"syscall"
	"time"

	"github.com/xuri/excelize/v2"
)

func init() {
	props["C14"] = propFn{run: runC14, replay: func(c *Ctx, f Failure) { runC14(c) }}
	workers["c14"] = c14Worker
}

// ---- corpus ----
func c14Corpus() map[string][]byte {
	out := map[string][]byte{}
	f := excelize.NewFile()
	f.NewSheet("Data")
	st, _ := f.NewStyle(&excelize.Style{Font: &excelize.Font{Bold: true}, NumFmt: 2})
	cf := "0.00%"
	st2, _ := f.NewStyle(&excelize.Style{CustomNumFmt: &cf})
	for r := 1; r <= 8; r++ {
		f.SetCellValue("Sheet1", "A"+strconv.Itoa(r), fmt.Sprintf("text %d", r%3))
		f.SetCellValue("Sheet1", "B"+strconv.Itoa(r), float64(r)*1.5)
		f.SetCellFormula("Sheet1", "C"+strconv.Itoa(r), fmt.Sprintf("SUM(B1:B%d)", r))
		f.SetCellValue("Data", "A"+strconv.Itoa(r), r%2 == 0)
	}
	f.SetCellStyle("Sheet1", "B1", "B4", st)
	f.SetCellStyle("Sheet1", "B5", "B8", st2)
	f.MergeCell("Sheet1", "E1", "F2")
	f.SetCellValue("Sheet1", "E1", "merged")
	f.SetCellValue("Sheet1", "D1", 43831.5)
	dst, _ := f.NewStyle(&excelize.Style{NumFmt: 22})
	f.SetCellStyle("Sheet1", "D1", "D1", dst)
	f.SetDefinedName(&excelize.DefinedName{Name: "total", RefersTo: "Sheet1!$B$1:$B$8"})
	f.SetCellFormula("Data", "C1", "SUM(total)")
	f.AddComment("Sheet1", excelize.Comment{Cell: "A1", Author: "a", Paragraph: []excelize.RichTextRun{{Text: "note"}}})
	f.AddTable("Data", &excelize.Table{Range: "E1:F4", Name: "T1"})
	dv := excelize.NewDataValidation(true)
	dv.SetSqref("G1:G5")
	dv.SetDropList([]string{"a", "b"})
	f.AddDataValidation("Sheet1", dv)
	f.SetCellHyperLink("Sheet1", "A2", "https://example.com", "External")
	f.SetColWidth("Sheet1", "B", "C", 18)
	f.SetRowHeight("Sheet1", 3, 30)
	f.SetCellRichText("Sheet1", "A9", []excelize.RichTextRun{{Text: "rich ", Font: &excelize.Font{Bold: true}}, {Text: "text"}})
	var buf bytes.Buffer
	f.Write(&buf)
	out["features"] = append([]byte{}, buf.Bytes()...)
	buf.Reset()
	f.Write(&buf, excelize.Options{Password: "pw"})
	out["encrypted"] = append([]byte{}, buf.Bytes()...)
	f.Close()
	// stream-written sheet: inline strings, many rows
	g := excelize.NewFile()
	sw, _ := g.NewStreamWriter("Sheet1")
	for r := 1; r <= 40; r++ {
		sw.SetRow("A"+strconv.Itoa(r), []interface{}{fmt.Sprintf("inline %d", r), r, excelize.Cell{Formula: "B" + strconv.Itoa(r) + "*2"}})
	}
	sw.Flush()
	buf.Reset()
	g.Write(&buf)
	out["stream"] = append([]byte{}, buf.Bytes()...)
	g.Close()
	return out
}

// ---- mutants ----
type c14mutant struct {
	Base string `json:"base"`
	Kind string `json:"kind"`
	Part string `json:"part,omitempty"`
	At   int    `json:"at,omitempty"`
	Val  string `json:"val,omitempty"`
	N    int    `json:"n,omitempty"`
}

func (m c14mutant) String() string {
	return fmt.Sprintf("%s/%s %s at=%d n=%d val=%q", m.Base, m.Kind, m.Part, m.At, m.N, m.Val)
}

type zipEntry struct {
	name string
	data []byte
}

func c14Unzip(data []byte) []zipEntry {
	zr, err := zip.NewReader(bytes.NewReader(data), int64(len(data)))
	if err != nil {
		return nil
	}
	var out []zipEntry
	for _, f := range zr.File {
		rc, _ := f.Open()
		b, _ := io.ReadAll(rc)
		rc.Close()
		out = append(out, zipEntry{f.Name, b})
	}
	return out
}

func c14Zip(es []zipEntry) []byte {
	var buf bytes.Buffer
	zw := zip.NewWriter(&buf)
	for _, e := range es {
		w, _ := zw.Create(e.name)
		w.Write(e.data)
	}
	zw.Close()
	return buf.Bytes()
}

var c14attrRe = regexp.MustCompile(`\s([A-Za-z:]+)="([^"]*)"`)
var c14textRe = regexp.MustCompile(`>([^<>]+)</(v|f|t|definedName|formula1)>`)
var c14elemRe = regexp.MustCompile(`<([A-Za-z:]+)(\s[^<>]*)?/>|<([A-Za-z:]+)(\s[^<>]*)?>[^<>]*</([A-Za-z:]+)>`)

var c14cellRe = regexp.MustCompile(`<c r="([^"]*)"`)
// hostile references, and valid references in the wrong place (out of order, duplicated, far to the right)
var c14cellRefs = []string{"ZZZZZZZZZZZZZZ1", "AAAAAAAAAAAAAAAAAAAAAAAA7", "A18446744073709551617", "XFE1", "A0", "1A", "A-1", "", "A1", "ZZ1", "B2"}

var c14boundary = []string{"", "0", "-1", "1", "2147483648", "99999999999", "18446744073709551616", "1e309", "NaN", "A0", "XFE1048577", "A1:", "$", "&lt;", "true", strings.Repeat("9", 40), "ZZZZZZZZZZZZZZ1", "AAAAAAAAAAAAAAAAAAAAAAAA7", "A18446744073709551617", "ZZZZ1:ZZZZZZZZZZZZZZZZ2"}

// applies a mutant to the base package; ok=false when the mutant does not exist (index beyond the space)
func c14Apply(base []byte, m c14mutant) ([]byte, bool) {
	switch m.Kind {
	case "bitflip":
		if m.At >= len(base) {
			return nil, false
		}
		b := append([]byte{}, base...)
		b[m.At] ^= byte(1 << uint(m.N%8))
		return b, true
	case "cut":
		if m.At >= len(base) {
			return nil, false
		}
		return append([]byte{}, base[:m.At]...), true
	case "garbage":
		return []byte(m.Val), true
	}
	es := c14Unzip(base)
	if es == nil {
		return nil, false
	}
	idx := -1
	for i, e := range es {
		if e.name == m.Part {
			idx = i
		}
	}
	if idx < 0 {
		return nil, false
	}
	d := es[idx].data
	switch m.Kind {
	case "part-remove":
		es = append(es[:idx], es[idx+1:]...)
	case "part-empty":
		es[idx].data = nil
	case "part-duplicate":
		es = append(es, es[idx])
	case "part-rename":
		es[idx].name = m.Val
	case "part-truncate":
		if m.At >= len(d) {
			return nil, false
		}
		es[idx].data = d[:m.At]
	case "attr":
		locs := c14attrRe.FindAllSubmatchIndex(d, -1)
		if m.At >= len(locs) {
			return nil, false
		}
		l := locs[m.At]
		es[idx].data = append(append(append([]byte{}, d[:l[4]]...), []byte(m.Val)...), d[l[5]:]...)
	case "cellref":
		locs := c14cellRe.FindAllSubmatchIndex(d, -1)
		if m.At >= len(locs) {
			return nil, false
		}
		l := locs[m.At]
		es[idx].data = append(append(append([]byte{}, d[:l[2]]...), []byte(m.Val)...), d[l[3]:]...)
	case "attr-remove":
		locs := c14attrRe.FindAllSubmatchIndex(d, -1)
		if m.At >= len(locs) {
			return nil, false
		}
		l := locs[m.At]
		es[idx].data = append(append([]byte{}, d[:l[0]]...), d[l[1]:]...)
	case "text":
		locs := c14textRe.FindAllSubmatchIndex(d, -1)
		if m.At >= len(locs) {
			return nil, false
		}
		l := locs[m.At]
		es[idx].data = append(append(append([]byte{}, d[:l[2]]...), []byte(m.Val)...), d[l[3]:]...)
	case "elem-remove", "elem-duplicate":
		locs := c14elemRe.FindAllIndex(d, -1)
		if m.At >= len(locs) {
			return nil, false
		}
		l := locs[m.At]
		if m.Kind == "elem-remove" {
			es[idx].data = append(append([]byte{}, d[:l[0]]...), d[l[1]:]...)
		} else {
			es[idx].data = append(append(append([]byte{}, d[:l[1]]...), d[l[0]:l[1]]...), d[l[1]:]...)
		}
	default:
		return nil, false
	}
	return c14Zip(es), true
}

// the enumerated mutation space of one base package (stride thins it for the quick tier)
func c14Space(name string, base []byte, stride int) []c14mutant {
	var out []c14mutant
	if name == "encrypted" {
		// compound-file level: header, FAT/directory region, stream bodies
		for at := 0; at < len(base); at += 37 * stride {
			out = append(out, c14mutant{Base: name, Kind: "bitflip", At: at, N: at % 8})
		}
		for at := 0; at < 1536 && at < len(base); at += 1 + stride/4 {
			out = append(out, c14mutant{Base: name, Kind: "bitflip", At: at, N: 7})
		}
		for _, at := range []int{0, 8, 76, 511, 512, 513, 1024, 4096, len(base) / 2, len(base) - 512, len(base) - 1} {
			if at > 0 && at < len(base) {
				out = append(out, c14mutant{Base: name, Kind: "cut", At: at})
			}
		}
		return out
	}
	for at := 0; at < len(base); at += 211 * stride {
		out = append(out, c14mutant{Base: name, Kind: "bitflip", At: at, N: at % 8})
	}
	for _, at := range []int{1, 4, 30, len(base) / 3, len(base) - 22, len(base) - 1} {
		out = append(out, c14mutant{Base: name, Kind: "cut", At: at})
	}
	for _, g := range []string{"", "PK", "PK\x03\x04", "\xD0\xCF\x11\xE0\xA1\xB1\x1A\xE1", strings.Repeat("\x00", 600), "<?xml version=\"1.0\"?><a/>"} {
		out = append(out, c14mutant{Base: name, Kind: "garbage", Val: g})
	}
	for _, e := range c14Unzip(base) {
		out = append(out, c14mutant{Base: name, Kind: "part-remove", Part: e.name}, c14mutant{Base: name, Kind: "part-empty", Part: e.name}, c14mutant{Base: name, Kind: "part-duplicate", Part: e.name},
			c14mutant{Base: name, Kind: "part-rename", Part: e.name, Val: "../" + e.name}, c14mutant{Base: name, Kind: "part-rename", Part: e.name, Val: strings.ToUpper(e.name)})
		if !strings.HasSuffix(e.name, ".xml") && !strings.HasSuffix(e.name, ".rels") && !strings.HasSuffix(e.name, ".vml") {
			continue
		}
		step := len(e.data)/(24/minInt(stride, 4)) + 1
		for at := 1; at < len(e.data); at += step {
			out = append(out, c14mutant{Base: name, Kind: "part-truncate", Part: e.name, At: at})
		}
		interesting := strings.Contains(e.name, "sheet") || strings.Contains(e.name, "workbook") || strings.Contains(e.name, "styles") || strings.Contains(e.name, "sharedStrings") || strings.Contains(e.name, "Content_Types") || strings.Contains(e.name, "rels") || strings.Contains(e.name, "table") || strings.Contains(e.name, "comments")
		if !interesting {
			continue
		}
		// every cell reference x hostile references (never thinned: a cell's position in its row matters)
		if strings.Contains(e.name, "worksheets/sheet") {
			nCells := len(c14cellRe.FindAllIndex(e.data, -1))
			for a := 0; a < nCells; a++ {
				for _, v := range c14cellRefs {
					out = append(out, c14mutant{Base: name, Kind: "cellref", Part: e.name, At: a, Val: v})
				}
			}
		}
		nAttr := len(c14attrRe.FindAllIndex(e.data, -1))
		for a := 0; a < nAttr; a += stride {
			for bi, v := range c14boundary {
				if stride > 1 && (a/stride+bi)%4 != 0 {
					continue
				}
				out = append(out, c14mutant{Base: name, Kind: "attr", Part: e.name, At: a, Val: v})
			}
			out = append(out, c14mutant{Base: name, Kind: "attr-remove", Part: e.name, At: a})
		}
		nText := len(c14textRe.FindAllIndex(e.data, -1))
		for a := 0; a < nText; a += stride {
			for bi, v := range c14boundary {
				if stride > 1 && (a/stride+bi)%4 != 0 {
					continue
				}
				out = append(out, c14mutant{Base: name, Kind: "text", Part: e.name, At: a, Val: v})
			}
		}
		nElem := len(c14elemRe.FindAllIndex(e.data, -1))
		for a := 0; a < nElem; a += stride {
			out = append(out, c14mutant{Base: name, Kind: "elem-remove", Part: e.name, At: a}, c14mutant{Base: name, Kind: "elem-duplicate", Part: e.name, At: a})
		}
	}
	return out
}

func minInt(a, b int) int {
	if a < b {
		return a
	}
	return b
}

// ---- battery ----
func c14Battery(data []byte, password string) (panics []string) {
	try := func(what string, fn func()) {
		defer func() {
			if r := recover(); r != nil {
				where := ""
				for _, ln := range strings.Split(string(debug.Stack()), "\n") {
					if strings.Contains(ln, "/repo/") && !strings.Contains(ln, "verif_hooks") {
						where = " at " + strings.TrimSpace(strings.Split(ln, " +")[0])
						break
					}
				}
				panics = append(panics, fmt.Sprintf("%s: %v%s", what, r, where))
			}
		}()
		fn()
	}
	var f *excelize.File
	try("OpenReader", func() {
		g, err := excelize.OpenReader(bytes.NewReader(data), excelize.Options{Password: password})
		if err == nil {
			f = g
		}
	})
	if f == nil {
		return
	}
	defer func() { try("Close", func() { f.Close() }) }()
	var sheets []string
	try("GetSheetList", func() { sheets = f.GetSheetList() })
	if len(sheets) > 6 {
		sheets = sheets[:6]
	}
	for _, s := range sheets {
		s := s
		try("GetRows", func() { f.GetRows(s) })
		try("Rows", func() {
			rows, err := f.Rows(s)
			if err != nil {
				return
			}
			n := 0
			for rows.Next() && n < 5000 {
				rows.Columns()
				n++
			}
			rows.Close()
		})
		try("GetCols", func() { f.GetCols(s) })
		for _, cell := range []string{"A1", "B2", "C3", "D1", "E1", "F2", "A9"} {
			cell := cell
			try("GetCellValue", func() { f.GetCellValue(s, cell) })
			try("GetCellStyle+GetStyle", func() {
				if id, err := f.GetCellStyle(s, cell); err == nil {
					f.GetStyle(id)
				}
			})
			try("GetCellFormula", func() { f.GetCellFormula(s, cell) })
			try("CalcCellValue", func() { f.CalcCellValue(s, cell) })
			try("GetCellRichText", func() { f.GetCellRichText(s, cell) })
			try("GetCellHyperLink", func() { f.GetCellHyperLink(s, cell) })
		}
		try("GetMergeCells", func() {
			if ms, err := f.GetMergeCells(s); err == nil {
				for _, m := range ms {
					m.GetCellValue()
					m.GetStartAxis()
					m.GetEndAxis()
				}
			}
		})
		try("GetComments", func() { f.GetComments(s) })
		try("GetTables", func() { f.GetTables(s) })
		try("GetDataValidations", func() { f.GetDataValidations(s) })
		try("GetConditionalFormats", func() { f.GetConditionalFormats(s) })
		try("GetSheetDimension", func() { f.GetSheetDimension(s) })
		try("GetColWidth+GetRowHeight", func() { f.GetColWidth(s, "B"); f.GetRowHeight(s, 3) })
		try("GetSheetProps+View", func() { f.GetSheetProps(s); f.GetSheetView(s, 0); f.GetPageLayout(s) })
		try("SearchSheet", func() { f.SearchSheet(s, "text 1") })
		try("SetCellValue", func() { f.SetCellValue(s, "B2", "edited") })
		try("InsertRows", func() { f.InsertRows(s, 2, 1) })
	}
	try("GetDefinedName", func() { f.GetDefinedName() })
	try("GetWorkbookProps+DocProps", func() { f.GetWorkbookProps(); f.GetDocProps(); f.GetAppProps(); f.GetCalcProps() })
	try("WriteToBuffer", func() { f.WriteToBuffer() })
	return
}

// worker: vh worker c14 <dir>: reads <dir>/mutants.json ([]c14mutant), writes <dir>/progress (index being run) and
// <dir>/results.jsonl (one line per finished mutant: index, panics)
func c14Worker(args []string) {
	dir := args[0]
	if dir == "one" {
		// vh worker c14 one '<mutant json>': run a single mutant and print what happens
		var m c14mutant
		json.Unmarshal([]byte(args[1]), &m)
		corpus := c14Corpus()
		mut, ok := c14Apply(corpus[m.Base], m)
		pw := ""
		if m.Base == "encrypted" {
			pw = "pw"
		}
		fmt.Println("applies:", ok, "bytes:", len(mut))
		for _, p := range c14Battery(mut, pw) {
			fmt.Println("PANIC", p)
		}
		return
	}
	// address-space cap: a runaway allocation dies here instead of taking the machine down
	lim := uint64(6 << 30)
	syscall.Setrlimit(syscall.RLIMIT_AS, &syscall.Rlimit{Cur: lim, Max: lim})
	data, err := os.ReadFile(filepath.Join(dir, "mutants.json"))
	if err != nil {
		fatal("c14 worker: %v", err)
	}
	var ms []c14mutant
	json.Unmarshal(data, &ms)
	start := 0
	if b, err := os.ReadFile(filepath.Join(dir, "resume")); err == nil {
		start, _ = strconv.Atoi(strings.TrimSpace(string(b)))
	}
	corpus := c14Corpus()
	out, _ := os.OpenFile(filepath.Join(dir, "results.jsonl"), os.O_APPEND|os.O_CREATE|os.O_WRONLY, 0o644)
	defer out.Close()
	for i := start; i < len(ms); i++ {
		os.WriteFile(filepath.Join(dir, "progress"), []byte(strconv.Itoa(i)), 0o644)
		mut, ok := c14Apply(corpus[ms[i].Base], ms[i])
		if !ok {
			fmt.Fprintf(out, "{\"i\":%d,\"skip\":true}\n", i)
			continue
		}
		pw := ""
		if ms[i].Base == "encrypted" {
			pw = "pw"
		}
		t0 := time.Now()
		done := make(chan []string, 1)
		go func() { done <- c14Battery(mut, pw) }()
		var panics []string
		select {
		case panics = <-done:
		case <-time.After(20 * time.Second):
			fmt.Fprintf(out, "{\"i\":%d,\"hang\":true}\n", i)
			out.Sync()
			os.Exit(4) // the stuck goroutine cannot be stopped: the parent restarts after this mutant
		}
		b, _ := json.Marshal(map[string]interface{}{"i": i, "panics": panics, "ms": time.Since(t0).Milliseconds()})
		out.Write(append(b, '\n'))
	}
	os.WriteFile(filepath.Join(dir, "progress"), []byte("done"), 0o644)
}

var c14panicKey = regexp.MustCompile(`^([A-Za-z+]+): (.*)$`)

// a stable identifier for a panic: the call and the runtime message with numbers abstracted
func c14Key(p string) string {
	k := regexp.MustCompile(`[0-9]+`).ReplaceAllString(p, "N")
	k = regexp.MustCompile(`0x[0-9a-fN]+`).ReplaceAllString(k, "ADDR")
	if len(k) > 90 {
		k = k[:90]
	}
	return "c14-panic " + k
}

func (c *Ctx) c14Explore() {
	root := os.Getenv("VERIF_ROOT")
	if root == "" {
		root = "/verif"
	}
	self := filepath.Join(root, "build", "vh")
	stride := 6
	if c.Thorough() {
		stride = 1
	}
	corpus := c14Corpus()
	var all []c14mutant
	names := make([]string, 0, len(corpus))
	for n := range corpus {
		names = append(names, n)
	}
	sort.Strings(names)
	for _, n := range names {
		all = append(all, c14Space(n, corpus[n], stride)...)
	}
	// always present (recorded finding): a flipped bit in the compound-file header's sector counts
	all = append(all, c14mutant{Base: "encrypted", Kind: "bitflip", At: 43, N: 7})
	c.R.Dist["mutants"] = len(all)
	// shard over worker processes
	shards := 14
	per := (len(all) + shards - 1) / shards
	type res struct {
		I      int      `json:"i"`
		Panics []string `json:"panics"`
		Skip   bool     `json:"skip"`
		Hang   bool     `json:"hang"`
		Ms     int      `json:"ms"`
	}
	results := make([][]res, shards)
	crashes := make([][]string, shards)
	done := make(chan int, shards)
	for s := 0; s < shards; s++ {
		go func(s int) {
			defer func() { done <- s }()
			lo, hi := s*per, (s+1)*per
			if lo >= len(all) {
				return
			}
			if hi > len(all) {
				hi = len(all)
			}
			dir, _ := os.MkdirTemp("", "vh-c14-")
			defer os.RemoveAll(dir)
			b, _ := json.Marshal(all[lo:hi])
			os.WriteFile(filepath.Join(dir, "mutants.json"), b, 0o644)
			for attempt := 0; attempt < 60; attempt++ {
				cmd := exec.Command(self, "worker", "c14", dir)
				cmd.Env = append(os.Environ(), "TMPDIR="+dir, "GOMEMLIMIT=4GiB")
				var stderr bytes.Buffer
				cmd.Stderr = &stderr
				err := cmd.Run()
				pb, _ := os.ReadFile(filepath.Join(dir, "progress"))
				if strings.TrimSpace(string(pb)) == "done" {
					break
				}
				at, _ := strconv.Atoi(strings.TrimSpace(string(pb)))
				msg := stderr.String()
				if strings.Contains(msg, "mscfb.(*Reader).setDirEntries") {
					msg = "[mscfb.setDirEntries] " + msg
				}
				if len(msg) > 320 {
					msg = msg[:320]
				}
				if ee, ok := err.(*exec.ExitError); !ok || ee.ExitCode() != 4 {
					crashes[s] = append(crashes[s], fmt.Sprintf("%d\x00%v: %s", lo+at, err, strings.ReplaceAll(msg, "\n", " | ")))
				}
				os.WriteFile(filepath.Join(dir, "resume"), []byte(strconv.Itoa(at+1)), 0o644)
			}
			if data, err := os.ReadFile(filepath.Join(dir, "results.jsonl")); err == nil {
				for _, ln := range strings.Split(string(data), "\n") {
					var r res
					if json.Unmarshal([]byte(ln), &r) == nil && ln != "" {
						r.I += lo
						results[s] = append(results[s], r)
					}
				}
			}
		}(s)
	}
	for s := 0; s < shards; s++ {
		<-done
	}
	seen := map[string]bool{}
	for s := 0; s < shards; s++ {
		for _, r := range results[s] {
			if r.Skip {
				continue
			}
			m := all[r.I]
			c.Count("mutant:"+m.Kind, true, m.String())
			if r.Hang {
				c.Fail("oracle", "C14_terminates", m, "the battery did not finish within 20 s on mutant "+m.String(), "")
				continue
			}
			if r.Ms > 8000 {
				c.Fail("oracle", "C14_terminates", m, fmt.Sprintf("the battery took %d ms on mutant %s", r.Ms, m.String()), "")
			}
			for _, p := range r.Panics {
				k := c14Key(p)
				if seen[k] {
					continue
				}
				seen[k] = true
				c.Fail("oracle", "C14_no_panic", m, "panic in "+p+" on mutant "+m.String(), k)
			}
		}
		for _, cr := range crashes[s] {
			p := strings.SplitN(cr, "\x00", 2)
			i, _ := strconv.Atoi(p[0])
			if i < len(all) {
				known := ""
				if strings.Contains(p[1], "[mscfb.setDirEntries]") && all[i].Base == "encrypted" {
					known = "c14-mscfb-directory-allocation"
				}
				c.Fail("oracle", "C14_no_crash", all[i], "the worker process died (fatal error, out of memory or stack overflow) on mutant "+all[i].String()+": "+p[1], known)
			}
		}
	}
}

// checkSheet over adversarial row numbers: implementation (hook) against the extracted model
func (c *Ctx) c14CheckSheet(n int) {
	weird := []int{0, 0, 0, -1, -5, 1, 2, 3, 5, 9, 10, 1048575, 1048576, 1048577, 2147483647, 2147483648, 99999999999, -2147483649}
	var reqs, impl []string
	var descs []interface{}
	for i := 0; i < n; i++ {
		k := 1 + c.Rng.Intn(9)
		rs, nums := make([]int, k), make([]int, k)
		var toks []string
		for j := range rs {
			switch c.Rng.Intn(3) {
			case 0:
				rs[j] = weird[c.Rng.Intn(len(weird))]
			default:
				rs[j] = c.Rng.Intn(12)
			}
			if c.Rng.Intn(2) == 0 {
				nums[j] = []int{1, 2, 3, 7, 12, 1048576}[c.Rng.Intn(6)]
			}
			toks = append(toks, fmt.Sprintf("%d,%d", rs[j], nums[j]))
		}
		// keep the allocation of the real code small: at most one row near the sheet limit
		big := 0
		for j := range rs {
			if (rs[j] > 100000 && rs[j] <= 1048576) || nums[j] > 100000 {
				big++
			}
		}
		if big > 1 {
			continue
		}
		desc := map[string]interface{}{"row_r_attributes": rs, "cell_ref_rows": nums}
		c.guard("C14_no_panic", desc, func() {
			nr, placed := excelize.VerifCheckSheet(rs, nums)
			c.Count("check-sheet", true, fmt.Sprint(rs, nums))
			var ps []string
			for _, p := range placed {
				ps = append(ps, strconv.Itoa(p))
			}
			if nr > 1048576+k {
				c.Fail("oracle", "C14_alloc_bound", desc, fmt.Sprintf("checkSheet made %d rows for %d row elements", nr, k), "")
			}
			reqs, impl, descs = append(reqs, "c14.checksheet "+strings.Join(toks, " ")), append(impl, fmt.Sprintf("%d %s", nr, strings.Join(ps, " "))), append(descs, desc)
		})
	}
	if c.Model == nil || c.Model.path == "" || len(reqs) == 0 {
		return
	}
	outs := c.Model.Call(reqs)
	for i, o := range outs {
		c.R.Traces++
		// the model says where each row's cell is written; two rows written to one place leave one cell, the other
		// is then absent from the implementation's result (-1)
		mf, xf := strings.Fields(strings.TrimSpace(o)), strings.Fields(impl[i])
		same := len(mf) == len(xf) && len(mf) > 0 && mf[0] == xf[0]
		for k := 1; same && k < len(mf); k++ {
			if mf[k] == xf[k] {
				continue
			}
			collide := false
			for j := 1; j < len(mf); j++ {
				if j != k && mf[j] == mf[k] {
					collide = true
				}
			}
			if !(xf[k] == "-1" && collide) {
				same = false
			}
		}
		if !same {
			c.Fail("model-impl", "c14.checksheet", descs[i], "rows allocated and row index of each input row's cell: implementation ["+impl[i]+"] model ["+strings.TrimSpace(o)+"]", "")
		}
	}
}

// checkRow over arbitrary lists of cell references of one row (any order, duplicates, cells without reference):
// no panic, and the placement of every cell against the extracted model (C14/Model.v: check_row)
func (c *Ctx) c14CheckRow(n int) {
	var reqs, impl []string
	var descs []interface{}
	gen := func(i int) []int {
		k := 1 + c.Rng.Intn(7)
		cols := make([]int, k)
		for j := range cols {
			switch c.Rng.Intn(6) {
			case 0:
				cols[j] = 0
			case 1:
				cols[j] = 1 + c.Rng.Intn(3)
			default:
				cols[j] = 1 + c.Rng.Intn(12)
			}
		}
		return cols
	}
	fixed := [][]int{{5, 3}, {3, 3}, {2, 1}, {0, 0, 1}, {7}, {1, 2, 3}, {3, 2, 1}, {0, 5, 0, 2, 0}, {12, 0}, {2, 2, 2, 9, 1}}
	for i := 0; i < n+len(fixed); i++ {
		var cols []int
		if i < len(fixed) {
			cols = fixed[i]
		} else {
			cols = gen(i)
		}
		desc := map[string]interface{}{"cell_columns_in_document_order": cols}
		placed, panicked := excelize.VerifCheckRow(cols)
		asc := true
		for j := 1; j < len(cols); j++ {
			if cols[j] == 0 || cols[j] <= cols[j-1] {
				asc = false
			}
		}
		c.Count("checkrow", !asc, fmt.Sprint(cols))
		if panicked {
			c.Fail("oracle", "C14_no_panic", desc, fmt.Sprintf("checkRow panics on a row whose cells carry the columns %v", cols), "")
			continue
		}
		var toks, ps []string
		for _, col := range cols {
			toks = append(toks, strconv.Itoa(col))
		}
		for _, p := range placed {
			ps = append(ps, strconv.Itoa(p))
		}
		reqs, impl, descs = append(reqs, "c14.checkrow "+strings.Join(toks, " ")), append(impl, "ok "+strings.Join(ps, " ")), append(descs, desc)
	}
	if c.Model == nil || c.Model.path == "" || len(reqs) == 0 {
		return
	}
	for i, o := range c.Model.Call(reqs) {
		c.R.Traces++
		if strings.TrimSpace(o) != strings.TrimSpace(impl[i]) {
			c.Fail("model-impl", "c14.checkrow", descs[i], "source cell held by every cell of the row after checkRow: implementation ["+impl[i]+"] model ["+strings.TrimSpace(o)+"]", "")
		}
	}
}

func runC14(c *Ctx) {
	c.R.Rule = "three base packages (feature-rich workbook, its password-protected form, stream-written workbook); mutation space enumerated, thinned by a stride in the quick tier: zip/compound-file level (bit flips at regular offsets, cuts, garbage), per part removal/emptying/duplication/renaming, truncation at 24 points, every attribute x 20 boundary values (numbers around 2^31, 2^64, 10^11, 1e309, cell references with 14 and more letters or 20-digit rows) and removal, every cell reference x 8 hostile and 3 misplaced valid references (not thinned), every v/f/t text x boundary values, removal and duplication of every leaf element; each mutant through a battery (open, list, rows three ways, cell value/style/formula/calc/rich text/hyperlink on 7 cells, merges, comments, tables, validations, conditional formats, dimension, widths, properties, search, a write, a row insert, defined names, save, close) in isolated workers with a 6 GiB address-space cap and a 20 s watchdog; panics are recovered per call and keyed by call + message. non-trivial = all"
	n := 400
	if c.Thorough() {
		n = 6000
	}
	c.c14CheckSheet(n)
	c.c14CheckRow(n)
	c.c14DirFlag()
	c.c14Explore()
}

// rezipFlagged rewrites a package with the external attributes of the matching entries saying "directory" while
// name and content stay those of an ordinary part (archive/zip inflates such an entry like any other)
func rezipFlagged(data []byte, match func(name string) bool) ([]byte, int64) {
	zr, err := zip.NewReader(bytes.NewReader(data), int64(len(data)))
	if err != nil {
		return nil, 0
	}
	var out bytes.Buffer
	zw := zip.NewWriter(&out)
	var total int64
	for _, e := range zr.File {
		rc, err := e.Open()
		if err != nil {
			return nil, 0
		}
		body, _ := io.ReadAll(rc)
		rc.Close()
		total += int64(len(body))
		fh := &zip.FileHeader{Name: e.Name, Method: zip.Deflate}
		if match(e.Name) {
			fh.SetMode(fs.ModeDir | 0o755)
		}
		w, err := zw.CreateHeader(fh)
		if err != nil {
			return nil, 0
		}
		w.Write(body)
	}
	zw.Close()
	return out.Bytes(), total
}

// a package whose parts carry the directory bit is held to the unzip limits like any other: with UnzipSizeLimit below
// what the package inflates to it is refused
func (c *Ctx) c14DirFlag() {
	f := excelize.NewFile()
	for r := 1; r <= 3000; r++ {
		f.SetSheetRow("Sheet1", "A"+strconv.Itoa(r), &[]interface{}{strings.Repeat("x", 40) + strconv.Itoa(r), r, r * 2, "tail"})
	}
	buf, err := f.WriteToBuffer()
	f.Close()
	if err != nil {
		return
	}
	for _, which := range []string{"xl/worksheets/sheet1.xml", "xl/sharedStrings.xml", "xl/styles.xml", "", "*"} {
		data, total := rezipFlagged(buf.Bytes(), func(n string) bool { return which == "*" || n == which })
		if data == nil {
			continue
		}
		for _, lim := range []int64{total / 2, total - 1} {
			for _, xl := range []int64{lim / 2, 1 << 40} {
				desc := map[string]interface{}{"entries_flagged_as_directory": which, "UnzipSizeLimit": lim, "UnzipXMLSizeLimit": xl, "inflated_size": total}
				c.guard("C14_no_panic", desc, func() {
					g, err := excelize.OpenReader(bytes.NewReader(data), excelize.Options{UnzipSizeLimit: lim, UnzipXMLSizeLimit: xl})
					c.Count("dir-flag", which != "", fmt.Sprint(desc))
					if err == nil {
						g.Close()
						c.Fail("oracle", "C14_alloc_bound", desc, fmt.Sprintf("a package that inflates to %d bytes opened under UnzipSizeLimit=%d (entries flagged as directories: %q)", total, lim, which), "")
					}
				})
			}
		}
	}
}
