package main

import (
	"fmt"
	"regexp"
	"sort"
	"strings"

	"github.com/xuri/excelize/v2"
)

func init() {
	props["C06"] = propFn{run: runC06, replay: replayHist("C06")}
	histCheckers["C06"] = func(c *Ctx, h hist, cases *[]mcase) { c.checkHistC06(h, cases) }
}

// structural edit ops reuse sop: K = IR (insert rows: Row, I=n), RR (remove row), IC (insert cols: Col, I=n), RC (remove col)
func (o sop) etoken(styles []int) (string, bool) {
	switch o.K {
	case "IR":
		return fmt.Sprintf("IR,%d,%d", o.Row, o.I), true
	case "RR":
		return fmt.Sprintf("RR,%d", o.Row), true
	case "IC":
		return fmt.Sprintf("IC,%d,%d", o.Col, o.I), true
	case "RC":
		return fmt.Sprintf("RC,%d", o.Col), true
	case "DR":
		return fmt.Sprintf("DR,%d,%d", o.Row, o.Row2), true
	}
	return o.token(styles)
}

func (o sop) eapply(f *excelize.File, sheet string, styles []int) (*excelize.File, error) {
	switch o.K {
	case "IR":
		return f, f.InsertRows(sheet, o.Row, int(o.I))
	case "RR":
		return f, f.RemoveRow(sheet, o.Row)
	case "IC":
		cn, _ := excelize.ColumnNumberToName(o.Col)
		if o.B {
			cn = strings.ToLower(cn)
		}
		return f, f.InsertCols(sheet, cn, int(o.I))
	case "RC":
		cn, _ := excelize.ColumnNumberToName(o.Col)
		if o.B {
			cn = strings.ToLower(cn)
		}
		return f, f.RemoveCol(sheet, cn)
	case "DR":
		if o.Row2 == o.Row+1 && o.B {
			return f, f.DuplicateRow(sheet, o.Row)
		}
		return f, f.DuplicateRowTo(sheet, o.Row, o.Row2)
	}
	return o.apply(f, sheet, styles)
}

func mergesString(f *excelize.File, sheet string) string {
	mcs, _ := f.GetMergeCells(sheet)
	var ms []string
	for _, m := range mcs {
		c1, r1, _ := excelize.CellNameToCoordinates(m.GetStartAxis())
		c2, r2, _ := excelize.CellNameToCoordinates(m.GetEndAxis())
		ms = append(ms, fmt.Sprintf("%d,%d,%d,%d", c1, r1, c2, r2))
	}
	sort.Strings(ms)
	return strings.Join(ms, ";")
}

// shiftMerges applies the shift rule of the property to a sorted "x1,y1,x2,y2;..." list
func shiftMerges(ms string, o sop) string {
	if ms == "" {
		return ""
	}
	var out []string
	for _, m := range strings.Split(ms, ";") {
		var r [4]int
		fmt.Sscanf(m, "%d,%d,%d,%d", &r[0], &r[1], &r[2], &r[3])
		lo, hi := 1, 3 // rows
		num := o.Row
		if o.K == "IC" || o.K == "RC" {
			lo, hi, num = 0, 2, o.Col
		}
		switch o.K {
		case "IR", "IC":
			n := int(o.I)
			if num <= r[lo] {
				r[lo] += n
				r[hi] += n
			} else if num <= r[hi] {
				r[hi] += n
			}
		case "RR", "RC":
			if r[lo] == num && r[hi] == num {
				continue
			}
			if num < r[lo] {
				r[lo]--
				r[hi]--
			} else if num <= r[hi] {
				r[hi]--
			}
			if r[0] == r[2] && r[1] == r[3] {
				continue // a single cell is no merged range
			}
		}
		out = append(out, fmt.Sprintf("%d,%d,%d,%d", r[0], r[1], r[2], r[3]))
	}
	sort.Strings(out)
	return strings.Join(out, ";")
}

// formula text is rewritten by structural edits (C07): only its presence is compared in C06
var formulaTextRe = regexp.MustCompile(`^(\d+:x[0-9a-f]*):x[0-9a-f]*:(-?\d+)$`)

func maskFormulaText(win string) string {
	toks := strings.Split(win, " ")
	for i, t := range toks {
		toks[i] = formulaTextRe.ReplaceAllString(t, "$1:x:$2")
	}
	return strings.Join(toks, " ")
}

func isEdit(k string) bool { return k == "IR" || k == "RR" || k == "IC" || k == "RC" || k == "DR" }

// everything the property names, on every sheet
func c06Observation(f *excelize.File, w, h int) string {
	var sb strings.Builder
	sb.WriteString(allSheetsObservation(f, w, h))
	for _, sh := range f.GetSheetList() {
		dvs, _ := f.GetDataValidations(sh)
		for _, dv := range dvs {
			fmt.Fprintf(&sb, "|dv:%s:%s=%s", sh, dv.Sqref, dv.Formula1)
		}
		cfs, _ := f.GetConditionalFormats(sh)
		var ks []string
		for k := range cfs {
			ks = append(ks, k)
		}
		sort.Strings(ks)
		fmt.Fprintf(&sb, "|cf:%s:%v", sh, ks)
		tbs, _ := f.GetTables(sh)
		for _, t := range tbs {
			fmt.Fprintf(&sb, "|tbl:%s:%s=%s", sh, t.Name, t.Range)
		}
		for r := 1; r <= h; r++ {
			for col := 1; col <= w; col++ {
				n, _ := excelize.CoordinatesToCellName(col, r)
				fm, _ := f.GetCellFormula(sh, n)
				if fm != "" {
					fmt.Fprintf(&sb, "|f:%s!%s=%s", sh, n, fm)
				}
			}
		}
	}
	return sb.String()
}

func (c *Ctx) checkHistC06(h hist, cases *[]mcase) {
	c.guard("C06_no_panic", h, func() { c.checkHistC06x(h, cases) })
}

func (c *Ctx) checkHistC06x(h hist, cases *[]mcase) {
	f := excelize.NewFile()
	defer func() { f.Close() }()
	other := "Other"
	f.NewSheet(other)
	if h.Sheet != "Sheet1" {
		f.NewSheet(h.Sheet)
	}
	// the other sheet refers to the edited one
	f.SetCellFormula(other, "A1", "SUM("+h.Sheet+"!A1:C5)")
	f.SetCellFormula(other, "B2", h.Sheet+"!B3*2")
	styles := registerStyles(f)
	var toks []string
	modelOK := true
	nEdits := 0
	for i, o := range h.Ops {
		if o.K == "M" {
			// merges were generated for the static history and may overlap ranges that edits have moved; overlapping
			// ranges are joined lazily (see the known finding under C01-C04), which is not this property's subject:
			// such a merge becomes a plain write.  Disjoint ranges stay disjoint under edits (C06_merges_stay_disjoint).
			nr := [4]int{o.Col, o.Row, o.Col2, o.Row2}
			mcs, _ := f.GetMergeCells(h.Sheet)
			for _, m := range mcs {
				c1, r1, _ := excelize.CellNameToCoordinates(m.GetStartAxis())
				c2, r2, _ := excelize.CellNameToCoordinates(m.GetEndAxis())
				if rectsOverlap(nr, [4]int{c1, r1, c2, r2}) {
					o = sop{K: "S", PK: "int", I: 7, Col: o.Col, Row: o.Row}
					break
				}
			}
		}
		if isEdit(o.K) {
			nEdits++
			before := c06Observation(f, h.W+3, h.H+3)
			mergesBefore := mergesString(f, h.Sheet)
			_, err := o.eapply(f, h.Sheet, styles)
			if err == nil && o.K != "DR" {
				// the shift rule for merged ranges (C06_merge_rule_insert_rows / C06_merge_rule_remove_row, columns alike)
				if want, got := shiftMerges(mergesBefore, o), mergesString(f, h.Sheet); want != got {
					c.Fail("oracle", "C06_ranges", h, fmt.Sprintf("op %d (%s at %d/%d, n=%d): merged ranges [%s] became [%s]; the shift rule gives [%s]", i, o.K, o.Row, o.Col, o.I, mergesBefore, got, want), "")
					return
				}
			}
			if err != nil {
				if after := c06Observation(f, h.W+3, h.H+3); after != before {
					c.Fail("oracle", "C06_reject_atomic", h, fmt.Sprintf("op %d (%s) was rejected (%v) but changed the workbook: %s", i, o.K, err, firstDiff(before, after)), "")
					return
				}
			}
		} else {
			g, err := o.eapply(f, h.Sheet, styles)
			f = g
			if err != nil {
				return
			}
		}
		if t, ok := o.etoken(styles); ok {
			toks = append(toks, t)
		} else {
			modelOK = false
		}
		c.R.Dist["op:"+o.K]++
	}
	c.Count("history", nEdits > 0 && len(h.Ops) > nEdits, fmt.Sprint(h))
	if modelOK {
		win, err := observeWindowAt(f, h.Sheet, h.C0, h.R0, h.W+2, h.H+2)
		win = maskFormulaText(win)
		if err == nil {
			*cases = append(*cases, mcase{Req: fmt.Sprintf("sheet.erun %d %d %d %d %s", h.C0, h.R0, h.W+2, h.H+2, strings.Join(toks, " ")),
				Impl: win + " |M " + mergesString(f, h.Sheet), Rel: "sheet.erun", Desc: h})
		}
	}
	// insert n then remove n restores everything (all sheets, all range objects)
	base := c06Observation(f, h.W+3, h.H+3)
	for _, probe := range []struct {
		row bool
		at  int
		n   int
	}{{true, 1 + c.Rng.Intn(h.H+1), 1 + c.Rng.Intn(3)}, {false, 1 + c.Rng.Intn(h.W+1), 1 + c.Rng.Intn(3)}} {
		var err error
		if probe.row {
			err = f.InsertRows(h.Sheet, probe.at, probe.n)
			for k := 0; k < probe.n && err == nil; k++ {
				err = f.RemoveRow(h.Sheet, probe.at)
			}
		} else {
			cn, _ := excelize.ColumnNumberToName(probe.at)
			err = f.InsertCols(h.Sheet, cn, probe.n)
			for k := 0; k < probe.n && err == nil; k++ {
				err = f.RemoveCol(h.Sheet, cn)
			}
		}
		if err != nil {
			continue
		}
		if after := c06Observation(f, h.W+3, h.H+3); after != base {
			c.Fail("oracle", "C06_insert_remove_id", map[string]interface{}{"history": h, "rows": probe.row, "at": probe.at, "n": probe.n},
				fmt.Sprintf("insert %d then remove them at %d (rows=%v) does not restore the workbook: %s", probe.n, probe.at, probe.row, firstDiff(base, after)), "")
			return
		}
	}
}

func (c *Ctx) genC06(n int, attrs bool) hist {
	g := histGen{c: c, merges: true, rowStyle: true, attrs: attrs}
	h := g.gen(n)
	h.C0, h.R0 = 1, 1
	r := c.Rng
	for i := range h.Ops {
		if r.Intn(4) != 0 {
			continue
		}
		switch r.Intn(5) {
		case 4:
			// duplicate: target above, right below, further below, or beyond the data
			h.Ops[i] = sop{K: "DR", Row: 1 + r.Intn(h.H+2), B: r.Intn(2) == 0}
			switch r.Intn(4) {
			case 0:
				h.Ops[i].Row2 = h.Ops[i].Row + 1
			case 1:
				h.Ops[i].Row2 = 1 + r.Intn(h.H+2)
			default:
				h.Ops[i].Row2 = 1 + r.Intn(h.H+6)
			}
		case 0:
			h.Ops[i] = sop{K: "IR", Row: 1 + r.Intn(h.H+2), I: int64(1 + r.Intn(3))}
		case 1:
			h.Ops[i] = sop{K: "RR", Row: 1 + r.Intn(h.H+2)}
		case 2:
			h.Ops[i] = sop{K: "IC", Col: 1 + r.Intn(h.W+2), I: int64(1 + r.Intn(3)), B: r.Intn(3) == 0}
		case 3:
			h.Ops[i] = sop{K: "RC", Col: 1 + r.Intn(h.W+2), B: r.Intn(3) == 0}
		}
		if h.Ops[i].K != "DR" {
			h.Ops[i].Col2, h.Ops[i].Row2 = 0, 0
		}
	}
	return h
}

// limits: content in the last row / column makes insertion fail without any change
func (c *Ctx) c06Limits() {
	for _, tc := range []struct {
		name string
		run  func(f *excelize.File) error
	}{
		{"InsertRows with row 1048576 occupied", func(f *excelize.File) error {
			f.SetCellValue("Sheet1", "A1048576", 1)
			return f.InsertRows("Sheet1", 2, 1)
		}},
		{"InsertCols with column XFD occupied", func(f *excelize.File) error {
			f.SetCellValue("Sheet1", "XFD3", 1)
			return f.InsertCols("Sheet1", "B", 1)
		}},
		{"InsertRows n too large", func(f *excelize.File) error { return f.InsertRows("Sheet1", 2, 1048576) }},
		{"InsertCols n too large", func(f *excelize.File) error { return f.InsertCols("Sheet1", "B", 16385) }},
	} {
		if !c.Thorough() && strings.Contains(tc.name, "1048576 occupied") {
			continue // materialises a million rows
		}
		c.guard("C06_no_panic", tc.name, func() {
			f := excelize.NewFile()
			defer f.Close()
			f.NewSheet("Other")
			f.SetCellFormula("Other", "A1", "Sheet1!A5+Sheet1!C3")
			f.SetCellValue("Sheet1", "B5", "x")
			f.SetCellFormula("Sheet1", "C6", "B5&A5")
			f.MergeCell("Sheet1", "A7", "B8")
			obs := func() string {
				var sb strings.Builder
				for _, sh := range []string{"Sheet1", "Other"} {
					for _, cl := range []string{"A1", "B5", "C6", "A5", "C3", "B6", "C7", "D6"} {
						v, _ := f.GetCellValue(sh, cl)
						fm, _ := f.GetCellFormula(sh, cl)
						fmt.Fprintf(&sb, "%s!%s=%q/%q ", sh, cl, v, fm)
					}
				}
				return sb.String() + mergesString(f, "Sheet1")
			}
			// the probe itself performs the set-up writes, so observe after a dry set-up
			_ = tc.run
			err0 := error(nil)
			before := ""
			{
				// run set-up part by calling run on a twin and discarding: simpler: observe, run, compare only when rejected
				before = obs()
				err0 = tc.run(f)
			}
			c.Count("limit", true, tc.name)
			if err0 == nil {
				c.Fail("oracle", "C06_reject_atomic", tc.name, "edit that pushes content past the sheet limit was accepted", "")
				return
			}
			after := obs()
			// the set-up write (A1048576 / XFD3) is not observed by obs, so before/after must be equal
			if before != after {
				c.Fail("oracle", "C06_reject_atomic", tc.name, "rejected edit changed the workbook: "+firstDiff(before, after), "")
			}
		})
	}
}

// range-anchored objects: hyperlinks (cells) and data validations (ranges) placed before / on / after the edit
// line, several of them adjacent in creation order, then one edit; expected positions by the shift rule
func (c *Ctx) c06Objects() {
	type edit struct {
		rows bool
		num  int
		off  int
	}
	var edits []edit
	for _, rows := range []bool{true, false} {
		for num := 1; num <= 6; num++ {
			edits = append(edits, edit{rows, num, 1}, edit{rows, num, 2}, edit{rows, num, -1})
		}
	}
	layouts := [][][2]int{
		{{2, 3}, {3, 3}, {4, 5}},         // two links on one row, created one after the other
		{{2, 2}, {2, 3}, {2, 4}, {5, 3}}, // a column of links
		{{3, 3}, {3, 4}, {4, 3}, {4, 4}, {1, 1}},
		{{2, 3}, {4, 5}, {3, 3}, {5, 3}},
	}
	reloc := func(e edit, col, row int) (int, int, bool) {
		v := row
		if !e.rows {
			v = col
		}
		if e.off < 0 && v == e.num {
			return 0, 0, false
		}
		if v >= e.num {
			v += e.off
		}
		if e.rows {
			return col, v, true
		}
		return v, row, true
	}
	for li, cells := range layouts {
		for _, e := range edits {
			desc := map[string]interface{}{"hyperlink_cells": cells, "rows": e.rows, "num": e.num, "offset": e.off}
			c.guard("C06_no_panic", desc, func() {
				f := excelize.NewFile()
				defer f.Close()
				for i, cl := range cells {
					n, _ := excelize.CoordinatesToCellName(cl[0], cl[1])
					f.SetCellHyperLink("Sheet1", n, fmt.Sprintf("https://example.com/%d", i), "External")
					f.SetCellValue("Sheet1", n, i)
				}
				var err error
				switch {
				case e.rows && e.off > 0:
					err = f.InsertRows("Sheet1", e.num, e.off)
				case e.rows:
					err = f.RemoveRow("Sheet1", e.num)
				case e.off > 0:
					cn, _ := excelize.ColumnNumberToName(e.num)
					err = f.InsertCols("Sheet1", cn, e.off)
				default:
					cn, _ := excelize.ColumnNumberToName(e.num)
					err = f.RemoveCol("Sheet1", cn)
				}
				c.Count("object-edit", true, fmt.Sprint(li, e))
				if err != nil {
					return
				}
				want := map[string]string{}
				for i, cl := range cells {
					if nc, nr, ok := reloc(e, cl[0], cl[1]); ok {
						n, _ := excelize.CoordinatesToCellName(nc, nr)
						want[n] = fmt.Sprintf("https://example.com/%d", i)
					}
				}
				for r := 1; r <= 9; r++ {
					for col := 1; col <= 9; col++ {
						n, _ := excelize.CoordinatesToCellName(col, r)
						ok, link, _ := f.GetCellHyperLink("Sheet1", n)
						w, has := want[n]
						if ok != has || (ok && link != w) {
							c.Fail("oracle", "C06_ranges", desc, fmt.Sprintf("after the edit cell %s has hyperlink (%v, %q); the shift rule gives (%v, %q)", n, ok, link, has, w), "")
							return
						}
					}
				}
			})
		}
	}
}

func runC06(c *Ctx) {
	c.R.Rule = "histories mixing cell writes, formulas, styles, merges, row/column attributes, hyperlinks, defined names with InsertRows/RemoveRow/InsertCols/RemoveCol/DuplicateRow/DuplicateRowTo (positions before/inside/after the data, counts 1..3, lower-case column names) on a workbook whose other sheet refers to the edited one; window + merged ranges vs the extracted model (erun); rejected edits change nothing on any sheet; insert n then remove n restores the whole observation; limit cases (XFD / row 1048576 occupied); data validations, conditional formats, tables and the auto filter on five range shapes under every edit at positions 1..7 against the shift rule; DuplicateRowTo for every source/target pair over rows that each carry their own data validation, conditional format, merged range and height (the copy gets the source row's, the rest shifts, writes still land in their rows, removing the copy restores the sheet; targets beyond the row limit are rejected). non-trivial = at least one structural edit and one other op"
	var cases []mcase
	n := 1200
	if c.Thorough() {
		n = 30000
	}
	for i := 0; i < n; i++ {
		h := c.genC06(3+c.Rng.Intn(20), i%3 == 0)
		c.checkHistC06(h, &cases)
		if i < 2 {
			c.Sample(h)
		}
	}
	c.compareBatch(cases)
	c.c06Objects()
	c.c06RangeObjects()
	c.c06Duplicates()
	c.c06Limits()
	c.c06ColLimits()
}

// rejected column insertions, systematically: a cell within n columns of XFD in the first / a middle / the last
// populated row of the edited sheet (or below all of them), sheets before and after the edited one whose formulas
// refer to it, every sheet observed in full: a rejected InsertCols changes nothing anywhere
func (c *Ctx) c06ColLimits() {
	for _, farRow := range []int{1, 2, 4, 6} {
		for k := 0; k <= 2; k++ {
			for n := 1; n <= 3; n++ {
				for _, at := range []string{"A", "B", "D"} {
					desc := map[string]interface{}{"far_cell_row": farRow, "far_cell_columns_before_XFD": k, "InsertCols_at": at, "n": n}
					c.guard("C06_no_panic", desc, func() {
						f := excelize.NewFile()
						defer f.Close()
						f.NewSheet("Mid")
						f.NewSheet("After")
						for r := 1; r <= 4; r++ {
							for col := 1; col <= 3; col++ {
								cn, _ := excelize.CoordinatesToCellName(col, r)
								f.SetCellValue("Mid", cn, 10*r+col)
							}
						}
						f.SetCellFormula("Mid", "C2", "A2+B2")
						f.SetCellFormula("Sheet1", "A1", "Mid!B1*2")
						f.SetCellFormula("Sheet1", "B3", "SUM(Mid!A1:C3)")
						f.SetCellFormula("After", "A1", "Mid!C4&\"x\"")
						f.SetColWidth("Mid", "C", "C", 33)
						f.MergeCell("Mid", "B3", "C3")
						f.SetCellHyperLink("Mid", "B4", "https://example.com", "External")
						far, _ := excelize.CoordinatesToCellName(excelize.MaxColumns-k, farRow)
						f.SetCellValue("Mid", far, "far")
						obs := func() string {
							var sb strings.Builder
							for _, sh := range []string{"Sheet1", "Mid", "After"} {
								w, _ := observeWindow(f, sh, 6, 7) // (not GetCols: one decode per column up to XFD)
								rows, _ := f.GetRows(sh)
								sb.WriteString("[" + sh + "]" + w + fmt.Sprintf("|rows%q", rows))
							}
							wd, _ := f.GetColWidth("Mid", "C")
							wd2, _ := f.GetColWidth("Mid", "D")
							ok, link, _ := f.GetCellHyperLink("Mid", "B4")
							ok2, _, _ := f.GetCellHyperLink("Mid", "C4")
							fmt.Fprintf(&sb, "|w=%v,%v link=%v,%s,%v", wd, wd2, ok, link, ok2)
							v, _ := f.GetCellValue("Mid", far)
							return sb.String() + "|far=" + v + mergesString(f, "Mid")
						}
						before := obs()
						err := f.InsertCols("Mid", at, n)
						c.Count("col-limit", err != nil, fmt.Sprint(desc))
						if (err != nil) != (n > k) {
							c.Fail("oracle", "C06_reject_atomic", desc, fmt.Sprintf("InsertCols(Mid, %s, %d) with a cell in column XFD-%d: err = %v", at, n, k, err), "")
							return
						}
						if err != nil {
							if after := obs(); after != before {
								c.Fail("oracle", "C06_reject_atomic", desc, "rejected InsertCols changed the workbook: "+firstDiff(before, after), "")
							}
						}
					})
					if c.Failed() {
						return
					}
				}
			}
		}
	}
}
