package main

import (
	"fmt"
	"math"
	"strconv"

	"github.com/xuri/excelize/v2"
)

// The typed setters (SetCellInt/Uint/Float/Str/Bool/Default) and the bulk setters (SetSheetRow, SetSheetCol) against
// a twin workbook that receives the equivalent SetCellValue calls: the whole window (raw value, type, formula,
// effective style) must be equal, also after save+open; SetCellFloat with a precision and SetCellDefault are judged
// directly (documented conversion).
type c03tOp struct {
	Fn    string        `json:"fn"`
	Cell  string        `json:"cell"`
	I     int64         `json:"i,omitempty"`
	F     float64       `json:"f,omitempty"`
	Prec  int           `json:"precision,omitempty"`
	S     string        `json:"s,omitempty"`
	B     bool          `json:"b,omitempty"`
	Vals  []interface{} `json:"values,omitempty"`
	kinds []string
}

func (c *Ctx) c03TypedGen() c03tOp {
	r := c.Rng
	col, row := 1+r.Intn(6), 1+r.Intn(6)
	cell, _ := excelize.CoordinatesToCellName(col, row)
	ints := []int64{0, 1, -1, 42, math.MaxInt32, math.MinInt64, math.MaxInt64, 1234567890123}
	floats := []float64{0, 0.1, -2.5, 1e21, 1e-7, 123456789.123456789, math.MaxFloat64, math.SmallestNonzeroFloat64, 0.30000000000000004, 100}
	strs := []string{"", "a", " lead", "<&>", "1", "TRUE", "_x0041_", "line\nbreak", "日本語", "=1+1", "1e5", "0x10"}
	op := c03tOp{Cell: cell}
	switch r.Intn(9) {
	case 0:
		op.Fn, op.I = "SetCellInt", ints[r.Intn(len(ints))]
	case 1:
		op.Fn, op.I = "SetCellUint", ints[r.Intn(len(ints))]
		if op.I < 0 {
			op.I = -(op.I + 1)
		}
	case 2:
		op.Fn, op.F, op.Prec = "SetCellFloat", floats[r.Intn(len(floats))], []int{-1, -1, 0, 2, 5, 15}[r.Intn(6)]
	case 3:
		op.Fn, op.S = "SetCellStr", strs[r.Intn(len(strs))]
	case 4:
		op.Fn, op.B = "SetCellBool", r.Intn(2) == 0
	case 5:
		op.Fn, op.S = "SetCellDefault", []string{"12", "-3.5", "text", "1e3", "", "<&>", "007", "TRUE"}[r.Intn(8)]
	default:
		op.Fn = "SetSheetRow"
		if r.Intn(2) == 0 {
			op.Fn = "SetSheetCol"
		}
		for k := 1 + r.Intn(4); k > 0; k-- {
			switch r.Intn(6) {
			case 0:
				op.Vals, op.kinds = append(op.Vals, ints[r.Intn(len(ints))]), append(op.kinds, "int")
			case 1:
				op.Vals, op.kinds = append(op.Vals, floats[r.Intn(len(floats))]), append(op.kinds, "float")
			case 2:
				op.Vals, op.kinds = append(op.Vals, strs[r.Intn(len(strs))]), append(op.kinds, "str")
			case 3:
				op.Vals, op.kinds = append(op.Vals, r.Intn(2) == 0), append(op.kinds, "bool")
			case 4:
				op.Vals, op.kinds = append(op.Vals, nil), append(op.kinds, "nil")
			default:
				op.Vals, op.kinds = append(op.Vals, uint32(r.Intn(1000))), append(op.kinds, "uint")
			}
		}
	}
	return op
}

func (c *Ctx) c03Typed(n int) {
	const sh = "Sheet1"
	for i := 0; i < n; i++ {
		var ops []c03tOp
		for k := 1 + c.Rng.Intn(8); k > 0; k-- {
			ops = append(ops, c.c03TypedGen())
		}
		desc := map[string]interface{}{"typed_setter_history": ops}
		c.guard("C03_no_panic", desc, func() {
			a, b := excelize.NewFile(), excelize.NewFile()
			defer a.Close()
			defer b.Close()
			direct := map[string]string{} // cell -> expected raw value where the twin does not apply
			for _, op := range ops {
				var ea, eb error
				col, row, _ := excelize.CellNameToCoordinates(op.Cell)
				switch op.Fn {
				case "SetCellInt":
					ea, eb = a.SetCellInt(sh, op.Cell, op.I), b.SetCellValue(sh, op.Cell, op.I)
					direct[op.Cell] = strconv.FormatInt(op.I, 10)
				case "SetCellUint":
					ea, eb = a.SetCellUint(sh, op.Cell, uint64(op.I)), b.SetCellValue(sh, op.Cell, uint64(op.I))
					direct[op.Cell] = strconv.FormatUint(uint64(op.I), 10)
				case "SetCellFloat":
					ea = a.SetCellFloat(sh, op.Cell, op.F, op.Prec, 64)
					direct[op.Cell] = strconv.FormatFloat(op.F, 'f', op.Prec, 64)
					if op.Prec == -1 {
						eb = b.SetCellValue(sh, op.Cell, op.F)
					} else {
						// the twin gets the number the text denotes
						v, _ := strconv.ParseFloat(direct[op.Cell], 64)
						eb = b.SetCellValue(sh, op.Cell, v)
						if strconv.FormatFloat(v, 'f', -1, 64) != direct[op.Cell] {
							eb = b.SetCellDefault(sh, op.Cell, direct[op.Cell])
						}
					}
				case "SetCellStr":
					ea, eb = a.SetCellStr(sh, op.Cell, op.S), b.SetCellValue(sh, op.Cell, op.S)
					direct[op.Cell] = op.S
				case "SetCellBool":
					ea, eb = a.SetCellBool(sh, op.Cell, op.B), b.SetCellValue(sh, op.Cell, op.B)
					direct[op.Cell] = map[bool]string{true: "1", false: "0"}[op.B]
				case "SetCellDefault":
					ea, eb = a.SetCellDefault(sh, op.Cell, op.S), b.SetCellDefault(sh, op.Cell, op.S)
					direct[op.Cell] = op.S
				case "SetSheetRow", "SetSheetCol":
					vals := op.Vals
					if op.Fn == "SetSheetRow" {
						ea = a.SetSheetRow(sh, op.Cell, &vals)
					} else {
						ea = a.SetSheetCol(sh, op.Cell, &vals)
					}
					for k, v := range op.Vals {
						cc, rr := col+k, row
						if op.Fn == "SetSheetCol" {
							cc, rr = col, row+k
						}
						nm, _ := excelize.CoordinatesToCellName(cc, rr)
						if e := b.SetCellValue(sh, nm, v); e != nil {
							eb = e
						}
						delete(direct, nm)
					}
				}
				if (ea == nil) != (eb == nil) {
					c.Fail("oracle", "C03_typed_setters", desc, fmt.Sprintf("%s(%s): err %v, the equivalent SetCellValue calls: err %v", op.Fn, op.Cell, ea, eb), "")
					return
				}
			}
			c.Count("typed-setters", len(ops) > 1, fmt.Sprint(ops))
			for _, op := range ops {
				c.R.Dist["typed "+op.Fn]++
			}
			check := func(stage string, x, y *excelize.File) bool {
				wa, _ := observeWindow(x, sh, 10, 10)
				wb, _ := observeWindow(y, sh, 10, 10)
				if wa != wb {
					c.Fail("oracle", "C03_typed_setters", desc, "window after the typed/bulk setters differs from the window after the equivalent SetCellValue calls ("+stage+"): "+firstDiff(wa, wb), "")
					return false
				}
				for cell, want := range direct {
					if got, _ := x.GetCellValue(sh, cell, excelize.Options{RawCellValue: true}); got != want {
						c.Fail("oracle", "C03_last_writer_wins", desc, fmt.Sprintf("%s: cell %s holds %q, the last payload written to it is %q", stage, cell, got, want), "")
						return false
					}
				}
				return true
			}
			if !check("in memory", a, b) {
				return
			}
			ra, e1 := reopen(a)
			rb, e2 := reopen(b)
			if e1 != nil || e2 != nil {
				c.Fail("oracle", "C03_typed_setters", desc, fmt.Sprintf("save/open failed: %v / %v", e1, e2), "")
				return
			}
			defer ra.Close()
			defer rb.Close()
			check("after save and open", ra, rb)
		})
		if len(c.R.Failures) >= 3 {
			return
		}
	}
}

// hyperlinks: sequences of SetCellHyperLink (external, location, removal, with and without display/tooltip) on a few
// cells; GetCellHyperLink of every cell reports the last link written to it, in memory and after save+open
func (c *Ctx) c03Hyperlinks(n int) {
	const sh = "Sheet1"
	cells := []string{"A1", "B2", "C3"}
	type hl struct {
		Cell   string `json:"cell"`
		Kind   string `json:"kind"`
		Target string `json:"target"`
		Opts   bool   `json:"display_and_tooltip"`
	}
	for i := 0; i < n; i++ {
		var seq []hl
		for k := 2 + c.Rng.Intn(5); k > 0; k-- {
			h := hl{Cell: cells[c.Rng.Intn(len(cells))], Opts: c.Rng.Intn(3) == 0}
			switch c.Rng.Intn(5) {
			case 0:
				h.Kind = "None"
			case 1, 2:
				h.Kind, h.Target = "External", fmt.Sprintf("https://example.com/%d?a=1&b=2", c.Rng.Intn(50))
			default:
				h.Kind, h.Target = "Location", fmt.Sprintf("Sheet1!D%d", 1+c.Rng.Intn(50))
			}
			seq = append(seq, h)
		}
		desc := map[string]interface{}{"SetCellHyperLink_calls": seq}
		c.guard("C03_no_panic", desc, func() {
			f := excelize.NewFile()
			defer f.Close()
			want := map[string]string{}
			for _, h := range seq {
				var err error
				if h.Opts && h.Kind != "None" {
					d, t := "shown", "tip"
					err = f.SetCellHyperLink(sh, h.Cell, h.Target, h.Kind, excelize.HyperlinkOpts{Display: &d, Tooltip: &t})
				} else {
					err = f.SetCellHyperLink(sh, h.Cell, h.Target, h.Kind)
				}
				if err != nil {
					c.Fail("oracle", "C03_last_writer_wins", desc, fmt.Sprintf("SetCellHyperLink(%s, %q, %s) rejected: %v", h.Cell, h.Target, h.Kind, err), "")
					return
				}
				if h.Kind == "None" {
					delete(want, h.Cell)
				} else {
					want[h.Cell] = h.Target
				}
			}
			c.Count("hyperlinks", len(seq) > 2, fmt.Sprint(seq))
			check := func(stage string, g *excelize.File) bool {
				for _, cell := range cells {
					ok, target, err := g.GetCellHyperLink(sh, cell)
					w, has := want[cell]
					if err != nil || ok != has || (has && target != w) {
						c.Fail("oracle", "C03_last_writer_wins", desc, fmt.Sprintf("%s: GetCellHyperLink(%s) = (%v, %q, %v); the last link written to the cell is (%v, %q)", stage, cell, ok, target, err, has, w), "")
						return false
					}
				}
				return true
			}
			if !check("in memory", f) {
				return
			}
			g, err := reopen(f)
			if err != nil {
				c.Fail("oracle", "C03_last_writer_wins", desc, "save/open failed: "+err.Error(), "")
				return
			}
			defer g.Close()
			check("after save and open", g)
		})
		if len(c.R.Failures) >= 3 {
			return
		}
	}
}
