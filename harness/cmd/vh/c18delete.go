package main

import (
	"bytes"
	"fmt"
	"sort"
	"strings"

	"github.com/xuri/excelize/v2"
)

// Items added, the workbook saved, then some or all of them deleted ("x intervening saves"): what the getter shows
// for the live workbook, and for the workbook saved and reopened afterwards, is exactly what was not deleted.  Per
// kind: comments, data validations, conditional formats, tables, hyperlinks, pictures, form controls, defined names; on one or two
// sheets; every subset of deletions over three items.
type c18kind struct {
	name string
	add  func(f *excelize.File, sheet string, k int) error
	del  func(f *excelize.File, sheet string, k int) error
	show func(f *excelize.File, sheet string) []string // one string per item, naming k
}

func c18cellOf(k int) string { return []string{"B2", "D5", "F9"}[k] }
func c18rangeOf(k int) string { return []string{"B2:C3", "E5:E9", "G2:H4"}[k] }

func c18kinds() []c18kind {
	return []c18kind{
		{"comment",
			func(f *excelize.File, sh string, k int) error {
				return f.AddComment(sh, excelize.Comment{Cell: c18cellOf(k), Author: "a", Paragraph: []excelize.RichTextRun{{Text: fmt.Sprintf("note %d", k)}}})
			},
			func(f *excelize.File, sh string, k int) error { return f.DeleteComment(sh, c18cellOf(k)) },
			func(f *excelize.File, sh string) []string {
				cs, _ := f.GetComments(sh)
				var out []string
				for _, cm := range cs {
					out = append(out, cm.Cell)
				}
				return out
			}},
		{"data validation",
			func(f *excelize.File, sh string, k int) error {
				dv := excelize.NewDataValidation(true)
				dv.SetSqref(c18rangeOf(k))
				dv.SetRange(1, 10+k, excelize.DataValidationTypeWhole, excelize.DataValidationOperatorBetween)
				return f.AddDataValidation(sh, dv)
			},
			func(f *excelize.File, sh string, k int) error { return f.DeleteDataValidation(sh, c18rangeOf(k)) },
			func(f *excelize.File, sh string) []string {
				dvs, _ := f.GetDataValidations(sh)
				var out []string
				for _, d := range dvs {
					out = append(out, d.Sqref)
				}
				return out
			}},
		{"conditional format",
			func(f *excelize.File, sh string, k int) error {
				st, _ := f.NewConditionalStyle(&excelize.Style{Font: &excelize.Font{Color: "9A0511"}})
				return f.SetConditionalFormat(sh, c18rangeOf(k), []excelize.ConditionalFormatOptions{{Type: "cell", Criteria: ">", Format: &st, Value: fmt.Sprint(k + 1)}})
			},
			func(f *excelize.File, sh string, k int) error { return f.UnsetConditionalFormat(sh, c18rangeOf(k)) },
			func(f *excelize.File, sh string) []string {
				cfs, _ := f.GetConditionalFormats(sh)
				var out []string
				for r := range cfs {
					out = append(out, r)
				}
				return out
			}},
		{"table",
			func(f *excelize.File, sh string, k int) error {
				return f.AddTable(sh, &excelize.Table{Range: c18rangeOf(k), Name: fmt.Sprintf("T_%s_%d", strings.ReplaceAll(sh, " ", ""), k)})
			},
			func(f *excelize.File, sh string, k int) error {
				return f.DeleteTable(fmt.Sprintf("T_%s_%d", strings.ReplaceAll(sh, " ", ""), k))
			},
			func(f *excelize.File, sh string) []string {
				ts, _ := f.GetTables(sh)
				var out []string
				for _, t := range ts {
					out = append(out, t.Range)
				}
				return out
			}},
		{"hyperlink",
			func(f *excelize.File, sh string, k int) error {
				return f.SetCellHyperLink(sh, c18cellOf(k), fmt.Sprintf("https://example.com/%d", k), "External")
			},
			func(f *excelize.File, sh string, k int) error { return f.SetCellHyperLink(sh, c18cellOf(k), "", "None") },
			func(f *excelize.File, sh string) []string {
				var out []string
				for k := 0; k < 3; k++ {
					if ok, _, _ := f.GetCellHyperLink(sh, c18cellOf(k)); ok {
						out = append(out, c18cellOf(k))
					}
				}
				return out
			}},
		{"picture",
			func(f *excelize.File, sh string, k int) error {
				return f.AddPictureFromBytes(sh, c18cellOf(k), &excelize.Picture{Extension: ".png", File: c05images[k%len(c05images)], Format: &excelize.GraphicOptions{AltText: fmt.Sprint(k)}})
			},
			func(f *excelize.File, sh string, k int) error { return f.DeletePicture(sh, c18cellOf(k)) },
			func(f *excelize.File, sh string) []string {
				var out []string
				for k := 0; k < 3; k++ {
					if ps, _ := f.GetPictures(sh, c18cellOf(k)); len(ps) > 0 {
						out = append(out, c18cellOf(k))
					}
				}
				return out
			}},
		{"form control",
			func(f *excelize.File, sh string, k int) error {
				return f.AddFormControl(sh, excelize.FormControl{Cell: c18cellOf(k), Type: []excelize.FormControlType{excelize.FormControlButton, excelize.FormControlCheckBox, excelize.FormControlOptionButton}[k], Text: fmt.Sprintf("ctl %d", k)})
			},
			func(f *excelize.File, sh string, k int) error { return f.DeleteFormControl(sh, c18cellOf(k)) },
			func(f *excelize.File, sh string) []string {
				fcs, _ := f.GetFormControls(sh)
				var out []string
				for _, fc := range fcs {
					out = append(out, fc.Cell)
				}
				return out
			}},
		{"defined name",
			func(f *excelize.File, sh string, k int) error {
				return f.SetDefinedName(&excelize.DefinedName{Name: fmt.Sprintf("nm%d", k), RefersTo: "'" + sh + "'!$A$" + fmt.Sprint(k+1), Scope: sh})
			},
			func(f *excelize.File, sh string, k int) error {
				return f.DeleteDefinedName(&excelize.DefinedName{Name: fmt.Sprintf("nm%d", k), Scope: sh})
			},
			func(f *excelize.File, sh string) []string {
				var out []string
				for _, dn := range f.GetDefinedName() {
					if dn.Scope == sh {
						out = append(out, dn.Name)
					}
				}
				return out
			}},
	}
}

func (c *Ctx) c18DeleteAfterSave() {
	norm := func(l []string) string { sort.Strings(l); return strings.Join(l, ",") }
	for _, kd := range c18kinds() {
		for _, sheets := range [][]string{{"Sheet1"}, {"Sheet1", "Two"}} {
			for mask := 0; mask < 8; mask++ { // which of the three items are deleted after the save
				for _, early := range []bool{true, false} { // with / without the intervening save
					desc := map[string]interface{}{"kind": kd.name, "sheets": sheets, "deleted_items_mask": mask, "save_between_add_and_delete": early}
					c.guard("C18_no_panic", desc, func() {
						f := excelize.NewFile()
						defer f.Close()
						for _, sh := range sheets[1:] {
							f.NewSheet(sh)
						}
						for _, sh := range sheets {
							for r := 1; r <= 9; r++ {
								f.SetSheetRow(sh, fmt.Sprintf("A%d", r), &[]interface{}{"h", r, r, r, r, r, r, r})
							}
							for k := 0; k < 3; k++ {
								if err := kd.add(f, sh, k); err != nil {
									return
								}
							}
						}
						full := norm(kd.show(f, sheets[0]))
						if early {
							if _, err := f.WriteToBuffer(); err != nil {
								c.Fail("oracle", "C18_persist", desc, "save failed: "+err.Error(), "")
								return
							}
						}
						// delete on the first sheet only
						var kept []int
						for k := 0; k < 3; k++ {
							if mask&(1<<uint(k)) != 0 {
								if err := kd.del(f, sheets[0], k); err != nil {
									c.Fail("oracle", "C18_delete_exact", desc, fmt.Sprintf("deleting %s %d failed: %v", kd.name, k, err), "")
									return
								}
							} else {
								kept = append(kept, k)
							}
						}
						c.Count("delete-after-save", mask != 0, fmt.Sprint(desc))
						// what must remain: the items of the full listing that belong to the kept indices
						all := kd.show(f, sheets[0])
						live := norm(all)
						var buf bytes.Buffer
						if err := f.Write(&buf); err != nil {
							c.Fail("oracle", "C18_persist", desc, "save failed: "+err.Error(), "")
							return
						}
						g, err := excelize.OpenReader(bytes.NewReader(buf.Bytes()))
						if err != nil {
							c.Fail("oracle", "C18_persist", desc, "reopen failed: "+err.Error(), "")
							return
						}
						defer g.Close()
						re := norm(kd.show(g, sheets[0]))
						if len(all) != len(kept) {
							c.Fail("oracle", "C18_delete_exact", desc, fmt.Sprintf("%d %ss were added (%s), those with index mask %d deleted: the getter shows %s", 3, kd.name, full, mask, live), "")
							return
						}
						if re != live {
							c.Fail("oracle", "C18_delete_exact", desc, fmt.Sprintf("after deleting, the live workbook shows the %ss [%s]; saved and reopened it shows [%s]", kd.name, live, re), "")
							return
						}
						for _, sh := range sheets[1:] {
							if got := norm(kd.show(g, sh)); strings.Count(got, ",") != 2 {
								c.Fail("oracle", "C18_delete_exact", desc, fmt.Sprintf("deleting on %s changed the %ss of %s: [%s]", sheets[0], kd.name, sh, got), "")
							}
						}
					})
					if len(c.R.Failures) >= 3 {
						return
					}
				}
			}
		}
	}
}
