package main

import (
	"bytes"
	"fmt"
	"sort"
	"strings"

	"github.com/xuri/excelize/v2"
)

func c18PanesShow(p excelize.Panes) string {
	var sb strings.Builder
	fmt.Fprintf(&sb, "freeze=%v split=%v x=%d y=%d tl=%q active=%q sel=[", p.Freeze, p.Split, p.XSplit, p.YSplit, p.TopLeftCell, p.ActivePane)
	for _, s := range p.Selection {
		fmt.Fprintf(&sb, "{%q %q %q}", s.SQRef, s.ActiveCell, s.Pane)
	}
	return sb.String() + "]"
}

// what GetPanes has to answer for a Panes value that was accepted: without Freeze and Split the panes are removed
// (documented: "unfreeze and remove all panes"), only the selections remain
func c18PanesNorm(p excelize.Panes) excelize.Panes {
	if !p.Freeze && !p.Split {
		return excelize.Panes{Selection: p.Selection}
	}
	return p
}

// panes: 1..3 consecutive SetPanes calls on one sheet (with and without selections, freeze / split / neither):
// GetPanes answers the last one, immediately, after unrelated edits and after save and reopen
func (c *Ctx) c18Panes(n int) {
	const sh = "Sheet1"
	gen := func() *excelize.Panes {
		p := &excelize.Panes{}
		switch c.Rng.Intn(4) {
		case 0:
			p.Freeze = true
		case 1:
			p.Split = true
		case 2:
			p.Freeze = true
		}
		if p.Freeze {
			p.XSplit, p.YSplit = c.Rng.Intn(3), c.Rng.Intn(3)
		} else {
			p.XSplit, p.YSplit = []int{0, 1800, 3270}[c.Rng.Intn(3)], []int{0, 1800, 3270}[c.Rng.Intn(3)]
		}
		p.TopLeftCell = []string{"", "B2", "N57", "A1"}[c.Rng.Intn(4)]
		p.ActivePane = []string{"", "bottomLeft", "bottomRight", "topLeft", "topRight"}[c.Rng.Intn(5)]
		for k := c.Rng.Intn(3); k > 0; k-- {
			cell := []string{"K16", "B2", "I36", "A1:C3"}[c.Rng.Intn(4)]
			p.Selection = append(p.Selection, excelize.Selection{SQRef: cell, ActiveCell: strings.Split(cell, ":")[0], Pane: []string{"topRight", "bottomLeft", "bottomRight", ""}[c.Rng.Intn(4)]})
		}
		return p
	}
	for i := 0; i < n; i++ {
		var seq []*excelize.Panes
		for k := 1 + c.Rng.Intn(3); k > 0; k-- {
			seq = append(seq, gen())
		}
		desc := map[string]interface{}{"SetPanes_calls": seq}
		c.guard("C18_no_panic", desc, func() {
			f := excelize.NewFile()
			defer f.Close()
			for _, p := range seq {
				if err := f.SetPanes(sh, p); err != nil {
					return
				}
			}
			want := c18PanesShow(c18PanesNorm(*seq[len(seq)-1]))
			c.Count("panes", len(seq) > 1, fmt.Sprint(desc))
			c.R.Dist[fmt.Sprintf("panes calls=%d", len(seq))]++
			check := func(stage string, g *excelize.File) bool {
				got, err := g.GetPanes(sh)
				if err != nil || c18PanesShow(got) != want {
					c.Fail("oracle", "C18_putget", desc, fmt.Sprintf("panes %s: GetPanes = %s (err %v), last SetPanes = %s", stage, c18PanesShow(got), err, want), "")
					return false
				}
				return true
			}
			if !check("immediately", f) {
				return
			}
			f.SetCellValue(sh, "J9", 1)
			f.NewSheet("S2")
			f.SetColWidth(sh, "B", "B", 30)
			if !check("after unrelated edits", f) {
				return
			}
			var buf bytes.Buffer
			if err := f.Write(&buf); err != nil {
				c.Fail("oracle", "C18_persist", desc, "save failed: "+err.Error(), "")
				return
			}
			g, err := excelize.OpenReader(bytes.NewReader(buf.Bytes()))
			if err != nil {
				c.Fail("oracle", "C18_persist", desc, "reopen failed: "+err.Error(), "")
				return
			}
			defer g.Close()
			check("after save and reopen", g)
		})
	}
}

// pictures: several pictures on several cells, read back (bytes, extension, alternative text) immediately, after
// unrelated edits and after save and reopen; DeletePicture removes exactly the pictures of that cell
func (c *Ctx) c18Pictures(n int) {
	const sh = "Sheet1"
	cells := []string{"B2", "D4", "F6", "B9"}
	alts := []string{"", "plain", "a<b>&\"q\"", " lead", "ü€"}
	for i := 0; i < n; i++ {
		type pic struct {
			Cell string `json:"cell"`
			Img  int    `json:"image"`
			Alt  string `json:"alt_text"`
		}
		var pics []pic
		for k := 1 + c.Rng.Intn(4); k > 0; k-- {
			pics = append(pics, pic{cells[c.Rng.Intn(len(cells))], c.Rng.Intn(len(c05images)), alts[c.Rng.Intn(len(alts))]})
		}
		del := cells[c.Rng.Intn(len(cells))]
		desc := map[string]interface{}{"AddPictureFromBytes_calls": pics, "DeletePicture": del}
		c.guard("C18_no_panic", desc, func() {
			f := excelize.NewFile()
			defer f.Close()
			want := map[string][]string{}
			for _, p := range pics {
				if err := f.AddPictureFromBytes(sh, p.Cell, &excelize.Picture{Extension: ".png", File: c05images[p.Img], Format: &excelize.GraphicOptions{AltText: p.Alt}}); err != nil {
					return
				}
				want[p.Cell] = append(want[p.Cell], fmt.Sprintf("img%d:%q", p.Img, p.Alt))
			}
			c.Count("pictures", len(pics) > 1, fmt.Sprint(desc))
			show := func(g *excelize.File, w map[string][]string) (string, string) {
				var got, exp []string
				for _, cell := range cells {
					ps, err := g.GetPictures(sh, cell)
					var l []string
					for _, p := range ps {
						img := -1
						for k, b := range c05images {
							if bytes.Equal(b, p.File) {
								img = k
							}
						}
						alt := ""
						if p.Format != nil {
							alt = p.Format.AltText
						}
						l = append(l, fmt.Sprintf("img%d:%q", img, alt))
						if p.Extension != ".png" {
							l = append(l, "ext="+p.Extension)
						}
					}
					sort.Strings(l)
					e := append([]string{}, w[cell]...)
					sort.Strings(e)
					got = append(got, fmt.Sprintf("%s=%v(err %v)", cell, l, err))
					exp = append(exp, fmt.Sprintf("%s=%v(err <nil>)", cell, e))
				}
				return strings.Join(got, " "), strings.Join(exp, " ")
			}
			check := func(stage string, g *excelize.File, w map[string][]string, rel string) bool {
				if got, exp := show(g, w); got != exp {
					c.Fail("oracle", rel, desc, fmt.Sprintf("pictures %s: GetPictures reports %s, expected %s", stage, got, exp), "")
					return false
				}
				return true
			}
			if !check("immediately", f, want, "C18_putget") {
				return
			}
			f.SetCellValue(sh, "J9", 1)
			f.NewSheet("S2")
			if !check("after unrelated edits", f, want, "C18_putget") {
				return
			}
			var buf bytes.Buffer
			if err := f.Write(&buf); err != nil {
				c.Fail("oracle", "C18_persist", desc, "save failed: "+err.Error(), "")
				return
			}
			g, err := excelize.OpenReader(bytes.NewReader(buf.Bytes()))
			if err != nil {
				c.Fail("oracle", "C18_persist", desc, "reopen failed: "+err.Error(), "")
				return
			}
			defer g.Close()
			if !check("after save and reopen", g, want, "C18_persist") {
				return
			}
			for _, h := range []*excelize.File{f, g} {
				if err := h.DeletePicture(sh, del); err != nil {
					c.Fail("oracle", "C18_delete_exact", desc, "DeletePicture: "+err.Error(), "")
					return
				}
			}
			after := map[string][]string{}
			for k, v := range want {
				if k != del {
					after[k] = v
				}
			}
			if !check("after DeletePicture("+del+")", f, after, "C18_delete_exact") {
				return
			}
			check("after DeletePicture("+del+") on the reopened workbook", g, after, "C18_delete_exact")
		})
	}
}
