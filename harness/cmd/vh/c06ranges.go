package main

import (
	"archive/zip"
	"bytes"
	"fmt"
	"io"
	"regexp"
	"sort"
	"strings"

	"github.com/xuri/excelize/v2"
)

// C06: range-anchored objects other than merged ranges and hyperlinks - data validations, conditional formats,
// tables, the auto filter - under the four edits at every position relative to the range (before, first line,
// inside, last line, after): each range moves by the same rule as merged ranges (C06_merge_rule_*): lines before the
// range shift it, lines inside grow or shrink it, removing its only line deletes it.  A table (and the auto filter)
// is dropped when its header row is removed (documented in adjustTable/adjustAutoFilter).

var autoFilterRe = regexp.MustCompile(`<autoFilter ref="([^"]*)"`)

func c06ShiftRect(r [4]int, rows bool, num, off int) ([4]int, bool) {
	lo, hi := 1, 3
	if !rows {
		lo, hi = 0, 2
	}
	if off > 0 {
		if num <= r[lo] {
			r[lo] += off
			r[hi] += off
		} else if num <= r[hi] {
			r[hi] += off
		}
		return r, true
	}
	if r[lo] == num && r[hi] == num {
		return r, false
	}
	if num < r[lo] {
		r[lo]--
		r[hi]--
	} else if num <= r[hi] {
		r[hi]--
	}
	return r, true
}

func c06Ref(r [4]int) string {
	a, _ := excelize.CoordinatesToCellName(r[0], r[1])
	b, _ := excelize.CoordinatesToCellName(r[2], r[3])
	if a == b {
		return a
	}
	return a + ":" + b
}

func c06AbsRef(r [4]int) string {
	a, _ := excelize.CoordinatesToCellName(r[0], r[1], true)
	b, _ := excelize.CoordinatesToCellName(r[2], r[3], true)
	if a == b {
		return "Sheet1!" + a
	}
	return "Sheet1!" + a + ":" + b
}

func c06NormRef(s string) string {
	p := strings.Split(s, ":")
	if len(p) == 2 && p[0] == p[1] {
		return p[0]
	}
	return s
}

func (c *Ctx) c06RangeObjects() {
	const sh = "Sheet1"
	ranges := [][4]int{{2, 3, 2, 3}, {2, 3, 4, 3}, {2, 3, 2, 5}, {2, 3, 4, 5}, {1, 1, 3, 2}}
	for _, kind := range []string{"data validation", "conditional format", "table", "auto filter", "defined name"} {
		for _, r := range ranges {
			if (kind == "table" || kind == "auto filter") && r[1] == r[3] {
				continue
			}
			for _, rows := range []bool{true, false} {
				for num := 1; num <= 7; num++ {
					for _, off := range []int{1, 2, -1} {
						desc := map[string]interface{}{"object": kind, "range": c06Ref(r), "rows": rows, "num": num, "offset": off}
						c.guard("C06_no_panic", desc, func() {
							f := excelize.NewFile()
							defer f.Close()
							for rr := 1; rr <= 8; rr++ {
								for col := 1; col <= 8; col++ {
									n, _ := excelize.CoordinatesToCellName(col, rr)
									f.SetCellValue(sh, n, n)
								}
							}
							var err error
							switch kind {
							case "data validation":
								dv := excelize.NewDataValidation(true)
								dv.SetSqref(c06Ref(r))
								dv.SetRange(1, 10, excelize.DataValidationTypeWhole, excelize.DataValidationOperatorBetween)
								err = f.AddDataValidation(sh, dv)
							case "conditional format":
								err = f.SetConditionalFormat(sh, c06Ref(r), []excelize.ConditionalFormatOptions{{Type: "cell", Criteria: ">", Value: "5"}})
							case "table":
								err = f.AddTable(sh, &excelize.Table{Range: c06Ref(r), Name: "T1"})
							case "auto filter":
								err = f.AutoFilter(sh, c06Ref(r), nil)
							case "defined name":
								err = f.SetDefinedName(&excelize.DefinedName{Name: "N1", RefersTo: c06AbsRef(r)})
							}
							if err != nil {
								return
							}
							switch {
							case rows && off > 0:
								err = f.InsertRows(sh, num, off)
							case rows:
								err = f.RemoveRow(sh, num)
							case off > 0:
								cn, _ := excelize.ColumnNumberToName(num)
								err = f.InsertCols(sh, cn, off)
							default:
								cn, _ := excelize.ColumnNumberToName(num)
								err = f.RemoveCol(sh, cn)
							}
							c.Count("range-object-edit", true, fmt.Sprint(kind, r, rows, num, off))
							if err != nil {
								return
							}
							want := ""
							if nr, ok := c06ShiftRect(r, rows, num, off); ok {
								want = c06Ref(nr)
							}
							headerGone := rows && off < 0 && num == r[1]
							if (kind == "table" || kind == "auto filter") && headerGone {
								want = ""
							}
							if kind == "table" && want != "" && !strings.Contains(want, ":") {
								want = "" // a table needs a header and a data row
							}
							got := ""
							switch kind {
							case "data validation":
								dvs, _ := f.GetDataValidations(sh)
								var ss []string
								for _, d := range dvs {
									ss = append(ss, d.Sqref)
								}
								got = strings.Join(ss, " ")
							case "conditional format":
								cfs, _ := f.GetConditionalFormats(sh)
								var ss []string
								for k := range cfs {
									ss = append(ss, k)
								}
								sort.Strings(ss)
								got = strings.Join(ss, " ")
							case "table":
								ts, _ := f.GetTables(sh)
								for _, t := range ts {
									got += t.Range
								}
								if nr, ok := c06ShiftRect(r, rows, num, off); ok && nr[3]-nr[1] < 1 {
									want = ""
								}
							case "auto filter":
								var buf bytes.Buffer
								if err := f.Write(&buf); err != nil {
									return
								}
								zr, err := zip.NewReader(bytes.NewReader(buf.Bytes()), int64(buf.Len()))
								if err != nil {
									return
								}
								for _, zf := range zr.File {
									if zf.Name == "xl/worksheets/sheet1.xml" {
										rc, _ := zf.Open()
										b, _ := io.ReadAll(rc)
										rc.Close()
										if m := autoFilterRe.FindSubmatch(b); m != nil {
											got = string(m[1])
										}
									}
								}
							}
							if kind == "defined name" {
								for _, d := range f.GetDefinedName() {
									got += d.RefersTo
								}
								if nr, ok := c06ShiftRect(r, rows, num, off); ok {
									want = c06AbsRef(nr)
								} else {
									want = "(gone or #REF!)"
								}
								lo := 1
								if !rows {
									lo = 0
								}
								id := ""
								if off < 0 && num == r[lo] {
									// the formula rewriter moves every endpoint at or after the removed line; C07 excludes
									// formulas with an endpoint on a removed line, C06 does not exclude defined names
									id = "c06-defined-name-start-on-removed-line"
								}
								if got != want && !(want == "(gone or #REF!)" && (got == "" || strings.Contains(got, "#REF!"))) {
									c.Fail("oracle", "C06_ranges", desc, fmt.Sprintf("defined name on %s after the edit refers to %q; the shift rule gives %q", c06AbsRef(r), got, want), id)
								}
								return
							}
							if c06NormRef(got) != want {
								c.Fail("oracle", "C06_ranges", desc, fmt.Sprintf("%s on %s after the edit is at %q; the shift rule gives %q", kind, c06Ref(r), got, want), "")
							}
						})
					}
				}
			}
		}
	}
}
