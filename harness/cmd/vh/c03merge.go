package main

import (
	"bytes"
	"fmt"
	"strings"

	"github.com/xuri/excelize/v2"
)

// C03: histories of MergeCell / UnmergeCell / GetMergeCells over a small grid, most ranges overlapping, nested,
// chained or crossing; the ranges reported after every GetMergeCells, at the end, and by the saved and reopened
// file are compared with the extracted model of mergeOverlapCells (C03.Merge.norm, proved to leave pairwise
// disjoint ranges for every input), and checked pairwise disjoint themselves.

type mhop struct {
	Op string `json:"op"` // M, U, G
	R  [4]int `json:"r,omitempty"`
}

func (c *Ctx) c03MergeHist(grid int) []mhop {
	var ops []mhop
	n := 2 + c.Rng.Intn(9)
	for j := 0; j < n; j++ {
		x1, y1 := 1+c.Rng.Intn(grid), 1+c.Rng.Intn(grid)
		w, h := c.Rng.Intn(4), c.Rng.Intn(4)
		if c.Rng.Intn(4) == 0 { // long thin ranges cross others without a corner inside
			if c.Rng.Intn(2) == 0 {
				w, h = grid, 0
			} else {
				w, h = 0, grid
			}
		}
		r := [4]int{x1, y1, x1 + w, y1 + h}
		switch k := c.Rng.Intn(10); {
		case k < 7:
			ops = append(ops, mhop{Op: "M", R: r})
		case k < 8:
			ops = append(ops, mhop{Op: "U", R: r})
		default:
			ops = append(ops, mhop{Op: "G"})
		}
	}
	return ops
}

func c03Reported(f *excelize.File) (string, [][4]int, error) {
	mcs, err := f.GetMergeCells("Sheet1")
	if err != nil {
		return "", nil, err
	}
	var parts []string
	var rs [][4]int
	for _, m := range mcs {
		x1, y1, _ := excelize.CellNameToCoordinates(m.GetStartAxis())
		x2, y2, _ := excelize.CellNameToCoordinates(m.GetEndAxis())
		parts = append(parts, fmt.Sprintf("%d,%d,%d,%d", x1, y1, x2, y2))
		rs = append(rs, [4]int{x1, y1, x2, y2})
	}
	return strings.Join(parts, ";"), rs, nil
}

func (c *Ctx) c03Merges(n int) {
	var reqs, impl []string
	var descs []interface{}
	nm := func(col, r int) string { s, _ := excelize.CoordinatesToCellName(col, r); return s }
	for i := 0; i < n; i++ {
		ops := c.c03MergeHist(6 + c.Rng.Intn(4))
		c.guard("C03_no_panic", ops, func() {
			f := excelize.NewFile()
			defer f.Close()
			var toks, outs []string
			overl := false
			var sofar [][4]int
			disjoint := func(where string, rs [][4]int) {
				for p := range rs {
					for q := p + 1; q < len(rs); q++ {
						if rectsOverlap(rs[p], rs[q]) {
							c.Fail("oracle", "C03_merges_disjoint", ops, fmt.Sprintf("%s: overlapping ranges %v %v reported", where, rs[p], rs[q]), "")
						}
					}
				}
			}
			// ranges merged and not unmerged since: each must lie inside a reported range
			var live [][4]int
			covered := func(where string, rs [][4]int) {
				for _, l := range live {
					in := false
					for _, r := range rs {
						if r[0] <= l[0] && r[1] <= l[1] && l[2] <= r[2] && l[3] <= r[3] {
							in = true
						}
					}
					if !in {
						c.Fail("oracle", "C03_merges_cover", ops, fmt.Sprintf("%s: merged range %v lies inside none of the reported ranges %v", where, l, rs), "")
						return
					}
				}
			}
			for _, o := range ops {
				switch o.Op {
				case "M":
					live = append(live, o.R)
					for _, s := range sofar {
						if rectsOverlap(s, o.R) {
							overl = true
						}
					}
					sofar = append(sofar, o.R)
					// either corner order
					a, b := nm(o.R[0], o.R[1]), nm(o.R[2], o.R[3])
					if c.Rng.Intn(2) == 0 {
						a, b = b, a
					}
					if err := f.MergeCell("Sheet1", a, b); err != nil {
						c.Fail("oracle", "C03_merges_disjoint", ops, "MergeCell rejected a valid range: "+err.Error(), "")
					}
					toks = append(toks, fmt.Sprintf("M,%d,%d,%d,%d", o.R[0], o.R[1], o.R[2], o.R[3]))
				case "U":
					if err := f.UnmergeCell("Sheet1", nm(o.R[0], o.R[1]), nm(o.R[2], o.R[3])); err != nil {
						c.Fail("oracle", "C03_merges_disjoint", ops, "UnmergeCell rejected a valid range: "+err.Error(), "")
					}
					toks = append(toks, fmt.Sprintf("U,%d,%d,%d,%d", o.R[0], o.R[1], o.R[2], o.R[3]))
					// what is left after an unmerge is what stays merged (reading it does not change the state:
					// UnmergeCell has already joined the ranges, C03_norm_fixed)
					_, live, _ = c03Reported(f)
				case "G":
					s, rs, err := c03Reported(f)
					if err != nil {
						c.Fail("oracle", "C03_merges_disjoint", ops, "GetMergeCells: "+err.Error(), "")
						return
					}
					disjoint("GetMergeCells mid-history", rs)
					covered("GetMergeCells mid-history", rs)
					outs = append(outs, s)
					toks = append(toks, "G")
				}
			}
			// what the saved file holds is what a read reports: save first, then read both
			var buf bytes.Buffer
			if err := f.Write(&buf); err != nil {
				c.Fail("oracle", "C03_merges_disjoint", ops, "saving failed: "+err.Error(), "")
				return
			}
			s, rs, err := c03Reported(f)
			if err != nil {
				c.Fail("oracle", "C03_merges_disjoint", ops, "GetMergeCells: "+err.Error(), "")
				return
			}
			disjoint("GetMergeCells", rs)
			covered("GetMergeCells", rs)
			outs = append(outs, s)
			if g, err := excelize.OpenReader(bytes.NewReader(buf.Bytes())); err == nil {
				s2, rs2, _ := c03Reported(g)
				disjoint("GetMergeCells of the reopened file", rs2)
				if s2 != s {
					c.Fail("oracle", "C03_merges_disjoint", ops, "merged ranges of the saved file ["+s2+"] differ from those reported before saving ["+s+"]", "")
				}
				g.Close()
			}
			c.Count("merge-history", overl, fmt.Sprint(ops))
			reqs, impl, descs = append(reqs, "c03.merges "+strings.Join(toks, " ")), append(impl, strings.Join(outs, " | ")), append(descs, ops)
		})
	}
	if c.Model == nil || c.Model.path == "" || len(reqs) == 0 {
		return
	}
	for i, o := range c.Model.Call(reqs) {
		c.R.Traces++
		if strings.TrimSpace(o) != strings.TrimSpace(impl[i]) {
			c.Fail("model-impl", "c03.merges", descs[i], "merged ranges reported: implementation ["+impl[i]+"] model ["+o+"]", "")
		}
	}
}
