package main

import (
	"bytes"
	"crypto/sha256"
	"fmt"
	"os"
	"path/filepath"
	"strconv"
	"strings"
	"time"

	"github.com/xuri/excelize/v2"
)

func init() { props["C11"] = propFn{run: runC11, replay: func(c *Ctx, f Failure) { runC11(c) }} }

// one value of a SetRow call
type c11val struct {
	Nil     bool    `json:"nil,omitempty"`
	Kind    string  `json:"kind,omitempty"` // int float str bool none (Cell without value) rich badrich dur time
	Int     int64   `json:"int,omitempty"`
	Float   float64 `json:"float,omitempty"`
	Str     string  `json:"str,omitempty"`
	Bool    bool    `json:"bool,omitempty"`
	AsCell  int     `json:"as_cell,omitempty"` // 0 bare value, 1 Cell{}, 2 *Cell{}
	Style   int     `json:"style,omitempty"`   // index into the harness style table
	Formula string  `json:"formula,omitempty"`
}

type c11op struct {
	Op      string   `json:"op"` // row colstyle colwidth merge panes table
	Cell    string   `json:"cell,omitempty"`
	Vals    []c11val `json:"vals,omitempty"`
	RowSty  int      `json:"row_style,omitempty"`
	Height  float64  `json:"height,omitempty"`
	Hidden  bool     `json:"hidden,omitempty"`
	Outline int      `json:"outline,omitempty"`
	Col     int      `json:"col,omitempty"`
	Style   int      `json:"style,omitempty"` // raw id for colstyle (may be invalid)
	Width   float64  `json:"width,omitempty"`
	Ref     string   `json:"ref,omitempty"`
}

func (v c11val) goValue(styles []int) interface{} {
	var base interface{}
	switch v.Kind {
	case "int":
		base = int(v.Int)
	case "float":
		base = v.Float
	case "str":
		base = v.Str
	case "bool":
		base = v.Bool
	case "rich":
		base = []excelize.RichTextRun{{Text: v.Str}}
	case "badrich":
		base = []excelize.RichTextRun{{Text: strings.Repeat("x", excelize.TotalCellChars+1)}}
	case "dur":
		base = time.Duration(v.Int) * time.Second
	case "time":
		base = time.Date(2020, 1, 1+int(v.Int), 12, 0, 0, 0, time.UTC)
	}
	switch v.AsCell {
	case 1:
		return excelize.Cell{StyleID: styles[v.Style], Formula: v.Formula, Value: base}
	case 2:
		return &excelize.Cell{StyleID: styles[v.Style], Formula: v.Formula, Value: base}
	}
	return base
}

// model token; ok=false when the value kind is outside the model (compared stream-vs-twin only)
func (v c11val) token(styles []int) (string, bool) {
	if v.Nil {
		return "_", true
	}
	st, f := 0, "x"
	if v.AsCell != 0 {
		st = styles[v.Style]
		if v.Formula != "" {
			f = hexb(c11XMLText(v.Formula))
		}
	}
	has, t, val, bad := "t", 0, "", "f"
	switch v.Kind {
	case "int":
		val = strconv.FormatInt(v.Int, 10)
	case "float":
		val = strconv.FormatFloat(v.Float, 'f', -1, 64)
	case "str":
		t, val = 4, c11XMLText(v.Str)
	case "bool":
		t, val = 1, map[bool]string{true: "1", false: "0"}[v.Bool]
	case "none":
		has = "f"
	case "badrich":
		bad = "t"
	default:
		return "", false
	}
	return fmt.Sprintf("%d:%s:%s:%d:%s:%s", st, f, has, t, hexb(val), bad), true
}

// c11XMLText is the text as the XML layer persists it: encoding/xml replaces a character outside the XML 1.0
// Char production (and an invalid UTF-8 byte) by U+FFFD on both the streamed and the in-memory path.  The
// model works on persisted text; what escaping preserves is C01's subject.
func c11XMLText(s string) string {
	var sb strings.Builder
	for _, r := range s {
		ok := r == 0x09 || r == 0x0A || r == 0x0D || (r >= 0x20 && r <= 0xD7FF) || (r >= 0xE000 && r <= 0xFFFD) || (r >= 0x10000 && r <= 0x10FFFF)
		if !ok {
			r = 0xFFFD
		}
		sb.WriteRune(r)
	}
	return sb.String()
}

type c11hist struct {
	Ops []c11op `json:"ops"`
}

func (c *Ctx) c11Gen(n int, modelled bool) c11hist {
	r := c.Rng
	var h c11hist
	row := 0
	cols := []int{1, 2, 3, 5, 8}
	strs := []string{"a", "x y", " lead", "<&>\"'", "ü€𝄞", "1", "TRUE", "=1+1", "_x0041_", "line\nbreak", "", "cr\r\nlf", "tab\there"}
	formulas := []string{"SUM(A1:B2)", "A1&\"<x>\"", "1+1", "IF(A1>0,\"y\",\"n\")", "IF(B1,\r\n1,\r\n2)", "A1+\t1"}
	if !modelled {
		// characters XML cannot carry: both paths must treat them alike
		strs = append(strs, "ctl\x01x", "bell\x07")
		formulas = append(formulas, "LEN(\"a\x01b\")")
	}
	wroteRow := false
	usedMerge := map[int]bool{}
	for i := 0; i < n; i++ {
		switch x := r.Intn(20); {
		case x < 2 && (!wroteRow || r.Intn(4) == 0):
			op := c11op{Op: "colstyle", Col: cols[r.Intn(len(cols))], Style: 1 + r.Intn(4)}
			if r.Intn(8) == 0 {
				op.Style = 99 // invalid id
			}
			if r.Intn(10) == 0 {
				op.Col = excelize.MaxColumns + 1
			}
			h.Ops = append(h.Ops, op)
		case x < 3 && (!wroteRow || r.Intn(4) == 0):
			h.Ops = append(h.Ops, c11op{Op: "colwidth", Col: cols[r.Intn(len(cols))], Width: []float64{5, 20.5, 0, 255, 256}[r.Intn(5)]})
		case x < 4 && !wroteRow && r.Intn(2) == 0:
			h.Ops = append(h.Ops, c11op{Op: "panes"})
		case x < 5:
			// a merge on a row band of its own (2 columns wide, anchored at an odd column): never overlapping, right of every written cell (a stream merge does not clear covered cells; see DESIGN C11)
			mr := 1 + r.Intn(30)
			if !usedMerge[mr] {
				usedMerge[mr] = true
				h.Ops = append(h.Ops, c11op{Op: "merge", Ref: fmt.Sprintf("K%d:L%d", mr, mr)})
			}
		default:
			op := c11op{Op: "row"}
			switch y := r.Intn(12); {
			case y == 0 && row > 0:
				op.Cell = fmt.Sprintf("A%d", 1+r.Intn(row)) // not above the last row: rejected
			case y == 1:
				row += 1 + r.Intn(3)
				nm, _ := excelize.CoordinatesToCellName(excelize.MaxColumns-r.Intn(2), row)
				op.Cell = nm // runs over XFD when it has more values than fit
				row--        // a rejected row does not consume the number
			case y == 2 && r.Intn(3) == 0:
				op.Cell = "A" + strconv.Itoa(excelize.TotalRows+1)
			default:
				row += 1 + r.Intn(3)
				nm, _ := excelize.CoordinatesToCellName(1+r.Intn(4), row)
				op.Cell = nm
			}
			nv := r.Intn(6)
			for j := 0; j < nv; j++ {
				var v c11val
				kmax := 14
				if modelled {
					kmax = 12
				}
				switch k := r.Intn(kmax); {
				case k < 2:
					v.Nil = true
				case k < 5:
					v.Kind, v.Int = "int", int64(r.Intn(2000)-1000)
				case k < 6:
					v.Kind, v.Float = "float", []float64{0.5, -2.25, 1e10, 3.14159, 1234567.875}[r.Intn(5)]
				case k < 9:
					v.Kind, v.Str = "str", strs[r.Intn(len(strs))]
				case k < 10:
					v.Kind, v.Bool = "bool", r.Intn(2) == 0
				case k < 11:
					v.Kind, v.AsCell = "none", 1+r.Intn(2)
				case k < 12 && (modelled || r.Intn(6) == 0):
					if r.Intn(3) == 0 {
						v.Kind = "badrich"
					} else {
						v.Kind, v.Int = "int", int64(r.Intn(50))
					}
				case k < 12:
					v.Kind, v.Str = "rich", "rich "+strs[r.Intn(4)]
				case k < 13:
					v.Kind, v.Int = "dur", int64(r.Intn(100000))
				default:
					v.Kind, v.Int = "time", int64(r.Intn(300))
				}
				if !v.Nil && v.AsCell == 0 && r.Intn(3) == 0 {
					v.AsCell = 1 + r.Intn(2)
				}
				if v.AsCell != 0 {
					v.Style = r.Intn(5)
					if r.Intn(3) == 0 {
						v.Formula = formulas[r.Intn(len(formulas))]
					}
				}
				op.Vals = append(op.Vals, v)
			}
			if r.Intn(4) == 0 {
				op.RowSty = 1 + r.Intn(4)
			}
			switch r.Intn(12) {
			case 0:
				op.Height = 30.5
			case 1:
				op.Height = excelize.MaxRowHeight + 1 // rejected
			case 2:
				op.Hidden = true
			case 3:
				op.Outline = 1 + r.Intn(8) // 8 is rejected
			}
			h.Ops = append(h.Ops, op)
			wroteRow = true
		}
	}
	return h
}

var c11panes = &excelize.Panes{Freeze: true, XSplit: 1, YSplit: 1, TopLeftCell: "B2", ActivePane: "bottomRight",
	Selection: []excelize.Selection{{SQRef: "B2", ActiveCell: "B2", Pane: "bottomRight"}}}

// run the history through a StreamWriter; accepted[i] tells whether call i returned nil
func c11Stream(h c11hist) (*excelize.File, []int, []bool, error) {
	f := excelize.NewFile()
	styles := registerStyles(f)
	sw, err := f.NewStreamWriter("Sheet1")
	if err != nil {
		return nil, nil, nil, err
	}
	var acc []bool
	for _, op := range h.Ops {
		var e error
		switch op.Op {
		case "colstyle":
			id := op.Style
			if id < len(styles) {
				id = styles[id]
			}
			e = sw.SetColStyle(op.Col, op.Col, id)
		case "colwidth":
			e = sw.SetColWidth(op.Col, op.Col, op.Width)
		case "panes":
			e = sw.SetPanes(c11panes)
		case "merge":
			p := strings.Split(op.Ref, ":")
			e = sw.MergeCell(p[0], p[1])
		case "row":
			vals := make([]interface{}, len(op.Vals))
			for i, v := range op.Vals {
				if !v.Nil {
					vals[i] = v.goValue(styles)
				}
			}
			opts := excelize.RowOpts{StyleID: styles[op.RowSty], Height: op.Height, Hidden: op.Hidden, OutlineLevel: op.Outline}
			e = sw.SetRow(op.Cell, vals, opts)
		}
		acc = append(acc, e == nil)
	}
	if err := sw.Flush(); err != nil {
		return nil, nil, nil, err
	}
	return f, styles, acc, nil
}

// the equivalent in-memory calls for the accepted operations
func c11Memory(h c11hist, acc []bool) (*excelize.File, error) {
	f := excelize.NewFile()
	styles := registerStyles(f)
	const sh = "Sheet1"
	for i, op := range h.Ops {
		if !acc[i] {
			continue
		}
		var e error
		switch op.Op {
		case "colstyle":
			cn, _ := excelize.ColumnNumberToName(op.Col)
			e = f.SetColStyle(sh, cn, styles[op.Style])
		case "colwidth":
			cn, _ := excelize.ColumnNumberToName(op.Col)
			e = f.SetColWidth(sh, cn, cn, op.Width)
		case "panes":
			e = f.SetPanes(sh, c11panes)
		case "merge":
			p := strings.Split(op.Ref, ":")
			e = f.MergeCell(sh, p[0], p[1])
		case "row":
			col, row, _ := excelize.CellNameToCoordinates(op.Cell)
			if op.RowSty != 0 {
				e = f.SetRowStyle(sh, row, row, styles[op.RowSty])
			}
			if op.Height > 0 && e == nil {
				e = f.SetRowHeight(sh, row, op.Height)
			}
			if op.Hidden && e == nil {
				e = f.SetRowVisible(sh, row, false)
			}
			if op.Outline > 0 && e == nil {
				e = f.SetRowOutlineLevel(sh, row, uint8(op.Outline))
			}
			for j, v := range op.Vals {
				if v.Nil || e != nil {
					continue
				}
				nm, _ := excelize.CoordinatesToCellName(col+j, row)
				bare := v
				bare.AsCell = 0
				if val := bare.goValue(styles); val != nil {
					if rt, ok := val.([]excelize.RichTextRun); ok {
						e = f.SetCellRichText(sh, nm, rt)
					} else {
						e = f.SetCellValue(sh, nm, val)
					}
				}
				if v.AsCell != 0 && v.Formula != "" && e == nil {
					e = f.SetCellFormula(sh, nm, v.Formula)
				}
				if v.AsCell != 0 && styles[v.Style] > 0 && e == nil {
					e = f.SetCellStyle(sh, nm, nm, styles[v.Style])
				}
			}
		}
		if e != nil {
			return nil, fmt.Errorf("in-memory equivalent of accepted call %d (%s %s) failed: %v", i, op.Op, op.Cell, e)
		}
	}
	return f, nil
}

func c11Kind(f *excelize.File, cell string) (int, string, string, int, error) {
	const sh = "Sheet1"
	v, err := f.GetCellValue(sh, cell, excelize.Options{RawCellValue: true})
	if err != nil {
		return 0, "", "", 0, err
	}
	t, err := f.GetCellType(sh, cell)
	if err != nil {
		return 0, "", "", 0, err
	}
	fm, err := f.GetCellFormula(sh, cell)
	if err != nil {
		return 0, "", "", 0, err
	}
	st, err := f.GetCellStyle(sh, cell)
	if err != nil {
		return 0, "", "", 0, err
	}
	k := 0
	switch t {
	case excelize.CellTypeBool:
		k = 1
	case excelize.CellTypeSharedString, excelize.CellTypeInlineString, excelize.CellTypeFormula:
		k = 2
	case excelize.CellTypeDate:
		k = 5
	case excelize.CellTypeError:
		k = 6
	}
	if fm != "" {
		k = 9
	}
	return k, v, fm, st, nil
}

// window observation in the model's format, plus sheet attributes
func c11Observe(f *excelize.File, c0, r0, w, h int, styleNorm map[int]int, written map[int]bool, implicitRows map[int]bool) (string, string, error) {
	var sb strings.Builder
	for r := r0; r < r0+h; r++ {
		for c := c0; c < c0+w; c++ {
			nm, _ := excelize.CoordinatesToCellName(c, r)
			k, v, fm, st, err := c11Kind(f, nm)
			if err != nil {
				return "", "", err
			}
			if n, ok := styleNorm[st]; ok {
				st = n
			}
			fs := "-"
			if fm != "" {
				fs = hexb(fm)
				v = "" // the cached value of a formula cell is not part of the compared projection (C03 note)
			}
			if implicitRows[r] {
				st = 0
			}
			fmt.Fprintf(&sb, " %d:%s:%s:%d", k, hexb(v), fs, st)
		}
	}
	var at strings.Builder
	const sh = "Sheet1"
	for r := r0; r < r0+h; r++ {
		if !written[r] {
			continue // getters answer for rows that do not exist by convention, not from content
		}
		ht, _ := f.GetRowHeight(sh, r)
		vis, _ := f.GetRowVisible(sh, r)
		ol, _ := f.GetRowOutlineLevel(sh, r)
		fmt.Fprintf(&at, "|r%d:%v,%v,%d", r, ht, vis, ol)
	}
	for c := 1; c <= 9; c++ {
		cn, _ := excelize.ColumnNumberToName(c)
		wd, _ := f.GetColWidth(sh, cn)
		st, _ := f.GetColStyle(sh, cn)
		fmt.Fprintf(&at, "|c%s:%v,%d", cn, wd, st)
	}
	mcs, _ := f.GetMergeCells(sh)
	var ms []string
	for _, m := range mcs {
		ms = append(ms, m.GetStartAxis()+":"+m.GetEndAxis())
	}
	fmt.Fprintf(&at, "|M%v", ms)
	p, _ := f.GetPanes(sh)
	fmt.Fprintf(&at, "|P%v,%v,%v,%v,%s", p.Freeze, p.XSplit, p.YSplit, p.TopLeftCell, p.ActivePane)
	rows, err := f.GetRows(sh)
	if err != nil {
		return "", "", err
	}
	fmt.Fprintf(&at, "|rows=%d", len(rows))
	return sb.String(), at.String(), nil
}

func colOf(cell string) int {
	c, _, _ := excelize.CellNameToCoordinates(cell)
	return c
}

func c11Reopen(f *excelize.File) (*excelize.File, error) {
	var buf bytes.Buffer
	if err := f.Write(&buf); err != nil {
		return nil, err
	}
	return excelize.OpenReader(bytes.NewReader(buf.Bytes()))
}

func (c *Ctx) c11Hist(h c11hist) (req string, implLine string, ok bool) {
	desc := map[string]interface{}{"history": h}
	c.guard("C11_no_panic", desc, func() {
		fs, styles, acc, err := c11Stream(h)
		if err != nil {
			c.Fail("oracle", "C11_equiv", desc, "streaming failed: "+err.Error(), "")
			return
		}
		defer fs.Close()
		fm, err := c11Memory(h, acc)
		if err != nil {
			c.Fail("oracle", "C11_equiv", desc, err.Error(), "")
			return
		}
		defer fm.Close()
		gs, err := c11Reopen(fs)
		if err != nil {
			c.Fail("oracle", "C11_equiv", desc, "the streamed workbook does not reopen: "+err.Error(), "")
			return
		}
		defer gs.Close()
		gm, err := c11Reopen(fm)
		if err != nil {
			c.Fail("oracle", "C11_equiv", desc, "the in-memory workbook does not reopen: "+err.Error(), "")
			return
		}
		defer gm.Close()
		// styles created implicitly (time and duration values get a date/time number format) are not "explicitly assigned":
		// every id beyond the harness table counts as no style
		norm := map[int]int{}
		for id := len(styles); id < len(styles)+40; id++ {
			norm[id] = 0
		}
		maxRow := 4
		written := map[int]bool{}
		implicit := map[[2]int]bool{} // rows holding time/duration values: the library picks a number format itself
		for i, op := range h.Ops {
			if op.Op == "row" {
				if _, r, e := excelize.CellNameToCoordinates(op.Cell); e == nil && r < 200 {
					if r+1 > maxRow {
						maxRow = r + 1
					}
					// a row accepted with nothing in it exists in the stream only; row getters answer by convention there
					some := op.RowSty != 0 || op.Height > 0 || op.Hidden || op.Outline > 0
					for _, v := range op.Vals {
						if !v.Nil && !(v.Kind == "none" && v.Formula == "" && v.Style == 0) {
							some = true
						}
						if v.Kind == "dur" || v.Kind == "time" {
							implicit[[2]int{colOf(op.Cell) + 0, r}] = true
						}
					}
					if acc[i] && some {
						written[r] = true
					}
				}
			}
		}
		impRows := map[int]bool{}
		for k := range implicit {
			impRows[k[1]] = true
		}
		ws, as, err := c11Observe(gs, 1, 1, 9, maxRow, norm, written, impRows)
		if err != nil {
			c.Fail("oracle", "C11_equiv", desc, "reading the streamed workbook failed: "+err.Error(), "")
			return
		}
		wm, am, err := c11Observe(gm, 1, 1, 9, maxRow, norm, written, impRows)
		if err != nil {
			c.Fail("oracle", "C11_equiv", desc, "reading the in-memory workbook failed: "+err.Error(), "")
			return
		}
		nAcc := 0
		for _, a := range acc {
			if a {
				nAcc++
			}
		}
		c.Count("history", nAcc > 1, fmt.Sprint(h))
		if ws != wm {
			a, b := strings.Fields(ws), strings.Fields(wm)
			for i := range a {
				if i < len(b) && a[i] != b[i] {
					nm, _ := excelize.CoordinatesToCellName(1+i%9, 1+i/9)
					c.Fail("oracle", "C11_equiv", desc, fmt.Sprintf("cell %s (kind:value:formula:style) reads %s from the streamed workbook and %s from the in-memory one", nm, a[i], b[i]), "")
					break
				}
			}
		}
		if as != am {
			c.Fail("oracle", "C11_attrs", desc, "sheet attributes differ between the streamed and the in-memory workbook: "+firstDiff(am, as), "")
		}
		// far corner: the cells written at XFD
		for _, op := range h.Ops {
			if op.Op == "row" && strings.HasPrefix(op.Cell, "XF") {
				k1, v1, f1, s1, _ := c11Kind(gs, op.Cell)
				k2, v2, f2, s2, _ := c11Kind(gm, op.Cell)
				if f1 != "" {
					v1, v2 = "", "" // cached value of a formula cell
				}
				if _, r, _ := excelize.CellNameToCoordinates(op.Cell); impRows[r] || s1 >= len(styles) || s2 >= len(styles) {
					s1, s2 = 0, 0
				}
				if k1 != k2 || v1 != v2 || f1 != f2 || s1 != s2 {
					c.Fail("oracle", "C11_equiv", desc, fmt.Sprintf("cell %s: streamed (%d,%q,%q,%d) in-memory (%d,%q,%q,%d)", op.Cell, k1, v1, f1, s1, k2, v2, f2, s2), "")
				}
			}
		}
		// model request (only the modelled call kinds; others make the history model-incomparable)
		var toks []string
		var accM []string
		for i, op := range h.Ops {
			switch op.Op {
			case "colstyle":
				valid := op.Style < len(styles)
				id := op.Style
				if valid {
					id = styles[id]
				}
				toks = append(toks, fmt.Sprintf("K,%d,%d,%s", op.Col, id, tf(valid)))
				accM = append(accM, tf(acc[i]))
			case "row":
				col, row, e := excelize.CellNameToCoordinates(op.Cell)
				if e != nil {
					col, row = 1, excelize.TotalRows+1
				}
				optsOK := op.Height <= excelize.MaxRowHeight && op.Outline <= 7
				parts := []string{"R", strconv.Itoa(col), strconv.Itoa(row), strconv.Itoa(styles[op.RowSty]), tf(optsOK)}
				for _, v := range op.Vals {
					t, okv := v.token(styles)
					if !okv {
						return
					}
					parts = append(parts, t)
				}
				toks = append(toks, strings.Join(parts, ","))
				accM = append(accM, tf(acc[i]))
			case "colwidth", "panes", "merge":
				// not in the model: they do not interact with the modelled calls except through sheetWritten,
				// which only rows set
			}
		}
		req = fmt.Sprintf("c11.run 1 1 9 %d %s", maxRow, strings.Join(toks, " "))
		implLine = strings.Join(accM, "") + " |" + ws
		ok = true
	})
	return
}

func (c *Ctx) c11Histories(n int) {
	var reqs, impl []string
	var hs []c11hist
	for i := 0; i < n; i++ {
		h := c.c11Gen(4+c.Rng.Intn(14), i%5 != 0)
		req, line, ok := c.c11Hist(h)
		if ok {
			reqs, impl, hs = append(reqs, req), append(impl, line), append(hs, h)
		} else {
			c.R.Dist["model-incomparable"]++
		}
	}
	if c.Model == nil || c.Model.path == "" || len(reqs) == 0 {
		return
	}
	outs := c.Model.Call(reqs)
	for i, o := range outs {
		c.R.Traces++
		// model: "<acc> <rows> |<window>"; drop the row list
		p := strings.SplitN(o, " |", 2)
		if len(p) != 2 {
			c.Fail("model-impl", "c11.run", map[string]interface{}{"history": hs[i]}, "model: "+o, "")
			continue
		}
		m := strings.Fields(p[0])[0] + " |" + p[1]
		if len(strings.Fields(p[0])) == 0 {
			m = " |" + p[1]
		}
		if m != impl[i] {
			c.Fail("model-impl", "c11.run", map[string]interface{}{"history": hs[i], "request": reqs[i]},
				"acceptance flags / reopened cells differ between implementation and model: "+firstDiff(m, impl[i]), "")
		}
	}
}

// a stream large enough to spill to a temp file (16 MiB) against the same rows written in memory; temp files are counted
func (c *Ctx) c11Spill(rows int) {
	desc := map[string]interface{}{"rows": rows, "bytes_per_row": 2100}
	c.guard("C11_no_panic", desc, func() {
		dir, err := os.MkdirTemp("", "vh-c11-")
		if err != nil {
			return
		}
		defer os.RemoveAll(dir)
		old := os.Getenv("TMPDIR")
		os.Setenv("TMPDIR", dir)
		defer os.Setenv("TMPDIR", old)
		pad := strings.Repeat("p", 2000)
		f := excelize.NewFile()
		sw, _ := f.NewStreamWriter("Sheet1")
		m := excelize.NewFile()
		spilledAt := 0
		for r := 1; r <= rows; r++ {
			cell := "A" + strconv.Itoa(r)
			vals := []interface{}{r, fmt.Sprintf("%s-%d", pad, r), float64(r) / 4}
			if err := sw.SetRow(cell, vals); err != nil {
				c.Fail("oracle", "C11_spill", desc, "SetRow failed: "+err.Error(), "")
				return
			}
			if r%97 == 0 || r == rows {
				m.SetSheetRow("Sheet1", cell, &vals)
			}
			if spilledAt == 0 {
				if fs, _ := filepath.Glob(filepath.Join(dir, "excelize-*")); len(fs) > 0 {
					spilledAt = r
				}
			}
		}
		c.Count("spill", true, strconv.Itoa(rows))
		if err := sw.Flush(); err != nil {
			c.Fail("oracle", "C11_spill", desc, "Flush failed: "+err.Error(), "")
			return
		}
		var buf bytes.Buffer
		if err := f.Write(&buf); err != nil {
			c.Fail("oracle", "C11_spill", desc, "saving failed: "+err.Error(), "")
			return
		}
		f.Close()
		if rows*2100 > excelize.StreamChunkSize && spilledAt == 0 {
			c.Fail("oracle", "C11_spill", desc, "the stream never created its temp file although it exceeds StreamChunkSize: the spill path was not exercised", "")
		}
		c.R.Dist[fmt.Sprintf("spilled-at-row-%d", spilledAt)]++
		if left, _ := filepath.Glob(filepath.Join(dir, "excelize-*")); len(left) > 0 {
			c.Fail("oracle", "C11_spill_cleanup", desc, fmt.Sprintf("%d temp file(s) left after Close: %v", len(left), left), "")
		}
		g, err := excelize.OpenReader(bytes.NewReader(buf.Bytes()))
		if err != nil {
			c.Fail("oracle", "C11_spill", desc, "the spilled stream does not reopen: "+err.Error(), "")
			return
		}
		defer g.Close()
		for r := 1; r <= rows; r++ {
			if r%97 != 0 && r != rows {
				continue
			}
			for col := 1; col <= 3; col++ {
				nm, _ := excelize.CoordinatesToCellName(col, r)
				a, _ := g.GetCellValue("Sheet1", nm)
				b, _ := m.GetCellValue("Sheet1", nm)
				if a != b {
					c.Fail("oracle", "C11_spill", desc, fmt.Sprintf("cell %s after spilling reads %.40q, in memory %.40q", nm, a, b), "")
					return
				}
			}
		}
		rs, _ := g.GetRows("Sheet1")
		if len(rs) != rows {
			c.Fail("oracle", "C11_spill", desc, fmt.Sprintf("%d rows read back, %d written", len(rs), rows), "")
		}
		m.Close()
	})
}

// the buffered writer around the spill threshold against the model (sizes in MiB units, chunk = 16)
func (c *Ctx) c11Buffered() {
	const mib = 1 << 20
	cases := [][]int{
		{3, 0, 5, 0}, {15, 0, 1, 0, 1, 0}, {16, 0, 1, 0}, {8, 8, 0, 2}, {17, 0, 17, 0, 1}, {4, 0, 4, 0, 4, 0, 4, 0, 4, 0}, {20}, {1, 0, 16, 1, 0, 0},
	}
	var reqs []string
	type obs struct {
		spilled  bool
		buffered int
		n        int
	}
	var got []obs
	for _, cs := range cases {
		var ops []int
		var toks []string
		total := 0
		for _, u := range cs {
			ops = append(ops, u*mib)
			if u == 0 {
				toks = append(toks, "S")
			} else {
				toks = append(toks, "Wx"+strings.Repeat("00", u))
				total += u * mib
			}
		}
		c.guard("C11_no_panic", cs, func() {
			sp, bl, data, err := excelize.VerifBufferedWriter(ops)
			c.Count("buffered-writer", true, fmt.Sprint(cs))
			if err != nil {
				c.Fail("oracle", "C11_spill_independent", cs, "buffered writer failed: "+err.Error(), "")
				return
			}
			want := make([]byte, total)
			for i := range want {
				want[i] = byte(i)
			}
			if sha256.Sum256(data) != sha256.Sum256(want) {
				c.Fail("oracle", "C11_spill_independent", cs, fmt.Sprintf("reader returns %d bytes that are not the %d bytes written in order", len(data), total), "")
			}
			got = append(got, obs{sp, bl / mib, len(data) / mib})
			reqs = append(reqs, "c11.bw 16 "+strings.Join(toks, " "))
		})
	}
	if c.Model == nil || c.Model.path == "" {
		return
	}
	outs := c.Model.Call(reqs)
	for i, o := range outs {
		c.R.Traces++
		fs := strings.Fields(o)
		if len(fs) != 3 {
			c.Fail("model-impl", "c11.bw", reqs[i], "model: "+o, "")
			continue
		}
		m := fmt.Sprintf("%d %s %s", (len(fs[0])-1)/2, fs[1], fs[2])
		im := fmt.Sprintf("%d %s %d", got[i].n, tf(got[i].spilled), got[i].buffered)
		if m != im {
			c.Fail("model-impl", "c11.bw", reqs[i], "buffered writer [MiB total, spilled, MiB in memory]: implementation "+im+", model "+m, "")
		}
	}
}

// a table, merges given in either corner order and panes, placed before/after the rows in every admissible order
func (c *Ctx) c11TableOrders() {
	type step struct{ name string }
	orders := [][]string{
		{"panes", "rows", "merge", "table"}, {"panes", "rows", "table", "merge"}, {"merge", "panes", "rows", "table"},
		{"rows", "merge", "table"}, {"merge", "rows", "table"}, {"rows", "table"},
	}
	for _, ord := range orders {
		desc := map[string]interface{}{"order": ord}
		c.guard("C11_no_panic", desc, func() {
			build := func(stream bool) (*excelize.File, error) {
				f := excelize.NewFile()
				var sw *excelize.StreamWriter
				if stream {
					sw, _ = f.NewStreamWriter("Sheet1")
				}
				for _, st := range ord {
					var e error
					switch st {
					case "panes":
						if stream {
							e = sw.SetPanes(c11panes)
						} else {
							e = f.SetPanes("Sheet1", c11panes)
						}
					case "rows":
						for r := 1; r <= 5 && e == nil; r++ {
							vals := []interface{}{fmt.Sprintf("h%d", r), r, float64(r) / 2}
							if r == 1 {
								vals = []interface{}{"Name", "Qty", "Price"}
							}
							if stream {
								e = sw.SetRow("A"+strconv.Itoa(r), vals)
							} else {
								e = f.SetSheetRow("Sheet1", "A"+strconv.Itoa(r), &vals)
							}
						}
					case "merge":
						if stream {
							e = sw.MergeCell("F3", "E2")
							if e == nil {
								e = sw.MergeCell("E8", "F9")
							}
						} else {
							e = f.MergeCell("Sheet1", "F3", "E2")
							if e == nil {
								e = f.MergeCell("Sheet1", "E8", "F9")
							}
						}
					case "table":
						tb := &excelize.Table{Range: "A1:C5", Name: "T1", StyleName: "TableStyleMedium2", ShowFirstColumn: true}
						if stream {
							e = sw.AddTable(tb)
						} else {
							e = f.AddTable("Sheet1", tb)
						}
					}
					if e != nil {
						return nil, fmt.Errorf("%s: %v", st, e)
					}
				}
				if stream {
					if e := sw.Flush(); e != nil {
						return nil, e
					}
				}
				return f, nil
			}
			fs, e1 := build(true)
			fm, e2 := build(false)
			c.Count("table-order", true, fmt.Sprint(ord))
			if e1 != nil || e2 != nil {
				c.Fail("oracle", "C11_attrs", desc, fmt.Sprintf("stream error %v, in-memory error %v", e1, e2), "")
				return
			}
			gs, e1 := c11Reopen(fs)
			gm, e2 := c11Reopen(fm)
			if e1 != nil || e2 != nil {
				c.Fail("oracle", "C11_attrs", desc, fmt.Sprintf("reopen: stream %v, in-memory %v", e1, e2), "")
				return
			}
			show := func(g *excelize.File) string {
				var sb strings.Builder
				tbs, _ := g.GetTables("Sheet1")
				for _, t := range tbs {
					fmt.Fprintf(&sb, "T[%s %s %s %v]", t.Name, t.Range, t.StyleName, t.ShowFirstColumn)
				}
				mcs, _ := g.GetMergeCells("Sheet1")
				for _, m := range mcs {
					fmt.Fprintf(&sb, "M[%s:%s]", m.GetStartAxis(), m.GetEndAxis())
				}
				p, _ := g.GetPanes("Sheet1")
				fmt.Fprintf(&sb, "P[%v %v %v %s %s]", p.Freeze, p.XSplit, p.YSplit, p.TopLeftCell, p.ActivePane)
				rows, _ := g.GetRows("Sheet1")
				fmt.Fprintf(&sb, "R%v", rows)
				return sb.String()
			}
			if a, b := show(gs), show(gm); a != b {
				c.Fail("oracle", "C11_attrs", desc, "table / merged cells / panes / rows differ: streamed "+a+" in-memory "+b, "")
			}
			fs.Close()
			fm.Close()
			gs.Close()
			gm.Close()
		})
	}
}

func runC11(c *Ctx) {
	c.R.Rule = "random stream histories (4..17 calls: SetRow with gaps, nil cells, start columns A..D and XFC/XFD, values int/float/string/bool/Cell/*Cell with style and formula/rich text/duration/time, row options style/height/hidden/outline, SetColStyle, SetColWidth, SetPanes, MergeCell; out-of-order rows, rows beyond the limits, invalid options and styles, over-long rich text interleaved) run through StreamWriter and through the equivalent in-memory calls for the accepted operations; both saved, reopened and compared cell by cell (kind, raw value, formula, style) and on sheet attributes; acceptance flags and reopened cells compared with the extracted model; one stream beyond 16 MiB with temp-file accounting; buffered writer around the threshold vs model. non-trivial = at least two accepted calls"
	n := 250
	if c.Thorough() {
		n = 3000
	}
	c.c11Histories(n)
	c.c11Buffered()
	c.c11TableOrders()
	c.c11Spill(8200)
	if c.Thorough() {
		c.c11Spill(25000)
	}
}
