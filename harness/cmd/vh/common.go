package main

import (
	"strings"
	"runtime/debug"
	"encoding/json"
	"fmt"
)

// mcase: one correspondence case: request line for the model, the implementation's
// canonicalised answer in the same syntax, and a description for replay.
type mcase struct {
	Req  string      `json:"req"`
	Impl string      `json:"impl"`
	Rel  string      `json:"rel"`
	Desc interface{} `json:"desc,omitempty"`
	knownID func(model string) string
}

// compareBatch sends all requests to the model and records disagreements.
func (c *Ctx) compareBatch(cases []mcase) {
	if c.Model == nil || c.Model.path == "" {
		c.R.Notes = append(c.R.Notes, "model runner unavailable: correspondence skipped")
		return
	}
	const chunk = 200000
	for i := 0; i < len(cases); i += chunk {
		j := i + chunk
		if j > len(cases) {
			j = len(cases)
		}
		reqs := make([]string, j-i)
		for k := i; k < j; k++ {
			reqs[k-i] = cases[k].Req
		}
		outs := c.Model.Call(reqs)
		for k := i; k < j; k++ {
			c.R.Traces++
			if outs[k-i] != cases[k].Impl {
				kid := ""
				if cases[k].knownID != nil {
					kid = cases[k].knownID(outs[k-i])
				}
				c.Fail("model-impl", cases[k].Rel, map[string]interface{}{"req": cases[k].Req, "desc": cases[k].Desc},
					fmt.Sprintf("model=%q impl=%q on %s", outs[k-i], cases[k].Impl, cases[k].Req), kid)
			}
		}
	}
}

func okOrErr(ok string, class int, err error) string {
	if err != nil {
		return fmt.Sprintf("err %d", class)
	}
	return "ok " + ok
}

// extractHists finds history objects ({"sheet":..,"ops":[..]}) inside a replay case.
func extractHists(v interface{}) []hist {
	var out []hist
	var walk func(x interface{})
	walk = func(x interface{}) {
		switch t := x.(type) {
		case map[string]interface{}:
			if _, ok := t["ops"]; ok {
				b, _ := json.Marshal(t)
				var h hist
				if json.Unmarshal(b, &h) == nil {
					out = append(out, h)
				}
				return
			}
			for _, y := range t {
				walk(y)
			}
		case []interface{}:
			for _, y := range t {
				walk(y)
			}
		}
	}
	walk(v)
	return out
}

// guard runs one case; a panic inside the implementation is a failure of that case, not of the harness.
func (c *Ctx) guard(rel string, desc interface{}, fn func()) {
	defer func() {
		if r := recover(); r != nil {
			// where: the innermost excelize frame, if any (a panic inside the harness itself shows harness frames only)
			where := ""
			for _, ln := range strings.Split(string(debug.Stack()), "\n") {
				if strings.Contains(ln, "/repo/") && !strings.Contains(ln, "verif_hooks") {
					where = " at " + strings.TrimSpace(strings.Split(ln, " +")[0])
					break
				}
			}
			c.Fail("oracle", rel, desc, fmt.Sprintf("the implementation panicked: %v%s", r, where), "")
		}
	}()
	fn()
}

func jsonMarshal(v interface{}) ([]byte, error)   { return json.Marshal(v) }
func jsonUnmarshal(b []byte, v interface{}) error { return json.Unmarshal(b, v) }
