package main

// workerMain runs potentially crashing / unbounded operations in an isolated process.
var workers = map[string]func(args []string){}

func workerMain(args []string) {
	if len(args) == 0 {
		fatal("worker: missing kind")
	}
	w, ok := workers[args[0]]
	if !ok {
		fatal("worker: unknown kind %s", args[0])
	}
	w(args[1:])
}
