package main

import (
	"bufio"
	"encoding/json"
	"fmt"
	"os"
	"os/exec"
	"regexp"
	"sort"
	"strings"
	"time"

	"github.com/xuri/excelize/v2"
)

func init() {
	props["C09"] = propFn{run: runC09, replay: func(c *Ctx, f Failure) { runC09(c) }}
	workers["c09"] = c09Worker
}

type c09res struct {
	Formula string `json:"formula"`
	Outcome string `json:"outcome"` // ok | error | panic | changed | nondeterministic | slow
	Detail  string `json:"detail,omitempty"`
	Ms      int64  `json:"ms"`
}

func c09Workbook() *excelize.File {
	f := excelize.NewFile()
	f.NewSheet("Sheet2")
	vals := []interface{}{1, 2.5, -3, "text", "5", true, nil, 0, 1e10, "2024-01-01"}
	for i, v := range vals {
		n, _ := excelize.CoordinatesToCellName(1, i+1)
		f.SetCellValue("Sheet1", n, v)
		n2, _ := excelize.CoordinatesToCellName(2, i+1)
		f.SetCellValue("Sheet1", n2, i+1)
	}
	f.SetCellFormula("Sheet1", "C1", "A1+B1")
	f.SetCellFormula("Sheet1", "C2", "1/0")
	f.SetDefinedName(&excelize.DefinedName{Name: "nm", RefersTo: "Sheet1!$A$1:$B$3", Scope: "Workbook"})
	f.MergeCell("Sheet1", "E1", "F2")
	sid, _ := f.NewStyle(&excelize.Style{NumFmt: 2})
	f.SetCellStyle("Sheet1", "B1", "B3", sid)
	return f
}

func c09Observe(f *excelize.File) string {
	var sb strings.Builder
	for _, sh := range f.GetSheetList() {
		for r := 1; r <= 11; r += 2 {
			for col := 1; col <= 7; col += 2 {
				n, _ := excelize.CoordinatesToCellName(col, r)
				v, _ := f.GetCellValue(sh, n, excelize.Options{RawCellValue: true})
				fm, _ := f.GetCellFormula(sh, n)
				st, _ := f.GetCellStyle(sh, n)
				fmt.Fprintf(&sb, "%s/%s/%d|", v, fm, st)
			}
		}
		mc, _ := f.GetMergeCells(sh)
		fmt.Fprint(&sb, len(mc))
	}
	for _, dn := range f.GetDefinedName() {
		sb.WriteString(dn.Name + "=" + dn.RefersTo)
	}
	return sb.String()
}

var volatileFns = []string{"RAND", "NOW", "TODAY", "RANDBETWEEN", "RANDARRAY"}

// worker: reads formulas (one per line) from the file in args[0], evaluates each in Z99, prints one JSON line per formula
func c09Worker(args []string) {
	fh, err := os.Open(args[0])
	if err != nil {
		fatal("c09 worker: %v", err)
	}
	defer fh.Close()
	f := c09Workbook()
	base := c09Observe(f)
	sc := bufio.NewScanner(fh)
	sc.Buffer(make([]byte, 1<<20), 1<<24)
	out := bufio.NewWriter(os.Stdout)
	defer out.Flush()
	for sc.Scan() {
		formula := sc.Text()
		r := c09res{Formula: formula, Outcome: "ok"}
		start := time.Now()
		doneCh := make(chan struct{})
		go func() {
			defer close(doneCh)
			defer func() {
				if p := recover(); p != nil {
					r.Outcome, r.Detail = "panic", fmt.Sprint(p)
				}
			}()
			// "@H1=f1;Sheet2!H2=f2@formula": formulas put into other cells first (reference cycles through functions)
			var setup [][2]string
			if strings.HasPrefix(formula, "@") {
				if p := strings.SplitN(formula[1:], "@", 2); len(p) == 2 {
					formula = p[1]
					for _, a := range strings.Split(p[0], ";") {
						if kv := strings.SplitN(a, "=", 2); len(kv) == 2 {
							sh, cl := "Sheet1", kv[0]
							if q := strings.SplitN(kv[0], "!", 2); len(q) == 2 {
								sh, cl = q[0], q[1]
							}
							setup = append(setup, [2]string{sh, cl})
							f.SetCellFormula(sh, cl, kv[1])
						}
					}
				}
			}
			defer func() {
				for _, sc := range setup {
					f.SetCellFormula(sc[0], sc[1], "")
					f.SetCellValue(sc[0], sc[1], nil)
				}
			}()
			if err := f.SetCellFormula("Sheet1", "G11", formula); err != nil {
				r.Outcome = "error"
				return
			}
			v1, e1 := f.CalcCellValue("Sheet1", "G11")
			v2, e2 := f.CalcCellValue("Sheet1", "G11")
			if e1 != nil {
				r.Outcome = "error"
			}
			vol := false
			up := strings.ToUpper(formula)
			for _, vf := range volatileFns {
				if strings.Contains(up, vf) {
					vol = true
				}
			}
			if !vol && (v1 != v2 || (e1 == nil) != (e2 == nil)) {
				r.Outcome, r.Detail = "nondeterministic", fmt.Sprintf("%q/%v then %q/%v", v1, e1, v2, e2)
			}
			f.SetCellFormula("Sheet1", "G11", "")
			f.SetCellValue("Sheet1", "G11", nil)
		}()
		select {
		case <-doneCh:
		case <-time.After(4 * time.Second):
			r.Outcome, r.Detail, r.Ms = "timeout", "no result within 4 s", 4000
			b, _ := json.Marshal(r)
			out.Write(b)
			out.WriteByte('\n')
			out.Flush()
			os.Exit(3)
		}
		r.Ms = time.Since(start).Milliseconds()
		if r.Outcome != "panic" {
			if now := c09Observe(f); now != base {
				r.Outcome, r.Detail = "changed", firstDiff(base, now)
				f = c09Workbook()
			}
		} else {
			f = c09Workbook()
		}
		if r.Ms > 15000 && (r.Outcome == "ok" || r.Outcome == "error") {
			r.Outcome = "slow"
		}
		b, _ := json.Marshal(r)
		out.Write(b)
		out.WriteByte('\n')
		out.Flush()
	}
}

// runIsolated evaluates the formulas in a child process; a crash or a timeout is attributed to the formula being run
func (c *Ctx) c09Isolated(kind string, formulas []string) {
	t0 := time.Now()
	n0 := len(formulas)
	defer func() {
		c.R.Notes = append(c.R.Notes, fmt.Sprintf("%s: %d formulas in %.1fs", kind, n0, time.Since(t0).Seconds()))
	}()
	for len(formulas) > 0 {
		if len(c.R.Failures) >= 4 {
			// enough concrete failing formulas: a change that makes many evaluations hang would otherwise use up the
			// time of the whole check, one watchdog period per formula
			c.R.Notes = append(c.R.Notes, fmt.Sprintf("%s: stopped after %d failures, %d formulas not evaluated", kind, len(c.R.Failures), len(formulas)))
			return
		}
		tmp, _ := os.CreateTemp("", "vh-c09-*.txt")
		for _, fm := range formulas {
			tmp.WriteString(strings.ReplaceAll(fm, "\n", " ") + "\n")
		}
		tmp.Close()
		cmd := exec.Command(os.Args[0], "worker", "c09", tmp.Name())
		stdout, _ := cmd.StdoutPipe()
		cmd.Stderr = nil
		cmd.Start()
		done := 0
		rd := bufio.NewReader(stdout)
		timer := time.AfterFunc(time.Duration(60+len(formulas)/20)*time.Second, func() { cmd.Process.Kill() })
		// the worker answers every formula within its own 4 s watchdog: 15 s of silence mean it is stuck outside it
		silence := time.AfterFunc(15*time.Second, func() { cmd.Process.Kill() })
		for {
			line, err := rd.ReadString('\n')
			silence.Reset(15 * time.Second)
			if len(line) > 0 {
				var r c09res
				if json.Unmarshal([]byte(line), &r) == nil {
					done++
					c.Count(kind, r.Outcome == "ok" || r.Outcome == "error", r.Formula)
					c.R.Dist[kind+":"+r.Outcome]++
					switch r.Outcome {
					case "panic":
						c.Fail("oracle", "C09_no_panic", map[string]interface{}{"formula": r.Formula}, fmt.Sprintf("CalcCellValue of %q panicked: %s", r.Formula, r.Detail), c09Known(r.Formula, "panic"))
					case "changed":
						c.Fail("oracle", "C09_pure", map[string]interface{}{"formula": r.Formula}, fmt.Sprintf("evaluating %q modified the workbook: %s", r.Formula, r.Detail), "")
					case "nondeterministic":
						c.Fail("oracle", "C09_deterministic", map[string]interface{}{"formula": r.Formula}, fmt.Sprintf("%q evaluated twice: %s", r.Formula, r.Detail), "")
					case "timeout":
						c.Fail("oracle", "C09_terminates", map[string]interface{}{"formula": r.Formula}, fmt.Sprintf("CalcCellValue of %q did not return within 4 s", r.Formula), c09Known(r.Formula, "timeout"))
					case "slow":
						c.Fail("oracle", "C09_terminates", map[string]interface{}{"formula": r.Formula}, fmt.Sprintf("%q took %d ms", r.Formula, r.Ms), "")
					}
				}
			}
			if err != nil {
				break
			}
		}
		timer.Stop()
		silence.Stop()
		werr := cmd.Wait()
		os.Remove(tmp.Name())
		if done < len(formulas) {
			// the worker died (fatal error, stack overflow) or was killed (timeout) while evaluating formulas[done]
			if werr != nil && strings.Contains(werr.Error(), "exit status 3") {
				// the worker reported a timeout for formulas[done-1] and exited: go on with the rest
				formulas = formulas[done:]
				continue
			}
			bad := formulas[done]
			c.Count(kind, false, bad)
			c.R.Dist[kind+":crash"]++
			c.Fail("oracle", "C09_terminates", map[string]interface{}{"formula": bad}, fmt.Sprintf("worker died or was killed while evaluating %q (%v)", bad, werr), c09Known(bad, "crash"))
			formulas = formulas[done+1:]
			continue
		}
		break
	}
}

// known-finding matcher: one id per (function, failure kind); only single calls of that function match
func c09Known(formula, detail string) string {
	i := strings.Index(formula, "(")
	// parentheses inside string literals do not count
	var bare strings.Builder
	inStr := false
	for _, r := range formula {
		if r == '"' {
			inStr = !inStr
			continue
		}
		if !inStr {
			bare.WriteRune(r)
		}
	}
	if i <= 0 || strings.Count(bare.String(), "(") != strings.Count(bare.String(), ")") {
		return ""
	}
	name := strings.ToUpper(formula[:i])
	for _, r := range name {
		if !((r >= 'A' && r <= 'Z') || (r >= '0' && r <= '9') || r == '.') {
			return ""
		}
	}
	kind := "panic"
	if detail == "timeout" || detail == "crash" {
		kind = "hang"
	}
	return "c09-" + kind + "-" + name
}

func runC09(c *Ctx) {
	c.R.Rule = "CalcCellValue in isolated worker processes (panic recovered per formula, crash/timeout attributed to the formula): (i) every string up to length L (3 quick / 4 thorough) over a 16-symbol alphabet and single-token mutations of well-formed seed formulas; (ii) every formula function name x arities 0..3 (0..4 thorough) x a dictionary of argument kinds, plus hostile text arguments (regex metacharacters, bare comparison operators, escapes) alone and as criteria over a range; (iii) every reference graph over 3 (4 thorough) formula cells incl. self references, and reference cycles of length 1..3 that pass through reference-returning functions (INDIRECT, OFFSET, INDEX, CHOOSE, IF, lookups, aggregates over ranges), other sheets and the formula cell itself; each evaluated twice (determinism), workbook observation before/after (purity), wall time. non-trivial = evaluation returned a value or an error"
	// (i) short strings and mutations
	alphabet := []string{"1", "A", "(", ")", "+", "-", "*", "^", "\"", ",", "!", "%", "&", "=", "<", "$"} // no ":" here: A:A / 1:1 build million-cell matrices
	maxLen := 3
	if c.Thorough() {
		maxLen = 4
	}
	var strs []string
	var gen func(p string, l int)
	gen = func(p string, l int) {
		if l == 0 {
			strs = append(strs, p)
			return
		}
		for _, a := range alphabet {
			gen(p+a, l-1)
		}
	}
	for l := 1; l <= maxLen; l++ {
		gen("", l)
	}
	seeds := []string{"SUM(A1:B3)+1", "IF(A1>1,\"x\",B2)", "-A1%^2", "\"a\"&A4", "nm", "SUM(nm)*2", "(A1+B1)*(A2-B2)", "A1:B2", "Sheet2!A1", "INDEX(A1:B3,2,2)", "{1,2;3,4}", "SUM({1,2;3,4})"}
	if !c.Thorough() {
		seeds = []string{"SUM(A1:B3)+1", "IF(A1>1,\"x\",B2)", "-A1%^2", "SUM(nm)*2", "(A1+B1)*(A2-B2)", "SUM({1,2;3,4})"}
	}
	muts := []string{"", "(", ")", ",", "+", "\"", "%", "{", "}", "!", "'", " ", "#REF!", "1E999", "A0", "XFE1", "A1048577"}
	for _, s := range seeds {
		for i := 0; i <= len(s); i++ {
			for _, m := range muts {
				strs = append(strs, s[:i]+m+s[i:])
				if i < len(s) {
					strs = append(strs, s[:i]+m+s[i+1:])
				}
			}
		}
	}
	strs = append(strs, "A1:B2:C3", "A1::B2", "SUM(A1:B2:C3)")
	strs = append(strs, strings.Repeat("(", 200)+"1"+strings.Repeat(")", 200), strings.Repeat("-", 500)+"1", strings.Repeat("1+", 2000)+"1",
		strings.Repeat("SUM(", 100)+"1"+strings.Repeat(")", 100), strings.Repeat("A1&", 500)+"A1", "1"+strings.Repeat("%", 300))
	// references with a whole-column / whole-row endpoint (A1:B, 1:3) build matrices of millions of cells: they
	// terminate but take seconds each; kept out of the string stream (a handful is in the explicit list above)
	wholeRe := regexp.MustCompile(`(^|[^A-Za-z0-9$])\$?([A-Za-z]+|[0-9]+):|:\$?([A-Za-z]+|[0-9]+)($|[^A-Za-z0-9$])`)
	var kept []string
	for _, x := range strs {
		if !wholeRe.MatchString(x) || len(x) > 400 {
			kept = append(kept, x)
		}
	}
	strs = kept
	if os.Getenv("C09_ONLY") != "functions" {
		c.c09Isolated("string", strs)
	}
	if os.Getenv("C09_ONLY") == "strings" {
		return
	}
	// (ii) functions x arities x kinds
	names := excelize.VerifFormulaFuncNames()
	sort.Strings(names)
	kinds := []string{"1", "0", "-1", "2.5", "1E+307", "\"text\"", "\"\"", "TRUE", "A1:B3", "A7", "1/0", "{1,2;3,4}", "A4", "nm", "-1E+307", "\"2024-01-01\""}
	maxAr := 3
	perFn := 5
	if c.Thorough() {
		maxAr, perFn = 4, 120
	}
	// deterministic enumeration (independent of the seed, so that the set of findings is stable):
	// arity 0, every kind alone, every pair over k2 kinds, every triple over k3 kinds (and quadruples in thorough)
	_, _ = perFn, maxAr
	k2 := []string{"1", "\"text\"", "A1:B3"}
	k3 := []string{"0", "A4"}
	if c.Thorough() {
		k2 = []string{"1", "-1", "\"text\"", "\"\"", "A1:B3", "1E+307", "A7", "{1,2;3,4}"}
		k3 = []string{"0", "A4", "1E+307", "A1:B3"}
	}
	// text arguments that reach pattern matching, criteria parsing and number/date parsing with hostile content
	crits := []string{"\"a(b\"", "\"[\"", "\"*)\"", "\"\\\"", "\">=\"", "\"~\""}
	if c.Thorough() {
		crits = append(crits, "\"?*+\"", "\"<>\"", "\"=*(\"", "\">text\"", "\"{\"", "\"1e999\"", "\"-\"", "\"%\"", "\"1/1/99999\"")
	}
	var calls []string
	for _, nm := range names {
		fn := strings.ReplaceAll(nm, "dot", ".")
		for _, k := range crits {
			calls = append(calls, fn+"("+k+")", fn+"(A1:B3,"+k+")", fn+"(A1:B3,"+k+",A1:B3)")
			if c.Thorough() {
				calls = append(calls, fn+"("+k+",A1:B3,0)", fn+"("+k+","+k+")", fn+"(1,"+k+")")
			}
		}
		calls = append(calls, fn+"()")
		for _, k := range kinds {
			calls = append(calls, fn+"("+k+")")
		}
		for _, a := range k2 {
			for _, b := range k2 {
				calls = append(calls, fn+"("+a+","+b+")")
			}
		}
		for _, a := range k3 {
			for _, b := range k3 {
				for _, d := range k3 {
					calls = append(calls, fn+"("+a+","+b+","+d+")")
				}
			}
		}
	}
	c.R.Dist["functions"] = len(names)
	for i := 0; i < len(calls); i += 4000 {
		j := i + 4000
		if j > len(calls) {
			j = len(calls)
		}
		c.c09Isolated("function-call", calls[i:j])
	}
	// (iii b) reference cycles that pass through reference-returning functions, ranges, names and other sheets
	// (the formula cell is G11; "@cell=formula;...@" puts formulas into other cells first)
	var cyc []string
	for _, self := range []string{"INDIRECT(\"G11\")", "INDIRECT(\"G\"&11)", "INDIRECT(\"R11C7\",FALSE)", "INDIRECT(\"Sheet1!G11\")", "OFFSET(G11,0,0)", "OFFSET(G10,1,0)",
		"OFFSET(A1,10,6)", "INDEX(G11:G12,1)", "INDEX(A1:G11,11,7)", "SUM(G1:G11)", "SUM(A11:Z11)", "IF(1,G11,0)", "IF(0,0,G11)", "CHOOSE(1,G11)", "SUM(INDIRECT(\"G11\"))",
		"Sheet1!G11", "G11", "G11+1", "-G11", "G11&\"\"", "N(G11)", "T(G11)", "ISBLANK(G11)", "ROW(G11)", "COUNT(G11)", "COUNTIF(G1:G11,\">0\")", "SUMIF(G1:G11,\">0\")", "VLOOKUP(1,B1:G11,6,FALSE)",
		"MATCH(1,G1:G11,0)", "LOOKUP(1,B1:B11,G1:G11)", "HLOOKUP(1,A11:G11,1,FALSE)", "SUMPRODUCT(G1:G11)", "AVERAGE(G1:G500)", "SUM(11:11)", "ANCHORARRAY(G11)", "FORMULATEXT(G11)", "ISFORMULA(G11)", "CELL(\"contents\",G11)",
		"XLOOKUP(1,B1:B11,G1:G11)", "TRANSPOSE(G11)", "AGGREGATE(9,0,G1:G11)", "SUBTOTAL(9,G1:G11)", "IFERROR(G11,1)", "IFS(TRUE,G11)", "SWITCH(1,1,G11)", "AND(G11)", "MAX(G11,1)"} {
		cyc = append(cyc, self)
	}
	for _, via := range []string{"INDIRECT(\"H2\")", "OFFSET(H2,0,0)", "INDEX(H2:H3,1)", "SUM(H2:H3)", "IF(1,H2,0)", "CHOOSE(1,H2)", "H2", "INDIRECT(\"Sheet2!H2\")", "Sheet2!H2", "IFERROR(H2,0)", "VLOOKUP(1,B1:H2,7,FALSE)", "ANCHORARRAY(H2)"} {
		for _, back := range []string{"H1", "INDIRECT(\"H1\")", "OFFSET(H1,0,0)", "SUM(H1:H1)", "Sheet1!H1", "G11", "INDIRECT(\"G11\")"} {
			cyc = append(cyc, "@H1="+via+";H2="+back+";Sheet2!H2=Sheet1!H1@H1")
			cyc = append(cyc, "@H1="+via+";H2=H3+1;H3="+back+";Sheet2!H2=Sheet1!H3@1+H1")
		}
	}
	// formula cells referred to more than once in one evaluation (memoised results), followed by other formula cells
	cyc = append(cyc, "C1+C1", "C1+C1+C2", "C1/SUM(C1:C2)", "SUM(C1:C2)+C1+C2", "C1*C1+C1&C2", "IF(C1>0,C1,C2)+C1", "@H1=C1+C1;H2=H1+C1@H1+H2+H1",
		"@H1=C1;H2=H1+H1;H3=H2+H1@H3+H2+H1", "SUM(C1:C2,C1:C2)", "C1+Sheet1!C1+C2")
	c.c09Isolated("reference-cycle", cyc)
	// (iii) reference graphs: cells H1..Hn with formulas referring to subsets of each other
	n := 3
	if c.Thorough() {
		n = 4
	}
	c.c09Graphs(n)
	c.Sample(map[string]interface{}{"strings": len(strs), "function calls": len(calls), "examples": []string{strs[17], calls[3], calls[len(calls)/2]}})
}

func (c *Ctx) c09Graphs(n int) {
	cells := []string{"H1", "H2", "H3", "H4"}[:n]
	total := 1
	for i := 0; i < n*n; i++ {
		total *= 2
	}
	step := 1
	if total > 600 && !c.Thorough() {
		step = total / 600
	}
	for mask := 0; mask < total; mask += step {
		if len(c.R.Failures) >= 4 {
			return
		}
		func() {
			desc := map[string]interface{}{"graph_mask": mask, "cells": n}
			c.guard("C09_no_panic", desc, func() {
				f := excelize.NewFile()
				defer f.Close()
				for i := 0; i < n; i++ {
					var refs []string
					for j := 0; j < n; j++ {
						if mask&(1<<uint(i*n+j)) != 0 {
							refs = append(refs, cells[j])
						}
					}
					fm := "1"
					if len(refs) > 0 {
						fm = "1+" + strings.Join(refs, "+")
					}
					f.SetCellFormula("Sheet1", cells[i], fm)
				}
				before := c09Observe(f)
				done := make(chan [2]string, 1)
				go func() {
					v1, _ := f.CalcCellValue("Sheet1", cells[0])
					v2, _ := f.CalcCellValue("Sheet1", cells[0])
					done <- [2]string{v1, v2}
				}()
				select {
				case r := <-done:
					c.Count("graph", mask != 0, fmt.Sprint(mask))
					if r[0] != r[1] {
						c.Fail("oracle", "C09_deterministic", desc, fmt.Sprintf("graph %d: %q then %q", mask, r[0], r[1]), "")
					}
					if after := c09Observe(f); after != before {
						c.Fail("oracle", "C09_pure", desc, "evaluation modified the workbook: "+firstDiff(before, after), "")
					}
				case <-time.After(10 * time.Second):
					c.Fail("oracle", "C09_terminates", desc, fmt.Sprintf("reference graph %d over %d cells does not terminate within 10 s", mask, n), "")
				}
			})
		}()
	}
}
