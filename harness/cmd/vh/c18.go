package main

import (
	"bytes"
	"fmt"
	"reflect"
	"sort"
	"strings"

	"github.com/xuri/excelize/v2"
)

func init() { props["C18"] = propFn{run: runC18, replay: func(c *Ctx, f Failure) { runC18(c) }} }

// ---- pointer-field option structures: nil = leave unchanged ----
type c18pair struct {
	name string
	zero func() interface{}                                     // *Options
	set  func(f *excelize.File, o interface{}) error
	get  func(f *excelize.File) (interface{}, error)            // Options (value)
}

var c18strDomain = map[string][]string{
	"View":        {"normal", "pageLayout", "pageBreakPreview", "bogus"},
	"Orientation": {"portrait", "landscape", "sideways"},
	"PageOrder":   {"overThenDown", "downThenOver", "zigzag"},
	"CalcMode":    {"manual", "auto", "autoNoTable", "sometimes"},
	"RefMode":     {"A1", "R1C1", "Z9"},
	"CodeName":    {"Sheet1", "code<&>\"x'", "ü€", ""},
	"TabColorRGB": {"FF0000", "00FF00FF", "", "zz"},
	"TopLeftCell": {"B2", "A1", "XFD1048576", "ZZZZ1"},
}

func (c *Ctx) c18Fill(o interface{}) {
	v := reflect.ValueOf(o).Elem()
	for i := 0; i < v.NumField(); i++ {
		fld := v.Field(i)
		if fld.Kind() != reflect.Ptr || c.Rng.Intn(2) == 0 {
			continue
		}
		nv := reflect.New(fld.Type().Elem())
		switch nv.Elem().Kind() {
		case reflect.Bool:
			nv.Elem().SetBool(c.Rng.Intn(2) == 0)
		case reflect.String:
			dom := c18strDomain[v.Type().Field(i).Name]
			if dom == nil {
				dom = []string{"x", ""}
			}
			nv.Elem().SetString(dom[c.Rng.Intn(len(dom))])
		case reflect.Int, reflect.Int64:
			nv.Elem().SetInt([]int64{0, 1, 5, 9, 10, 100, 400, 401, -1, 32767}[c.Rng.Intn(10)])
		case reflect.Uint, reflect.Uint8, reflect.Uint64:
			x := []uint64{0, 1, 9, 10, 100, 255, 400, 401, 32767}[c.Rng.Intn(9)]
			if nv.Elem().Kind() == reflect.Uint8 && x > 255 {
				x = 255
			}
			nv.Elem().SetUint(x)
		case reflect.Float64:
			nv.Elem().SetFloat([]float64{0, 0.25, 0.75, 1, 9.99, 10, 100, 400, 400.5, -1}[c.Rng.Intn(10)])
		}
		fld.Set(nv)
	}
}

func c18ShowNorm(x interface{}) string {
	return strings.ReplaceAll(strings.ReplaceAll(strings.ReplaceAll(strings.ReplaceAll(c18Show(x), "=nil", "="), "=false", "="), "=0 ", "= "), "=0", "=")
}

func c18Show(x interface{}) string {
	v := reflect.ValueOf(x)
	if v.Kind() == reflect.Ptr {
		v = v.Elem()
	}
	var parts []string
	for i := 0; i < v.NumField(); i++ {
		f := v.Field(i)
		if f.Kind() == reflect.Ptr {
			if f.IsNil() {
				parts = append(parts, v.Type().Field(i).Name+"=nil")
			} else {
				parts = append(parts, fmt.Sprintf("%s=%v", v.Type().Field(i).Name, f.Elem().Interface()))
			}
		} else {
			parts = append(parts, fmt.Sprintf("%s=%v", v.Type().Field(i).Name, f.Interface()))
		}
	}
	return strings.Join(parts, " ")
}

// fields a setter documents as ignored or bounded: the value the getter must then report is the previous one
func c18Ignored(pair, field string, val interface{}) bool {
	switch pair + "." + field {
	case "SheetView.ZoomScale":
		z := val.(float64)
		return z < 10 || z > 400
	case "PageLayout.FirstPageNumber":
		return val.(uint) == 0 // documented: no value means automatic numbering, the stored number stays
	case "SheetView.View":
		s := val.(string)
		return s != "normal" && s != "pageLayout" && s != "pageBreakPreview"
	}
	return false
}

func (c *Ctx) c18PointerPairs(n int) {
	const sh = "Sheet1"
	pairs := []c18pair{
		{"WorkbookProps", func() interface{} { return &excelize.WorkbookPropsOptions{} },
			func(f *excelize.File, o interface{}) error { return f.SetWorkbookProps(o.(*excelize.WorkbookPropsOptions)) },
			func(f *excelize.File) (interface{}, error) { return f.GetWorkbookProps() }},
		{"CalcProps", func() interface{} { return &excelize.CalcPropsOptions{} },
			func(f *excelize.File, o interface{}) error { return f.SetCalcProps(o.(*excelize.CalcPropsOptions)) },
			func(f *excelize.File) (interface{}, error) { return f.GetCalcProps() }},
		{"SheetProps", func() interface{} { return &excelize.SheetPropsOptions{} },
			func(f *excelize.File, o interface{}) error { return f.SetSheetProps(sh, o.(*excelize.SheetPropsOptions)) },
			func(f *excelize.File) (interface{}, error) { return f.GetSheetProps(sh) }},
		{"SheetView", func() interface{} { return &excelize.ViewOptions{} },
			func(f *excelize.File, o interface{}) error { return f.SetSheetView(sh, 0, o.(*excelize.ViewOptions)) },
			func(f *excelize.File) (interface{}, error) { return f.GetSheetView(sh, 0) }},
		{"PageLayout", func() interface{} { return &excelize.PageLayoutOptions{} },
			func(f *excelize.File, o interface{}) error { return f.SetPageLayout(sh, o.(*excelize.PageLayoutOptions)) },
			func(f *excelize.File) (interface{}, error) { return f.GetPageLayout(sh) }},
		{"PageMargins", func() interface{} { return &excelize.PageLayoutMarginsOptions{} },
			func(f *excelize.File, o interface{}) error { return f.SetPageMargins(sh, o.(*excelize.PageLayoutMarginsOptions)) },
			func(f *excelize.File) (interface{}, error) { return f.GetPageMargins(sh) }},
	}
	for _, p := range pairs {
		for i := 0; i < n; i++ {
			f := excelize.NewFile()
			// a short sequence of sets on one file: later ones must keep what earlier ones supplied
			steps := 1 + c.Rng.Intn(3)
			var hist []string
			ok := true
			for s := 0; s < steps && ok; s++ {
				o := p.zero()
				c.c18Fill(o)
				hist = append(hist, c18Show(o))
				desc := map[string]interface{}{"pair": p.name, "sets": hist}
				c.guard("C18_no_panic", desc, func() {
					before, err := p.get(f)
					if err != nil {
						c.Fail("oracle", "C18_putget", desc, "getter failed before the set: "+err.Error(), "")
						ok = false
						return
					}
					serr := p.set(f, o)
					after, err := p.get(f)
					c.Count(p.name, serr == nil, c18Show(o))
					if err != nil {
						c.Fail("oracle", "C18_putget", desc, "getter failed after the set: "+err.Error(), "")
						ok = false
						return
					}
					bv, av, ov := reflect.ValueOf(before), reflect.ValueOf(after), reflect.ValueOf(o).Elem()
					for k := 0; k < ov.NumField(); k++ {
						name := ov.Type().Field(k).Name
						want := bv.Field(k)
						if serr == nil && !ov.Field(k).IsNil() && !c18Ignored(p.name, name, ov.Field(k).Elem().Interface()) {
							want = ov.Field(k)
						}
						got := av.Field(k)
						// default-normalised: an absent field and the zero value are the same answer
						norm := func(v reflect.Value) interface{} {
							if v.IsNil() {
								return reflect.Zero(v.Type().Elem()).Interface()
							}
							return v.Elem().Interface()
						}
						same := reflect.DeepEqual(norm(want), norm(got))
						if !same {
							what := "a field the caller did not supply changed"
							if serr != nil {
								what = "the set was rejected (" + serr.Error() + ") but a field changed"
							} else if !ov.Field(k).IsNil() {
								what = "a supplied field does not read back"
							}
							c.Fail("oracle", "C18_putget", desc, fmt.Sprintf("%s.%s: %s: before [%s] set [%s] after [%s]", p.name, name, what, c18Show(before), c18Show(o), c18Show(after)), "")
							ok = false
							return
						}
					}
				})
			}
			if !ok {
				f.Close()
				continue
			}
			// unrelated edits, then save and reopen: the getter answers the same
			desc := map[string]interface{}{"pair": p.name, "sets": hist}
			c.guard("C18_no_panic", desc, func() {
				want, _ := p.get(f)
				f.SetCellValue(sh, "C3", "unrelated")
				f.NewSheet("Other")
				f.SetColWidth(sh, "B", "B", 33)
				if got, _ := p.get(f); c18ShowNorm(got) != c18ShowNorm(want) {
					c.Fail("oracle", "C18_unrelated", desc, fmt.Sprintf("%s changed by unrelated edits: [%s] -> [%s]", p.name, c18Show(want), c18Show(got)), "")
				}
				var buf bytes.Buffer
				if err := f.Write(&buf); err != nil {
					c.Fail("oracle", "C18_persist", desc, "save failed: "+err.Error(), "")
					return
				}
				g, err := excelize.OpenReader(bytes.NewReader(buf.Bytes()))
				if err != nil {
					c.Fail("oracle", "C18_persist", desc, "the saved workbook does not open: "+err.Error(), "")
					return
				}
				defer g.Close()
				if got, _ := p.get(g); c18ShowNorm(got) != c18ShowNorm(want) {
					c.Fail("oracle", "C18_persist", desc, fmt.Sprintf("%s after save and reopen: [%s], before: [%s]", p.name, c18Show(got), c18Show(want)), "")
				}
			})
			f.Close()
		}
	}
}

// ---- value structures: the whole structure is replaced ----
var c18texts = []string{"", "plain", "a<b>&\"c'", "ü€𝄞", " lead", "line\nbreak", "2024-01-02T03:04:05Z", "&amp;", "]]>", "tab\there"}

func (c *Ctx) c18Text() string { return c18texts[c.Rng.Intn(len(c18texts))] }

func (c *Ctx) c18ValuePairs(n int) {
	const sh = "Sheet1"
	reopen := func(f *excelize.File) (*excelize.File, error) {
		var buf bytes.Buffer
		if err := f.Write(&buf); err != nil {
			return nil, err
		}
		return excelize.OpenReader(bytes.NewReader(buf.Bytes()))
	}
	for i := 0; i < n; i++ {
		// document properties
		dp := &excelize.DocProperties{Category: c.c18Text(), ContentStatus: c.c18Text(), Creator: c.c18Text(), Description: c.c18Text(), Identifier: c.c18Text(),
			Keywords: c.c18Text(), LastModifiedBy: c.c18Text(), Revision: c.c18Text(), Subject: c.c18Text(), Title: c.c18Text(), Language: c.c18Text(), Version: c.c18Text(),
			Created: "2019-06-04T22:00:10Z", Modified: "2019-06-04T22:00:10Z"}
		ap := &excelize.AppProperties{Application: c.c18Text(), ScaleCrop: c.Rng.Intn(2) == 0, DocSecurity: c.Rng.Intn(5), Company: c.c18Text(), LinksUpToDate: c.Rng.Intn(2) == 0, HyperlinksChanged: c.Rng.Intn(2) == 0, AppVersion: "16.0000"}
		hf := &excelize.HeaderFooterOptions{DifferentFirst: c.Rng.Intn(2) == 0, DifferentOddEven: c.Rng.Intn(2) == 0, OddHeader: "&R&P " + c.c18Text(), OddFooter: "&C&F" + c.c18Text(), EvenHeader: "&L&P", EvenFooter: "&L&D&R&T", FirstHeader: "&C" + c.c18Text(), FirstFooter: c.c18Text()}
		if c.Rng.Intn(2) == 0 {
			b := c.Rng.Intn(2) == 0
			hf.AlignWithMargins, hf.ScaleWithDoc = &b, &b
		}
		dim := []string{"A1:B2", "C3:XFD1048576", "B2", "A1:A1"}[c.Rng.Intn(4)]
		desc := map[string]interface{}{"doc": dp, "app": ap, "header_footer": hf, "dimension": dim}
		c.guard("C18_no_panic", desc, func() {
			f := excelize.NewFile()
			defer f.Close()
			e1, e2, e3, e4 := f.SetDocProps(dp), f.SetAppProps(ap), f.SetHeaderFooter(sh, hf), f.SetSheetDimension(sh, dim)
			c.Count("value-structs", true, fmt.Sprint(dp, ap, hf, dim))
			check := func(stage string, g *excelize.File) {
				if e1 == nil {
					if got, err := g.GetDocProps(); err != nil || !reflect.DeepEqual(got, dp) {
						c.Fail("oracle", "C18_putget", desc, fmt.Sprintf("document properties %s: got %+v (err %v), set %+v", stage, got, err, dp), "")
					}
				}
				if e2 == nil {
					if got, err := g.GetAppProps(); err != nil || !reflect.DeepEqual(got, ap) {
						c.Fail("oracle", "C18_putget", desc, fmt.Sprintf("application properties %s: got %+v (err %v), set %+v", stage, got, err, ap), "")
					}
				}
				if e3 == nil {
					if got, err := g.GetHeaderFooter(sh); err != nil || c18Show(got) != c18Show(hf) {
						c.Fail("oracle", "C18_putget", desc, fmt.Sprintf("header/footer %s: got [%s] (err %v), set [%s]", stage, c18Show(got), err, c18Show(hf)), "")
					}
				}
				if e4 == nil {
					want := dim
					if got, err := g.GetSheetDimension(sh); err != nil || got != want {
						c.Fail("oracle", "C18_putget", desc, fmt.Sprintf("sheet dimension %s: got %q (err %v), set %q", stage, got, err, want), "")
					}
				}
			}
			check("immediately", f)
			f.SetCellValue("Sheet1", "J9", 1)
			f.NewSheet("S2")
			// (the dimension follows the used range on save: not compared after edits)
			e4keep := e4
			e4 = fmt.Errorf("skip")
			check("after unrelated edits", f)
			g, err := reopen(f)
			if err != nil {
				c.Fail("oracle", "C18_persist", desc, "save/reopen failed: "+err.Error(), "")
				return
			}
			defer g.Close()
			check("after save and reopen", g)
			e4 = e4keep
		})
	}
}

// ---- protection ----
func (c *Ctx) c18Protection(n int) {
	const sh = "Sheet1"
	algos := []string{"", "XOR", "MD4", "MD5", "SHA-1", "SHA-256", "SHA-384", "SHA-512"}
	pws := []string{"p", "password", "пароль", "😀🔑", strings.Repeat("k", 255), "a b", "PASSWORD", "p "}
	for i := 0; i < n; i++ {
		algo, pw := algos[c.Rng.Intn(len(algos))], pws[c.Rng.Intn(len(pws))]
		desc := map[string]interface{}{"algorithm": algo, "password": pw}
		c.guard("C18_no_panic", desc, func() {
			f := excelize.NewFile()
			defer f.Close()
			opts := &excelize.SheetProtectionOptions{AlgorithmName: algo, Password: pw, EditScenarios: c.Rng.Intn(2) == 0, SelectLockedCells: true, FormatCells: c.Rng.Intn(2) == 0}
			if err := f.ProtectSheet(sh, opts); err != nil {
				c.Count("protect-rejected", true, algo+pw)
				return
			}
			c.Count("protect", true, algo+pw)
			var buf bytes.Buffer
			f.Write(&buf)
			g, err := excelize.OpenReader(bytes.NewReader(buf.Bytes()))
			if err != nil {
				c.Fail("oracle", "C18_persist", desc, "protected workbook does not reopen: "+err.Error(), "")
				return
			}
			defer g.Close()
			hashed := algo != "" && algo != "XOR"
			for _, wrong := range pws {
				if wrong == pw {
					continue
				}
				// the legacy 16-bit hash has collisions by design: other passwords are only required to fail under SHA/MD
				if err := g.UnprotectSheet(sh, wrong); err == nil && hashed {
					c.Fail("oracle", "C18_passwd", desc, fmt.Sprintf("sheet protected with %q under %s is unprotected by %q", pw, algo, wrong), "")
					return
				}
				if !hashed {
					break
				}
			}
			if err := g.UnprotectSheet(sh, pw); err != nil {
				c.Fail("oracle", "C18_passwd", desc, fmt.Sprintf("the password that was set does not verify under %q: %v", algo, err), "")
			}
			// workbook protection
			h := excelize.NewFile()
			defer h.Close()
			if err := h.ProtectWorkbook(&excelize.WorkbookProtectionOptions{AlgorithmName: algo, Password: pw, LockStructure: true}); err != nil {
				return
			}
			if hashed {
				if err := h.UnprotectWorkbook(pw + "x"); err == nil {
					c.Fail("oracle", "C18_passwd", desc, "workbook protection removed with a wrong password", "")
					return
				}
			}
			if err := h.UnprotectWorkbook(pw); err != nil {
				c.Fail("oracle", "C18_passwd", desc, fmt.Sprintf("workbook password does not verify under %q: %v", algo, err), "")
			}
		})
	}
}

// ---- list-valued items: defined names (against the model), data validations, comments, hyperlinks, tables, conditional formats ----
type c18dnOp struct {
	Op    string `json:"op"` // set del
	Name  string `json:"name"`
	Scope string `json:"scope"`
	Ref   string `json:"ref"`
}

func (c *Ctx) c18DefinedNames(n int) {
	names := []string{"alpha", "Beta", "_x", "tax.rate", "ALPHA"}
	scopes := []string{"", "Sheet1", "Other", "Nowhere"}
	var reqs, impl []string
	var descs []interface{}
	for i := 0; i < n; i++ {
		var ops []c18dnOp
		for j := 0; j < 2+c.Rng.Intn(7); j++ {
			op := c18dnOp{Op: "set", Name: names[c.Rng.Intn(len(names))], Scope: scopes[c.Rng.Intn(len(scopes))], Ref: []string{"Sheet1!$A$1", "Other!$B$2:$C$3", "Sheet1!$A$1+\"<&>\""}[c.Rng.Intn(3)]}
			if c.Rng.Intn(3) == 0 {
				op.Op = "del"
			}
			ops = append(ops, op)
		}
		desc := map[string]interface{}{"defined_name_ops": ops}
		c.guard("C18_no_panic", desc, func() {
			f := excelize.NewFile()
			defer f.Close()
			f.NewSheet("Other")
			var acc, toks []string
			for _, o := range ops {
				dn := &excelize.DefinedName{Name: o.Name, Scope: o.Scope, RefersTo: o.Ref}
				before := f.GetDefinedName()
				var err error
				if o.Op == "set" {
					err = f.SetDefinedName(dn)
				} else {
					err = f.DeleteDefinedName(dn)
				}
				acc = append(acc, tf(err == nil))
				after := f.GetDefinedName()
				if err != nil && !reflect.DeepEqual(before, after) {
					c.Fail("oracle", "C18_delete_exact", desc, fmt.Sprintf("%s %s/%s was rejected (%v) but the list changed", o.Op, o.Name, o.Scope, err), "")
					return
				}
				if err == nil && o.Op == "del" {
					// exactly that item went: the one with the requested name (any letter case) in the requested scope
					keep := map[string]int{}
					for _, d := range after {
						keep[strings.ToLower(d.Name)+"|"+d.Scope+"|"+d.RefersTo]++
					}
					var gone []excelize.DefinedName
					for _, d := range before {
						k := strings.ToLower(d.Name) + "|" + d.Scope + "|" + d.RefersTo
						if keep[k] > 0 {
							keep[k]--
						} else {
							gone = append(gone, d)
						}
					}
					wantScope := o.Scope
					if wantScope == "" {
						wantScope = "Workbook"
					}
					if len(gone) != 1 || !strings.EqualFold(gone[0].Name, o.Name) || gone[0].Scope != wantScope || len(after) != len(before)-1 {
						c.Fail("oracle", "C18_delete_exact", desc, fmt.Sprintf("DeleteDefinedName(%s, scope %q) was accepted and removed %+v from %+v", o.Name, o.Scope, gone, before), "")
						return
					}
				}
				scopeValid := tf(o.Scope == "" || o.Scope == "Sheet1" || o.Scope == "Other")
				toks = append(toks, fmt.Sprintf("%s,%s,%s,%s,%s", map[string]string{"set": "S", "del": "D"}[o.Op], hexb(strings.ToLower(o.Name)), hexb(o.Scope), hexb(o.Ref), scopeValid))
			}
			c.Count("defined-names", true, fmt.Sprint(ops))
			show := func(g *excelize.File) string {
				var ss []string
				for _, d := range g.GetDefinedName() {
					scope := d.Scope
					if scope == "Workbook" {
						scope = ""
					}
					ss = append(ss, hexb(strings.ToLower(d.Name))+"/"+hexb(scope)+"="+hexb(d.RefersTo))
				}
				sort.Strings(ss)
				return strings.Join(ss, " ")
			}
			live := show(f)
			var buf bytes.Buffer
			f.Write(&buf)
			if g, err := excelize.OpenReader(bytes.NewReader(buf.Bytes())); err == nil {
				if got := show(g); got != live {
					c.Fail("oracle", "C18_persist", desc, "defined names after save and reopen: "+got+" before: "+live, "")
				}
				g.Close()
			}
			reqs = append(reqs, "c18.names "+strings.Join(toks, " "))
			impl = append(impl, strings.Join(acc, "")+" | "+live)
			descs = append(descs, desc)
		})
	}
	if c.Model == nil || c.Model.path == "" || len(reqs) == 0 {
		return
	}
	outs := c.Model.Call(reqs)
	for i, o := range outs {
		c.R.Traces++
		if strings.TrimSpace(o) != strings.TrimSpace(impl[i]) {
			c.Fail("model-impl", "c18.names", descs[i], "acceptance flags | defined names: implementation ["+impl[i]+"] model ["+o+"]", "")
		}
	}
}

func (c *Ctx) c18Items() {
	const sh = "Sheet1"
	reopen := func(f *excelize.File) *excelize.File {
		var buf bytes.Buffer
		if err := f.Write(&buf); err != nil {
			return nil
		}
		g, err := excelize.OpenReader(bytes.NewReader(buf.Bytes()))
		if err != nil {
			return nil
		}
		return g
	}
	// data validations
	for _, formula := range []string{"\"a,b,c\"", "A1<5", "\"x<y\",\"p&q\"", "$E$1:$E$3", "10", "\"ü€\""} {
		desc := map[string]interface{}{"data_validation_formula1": formula}
		c.guard("C18_no_panic", desc, func() {
			f := excelize.NewFile()
			defer f.Close()
			dv := excelize.NewDataValidation(true)
			dv.SetSqref("A1:B2")
			dv.Type, dv.Formula1 = "custom", formula
			dv2 := excelize.NewDataValidation(true)
			dv2.SetSqref("D4")
			dv2.SetRange(1, 20, excelize.DataValidationTypeWhole, excelize.DataValidationOperatorBetween)
			dv2.SetInput("title <&>", "message \"q\"")
			if err := f.AddDataValidation(sh, dv); err != nil {
				return
			}
			f.AddDataValidation(sh, dv2)
			c.Count("data-validation", true, formula)
			show := func(g *excelize.File) string {
				dvs, err := g.GetDataValidations(sh)
				if err != nil {
					return "err:" + err.Error()
				}
				var ss []string
				for _, d := range dvs {
					pt, pm := "", ""
					if d.PromptTitle != nil {
						pt = *d.PromptTitle
					}
					if d.Prompt != nil {
						pm = *d.Prompt
					}
					ss = append(ss, fmt.Sprintf("%s|%s|%s|%s|%s|%s", d.Sqref, d.Type, d.Formula1, d.Formula2, pt, pm))
				}
				sort.Strings(ss)
				return strings.Join(ss, ";")
			}
			want := show(f)
			if !strings.Contains(want, "|"+formula+"|") {
				c.Fail("oracle", "C18_putget", desc, fmt.Sprintf("data validation formula %q reads back as %s", formula, want), "")
			}
			known := ""
			if strings.ContainsAny(formula, "<>&") {
				known = "c18-data-validation-formula-not-escaped"
			}
			g := reopen(f)
			if g == nil {
				c.Fail("oracle", "C18_persist", desc, fmt.Sprintf("a workbook with the data validation formula %q does not save and reopen", formula), known)
				return
			}
			defer g.Close()
			if got := show(g); got != want {
				c.Fail("oracle", "C18_persist", desc, fmt.Sprintf("data validation formula %q after save and reopen: ", formula)+got+" before: "+want, known)
				return
			}
			// delete exactly one
			if err := g.DeleteDataValidation(sh, "D4"); err == nil {
				// the remaining range may be rewritten as an equivalent list of ranges (A1:A2 B1:B2)
				if got := show(g); strings.Contains(got, "D4") || !strings.Contains(got, "A1") || !strings.Contains(got, "B2") || strings.Count(got, ";") != 0 {
					c.Fail("oracle", "C18_delete_exact", desc, "deleting the validation on D4 left: "+got, "")
				}
			}
		})
	}
	// comments, hyperlinks, tables, conditional formats: set, read, persist, delete exactly one
	c.guard("C18_no_panic", "items", func() {
		f := excelize.NewFile()
		defer f.Close()
		for _, cell := range []string{"A1", "C3", "E5"} {
			f.AddComment(sh, excelize.Comment{Cell: cell, Author: "Au<th>or&", Paragraph: []excelize.RichTextRun{{Text: "note " + cell + " <&>\""}}})
		}
		f.SetCellHyperLink(sh, "B2", "https://example.com/?a=1&b=<2>", "External")
		f.SetCellHyperLink(sh, "B3", "Sheet1!A1", "Location")
		for r := 1; r <= 4; r++ {
			f.SetSheetRow(sh, fmt.Sprintf("G%d", r), &[]interface{}{fmt.Sprintf("h%d", r), r})
		}
		f.AddTable(sh, &excelize.Table{Range: "G1:H4", Name: "Tab1"})
		f.AddTable(sh, &excelize.Table{Range: "J1:K4", Name: "Tab2"})
		st, _ := f.NewConditionalStyle(&excelize.Style{Font: &excelize.Font{Color: "9A0511"}})
		f.SetConditionalFormat(sh, "M1:M10", []excelize.ConditionalFormatOptions{{Type: "cell", Criteria: ">", Format: &st, Value: "6"}})
		f.SetConditionalFormat(sh, "N1:N10", []excelize.ConditionalFormatOptions{{Type: "top", Criteria: "=", Format: &st, Value: "3"}})
		c.Count("items", true, "")
		show := func(g *excelize.File) string {
			var sb strings.Builder
			cs, _ := g.GetComments(sh)
			var ss []string
			for _, cm := range cs {
				txt := ""
				for _, p := range cm.Paragraph {
					txt += p.Text
				}
				ss = append(ss, cm.Cell+":"+cm.Author+":"+txt)
			}
			sort.Strings(ss)
			fmt.Fprintf(&sb, "C%q", ss)
			for _, cell := range []string{"B2", "B3", "B4"} {
				ok, link, _ := g.GetCellHyperLink(sh, cell)
				fmt.Fprintf(&sb, "H[%s %v %s]", cell, ok, link)
			}
			ts, _ := g.GetTables(sh)
			var tn []string
			for _, t := range ts {
				tn = append(tn, t.Name+"@"+t.Range)
			}
			sort.Strings(tn)
			fmt.Fprintf(&sb, "T%v", tn)
			cfs, _ := g.GetConditionalFormats(sh)
			var cn []string
			for k, v := range cfs {
				cn = append(cn, fmt.Sprintf("%s:%s:%s:%s", k, v[0].Type, v[0].Criteria, v[0].Value))
			}
			sort.Strings(cn)
			fmt.Fprintf(&sb, "F%v", cn)
			return sb.String()
		}
		want := show(f)
		for _, must := range []string{"A1:Au<th>or&:", "note C3 <&>\\\"", "https://example.com/?a=1&b=<2>", "Tab1@G1:H4", "M1:M10:cell:greater than:6"} {
			if !strings.Contains(want, must) {
				c.Fail("oracle", "C18_putget", "items", fmt.Sprintf("%q does not read back: %s", must, want), "")
			}
		}
		g := reopen(f)
		if g == nil {
			c.Fail("oracle", "C18_persist", "items", "workbook with comments, hyperlinks, tables and conditional formats does not save and reopen", "")
			return
		}
		defer g.Close()
		if got := show(g); got != want {
			c.Fail("oracle", "C18_persist", "items", "after save and reopen: "+firstDiff(want, got), "")
		}
		g.DeleteComment(sh, "C3")
		g.DeleteTable("Tab1")
		g.UnsetConditionalFormat(sh, "M1:M10")
		g.SetCellHyperLink(sh, "B2", "", "None")
		got := show(g)
		if strings.Contains(got, "C3:") || !strings.Contains(got, "A1:") || !strings.Contains(got, "E5:") || strings.Contains(got, "Tab1") || !strings.Contains(got, "Tab2") || strings.Contains(got, "M1:M10") || !strings.Contains(got, "N1:N10") {
			c.Fail("oracle", "C18_delete_exact", "items", "deleting comment C3, table Tab1, conditional format M1:M10 left: "+got, "")
		}
	})
}

func runC18(c *Ctx) {
	c.R.Rule = "pointer-field option structures (workbook, calculation, sheet properties, sheet view, page layout, page margins): random field subsets with values from per-field domains incl. invalid ones, 1..3 consecutive sets per file; every supplied field reads back, every other field keeps the value the getter reported before, a rejected set changes nothing; then unrelated edits and save/reopen. Value structures (document/application properties, header/footer, dimension) with texts needing XML escaping. Sheet/workbook protection under XOR and SHA/MD algorithms with right and wrong passwords. Defined-name set/delete histories against the extracted model. Data validations with formulas needing escaping, comments, hyperlinks, tables, conditional formats: read back, persist, delete exactly one. Items of seven kinds (comments, validations, conditional formats, tables, hyperlinks, pictures, scoped names) added on one or two sheets, saved or not, every subset of three deleted, saved and reopened: the getter shows exactly what was not deleted. Panes: 1..3 consecutive SetPanes calls (freeze/split/neither, with and without selections), GetPanes answers the last. Pictures: several per cell and per sheet, bytes/extension/alternative text read back, DeletePicture removes exactly that cell's pictures. non-trivial = setter accepted"
	n := 60
	if c.Thorough() {
		n = 400
	}
	c.c18PointerPairs(n)
	c.c18ValuePairs(n / 2)
	c.c18Protection(n / 2)
	c.c18DefinedNames(n * 2)
	c.c18Items()
	c.c18Panes(n * 3)
	c.c18DeleteAfterSave()
	c.c18Pictures(n)
}
