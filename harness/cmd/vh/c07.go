package main

import (
	"fmt"
	"strings"
	"time"

	"github.com/xuri/efp"
	"github.com/xuri/excelize/v2"
)

func init() { props["C07"] = propFn{run: runC07, replay: replayC07} }

type c07ref struct {
	Sheet  string // "" = formula's own sheet
	C1, R1 int    // 0 = absent (whole row / whole column)
	C2, R2 int    // second endpoint; C2==0&&R2==0 -> single cell
	Abs    [4]bool
	Range  bool
}

func maxInt(a, b int) int {
	if a > b {
		return a
	}
	return b
}

func quoteSheet(n string) string {
	plain := true
	for _, r := range n {
		if !((r >= 'A' && r <= 'Z') || (r >= 'a' && r <= 'z') || (r >= '0' && r <= '9')) {
			plain = false
		}
	}
	if plain {
		return n
	}
	return "'" + strings.ReplaceAll(n, "'", "''") + "'"
}

func (r c07ref) text() string {
	d := func(b bool) string {
		if b {
			return "$"
		}
		return ""
	}
	ep := func(c, rw int, ac, ar bool) string {
		s := ""
		if c > 0 {
			cn, _ := excelize.ColumnNumberToName(c)
			s += d(ac) + cn
		}
		if rw > 0 {
			s += d(ar) + fmt.Sprint(rw)
		}
		return s
	}
	s := ep(r.C1, r.R1, r.Abs[0], r.Abs[1])
	if r.Range {
		s += ":" + ep(r.C2, r.R2, r.Abs[2], r.Abs[3])
	}
	if r.Sheet != "" {
		s = quoteSheet(r.Sheet) + "!" + s
	}
	return s
}

type c07case struct {
	Formula  string `json:"formula"`
	Holder   string `json:"formula_sheet"`
	Cell     string `json:"formula_cell"`
	Edited   string `json:"edited_sheet"`
	Rows     bool   `json:"rows"`
	Num      int    `json:"num"`
	Offset   int    `json:"offset"`
	Touches  bool   `json:"endpoint_on_deleted_line"`
	refs     []c07ref
	noEval   bool
}

var c07sheets = []string{"Sheet1", "Other", "My Sheet", "It's"}

func (c *Ctx) c07Ref(holder string) c07ref {
	r := c.Rng
	ref := c07ref{}
	if r.Intn(3) == 0 {
		ref.Sheet = c07sheets[r.Intn(len(c07sheets))]
	}
	for i := range ref.Abs {
		ref.Abs[i] = r.Intn(3) == 0
	}
	switch r.Intn(16) {
	case 0, 1, 2, 3, 8, 9, 10, 11, 12:
		ref.C1, ref.R1 = 1+r.Intn(6), 1+r.Intn(8)
	case 4, 5, 13, 14, 15:
		ref.Range = true
		ref.C1, ref.R1 = 1+r.Intn(4), 1+r.Intn(5)
		ref.C2, ref.R2 = ref.C1+r.Intn(3), ref.R1+r.Intn(4)
	case 6:
		ref.Range = true
		ref.C1 = 1 + r.Intn(5)
		ref.C2 = ref.C1 + r.Intn(2)
	default:
		ref.Range = true
		ref.R1 = 1 + r.Intn(6)
		ref.R2 = ref.R1 + r.Intn(2)
	}
	return ref
}

func (c *Ctx) c07Expr(holder string, depth int, refs *[]c07ref, noEval *bool) string {
	r := c.Rng
	leaf := func() string {
		switch r.Intn(8) {
		case 0:
			return fmt.Sprint(1 + r.Intn(9))
		case 1:
			*noEval = *noEval || false
			return []string{"\"A1\"", "\"B2:C3\"", "\"x\"\"y\"", "\"$A$1\"", "\"Sheet1!A1\""}[r.Intn(5)]
		default:
			ref := c.c07Ref(holder)
			*refs = append(*refs, ref)
			if ref.Range {
				return "SUM(" + ref.text() + ")"
			}
			return ref.text()
		}
	}
	if depth == 0 {
		return leaf()
	}
	switch r.Intn(9) {
	case 0, 1:
		return leaf()
	case 2:
		return c.c07Expr(holder, depth-1, refs, noEval) + []string{"+", "-", "*"}[r.Intn(3)] + c.c07Expr(holder, depth-1, refs, noEval)
	case 3:
		return "(" + c.c07Expr(holder, depth-1, refs, noEval) + ")"
	case 4:
		return "IF(" + c.c07Expr(holder, depth-1, refs, noEval) + ">2," + c.c07Expr(holder, depth-1, refs, noEval) + "," + c.c07Expr(holder, depth-1, refs, noEval) + ")"
	case 5:
		ref := c.c07Ref(holder)
		*refs = append(*refs, ref)
		ref2 := c.c07Ref(holder)
		*refs = append(*refs, ref2)
		return []string{"SUM", "MAX", "MIN", "COUNT"}[r.Intn(4)] + "(" + ref.text() + "," + ref2.text() + "," + fmt.Sprint(r.Intn(5)) + ")"
	case 6:
		return "-" + c.c07Expr(holder, depth-1, refs, noEval)
	case 7:
		return c.c07Expr(holder, depth-1, refs, noEval) + "&" + c.c07Expr(holder, depth-1, refs, noEval)
	default:
		return "LEN(" + leaf() + ")"
	}
}

// expected rewrite: the real tokenizer + the extracted operand model, reassembled as adjustFormulaRef does
func (c *Ctx) c07Expected(k c07case) (reqs []string, parts []string, rangeIdx []int) {
	ps := efp.ExcelParser()
	for _, t := range ps.Parse(k.Formula) {
		switch {
		case t.TType == efp.TokenTypeOperand && t.TSubType == efp.TokenSubTypeRange:
			sp := strings.Split(t.TValue, "!")
			sheetArg, cell, refSheet := "-", t.TValue, k.Holder
			if len(sp) == 2 {
				sheetArg, cell, refSheet = hexb(sp[0]), sp[1], sp[0]
			}
			reqs = append(reqs, fmt.Sprintf("c07.operand %s %d %d %s %s %s", tf(k.Rows), k.Num, k.Offset, sheetArg, tf(refSheet == k.Edited), hexb(cell)))
			rangeIdx = append(rangeIdx, len(parts))
			parts = append(parts, "")
		case t.TType == efp.TokenTypeFunction && t.TSubType == efp.TokenSubTypeStart, t.TType == efp.TokenTypeSubexpression && t.TSubType == efp.TokenSubTypeStart:
			parts = append(parts, t.TValue+"(")
		case t.TType == efp.TokenTypeFunction && t.TSubType == efp.TokenSubTypeStop, t.TType == efp.TokenTypeSubexpression && t.TSubType == efp.TokenSubTypeStop:
			parts = append(parts, t.TValue+")")
		case t.TType == efp.TokenTypeOperand && t.TSubType == efp.TokenSubTypeText:
			parts = append(parts, "\""+strings.ReplaceAll(t.TValue, "\"", "\"\"")+"\"")
		default:
			parts = append(parts, t.TValue)
		}
	}
	return
}

func c07Workbook() *excelize.File {
	f := excelize.NewFile()
	for _, s := range c07sheets[1:] {
		f.NewSheet(s)
	}
	for si, s := range c07sheets {
		for r := 1; r <= 12; r++ {
			for col := 1; col <= 9; col++ {
				n, _ := excelize.CoordinatesToCellName(col, r)
				f.SetCellValue(s, n, (si+1)*1000+r*10+col)
			}
		}
	}
	return f
}

func (c *Ctx) c07Batch(n int) {
	t0 := time.Now()
	defer func() { c.R.Notes = append(c.R.Notes, fmt.Sprintf("batch %d in %.1fs", n, time.Since(t0).Seconds())) }()
	type pending struct {
		k                c07case
		got              string
		reqs, parts      []string
		rangeIdx         []int
		before, after    string
		errBefore, errAf error
		editErr          error
	}
	var pend []pending
	var allReqs []string
	for i := 0; i < n; i++ {
		k := c07case{Holder: c07sheets[c.Rng.Intn(2)], Edited: c07sheets[c.Rng.Intn(len(c07sheets))], Rows: c.Rng.Intn(2) == 0}
		k.Formula = c.c07Expr(k.Holder, 1+c.Rng.Intn(3), &k.refs, &k.noEval)
		if c.Rng.Intn(3) == 0 {
			k.Offset = -1
		} else {
			k.Offset = 1 + c.Rng.Intn(3)
		}
		k.Num = 1 + c.Rng.Intn(9)
		// the formula cell sits outside the data window: column 12, row 14
		fcol, frow := 12, 14
		k.Cell, _ = excelize.CoordinatesToCellName(fcol, frow)
		for _, ref := range k.refs {
			sh := ref.Sheet
			if sh == "" {
				sh = k.Holder
			}
			if sh != k.Edited || k.Offset > 0 {
				continue
			}
			// a removed line that intersects the referenced cells (endpoint, interior, or any line for
			// whole-row / whole-column references) legitimately changes the value
			if k.Rows {
				if ref.R1 == 0 || (ref.R1 <= k.Num && k.Num <= maxInt(ref.R1, ref.R2)) {
					k.Touches = true
				}
			} else {
				if ref.C1 == 0 || (ref.C1 <= k.Num && k.Num <= maxInt(ref.C1, ref.C2)) {
					k.Touches = true
				}
			}
		}
		p := pending{k: k}
		c.guard("C07_no_panic", k, func() {
			f := c07Workbook()
			defer f.Close()
			if err := f.SetCellFormula(k.Holder, k.Cell, k.Formula); err != nil {
				return
			}
			whole := false
			for _, ref := range k.refs {
				if ref.C1 == 0 || ref.R1 == 0 {
					whole = true // evaluating whole rows/columns builds 16384 x n matrices: text comparison only
				}
			}
			if !whole {
				p.before, p.errBefore = f.CalcCellValue(k.Holder, k.Cell)
			}
			if k.Rows {
				if k.Offset > 0 {
					p.editErr = f.InsertRows(k.Edited, k.Num, k.Offset)
				} else {
					p.editErr = f.RemoveRow(k.Edited, k.Num)
				}
			} else {
				cn, _ := excelize.ColumnNumberToName(k.Num)
				if k.Offset > 0 {
					p.editErr = f.InsertCols(k.Edited, cn, k.Offset)
				} else {
					p.editErr = f.RemoveCol(k.Edited, cn)
				}
			}
			// the formula cell itself moves when its sheet is edited before it
			nc, nr := fcol, frow
			if k.Holder == k.Edited && p.editErr == nil {
				if k.Rows && frow >= k.Num {
					nr += k.Offset
				}
				if !k.Rows && fcol >= k.Num {
					nc += k.Offset
				}
			}
			cell2, _ := excelize.CoordinatesToCellName(nc, nr)
			p.got, _ = f.GetCellFormula(k.Holder, cell2)
			if !whole {
				p.after, p.errAf = f.CalcCellValue(k.Holder, cell2)
			}
		})
		p.reqs, p.parts, p.rangeIdx = c.c07Expected(k)
		allReqs = append(allReqs, p.reqs...)
		pend = append(pend, p)
		if i < 3 {
			c.Sample(k)
		}
	}
	var outs []string
	if c.Model != nil && c.Model.path != "" {
		outs = c.Model.Call(allReqs)
	}
	pos := 0
	for _, p := range pend {
		k := p.k
		c.Count("formula-edit", len(k.refs) > 0, fmt.Sprint(k.Formula, k.Holder, k.Edited, k.Rows, k.Num, k.Offset))
		c.R.Dist[fmt.Sprintf("rows=%v offset>0=%v same-sheet=%v", k.Rows, k.Offset > 0, k.Holder == k.Edited)]++
		if p.editErr != nil {
			c.R.Dist["edit-rejected"]++
			pos += len(p.reqs)
			continue
		}
		if outs != nil {
			ok := true
			parts := append([]string{}, p.parts...)
			for i, idx := range p.rangeIdx {
				o := outs[pos+i]
				if !strings.HasPrefix(o, "ok ") {
					ok = false
					break
				}
				parts[idx] = unhex(strings.TrimPrefix(o, "ok "))
			}
			c.R.Traces++
			if ok {
				want := strings.Join(parts, "")
				if want != p.got {
					c.Fail("model-impl", "adjust_operand/formula", k, fmt.Sprintf("formula %q after the edit: implementation %q, model %q", k.Formula, p.got, want), "")
				}
			}
		}
		pos += len(p.reqs)
		// semantic oracle: same value before and after when no endpoint lay on a deleted line
		if !k.Touches && p.errBefore == nil && p.errAf == nil && p.before != p.after {
			c.Fail("oracle", "C07_eval", k, fmt.Sprintf("formula %q evaluated to %q before the edit and %q after it (rewritten to %q)", k.Formula, p.before, p.after, p.got), "")
		}
		if !k.Touches && (p.errBefore == nil) != (p.errAf == nil) {
			c.Fail("oracle", "C07_eval", k, fmt.Sprintf("formula %q: evaluation error changed by the edit: %v -> %v (rewritten to %q)", k.Formula, p.errBefore, p.errAf, p.got), "")
		}
		// verbatim oracle: non-reference tokens and $ markers unchanged
		if m := c07Verbatim(k.Formula, p.got); m != "" {
			c.Fail("oracle", "C07_verbatim", k, m, "")
		}
	}
}

func c07Verbatim(before, after string) string {
	tb, ta := efp.ExcelParser(), efp.ExcelParser()
	b, a := tb.Parse(before), ta.Parse(after)
	if len(a) != len(b) {
		return fmt.Sprintf("token count changed: %q -> %q", before, after)
	}
	for i := range b {
		if b[i].TType != a[i].TType || b[i].TSubType != a[i].TSubType {
			return fmt.Sprintf("token %d changed kind: %q -> %q", i, before, after)
		}
		isRange := b[i].TType == efp.TokenTypeOperand && b[i].TSubType == efp.TokenSubTypeRange
		if !isRange && b[i].TValue != a[i].TValue {
			return fmt.Sprintf("non-reference token %q became %q (%q -> %q)", b[i].TValue, a[i].TValue, before, after)
		}
		if isRange {
			strip := func(s string) string {
				var sb strings.Builder
				for _, r := range s {
					if r == '$' || r == ':' || r == '!' {
						sb.WriteRune(r)
					} else if r >= '0' && r <= '9' {
						if !strings.HasSuffix(sb.String(), "9") {
							sb.WriteByte('9')
						}
					} else if (r >= 'A' && r <= 'Z') || (r >= 'a' && r <= 'z') {
						if !strings.HasSuffix(sb.String(), "A") {
							sb.WriteByte('A')
						}
					} else {
						sb.WriteRune(r)
					}
				}
				return sb.String()
			}
			sb, sa := b[i].TValue, a[i].TValue
			if bi := strings.LastIndex(sb, "!"); bi >= 0 {
				if ai := strings.LastIndex(sa, "!"); ai < 0 || sa[:ai] != sb[:bi] {
					return fmt.Sprintf("sheet name of reference %q changed to %q", sb, sa)
				}
				sb, sa = sb[bi+1:], sa[strings.LastIndex(sa, "!")+1:]
			}
			if strip(sb) != strip(sa) {
				return fmt.Sprintf("shape / $ markers of reference %q changed to %q", b[i].TValue, a[i].TValue)
			}
		}
	}
	return ""
}

func runC07(c *Ctx) {
	defer c.c07Shared()
	c.R.Rule = "formulas from a grammar (cell, range, whole-row, whole-column references, every $ combination, references to other sheets incl. quoted names with spaces and quotes, operators, IF/SUM/MAX/MIN/COUNT/LEN calls, string literals that look like references) stored on one of two sheets; one structural edit (insert 1..3 / remove; rows or columns; position 1..9) on one of four sheets; GetCellFormula vs (real efp tokens + extracted operand model); CalcCellValue before vs after when no endpoint lay on a deleted line; non-reference tokens, sheet names and $ markers verbatim. non-trivial = formula has at least one reference"
	n := 3150
	if c.Thorough() {
		n = 30000
	}
	for done := 0; done < n; done += 350 {
		c.c07Batch(350)
		if c.Failed() {
			break
		}
	}
}

func replayC07(c *Ctx, f Failure) { runC07(c) }
