package main

import (
	"strconv"
	"archive/zip"
	"bytes"
	"fmt"
	"io"
	"regexp"
	"sort"
	"strings"

	"github.com/xuri/excelize/v2"
)

func init() {
	props["C04"] = propFn{run: runC04, replay: replayHist("C04")}
	histCheckers["C04"] = func(c *Ctx, h hist, cases *[]mcase) { c.checkHistC04(h, cases, false) }
}

func noPanic(name string, fn func()) (msg string) {
	defer func() {
		if r := recover(); r != nil {
			msg = fmt.Sprintf("%s panicked: %v", name, r)
		}
	}()
	fn()
	return ""
}

// readBattery performs read-only calls with valid and invalid arguments; returns the first panic message.
func readBattery(f *excelize.File, sheet string, seed int) string {
	sheets := []string{sheet, "NoSuchSheet", "", "Sheet:1", strings.Repeat("x", 40)}
	cells := []string{"A1", "B2", "F6", "XFD1048576", "A0", "", "1A", "A", "$A$1", "a1", "ZZZZ1", "A1048577", "A-1", "A1:B2"}
	var calls []func()
	for _, sh := range sheets {
		sh := sh
		for _, cl := range cells {
			cl := cl
			if cl == "XFD1048576" && sh == sheet && seed%5 != 0 {
				continue
			}
			calls = append(calls,
				func() { f.GetCellValue(sh, cl) },
				func() { f.GetCellValue(sh, cl, excelize.Options{RawCellValue: true}) },
				func() { f.GetCellFormula(sh, cl) },
				func() { f.GetCellStyle(sh, cl) },
				func() { f.GetCellType(sh, cl) },
				func() { f.GetCellHyperLink(sh, cl) },
				func() { f.GetCellRichText(sh, cl) },
				func() { f.CalcCellValue(sh, cl) },
			)
		}
		calls = append(calls,
			func() { f.GetRows(sh) },
			func() { f.GetCols(sh) },
			func() {
				if rs, err := f.Rows(sh); err == nil {
					for rs.Next() {
						rs.Columns()
						rs.GetRowOpts()
					}
					rs.Close()
				}
			},
			func() {
				if cs, err := f.Cols(sh); err == nil {
					for cs.Next() {
						cs.Rows()
					}
				}
			},
			func() { f.GetMergeCells(sh) },
			func() { f.SearchSheet(sh, "a") },
			func() { f.SearchSheet(sh, "[") },
			func() { f.SearchSheet(sh, "[", true) },
			func() { f.SearchSheet(sh, "^[0-9]+$", true) },
			func() { f.SearchSheet(sh, "(", true) },
			func() { f.GetSheetDimension(sh) },
			func() { f.GetSheetProps(sh) },
			func() { f.GetSheetView(sh, 0) },
			func() { f.GetSheetView(sh, 7) },
			func() { f.GetSheetView(sh, -3) },
			func() { f.GetPanes(sh) },
			func() { f.GetPageLayout(sh) },
			func() { f.GetPageMargins(sh) },
			func() { f.GetHeaderFooter(sh) },
			func() { f.GetDataValidations(sh) },
			func() { f.GetConditionalFormats(sh) },
			func() { f.GetTables(sh) },
			func() { f.GetComments(sh) },
			func() { f.GetSheetVisible(sh) },
			func() { f.GetSheetIndex(sh) },
		)
		for _, r := range []int{-1, 0, 1, 3, 10, 1048576, 1048577} {
			r := r
			calls = append(calls, func() { f.GetRowHeight(sh, r) }, func() { f.GetRowVisible(sh, r) }, func() { f.GetRowOutlineLevel(sh, r) })
		}
		for _, cn := range []string{"A", "C", "XFD", "XFE", "", "1", "a"} {
			cn := cn
			calls = append(calls, func() { f.GetColWidth(sh, cn) }, func() { f.GetColVisible(sh, cn) }, func() { f.GetColStyle(sh, cn) }, func() { f.GetColOutlineLevel(sh, cn) })
		}
		for _, cl := range []string{"A1", "B2", "", "ZZZZ1"} {
			cl := cl
			calls = append(calls, func() { f.GetPictures(sh, cl) }, func() { f.GetPictureCells(sh) })
		}
	}
	calls = append(calls,
		func() { f.GetSheetList() }, func() { f.GetSheetMap() }, func() { f.GetDefinedName() }, func() { f.GetActiveSheetIndex() },
		func() { f.GetWorkbookProps() }, func() { f.GetCalcProps() }, func() { f.GetDocProps() }, func() { f.GetAppProps() },
		func() { f.GetSheetName(0) }, func() { f.GetSheetName(-1) }, func() { f.GetSheetName(99) },
		func() { f.GetStyle(0) }, func() { f.GetStyle(1) }, func() { f.GetStyle(-1) }, func() { f.GetStyle(1 << 30) },
		func() { f.GetDefaultFont() }, func() { f.GetBaseColor("FF0000", 0, nil) },
	)
	// rotate the order by the seed
	n := len(calls)
	for i := 0; i < n; i++ {
		k := (i*7 + seed) % n
		if m := noPanic(fmt.Sprintf("read call #%d", k), calls[k]); m != "" {
			return m
		}
	}
	return ""
}

func (c *Ctx) agreeReaders(f *excelize.File, sheet string, desc interface{}, w, h int) {
	fail := func(format string, a ...interface{}) {
		c.Fail("oracle", "C04_rows_agree", desc, fmt.Sprintf(format, a...), "")
	}
	for _, raw := range []bool{false, true} {
		opt := excelize.Options{RawCellValue: raw}
		rows, err := f.GetRows(sheet, opt)
		if err != nil {
			fail("GetRows: %v", err)
			return
		}
		cols, err := f.GetCols(sheet, opt)
		if err != nil {
			fail("GetCols: %v", err)
			return
		}
		// iterators
		var irows [][]string
		if it, err := f.Rows(sheet); err == nil {
			for it.Next() {
				r, _ := it.Columns(opt)
				irows = append(irows, r)
			}
			it.Close()
		}
		var icols [][]string
		if it, err := f.Cols(sheet); err == nil {
			for it.Next() {
				r, _ := it.Rows(opt)
				icols = append(icols, r)
			}
		}
		hh, ww := h, w
		if len(rows) > hh {
			hh = len(rows)
		}
		for _, r := range rows {
			if len(r) > ww {
				ww = len(r)
			}
		}
		if len(cols) > ww {
			ww = len(cols)
		}
		if hh > 40 {
			hh = 40
		}
		if ww > 40 {
			ww = 40
		}
		at := func(m [][]string, i, j int) string {
			if i < len(m) && j < len(m[i]) {
				return m[i][j]
			}
			return ""
		}
		values := map[string][]string{}
		for r := 1; r <= hh; r++ {
			for col := 1; col <= ww; col++ {
				name, _ := excelize.CoordinatesToCellName(col, r)
				v, err := f.GetCellValue(sheet, name, opt)
				if err != nil {
					fail("GetCellValue(%s): %v", name, err)
					return
				}
				// inside a merged range GetCellValue reads the anchor; the streaming readers read the stored cells
				if mv := at(rows, r-1, col-1); mv != v && !inMerged(f, sheet, col, r) {
					fail("raw=%v: GetRows[%d][%d]=%q but GetCellValue(%s)=%q", raw, r-1, col-1, mv, name, v)
				}
				if mv := at(irows, r-1, col-1); mv != v && !inMerged(f, sheet, col, r) {
					fail("raw=%v: Rows iterator [%d][%d]=%q but GetCellValue(%s)=%q", raw, r-1, col-1, mv, name, v)
				}
				if mv := at(cols, col-1, r-1); mv != v && !inMerged(f, sheet, col, r) {
					fail("raw=%v: GetCols[%d][%d]=%q but GetCellValue(%s)=%q", raw, col-1, r-1, mv, name, v)
				}
				if mv := at(icols, col-1, r-1); mv != v && !inMerged(f, sheet, col, r) {
					fail("raw=%v: Cols iterator [%d][%d]=%q but GetCellValue(%s)=%q", raw, col-1, r-1, mv, name, v)
				}
				if !raw && v != "" && !inMerged(f, sheet, col, r) {
					values[v] = append(values[v], name)
				}
			}
		}
		if !raw {
			n := 0
			for v, want := range values {
				if n++; n > 6 {
					break
				}
				got, err := f.SearchSheet(sheet, v)
				if err != nil {
					fail("SearchSheet(%q): %v", v, err)
					continue
				}
				var g2 []string
				for _, x := range got {
					col, r, _ := excelize.CellNameToCoordinates(x)
					if col <= ww && r <= hh && !inMerged(f, sheet, col, r) {
						g2 = append(g2, x)
					}
				}
				sort.Strings(g2)
				sort.Strings(want)
				if strings.Join(g2, ",") != strings.Join(want, ",") {
					fail("SearchSheet(%q) = %v but the cells whose GetCellValue equals it are %v", v, g2, want)
				}
				// regular expression search of the quoted literal finds the same cells
				got2, err := f.SearchSheet(sheet, "^"+regexp.QuoteMeta(v)+"$", true)
				var g3 []string
				for _, x := range got2 {
					col, r, _ := excelize.CellNameToCoordinates(x)
					if col <= ww && r <= hh && !inMerged(f, sheet, col, r) {
						g3 = append(g3, x)
					}
				}
				sort.Strings(g3)
				if err != nil || strings.Join(g3, ",") != strings.Join(want, ",") {
					fail("SearchSheet(regexp ^%q$) = %v, %v; want %v", v, g3, err, want)
				}
			}
		}
	}
}

func inMerged(f *excelize.File, sheet string, col, row int) bool {
	mcs, _ := f.GetMergeCells(sheet)
	for _, m := range mcs {
		c1, r1, _ := excelize.CellNameToCoordinates(m.GetStartAxis())
		c2, r2, _ := excelize.CellNameToCoordinates(m.GetEndAxis())
		if col >= c1 && col <= c2 && row >= r1 && row <= r2 && !(col == c1 && row == r1) {
			return true
		}
	}
	return false
}

// stripRefs removes r attributes from rows/cells of the worksheet parts (files written by other producers omit them)
func stripRefs(pkg []byte, mode int) ([]byte, error) {
	zr, err := zip.NewReader(bytes.NewReader(pkg), int64(len(pkg)))
	if err != nil {
		return nil, err
	}
	var out bytes.Buffer
	zw := zip.NewWriter(&out)
	reC := regexp.MustCompile(`<c r="[A-Z]+[0-9]+"`)
	reR := regexp.MustCompile(`<row r="[0-9]+"`)
	for _, e := range zr.File {
		rc, _ := e.Open()
		b, _ := io.ReadAll(rc)
		rc.Close()
		if strings.HasPrefix(e.Name, "xl/worksheets/sheet") {
			if mode&1 != 0 {
				b = reC.ReplaceAll(b, []byte("<c"))
			}
			if mode&2 != 0 {
				b = reR.ReplaceAll(b, []byte("<row"))
			}
		}
		w, _ := zw.Create(e.Name)
		w.Write(b)
	}
	zw.Close()
	return out.Bytes(), nil
}

func (c *Ctx) checkHistC04(h hist, cases *[]mcase, stripped bool) {
	c.guard("C04_total", h, func() { c.checkHistC04x(h, cases, stripped) })
}

func (c *Ctx) checkHistC04x(h hist, cases *[]mcase, stripped bool) {
	if h.C0 != 1 || h.R0 != 1 {
		h.C0, h.R0 = 1, 1
	}
	f, _, err := runHist(h)
	if err != nil {
		f.Close()
		return
	}
	defer func() { f.Close() }()
	desc := interface{}(h)
	if stripped {
		buf, err := f.WriteToBuffer()
		if err != nil {
			return
		}
		mode := 1 + c.Rng.Intn(3)
		b, err := stripRefs(buf.Bytes(), mode)
		if err != nil {
			return
		}
		g, err := excelize.OpenReader(bytes.NewReader(b))
		if err != nil {
			return
		}
		f.Close()
		f = g
		desc = map[string]interface{}{"history": h, "strip_r_attributes_mode": mode}
	}
	c.Count("sheet-state", len(h.Ops) >= 3, fmt.Sprint(stripped, h))
	c.agreeReaders(f, h.Sheet, desc, h.W, h.H)
	// purity: observation and saved content before vs after a batch of reads
	before := allSheetsObservation(f, h.W, h.H)
	twin, _, _ := runHist(h)
	defer twin.Close()
	if m := readBattery(f, h.Sheet, int(c.Rng.Int31())); m != "" {
		c.Fail("oracle", "C04_total", desc, m, "")
		return
	}
	c.agreeReaders(f, h.Sheet, desc, h.W, h.H)
	after := allSheetsObservation(f, h.W, h.H)
	if before != after {
		c.Fail("oracle", "C04_pure", desc, "observation changed after a batch of read-only calls: "+firstDiff(before, after), "")
		return
	}
	if !stripped {
		da, na, e1 := decodedObservation(f, h.W, h.H)
		db, nb, e2 := decodedObservation(twin, h.W, h.H)
		// "content of a later save" is compared as decoded content; the part list may gain the (empty)
		// shared-strings part that the first value read registers, which is not content
		_, _ = na, nb
		if e1 != nil || e2 != nil || da != db {
			c.Fail("oracle", "C04_pure", desc, fmt.Sprintf("saved content differs after read-only calls (%v %v): %s; parts %v vs %v", e1, e2, firstDiff(da, db), partDiff(na, nb), partDiff(nb, na)), "")
		}
		// model: GetRows (raw) vs the model's reader over the serialised rows
		// (formula cells keep a stale shared-string index as cached value, which the model abstracts: skipped)
		if cases != nil && !hasOp(h, "MF") {
			var sb strings.Builder
			sb.WriteString("sheet.rows")
			ok := true
			for _, o := range h.Ops {
				t, k := o.token([]int{0, 1, 2, 3, 4})
				if !k {
					ok = false
					break
				}
				sb.WriteString(" " + t)
			}
			if ok {
				rows, err := f.GetRows(h.Sheet, excelize.Options{RawCellValue: true})
				if err == nil {
					var rs []string
					for _, r := range rows {
						var cs []string
						for _, v := range r {
							cs = append(cs, hexb(v))
						}
						rs = append(rs, strings.Join(cs, ","))
					}
					*cases = append(*cases, mcase{Req: sb.String(), Impl: "rows " + strings.Join(rs, ";"), Rel: "sheet.rows", Desc: h})
				}
				// GetCols (raw) vs the model of the Cols iterator (padding and ragged column lengths included)
				if cols, err := f.GetCols(h.Sheet, excelize.Options{RawCellValue: true}); err == nil {
					var cs []string
					for _, col := range cols {
						var vs []string
						for _, v := range col {
							vs = append(vs, hexb(v))
						}
						cs = append(cs, strings.Join(vs, ","))
					}
					*cases = append(*cases, mcase{Req: "sheet.cols" + strings.TrimPrefix(sb.String(), "sheet.rows"), Impl: "cols " + strings.Join(cs, ";"), Rel: "sheet.cols", Desc: h})
				}
			}
		}
	}
}

func runC04(c *Ctx) {
	c.R.Rule = "sheet states built by write histories (sparse/dense rows, gaps, styled-but-empty cells, formulas without cached values, merges, row/col attributes), also re-opened with the r attributes of cells and/or rows stripped from the worksheet XML; cell-by-cell comparison of GetCellValue, GetRows, Rows, GetCols, Cols (formatted and raw) and SearchSheet (literal and regexp); batch of ~700 read-only calls with valid and invalid arguments (panic = failure); observation and saved content before vs after; GetRows(raw) vs the extracted model reader; a workbook opened with its parts unzipped to temp files (UnzipXMLSizeLimit 1/64/700/1500), 15 kinds of reads in every ordered pair and random orders, each answer against a freshly opened default-limit workbook. non-trivial = history of >= 3 ops"
	n := 240
	if c.Thorough() {
		n = 6000
	}
	var cases []mcase
	g := histGen{c: c, merges: true, attrs: true, rowStyle: true}
	for i := 0; i < n; i++ {
		g.attrs = i%3 == 0
		g.merges = i%2 == 0
		h := g.gen(1 + c.Rng.Intn(30))
		c.checkHistC04(h, &cases, i%4 == 3)
		if i < 2 {
			c.Sample(h)
		}
	}
	c.compareBatch(cases)
	for _, fx := range []string{"Book1.xlsx", "SharedStrings.xlsx", "MergeCell.xlsx", "CalcChain.xlsx"} {
		f, err := excelize.OpenFile("/repo/test/" + fx)
		if err != nil {
			continue
		}
		for _, sh := range f.GetSheetList() {
			if _, err := f.GetRows(sh); err != nil {
				continue
			}
			c.Count("fixture-sheet", true, fx+sh)
			c.agreeReaders(f, sh, map[string]interface{}{"fixture": fx, "sheet": sh}, 8, 12)
			before := allSheetsObservation(f, 6, 8)
			if m := readBattery(f, sh, 3); m != "" {
				c.Fail("oracle", "C04_total", map[string]interface{}{"fixture": fx, "sheet": sh}, m, "")
			}
			if after := allSheetsObservation(f, 6, 8); after != before {
				c.Fail("oracle", "C04_pure", map[string]interface{}{"fixture": fx, "sheet": sh}, "observation changed after reads: "+firstDiff(before, after), "")
			}
		}
		f.Close()
	}
	c.overlapMergeProbe("C04")
	nsp := 330
	if c.Thorough() {
		nsp = 6000
	}
	c.c04Spilled(nsp)
	c.c04MergedBeyondRows()
}

func partDiff(a, b []string) []string {
	m := map[string]bool{}
	for _, x := range b {
		m[x] = true
	}
	var out []string
	for _, x := range a {
		if !m[x] {
			out = append(out, x)
		}
	}
	return out
}

// reads of a workbook whose parts were unzipped to temp files (UnzipXMLSizeLimit below their size), in every order
// of first touch: each read must answer what the same read answers on a freshly opened default-limit workbook -
// no read may change what a later read returns
func (c *Ctx) c04Spilled(n int) {
	src := excelize.NewFile()
	src.NewSheet("Text")
	for r := 1; r <= 6; r++ {
		src.SetCellValue("Sheet1", "A"+strconv.Itoa(r), r*11)
		src.SetCellValue("Sheet1", "B"+strconv.Itoa(r), float64(r)/4)
		src.SetCellValue("Text", "A"+strconv.Itoa(r), fmt.Sprintf("text %d <&>", r))
		src.SetCellValue("Text", "B"+strconv.Itoa(r), r)
	}
	src.SetCellFormula("Sheet1", "C1", "A1+B1")
	src.SetCellRichText("Text", "C2", []excelize.RichTextRun{{Text: "rich "}, {Text: "run", Font: &excelize.Font{Bold: true}}})
	src.MergeCell("Text", "D1", "E2")
	src.SetCellValue("Text", "D1", "merged")
	buf, err := src.WriteToBuffer()
	src.Close()
	if err != nil {
		return
	}
	type rop struct {
		Name string `json:"read"`
		run  func(f *excelize.File) string
	}
	ops := []rop{
		{"GetCellValue(Sheet1!A2)", func(f *excelize.File) string { v, e := f.GetCellValue("Sheet1", "A2"); return fmt.Sprint(v, e) }},
		{"GetCellValue(Text!A3)", func(f *excelize.File) string { v, e := f.GetCellValue("Text", "A3"); return fmt.Sprint(v, e) }},
		{"GetCellRichText(Text!C2)", func(f *excelize.File) string {
			rt, e := f.GetCellRichText("Text", "C2")
			s := ""
			for _, r := range rt {
				s += "{" + r.Text + "}"
			}
			return fmt.Sprint(s, e)
		}},
		{"GetCellRichText(Text!A1)", func(f *excelize.File) string {
			rt, e := f.GetCellRichText("Text", "A1")
			s := ""
			for _, r := range rt {
				s += "{" + r.Text + "}"
			}
			return fmt.Sprint(s, e)
		}},
		{"GetRows(Sheet1)", func(f *excelize.File) string { v, e := f.GetRows("Sheet1"); return fmt.Sprintf("%q %v", v, e) }},
		{"GetRows(Text)", func(f *excelize.File) string { v, e := f.GetRows("Text"); return fmt.Sprintf("%q %v", v, e) }},
		{"GetCols(Text)", func(f *excelize.File) string { v, e := f.GetCols("Text"); return fmt.Sprintf("%q %v", v, e) }},
		{"GetCols(Sheet1)", func(f *excelize.File) string { v, e := f.GetCols("Sheet1"); return fmt.Sprintf("%q %v", v, e) }},
		{"SearchSheet(Text, text 4 <&>)", func(f *excelize.File) string { v, e := f.SearchSheet("Text", "text 4 <&>"); return fmt.Sprint(v, e) }},
		{"SearchSheet(Sheet1, 22)", func(f *excelize.File) string { v, e := f.SearchSheet("Sheet1", "22"); return fmt.Sprint(v, e) }},
		{"GetCellFormula(Sheet1!C1)", func(f *excelize.File) string { v, e := f.GetCellFormula("Sheet1", "C1"); return fmt.Sprint(v, e) }},
		{"GetCellType(Text!A1)", func(f *excelize.File) string { v, e := f.GetCellType("Text", "A1"); return fmt.Sprint(v, e) }},
		{"GetMergeCells(Text)", func(f *excelize.File) string {
			v, e := f.GetMergeCells("Text")
			s := ""
			for _, m := range v {
				s += m.GetStartAxis() + ":" + m.GetEndAxis() + "=" + m.GetCellValue() + ";"
			}
			return fmt.Sprint(s, e)
		}},
		{"CalcCellValue(Sheet1!C1)", func(f *excelize.File) string { v, e := f.CalcCellValue("Sheet1", "C1"); return fmt.Sprint(v, e) }},
		{"GetSheetDimension(Text)", func(f *excelize.File) string { v, e := f.GetSheetDimension("Text"); return fmt.Sprint(v, e) }},
	}
	want := make([]string, len(ops))
	for i, o := range ops {
		g, err := excelize.OpenReader(bytes.NewReader(buf.Bytes()))
		if err != nil {
			return
		}
		want[i] = o.run(g)
		g.Close()
	}
	limits := []int64{1, 64, 700, 1500}
	for k := 0; k < n; k++ {
		lim := limits[k%len(limits)]
		var seq []int
		if k < len(ops)*len(ops) {
			// every ordered pair of reads first
			seq = []int{k / len(ops), k % len(ops)}
			seq = append(seq, c.Rng.Intn(len(ops)), 1, 2, 5)
		} else {
			for j := 3 + c.Rng.Intn(6); j > 0; j-- {
				seq = append(seq, c.Rng.Intn(len(ops)))
			}
		}
		var names []string
		for _, i := range seq {
			names = append(names, ops[i].Name)
		}
		desc := map[string]interface{}{"UnzipXMLSizeLimit": lim, "reads_in_order": names}
		c.guard("C04_no_panic", desc, func() {
			f, err := excelize.OpenReader(bytes.NewReader(buf.Bytes()), excelize.Options{UnzipXMLSizeLimit: lim})
			if err != nil {
				c.Fail("oracle", "C04_pure", desc, "open failed: "+err.Error(), "")
				return
			}
			defer f.Close()
			c.Count("spilled-reads", true, fmt.Sprint(lim, seq))
			for step, i := range seq {
				if got := ops[i].run(f); got != want[i] {
					c.Fail("oracle", "C04_pure", desc, fmt.Sprintf("read %d, %s, answers %s; on a freshly opened workbook it answers %s: an earlier read changed it", step+1, ops[i].Name, got, want[i]), "")
					return
				}
			}
		})
		if len(c.R.Failures) >= 3 {
			return
		}
	}
}

// merged ranges that reach below (or right of) what the worksheet stores: a stream-written sheet holds only the rows
// that were written, so the lower rows of a merged range have no row element.  Every cell of a merged range reads as
// the range's value through GetCellValue, whichever rows happen to be materialised; GetMergeCells reports the same
// value; before and after save+open.
func (c *Ctx) c04MergedBeyondRows() {
	type mc struct {
		Rows  int      `json:"rows_written"`
		Cols  int      `json:"cells_per_row"`
		Merge []string `json:"merged"`
	}
	cases := []mc{
		{1, 1, []string{"A1:A4"}}, {1, 2, []string{"A1:B5"}}, {2, 1, []string{"A2:A6"}}, {1, 1, []string{"A1:C1"}},
		{3, 2, []string{"B3:B9", "A1:A2"}}, {1, 3, []string{"C1:E4"}}, {2, 2, []string{"A1:B2", "A2:A2"}},
	}
	for _, k := range cases {
		desc := map[string]interface{}{"stream_sheet": k}
		c.guard("C04_no_panic", desc, func() {
			f := excelize.NewFile()
			defer f.Close()
			sw, err := f.NewStreamWriter("Sheet1")
			if err != nil {
				return
			}
			for r := 1; r <= k.Rows; r++ {
				var vals []interface{}
				for j := 0; j < k.Cols; j++ {
					vals = append(vals, fmt.Sprintf("v%d_%d", r, j+1))
				}
				sw.SetRow("A"+strconv.Itoa(r), vals)
			}
			for _, m := range k.Merge {
				p := strings.Split(m, ":")
				if sw.MergeCell(p[0], p[1]) != nil {
					return
				}
			}
			if sw.Flush() != nil {
				return
			}
			c.Count("merged-beyond-rows", true, fmt.Sprint(k))
			check := func(stage string, g *excelize.File) bool {
				ms, err := g.GetMergeCells("Sheet1")
				if err != nil {
					c.Fail("oracle", "C04_rows_agree", desc, stage+": GetMergeCells: "+err.Error(), "")
					return false
				}
				for _, m := range ms {
					c1, r1, _ := excelize.CellNameToCoordinates(m.GetStartAxis())
					c2, r2, _ := excelize.CellNameToCoordinates(m.GetEndAxis())
					anchor, _ := g.GetCellValue("Sheet1", m.GetStartAxis())
					if anchor != m.GetCellValue() {
						c.Fail("oracle", "C04_rows_agree", desc, fmt.Sprintf("%s: GetMergeCells reports %q for %s:%s, GetCellValue(%s) = %q", stage, m.GetCellValue(), m.GetStartAxis(), m.GetEndAxis(), m.GetStartAxis(), anchor), "")
						return false
					}
					for r := r1; r <= r2; r++ {
						for col := c1; col <= c2; col++ {
							n, _ := excelize.CoordinatesToCellName(col, r)
							v, err := g.GetCellValue("Sheet1", n)
							t, _ := g.GetCellType("Sheet1", n)
							ta, _ := g.GetCellType("Sheet1", m.GetStartAxis())
							if err != nil || v != anchor || t != ta {
								c.Fail("oracle", "C04_rows_agree", desc, fmt.Sprintf("%s: cell %s of the merged range %s:%s reads (%q, type %d, %v); the range reads (%q, type %d) at its first cell", stage, n, m.GetStartAxis(), m.GetEndAxis(), v, t, err, anchor, ta), "")
								return false
							}
						}
					}
				}
				return true
			}
			if !check("stream-written sheet", f) {
				return
			}
			g, err := reopen(f)
			if err != nil {
				return
			}
			defer g.Close()
			check("after save and open", g)
		})
	}
}
