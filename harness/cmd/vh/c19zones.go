package main

import (
	"fmt"
	"strconv"
	"time"

	"github.com/xuri/excelize/v2"
)

// C19: the zone offset is that of the value's own instant.  Sequences of SetCellValue calls in one process whose
// zones share a name but not an offset: unnamed fixed zones (what time.Parse gives a numeric offset), fixed zones
// reusing one name, and tz database zones on both sides of their daylight-saving transitions (including half-hour
// and 45-minute zones).  Every stored serial must decode to the wall clock the value shows in its own zone, and
// equal the conversion of that wall clock.
func (c *Ctx) c19ZoneSequences(fs *c19files) {
	type zt struct {
		t    time.Time
		desc string
	}
	var seq []zt
	offs := []int{7200, 19800, -12600, 45900, -39600, 0, 3600, -3600}
	for i, o := range offs {
		for _, name := range []string{"", "X"} {
			loc := time.FixedZone(name, o)
			seq = append(seq, zt{time.Date(2021, time.Month(1+i), 10+i, 8, 15, 30, 0, loc), fmt.Sprintf("fixed zone %q offset %ds", name, o)})
		}
	}
	for _, tz := range []string{"America/New_York", "Europe/London", "Australia/Lord_Howe", "America/St_Johns", "Asia/Kathmandu", "Pacific/Chatham", "America/Sao_Paulo"} {
		loc, err := time.LoadLocation(tz)
		if err != nil {
			c.R.Dist["tzdata-missing"]++
			continue
		}
		for _, d := range [][3]int{{2021, 1, 15}, {2021, 7, 15}, {2021, 3, 13}, {2021, 3, 14}, {2021, 3, 15}, {2021, 11, 6}, {2021, 11, 8}, {2021, 3, 27}, {2021, 3, 29}, {2021, 10, 30}, {2021, 11, 1}, {2021, 4, 3}, {2021, 4, 5}, {2021, 10, 2}, {2021, 10, 4}, {1985, 6, 1}, {1985, 12, 1}} {
			for _, h := range []int{0, 9, 23} {
				seq = append(seq, zt{time.Date(d[0], time.Month(d[1]), d[2], h, 30, 0, 0, loc), "tz database zone " + tz})
			}
		}
	}
	// interleave so that consecutive writes differ in offset under one name
	c.Rng.Shuffle(len(seq), func(i, j int) { seq[i], seq[j] = seq[j], seq[i] })
	for pass := 0; pass < 2; pass++ {
		for _, z := range seq {
			for _, sys := range []bool{false, true} {
				f := fs.f1900
				if sys {
					f = fs.f1904
				}
				t := z.t
				name, off := t.Zone()
				desc := map[string]interface{}{"time": t.Format(time.RFC3339), "zone": z.desc, "zone_abbrev": name, "offset_s": off, "date1904": sys}
				if err := f.SetCellValue("Sheet1", "B2", t); err != nil {
					c.Fail("oracle", "C19_total", desc, "SetCellValue(time) failed: "+err.Error(), "")
					continue
				}
				raw, _ := f.GetCellValue("Sheet1", "B2", excelize.Options{RawCellValue: true})
				x, perr := strconv.ParseFloat(raw, 64)
				if perr != nil {
					c.Fail("oracle", "C19_roundtrip", desc, fmt.Sprintf("in-range instant stored as text %q", raw), "")
					continue
				}
				c.Count("zone-sequence", true, fmt.Sprint(t, sys))
				wall := time.Date(t.Year(), t.Month(), t.Day(), t.Hour(), t.Minute(), t.Second(), t.Nanosecond(), time.UTC)
				// the property first: the stored serial decodes to the wall clock the value shows in its own zone
				dt, err := excelize.ExcelDateToTime(x, sys)
				if err != nil {
					c.Fail("oracle", "C19_roundtrip", desc, "ExcelDateToTime failed: "+err.Error(), "")
					continue
				}
				if fieldsOf(dt) != fieldsOf(wall) {
					c.Fail("oracle", "C19_roundtrip", desc, fmt.Sprintf("wall clock %s (%s) -> serial %s -> %s", fieldsOf(wall), z.desc, raw, fieldsOf(dt)), "")
					continue
				}
				if hx, _ := excelize.VerifTimeToExcelTime(wall, sys); hx != x {
					c.Fail("model-impl", "public-vs-hook", desc, fmt.Sprintf("cell raw %q differs from the conversion of the value's wall clock (%v)", raw, hx), "")
				}
			}
		}
	}
}
