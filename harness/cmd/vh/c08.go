package main

import (
	"fmt"
	"math"
	"strconv"
	"strings"

	"github.com/xuri/efp"
	"github.com/xuri/excelize/v2"
)

func init() { props["C08"] = propFn{run: runC08, replay: func(c *Ctx, f Failure) { runC08(c) }} }

// typed cell content used by the generator
type c08cell struct {
	Kind string // num, numtext, text, bool, blank
	Num  float64
	Text string
	Bool bool
}

func (k c08cell) set(f *excelize.File, sheet, cell string) {
	switch k.Kind {
	case "num":
		f.SetCellValue(sheet, cell, k.Num)
	case "numtext", "text":
		f.SetCellValue(sheet, cell, k.Text)
	case "bool":
		f.SetCellValue(sheet, cell, k.Bool)
	}
}

// model literal token for the value an operator sees when the cell is referenced outside a function
func (k c08cell) tok() string {
	switch k.Kind {
	case "num":
		return "n" + bitsHex(k.Num)
	case "numtext", "text":
		return "s" + strings.TrimPrefix(hexb(k.Text), "x")
	case "bool":
		if k.Bool {
			return "b1"
		}
		return "b0"
	}
	return "s"
}

func (k c08cell) aggTok() string {
	switch k.Kind {
	case "num":
		return "n" + bitsHex(k.Num)
	case "numtext", "text":
		return "t" + strings.TrimPrefix(hexb(k.Text), "x")
	case "bool":
		if k.Bool {
			return "b1"
		}
		return "b0"
	}
	return "_"
}

type c08env struct {
	cells map[string]c08cell // "Sheet1!A1"
}

var c08nums = []float64{0, 1, 2, 3, 5, 10, -1, -4, 0.5, 2.5, 100, 7}

func (c *Ctx) c08Env(domainD bool) c08env {
	e := c08env{cells: map[string]c08cell{}}
	for _, sh := range []string{"Sheet1", "Other"} {
		for r := 1; r <= 4; r++ {
			for col := 1; col <= 3; col++ {
				n, _ := excelize.CoordinatesToCellName(col, r)
				var k c08cell
				switch x := c.Rng.Intn(10); {
				case x < 6:
					k = c08cell{Kind: "num", Num: c08nums[c.Rng.Intn(len(c08nums))]}
				case x < 7:
					k = c08cell{Kind: "blank"}
				case x < 8:
					k = c08cell{Kind: "text", Text: []string{"abc", "ABC", "x y", "z"}[c.Rng.Intn(4)]}
				case x < 9 && !domainD:
					k = c08cell{Kind: "numtext", Text: []string{"5", "12", "-3"}[c.Rng.Intn(3)]}
				case !domainD:
					k = c08cell{Kind: "bool", Bool: c.Rng.Intn(2) == 0}
				default:
					k = c08cell{Kind: "num", Num: c08nums[c.Rng.Intn(len(c08nums))]}
				}
				e.cells[sh+"!"+n] = k
			}
		}
	}
	return e
}

func (e c08env) file() *excelize.File {
	f := excelize.NewFile()
	f.NewSheet("Other")
	for k, v := range e.cells {
		p := strings.Split(k, "!")
		v.set(f, p[0], p[1])
	}
	f.SetDefinedName(&excelize.DefinedName{Name: "myname", RefersTo: "Sheet1!$B$2", Scope: "Workbook"})
	return f
}

// expression generator: numeric-domain expressions (D) or mixed
func (c *Ctx) c08Expr(depth int, e c08env, numeric bool) string {
	r := c.Rng
	leafNum := func() string {
		switch r.Intn(6) {
		case 0, 1:
			x := c08nums[r.Intn(len(c08nums))]
			if x < 0 {
				return "(" + strconv.FormatFloat(x, 'f', -1, 64) + ")"
			}
			return strconv.FormatFloat(x, 'f', -1, 64)
		case 2:
			return "myname"
		default:
			// a reference to a numeric or blank cell
			for tries := 0; tries < 20; tries++ {
				sh := []string{"Sheet1", "Other"}[r.Intn(2)]
				n, _ := excelize.CoordinatesToCellName(1+r.Intn(3), 1+r.Intn(4))
				k := e.cells[sh+"!"+n]
				if k.Kind == "num" || k.Kind == "blank" {
					if sh == "Sheet1" && r.Intn(2) == 0 {
						return n
					}
					return sh + "!" + n
				}
			}
			return "1"
		}
	}
	if depth == 0 {
		if numeric {
			return leafNum()
		}
		switch r.Intn(5) {
		case 0:
			return []string{"\"abc\"", "\"ABC\"", "\"5\"", "\"\"", "\"x\""}[r.Intn(5)]
		case 1:
			return []string{"TRUE", "FALSE"}[r.Intn(2)]
		case 2:
			sh := []string{"Sheet1", "Other"}[r.Intn(2)]
			n, _ := excelize.CoordinatesToCellName(1+r.Intn(3), 1+r.Intn(4))
			return sh + "!" + n
		default:
			return leafNum()
		}
	}
	sub := func() string { return c.c08Expr(depth-1, e, numeric) }
	switch r.Intn(10) {
	case 0:
		return "(" + sub() + ")"
	case 1:
		return "-" + c.c08Expr(0, e, numeric)
	case 2:
		return c.c08Expr(0, e, numeric) + "%"
	case 3:
		if numeric {
			return sub() + "^" + strconv.Itoa(r.Intn(4))
		}
		return sub() + "&" + sub()
	case 4:
		if !numeric {
			return sub() + []string{"=", "<>", "<", "<=", ">", ">="}[r.Intn(6)] + sub()
		}
		return sub() + "*" + sub()
	default:
		return sub() + []string{"+", "-", "*", "/"}[r.Intn(4)] + sub()
	}
}

// real efp tokens -> model tokens (references resolved by the harness from the typed environment)
func (e c08env) modelTokens(formula string) ([]string, bool) {
	ps := efp.ExcelParser()
	var out []string
	for _, t := range ps.Parse(formula) {
		switch {
		case t.TType == efp.TokenTypeOperand && t.TSubType == efp.TokenSubTypeNumber:
			x, err := strconv.ParseFloat(t.TValue, 64)
			if err != nil {
				return nil, false
			}
			out = append(out, "n"+bitsHex(x))
		case t.TType == efp.TokenTypeOperand && t.TSubType == efp.TokenSubTypeText:
			out = append(out, "s"+strings.TrimPrefix(hexb(t.TValue), "x"))
		case t.TType == efp.TokenTypeOperand && t.TSubType == efp.TokenSubTypeLogical:
			if strings.EqualFold(t.TValue, "TRUE") {
				out = append(out, "b1")
			} else {
				out = append(out, "b0")
			}
		case t.TType == efp.TokenTypeOperand && t.TSubType == efp.TokenSubTypeRange:
			ref := t.TValue
			if ref == "myname" {
				ref = "Sheet1!B2"
			}
			if !strings.Contains(ref, "!") {
				ref = "Sheet1!" + ref
			}
			k, ok := e.cells[ref]
			if !ok {
				return nil, false
			}
			out = append(out, k.tok())
		case t.TType == efp.TokenTypeOperatorPrefix && t.TValue == "-":
			out = append(out, "pre")
		case t.TType == efp.TokenTypeOperatorPrefix && t.TValue == "+":
			// prefix plus is dropped by the evaluator
		case t.TType == efp.TokenTypeOperatorInfix:
			out = append(out, "o"+t.TValue)
		case t.TType == efp.TokenTypeOperatorPostfix:
			out = append(out, "%")
		case t.TType == efp.TokenTypeSubexpression && t.TSubType == efp.TokenSubTypeStart:
			out = append(out, "(")
		case t.TType == efp.TokenTypeSubexpression && t.TSubType == efp.TokenSubTypeStop:
			out = append(out, ")")
		default:
			return nil, false
		}
	}
	return out, true
}

func errClass(res string, err error) string {
	s := res
	if err != nil {
		s = err.Error()
	}
	for _, code := range []string{"#DIV/0!", "#VALUE!", "#NAME?", "#NUM!", "#REF!", "#N/A"} {
		if strings.Contains(s, code) {
			return code
		}
	}
	if err != nil {
		return "#VALUE!" // a Go conversion message stands for #VALUE!
	}
	return ""
}

// compare an implementation result with a model result line
func c08Agree(res string, err error, model string) (bool, bool) { // (agree, comparable)
	fs := strings.Fields(model)
	switch {
	case model == "unsup" || model == "err 29" || strings.HasPrefix(model, "ok unsup"):
		return true, false
	case len(fs) >= 2 && fs[0] == "err":
		want := map[string]string{"21": "#VALUE!", "22": "#DIV/0!", "20": "#VALUE!"}[fs[1]]
		return errClass(res, err) == want || (fs[1] == "20" && err != nil), true
	case len(fs) >= 3 && fs[0] == "ok" && fs[1] == "num":
		if err != nil {
			return false, true
		}
		b, _ := strconv.ParseUint(fs[2], 16, 64)
		x := math.Float64frombits(b)
		if len(fs) >= 4 && fs[3] == "t" {
			return (x != 0 && res == "TRUE") || (x == 0 && res == "FALSE"), true
		}
		y, perr := strconv.ParseFloat(res, 64)
		if perr != nil {
			return false, true
		}
		if x == y {
			return true, true
		}
		return math.Abs(x-y) <= 1e-12*math.Max(math.Abs(x), math.Abs(y)), true
	case len(fs) >= 3 && fs[0] == "ok" && fs[1] == "str":
		return err == nil && res == unhex(fs[2]), true
	case len(fs) == 2 && fs[0] == "ok" && fs[1] == "str":
		return err == nil && res == "", true
	}
	return false, true
}

// Reference evaluation of a numeric-domain formula by precedence climbing over the token list (Excel's
// table: prefix minus, %, ^, * /, + -; binary operators associate to the left; a blank cell counts 0).
// Written independently of the evaluator's two-stack machine and of the Coq model.  ok=false: outside the
// domain the reference speaks about (text, booleans, 0^0, negative base).
type c08ref struct {
	toks []string
	pos  int
	div0 bool
	ok   bool
}

func (r *c08ref) peek() string {
	if r.pos < len(r.toks) {
		return r.toks[r.pos]
	}
	return ""
}

func (r *c08ref) primary() float64 {
	t := r.peek()
	r.pos++
	switch {
	case t == "pre":
		return -r.primary()
	case t == "(":
		v := r.expr(0)
		if r.peek() != ")" {
			r.ok = false
		}
		r.pos++
		return r.postfix(v)
	case t == "s":
		return r.postfix(0)
	case strings.HasPrefix(t, "n"):
		b, err := strconv.ParseUint(t[1:], 16, 64)
		if err != nil {
			r.ok = false
		}
		return r.postfix(math.Float64frombits(b))
	}
	r.ok = false
	return 0
}

func (r *c08ref) postfix(v float64) float64 {
	for r.peek() == "%" {
		r.pos++
		v /= 100
	}
	return v
}

func (r *c08ref) expr(minPrec int) float64 {
	lhs := r.primary()
	for r.ok {
		t := r.peek()
		prec, known := map[string]int{"o^": 3, "o*": 2, "o/": 2, "o+": 1, "o-": 1}[t]
		if !known || prec < minPrec {
			if t != "" && t != ")" && !known {
				r.ok = false
			}
			break
		}
		r.pos++
		rhs := r.expr(prec + 1)
		switch t {
		case "o+":
			lhs += rhs
		case "o-":
			lhs -= rhs
		case "o*":
			lhs *= rhs
		case "o/":
			if rhs == 0 {
				r.div0 = true
			}
			lhs /= rhs
		case "o^":
			if (lhs == 0 && rhs <= 0) || (lhs < 0 && rhs != math.Trunc(rhs)) {
				r.ok = false
			}
			lhs = math.Pow(lhs, rhs)
		}
	}
	return lhs
}

func c08Reference(toks []string) (val float64, div0, ok bool) {
	r := &c08ref{toks: toks, ok: true}
	v := r.expr(0)
	if r.pos != len(toks) || math.IsNaN(v) || (math.IsInf(v, 0) && !r.div0) {
		r.ok = false
	}
	return v, r.div0, r.ok
}

func (c *Ctx) c08Operators(n int, numeric bool) {
	type pend struct {
		formula  string
		res      string
		err      error
		toks     []string
		excelRef string
	}
	for batch := 0; batch < n; batch += 200 {
		env := c.c08Env(numeric)
		f := env.file()
		var ps []pend
		var reqs []string
		for i := 0; i < 200; i++ {
			formula := c.c08Expr(1+c.Rng.Intn(5), env, numeric)
			toks, ok := env.modelTokens(formula)
			if !ok {
				continue
			}
			var p pend
			p.formula, p.toks = formula, toks
			c.guard("C08_no_panic", formula, func() {
				f.SetCellFormula("Sheet1", "Z1", formula)
				p.res, p.err = f.CalcCellValue("Sheet1", "Z1", excelize.Options{RawCellValue: true})
			})
			if numeric {
				hasOp := false
				for _, t := range toks {
					if t == "pre" || t == "%" || strings.HasPrefix(t, "o") {
						hasOp = true
					}
				}
				// a bare (parenthesised) reference to a blank cell stays blank: only operator applications are judged
				if want, div0, ok := c08Reference(toks); ok && hasOp {
					c.R.Dist["reference-evaluated"]++
					good := false
					if div0 {
						good = errClass(p.res, p.err) == "#DIV/0!"
					} else if y, perr := strconv.ParseFloat(p.res, 64); perr == nil && p.err == nil {
						good = want == y || math.Abs(want-y) <= 1e-12*math.Max(math.Abs(want), math.Abs(y))
					}
					if !good {
						wtxt := strconv.FormatFloat(want, 'g', -1, 64)
						if div0 {
							wtxt = "#DIV/0!"
						}
						c.Fail("oracle", "C08_excel_semantics", map[string]interface{}{"formula": formula, "cells": env.cells},
							fmt.Sprintf("formula %q evaluates to %q (err %v); under Excel's precedence and left-to-right rules it is %s", formula, p.res, p.err, wtxt), "")
					}
				}
			}
			ps = append(ps, p)
			reqs = append(reqs, "c08.eval "+strings.Join(toks, " "))
		}
		f.Close()
		if c.Model == nil || c.Model.path == "" {
			continue
		}
		outs := c.Model.Call(reqs)
		for i, p := range ps {
			agree, comparable := c08Agree(p.res, p.err, outs[i])
			c.Count(map[bool]string{true: "operators-numeric", false: "operators-mixed"}[numeric], strings.ContainsAny(p.formula, "+-*/^&=<>%"), p.formula)
			if !comparable {
				c.R.Dist["model-unsupported"]++
				continue
			}
			c.R.Traces++
			if !agree {
				c.Fail("model-impl", "eval_impl", map[string]interface{}{"formula": p.formula, "tokens": p.toks},
					fmt.Sprintf("formula %q: implementation %q (err %v), model %s", p.formula, p.res, p.err, outs[i]), "")
			}
			if i < 2 && batch == 0 {
				c.Sample(map[string]interface{}{"formula": p.formula, "impl": p.res, "model": outs[i]})
			}
		}
	}
}

// precedence / associativity probes against Excel's documented results
func (c *Ctx) c08Excel() {
	f := excelize.NewFile()
	defer f.Close()
	f.SetCellValue("Sheet1", "A1", 2)
	f.SetCellValue("Sheet1", "A2", 3)
	for _, tc := range []struct{ formula, want string }{
		{"-2^2", "4"}, {"2^3^2", "64"}, {"2*3%", "0.06"}, {"\"abc\"&1+2", "abc3"}, {"1+2*3", "7"}, {"(1+2)*3", "9"}, {"10-4-3", "3"},
		{"2^-1", "0.5"}, {"-A1^2", "4"}, {"A1+A2*A1^2", "14"}, {"8/4/2", "1"}, {"1+2=3", "TRUE"}, {"2*3>5", "TRUE"}, {"1&2&3", "123"},
		{"--3", "3"}, {"-(-3)", "3"}, {"50%*4", "2"}, {"1/0", "#DIV/0!"}, {"1+1/0", "#DIV/0!"}, {"(1/0)*2", "#DIV/0!"}, {"3-2-1", "0"}, {"2^2^0", "1"},
	} {
		f.SetCellFormula("Sheet1", "Z1", tc.formula)
		res, err := f.CalcCellValue("Sheet1", "Z1")
		c.Count("excel-table", true, tc.formula)
		got := res
		if ec := errClass(res, err); ec != "" {
			got = ec
		}
		if got != tc.want {
			c.Fail("oracle", "C08_excel_precedence", map[string]interface{}{"formula": tc.formula}, fmt.Sprintf("%s = %q (err %v), Excel gives %q", tc.formula, res, err, tc.want), "")
		}
	}
	// the six comparisons on operands of one type (same-case text, numbers, booleans): every ordering of the pair,
	// as literals, as cell contents and as results of & / arithmetic
	f.SetCellValue("Sheet1", "B1", "pear")
	f.SetCellValue("Sheet1", "B2", "pear")
	f.SetCellValue("Sheet1", "B3", "plum")
	f.SetCellValue("Sheet1", "B4", "")
	b2s := map[bool]string{true: "TRUE", false: "FALSE"}
	type opd struct {
		text string
		rank int // order within its class
	}
	classes := [][]opd{
		{{"\"pear\"", 1}, {"B1", 1}, {"B2", 1}, {"\"pe\"&\"ar\"", 1}, {"B3", 2}, {"\"plum\"", 2}, {"\"pea\"", 0}, {"\"\"", -1}},
		{{"2", 2}, {"A1", 2}, {"(1+1)", 2}, {"A2", 3}, {"3", 3}, {"(-1)", -1}, {"0", 0}, {"2.5", 2}},
		{{"TRUE", 1}, {"FALSE", 0}, {"(1=1)", 1}, {"(1=2)", 0}},
	}
	for ci, cl := range classes {
		for _, l := range cl {
			for _, r := range cl {
				lr, rr := float64(l.rank), float64(r.rank)
				if ci == 1 { // 2.5 lies strictly between 2 and 3
					if l.text == "2.5" {
						lr = 2.5
					}
					if r.text == "2.5" {
						rr = 2.5
					}
				}
				for _, op := range []string{"=", "<>", "<", "<=", ">", ">="} {
					var want bool
					switch op {
					case "=":
						want = lr == rr
					case "<>":
						want = lr != rr
					case "<":
						want = lr < rr
					case "<=":
						want = lr <= rr
					case ">":
						want = lr > rr
					case ">=":
						want = lr >= rr
					}
					for _, wrap := range []string{"%s", "(%s)+1"} {
						formula := fmt.Sprintf(wrap, l.text+op+r.text)
						exp := b2s[want]
						if wrap != "%s" {
							exp = map[bool]string{true: "2", false: "1"}[want]
						}
						f.SetCellFormula("Sheet1", "Z1", formula)
						res, err := f.CalcCellValue("Sheet1", "Z1")
						c.Count("comparison-table", true, formula)
						if err != nil || res != exp {
							c.Fail("oracle", "C08_excel_semantics", map[string]interface{}{"formula": formula, "cells": "A1=2 A2=3 B1=B2=\"pear\" B3=\"plum\""},
								fmt.Sprintf("%s = %q (err %v), Excel gives %q", formula, res, err, exp), "")
						}
					}
				}
			}
		}
	}
}

// aggregates over ranges vs the fold over the typed cells under Excel's rule
func (c *Ctx) c08Aggregates(n int) {
	var reqs []string
	type pend struct {
		fn, rng string
		cells   []c08cell
		res     string
		err     error
		known   bool
	}
	var ps []pend
	for i := 0; i < n; i++ {
		allowCoerced := i%5 == 0 // ranges with numeric text / booleans: the known finding
		env := c.c08Env(!allowCoerced)
		f := env.file()
		// one to three arguments: ranges (on either sheet, possibly overlapping) and literal numbers, in any order;
		// the fold is over all referenced cells and literals, in argument order
		var args []string
		var cells []c08cell
		known := false
		nargs := 1
		if i%2 == 1 {
			nargs = 2 + c.Rng.Intn(2)
		}
		for a := 0; a < nargs; a++ {
			if nargs > 1 && c.Rng.Intn(4) == 0 {
				v := c08nums[c.Rng.Intn(len(c08nums))]
				args = append(args, strconv.FormatFloat(v, 'f', -1, 64))
				cells = append(cells, c08cell{Kind: "num", Num: v})
				continue
			}
			c1, r1 := 1+c.Rng.Intn(3), 1+c.Rng.Intn(4)
			c2, r2 := c1+c.Rng.Intn(4-c1), r1+c.Rng.Intn(5-r1)
			ca, _ := excelize.CoordinatesToCellName(c1, r1)
			cb, _ := excelize.CoordinatesToCellName(c2, r2)
			sh := []string{"Sheet1", "Other"}[c.Rng.Intn(2)]
			args = append(args, sh+"!"+ca+":"+cb)
			for r := r1; r <= r2; r++ {
				for col := c1; col <= c2; col++ {
					nm, _ := excelize.CoordinatesToCellName(col, r)
					k := env.cells[sh+"!"+nm]
					cells = append(cells, k)
					if k.Kind == "numtext" || k.Kind == "bool" {
						known = true
					}
				}
			}
		}
		rng := strings.Join(args, ",")
		c.R.Dist[fmt.Sprintf("aggregate arguments=%d", nargs)]++
		for _, fn := range []string{"SUM", "COUNT", "COUNTA", "MIN", "MAX", "PRODUCT", "AVERAGE"} {
			p := pend{fn: fn, rng: rng, cells: cells, known: known}
			c.guard("C08_no_panic", fn+"("+rng+")", func() {
				f.SetCellFormula("Sheet1", "Z9", fn+"("+rng+")")
				p.res, p.err = f.CalcCellValue("Sheet1", "Z9", excelize.Options{RawCellValue: true})
			})
			var ts []string
			for _, k := range cells {
				ts = append(ts, k.aggTok())
			}
			mfn := fn
			if fn == "AVERAGE" {
				mfn = "SUM"
			}
			reqs = append(reqs, "c08.agg "+mfn+" "+strings.Join(ts, " "))
			ps = append(ps, p)
		}
		f.Close()
	}
	if c.Model == nil || c.Model.path == "" {
		return
	}
	outs := c.Model.Call(reqs)
	for i, p := range ps {
		nnum := 0
		for _, k := range p.cells {
			if k.Kind == "num" {
				nnum++
			}
		}
		var want float64
		if p.fn == "COUNT" || p.fn == "COUNTA" {
			v, _ := strconv.ParseFloat(outs[i], 64)
			want = v
		} else {
			b, _ := strconv.ParseUint(outs[i], 16, 64)
			want = math.Float64frombits(b)
		}
		wantErr := ""
		if p.fn == "AVERAGE" {
			if nnum == 0 {
				wantErr = "#DIV/0!"
			} else {
				want = want / float64(nnum)
			}
		}
		c.Count("aggregate", len(p.cells) > 1, p.fn+p.rng+fmt.Sprint(p.cells))
		c.R.Traces++
		ok := false
		if wantErr != "" {
			ok = errClass(p.res, p.err) == wantErr
		} else if p.err == nil {
			got, perr := strconv.ParseFloat(p.res, 64)
			ok = perr == nil && (got == want || math.Abs(got-want) <= 1e-12*math.Max(math.Abs(got), math.Abs(want)))
		}
		if !ok {
			kid := ""
			if p.known {
				kid = "c08-agg-text-bool-in-range"
			}
			c.Fail("oracle", "C08_aggregates", map[string]interface{}{"fn": p.fn, "range": p.rng, "cells": p.cells},
				fmt.Sprintf("%s(%s) over %v = %q (err %v); the fold over the numeric cells gives %v %s", p.fn, p.rng, p.cells, p.res, p.err, want, wantErr), kid)
		}
	}
}

// coercion rules where excelize is known to differ from Excel (operator level): reproduced each run
func (c *Ctx) c08KnownProbes() {
	f := excelize.NewFile()
	defer f.Close()
	for _, tc := range []struct{ id, formula, excel string }{
		{"c08-eq-text-vs-number", "\"1\"=1", "FALSE"},
		{"c08-text-compare-case", "\"a\"=\"A\"", "TRUE"},
		{"c08-bool-ordering", "TRUE>\"z\"", "TRUE"},
		{"c08-neg-text", "-\"abc\"", "#VALUE!"},
		{"c08-negative-zero-text", "(0*-1)&\"\"", "0"},
		{"c08-concat-large-number-exponent", "5&1000000", "51000000"},
	} {
		f.SetCellFormula("Sheet1", "Z1", tc.formula)
		res, err := f.CalcCellValue("Sheet1", "Z1")
		got := res
		if ec := errClass(res, err); ec != "" {
			got = ec
		}
		c.Count("known-probe", true, tc.formula)
		if got != tc.excel {
			c.Fail("oracle", "C08_opsem", map[string]interface{}{"formula": tc.formula}, fmt.Sprintf("%s = %q, Excel gives %q", tc.formula, got, tc.excel), tc.id)
		}
	}
}

func runC08(c *Ctx) {
	c.R.Rule = "expression trees (depth 1..5) over number/string/boolean literals, cell references on two sheets and a defined name, unary minus, percent, ^ * / + - & and the six comparisons; cells hold numbers, blanks, text (and numeric text / booleans in the mixed stream); formula text -> real efp tokens -> extracted machine (references resolved by the harness) vs CalcCellValue (1e-12 relative for numbers, exact for text/booleans, error class); Excel precedence table; SUM/COUNT/COUNTA/MIN/MAX/PRODUCT/AVERAGE over random ranges vs the extracted fold; known coercion differences reproduced as findings. non-trivial = formula contains an operator / range has > 1 cell"
	n := 5000
	if c.Thorough() {
		n = 100000
	}
	c.c08Operators(n, true)
	c.c08Operators(n, false)
	c.c08Excel()
	c.c08Aggregates(n / 10)
	c.c08KnownProbes()
}
