package main

import (
	"fmt"

	"github.com/xuri/excelize/v2"
)

// Shared formula groups (one master with a Ref, the other cells derived from it) under structural edits of the
// holder's own sheet and of every other sheet: each cell of the group must go on evaluating to the same value,
// and an edit of another sheet must leave its formula text alone.
type c07group struct {
	Ref     string `json:"shared_ref"`
	Master  string `json:"master"`
	Formula string `json:"formula"`
	Holder  string `json:"formula_sheet"`
	Edited  string `json:"edited_sheet"`
	Rows    bool   `json:"rows"`
	Num     int    `json:"num"`
	Offset  int    `json:"offset"`
	Array   bool   `json:"array_formula,omitempty"`
	RefSheet string `json:"referenced_sheet,omitempty"` // "" = the formulas refer to their own sheet
	c1, r1, c2, r2 int // rectangle of the group
	rc1, rr1, rc2, rr2 int // rectangle of every cell a group member refers to
}

func (c *Ctx) c07Shared() {
	shapes := []c07group{
		{Ref: "K3:N3", Master: "K3", Formula: "A3+B3", c1: 11, r1: 3, c2: 14, r2: 3, rc1: 1, rr1: 3, rc2: 5, rr2: 3},
		{Ref: "K3:K6", Master: "K3", Formula: "A3*2", c1: 11, r1: 3, c2: 11, r2: 6, rc1: 1, rr1: 3, rc2: 1, rr2: 6},
		{Ref: "K3:L5", Master: "K3", Formula: "SUM(A3:B4)", c1: 11, r1: 3, c2: 12, r2: 5, rc1: 1, rr1: 3, rc2: 3, rr2: 6},
		{Ref: "K7:K7", Master: "K7", Formula: "B7-1", c1: 11, r1: 7, c2: 11, r2: 7, rc1: 2, rr1: 7, rc2: 2, rr2: 7},
		// the same with references to another sheet, and multi-cell array formulas (the cells other than the first
		// hold no formula element of their own)
		{Ref: "K3:N3", Master: "K3", Formula: "'My Sheet'!A3+'My Sheet'!B3", RefSheet: "My Sheet", c1: 11, r1: 3, c2: 14, r2: 3, rc1: 1, rr1: 3, rc2: 5, rr2: 3},
		{Ref: "K3:K5", Master: "K3", Formula: "A3:A5*2", Array: true, c1: 11, r1: 3, c2: 11, r2: 5, rc1: 1, rr1: 3, rc2: 1, rr2: 5},
		{Ref: "K3:K5", Master: "K3", Formula: "Other!A3:A5+Other!B3:B5", Array: true, RefSheet: "Other", c1: 11, r1: 3, c2: 11, r2: 5, rc1: 1, rr1: 3, rc2: 2, rr2: 5},
		{Ref: "K3:K5", Master: "K3", Formula: "Sheet1!A3:A5*Sheet1!B3:B5", Array: true, RefSheet: "Sheet1", c1: 11, r1: 3, c2: 11, r2: 5, rc1: 1, rr1: 3, rc2: 2, rr2: 5},
	}
	shared := "shared"
	for _, shp := range shapes {
		for _, holder := range c07sheets[:2] {
			for _, edited := range c07sheets[:3] {
				for _, rows := range []bool{true, false} {
					for _, offset := range []int{-1, 1, 2} {
						for num := 1; num <= 14; num++ {
							g := shp
							g.Holder, g.Edited, g.Rows, g.Num, g.Offset = holder, edited, rows, num, offset
							refSheet := g.RefSheet
							if refSheet == "" {
								refSheet = holder
							}
							if offset < 0 {
								// a removed line through the group or through a referenced cell legitimately changes values
								if holder == edited && ((rows && g.r1 <= num && num <= g.r2) || (!rows && g.c1 <= num && num <= g.c2)) {
									continue
								}
								if refSheet == edited && ((rows && g.rr1 <= num && num <= g.rr2) || (!rows && g.rc1 <= num && num <= g.rc2)) {
									continue
								}
							}
							if g.Array && holder == edited && ((rows && g.r1 < num && num <= g.r2) || (!rows && g.c1 < num && num <= g.c2)) {
								continue // a line inserted through an array range splits it: not judged
							}
							c.guard("C07_no_panic", g, func() { c.c07SharedCase(g, shared) })
							if c.Failed() {
								return
							}
						}
					}
				}
			}
		}
	}
}

func (c *Ctx) c07SharedCase(g c07group, shared string) {
	f := c07Workbook()
	defer f.Close()
	ref := g.Ref
	ftype := shared
	if g.Array {
		ftype = excelize.STCellFormulaTypeArray
	}
	if err := f.SetCellFormula(g.Holder, g.Master, g.Formula, excelize.FormulaOpts{Type: &ftype, Ref: &ref}); err != nil {
		return
	}
	type obs struct{ formula, value string }
	before := map[[2]int]obs{}
	for r := g.r1; r <= g.r2; r++ {
		for col := g.c1; col <= g.c2; col++ {
			n, _ := excelize.CoordinatesToCellName(col, r)
			fm, _ := f.GetCellFormula(g.Holder, n)
			v, err := f.CalcCellValue(g.Holder, n)
			if err != nil {
				v = "ERR:" + err.Error()
			}
			before[[2]int{col, r}] = obs{fm, v}
		}
	}
	var err error
	cn, _ := excelize.ColumnNumberToName(g.Num)
	switch {
	case g.Rows && g.Offset > 0:
		err = f.InsertRows(g.Edited, g.Num, g.Offset)
	case g.Rows:
		err = f.RemoveRow(g.Edited, g.Num)
	case g.Offset > 0:
		err = f.InsertCols(g.Edited, cn, g.Offset)
	default:
		err = f.RemoveCol(g.Edited, cn)
	}
	c.Count("shared-formula-edit", true, fmt.Sprint(g))
	c.R.Dist[fmt.Sprintf("shared rows=%v offset>0=%v same-sheet=%v", g.Rows, g.Offset > 0, g.Holder == g.Edited)]++
	if err != nil {
		c.R.Dist["edit-rejected"]++
		return
	}
	for pos, b := range before {
		col, r := pos[0], pos[1]
		if g.Holder == g.Edited {
			if g.Rows && r >= g.Num {
				r += g.Offset
			}
			if !g.Rows && col >= g.Num {
				col += g.Offset
			}
		}
		n, _ := excelize.CoordinatesToCellName(col, r)
		was, _ := excelize.CoordinatesToCellName(pos[0], pos[1])
		fm, _ := f.GetCellFormula(g.Holder, n)
		v, e := f.CalcCellValue(g.Holder, n)
		if e != nil {
			v = "ERR:" + e.Error()
		}
		if v != b.value {
			c.Fail("oracle", "C07_eval", g, fmt.Sprintf("cell %s of the shared formula group %s (formula %q, now at %s with formula %q) evaluated to %q before the edit and %q after it", was, g.Ref, b.formula, n, fm, b.value, v), "")
			return
		}
		if g.Holder != g.Edited && g.RefSheet != g.Edited && fm != b.formula {
			c.Fail("oracle", "C07_other_sheet", g, fmt.Sprintf("cell %s of the shared formula group %s on %s had formula %q, after an edit of %s (which it does not refer to) it has %q", was, g.Ref, g.Holder, b.formula, g.Edited, fm), "")
			return
		}
	}
}
