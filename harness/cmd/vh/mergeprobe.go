package main

import (
	"bytes"
	"fmt"

	"github.com/xuri/excelize/v2"
)

// Overlapping merged ranges are joined lazily (mergeOverlapCells runs when the ranges are read, unmerged or saved),
// while reads and writes inside a range are redirected through the list as it stands.  This probe enumerates pairs
// of ranges over a 4x4 window with every cell holding its own name and asks, per property, what that property
// demands; see KNOWN_FINDINGS.txt for the one root cause recorded under C01-C04 (ids *-overlapping-merged-ranges-*).
// A failure on a pair that does not overlap, or of another kind, is not covered by those entries.

type mergeProbe struct {
	A [4]int `json:"merge1"`
	B [4]int `json:"merge2"`
}

func mergeProbeRects() [][4]int {
	var rects [][4]int
	for c1 := 1; c1 <= 3; c1++ {
		for r1 := 1; r1 <= 3; r1++ {
			for c2 := c1; c2 <= 4; c2++ {
				for r2 := r1; r2 <= 4; r2++ {
					if c1 != c2 || r1 != r2 {
						rects = append(rects, [4]int{c1, r1, c2, r2})
					}
				}
			}
		}
	}
	return rects
}

func mergeProbeBuild(p mergeProbe) *excelize.File {
	f := excelize.NewFile()
	nm := func(col, r int) string { s, _ := excelize.CoordinatesToCellName(col, r); return s }
	for r := 1; r <= 5; r++ {
		for col := 1; col <= 5; col++ {
			f.SetCellValue("Sheet1", nm(col, r), nm(col, r))
		}
	}
	f.MergeCell("Sheet1", nm(p.A[0], p.A[1]), nm(p.A[2], p.A[3]))
	f.MergeCell("Sheet1", nm(p.B[0], p.B[1]), nm(p.B[2], p.B[3]))
	return f
}

func mergeProbeWindow(f *excelize.File) string {
	s := ""
	for r := 1; r <= 5; r++ {
		for col := 1; col <= 5; col++ {
			n, _ := excelize.CoordinatesToCellName(col, r)
			v, _ := f.GetCellValue("Sheet1", n)
			s += v + ","
		}
		s += ";"
	}
	return s
}

// which: "C01" reopen, "C02" save, "C03" write at the far corner, "C04" GetMergeCells
func (c *Ctx) overlapMergeProbe(which string) {
	rects := mergeProbeRects()
	n := 0
	for i, a := range rects {
		for j, b := range rects {
			if (i*31+j)%5 != 0 && !c.Thorough() {
				continue
			}
			p := mergeProbe{a, b}
			overl := rectsOverlap(a, b)
			known := func(id string) string {
				if overl {
					return id
				}
				return ""
			}
			c.guard(which+"_no_panic", p, func() {
				f := mergeProbeBuild(p)
				defer f.Close()
				n++
				c.Count("overlap-probe", overl, fmt.Sprint(p))
				switch which {
				case "C04":
					v1 := mergeProbeWindow(f)
					if v1b := mergeProbeWindow(f); v1b != v1 {
						c.Fail("oracle", "C04_pure", p, "GetCellValue over the window changed what a second pass returns: "+firstDiff(v1, v1b), "")
						return
					}
					if _, err := f.GetMergeCells("Sheet1"); err != nil {
						c.Fail("oracle", "C04_total", p, "GetMergeCells: "+err.Error(), "")
						return
					}
					if v2 := mergeProbeWindow(f); v2 != v1 {
						c.Fail("oracle", "C04_pure", p, "GetMergeCells changed what GetCellValue returns afterwards: "+firstDiff(v1, v2), known("c04-overlapping-merged-ranges-joined-by-read"))
					}
				case "C02":
					v1 := mergeProbeWindow(f)
					var buf bytes.Buffer
					if err := f.Write(&buf); err != nil {
						return
					}
					if v2 := mergeProbeWindow(f); v2 != v1 {
						c.Fail("oracle", "C02_getters_pure", p, "saving changed what GetCellValue returns afterwards: "+firstDiff(v1, v2), known("c02-overlapping-merged-ranges-joined-by-save"))
					}
				case "C01":
					v1 := mergeProbeWindow(f)
					var buf bytes.Buffer
					if err := f.Write(&buf); err != nil {
						return
					}
					g, err := excelize.OpenReader(bytes.NewReader(buf.Bytes()))
					if err != nil {
						c.Fail("oracle", "C01_reopen", p, "the saved workbook does not reopen: "+err.Error(), "")
						return
					}
					defer g.Close()
					if v3 := mergeProbeWindow(g); v3 != v1 {
						c.Fail("oracle", "C01_roundtrip", p, "cell values read before saving differ from those of the reopened workbook: "+firstDiff(v1, v3), known("c01-overlapping-merged-ranges-joined-on-save"))
					}
				case "C03":
					// a write to the bottom-right cell of the second range must be readable at the anchor of
					// the range that is reported to contain it
					far, _ := excelize.CoordinatesToCellName(b[2], b[3])
					f.SetCellValue("Sheet1", far, "W")
					mcs, err := f.GetMergeCells("Sheet1")
					if err != nil {
						return
					}
					for _, m := range mcs {
						x1, y1, _ := excelize.CellNameToCoordinates(m.GetStartAxis())
						x2, y2, _ := excelize.CellNameToCoordinates(m.GetEndAxis())
						if x1 <= b[2] && b[2] <= x2 && y1 <= b[3] && b[3] <= y2 {
							if v, _ := f.GetCellValue("Sheet1", m.GetStartAxis()); v != "W" {
								c.Fail("oracle", "C03_merge_anchor", p, fmt.Sprintf("%q written to %s, which lies in the reported range %s:%s; the anchor reads %q", "W", far, m.GetStartAxis(), m.GetEndAxis(), v), known("c03-overlapping-merged-ranges-write-not-at-anchor"))
							}
						}
					}
				}
			})
		}
	}
	c.R.Dist["overlap-probes"] = n
}
