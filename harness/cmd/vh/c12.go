package main

import (
	"archive/zip"
	"bytes"
	"fmt"
	"os"
	"path/filepath"
	"sort"
	"strconv"
	"strings"

	"github.com/xuri/excelize/v2"
)

func init() { props["C12"] = propFn{run: runC12, replay: func(c *Ctx, f Failure) { runC12(c) }} }

// ---- corpus ----
func c12Corpus() map[string][]byte {
	out := map[string][]byte{}
	save := func(name string, f *excelize.File) {
		var buf bytes.Buffer
		if err := f.Write(&buf); err == nil {
			out[name] = buf.Bytes()
		}
		f.Close()
	}
	// three sheets of different sizes, shared strings, numbers, formulas, styles, a merged range
	f := excelize.NewFile()
	f.NewSheet("Data")
	f.NewSheet("Tiny")
	st, _ := f.NewStyle(&excelize.Style{Font: &excelize.Font{Bold: true}})
	for r := 1; r <= 40; r++ {
		f.SetCellValue("Sheet1", "A"+strconv.Itoa(r), fmt.Sprintf("text %d <&> é", r%7))
		f.SetCellValue("Sheet1", "B"+strconv.Itoa(r), r*3)
		f.SetCellFormula("Sheet1", "C"+strconv.Itoa(r), fmt.Sprintf("B%d*2", r))
	}
	f.SetCellStyle("Sheet1", "A1", "B2", st)
	f.MergeCell("Sheet1", "E1", "F2")
	f.SetCellValue("Sheet1", "E1", "merged")
	for r := 1; r <= 400; r++ {
		f.SetCellValue("Data", "A"+strconv.Itoa(r), fmt.Sprintf("row-%d", r))
		f.SetCellValue("Data", "B"+strconv.Itoa(r), float64(r)/8)
		f.SetCellValue("Data", "D"+strconv.Itoa(r), r%2 == 0)
	}
	f.SetCellValue("Tiny", "B2", "only")
	save("three-sheets", f)
	// no shared strings at all
	g := excelize.NewFile()
	for r := 1; r <= 30; r++ {
		g.SetCellValue("Sheet1", "A"+strconv.Itoa(r), r)
	}
	save("numbers-only", g)
	// rich text and inline strings through the stream writer
	h := excelize.NewFile()
	sw, _ := h.NewStreamWriter("Sheet1")
	for r := 1; r <= 50; r++ {
		sw.SetRow("A"+strconv.Itoa(r), []interface{}{fmt.Sprintf("inline %d", r), r, excelize.Cell{Formula: "1+1"}})
	}
	sw.Flush()
	h.NewSheet("S2")
	h.SetCellRichText("S2", "A1", []excelize.RichTextRun{{Text: "rich "}, {Text: "text", Font: &excelize.Font{Bold: true}}})
	h.SetCellValue("S2", "A2", "plain")
	save("stream-and-rich", h)
	return out
}

type c12op struct {
	Op    string `json:"op"` // get rows cols set setnum save formula merges search calc
	Sheet string `json:"sheet,omitempty"`
	Cell  string `json:"cell,omitempty"`
	Val   string `json:"val,omitempty"`
}

func c12Apply(f *excelize.File, o c12op) string {
	switch o.Op {
	case "get":
		v, err := f.GetCellValue(o.Sheet, o.Cell)
		return fmt.Sprintf("%q,%v", v, err)
	case "rows":
		rows, err := f.Rows(o.Sheet)
		if err != nil {
			return "err:" + err.Error()
		}
		var sb strings.Builder
		for rows.Next() {
			cols, e := rows.Columns()
			fmt.Fprintf(&sb, "%q,%v;", cols, e)
		}
		fmt.Fprintf(&sb, "close:%v", rows.Close())
		return sb.String()
	case "cols":
		cs, err := f.GetCols(o.Sheet)
		return fmt.Sprintf("%q,%v", cs, err)
	case "set":
		return fmt.Sprint(f.SetCellValue(o.Sheet, o.Cell, o.Val))
	case "setnum":
		n, _ := strconv.Atoi(o.Val)
		return fmt.Sprint(f.SetCellValue(o.Sheet, o.Cell, n))
	case "formula":
		v, err := f.GetCellFormula(o.Sheet, o.Cell)
		return fmt.Sprintf("%q,%v", v, err)
	case "merges":
		ms, err := f.GetMergeCells(o.Sheet)
		var ss []string
		for _, m := range ms {
			ss = append(ss, m.GetStartAxis()+":"+m.GetEndAxis()+"="+m.GetCellValue())
		}
		return fmt.Sprintf("%q,%v", ss, err)
	case "search":
		r, err := f.SearchSheet(o.Sheet, o.Val)
		return fmt.Sprintf("%q,%v", r, err)
	case "calc":
		v, err := f.CalcCellValue(o.Sheet, o.Cell)
		return fmt.Sprintf("%q,%v", v, err)
	case "list":
		return fmt.Sprintf("%q count=%d active=%d", f.GetSheetList(), f.SheetCount, f.GetActiveSheetIndex())
	case "delsheet":
		err := f.DeleteSheet(o.Sheet)
		return fmt.Sprintf("%v %q count=%d", err, f.GetSheetList(), f.SheetCount)
	case "newsheet":
		idx, err := f.NewSheet(o.Val)
		return fmt.Sprintf("%d %v %q count=%d", idx, err, f.GetSheetList(), f.SheetCount)
	case "save":
		buf, err := f.WriteToBuffer()
		if err != nil {
			return "err:" + err.Error()
		}
		g, err := excelize.OpenReader(bytes.NewReader(buf.Bytes()))
		if err != nil {
			return "saved file does not open: " + err.Error()
		}
		defer g.Close()
		return allSheetsObservation(g, 6, 45)
	}
	return "?"
}

// does the operation resolve a shared string on this (default-limit) file? asked before the operation runs
func c12ReadsString(f *excelize.File, o c12op) bool {
	isStr := func(sheet, cell string) bool {
		t, err := f.GetCellType(sheet, cell)
		return err == nil && t == excelize.CellTypeSharedString
	}
	switch o.Op {
	case "get":
		return isStr(o.Sheet, o.Cell)
	case "merges":
		ms, _ := f.GetMergeCells(o.Sheet)
		for _, m := range ms {
			if isStr(o.Sheet, m.GetStartAxis()) {
				return true
			}
		}
	case "rows", "cols", "search":
		for r := 1; r <= 60; r++ {
			for col := 1; col <= 7; col++ {
				nm, _ := excelize.CoordinatesToCellName(col, r)
				if isStr(o.Sheet, nm) {
					return true
				}
			}
		}
	}
	return false
}

func c12TempFiles(dir string) []string {
	fs, _ := filepath.Glob(filepath.Join(dir, "excelize-*"))
	sort.Strings(fs)
	return fs
}

// sizes of the parts the limits look at
func c12Parts(data []byte) (sheets map[string]int64, sst int64, total int64) {
	sheets = map[string]int64{}
	zr, err := zip.NewReader(bytes.NewReader(data), int64(len(data)))
	if err != nil {
		return
	}
	for _, f := range zr.File {
		sz := f.FileInfo().Size()
		total += sz
		n := strings.ToLower(f.Name)
		if strings.HasPrefix(n, "xl/worksheets/sheet") {
			sheets[f.Name] = sz
		}
		if n == "xl/sharedstrings.xml" {
			sst = sz
		}
	}
	return
}

func (c *Ctx) c12Histories() [][]c12op {
	sheetsOf := []string{"Sheet1", "Data", "Tiny"}
	hs := [][]c12op{
		{{Op: "get", Sheet: "Sheet1", Cell: "A3"}, {Op: "rows", Sheet: "Data"}, {Op: "save"}},
		{{Op: "rows", Sheet: "Sheet1"}, {Op: "get", Sheet: "Sheet1", Cell: "A2"}, {Op: "set", Sheet: "Sheet1", Cell: "A2", Val: "new text"}, {Op: "rows", Sheet: "Sheet1"}, {Op: "save"}},
		{{Op: "set", Sheet: "Data", Cell: "A5", Val: "first touch by write"}, {Op: "get", Sheet: "Data", Cell: "A5"}, {Op: "rows", Sheet: "Data"}, {Op: "save"}, {Op: "get", Sheet: "Data", Cell: "A6"}},
		{{Op: "save"}, {Op: "rows", Sheet: "Data"}, {Op: "get", Sheet: "Tiny", Cell: "B2"}},
		{{Op: "cols", Sheet: "Sheet1"}, {Op: "merges", Sheet: "Sheet1"}, {Op: "formula", Sheet: "Sheet1", Cell: "C4"}, {Op: "calc", Sheet: "Sheet1", Cell: "C4"}, {Op: "search", Sheet: "Data", Val: "row-77"}},
		{{Op: "rows", Sheet: "Data"}, {Op: "setnum", Sheet: "Data", Cell: "B9", Val: "42"}, {Op: "rows", Sheet: "Data"}, {Op: "set", Sheet: "Tiny", Cell: "A1", Val: "text 3 <&> é"}, {Op: "rows", Sheet: "Tiny"}, {Op: "save"}, {Op: "save"}},
		{{Op: "rows", Sheet: "Sheet1"}, {Op: "rows", Sheet: "Data"}, {Op: "set", Sheet: "Sheet1", Cell: "G1", Val: "x"}, {Op: "rows", Sheet: "Sheet1"}, {Op: "get", Sheet: "Data", Cell: "A400"}},
	}
	// the sheet collection of a workbook whose parts were spilled: listing, deleting and adding sheets
	hs = append(hs,
		[]c12op{{Op: "list"}, {Op: "delsheet", Sheet: "Tiny"}, {Op: "list"}, {Op: "save"}},
		[]c12op{{Op: "delsheet", Sheet: "Data"}, {Op: "rows", Sheet: "Sheet1"}, {Op: "list"}, {Op: "save"}},
		[]c12op{{Op: "rows", Sheet: "Data"}, {Op: "delsheet", Sheet: "Sheet1"}, {Op: "newsheet", Val: "Fresh"}, {Op: "delsheet", Sheet: "Tiny"}, {Op: "list"}, {Op: "set", Sheet: "Fresh", Cell: "A1", Val: "x"}, {Op: "save"}},
		[]c12op{{Op: "newsheet", Val: "Fresh"}, {Op: "delsheet", Sheet: "Fresh"}, {Op: "delsheet", Sheet: "Data"}, {Op: "delsheet", Sheet: "Tiny"}, {Op: "delsheet", Sheet: "Sheet1"}, {Op: "list"}, {Op: "save"}},
	)
	// random histories
	n := 12
	if c.Thorough() {
		n = 120
	}
	for i := 0; i < n; i++ {
		var h []c12op
		for j := 0; j < 3+c.Rng.Intn(6); j++ {
			sh := sheetsOf[c.Rng.Intn(3)]
			cell, _ := excelize.CoordinatesToCellName(1+c.Rng.Intn(4), 1+c.Rng.Intn(40))
			switch c.Rng.Intn(8) {
			case 0, 1:
				h = append(h, c12op{Op: "get", Sheet: sh, Cell: cell})
			case 2, 3:
				h = append(h, c12op{Op: "rows", Sheet: sh})
			case 4:
				h = append(h, c12op{Op: "set", Sheet: sh, Cell: cell, Val: []string{"text 2 <&> é", "fresh", ""}[c.Rng.Intn(3)]})
			case 5:
				h = append(h, c12op{Op: "setnum", Sheet: sh, Cell: cell, Val: strconv.Itoa(c.Rng.Intn(99))})
			case 6:
				h = append(h, c12op{Op: "save"})
			default:
				switch c.Rng.Intn(5) {
				case 0:
					h = append(h, c12op{Op: "delsheet", Sheet: sh}, c12op{Op: "list"})
				case 1:
					h = append(h, c12op{Op: "newsheet", Val: []string{"Fresh", "Data", "More"}[c.Rng.Intn(3)]})
				default:
					h = append(h, c12op{Op: "cols", Sheet: sh})
				}
			}
		}
		hs = append(hs, h)
	}
	return hs
}

func (c *Ctx) c12Run(name string, data []byte, opts excelize.Options, hist []c12op, dir string, wantFlags bool) (obs []string, files []int, flags []bool, err error) {
	f, err := excelize.OpenReader(bytes.NewReader(data), opts)
	if err != nil {
		return nil, nil, nil, err
	}
	files = append(files, len(c12TempFiles(dir)))
	for _, o := range hist {
		if idx, _ := f.GetSheetIndex(o.Sheet); o.Sheet != "" && idx < 0 {
			obs = append(obs, "no-sheet")
			files = append(files, len(c12TempFiles(dir)))
			flags = append(flags, false)
			continue
		}
		if wantFlags {
			flags = append(flags, c12ReadsString(f, o))
		}
		obs = append(obs, c12Apply(f, o))
		files = append(files, len(c12TempFiles(dir)))
	}
	obs = append(obs, "final:"+allSheetsObservation(f, 6, 45))
	cerr := f.Close()
	left := c12TempFiles(dir)
	files = append(files, len(left))
	if cerr != nil {
		obs = append(obs, "close:"+cerr.Error())
	}
	return
}

func (c *Ctx) c12Limits() {
	corpus := c12Corpus()
	names := make([]string, 0, len(corpus))
	for n := range corpus {
		names = append(names, n)
	}
	sort.Strings(names)
	hists := c.c12Histories()
	dir, err := os.MkdirTemp("", "vh-c12-")
	if err != nil {
		return
	}
	defer os.RemoveAll(dir)
	old := os.Getenv("TMPDIR")
	os.Setenv("TMPDIR", dir)
	defer os.Setenv("TMPDIR", old)
	var reqs []string
	type pend struct {
		desc  interface{}
		files []int
	}
	var ps []pend
	for _, name := range names {
		data := corpus[name]
		sheets, sst, total := c12Parts(data)
		// limit settings: 1 byte, around every spillable part size, default
		lims := map[int64]bool{1: true, 0: true, 100: true}
		for _, sz := range sheets {
			lims[sz-1], lims[sz], lims[sz+1] = true, true, true
		}
		if sst > 0 {
			lims[sst-1], lims[sst] = true, true
		}
		var ls []int64
		for l := range lims {
			if l >= 0 {
				ls = append(ls, l)
			}
		}
		sort.Slice(ls, func(i, j int) bool { return ls[i] < ls[j] })
		for hi, hist := range hists {
			if name != "three-sheets" && hi >= 7 {
				break
			}
			ref, _, _, rerr := c.c12Run(name, data, excelize.Options{}, hist, dir, false)
			// which steps resolve a shared string: asked on a separate instance, the questions decode the sheets
			_, _, flags, _ := c.c12Run(name, data, excelize.Options{}, hist, dir, true)
			if rerr != nil {
				c.Fail("oracle", "C12_limit_indep", name, "default-limit open failed: "+rerr.Error(), "")
				continue
			}
			for _, l := range ls {
				if l == 0 {
					continue
				}
				for _, sizeLimit := range []int64{0, total, total + 1} {
					if sizeLimit != 0 && (l > sizeLimit || (hi > 1 && sizeLimit != total)) {
						continue
					}
					opts := excelize.Options{UnzipXMLSizeLimit: l, UnzipSizeLimit: sizeLimit}
					desc := map[string]interface{}{"workbook": name, "UnzipXMLSizeLimit": l, "UnzipSizeLimit": sizeLimit, "history": hist}
					c.guard("C12_no_panic", desc, func() {
						obs, files, _, err := c.c12Run(name, data, opts, hist, dir, false)
						c.Count("limit-history", l < total, fmt.Sprint(name, l, sizeLimit, hi))
						if err != nil {
							c.Fail("oracle", "C12_limit_indep", desc, "open fails under admissible limits: "+err.Error(), "")
							return
						}
						for i := range ref {
							if i < len(obs) && obs[i] != ref[i] {
								what := "final observation"
								if i < len(hist) {
									what = fmt.Sprintf("step %d (%s %s %s)", i, hist[i].Op, hist[i].Sheet, hist[i].Cell)
								}
								c.Fail("oracle", "C12_limit_indep", desc, what+" differs from the default-limit run: "+firstDiff(ref[i], obs[i]), "")
								break
							}
						}
						if files[len(files)-1] != 0 {
							c.Fail("oracle", "C12_close_clean", desc, fmt.Sprintf("%d temp file(s) remain after Close: %v", files[len(files)-1], c12TempFiles(dir)), "")
							for _, p := range c12TempFiles(dir) {
								os.Remove(p)
							}
						}
						// model request: part classes and sizes in archive order, limit, then the history
						if name == "three-sheets" {
							if req, ok := c12ModelReq(data, l, hist, flags); ok {
								reqs = append(reqs, req)
								ps = append(ps, pend{desc, files})
							}
						}
					})
				}
			}
		}
	}
	if c.Model == nil || c.Model.path == "" || len(reqs) == 0 {
		return
	}
	outs := c.Model.Call(reqs)
	for i, o := range outs {
		c.R.Traces++
		var got []string
		for _, n := range ps[i].files {
			got = append(got, strconv.Itoa(n))
		}
		if im := strings.Join(got, " "); im != o {
			c.Fail("model-impl", "c12.run", ps[i].desc, "temp files on disk after open, after each step and after Close: implementation ["+im+"], model ["+o+"]", "")
		}
	}
}

// c12.run <xmlLimit> <nparts> (<class> <size>)* <ops...>; classes: 0 other, 1 sheet (key = sheet number), 2 shared strings
func c12ModelReq(data []byte, limit int64, hist []c12op, flags []bool) (string, bool) {
	zr, err := zip.NewReader(bytes.NewReader(data), int64(len(data)))
	if err != nil {
		return "", false
	}
	sheetPart := map[string]int{"Sheet1": 1, "Data": 2, "Tiny": 3}
	var parts []string
	for _, f := range zr.File {
		n := strings.ToLower(f.Name)
		cls, key := 0, 0
		switch {
		case strings.HasPrefix(n, "xl/worksheets/sheet"):
			cls = 1
			key, _ = strconv.Atoi(strings.TrimSuffix(strings.TrimPrefix(n, "xl/worksheets/sheet"), ".xml"))
		case n == "xl/sharedstrings.xml":
			cls = 2
		}
		parts = append(parts, fmt.Sprintf("%d,%d,%d", cls, key, f.FileInfo().Size()))
	}
	var ops []string
	for i, o := range hist {
		if o.Op == "list" || o.Op == "delsheet" || o.Op == "newsheet" {
			return "", false // the sheet collection is not part of the temp-file model
		}
		k := sheetPart[o.Sheet]
		fl := tf(i < len(flags) && flags[i])
		switch o.Op {
		case "get", "formula", "merges", "calc", "cols", "search":
			// all of them decode the worksheet; get/cols/search/calc may also read strings
			kind := "G"
			if o.Op == "cols" || o.Op == "search" {
				kind = "R" // streaming readers
			}
			if o.Op == "calc" {
				return "", false
			}
			if o.Op == "formula" {
				fl = "f"
			}
			ops = append(ops, fmt.Sprintf("%s%d%s", kind, k, fl))
		case "rows":
			ops = append(ops, fmt.Sprintf("R%d%s", k, fl))
		case "set":
			ops = append(ops, fmt.Sprintf("S%d", k))
		case "setnum":
			ops = append(ops, fmt.Sprintf("N%d", k))
		case "save":
			ops = append(ops, "W")
		}
	}
	return fmt.Sprintf("c12.run %d %s | %s", limit, strings.Join(parts, " "), strings.Join(ops, " ")), true
}

// a package whose declared size exceeds UnzipSizeLimit is refused, and nothing is left behind
func (c *Ctx) c12Reject() {
	corpus := c12Corpus()
	dir, err := os.MkdirTemp("", "vh-c12r-")
	if err != nil {
		return
	}
	defer os.RemoveAll(dir)
	old := os.Getenv("TMPDIR")
	os.Setenv("TMPDIR", dir)
	defer os.Setenv("TMPDIR", old)
	for name, data := range corpus {
		_, _, total := c12Parts(data)
		for _, lim := range []int64{1, total / 2, total - 1} {
			for _, xl := range []int64{1, lim} {
				desc := map[string]interface{}{"workbook": name, "UnzipSizeLimit": lim, "UnzipXMLSizeLimit": xl, "declared_total": total}
				c.guard("C12_no_panic", desc, func() {
					f, err := excelize.OpenReader(bytes.NewReader(data), excelize.Options{UnzipSizeLimit: lim, UnzipXMLSizeLimit: xl})
					c.Count("reject", true, fmt.Sprint(name, lim, xl))
					if err == nil {
						f.Close()
						c.Fail("oracle", "C12_reject", desc, fmt.Sprintf("a package declaring %d bytes opened under UnzipSizeLimit=%d", total, lim), "")
					}
					if left := c12TempFiles(dir); len(left) > 0 {
						c.Fail("oracle", "C12_close_clean", desc, fmt.Sprintf("%d temp file(s) left by a refused open: %v", len(left), left), "")
						for _, p := range left {
							os.Remove(p)
						}
					}
				})
			}
		}
		// exactly at the limit it opens
		f, err := excelize.OpenReader(bytes.NewReader(data), excelize.Options{UnzipSizeLimit: total, UnzipXMLSizeLimit: total})
		if err != nil {
			c.Fail("oracle", "C12_limit_indep", name, "a package opens only below its declared size: "+err.Error(), "")
		} else {
			f.Close()
		}
	}
}

// stream-writer spill files: every way of ending a workbook that streamed past the threshold
func (c *Ctx) c12StreamSpill() {
	dir, err := os.MkdirTemp("", "vh-c12s-")
	if err != nil {
		return
	}
	defer os.RemoveAll(dir)
	old := os.Getenv("TMPDIR")
	os.Setenv("TMPDIR", dir)
	defer os.Setenv("TMPDIR", old)
	pad := strings.Repeat("q", 4000)
	for _, scenario := range []string{"flush-save-close", "close-without-flush", "second-writer-same-sheet", "two-sheets"} {
		desc := map[string]interface{}{"scenario": scenario}
		c.guard("C12_no_panic", desc, func() {
			f := excelize.NewFile()
			f.NewSheet("S2")
			write := func(sheet string) *excelize.StreamWriter {
				sw, _ := f.NewStreamWriter(sheet)
				for r := 1; r <= 4300; r++ {
					sw.SetRow("A"+strconv.Itoa(r), []interface{}{pad, r})
				}
				return sw
			}
			sw := write("Sheet1")
			spilled := len(c12TempFiles(dir))
			switch scenario {
			case "flush-save-close":
				sw.Flush()
				f.WriteToBuffer()
			case "second-writer-same-sheet":
				sw2 := write("Sheet1")
				sw2.Flush()
			case "two-sheets":
				sw.Flush()
				write("S2").Flush()
				f.WriteToBuffer()
			}
			f.Close()
			c.Count("stream-spill", spilled > 0, scenario)
			if spilled == 0 {
				c.Fail("oracle", "C12_close_clean", desc, "the stream did not spill: scenario not exercised", "")
			}
			if left := c12TempFiles(dir); len(left) > 0 {
				c.Fail("oracle", "C12_close_clean", desc, fmt.Sprintf("%d stream spill file(s) remain after Close", len(left)), "c12-second-stream-writer-leak")
				for _, p := range left {
					os.Remove(p)
				}
			}
		})
	}
}

func runC12(c *Ctx) {
	c.R.Rule = "three generated workbooks (three sheets of different sizes with shared strings, numbers only, stream-written inline strings + rich text) opened under UnzipXMLSizeLimit in {1, 100, each sheet size -1/0/+1, shared-strings size -1/0} x UnzipSizeLimit in {default, declared total, total+1}, then fixed and random histories (cell reads, streaming row/column reads, string and number writes, saves, listing/deleting/adding sheets; first touch of a spilled sheet by a write, by a streaming read, by a save): every step result and the final all-sheets observation compared with the default-limit run; temp files in a private TMPDIR counted after every step (vs the extracted model) and after Close; declared size beyond UnzipSizeLimit refused without leftovers; stream spill files after every way of ending. non-trivial = limit below the package size"
	c.c12Limits()
	c.c12Reject()
	c.c12StreamSpill()
}
