package main

import (
	"fmt"
	"math"
	"math/big"
	"os"
	"strconv"
	"strings"
	"time"

	"github.com/xuri/excelize/v2"
)

func init() { props["C19"] = propFn{run: runC19, replay: replayC19} }

type c19case struct {
	Sys1904 bool   `json:"date1904"`
	Y       int    `json:"y"`
	M       int    `json:"m"`
	D       int    `json:"d"`
	Sec     int    `json:"sec_of_day"`
	Nanos   int    `json:"nanos"`
	Zone    string `json:"zone"`
	ZoneOff int    `json:"zone_offset_s"`
}

var c19zones = []struct {
	name string
	off  int
}{{"UTC", 0}, {"+05:30", 19800}, {"-09:30", -34200}, {"+14:00", 50400}, {"-12:00", -43200}, {"+05:45", 20700}}

func (k c19case) time() time.Time {
	loc := time.UTC
	if k.ZoneOff != 0 {
		loc = time.FixedZone(k.Zone, k.ZoneOff)
	}
	return time.Date(k.Y, time.Month(k.M), k.D, k.Sec/3600, (k.Sec/60)%60, k.Sec%60, k.Nanos, loc)
}

func (k c19case) inRange() bool {
	if k.Y > 9999 {
		return false
	}
	if k.Sys1904 {
		return k.Y >= 1904
	}
	return k.Y > 1900 || (k.Y == 1900 && k.M >= 3)
}

func bitsHex(x float64) string { return fmt.Sprintf("%016x", math.Float64bits(x)) }

type c19files struct {
	f1900, f1904 *excelize.File
}

func newC19Files() *c19files {
	a := excelize.NewFile()
	b := excelize.NewFile()
	t := true
	_ = b.SetWorkbookProps(&excelize.WorkbookPropsOptions{Date1904: &t})
	return &c19files{a, b}
}

// implEncode stores the time through the public API and returns (serial, isNum, rawText).
func (fs *c19files) implEncode(k c19case, public bool) (float64, bool, string, error) {
	if !public {
		// hook path: timeToExcelTime after the zone fold of setCellTime
		t := k.time()
		_, off := t.Zone()
		v := t.Add(time.Duration(off) * time.Second)
		x, err := excelize.VerifTimeToExcelTime(v, k.Sys1904)
		isNum := x > 0 || (k.Sys1904 && !v.Before(time.Date(1904, 1, 1, 0, 0, 0, 0, time.UTC)))
		return x, isNum, strconv.FormatFloat(x, 'f', -1, 64), err
	}
	f := fs.f1900
	if k.Sys1904 {
		f = fs.f1904
	}
	if err := f.SetCellValue("Sheet1", "A1", k.time()); err != nil {
		return 0, false, "", err
	}
	raw, err := f.GetCellValue("Sheet1", "A1", excelize.Options{RawCellValue: true})
	if err != nil {
		return 0, false, "", err
	}
	x, perr := strconv.ParseFloat(raw, 64)
	if perr != nil {
		return 0, false, raw, nil
	}
	return x, true, raw, nil
}

func fieldsOf(t time.Time) string {
	return fmt.Sprintf("%d %d %d %d %d %d %d", t.Year(), int(t.Month()), t.Day(), t.Hour(), t.Minute(), t.Second(), t.Nanosecond())
}

func (c *Ctx) c19Check(fs *c19files, ks []c19case) {
	t0 := time.Now()
	defer func() { c.R.Notes = append(c.R.Notes, fmt.Sprintf("batch %d in %.1fs", len(ks), time.Since(t0).Seconds())) }()
	var cases []mcase
	type pend struct {
		k     c19case
		x     float64
		isNum bool
	}
	var pends []pend
	for i, k := range ks {
		public := i%16 == 0 || k.Sec == 0 && k.D == 1
		x, isNum, raw, err := fs.implEncode(k, public)
		if public {
			c.R.Dist["public-api"]++
		}
		if err != nil {
			c.Fail("oracle", "C19_total", k, "SetCellValue(time) failed: "+err.Error(), "")
			continue
		}
		// hook path must agree with the public path
		t := k.time()
		_, off := t.Zone()
		hx, _ := excelize.VerifTimeToExcelTime(t.Add(time.Duration(off)*time.Second), k.Sys1904)
		if isNum && hx != x {
			c.Fail("model-impl", "public-vs-hook", k, fmt.Sprintf("cell raw %q (%v) differs from timeToExcelTime %v", raw, x, hx), "")
		}
		if !isNum {
			x = hx
		}
		nsod := int64(k.Sec)*1e9 + int64(k.Nanos)
		req := fmt.Sprintf("c19.encode %s %d %d %d %d", tf(k.Sys1904), k.Y, k.M, k.D, nsod)
		cases = append(cases, mcase{Req: req, Impl: "ok " + bitsHex(x) + " " + tf(isNum), Rel: "encode", Desc: k})
		c.Count("encode", k.inRange(), fmt.Sprint(k))
		pends = append(pends, pend{k, x, isNum})
		if isNum {
			dt, err := excelize.ExcelDateToTime(x, k.Sys1904)
			if err != nil {
				c.Fail("oracle", "C19_roundtrip", k, "ExcelDateToTime failed: "+err.Error(), "")
				continue
			}
			cases = append(cases, mcase{Req: fmt.Sprintf("c19.decode %s %s", tf(k.Sys1904), bitsHex(x)), Impl: "ok " + fieldsOf(dt), Rel: "decode", Desc: k})
			if k.inRange() && k.Nanos == 0 {
				want := fmt.Sprintf("%d %d %d %d %d %d 0", k.Y, k.M, k.D, k.Sec/3600, (k.Sec/60)%60, k.Sec%60)
				if fieldsOf(dt) != want {
					c.Fail("oracle", "C19_roundtrip", k, fmt.Sprintf("wall clock %s in zone %s -> serial %s -> %s", want, k.Zone, raw, fieldsOf(dt)), "")
				}
			}
		} else if k.inRange() {
			c.Fail("oracle", "C19_roundtrip", k, fmt.Sprintf("in-range instant stored as text %q instead of a serial number", raw), "")
		}
	}
	c.R.Notes = append(c.R.Notes, fmt.Sprintf("impl %.1fs", time.Since(t0).Seconds()))
	c.compareBatch(cases)
	c.R.Notes = append(c.R.Notes, fmt.Sprintf("+model %.1fs", time.Since(t0).Seconds()))
	// day-count oracle and measured float closeness, through the exact model layer
	if c.Model == nil || c.Model.path == "" {
		return
	}
	var reqs []string
	for _, p := range pends {
		nsod := int64(p.k.Sec)*1e9 + int64(p.k.Nanos)
		reqs = append(reqs, fmt.Sprintf("c19.exact %s %d %d %d %d", tf(p.k.Sys1904), p.k.Y, p.k.M, p.k.D, nsod))
	}
	outs := c.Model.Call(reqs)
	eps := new(big.Rat).SetFrac(big.NewInt(1), new(big.Int).Lsh(big.NewInt(1), 30))
	day := big.NewInt(86400000000000)
	for i, p := range pends {
		if !p.k.inRange() || !p.isNum {
			continue
		}
		fsx := strings.Fields(outs[i])
		if len(fsx) != 3 || fsx[0] != "ok" {
			continue
		}
		whole, _ := new(big.Int).SetString(fsx[1], 10)
		rem, _ := new(big.Int).SetString(fsx[2], 10)
		exact := new(big.Rat).Add(new(big.Rat).SetInt(whole), new(big.Rat).SetFrac(rem, day))
		xr := new(big.Rat).SetFloat64(p.x)
		diff := new(big.Rat).Sub(xr, exact)
		diff.Abs(diff)
		if diff.Cmp(eps) > 0 {
			c.Fail("oracle", "C19_float_close", p.k, fmt.Sprintf("serial %v differs from the exact serial %s by more than 2^-30", p.x, exact.FloatString(12)), "")
		}
		// the whole part is the day count Excel defines
		wantDays := excelDayCount(p.k.Sys1904, p.k.Y, p.k.M, p.k.D)
		if int64(math.Floor(p.x+1e-7)) != wantDays {
			c.Fail("oracle", "C19_daycount", p.k, fmt.Sprintf("serial %v: whole part is not Excel's day count %d", p.x, wantDays), "")
		}
	}
	// monotonicity over the batch (same system, sorted by wall clock as generated)
	for i := 1; i < len(pends); i++ {
		a, b := pends[i-1], pends[i]
		if a.k.Sys1904 != b.k.Sys1904 || !a.isNum || !b.isNum || !a.k.inRange() || !b.k.inRange() {
			continue
		}
		cmp := func(p, q c19case) int {
			pa := []int{p.Y, p.M, p.D, p.Sec, p.Nanos}
			qa := []int{q.Y, q.M, q.D, q.Sec, q.Nanos}
			for i := range pa {
				if pa[i] != qa[i] {
					if pa[i] < qa[i] {
						return -1
					}
					return 1
				}
			}
			return 0
		}
		o := cmp(a.k, b.k)
		if (o < 0 && a.x > b.x) || (o > 0 && a.x < b.x) {
			c.Fail("oracle", "C19_monotone", []c19case{a.k, b.k}, fmt.Sprintf("later wall clock has smaller serial: %v vs %v", a.x, b.x), "")
		}
	}
}

// excelDayCount: the day count Excel defines, computed independently by walking the
// calendar year by year (1900 counted as a leap year in the 1900 system).
var dayCountCache = map[[2]int]int64{}

func excelDayCount(sys1904 bool, y, m, d int) int64 {
	base := 1900
	if sys1904 {
		base = 1904
	}
	leap := func(yy int) bool {
		return (yy%4 == 0 && yy%100 != 0) || yy%400 == 0 || (!sys1904 && yy == 1900)
	}
	key := [2]int{base, y}
	n, ok := dayCountCache[key]
	if !ok {
		n = 0
		for yy := base; yy < y; yy++ {
			if leap(yy) {
				n += 366
			} else {
				n += 365
			}
		}
		dayCountCache[key] = n
	}
	ml := []int{31, 28, 31, 30, 31, 30, 31, 31, 30, 31, 30, 31}
	for mm := 1; mm < m; mm++ {
		n += int64(ml[mm-1])
		if mm == 2 && leap(y) {
			n++
		}
	}
	n += int64(d)
	if sys1904 {
		n-- // 1904-01-01 is serial 0
	}
	return n
}

func daysIn(y, m int) int {
	return time.Date(y, time.Month(m)+1, 0, 0, 0, 0, 0, time.UTC).Day()
}

func runC19(c *Ctx) {
	c.R.Rule = "sequences of SetCellValue(time) in one process whose zones share a name but not an offset (unnamed and same-named fixed zones, tz database zones on both sides of daylight-saving transitions): stored serial = conversion of the value's own wall clock, decodes to it; wall-clock instants (date x second-of-day x zone x date system): every day of selected years (boundaries 1899-1905, leap/century years, 2^21-day boundary, 9999) and of every Nth year (N=997 quick / 1 thorough), first/last day of Jan, Feb, Mar, Dec of every 11th year (every year thorough); seconds {0,1,59,60,3599,3600,43199,43200,43201,86398,86399} on boundary days plus 2 random seconds per day; zones by PRNG; sub-second instants for correspondence only. non-trivial = instant inside the property's range; distinct = distinct (system,date,second,zone)"
	fs := newC19Files()
	defer fs.f1900.Close()
	defer fs.f1904.Close()
	special := map[int]bool{1899: true, 1900: true, 1901: true, 1903: true, 1904: true, 1905: true, 1999: true, 2000: true, 2001: true,
		2024: true, 2100: true, 2189: true, 2190: true, 2400: true, 7641: true, 7642: true, 9998: true, 9999: true}
	step, bstep := 997, 11
	if c.Thorough() {
		step, bstep = 1, 1
	} else {
		for _, y := range []int{1901, 1903, 1905, 1999, 2001, 2189, 2190, 2400, 7641, 9998} {
			delete(special, y)
		}
	}
	bsecs := []int{0, 1, 59, 60, 3599, 3600, 43199, 43200, 43201, 86398, 86399}
	var batch []c19case
	flush := func() {
		if len(batch) > 0 {
			c.c19Check(fs, batch)
			batch = batch[:0]
		}
	}
	zi := 0
	add := func(sys bool, y, m, d, sec, ns int) {
		z := c19zones[zi%len(c19zones)]
		zi += 1 + c.Rng.Intn(2)
		batch = append(batch, c19case{sys, y, m, d, sec, ns, z.name, z.off})
		if len(batch) >= 50000 {
			flush()
		}
	}
	maxY := 9999
	if os.Getenv("C19_MAXY") != "" {
		maxY, _ = strconv.Atoi(os.Getenv("C19_MAXY"))
	}
	for _, sys := range []bool{false, true} {
		for y := 1899; y <= maxY; y++ {
			full := special[y] || (y-1899)%step == 0
			edge := full || c.Thorough() || (y-1899)%bstep == 0
			if !edge {
				continue
			}
			for m := 1; m <= 12; m++ {
				dim := daysIn(y, m)
				for d := 1; d <= dim; d++ {
					boundary := d == 1 || d == dim
					if !full && !(boundary && (m == 1 || m == 2 || m == 3 || m == 12)) {
						continue
					}
					if full && (special[y] || boundary) {
						for _, s := range bsecs {
							add(sys, y, m, d, s, 0)
						}
					} else {
						add(sys, y, m, d, 0, 0)
						add(sys, y, m, d, 86399, 0)
					}
					if full {
						s1, s2 := c.Rng.Intn(86400), c.Rng.Intn(86400)
						if s1 > s2 {
							s1, s2 = s2, s1
						}
						add(sys, y, m, d, s1, 0)
						if s2 != s1 {
							add(sys, y, m, d, s2, 0)
						}
						if d%7 == 0 {
							add(sys, y, m, d, s2, []int{1, 499999999, 500000000, 501000000, 999999999}[c.Rng.Intn(5)])
						}
					}
				}
			}
		}
		flush()
	}
	c.c19ZoneSequences(fs)
	c.Sample(c19case{false, 1900, 3, 1, 0, 0, "UTC", 0})
	c.Sample(c19case{true, 1904, 1, 1, 0, 0, "+05:30", 19800})
	c.Sample(c19case{false, 9999, 12, 31, 86399, 0, "-09:30", -34200})
	c.R.Exhaustive = c.Thorough()
}

func replayC19(c *Ctx, f Failure) {
	fs := newC19Files()
	var ks []c19case
	conv := func(m map[string]interface{}) c19case {
		g := func(k string) int { v, _ := m[k].(float64); return int(v) }
		s, _ := m["zone"].(string)
		b, _ := m["date1904"].(bool)
		return c19case{b, g("y"), g("m"), g("d"), g("sec_of_day"), g("nanos"), s, g("zone_offset_s")}
	}
	var walk func(v interface{})
	walk = func(v interface{}) {
		switch t := v.(type) {
		case map[string]interface{}:
			if _, ok := t["sec_of_day"]; ok {
				ks = append(ks, conv(t))
				return
			}
			for _, x := range t {
				walk(x)
			}
		case []interface{}:
			for _, x := range t {
				walk(x)
			}
		}
	}
	walk(f.Case)
	c.c19Check(fs, ks)
}
