module verif/harness

go 1.23.0

require (
	github.com/xuri/efp v0.0.0-20250227110027-3491fafc2b79
	github.com/xuri/excelize/v2 v2.0.0
	github.com/xuri/nfp v0.0.0-20250226145837-86d5fc24b2ba
)

require (
	github.com/richardlehane/mscfb v1.0.4 // indirect
	github.com/richardlehane/msoleps v1.0.4 // indirect
	github.com/tiendc/go-deepcopy v1.5.1 // indirect
	golang.org/x/crypto v0.36.0 // indirect
	golang.org/x/net v0.38.0 // indirect
	golang.org/x/text v0.23.0 // indirect
)

replace github.com/xuri/excelize/v2 => /repo
