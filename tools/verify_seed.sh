#!/bin/bash
# verify_seed.sh <name> <seed-dir>: confirm a seeded change in a scratch worktree of /repo HEAD:
#  demo fails with the patch, passes without it, full suite passes with the patch (without the demo).
name=$1; seed=$2
wt=/tmp/verify-$name
export GOFLAGS=-mod=mod GOPROXY=off GOSUMDB=off GOTOOLCHAIN=local
log=/tmp/verify-$name.log
{
git -C /repo worktree remove --force $wt 2>/dev/null
git -C /repo worktree add -q --detach $wt HEAD || exit 1
cd $wt
cp $seed/demo_test.go $wt/seed_demo_test.go
echo "== demo WITHOUT patch (must pass)"; go test -vet=off -count=1 -run TestSeedDemo . 2>&1 | tail -3
git apply $seed/patch.diff || { echo "PATCH DOES NOT APPLY"; }
echo "== demo WITH patch (must fail)"; go test -vet=off -count=1 -run TestSeedDemo . 2>&1 | tail -6
rm -f $wt/seed_demo_test.go
echo "== full suite WITH patch (must pass)"; go test -vet=off -count=1 -timeout 60m . 2>&1 | tail -3
cd /; git -C /repo worktree remove --force $wt
echo "== done"
} > $log 2>&1
