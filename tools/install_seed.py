#!/usr/bin/env python3
"""install_seed.py <name> <src-seed-dir> <property> <caught-by-check: yes/no> <note>  -> /verif/seeded/<name>/"""
import json, os, shutil, sys
name, src, prop, caught, note = sys.argv[1:6]
dst = os.path.join('/verif/seeded', name)
os.makedirs(dst, exist_ok=True)
for f in ('patch.diff', 'demo_test.go'):
    shutil.copy(os.path.join(src, f), os.path.join(dst, f))
meta = {}
try:
    meta = json.load(open(os.path.join(src, 'meta.json')))
except Exception:
    pass
log = ''
try:
    log = open('/tmp/verify-%s.log' % prop).read()
except Exception:
    pass
meta.update({
    'property': prop,
    'confirmed_by_me': {
        'how': 'tools/verify_seed.sh in a scratch worktree of /repo HEAD: demo test without the patch, with the patch, full suite with the patch (demo not in the package)',
        'log_tail': [l for l in log.splitlines() if l.strip()][-12:],
    },
    'check_result': {'detected_by': './check %s --tier quick' % prop, 'detected': caught == 'yes', 'note': note},
})
json.dump(meta, open(os.path.join(dst, 'meta.json'), 'w'), indent=1)
print('installed', dst)
