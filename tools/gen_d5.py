#!/usr/bin/env python3
"""gen_d5.py: regenerate DESIGN.md section D.5 (per-property defects, known findings, seeded changes) from
KNOWN_FINDINGS.txt and seeded/*/meta.json.  Everything between the D.5 introduction and '### D.6' is replaced."""
import json, os, re
ROOT = os.path.dirname(os.path.dirname(os.path.abspath(__file__)))
fixed, known = {}, {}
for l in open(os.path.join(ROOT, 'KNOWN_FINDINGS.txt')):
    l = l.rstrip('\n')
    m = re.match(r'^(fixed|known): property=(C\d\d) (.*)$', l)
    if not m:
        continue
    (fixed if m.group(1) == 'fixed' else known).setdefault(m.group(2), []).append(m.group(3))
seeds = {}
sd = os.path.join(ROOT, 'seeded')
for name in sorted(os.listdir(sd)):
    try:
        meta = json.load(open(os.path.join(sd, name, 'meta.json')))
    except Exception:
        continue
    cr = meta.get('check_result', {})
    seeds.setdefault(meta.get('property', name[:3]), []).append(
        '`seeded/%s` — %s%s' % (name, '' if cr.get('detected', False) else 'NOT caught: ', cr.get('note', '')))
out = []
for i in range(1, 21):
    p = 'C%02d' % i
    out.append('### %s' % p)
    if fixed.get(p):
        out.append('Repaired in /repo (`fix:` commits):')
        for x in fixed[p]:
            h, _, rest = x.partition(' ')
            out.append('* `%s` %s' % (h, rest))
    if known.get(p):
        out.append('Known findings:')
        out += ['* ' + x for x in known[p]]
    if not fixed.get(p) and not known.get(p):
        out.append('No defect found.')
    if seeds.get(p):
        out.append('Seeded changes and what catches them:')
        out += ['* ' + x for x in seeds[p]]
    out.append('')
path = os.path.join(ROOT, 'DESIGN.md')
s = open(path).read()
a = s.index('### C01\n', s.index('### D.5'))
b = s.index('### D.6')
s = s[:a] + '\n'.join(out) + '\n' + s[b:]
open(path, 'w').write(s)
print('D.5 regenerated: %d fixed, %d known, %d seeds' % (sum(map(len, fixed.values())), sum(map(len, known.values())), sum(map(len, seeds.values()))))
