#!/bin/bash
# run_seed.sh <seed-dir> <PROP> [tier]: apply a seeded change to /repo, run the check, undo it straight afterwards.
sd=$1; prop=$2; tier=${3:-quick}
cd /verif
if [ -n "$(git -C /repo status --porcelain)" ]; then echo "/repo working tree is not clean"; exit 2; fi
git -C /repo apply $(realpath $sd)/patch.diff || { echo "PATCH DOES NOT APPLY"; exit 3; }
./check $prop --tier $tier 2>&1 | grep -E "^OK|^VIOLATION|^KNOWN|^FAIL|broken" | cut -c1-400 | tail -8
git -C /repo checkout -- .
[ "$prop" = C15 ] && build/lockgen /repo coq/Generated/Locks.v build/locks.json >/dev/null
git -C /repo status --porcelain | head -2
