#!/usr/bin/env python3
"""Regenerates MANIFEST.json from props_meta.json (kept valid at all times)."""
import json, os
ROOT = os.path.dirname(os.path.abspath(__file__))
meta = json.load(open(os.path.join(ROOT, "props_meta.json")))
ids = [json.loads(l)["id"] for l in open(os.path.join(ROOT, "properties.jsonl"))]
hooks_commits = meta.get("_hooks", {}).get("source_commits", [])
man = {
    "version": 1,
    "setup_cmd": "./setup.sh",
    "hooks": {
        "guard": "verif",
        "enable": "go build -tags verif (harness module with replace github.com/xuri/excelize/v2 => /repo)",
        "baseline_off_cmd": "cd /repo && GOFLAGS=-mod=mod go test -json -vet=off -count=1 -timeout 25m ./...",
        "source_commits": hooks_commits,
        "add_only": True,
    },
    "engines": [
        {"name": "coq-model", "path": "coq/", "serves_properties": [i for i in ids if meta.get(i, {}).get("claimed")],
         "kind_free_text": "Gallina models + Coq 8.16.1 proofs; Props/Cxx.v hold the property theorems"},
        {"name": "vmodel", "path": "ocaml/ + coq/Extract.v", "serves_properties": [i for i in ids if meta.get(i, {}).get("claimed")],
         "kind_free_text": "extracted OCaml model runner (line protocol)"},
        {"name": "vh", "path": "harness/cmd/vh", "serves_properties": [i for i in ids if meta.get(i, {}).get("claimed")],
         "kind_free_text": "Go correspondence + direct-oracle harness built against /repo's working tree"},
        {"name": "constgen", "path": "harness/cmd/constgen", "serves_properties": [i for i in ids if meta.get(i, {}).get("claimed")],
         "kind_free_text": "translator go/ast -> coq/Generated/Consts.v, re-run on every check"},
    ],
    "checks": [],
    "not_applicable": [],
    "notes": "All checks: ./check Cxx --tier quick|thorough; evidence/Cxx.json rewritten by every run; KNOWN_FINDINGS.txt lists known findings and fixed defects. See DESIGN.md.",
}
for i in ids:
    m = meta.get(i, {})
    if m.get("claimed"):
        man["checks"].append({
            "property_id": i,
            "quick_cmd": "./check %s --tier quick" % i,
            "thorough_cmd": "./check %s --tier thorough" % i,
            "evidence_file": "/verif/evidence/%s.json" % i,
            "replay_cmd_template": "./check %s --replay {path}" % i,
            "engine": "coq-model+vh",
            "level_claimed": {"category": "proof", "text": m["level_text"], "design_ref": m.get("design_ref", "DESIGN.md section 6")},
            "level_note": m["level_note"],
            "technique": m["technique"],
        })
    else:
        man["not_applicable"].append({"property_id": i, "reason": m.get("na_reason", "not claimed yet: model, theorems and correspondence for this property are still being built (see DESIGN.md section 8)")})
json.dump(man, open(os.path.join(ROOT, "MANIFEST.json"), "w"), indent=1)
print("MANIFEST.json: %d checks, %d not_applicable" % (len(man["checks"]), len(man["not_applicable"])))
