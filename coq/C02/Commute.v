(* C02: saving commutes with everything that follows: inserting saves anywhere in a history of value, formula,
   cell-style and row-style writes changes nothing a getter can see (stored content and resolved style, every position). *)
From VF Require Import Base.Prelude Generated.Consts Sheet.Model Sheet.Proofs Sheet.View.
From Coq Require Import ZifyBool ZifyNat.

Definition is_save (o : op) : bool := match o with OSave => true | _ => false end.
Definition strip_saves (ops : list op) : list op := filter (fun o => negb (is_save o)) ops.
Definition simple_or_save (o : op) : Prop := match o with OSave => True | _ => op_ok o /\ op_simple o end.

Lemma W_save_eq sh c r : Inv sh -> 1 <= c -> 1 <= r -> W (save sh) c r = W sh c r.
Proof.
  intros HI Hc Hr. destruct (save_spec sh HI) as (_ & Habs & Hrs & _ & _ & Hcs).
  unfold W. rewrite !prepare_cell_style_pcs, Habs, Hrs, Hcs by assumption. reflexivity.
Qed.

Theorem saves_commute ops0 : forall sh, WF sh -> merges sh = [] -> Forall simple_or_save ops0 ->
  (forall c r, 1 <= c -> 1 <= r -> W (run ops0 sh) c r = W (run (strip_saves ops0) sh) c r) /\
  WF (run ops0 sh) /\ merges (run ops0 sh) = [] /\ cols (run ops0 sh) = cols sh.
Proof.
  (* both runs are related through the pointwise view: generalise over a second state with the same view *)
  assert (G : forall ops sh sh', WF sh -> WF sh' -> merges sh = [] -> merges sh' = [] -> cols sh = cols sh' ->
              (forall c r, 1 <= c -> 1 <= r -> W sh c r = W sh' c r) -> Forall simple_or_save ops ->
              (forall c r, 1 <= c -> 1 <= r -> W (run ops sh) c r = W (run (strip_saves ops) sh') c r) /\
              WF (run ops sh) /\ merges (run ops sh) = [] /\ cols (run ops sh) = cols sh).
  { intros ops. induction ops as [|o ops IH]; intros sh sh' HW HW' Hm Hm' Hc HWeq Hall; cbn [run fold_left strip_saves filter].
    - refine (conj _ (conj HW (conj Hm eq_refl))). exact HWeq.
    - inversion Hall as [|? ? Ho Hall']; subst. fold (run ops (step sh o)). destruct o; cbn [is_save negb simple_or_save] in *;
        try (destruct Ho as [Hok Hsim];
             match goal with |- context [run ops (step sh ?oo)] =>
               destruct (W_step sh oo HW Hm Hok Hsim) as (A1 & A2 & A3);
               destruct (W_step sh' oo HW' Hm' Hok Hsim) as (B1 & B2 & B3);
               cbn [run fold_left]; fold (run (strip_saves ops) (step sh' oo));
               destruct (IH (step sh oo) (step sh' oo) (step_WF sh oo HW Hok) (step_WF sh' oo HW' Hok) A3 B3 ltac:(congruence)
                           ltac:(intros c r Hcc Hrr; rewrite (A1 c r Hcc Hrr), (B1 c r Hcc Hrr); unfold wstep; now rewrite (HWeq c r Hcc Hrr)) Hall') as (G1 & G2 & G3 & G4);
               refine (conj G1 (conj G2 (conj G3 _))); congruence
             end).
      (* a save *)
      cbn [step]. destruct HW as [HI HM]. destruct (save_spec sh HI) as (HI2 & _ & _ & _ & Hms & Hcs).
      assert (HWs : WF (save sh)) by (split; [exact HI2 | rewrite Hms; exact HM]).
      assert (HWe : forall c r, 1 <= c -> 1 <= r -> W (save sh) c r = W sh' c r)
        by (intros c r Hcc Hrr; rewrite (W_save_eq sh c r HI Hcc Hrr); now apply HWeq).
      destruct (IH (save sh) sh' HWs HW' ltac:(congruence) Hm' ltac:(congruence) HWe Hall') as (G1 & G2 & G3 & G4).
      refine (conj G1 (conj G2 (conj G3 _))). congruence. }
  intros sh HW Hm Hall. apply (G ops0 sh sh HW HW Hm Hm eq_refl); [intros; reflexivity|assumption].
Qed.
