(* C17 model: the style registry as an append-only table of normalised definitions (tokens), with
   lookup before insert (styles.go:NewStyle/getStyleID/setCellXfs, GetStyle); style resolution
   cell > row > column is the sheet core's prepare_cell_style / get_cell_style. *)
From VF Require Import Base.Prelude Generated.Consts.

Definition registry := list Z.          (* cellXfs: index = style id, value = token of the definition *)
Definition init_reg : registry := [0].  (* id 0: the default style *)

Fixpoint find_tok (k : Z) (l : registry) (i : Z) : option Z :=
  match l with
  | [] => None
  | x :: rest => if x =? k then Some i else find_tok k rest (i + 1)
  end.

(* styles.go:NewStyle: an existing equal definition is returned, otherwise the definition is appended;
   the table never holds more than MaxCellStyles entries *)
Definition new_style (k : Z) (reg : registry) : res (Z * registry) :=
  match find_tok k reg 0 with
  | Some id => Ok (id, reg)
  | None => if Z.of_nat (length reg) =? MaxCellStyles then Err 1
            else Ok (Z.of_nat (length reg), reg ++ [k])
  end.

Definition get_style (reg : registry) (id : Z) : option Z :=
  if id <? 0 then None else nth_error reg (Z.to_nat id).

Definition valid_id (reg : registry) (id : Z) : bool := (0 <=? id) && (id <? Z.of_nat (length reg)).

Fixpoint run_styles (ks : list Z) (reg : registry) : list Z * registry :=
  match ks with
  | [] => ([], reg)
  | k :: rest => match new_style k reg with
                 | Ok (id, reg') => let '(ids, r) := run_styles rest reg' in (id :: ids, r)
                 | _ => let '(ids, r) := run_styles rest reg in (-1 :: ids, r)
                 end
  end.
