From VF Require Import Base.Prelude Generated.Consts C17.Model.
From Coq Require Import ZifyBool ZifyNat.

Lemma find_tok_spec k : forall l i id, find_tok k l i = Some id ->
  i <= id < i + Z.of_nat (length l) /\ nth_error l (Z.to_nat (id - i)) = Some k.
Proof.
  induction l as [|x l IH]; intros i id H; cbn in H; [discriminate|].
  destruct (Z.eqb_spec x k) as [->|N].
  - inversion H; subst. replace (Z.to_nat (id - id)) with 0%nat by lia. cbn. split; [lia|reflexivity].
  - destruct (IH (i + 1) id H) as [H1 H2]. cbn [length]. split; [lia|].
    replace (Z.to_nat (id - i)) with (S (Z.to_nat (id - (i + 1)))) by lia. exact H2.
Qed.

Lemma find_tok_none k : forall l i, find_tok k l i = None -> ~ In k l.
Proof.
  induction l as [|x l IH]; intros i H Hin; cbn in *; [assumption|].
  destruct (Z.eqb_spec x k); [discriminate|]. destruct Hin as [->|Hin]; [contradiction|]. eapply IH; eauto.
Qed.

Lemma find_tok_app k : forall l i id, find_tok k l i = Some id -> forall l', find_tok k (l ++ l') i = Some id.
Proof.
  induction l as [|x l IH]; intros i id H l'; cbn in *; [discriminate|].
  destruct (x =? k); [assumption|]. now apply IH.
Qed.

Lemma find_tok_snoc k : forall l i, find_tok k l i = None -> find_tok k (l ++ [k]) i = Some (i + Z.of_nat (length l)).
Proof.
  induction l as [|x l IH]; intros i H; cbn in *.
  - rewrite Z.eqb_refl. f_equal. lia.
  - destruct (x =? k); [discriminate|]. rewrite IH by assumption. f_equal. lia.
Qed.

(* the id returned denotes the requested definition *)
Lemma new_style_get k reg id reg' : new_style k reg = Ok (id, reg') -> get_style reg' id = Some k /\ valid_id reg' id = true.
Proof.
  unfold new_style, get_style, valid_id. destruct (find_tok k reg 0) as [i|] eqn:E.
  - intros H. inversion H; subst. destruct (find_tok_spec _ _ _ _ E) as [H1 H2].
    replace (id - 0) with id in H2 by lia. destruct (Z.ltb_spec id 0); [lia|]. split; [assumption|lia].
  - destruct (Z.of_nat (length reg) =? MaxCellStyles); [discriminate|]. intros H. inversion H; subst.
    destruct (Z.ltb_spec (Z.of_nat (length reg)) 0); [lia|]. rewrite Nat2Z.id, nth_error_app2, Nat.sub_diag by lia.
    split; [reflexivity|]. rewrite app_length. cbn. lia.
Qed.

(* previously issued ids never change their meaning *)
Lemma new_style_stable k reg id reg' : new_style k reg = Ok (id, reg') ->
  forall j, valid_id reg j = true -> get_style reg' j = get_style reg j.
Proof.
  unfold new_style. destruct (find_tok k reg 0) eqn:E.
  - intros H. inversion H; subst. reflexivity.
  - destruct (_ =? MaxCellStyles); [discriminate|]. intros H j Hj. inversion H; subst.
    unfold get_style, valid_id in *. destruct (j <? 0); [reflexivity|]. apply nth_error_app1. lia.
Qed.

(* registering the same definition again returns the same id and changes nothing *)
Lemma new_style_dedup k reg id reg' : new_style k reg = Ok (id, reg') -> new_style k reg' = Ok (id, reg').
Proof.
  unfold new_style. destruct (find_tok k reg 0) as [i|] eqn:E.
  - intros H. inversion H; subst. now rewrite E.
  - destruct (_ =? MaxCellStyles); [discriminate|]. intros H. inversion H; subst.
    rewrite (find_tok_snoc k reg 0 E). reflexivity.
Qed.

(* a rejected registration changes nothing (the table is full) *)
Lemma new_style_err k reg e : new_style k reg = Err e -> Z.of_nat (length reg) = MaxCellStyles /\ ~ In k reg.
Proof.
  unfold new_style. destruct (find_tok k reg 0) eqn:E; [discriminate|].
  destruct (Z.eqb_spec (Z.of_nat (length reg)) MaxCellStyles); [|discriminate]. intros _. split; [assumption|].
  eapply find_tok_none; eauto.
Qed.

(* histories: every id ever issued keeps denoting its definition *)
Lemma run_styles_stable : forall ks reg ids reg', run_styles ks reg = (ids, reg') ->
  forall j, valid_id reg j = true -> get_style reg' j = get_style reg j /\ valid_id reg' j = true.
Proof.
  induction ks as [|k ks IH]; intros reg ids reg' H j Hj; cbn in H.
  - inversion H; subst. auto.
  - destruct (new_style k reg) as [[id r1]| |] eqn:E.
    + destruct (run_styles ks r1) as [ids1 r2] eqn:E2. inversion H; subst.
      assert (Hj1 : valid_id r1 j = true).
      { unfold new_style in E. destruct (find_tok k reg 0); [inversion E; now subst|].
        destruct (_ =? MaxCellStyles); [discriminate|]. inversion E; subst. unfold valid_id in *. rewrite app_length. cbn. lia. }
      destruct (IH r1 ids1 reg' E2 j Hj1) as [H1 H2]. split; [|assumption].
      rewrite H1. eapply new_style_stable; eauto.
    + destruct (run_styles ks reg) as [ids1 r2] eqn:E2. inversion H; subst. eapply IH; eauto.
    + destruct (run_styles ks reg) as [ids1 r2] eqn:E2. inversion H; subst. eapply IH; eauto.
Qed.
