(* C17, deduplication at full strength: over every history of registrations the table never holds one definition
   twice, so two valid ids denote the same definition only if they are the same id; every id a history hands out
   denotes, in the final table, the definition that was asked for at that point; hence equal requests anywhere in a
   history receive equal ids. *)
From VF Require Import Base.Prelude Generated.Consts C17.Model C17.Proofs.
From Coq Require Import ZifyBool ZifyNat.

Lemma nodup_snoc_z (l : list Z) x : NoDup l -> ~ In x l -> NoDup (l ++ [x]).
Proof.
  induction l as [|y l IH]; intros H Hx; cbn; [constructor; [intros []|constructor]|].
  inversion H; subst. constructor.
  - intros Hin. apply in_app_or in Hin. destruct Hin as [Hin|[<-|[]]]; [contradiction|apply Hx; now left].
  - apply IH; [assumption|]. intros Hin. apply Hx. now right.
Qed.

Lemma new_style_nodup k reg id reg' : NoDup reg -> new_style k reg = Ok (id, reg') -> NoDup reg'.
Proof.
  intros Hn. unfold new_style. destruct (find_tok k reg 0) eqn:E.
  - intros H. inversion H; now subst.
  - destruct (_ =? MaxCellStyles); [discriminate|]. intros H. inversion H; subst.
    apply nodup_snoc_z; [assumption|]. eapply find_tok_none; eauto.
Qed.

Lemma run_styles_nodup : forall ks reg ids reg', NoDup reg -> run_styles ks reg = (ids, reg') -> NoDup reg'.
Proof.
  induction ks as [|k ks IH]; intros reg ids reg' Hn H; cbn in H.
  - inversion H; now subst.
  - destruct (new_style k reg) as [[id r1]| |] eqn:E.
    + destruct (run_styles ks r1) as [ids1 r2] eqn:E2. inversion H; subst.
      eapply IH; [|exact E2]. eapply new_style_nodup; eauto.
    + destruct (run_styles ks reg) as [ids1 r2] eqn:E2. inversion H; subst. eapply IH; eauto.
    + destruct (run_styles ks reg) as [ids1 r2] eqn:E2. inversion H; subst. eapply IH; eauto.
Qed.

(* in a duplicate-free table an id is determined by its definition *)
Lemma get_style_inj reg i j k : NoDup reg -> get_style reg i = Some k -> get_style reg j = Some k -> i = j.
Proof.
  intros Hn. unfold get_style. destruct (Z.ltb_spec i 0); [discriminate|]. destruct (Z.ltb_spec j 0); [discriminate|].
  intros Hi Hj. assert (Hlt : (Z.to_nat i < length reg)%nat) by (apply nth_error_Some; congruence).
  pose proof (proj1 (NoDup_nth_error reg) Hn (Z.to_nat i) (Z.to_nat j) Hlt) as G.
  rewrite Hi, Hj in G. specialize (G eq_refl). lia.
Qed.

(* one id list per request list *)
Lemma run_styles_length : forall ks reg ids reg', run_styles ks reg = (ids, reg') -> length ids = length ks.
Proof.
  induction ks as [|k ks IH]; intros reg ids reg' H; cbn in H.
  - inversion H; now subst.
  - destruct (new_style k reg) as [[id r1]| |] eqn:E.
    + destruct (run_styles ks r1) as [ids1 r2] eqn:E2. inversion H; subst. cbn. f_equal. eapply IH; eauto.
    + destruct (run_styles ks reg) as [ids1 r2] eqn:E2. inversion H; subst. cbn. f_equal. eapply IH; eauto.
    + destruct (run_styles ks reg) as [ids1 r2] eqn:E2. inversion H; subst. cbn. f_equal. eapply IH; eauto.
Qed.

(* every id handed out (a refused registration yields -1) denotes, in the final table, what was asked for *)
Lemma run_styles_issued : forall ks reg ids reg', run_styles ks reg = (ids, reg') ->
  forall n id k, nth_error ids n = Some id -> nth_error ks n = Some k -> 0 <= id ->
  get_style reg' id = Some k /\ valid_id reg' id = true.
Proof.
  induction ks as [|k0 ks IH]; intros reg ids reg' H n id k Hid Hk Hpos; cbn in H.
  - destruct n; discriminate.
  - destruct (new_style k0 reg) as [[id0 r1]| |] eqn:E.
    + destruct (run_styles ks r1) as [ids1 r2] eqn:E2. inversion H; subst.
      destruct n as [|n]; cbn in Hid, Hk.
      * inversion Hid; inversion Hk; subst. destruct (new_style_get _ _ _ _ E) as [G1 G2].
        destruct (run_styles_stable _ _ _ _ E2 id G2) as [S1 S2]. split; [now rewrite S1|assumption].
      * eapply IH; eauto.
    + destruct (run_styles ks reg) as [ids1 r2] eqn:E2. inversion H; subst.
      destruct n as [|n]; cbn in Hid, Hk; [inversion Hid; lia|]. eapply IH; eauto.
    + destruct (run_styles ks reg) as [ids1 r2] eqn:E2. inversion H; subst.
      destruct n as [|n]; cbn in Hid, Hk; [inversion Hid; lia|]. eapply IH; eauto.
Qed.

(* the property, over histories from the initial registry: ids are equal exactly when the requests were *)
Theorem history_dedup ks ids reg' : run_styles ks init_reg = (ids, reg') ->
  NoDup reg' /\
  forall n m a b ka kb, nth_error ids n = Some a -> nth_error ids m = Some b ->
    nth_error ks n = Some ka -> nth_error ks m = Some kb -> 0 <= a -> 0 <= b ->
    (a = b <-> ka = kb).
Proof.
  intros H. assert (Hn : NoDup reg').
  { eapply run_styles_nodup; [|exact H]. unfold init_reg. constructor; [intros []|constructor]. }
  split; [exact Hn|]. intros n m a b ka kb Ha Hb Hka Hkb Pa Pb.
  destruct (run_styles_issued _ _ _ _ H n a ka Ha Hka Pa) as [Ga _].
  destruct (run_styles_issued _ _ _ _ H m b kb Hb Hkb Pb) as [Gb _].
  split.
  - intros <-. congruence.
  - intros <-. eapply get_style_inj; eauto.
Qed.

(* a refusal happens only when the table is full, and leaves it untouched *)
Lemma new_style_refused k reg e : new_style k reg = Err e -> Z.of_nat (length reg) = MaxCellStyles.
Proof. intros H. exact (proj1 (new_style_err _ _ _ H)). Qed.

(* registering the definition read back by GetStyle returns that very id and changes nothing *)
Lemma find_tok_nth k : forall l i n, NoDup l -> nth_error l n = Some k -> find_tok k l i = Some (i + Z.of_nat n).
Proof.
  induction l as [|x l IH]; intros i n Hn Hk; [destruct n; discriminate|].
  inversion Hn as [|? ? Hx Hl]; subst. cbn [find_tok]. destruct n as [|n]; cbn [nth_error] in Hk.
  - inversion Hk; subst. rewrite Z.eqb_refl. f_equal. lia.
  - destruct (Z.eqb_spec x k) as [->|N]; [exfalso; apply Hx; eapply nth_error_In; eauto|].
    rewrite (IH (i + 1) n Hl Hk). f_equal. lia.
Qed.

Theorem new_style_of_get reg id k : NoDup reg -> get_style reg id = Some k -> new_style k reg = Ok (id, reg).
Proof.
  intros Hn. unfold get_style. destruct (Z.ltb_spec id 0); [discriminate|]. intros Hk.
  unfold new_style. rewrite (find_tok_nth k reg 0 (Z.to_nat id) Hn Hk). do 2 f_equal. lia.
Qed.

Theorem history_idem ks ids reg' id k : run_styles ks init_reg = (ids, reg') -> get_style reg' id = Some k ->
  new_style k reg' = Ok (id, reg').
Proof. intros H. apply new_style_of_get. exact (proj1 (history_dedup _ _ _ H)). Qed.
