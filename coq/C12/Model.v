(* C12: where the parts of an opened workbook live (memory / temporary file), and the temporary files on disk.
   Follows lib.go:ReadZipReader/unzipToTemp/readBytes/readTemp, rows.go:getFromStringItem (string index file),
   cell.go:sharedStringsLoader, file.go:writeToZip/Close.  The file system is the list of temp-file names that exist. *)
From VF Require Import Base.Prelude Generated.Consts.

Record part := mkPart { p_class : Z; p_key : Z; p_size : Z }.     (* class: 0 other, 1 worksheet, 2 shared strings *)

Record ploc := mkPl {
  pl_part : part;
  pl_temp : option nat;      (* f.tempFiles entry: name of the temp file holding the part *)
  pl_mem : bool }.           (* the part's bytes are in f.Pkg *)

Record st := mkSt {
  locs : list ploc;
  fs : list nat;             (* temp files that exist *)
  next : nat;                (* os.CreateTemp never returns an existing name *)
  sst_idx : option nat }.    (* f.sharedStringTemp: the shared-string index file *)

Definition opt_list {A} (o : option A) : list A := match o with Some x => [x] | None => [] end.
Definition temp_names (l : list ploc) : list nat := flat_map (fun p => opt_list (pl_temp p)) l.
(* what Close removes: every f.tempFiles value (parts and the string index) *)
Definition registered (s : st) : list nat := temp_names (locs s) ++ opt_list (sst_idx s).

Definition spills (lim : Z) (p : part) : bool := ((p_class p =? 1) || (p_class p =? 2)) && (lim <? p_size p).

Fixpoint open_parts (lim : Z) (ps : list part) (nx : nat) : list ploc * list nat * nat :=
  match ps with
  | [] => ([], [], nx)
  | p :: rest =>
    if spills lim p
    then let '(l, f, n) := open_parts lim rest (S nx) in (mkPl p (Some nx) false :: l, nx :: f, n)
    else let '(l, f, n) := open_parts lim rest nx in (mkPl p None true :: l, f, n)
  end.

Definition total (ps : list part) : Z := fold_right (fun p a => p_size p + a) 0 ps.

(* OpenReader: the declared total is checked before anything is unzipped *)
Definition open_with (lim size_lim : Z) (ps : list part) : option st :=
  if size_lim <? total ps then None
  else let '(l, f, n) := open_parts lim ps 0 in Some (mkSt l f n None).

Definition mem_nat (n : nat) (l : list nat) : bool := existsb (Nat.eqb n) l.
Definition remove_all (dead : list nat) (l : list nat) : list nat := filter (fun n => negb (mem_nat n dead)) l.

(* readBytes on a worksheet part: promoted to memory, the temp file stays registered *)
Definition touch (k : Z) (s : st) : st :=
  mkSt (map (fun p => if (p_class (pl_part p) =? 1) && (p_key (pl_part p) =? k) then mkPl (pl_part p) (pl_temp p) true else p) (locs s))
       (fs s) (next s) (sst_idx s).

Definition sst_in_temp (s : st) : bool :=
  existsb (fun p => (p_class (pl_part p) =? 2) && (match pl_temp p with Some _ => true | None => false end)) (locs s).

(* getFromStringItem: the first string read while the table is in a temp file builds the index file *)
Definition read_str (s : st) : st :=
  if sst_in_temp s
  then match sst_idx s with
       | Some _ => s
       | None => mkSt (locs s) (next s :: fs s) (S (next s)) (Some (next s))
       end
  else s.

(* sharedStringsLoader: table to memory, its temp file and the index file removed and unregistered *)
Definition sst_names (l : list ploc) : list nat :=
  flat_map (fun p => if p_class (pl_part p) =? 2 then opt_list (pl_temp p) else []) l.
Definition loader (s : st) : st :=
  let dead := sst_names (locs s) ++ opt_list (sst_idx s) in
  mkSt (map (fun p => if p_class (pl_part p) =? 2 then mkPl (pl_part p) None (pl_mem p || (match pl_temp p with Some _ => true | None => false end)) else p) (locs s))
       (remove_all dead (fs s)) (next s) None.

Definition promote_all (s : st) : st :=
  mkSt (map (fun p => mkPl (pl_part p) (pl_temp p) true) (locs s)) (fs s) (next s) (sst_idx s).

Inductive fop :=
| FGet (k : Z) (str : bool)      (* decode sheet k; str: the read resolves a shared string *)
| FRows (k : Z) (str : bool)     (* streaming read of sheet k *)
| FSetStr (k : Z)
| FSetNum (k : Z)
| FSave.

Definition fstep (s : st) (o : fop) : st :=
  match o with
  | FGet k str => let s1 := touch k s in if str then read_str s1 else s1
  | FRows _ str => if str then read_str s else s
  | FSetStr k => loader (touch k s)
  | FSetNum k => touch k s
  | FSave => promote_all (loader s)
  end.
Definition frun (ops : list fop) (s : st) : st := fold_left fstep ops s.

Definition close (s : st) : st := mkSt (locs s) (remove_all (registered s) (fs s)) (next s) None.

(* a part can be read: from memory, or from a temp file that exists *)
Definition available (s : st) (p : ploc) : Prop :=
  pl_mem p = true \/ exists n, pl_temp p = Some n /\ In n (fs s).
