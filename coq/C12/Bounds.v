(* C12, quantitative side: the number of temporary files never grows with the length of the history (no leak by
   accumulation: at most one file per part plus the shared-string index), no name is on disk twice, and when no
   part exceeds the XML size limit no temporary file is ever created, whatever the history. *)
From VF Require Import Base.Prelude Generated.Consts C12.Model C12.Proofs.

(* ---- no duplicate names on disk ---- *)
Definition FInv2 (s : st) : Prop := FInv s /\ NoDup (fs s).

Lemma remove_all_nodup dead l : NoDup l -> NoDup (remove_all dead l).
Proof. intros H. unfold remove_all. now apply NoDup_filter. Qed.

Lemma fs_touch k s : fs (touch k s) = fs s.        Proof. reflexivity. Qed.
Lemma fs_promote s : fs (promote_all s) = fs s.    Proof. reflexivity. Qed.

Lemma read_str_nodup s : FInv s -> NoDup (fs s) -> NoDup (fs (read_str s)).
Proof.
  intros (H1 & H2 & H3) Hn. unfold read_str. destruct (sst_in_temp s); [|exact Hn].
  destruct (sst_idx s) eqn:E; [exact Hn|]. cbn [fs]. constructor; [|exact Hn].
  intros Hin. apply H1 in Hin. specialize (H3 _ Hin). lia.
Qed.

Lemma loader_nodup s : NoDup (fs s) -> NoDup (fs (loader s)).
Proof. intros H. unfold loader. cbn [fs]. now apply remove_all_nodup. Qed.

Lemma fstep_nodup s o : FInv s -> NoDup (fs s) -> NoDup (fs (fstep s o)).
Proof.
  intros HI Hn. destruct o as [k str|k str|k|k|]; cbn [fstep].
  - destruct str; [|now rewrite fs_touch]. apply read_str_nodup; [now apply touch_inv|now rewrite fs_touch].
  - destruct str; [now apply read_str_nodup|assumption].
  - apply loader_nodup. now rewrite fs_touch.
  - now rewrite fs_touch.
  - rewrite fs_promote. now apply loader_nodup.
Qed.

Lemma fstep_inv2 s o : FInv2 s -> FInv2 (fstep s o).
Proof. intros [HI Hn]. split; [now apply fstep_inv|now apply fstep_nodup]. Qed.

Lemma frun_inv2 ops : forall s, FInv2 s -> FInv2 (frun ops s).
Proof. induction ops as [|o ops IH]; intros s H; cbn [frun fold_left]; [assumption|]. apply IH. now apply fstep_inv2. Qed.

Lemma open_inv2 lim sl ps s : open_with lim sl ps = Some s -> FInv2 s.
Proof.
  intros Ho. split; [exact (proj1 (open_inv _ _ _ _ Ho))|].
  unfold open_with in Ho. destruct (sl <? total ps); [discriminate|].
  destruct (open_parts lim ps 0) as [[l f] n] eqn:E. inversion Ho; subst. cbn [fs].
  destruct (open_parts_spec _ _ _ _ _ _ E) as (_ & _ & _ & H4 & _). exact H4.
Qed.

(* ---- the bound ---- *)
Lemma temp_names_length l : (length (temp_names l) <= length l)%nat.
Proof.
  unfold temp_names. induction l as [|p l IH]; cbn [flat_map length]; [lia|].
  rewrite app_length. destruct (pl_temp p); cbn [opt_list length]; lia.
Qed.

Lemma registered_length s : (length (registered s) <= length (locs s) + 1)%nat.
Proof.
  unfold registered. rewrite app_length. pose proof (temp_names_length (locs s)).
  destruct (sst_idx s); cbn [opt_list length]; lia.
Qed.

Lemma fs_bound s : FInv2 s -> (length (fs s) <= length (locs s) + 1)%nat.
Proof.
  intros [(H1 & _ & _) Hn]. etransitivity; [|apply registered_length].
  apply NoDup_incl_length; [exact Hn|]. intros n Hin. now apply H1.
Qed.

(* every history: the files on disk are pairwise distinct and at most one per part plus the string index *)
Theorem temp_files_bounded lim sl ps ops s : open_with lim sl ps = Some s ->
  NoDup (fs (frun ops s)) /\ (length (fs (frun ops s)) <= length ps + 1)%nat.
Proof.
  intros Ho. pose proof (frun_inv2 ops s (open_inv2 _ _ _ _ Ho)) as HI.
  split; [exact (proj2 HI)|].
  destruct (limits_history lim sl ps ops s Ho) as (HP & _). cbv zeta in HP.
  pose proof (fs_bound _ HI) as HB. rewrite <- HP, map_length. exact HB.
Qed.

(* ---- nothing spills: no temp file, ever ---- *)
Definition NoTemp (s : st) : Prop := (forall p, In p (locs s) -> pl_temp p = None) /\ sst_idx s = None /\ fs s = [].

Lemma sst_in_temp_none l : (forall p, In p l -> pl_temp p = None) ->
  existsb (fun p => (p_class (pl_part p) =? 2) && (match pl_temp p with Some _ => true | None => false end)) l = false.
Proof.
  intros H. induction l as [|p l IH]; cbn [existsb]; [reflexivity|].
  rewrite (H p (or_introl eq_refl)), andb_false_r. cbn [orb]. apply IH. intros q Hq. apply H. now right.
Qed.

Lemma remove_all_nil dead : remove_all dead [] = [].   Proof. reflexivity. Qed.

Lemma notemp_touch k s : NoTemp s -> NoTemp (touch k s).
Proof.
  intros (H1 & H2 & H3). unfold NoTemp, touch. cbn [locs sst_idx fs]. refine (conj _ (conj H2 H3)).
  intros p Hp. apply in_map_iff in Hp. destruct Hp as (q & <- & Hq).
  destruct ((p_class (pl_part q) =? 1) && (p_key (pl_part q) =? k)); cbn [pl_temp]; now apply H1.
Qed.

Lemma notemp_read_str s : NoTemp s -> read_str s = s.
Proof. intros (H1 & _ & _). unfold read_str, sst_in_temp. now rewrite sst_in_temp_none. Qed.

Lemma notemp_loader s : NoTemp s -> NoTemp (loader s).
Proof.
  intros (H1 & H2 & H3). unfold NoTemp, loader. cbn [locs sst_idx fs]. rewrite H3, remove_all_nil.
  refine (conj _ (conj eq_refl eq_refl)).
  intros p Hp. apply in_map_iff in Hp. destruct Hp as (q & <- & Hq).
  destruct (p_class (pl_part q) =? 2); cbn [pl_temp]; [reflexivity|now apply H1].
Qed.

Lemma notemp_promote s : NoTemp s -> NoTemp (promote_all s).
Proof.
  intros (H1 & H2 & H3). unfold NoTemp, promote_all. cbn [locs sst_idx fs]. refine (conj _ (conj H2 H3)).
  intros p Hp. apply in_map_iff in Hp. destruct Hp as (q & <- & Hq). cbn [pl_temp]. now apply H1.
Qed.

Lemma notemp_step s o : NoTemp s -> NoTemp (fstep s o).
Proof.
  intros H. destruct o as [k str|k str|k|k|]; cbn [fstep].
  - destruct str; [rewrite notemp_read_str|]; now apply notemp_touch.
  - destruct str; [now rewrite notemp_read_str|assumption].
  - now apply notemp_loader, notemp_touch.
  - now apply notemp_touch.
  - now apply notemp_promote, notemp_loader.
Qed.

Lemma notemp_run ops : forall s, NoTemp s -> NoTemp (frun ops s).
Proof. induction ops as [|o ops IH]; intros s H; cbn [frun fold_left]; [assumption|]. apply IH. now apply notemp_step. Qed.

Lemma open_parts_nospill lim ps : (forall p, In p ps -> spills lim p = false) ->
  forall nx, open_parts lim ps nx = (map (fun p => mkPl p None true) ps, [], nx).
Proof.
  induction ps as [|p ps IH]; intros H nx; cbn [open_parts map]; [reflexivity|].
  rewrite (H p (or_introl eq_refl)), IH; [reflexivity|]. intros q Hq. apply H. now right.
Qed.

(* no part is larger than the XML limit (the default for ordinary workbooks): no temporary file exists after any
   history of reads, streaming reads, writes and saves, and every part is in memory *)
Theorem no_spill_no_temp lim sl ps ops s : (forall p, In p ps -> p_size p <= lim) -> open_with lim sl ps = Some s ->
  fs (frun ops s) = [] /\ forall p, In p (locs (frun ops s)) -> pl_temp p = None.
Proof.
  intros Hs Ho. assert (HN : NoTemp s).
  { unfold open_with in Ho. destruct (sl <? total ps); [discriminate|].
    rewrite open_parts_nospill in Ho.
    - inversion Ho; subst. unfold NoTemp. cbn [locs sst_idx fs]. refine (conj _ (conj eq_refl eq_refl)).
      intros p Hp. apply in_map_iff in Hp. now destruct Hp as (q & <- & _).
    - intros p Hp. unfold spills. specialize (Hs p Hp). destruct (Z.ltb_spec lim (p_size p)); [lia|]. apply andb_false_r. }
  destruct (notemp_run ops s HN) as (H1 & _ & H3). split; assumption.
Qed.

(* acceptance depends on the declared total and UnzipSizeLimit only - never on UnzipXMLSizeLimit - and is monotone
   in UnzipSizeLimit; the parts an accepted package presents are the same under any two XML limits *)
Theorem accept_independent_of_xml_limit lim lim' sl ps :
  (open_with lim sl ps = None <-> open_with lim' sl ps = None) /\
  (forall sl', sl <= sl' -> open_with lim sl ps <> None -> open_with lim' sl' ps <> None) /\
  (forall s s', open_with lim sl ps = Some s -> open_with lim' sl ps = Some s' ->
                map pl_part (locs s) = map pl_part (locs s')).
Proof.
  split; [|split].
  - destruct (Z.lt_ge_cases sl (total ps)) as [H|H].
    + rewrite !open_reject by assumption. tauto.
    + destruct (open_accept lim sl ps H) as [s Hs]. destruct (open_accept lim' sl ps H) as [s' Hs'].
      rewrite Hs, Hs'. split; discriminate.
  - intros sl' Hle Hacc. destruct (Z.lt_ge_cases sl (total ps)) as [H|H].
    + exfalso. apply Hacc. now apply open_reject.
    + destruct (open_accept lim' sl' ps ltac:(lia)) as [s' Hs']. rewrite Hs'. discriminate.
  - intros s s' Hs Hs'. destruct (open_inv _ _ _ _ Hs) as (_ & _ & H1). destruct (open_inv _ _ _ _ Hs') as (_ & _ & H2).
    now rewrite H1, H2.
Qed.
