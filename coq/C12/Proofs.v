From VF Require Import Base.Prelude Generated.Consts C12.Model.
From Coq Require Import ZifyBool ZifyNat.

Lemma nodup_snoc {A} (l : list A) x : NoDup l -> ~ In x l -> NoDup (l ++ [x]).
Proof.
  induction l as [|y l IH]; intros H Hx; cbn; [constructor; [intros []|constructor]|].
  inversion H; subst. constructor.
  - intros Hin. apply in_app_or in Hin. destruct Hin as [Hin|[<-|[]]]; [contradiction|apply Hx; now left].
  - apply IH; [assumption|]. intros Hin. apply Hx. now right.
Qed.
Lemma nodup_app_l {A} (l1 l2 : list A) : NoDup (l1 ++ l2) -> NoDup l1.
Proof.
  induction l1 as [|y l IH]; cbn; intros H; [constructor|]. inversion H; subst. constructor.
  - intros Hin. apply H2, in_or_app. now left.
  - now apply IH.
Qed.
Lemma nodup_app_disj {A} (l1 l2 : list A) x : NoDup (l1 ++ l2) -> In x l1 -> ~ In x l2.
Proof.
  induction l1 as [|y l IH]; cbn; intros H Hx; [destruct Hx|]. inversion H; subst.
  destruct Hx as [<-|Hx]; [intros Hin; apply H2, in_or_app; now right|now apply IH].
Qed.

Definition FInv (s : st) : Prop :=
  (forall n, In n (fs s) <-> In n (registered s)) /\
  NoDup (registered s) /\
  (forall n, In n (registered s) -> (n < next s)%nat).

Lemma mem_nat_In n l : mem_nat n l = true <-> In n l.
Proof.
  unfold mem_nat. rewrite existsb_exists. split.
  - intros (x & Hx & E). apply Nat.eqb_eq in E. now subst.
  - intros H. exists n. split; [assumption|apply Nat.eqb_refl].
Qed.
Lemma remove_all_In dead l n : In n (remove_all dead l) <-> In n l /\ ~ In n dead.
Proof.
  unfold remove_all. rewrite filter_In. split; intros [H1 H2]; split; try assumption.
  - intros Hd. apply mem_nat_In in Hd. now rewrite Hd in H2.
  - destruct (mem_nat n dead) eqn:E; [apply mem_nat_In in E; contradiction|reflexivity].
Qed.

(* ---- open ---- *)
Lemma open_parts_spec lim ps : forall nx l f n, open_parts lim ps nx = (l, f, n) ->
  f = temp_names l /\ (nx <= n)%nat /\ (forall x, In x f -> (nx <= x < n)%nat) /\ NoDup f /\ map pl_part l = ps /\
  (forall p, In p l -> pl_mem p = true \/ exists x, pl_temp p = Some x /\ In x f).
Proof.
  induction ps as [|p ps IH]; intros nx l f n H; cbn [open_parts] in H.
  - inversion H; subst. cbn.
    refine (conj eq_refl (conj (Nat.le_refl _) (conj _ (conj (NoDup_nil _) (conj eq_refl _))))); [intros x []|intros p []].
  - destruct (spills lim p).
    + destruct (open_parts lim ps (S nx)) as [[l' f'] n'] eqn:E. inversion H; subst.
      destruct (IH _ _ _ _ E) as (H1 & H2 & H3 & H4 & H5 & H6). subst f'.
      refine (conj _ (conj _ (conj _ (conj _ (conj _ _))))).
      * reflexivity.
      * lia.
      * intros x [<-|Hx]; [lia|specialize (H3 x Hx); lia].
      * constructor; [|assumption]. intros Hin. specialize (H3 nx Hin). lia.
      * cbn. now rewrite H5.
      * intros q [<-|Hq]; [right; exists nx; cbn; auto|]. destruct (H6 q Hq) as [|(x & Hx1 & Hx2)]; [now left|right; exists x; cbn; auto].
    + destruct (open_parts lim ps nx) as [[l' f'] n'] eqn:E. inversion H; subst.
      destruct (IH _ _ _ _ E) as (H1 & H2 & H3 & H4 & H5 & H6). subst f.
      refine (conj eq_refl (conj H2 (conj H3 (conj H4 (conj _ _))))).
      * cbn. now rewrite H5.
      * intros q [<-|Hq]; [now left|now apply H6].
Qed.

Lemma open_inv lim sl ps s : open_with lim sl ps = Some s ->
  FInv s /\ (forall p, In p (locs s) -> available s p) /\ map pl_part (locs s) = ps.
Proof.
  unfold open_with. destruct (sl <? total ps); [discriminate|].
  destruct (open_parts lim ps 0) as [[l f] n] eqn:E. intros H. inversion H; subst.
  destruct (open_parts_spec _ _ _ _ _ _ E) as (H1 & H2 & H3 & H4 & H5 & H6). subst f.
  split; [|split; [exact H6|exact H5]].
  unfold FInv, registered. cbn [fs locs sst_idx next opt_list]. rewrite app_nil_r.
  split; [tauto|]. split; [assumption|]. intros x Hx. specialize (H3 x Hx). lia.
Qed.

(* ---- steps ---- *)
Lemma temp_names_map_same f l : (forall p, pl_temp (f p) = pl_temp p) -> temp_names (map f l) = temp_names l.
Proof. intros H. unfold temp_names. induction l as [|p l IH]; cbn; [reflexivity|]. now rewrite H, IH. Qed.

Lemma touch_inv k s : FInv s -> FInv (touch k s).
Proof.
  intros H. unfold FInv, registered, touch in *. cbn [fs locs sst_idx next].
  rewrite temp_names_map_same; [exact H|]. intros p. destruct (_ && _); reflexivity.
Qed.
Lemma promote_inv s : FInv s -> FInv (promote_all s).
Proof. intros H. unfold FInv, registered, promote_all in *. cbn [fs locs sst_idx next]. rewrite temp_names_map_same; [exact H|reflexivity]. Qed.

Lemma read_str_inv s : FInv s -> FInv (read_str s).
Proof.
  intros HS. pose proof HS as (H1 & H2 & H3). unfold read_str. destruct (sst_in_temp s); [|exact HS].
  destruct (sst_idx s) eqn:E; [exact HS|].
  unfold FInv, registered in *. cbn [fs locs sst_idx next opt_list]. rewrite E in *. cbn [opt_list] in *. rewrite app_nil_r in *.
  refine (conj _ (conj _ _)).
  - intros n. rewrite in_app_iff. cbn. rewrite H1. tauto.
  - apply nodup_snoc; [assumption|]. intros Hin. specialize (H3 _ Hin). lia.
  - intros n Hn. apply in_app_or in Hn. destruct Hn as [Hn|[<-|[]]]; [specialize (H3 n Hn); lia|lia].
Qed.

(* names of the parts that stay registered after the loader *)
Lemma loader_names l :
  temp_names (map (fun p => if p_class (pl_part p) =? 2 then mkPl (pl_part p) None (pl_mem p || (match pl_temp p with Some _ => true | None => false end)) else p) l)
  = flat_map (fun p => if p_class (pl_part p) =? 2 then [] else opt_list (pl_temp p)) l.
Proof. unfold temp_names. induction l as [|p l IH]; cbn; [reflexivity|]. rewrite IH. destruct (p_class (pl_part p) =? 2); reflexivity. Qed.

Lemma names_split l n :
  In n (temp_names l) <-> In n (flat_map (fun p => if p_class (pl_part p) =? 2 then [] else opt_list (pl_temp p)) l) \/ In n (sst_names l).
Proof.
  unfold temp_names, sst_names. induction l as [|p l IH]; cbn; [tauto|].
  rewrite !in_app_iff, IH. destruct (p_class (pl_part p) =? 2); cbn; tauto.
Qed.

Lemma NoDup_names_split l : NoDup (temp_names l) ->
  NoDup (flat_map (fun p => if p_class (pl_part p) =? 2 then [] else opt_list (pl_temp p)) l) /\
  (forall n, In n (flat_map (fun p => if p_class (pl_part p) =? 2 then [] else opt_list (pl_temp p)) l) -> ~ In n (sst_names l)).
Proof.
  unfold temp_names, sst_names. induction l as [|p l IH]; cbn; intros H; [split; [constructor|intros n []]|].
  destruct (pl_temp p) as [x|]; cbn [opt_list app] in *.
  - inversion H as [|? ? Hx Hnd]; subst. destruct (IH Hnd) as [G1 G2].
    fold (temp_names l) in Hx. destruct (p_class (pl_part p) =? 2); cbn [app].
    + split; [assumption|]. intros n Hn [<-|Hs]; [apply Hx, names_split; now left|now apply (G2 n)].
    + split.
      * constructor; [|assumption]. intros Hin. apply Hx, names_split. now left.
      * intros n [<-|Hn] Hs; [apply Hx, names_split; now right|now apply (G2 n)].
  - destruct (p_class (pl_part p) =? 2); cbn [app]; now apply IH.
Qed.

Lemma loader_inv s : FInv s -> FInv (loader s).
Proof.
  intros (H1 & H2 & H3). unfold FInv, registered, loader in *. cbn [fs locs sst_idx next opt_list]. rewrite app_nil_r, loader_names.
  pose proof (nodup_app_l _ _ H2) as H2a. destruct (NoDup_names_split _ H2a) as [G1 G2].
  refine (conj _ (conj G1 _)).
  - intros n. rewrite remove_all_In, H1, !in_app_iff, names_split. split.
    + intros [[[Ha|Hb]|Hc] Hn]; [assumption|exfalso; apply Hn; now left|exfalso; apply Hn; now right].
    + intros Ha. split; [now left; left|]. intros [Hs|Hi]; [now apply (G2 n Ha)|].
      (* the index name is not a part name: NoDup of the whole registered list *)
      assert (Hn : In n (temp_names (locs s))) by (apply names_split; now left).
      exact (nodup_app_disj _ _ n H2 Hn Hi).
  - intros n Hn. apply H3, in_or_app. left. apply names_split. now left.
Qed.

Lemma fstep_inv s o : FInv s -> FInv (fstep s o).
Proof.
  intros H. destruct o as [k str|k str|k|k|]; cbn [fstep].
  - destruct str; [apply read_str_inv|]; now apply touch_inv.
  - destruct str; [now apply read_str_inv|assumption].
  - now apply loader_inv, touch_inv.
  - now apply touch_inv.
  - now apply promote_inv, loader_inv.
Qed.

Lemma frun_inv ops : forall s, FInv s -> FInv (frun ops s).
Proof. induction ops as [|o ops IH]; intros s H; cbn; [assumption|]. apply IH. now apply fstep_inv. Qed.

(* every temp file on disk is one Close will remove; after Close none is left *)
Theorem close_clean s : FInv s -> fs (close s) = [].
Proof.
  intros (H1 & _). unfold close. cbn [fs].
  destruct (remove_all (registered s) (fs s)) as [|x l] eqn:E; [reflexivity|].
  assert (Hx : In x (remove_all (registered s) (fs s))) by (rewrite E; now left).
  apply remove_all_In in Hx. destruct Hx as [Ha Hb]. exfalso. apply Hb, H1, Ha.
Qed.

(* ---- availability: no part is ever left pointing at a removed file ---- *)
Definition AllAvail (s : st) : Prop := forall p, In p (locs s) -> available s p.

Lemma avail_touch k s : AllAvail s -> AllAvail (touch k s).
Proof.
  intros H p Hp. unfold touch in Hp. cbn [locs] in Hp. apply in_map_iff in Hp. destruct Hp as (q & <- & Hq).
  destruct (_ && _); [left; reflexivity|]. destruct (H q Hq) as [Hm|(n & Hn1 & Hn2)]; [now left|right; exists n; auto].
Qed.
Lemma avail_promote s : AllAvail (promote_all s).
Proof. intros p Hp. unfold promote_all in Hp. cbn [locs] in Hp. apply in_map_iff in Hp. destruct Hp as (q & <- & _). now left. Qed.
Lemma avail_read_str s : AllAvail s -> AllAvail (read_str s).
Proof.
  intros H. unfold read_str. destruct (sst_in_temp s); [|assumption]. destruct (sst_idx s); [assumption|].
  intros p Hp. cbn [locs] in Hp. destruct (H p Hp) as [Hm|(n & Hn1 & Hn2)]; [now left|right; exists n; split; [assumption|now right]].
Qed.
Lemma avail_loader s : FInv s -> AllAvail s -> AllAvail (loader s).
Proof.
  intros (H1 & H2 & H3) H p Hp. unfold loader in Hp. cbn [locs] in Hp. apply in_map_iff in Hp. destruct Hp as (q & <- & Hq).
  destruct (p_class (pl_part q) =? 2) eqn:Ec.
  - left. cbn [pl_mem]. destruct (H q Hq) as [Hm|(n & Hn1 & _)]; [now rewrite Hm|rewrite Hn1; apply orb_true_r].
  - destruct (H q Hq) as [Hm|(n & Hn1 & Hn2)]; [now left|]. right. exists n. split; [assumption|].
    unfold loader. cbn [fs]. apply remove_all_In. split; [assumption|].
    (* n names a non-shared-string part: not among the removed names *)
    unfold registered in H2. pose proof (nodup_app_l _ _ H2) as H2a. destruct (NoDup_names_split _ H2a) as [_ G2].
    assert (Hn : In n (flat_map (fun p => if p_class (pl_part p) =? 2 then [] else opt_list (pl_temp p)) (locs s))).
    { apply in_flat_map. exists q. split; [assumption|]. rewrite Ec, Hn1. now left. }
    intros Hd. apply in_app_or in Hd. destruct Hd as [Hs|Hi]; [now apply (G2 n Hn)|].
    assert (Hn' : In n (temp_names (locs s))) by (apply names_split; now left).
    exact (nodup_app_disj _ _ n H2 Hn' Hi).
Qed.

Lemma avail_step s o : FInv s -> AllAvail s -> AllAvail (fstep s o).
Proof.
  intros HI H. destruct o as [k str|k str|k|k|]; cbn [fstep].
  - destruct str; [apply avail_read_str|]; now apply avail_touch.
  - destruct str; [now apply avail_read_str|assumption].
  - apply avail_loader; [now apply touch_inv|now apply avail_touch].
  - now apply avail_touch.
  - apply avail_promote.
Qed.

Lemma locs_parts_step s o : map pl_part (locs (fstep s o)) = map pl_part (locs s).
Proof.
  assert (T : forall k s, map pl_part (locs (touch k s)) = map pl_part (locs s)).
  { intros k s0. unfold touch. cbn [locs]. rewrite map_map. apply map_ext. intros p. destruct (_ && _); reflexivity. }
  assert (R : forall s, map pl_part (locs (read_str s)) = map pl_part (locs s)).
  { intros s0. unfold read_str. destruct (sst_in_temp s0); [|reflexivity]. destruct (sst_idx s0); reflexivity. }
  assert (L : forall s, map pl_part (locs (loader s)) = map pl_part (locs s)).
  { intros s0. unfold loader. cbn [locs]. rewrite map_map. apply map_ext. intros p. destruct (_ =? 2); reflexivity. }
  destruct o as [k str|k str|k|k|]; cbn [fstep].
  - destruct str; [rewrite R|]; apply T.
  - destruct str; [apply R|reflexivity].
  - now rewrite L, T.
  - apply T.
  - unfold promote_all. cbn [locs]. rewrite map_map. cbn. rewrite <- (L s). reflexivity.
Qed.

(* for every admissible limit setting and every history: the same parts are there, each readable, the temp
   files on disk are exactly the registered ones, and Close leaves none *)
Theorem limits_history lim sl ps ops s : open_with lim sl ps = Some s ->
  let s' := frun ops s in
  map pl_part (locs s') = ps /\ AllAvail s' /\ FInv s' /\ fs (close s') = [].
Proof.
  intros Ho. destruct (open_inv _ _ _ _ Ho) as (HI & HA & HP). cbv zeta.
  assert (G : forall ops s, FInv s -> AllAvail s -> map pl_part (locs s) = ps ->
              map pl_part (locs (frun ops s)) = ps /\ AllAvail (frun ops s) /\ FInv (frun ops s)).
  { clear. induction ops as [|o ops IH]; intros s HI HA HP; cbn [frun fold_left]; [auto|].
    apply IH; [now apply fstep_inv|now apply avail_step|now rewrite locs_parts_step]. }
  destruct (G ops s HI HA HP) as (G1 & G2 & G3). repeat split; try assumption; try apply G3. now apply close_clean.
Qed.

Theorem open_reject lim sl ps : sl < total ps -> open_with lim sl ps = None.
Proof. intros H. unfold open_with. destruct (Z.ltb_spec sl (total ps)); [reflexivity|lia]. Qed.
Theorem open_accept lim sl ps : total ps <= sl -> exists s, open_with lim sl ps = Some s.
Proof. intros H. unfold open_with. destruct (Z.ltb_spec sl (total ps)); [lia|]. destruct (open_parts lim ps 0) as [[l f] n]. eauto. Qed.
