(* C10: numeric rendering of numfmt.go on exact decimals: section choice (getValueSectionType + the walk in format),
   getNumberFmtConf, getNumberPartLen, the rounding and zero padding of numberHandler, printCommaSep,
   handleDigitsLiteral / printNumberLiteral.  A value is the decimal numeral the cell stores: sign, N, m with
   |value| = N / 10^m (m = number of fraction digits of the shortest representation).
   Not modelled: scientific, fraction, date/time, language/currency tokens, switch arguments. *)
From VF Require Import Base.Prelude Generated.Consts.

Inductive ntok := NZero (n : Z) | NHash (n : Z) | NPoint | NComma | NPct (n : Z) | NLit (s : bytes).

Record conf := mkConf { intHolder : Z; intPadding : Z; fracHolder : Z; fracPadding : Z; usePointer : bool; useComma : bool; percent : Z }.
Definition conf0 : conf := mkConf 0 0 0 0 false false 0.

Definition conf_step (c : conf) (t : ntok) : conf :=
  match t with
  | NHash n => if usePointer c then mkConf (intHolder c) (intPadding c) (fracHolder c + n) (fracPadding c) true (useComma c) (percent c)
               else mkConf (intHolder c + n) (intPadding c) (fracHolder c) (fracPadding c) false (useComma c) (percent c)
  | NComma => mkConf (intHolder c) (intPadding c) (fracHolder c) (fracPadding c) (usePointer c) true (percent c)
  | NPct n => mkConf (intHolder c) (intPadding c) (fracHolder c) (fracPadding c) (usePointer c) (useComma c) (percent c + n)
  | NPoint => mkConf (intHolder c) (intPadding c) (fracHolder c) (fracPadding c) true (useComma c) (percent c)
  | NZero n => if usePointer c then mkConf 0 (intPadding c) (fracHolder c) (fracPadding c + n) true (useComma c) (percent c)
               else mkConf 0 (intPadding c + n) (fracHolder c) (fracPadding c) false (useComma c) (percent c)
  | NLit _ => c
  end.
Definition get_conf (toks : list ntok) : conf := fold_left conf_step toks conf0.

Definition part_len (c : conf) (intPart fracPart : Z) : Z * Z :=
  let ih := if intHolder c >? intPart then intPart else intHolder c in
  let intLen := if intPadding c + ih >? intPart then intPadding c + ih else intPart in
  let fl := if fracPart >? fracHolder c + fracPadding c then fracHolder c + fracPadding c else fracPart in
  let fracLen := if fracPadding c >? fracPart then fracPadding c else fl in
  (intLen, fracLen).

(* the integer R whose digits are printed, with fracLen of them after the point *)
Definition round_to (N1 m fracLen : Z) : Z :=
  if m <=? fracLen then N1 * 10 ^ (fracLen - m)
  else (N1 + 5 * 10 ^ (m - fracLen - 1)) / 10 ^ (m - fracLen).

Definition pad0 (w : Z) (s : bytes) : bytes := repeat 48 (Z.to_nat (w - Z.of_nat (length s))) ++ s.

(* printCommaSep: separators in the part before the point; percent signs that follow the digits are not digits *)
Fixpoint comma_loop (s : bytes) : bytes :=
  match s with
  | [] => []
  | x :: rest => x :: (if (0 <? Z.of_nat (length rest)) && (Z.of_nat (length rest) mod 3 =? 0) then 44 :: comma_loop rest else comma_loop rest)
  end.

Definition zslice (text : bytes) (a l : Z) : bytes :=
  let lo := Z.max a 0 in
  let hi := Z.min (a + l) (Z.of_nat (length text)) in
  firstn (Z.to_nat (hi - lo)) (skipn (Z.to_nat lo) text).

(* handleDigitsLiteral *)
Definition handle_digits (text : bytes) (tokLen ipl hz : Z) : Z * bytes :=
  let n := Z.of_nat (length text) in
  let l := if (ipl =? 0) && (n >? hz) then n + tokLen - hz else tokLen in
  let off := if n <? hz then ipl + (n - hz) else ipl in
  (l, zslice text off l).

Definition hz_of (toks : list ntok) : Z :=
  fold_left (fun a t => match t with NZero n | NHash n => a + n | _ => a end) toks 0.

Fixpoint literal_loop (text : bytes) (hz : Z) (toks : list ntok) (ipl : Z) : bytes :=
  match toks with
  | [] => []
  | NLit s :: rest => s ++ literal_loop text hz rest ipl
  | NZero n :: rest | NHash n :: rest =>
    let '(l, str) := handle_digits text n ipl hz in str ++ literal_loop text hz rest (ipl + l)
  | _ :: rest => literal_loop text hz rest ipl
  end.
Definition print_number_literal (minus : bool) (toks : list ntok) (text : bytes) : bytes :=
  (if minus then [45] else []) ++ literal_loop text (hz_of toks) toks 0.

Definition ndigits (z : Z) : Z := Z.of_nat (length (itoa z)).

Definition number_text (toks : list ntok) (N m : Z) : bytes :=
  let c := get_conf toks in
  let '(intLen, fracLen) := part_len c (ndigits (N / 10 ^ m)) m in
  let R := round_to (N * 100 ^ percent c) m fracLen in
  let ip := pad0 intLen (itoa (R / 10 ^ fracLen)) in
  let ip := if useComma c then comma_loop ip else ip in
  ip ++ (if 0 <? fracLen then 46 :: pad0 fracLen (itoa (R mod 10 ^ fracLen)) else []) ++ repeat 37 (Z.to_nat (percent c)).

(* format(): which section renders a number (sign: -1, 0, 1), and whether a minus sign is put in front *)
Definition choose_section (nsec : Z) (sign : Z) : Z * bool :=
  if sign =? 0 then (if 3 <=? nsec then 2 else 0, false)
  else if 0 <? sign then (0, false)
  else if 2 <=? nsec then (1, false) else (0, true).

Definition render (secs : list (list ntok)) (sign N m : Z) : bytes :=
  let '(idx, minus) := choose_section (Z.of_nat (length secs)) sign in
  let toks := nth (Z.to_nat idx) secs [] in
  print_number_literal minus toks (number_text toks N m).
