From VF Require Import Base.Prelude Generated.Consts C10.Model.
From Coq Require Import ZifyBool ZifyNat.
Ltac Zify.zify_post_hook ::= Z.div_mod_to_equations.

(* ---------- rounding to the displayed places: within half a unit, on exact decimals ---------- *)
Theorem round_to_accuracy N1 m k : 0 <= N1 -> 0 <= k -> 0 <= m ->
  let R := round_to N1 m k in
  (m <= k -> R = N1 * 10 ^ (k - m)) /\
  (k < m -> Z.abs (2 * (R * 10 ^ (m - k) - N1)) <= 10 ^ (m - k)).
Proof.
  intros HN Hk Hm. cbv zeta. unfold round_to. split; intros H.
  - destruct (Z.leb_spec m k); [reflexivity|lia].
  - destruct (Z.leb_spec m k); [lia|].
    set (d := m - k). assert (Hd : 1 <= d) by (unfold d; lia).
    replace (m - k - 1) with (d - 1) by (unfold d; lia).
    assert (E : 10 ^ d = 10 * 10 ^ (d - 1)) by (replace d with (Z.succ (d - 1)) at 1 by lia; rewrite Z.pow_succ_r by lia; reflexivity).
    assert (Hp : 0 < 10 ^ (d - 1)) by (apply Z.pow_pos_nonneg; lia).
    rewrite E. set (h := 10 ^ (d - 1)) in *.
    pose proof (Z.div_mod (N1 + 5 * h) (10 * h) ltac:(lia)) as Hdm.
    pose proof (Z.mod_pos_bound (N1 + 5 * h) (10 * h) ltac:(lia)) as Hb.
    set (q := (N1 + 5 * h) / (10 * h)) in *. set (r := (N1 + 5 * h) mod (10 * h)) in *.
    nia.
Qed.

(* ---------- thousands separators ---------- *)
Lemma comma_loop_strip s : (forall x, In x s -> x <> 44) -> filter (fun x => negb (x =? 44)) (comma_loop s) = s.
Proof.
  induction s as [|x s IH]; intros H; cbn [comma_loop]; [reflexivity|].
  assert (Hx : x <> 44) by (apply H; now left). cbn [filter]. destruct (Z.eqb_spec x 44); [contradiction|]. cbn [negb].
  f_equal. destruct (_ && _); cbn [filter Z.eqb negb]; apply IH; intros y Hy; apply H; now right.
Qed.

(* ---------- placeholder layout: the slices taken by the placeholders are the whole text, in order ---------- *)
Lemma firstn_add {A} (L : list A) : forall p q, firstn (p + q) L = firstn p L ++ firstn q (skipn p L).
Proof. induction L as [|x L IH]; intros [|p] q; cbn; try reflexivity; [now rewrite firstn_nil|]. now rewrite IH. Qed.

Lemma skipn_add {A} (L : list A) : forall p q, skipn (p + q) L = skipn q (skipn p L).
Proof. induction L as [|x L IH]; intros [|p] q; cbn; try reflexivity; [now rewrite skipn_nil|]. apply IH. Qed.

Lemma zslice_app text a l1 l2 : 0 <= l1 -> 0 <= l2 -> zslice text a l1 ++ zslice text (a + l1) l2 = zslice text a (l1 + l2).
Proof.
  intros H1 H2. unfold zslice. set (n := Z.of_nat (length text)). assert (Hn0 : 0 <= n) by (unfold n; lia).
  (* three cut points clipped into [0,n] *)
  set (c0 := Z.max 0 (Z.min a n)). set (c1 := Z.max 0 (Z.min (a + l1) n)). set (c2 := Z.max 0 (Z.min (a + l1 + l2) n)).
  assert (H01 : c0 <= c1) by lia. assert (H12 : c1 <= c2) by lia. assert (H0 : 0 <= c0) by lia. assert (Hn : c2 <= n) by lia.
  assert (G : forall lo hi, firstn (Z.to_nat (Z.min hi n - Z.max lo 0)) (skipn (Z.to_nat (Z.max lo 0)) text) =
                            firstn (Z.to_nat (Z.max 0 (Z.min hi n) - Z.max 0 (Z.min lo n))) (skipn (Z.to_nat (Z.max 0 (Z.min lo n))) text)).
  { intros lo hi. destruct (Z.le_gt_cases n (Z.max lo 0)) as [Hge|Hlt].
    - (* starts beyond the end: both empty *)
      rewrite (skipn_all2 text) by (unfold n in *; lia). rewrite firstn_nil.
      replace (Z.to_nat (Z.max 0 (Z.min hi n) - Z.max 0 (Z.min lo n))) with 0%nat by lia. reflexivity.
    - replace (Z.max 0 (Z.min lo n)) with (Z.max lo 0) by lia.
      destruct (Z.le_gt_cases (Z.min hi n) (Z.max lo 0)).
      + replace (Z.to_nat (Z.min hi n - Z.max lo 0)) with 0%nat by lia.
        replace (Z.to_nat (Z.max 0 (Z.min hi n) - Z.max lo 0)) with 0%nat by lia. reflexivity.
      + replace (Z.max 0 (Z.min hi n)) with (Z.min hi n) by lia. reflexivity. }
  rewrite (G a (a + l1)), (G (a + l1) (a + l1 + l2)), (G a (a + (l1 + l2))).
  replace (a + (l1 + l2)) with (a + l1 + l2) by lia. fold c0 c1 c2.
  replace (Z.to_nat (c2 - c0)) with (Z.to_nat (c1 - c0) + Z.to_nat (c2 - c1))%nat by lia.
  rewrite firstn_add. f_equal. f_equal. rewrite <- skipn_add. f_equal. lia.
Qed.

Lemma zslice_all text : zslice text 0 (Z.of_nat (length text)) = text.
Proof. unfold zslice. rewrite Z.max_id, Z.min_id. cbn [Z.to_nat skipn]. rewrite Z.sub_0_r, Nat2Z.id. apply firstn_all. Qed.

Lemma zslice_out_left text a l : a + l <= 0 -> zslice text a l = [].
Proof. intros H. unfold zslice. replace (Z.to_nat (Z.min (a + l) (Z.of_nat (length text)) - Z.max a 0)) with 0%nat by lia. reflexivity. Qed.

(* placeholder-only token lists *)
Fixpoint holders (ts : list Z) : list ntok := match ts with [] => [] | t :: r => NZero t :: holders r end.
Definition sumz (ts : list Z) : Z := fold_right Z.add 0 ts.

Lemma hz_of_holders ts : forall a, fold_left (fun a t => match t with NZero n | NHash n => a + n | _ => a end) (holders ts) a = a + sumz ts.
Proof. induction ts as [|t ts IH]; intros a; cbn [holders fold_left]; [cbn; lia|]. rewrite IH. cbn [sumz fold_right]. fold (sumz ts). lia. Qed.

(* tokens after the first one, text not shorter than the placeholders: each takes its own length from the running offset *)
Lemma loop_tail_long text hz ts : forall ipl, Z.of_nat (length text) >= hz -> 0 < ipl -> Forall (fun t => 0 < t) ts ->
  literal_loop text hz (holders ts) ipl = zslice text ipl (sumz ts).
Proof.
  induction ts as [|t ts IH]; intros ipl Hn Hi Hpos; cbn [holders literal_loop sumz fold_right].
  - unfold zslice. replace (Z.to_nat (Z.min (ipl + 0) (Z.of_nat (length text)) - Z.max ipl 0)) with 0%nat by lia. reflexivity.
  - inversion Hpos; subst. unfold handle_digits.
    destruct (Z.eqb_spec ipl 0); [lia|]. cbn [andb].
    destruct (Z.ltb_spec (Z.of_nat (length text)) hz); [lia|].
    rewrite IH by (try assumption; lia). apply zslice_app; [lia|]. clear - H2. induction ts; cbn; inversion H2; subst; [lia|]. specialize (IHts H3). lia.
Qed.

Lemma sumz_nonneg ts : Forall (fun t => 0 < t) ts -> 0 <= sumz ts.
Proof. induction ts as [|t ts IH]; intros H; [cbn; lia|]. inversion H; subst. specialize (IH H3). unfold sumz in *. cbn [fold_right]. lia. Qed.

(* text shorter than the placeholders: every slice is shifted left by the deficit *)
Lemma loop_short text hz ts : forall ipl, Z.of_nat (length text) < hz -> Forall (fun t => 0 < t) ts ->
  literal_loop text hz (holders ts) ipl = zslice text (ipl + (Z.of_nat (length text) - hz)) (sumz ts).
Proof.
  induction ts as [|t ts IH]; intros ipl Hn Hpos; cbn [holders literal_loop sumz fold_right].
  - unfold zslice. match goal with |- [] = firstn ?k _ => replace k with 0%nat by lia end. reflexivity.
  - inversion Hpos; subst. unfold handle_digits.
    destruct (Z.gtb_spec (Z.of_nat (length text)) hz); [lia|]. rewrite andb_false_r.
    destruct (Z.ltb_spec (Z.of_nat (length text)) hz); [|lia].
    rewrite IH by assumption. replace (ipl + t + (Z.of_nat (length text) - hz)) with (ipl + (Z.of_nat (length text) - hz) + t) by lia.
    apply zslice_app; [lia|now apply sumz_nonneg].
Qed.

Theorem layout_whole text ts : ts <> [] -> Forall (fun t => 0 < t) ts ->
  literal_loop text (sumz ts) (holders ts) 0 = text.
Proof.
  intros Hne Hpos. set (hz := sumz ts). set (n := Z.of_nat (length text)).
  destruct (Z.lt_ge_cases n hz) as [Hlt|Hge].
  - rewrite loop_short by assumption. fold n hz.
    (* [n-hz, n) clipped to [0, n) *)
    rewrite <- (zslice_all text) at 2. fold n. unfold zslice. fold n.
    replace (Z.max (0 + (n - hz)) 0) with 0 by lia. replace (Z.min (0 + (n - hz) + hz) n) with n by lia.
    now rewrite Z.max_id, Z.min_id.
  - destruct ts as [|t ts]; [contradiction|]. inversion Hpos; subst. cbn [holders literal_loop]. unfold handle_digits. fold n.
    cbn [Z.eqb andb]. destruct (Z.ltb_spec n hz); [lia|].
    assert (Hs : 0 <= sumz ts) by now apply sumz_nonneg.
    assert (Ehz : hz = t + sumz ts) by reflexivity.
    destruct (Z.gtb_spec n hz) as [Hgt|Hle].
    + rewrite loop_tail_long by (try assumption; fold n; lia).
      rewrite zslice_app by lia. replace (n + t - hz + sumz ts) with n by lia. apply zslice_all.
    + assert (n = hz) by lia. destruct (Z.eq_dec (sumz ts) 0) as [E0|N0].
      * assert (ts = []) by (destruct ts as [|t' ts']; [reflexivity|inversion H2; subst; match goal with Hf : Forall _ ts' |- _ => pose proof (sumz_nonneg _ Hf) end; unfold sumz in *; cbn [fold_right] in E0; lia]).
        subst ts. cbn [holders literal_loop]. rewrite app_nil_r. assert (Et : t = n) by (unfold sumz in *; cbn [fold_right] in *; lia). rewrite Et. apply zslice_all.
      * rewrite loop_tail_long by (try assumption; fold n; lia).
        rewrite zslice_app by lia. replace (t + sumz ts) with n by lia. apply zslice_all.
Qed.

(* literals before and after the placeholders are kept around the whole text *)
Lemma literal_loop_lits text hz pre : forall toks ipl,
  literal_loop text hz (map NLit pre ++ toks) ipl = concat pre ++ literal_loop text hz toks ipl.
Proof. induction pre as [|s pre IH]; intros toks ipl; cbn; [reflexivity|]. now rewrite IH, app_assoc. Qed.

(* ---------- section choice ---------- *)
Theorem choose_section_spec nsec sign : 1 <= nsec ->
  let '(idx, minus) := choose_section nsec sign in
  0 <= idx < nsec /\
  (sign > 0 -> idx = 0 /\ minus = false) /\
  (sign < 0 -> (nsec >= 2 -> idx = 1 /\ minus = false) /\ (nsec = 1 -> idx = 0 /\ minus = true)) /\
  (sign = 0 -> (nsec >= 3 -> idx = 2) /\ (nsec < 3 -> idx = 0) /\ minus = false).
Proof.
  intros H. unfold choose_section.
  destruct (Z.eqb_spec sign 0); [destruct (Z.leb_spec 3 nsec); repeat split; lia|].
  destruct (Z.ltb_spec 0 sign); [repeat split; lia|].
  destruct (Z.leb_spec 2 nsec); repeat split; try lia; intros; try lia; auto.
Qed.
