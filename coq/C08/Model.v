(* C08 concrete instance: values and operator semantics of calc.go (calculate and the calcXxx functions), binary64 by Coq
   primitive floats; and the Excel operator rules for comparison on the domain where they are defined here. *)
From VF Require Import Base.Prelude Generated.Consts C08.Machine C19.Model.
From Coq Require Import Floats.

Inductive val :=
| VNum (x : float) (is_bool : bool)     (* ArgNumber, Boolean flag *)
| VStr (s : bytes)                       (* ArgString *)
| VUnsup.                                (* outside the modelled fragment (float formatting/parsing oracle needed) *)

(* error classes *)
Definition E_VALUE : Z := 21.  (* #VALUE! (Go conversion message) *)
Definition E_DIV : Z := 22.    (* #DIV/0! *)
Definition E_UNSUP : Z := 29.

(* fmt %g for integer-valued floats below 2^53 (all the harness lets reach a string conversion) *)
Definition is_int_float (x : float) : bool :=
  let z := f_trunc x in (PrimFloat.eqb (f_of_Z z) x) && (Z.abs z <? 9007199254740992).
(* fmt %g of an integer-valued float: plain digits below 10^6 in magnitude, otherwise d.ddde+XX with the trailing
   zeros of the mantissa dropped (Go switches to the exponent form at exponent 6 for shortest formatting) *)
Fixpoint drop_zeros (l : bytes) : bytes := match l with 48 :: r => drop_zeros r | _ => l end.
Definition g_int (z : Z) : bytes :=
  let a := Z.abs z in
  if a <? 1000000 then itoa z
  else
    let ds := itoa a in
    let e := Z.of_nat (length ds) - 1 in
    let m := rev (drop_zeros (rev ds)) in
    let mant := match m with [] => [48] | [d] => [d] | d :: rest => d :: 46 :: rest end in
    (if z <? 0 then [45] else []) ++ mant ++ [101; 43] ++ (if e <? 10 then 48 :: itoa e else itoa e).

Definition value_str (v : val) : option bytes :=
  match v with
  | VNum x true => Some (if PrimFloat.eqb x 0 then [70;65;76;83;69] else [84;82;85;69])
  | VNum x false =>
    if is_int_float x
    then Some (match PrimFloat.classify x with FloatClass.NZero => [45; 48] | _ => g_int (f_trunc x) end)   (* Go prints -0 *)
    else None
  | VStr s => Some s
  | VUnsup => None
  end.

(* strconv.ParseFloat for the texts the harness uses: optional sign, decimal digits *)
Definition parse_num (s : bytes) : option float :=
  match atoi s with
  | Some z => if Z.abs z <? 9007199254740992 then Some (f_of_Z z) else None
  | None => None
  end.
Definition to_number (v : val) : res float :=
  match v with
  | VNum x _ => Ok x
  | VStr s => match parse_num s with Some x => Ok x | None => Err E_VALUE end
  | VUnsup => Err E_UNSUP
  end.

Definition is_empty_str (v : val) : bool := match v with VStr [] => true | _ => false end.
Definition zero_if_empty (v : val) : val := if is_empty_str v then VNum 0 false else v.

Definition vbool (b : bool) : val := VNum (if b then 1 else 0)%float true.

Fixpoint bytes_cmp (a b : bytes) : comparison :=
  match a, b with
  | [], [] => Eq
  | [], _ => Lt
  | _, [] => Gt
  | x :: a', y :: b' => match Z.compare x y with Eq => bytes_cmp a' b' | c => c end
  end.

Fixpoint pow_nat (x : float) (n : nat) : float := match n with O => 1%float | S k => (x * pow_nat x k)%float end.

Definition arith (f : float -> float -> res val) (l r : val) : res val :=
  bind (to_number l) (fun a => bind (to_number r) (fun b => f a b)).

Definition order (l r : val) (num_case : float -> float -> bool) (str_case : comparison -> bool) (num_str str_num : bool) : res val :=
  match l, r with
  | VNum a _, VNum b _ => Ok (vbool (num_case a b))
  | VStr a, VStr b => Ok (vbool (str_case (bytes_cmp a b)))
  | VStr _, VNum _ _ => Ok (vbool num_str)      (* left text, right number *)
  | VNum _ _, VStr _ => Ok (vbool str_num)      (* left number, right text *)
  | _, _ => Err E_UNSUP
  end.

(* calc.go:calculate and calcXxx for one infix operator *)
Definition apply_impl (o : binop) (l0 r0 : val) : res val :=
  match l0, r0 with
  | VUnsup, _ | _, VUnsup => Err E_UNSUP
  | _, _ =>
    let '(l, r) := match o with OCat => (l0, r0) | _ => (zero_if_empty l0, zero_if_empty r0) end in
    match o with
    | OAdd => arith (fun a b => Ok (VNum (a + b) false)) l r
    | OSub => arith (fun a b => Ok (VNum (a - b) false)) l r
    | OMul => arith (fun a b => Ok (VNum (a * b) false)) l r
    | ODiv => arith (fun a b => if PrimFloat.eqb b 0 then Err E_DIV else Ok (VNum (a / b) false)) l r
    | OPow => arith (fun a b => let n := f_trunc b in
                               if PrimFloat.eqb (f_of_Z n) b && (0 <=? n) && (n <? 64)
                               then Ok (VNum (pow_nat a (Z.to_nat n)) false) else Err E_UNSUP) l r
    | OCat => match value_str l, value_str r with Some a, Some b => Ok (VStr (a ++ b)) | _, _ => Err E_UNSUP end
    | OEq => match value_str l, value_str r with Some a, Some b => Ok (vbool (bytes_eqb a b)) | _, _ => Err E_UNSUP end
    | ONe => match value_str l, value_str r with Some a, Some b => Ok (vbool (negb (bytes_eqb a b))) | _, _ => Err E_UNSUP end
    | OLt => order l r PrimFloat.ltb (fun c => match c with Lt => true | _ => false end) false true
    | OLe => order l r PrimFloat.leb (fun c => match c with Gt => false | _ => true end) false true
    | OGt => order l r (fun a b => PrimFloat.ltb b a) (fun c => match c with Gt => true | _ => false end) true false
    | OGe => order l r (fun a b => PrimFloat.leb b a) (fun c => match c with Lt => false | _ => true end) true false
    end
  end.

(* prefix minus: 0 - ToNumber().Number (non-numeric text counts as 0); percent: Number / 100 *)
Definition neg_impl (v : val) : val :=
  match v with
  | VNum x _ => VNum (0 - x) false
  | VStr s => match parse_num s with Some x => VNum (0 - x) false | None => VNum (0 - 0) false end
  | VUnsup => VUnsup
  end.
Definition pct_impl (v : val) : val :=
  match v with VNum x _ => VNum (x / 100) false | VStr _ => VNum (0 / 100) false | VUnsup => VUnsup end.

Definition eval_impl (ts : list (tok val)) : res val := eval_tokens val apply_impl neg_impl pct_impl ts.

(* ---------- Excel's rules, on typed operands ---------- *)
(* arithmetic: numbers as they are, booleans 0/1, blank text 0, numeric text its number, other text #VALUE! *)
Definition excel_num (v : val) : res float :=
  match v with
  | VNum x _ => Ok x
  | VStr [] => Ok 0%float
  | VStr s => match parse_num s with Some x => Ok x | None => Err E_VALUE end
  | VUnsup => Err E_UNSUP
  end.
Definition apply_excel_arith (o : binop) (l r : val) : res val :=
  bind (excel_num l) (fun a => bind (excel_num r) (fun b =>
    match o with
    | OAdd => Ok (VNum (a + b) false) | OSub => Ok (VNum (a - b) false) | OMul => Ok (VNum (a * b) false)
    | ODiv => if PrimFloat.eqb b 0 then Err E_DIV else Ok (VNum (a / b) false)
    | _ => Err E_UNSUP
    end)).

(* aggregates over the typed cells of a range: text, booleans and blanks are ignored *)
Inductive cellv := CNum (x : float) | CText (s : bytes) | CBool (b : bool) | CBlank.
Definition nums_of (cs : list cellv) : list float := flat_map (fun c => match c with CNum x => [x] | _ => [] end) cs.
Definition agg_sum (cs : list cellv) : float := fold_left (fun a x => (a + x)%float) (nums_of cs) 0%float.
Definition agg_count (cs : list cellv) : Z := Z.of_nat (length (nums_of cs)).
Definition agg_counta (cs : list cellv) : Z := Z.of_nat (length (filter (fun c => match c with CBlank => false | _ => true end) cs)).
Definition agg_product (cs : list cellv) : float := fold_left (fun a x => (a * x)%float) (nums_of cs) 1%float.
Definition agg_min (cs : list cellv) : float :=
  match nums_of cs with [] => 0%float | x :: r => fold_left (fun a y => if PrimFloat.ltb y a then y else a) r x end.
Definition agg_max (cs : list cellv) : float :=
  match nums_of cs with [] => 0%float | x :: r => fold_left (fun a y => if PrimFloat.ltb a y then y else a) r x end.
