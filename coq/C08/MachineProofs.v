From VF Require Import Base.Prelude Generated.Consts C08.Machine.
From Coq Require Import ZifyBool.

(* facts about the regenerated priority table *)
Lemma prio_range o : 1 <= prio o <= 5.
Proof. destruct o; vm_compute; split; discriminate. Qed.
Lemma pre_prio_val : pre_prio = 6.
Proof. reflexivity. Qed.

Lemma bind_assoc {A B C} (r : res A) (f : A -> res B) (g : B -> res C) :
  bind (bind r f) g = bind r (fun x => bind (f x) g).
Proof. destruct r; reflexivity. Qed.
Lemma bind_ext {A B} (r : res A) (f g : A -> res B) : (forall x, f x = g x) -> bind r f = bind r g.
Proof. intros H. destruct r; cbn; auto. Qed.
Lemma bind_ok {A} (r : res A) : bind r (fun x => Ok x) = r.
Proof. destruct r; reflexivity. Qed.

Section Proofs.
Variable V : Type.
Variable apply : binop -> V -> V -> res V.
Variable neg pct : V -> V.

Notation tok := (tok V).
Notation st := (st V).
Notation mkSt := (mkSt V).
Notation calculate := (calculate V apply neg).
Notation step := (step V apply neg pct).
Notation run := (run V apply neg pct).
Notation eval := (eval V apply neg pct).
Notation lin := (lin V).
Notation lin_at := (lin_at V).
Notation level := (level V).

(* structural flush: pop and calculate while the top priority is >= p *)
Fixpoint flushL (p : Z) (ds : list V) (os : list oitem) : res st :=
  match os with
  | [] => Ok (mkSt ds [])
  | top :: rest => if p <=? item_prio top then bind (calculate top ds) (fun ds' => flushL p ds' rest) else Ok (mkSt ds os)
  end.

Lemma flush_flushL p : forall os ds k, (length os <= k)%nat -> flush V apply neg k p (mkSt ds os) = flushL p ds os.
Proof.
  induction os as [|top rest IH]; intros ds k Hk.
  - destruct k; reflexivity.
  - destruct k; [cbn in Hk; lia|]. cbn [flush flushL opt opd]. destruct (p <=? item_prio top); [|reflexivity].
    apply bind_ext. intros ds'. apply IH. cbn in Hk. lia.
Qed.

(* an infix operator token: flush to its priority, then push it *)
Lemma step_op o ds os :
  step (mkSt ds os) (TOp V o) = bind (flushL (prio o) ds os) (fun s' => Ok (mkSt (opd V s') (IOp o :: opt V s'))).
Proof.
  cbn [Machine.step]. unfold push_operator. cbn [opt opd]. destruct os as [|top rest]; [reflexivity|].
  assert (E : (match top with IPre => match IOp o with IPre => true | _ => false end | _ => false end) = false) by (destruct top; reflexivity).
  destruct top as [o'| |]; cbn [item_prio].
  - destruct (Z.gtb_spec (prio o) (prio o')) as [Hgt|Hle].
    + cbn [flushL item_prio]. destruct (Z.leb_spec (prio o) (prio o')); [lia|reflexivity].
    + rewrite flush_flushL by lia. reflexivity.
  - pose proof (prio_range o). rewrite pre_prio_val. destruct (Z.gtb_spec (prio o) 6); [lia|].
    rewrite flush_flushL by lia. reflexivity.
  - pose proof (prio_range o). destruct (Z.gtb_spec (prio o) 0); [|lia].
    cbn [flushL item_prio]. destruct (Z.leb_spec (prio o) 0); [lia|reflexivity].
Qed.

(* nothing above the nearest "(" binds as tightly as p *)
Definition top_lt (p : Z) (os : list oitem) : Prop :=
  match os with [] => True | top :: _ => item_prio top < p end.

Lemma flushL_idle p ds os : top_lt p os -> flushL p ds os = Ok (mkSt ds os).
Proof. destruct os as [|top rest]; cbn; [reflexivity|]. intros H. destruct (Z.leb_spec p (item_prio top)); [lia|reflexivity]. Qed.

Lemma top_lt_mono p p' os : p <= p' -> top_lt p os -> top_lt p' os.
Proof. destruct os; cbn; auto. lia. Qed.

Lemma run_app a : forall b s, run (a ++ b) s = bind (run a s) (run b).
Proof.
  induction a as [|t a IH]; intros b s; cbn [app Machine.run]; [reflexivity|].
  rewrite bind_assoc. apply bind_ext. intros x. apply IH.
Qed.

(* closing parenthesis on a state whose pending operators (down to the parenthesis) have been produced by e *)
Lemma close_paren_flush : forall os ds k rest, (length os < k)%nat -> Forall (fun i => 1 <= item_prio i) os ->
  close_paren V apply neg k (mkSt ds (os ++ IParen :: rest)) =
  bind (flushL 1 ds (os ++ IParen :: rest)) (fun s' => match opt V s' with IParen :: r => Ok (mkSt (opd V s') r) | _ => Err E_INVALID end).
Proof.
  induction os as [|top os IH]; intros ds k rest Hk Hall.
  - destruct k; [cbn in Hk; lia|]. cbn. reflexivity.
  - destruct k; [cbn in Hk; lia|]. inversion Hall as [|? ? Htop Hrest]; subst.
    cbn [app close_paren opt opd flushL]. destruct (Z.leb_spec 1 (item_prio top)); [|lia].
    destruct top; try (cbn in Htop; lia); rewrite bind_assoc; apply bind_ext; intros ds'; apply IH; cbn in Hk; try lia; assumption.
Qed.

(* ---------- the main invariant ---------- *)
(* processing the tokens of e leaves pending operators of priority >= level e on top of the old stack; flushing
   to any q <= level e gives what flushing after pushing the value of e gives *)
Definition spec (ts : list tok) (e : expr V) (p : Z) : Prop :=
  forall ds os, top_lt p os ->
  (* strong form for atoms and parenthesised terms *)
  (7 <= p -> run ts (mkSt ds os) = bind (eval e) (fun v => Ok (mkSt (v :: ds) os))) /\
  (forall q, 1 <= q <= p ->
     bind (run ts (mkSt ds os)) (fun s' => flushL q (opd V s') (opt V s')) =
     bind (eval e) (fun v => flushL q (v :: ds) os)) /\
  (* shape: the old stack is still there, below operators of e that all have priority >= 1 *)
  (forall s', run ts (mkSt ds os) = Ok s' -> exists pend, opt V s' = pend ++ os /\ Forall (fun i => 1 <= item_prio i) pend).

Lemma level_bounds (e : expr V) : 1 <= level e <= 8.
Proof. destruct e as [v|a|a|o a b]; cbn [Machine.level]; [lia|rewrite pre_prio_val; lia|lia|pose proof (prio_range o); lia]. Qed.

Lemma spec_paren e : spec (lin e) e (level e) -> forall p, level e < p -> p <= 8 -> spec (TL V :: lin e ++ [TR V]) e p.
Proof.
  intros HA p Hlt Hp8 ds os Htop.
  assert (Hrun : run (TL V :: lin e ++ [TR V]) (mkSt ds os) = bind (eval e) (fun v => Ok (mkSt (v :: ds) os))).
  { cbn [Machine.run Machine.step bind opd opt]. rewrite run_app.
    destruct (HA ds (IParen :: os)) as (_ & Hq & Hshape); [cbn [top_lt item_prio]; pose proof (level_bounds e); lia|].
    specialize (Hq 1).
    assert (Hl : 1 <= 1 <= level e) by (pose proof (level_bounds e); lia).
    specialize (Hq Hl).
    (* the closing parenthesis = flush to 1 then pop the parenthesis *)
    transitivity (bind (bind (run (lin e) (mkSt ds (IParen :: os))) (fun s' => flushL 1 (opd V s') (opt V s')))
                       (fun s' => match opt V s' with IParen :: r => Ok (mkSt (opd V s') r) | _ => Err E_INVALID end)).
    - rewrite bind_assoc. destruct (run (lin e) (mkSt ds (IParen :: os))) as [s'| |] eqn:Er; cbn [bind]; try reflexivity.
      destruct (Hshape s' eq_refl) as (pend & Hopt & Hpend).
      cbn [Machine.run Machine.step bind]. destruct s' as [ds' os']. cbn [opt opd] in *. subst os'.
      rewrite (close_paren_flush pend ds' _ os) by (try assumption; rewrite app_length; cbn; lia).
      now rewrite bind_ok.
    - rewrite Hq, bind_assoc. apply bind_ext. intros v. cbn [flushL item_prio]. reflexivity. }
  split; [intros _; exact Hrun|]. split.
  - intros q Hq. rewrite Hrun, bind_assoc. apply bind_ext. intros v. reflexivity.
  - intros s' Hs'. rewrite Hrun in Hs'. destruct (eval e); cbn in Hs'; try discriminate. inversion Hs'; subst. exists []. split; [reflexivity|constructor].
Qed.

Lemma spec_lin_at e : spec (lin e) e (level e) -> forall p, p <= 8 -> spec (lin_at p e) e p.
Proof.
  intros HA p Hp8. unfold Machine.lin_at. destruct (Z.ltb_spec (level e) p) as [Hlt|Hge].
  - now apply spec_paren.
  - intros ds os Htop. destruct (HA ds os (top_lt_mono _ _ _ Hge Htop)) as (H1 & H2 & H3). split; [|split].
    + intros H7. apply H1. lia.
    + intros q Hq. apply H2. lia.
    + exact H3.
Qed.

Theorem machine_spec : forall e, spec (lin e) e (level e).
Proof.
  induction e as [v|a IHa|a IHa|o a IHa b IHb].
  - (* literal *)
    intros ds os Htop. cbn [Machine.lin Machine.run Machine.step bind Machine.eval opd opt]. split; [reflexivity|]. split; [reflexivity|].
    intros s' H. inversion H; subst. exists []. split; [reflexivity|constructor].
  - (* prefix minus *)
    intros ds os Htop. cbn [Machine.level] in Htop. rewrite pre_prio_val in Htop.
    pose proof (spec_lin_at a IHa 7 ltac:(lia)) as HB. unfold Machine.lin_at in HB.
    change (lin (Neg V a)) with (TPre V :: (if level a <? 7 then TL V :: lin a ++ [TR V] else lin a)).
    set (la := if level a <? 7 then TL V :: lin a ++ [TR V] else lin a) in *.
    assert (Hpush : step (mkSt ds os) (TPre V) = Ok (mkSt ds (IPre :: os))).
    { cbn [Machine.step]. unfold push_operator. cbn [opt opd]. destruct os as [|top rest]; [reflexivity|].
      cbn in Htop. destruct top as [o'| |]; cbn [item_prio] in *.
      - rewrite pre_prio_val. destruct (Z.gtb_spec 6 (prio o')); [reflexivity|lia].
      - rewrite pre_prio_val in Htop. lia.
      - rewrite pre_prio_val. reflexivity. }
    cbn [Machine.run]. rewrite Hpush. cbn [bind].
    destruct (HB ds (IPre :: os)) as (Hs & Hq & Hshape); [cbn; rewrite pre_prio_val; lia|].
    specialize (Hs ltac:(lia)).
    split; [cbn [Machine.level]; rewrite pre_prio_val; lia|]. split.
    + intros q Hqr. cbn [Machine.level] in Hqr. rewrite pre_prio_val in Hqr.
      rewrite Hs, bind_assoc. cbn [Machine.eval]. rewrite bind_assoc. apply bind_ext. intros v. cbn [bind opd opt flushL item_prio].
      rewrite pre_prio_val. destruct (Z.leb_spec q 6); [|lia]. reflexivity.
    + intros s' Hs'. rewrite Hs in Hs'. destruct (eval a); cbn in Hs'; try discriminate. inversion Hs'; subst. cbn [opt].
      exists [IPre]. split; [reflexivity|]. constructor; [cbn; rewrite pre_prio_val; lia|constructor].
  - (* percent *)
    intros ds os Htop. cbn [Machine.level] in Htop.
    pose proof (spec_lin_at a IHa 7 ltac:(lia)) as HB. unfold Machine.lin_at in HB.
    change (lin (Pct V a)) with ((if level a <? 7 then TL V :: lin a ++ [TR V] else lin a) ++ [TPct V]).
    set (la := if level a <? 7 then TL V :: lin a ++ [TR V] else lin a) in *.
    destruct (HB ds os Htop) as (Hs & _ & _). specialize (Hs ltac:(lia)).
    assert (Hrun : run (la ++ [TPct V]) (mkSt ds os) = bind (eval (Pct V a)) (fun v => Ok (mkSt (v :: ds) os))).
    { rewrite run_app, Hs, bind_assoc. cbn [Machine.eval]. rewrite bind_assoc. apply bind_ext. intros v. reflexivity. }
    split; [intros _; exact Hrun|]. split.
    + intros q Hq. rewrite Hrun, bind_assoc. apply bind_ext. intros v. reflexivity.
    + intros s' Hs'. rewrite Hrun in Hs'. destruct (eval (Pct V a)); cbn in Hs'; try discriminate. inversion Hs'; subst. exists []. split; [reflexivity|constructor].
  - (* binary operator *)
    intros ds os Htop. cbn [Machine.level] in Htop. pose proof (prio_range o) as Hk.
    pose proof (spec_lin_at a IHa (prio o) ltac:(lia)) as HBa. pose proof (spec_lin_at b IHb (prio o + 1) ltac:(lia)) as HBb.
    unfold Machine.lin_at in HBa, HBb.
    change (lin (Bin V o a b)) with ((if level a <? prio o then TL V :: lin a ++ [TR V] else lin a) ++ [TOp V o] ++
                                     (if level b <? prio o + 1 then TL V :: lin b ++ [TR V] else lin b)).
    set (la := if level a <? prio o then TL V :: lin a ++ [TR V] else lin a) in *.
    set (lb := if level b <? prio o + 1 then TL V :: lin b ++ [TR V] else lin b) in *.
    destruct (HBa ds os Htop) as (_ & Hqa & Hsha).
    (* after a and the operator token *)
    assert (Hmid : bind (run la (mkSt ds os)) (fun s => step s (TOp V o)) = bind (eval a) (fun va => Ok (mkSt (va :: ds) (IOp o :: os)))).
    { transitivity (bind (bind (run la (mkSt ds os)) (fun s' => flushL (prio o) (opd V s') (opt V s')))
                         (fun s' => Ok (mkSt (opd V s') (IOp o :: opt V s')))).
      - rewrite bind_assoc. apply bind_ext. intros [ds' os']. apply step_op.
      - rewrite (Hqa (prio o) ltac:(lia)), bind_assoc. apply bind_ext. intros va.
        rewrite flushL_idle by assumption. reflexivity. }
    assert (Hrun : run (la ++ [TOp V o] ++ lb) (mkSt ds os) = bind (eval a) (fun va => run lb (mkSt (va :: ds) (IOp o :: os)))).
    { rewrite run_app. cbn [app Machine.run].
      transitivity (bind (bind (run la (mkSt ds os)) (fun s => step s (TOp V o))) (run lb)).
      - rewrite bind_assoc. reflexivity.
      - rewrite Hmid, bind_assoc. reflexivity. }
    split; [cbn [Machine.level]; lia|]. split.
    + intros q Hq. cbn [Machine.level] in Hq. rewrite Hrun, bind_assoc. cbn [Machine.eval]. rewrite bind_assoc. apply bind_ext. intros va.
      destruct (HBb (va :: ds) (IOp o :: os)) as (_ & Hqb & _); [cbn [top_lt item_prio]; lia|].
      rewrite (Hqb q ltac:(lia)), bind_assoc. apply bind_ext. intros vb.
      cbn [flushL item_prio]. destruct (Z.leb_spec q (prio o)); [|lia]. cbn [Machine.calculate]. rewrite bind_assoc. reflexivity.
    + intros s' Hs'. rewrite Hrun in Hs'. destruct (eval a) as [va| |]; cbn [bind] in Hs'; try discriminate.
      destruct (HBb (va :: ds) (IOp o :: os)) as (_ & _ & Hshb); [cbn [top_lt item_prio]; lia|].
      destruct (Hshb s' Hs') as (pend & Hopt & Hpend). exists (pend ++ [IOp o]). split; [rewrite Hopt, <- app_assoc; reflexivity|].
      apply Forall_app. split; [assumption|]. constructor; [cbn [item_prio]; lia|constructor].
Qed.

(* C08_machine: evaluating the token string of any expression tree (with exactly the parentheses that precedence
   and left associativity require) equals evaluating the tree *)
Theorem machine_correct e : eval_tokens V apply neg pct (lin e) = eval e.
Proof.
  unfold eval_tokens. destruct (machine_spec e [] []) as (_ & Hq & _); [exact I|].
  specialize (Hq 1 ltac:(pose proof (level_bounds e); lia)).
  assert (Hd : forall s, drain V apply neg (length (opt V s)) s = bind (flushL 1 (opd V s) (opt V s)) (fun s' => drain V apply neg (length (opt V s')) s')).
  { intros [ds os]. cbn [opt opd]. revert ds. induction os as [|top rest IH]; intros ds; [reflexivity|].
    cbn [length drain opt opd flushL]. destruct (Z.leb_spec 1 (item_prio top)).
    - rewrite bind_assoc. apply bind_ext. intros ds'. apply IH.
    - cbn [bind opt opd length drain]. reflexivity. }
  transitivity (bind (bind (run (lin e) (mkSt [] [])) (fun s' => flushL 1 (opd V s') (opt V s')))
                     (fun s' => bind (drain V apply neg (length (opt V s')) s') (fun s'' => match opd V s'' with v :: _ => Ok v | [] => Err E_INVALID end))).
  - rewrite bind_assoc. apply bind_ext. intros s. rewrite Hd, bind_assoc. reflexivity.
  - rewrite Hq, bind_assoc. rewrite <- (bind_ok (eval e)) at 2. apply bind_ext. intros v. reflexivity.
Qed.

(* ---------- totality: no token string makes the machine panic ---------- *)
Hypothesis apply_no_panic : forall o a b p, apply o a b <> Panic p.

Lemma bind_no_panic {A B} (r : res A) (f : A -> res B) p :
  (forall q, r <> Panic q) -> (forall x q, f x <> Panic q) -> bind r f <> Panic p.
Proof. intros Hr Hf. destruct r; cbn; [apply Hf|discriminate|exfalso; eapply Hr; reflexivity]. Qed.

Lemma calculate_no_panic i ds p : calculate i ds <> Panic p.
Proof.
  destruct i as [o| |]; cbn [Machine.calculate].
  - destruct ds as [|rv [|lv r]]; try discriminate. apply bind_no_panic; [intros q; apply apply_no_panic|intros; discriminate].
  - destruct ds; discriminate.
  - discriminate.
Qed.

Lemma flush_no_panic : forall k q s p, flush V apply neg k q s <> Panic p.
Proof.
  induction k as [|k IH]; intros q s p; cbn [flush]; [discriminate|].
  destruct (opt V s) as [|top rest]; [discriminate|]. destruct (q <=? item_prio top); [|discriminate].
  apply bind_no_panic; [intros; apply calculate_no_panic|intros; apply IH].
Qed.

Lemma close_paren_no_panic : forall k s p, close_paren V apply neg k s <> Panic p.
Proof.
  induction k as [|k IH]; intros s p; cbn [close_paren]; [discriminate|].
  destruct (opt V s) as [|top rest]; [discriminate|].
  destruct top; try discriminate; apply bind_no_panic; try (intros; apply calculate_no_panic); intros; apply IH.
Qed.

Lemma step_no_panic s t p : step s t <> Panic p.
Proof.
  destruct t; cbn [Machine.step]; try discriminate.
  - unfold push_operator. destruct (opt V s) as [|top rest]; [discriminate|]. destruct top; try discriminate;
      (destruct (_ >? _); [discriminate|apply bind_no_panic; [intros; apply flush_no_panic|intros; discriminate]]).
  - unfold push_operator. destruct (opt V s) as [|top rest]; [discriminate|]. destruct top;
      (destruct (_ >? _); [discriminate|apply bind_no_panic; [intros; apply flush_no_panic|intros; discriminate]]).
  - apply close_paren_no_panic.
  - destruct (opd V s); discriminate.
Qed.

Lemma run_no_panic : forall ts s p, run ts s <> Panic p.
Proof.
  induction ts as [|t ts IH]; intros s p; cbn [Machine.run]; [discriminate|].
  apply bind_no_panic; [intros; apply step_no_panic|intros; apply IH].
Qed.

Lemma drain_no_panic : forall k s p, drain V apply neg k s <> Panic p.
Proof.
  induction k as [|k IH]; intros s p; cbn [drain]; [discriminate|].
  destruct (opt V s); [discriminate|]. apply bind_no_panic; [intros; apply calculate_no_panic|intros; apply IH].
Qed.

Theorem eval_tokens_no_panic ts p : eval_tokens V apply neg pct ts <> Panic p.
Proof.
  unfold eval_tokens. apply bind_no_panic; [intros; apply run_no_panic|]. intros s q.
  apply bind_no_panic; [intros; apply drain_no_panic|]. intros s' q'. destruct (opd V s'); discriminate.
Qed.
End Proofs.
