(* C08/C09: the operator-precedence machine of calc.go (evalInfixExp outside function calls: parseToken,
   parseOperatorPrefixToken, calculate, final flush), generic in the value type and in the operator
   semantics. Stack accesses are partial: a Peek().(efp.Token) on an empty stack is a Go panic. *)
From VF Require Import Base.Prelude Generated.Consts.

Inductive binop := OPow | OMul | ODiv | OAdd | OSub | OCat | OEq | ONe | OLt | OLe | OGt | OGe.

Definition binop_sym (o : binop) : bytes :=
  match o with
  | OPow => [94] | OMul => [42] | ODiv => [47] | OAdd => [43] | OSub => [45] | OCat => [38]
  | OEq => [61] | ONe => [60; 62] | OLt => [60] | OLe => [60; 61] | OGt => [62] | OGe => [62; 61]
  end.

Fixpoint assoc_prio (k : bytes) (l : list (bytes * Z)) : Z :=
  match l with [] => 0 | (k', v) :: r => if bytes_eqb k k' then v else assoc_prio k r end.
(* calc.go:getPriority through the regenerated tokenPriority table *)
Definition prio (o : binop) : Z := assoc_prio (binop_sym o) tokenPriority.
Definition pre_prio : Z := prefixMinusPriority.

Section Machine.
Variable V : Type.
Variable apply : binop -> V -> V -> res V.   (* calculate on an infix operator: left, right operand *)
Variable neg : V -> V.                        (* prefix minus *)
Variable pct : V -> V.                        (* postfix percent *)

Inductive tok := TLit (v : V) | TPre | TOp (o : binop) | TL | TR | TPct.
Inductive oitem := IOp (o : binop) | IPre | IParen.

Definition item_prio (i : oitem) : Z := match i with IOp o => prio o | IPre => pre_prio | IParen => 0 end.

Record st := mkSt { opd : list V; opt : list oitem }.

Definition E_INVALID : Z := 20.   (* ErrInvalidFormula *)

(* calc.go:calculate *)
Definition calculate (i : oitem) (ds : list V) : res (list V) :=
  match i with
  | IPre => match ds with v :: r => Ok (neg v :: r) | [] => Err E_INVALID end
  | IOp o => match ds with
             | rv :: lv :: r => bind (apply o lv rv) (fun x => Ok (x :: r))
             | _ => Err E_INVALID
             end
  | IParen => Ok ds
  end.

(* the loop of parseOperatorPrefixToken: pop and calculate while the top priority is >= p *)
Fixpoint flush (fuel : nat) (p : Z) (s : st) : res st :=
  match fuel with
  | O => Ok s
  | S f =>
    match opt s with
    | [] => Ok s
    | top :: rest =>
      if p <=? item_prio top
      then bind (calculate top (opd s)) (fun ds => flush f p (mkSt ds rest))
      else Ok s
    end
  end.

(* calc.go:parseOperatorPrefixToken for an operator item of priority p *)
Definition push_operator (i : oitem) (s : st) : res st :=
  match opt s with
  | [] => Ok (mkSt (opd s) [i])
  | top :: rest =>
    match top, i with
    | IPre, IPre => Ok (mkSt (opd s) rest)                    (* "--" cancels syntactically *)
    | _, _ =>
      if item_prio i >? item_prio top then Ok (mkSt (opd s) (i :: opt s))
      else bind (flush (length (opt s)) (item_prio i) s) (fun s' => Ok (mkSt (opd s') (i :: opt s')))
    end
  end.

(* the ")" loop: calculate down to the nearest "(", which is popped; no "(" on the stack is an invalid
   formula (before fix "a closing parenthesis without an opening one" this was a Go panic) *)
Fixpoint close_paren (fuel : nat) (s : st) : res st :=
  match fuel with
  | O => Err E_INVALID
  | S f =>
    match opt s with
    | [] => Err E_INVALID
    | IParen :: rest => Ok (mkSt (opd s) rest)
    | top :: rest => bind (calculate top (opd s)) (fun ds => close_paren f (mkSt ds rest))
    end
  end.

(* calc.go:parseToken *)
Definition step (s : st) (t : tok) : res st :=
  match t with
  | TLit v => Ok (mkSt (v :: opd s) (opt s))
  | TPre => push_operator IPre s
  | TOp o => push_operator (IOp o) s
  | TL => Ok (mkSt (opd s) (IParen :: opt s))
  | TR => close_paren (S (length (opt s))) s
  | TPct => match opd s with v :: r => Ok (mkSt (pct v :: r) (opt s)) | [] => Ok s end
  end.

Fixpoint run (ts : list tok) (s : st) : res st :=
  match ts with [] => Ok s | t :: r => bind (step s t) (run r) end.

(* the final loop of evalInfixExp *)
Fixpoint drain (fuel : nat) (s : st) : res st :=
  match fuel with
  | O => Ok s
  | S f => match opt s with
           | [] => Ok s
           | top :: rest => bind (calculate top (opd s)) (fun ds => drain f (mkSt ds rest))
           end
  end.

Definition eval_tokens (ts : list tok) : res V :=
  bind (run ts (mkSt [] [])) (fun s =>
  bind (drain (length (opt s)) s) (fun s' =>
  match opd s' with v :: _ => Ok v | [] => Err E_INVALID end)).

(* ---------- S: expression trees ---------- *)
Inductive expr := Lit (v : V) | Neg (e : expr) | Pct (e : expr) | Bin (o : binop) (a b : expr).

Fixpoint eval (e : expr) : res V :=
  match e with
  | Lit v => Ok v
  | Neg a => bind (eval a) (fun v => Ok (neg v))
  | Pct a => bind (eval a) (fun v => Ok (pct v))
  | Bin o a b => bind (eval a) (fun va => bind (eval b) (fun vb => apply o va vb))
  end.

(* printing with exactly the parentheses that precedence and left associativity require *)
Definition level (e : expr) : Z :=
  match e with Lit _ => 8 | Pct _ => 7 | Neg _ => pre_prio | Bin o _ _ => prio o end.

Fixpoint lin (e : expr) : list tok :=
  let at_level (p : Z) (x : expr) (lx : list tok) := if level x <? p then TL :: lx ++ [TR] else lx in
  match e with
  | Lit v => [TLit v]
  | Neg a => TPre :: at_level 7 a (lin a)
  | Pct a => at_level 7 a (lin a) ++ [TPct]
  | Bin o a b => at_level (prio o) a (lin a) ++ [TOp o] ++ at_level (prio o + 1) b (lin b)
  end.
Definition lin_at (p : Z) (e : expr) : list tok := if level e <? p then TL :: lin e ++ [TR] else lin e.

End Machine.
