(* C05: structural validity of what the sheet core and the sheet collection serialise, for every history.
   The byte layer (zip, XML text), content types, relationships, drawings and the other feature parts are decided
   by the independent validator on the implementation (DESIGN C05). *)
From VF Require Import Base.Prelude Generated.Consts Sheet.Model Sheet.Proofs Sheet.Readers.
From Coq Require Import ZifyBool ZifyNat.

(* a dense cell list is strictly increasing in its columns *)
Lemma dense_incr cells : forall k, dense_from k cells -> incr_from (Z.of_nat k) cells.
Proof.
  induction cells as [|c cells IH]; intros k Hd; cbn [incr_from]; [exact I|].
  pose proof (Hd 0%nat c eq_refl) as Hc. replace (k + 0)%nat with k in Hc by lia.
  split; [lia|]. replace (c_col c) with (Z.of_nat (S k)) by lia. apply IH. now apply (dense_from_tail k c).
Qed.

Lemma incr_from_weaken cs : forall b b', b' <= b -> incr_from b cs -> incr_from b' cs.
Proof. destruct cs as [|c cs]; intros b b' H Hi; [exact I|]. cbn [incr_from] in *. destruct Hi; split; [lia|assumption]. Qed.

(* what is written for one row: its number, its cells strictly ascending by column, each carrying the row's number *)
Definition row_wf (i : nat) (r : row) : Prop :=
  r_r r = Z.of_nat i + 1 /\ incr_from 0 (r_cells r) /\ forall c, In c (r_cells r) -> c_row c = r_r r /\ 1 <= c_col c.

Theorem serialised_rows_wf sh : Inv sh -> forall i r, nth_error (xml_rows sh) i = Some r -> row_wf i r.
Proof.
  intros HI i r Hi. unfold xml_rows in Hi. rewrite nth_error_map in Hi.
  destruct (nth_error (rows sh) i) as [r0|] eqn:E; [|discriminate]. cbn in Hi. inversion Hi; subst r. clear Hi.
  destruct (HI i r0 E) as [HR Hd].
  assert (Hd0 : dense_from 0 (r_cells r0)) by (intros j c Hj; destruct (Hd j c Hj); lia).
  assert (Hcells : forall c, In c (r_cells r0) -> c_row c = r_r r0 /\ 1 <= c_col c).
  { intros c Hc. apply In_nth_error in Hc. destruct Hc as [j Hj]. destruct (Hd j c Hj). split; lia. }
  unfold trim_row. destruct (negb (is_nil_cells (r_cells (trim_cell r0))) || row_has_attr (trim_cell r0)).
  - cbn [trim_cell r_r r_cells]. unfold row_wf. cbn [r_r r_cells]. refine (conj HR (conj _ _)).
    + exact (filter_dense_incr _ 0%nat Hd0).
    + intros c Hc. apply filter_In in Hc. apply Hcells, Hc.
  - unfold row_wf. refine (conj HR (conj _ Hcells)). exact (dense_incr _ 0%nat Hd0).
Qed.

(* rows are strictly ascending: row i carries number i+1 *)
Corollary serialised_rows_ascending sh : Inv sh -> forall i j ri rj,
  nth_error (xml_rows sh) i = Some ri -> nth_error (xml_rows sh) j = Some rj -> (i < j)%nat -> r_r ri < r_r rj.
Proof.
  intros HI i j ri rj Hi Hj Hlt. destruct (serialised_rows_wf sh HI i ri Hi) as [E1 _]. destruct (serialised_rows_wf sh HI j rj Hj) as [E2 _]. lia.
Qed.

(* over histories of the sheet core, saves included *)
Theorem history_rows_wf ops : Forall op_ok ops -> forall i r, nth_error (xml_rows (run ops empty_sheet)) i = Some r -> row_wf i r.
Proof. intros Hok. apply serialised_rows_wf. exact (proj1 (run_WF ops empty_sheet WF_empty Hok)). Qed.
