(* C09 model: the reference walk of calc.go:cellResolver / calcCellValue with the MaxCalcIterations cut-off,
   as a small-step machine over a work stack. A formula cell other than the entry cell is expanded (its
   formula evaluated, i.e. its references visited) while its counter is <= K; afterwards the cached value is
   used. References to the entry cell and to non-formula cells are leaves. *)
From VF Require Import Base.Prelude Generated.Consts.

Definition graph := list (Z * list Z).          (* formula cell -> cells its formula refers to *)
Fixpoint children (g : graph) (n : Z) : option (list Z) :=
  match g with [] => None | (k, cs) :: r => if k =? n then Some cs else children r n end.

Record wst := mkW { stack : list Z; cnt : Z -> nat; calls : nat }.

Definition bump (c : Z -> nat) (n : Z) : Z -> nat := fun m => if m =? n then S (c m) else c m.

(* one step: pop a pending reference *)
Definition wstep (g : graph) (entry : Z) (k : nat) (s : wst) : wst :=
  match stack s with
  | [] => s
  | n :: rest =>
    match children g n with
    | Some cs =>
      if (n =? entry) then mkW rest (cnt s) (calls s)                       (* ctx.entry == ref: raw value *)
      else if (cnt s n <=? k)%nat then mkW (cs ++ rest) (bump (cnt s) n) (S (calls s))   (* iterations[ref]++ ; calcCellValue *)
      else mkW rest (cnt s) (calls s)                                         (* iterationsCache[ref] *)
    | None => mkW rest (cnt s) (calls s)                                      (* not a formula cell *)
    end
  end.

Fixpoint wrun (fuel : nat) (g : graph) (entry : Z) (k : nat) (s : wst) : wst :=
  match fuel with O => s | S f => match stack s with [] => s | _ => wrun f g entry k (wstep g entry k s) end end.

(* CalcCellValue(entry): the entry formula's references are the initial work *)
Definition walk (fuel : nat) (g : graph) (entry : Z) (k : nat) : wst :=
  match children g entry with
  | Some cs => wrun fuel g entry k (mkW cs (fun _ => O) 1)
  | None => mkW [] (fun _ => O) 0
  end.

Definition max_degree (g : graph) : nat := fold_left (fun m e => Nat.max m (length (snd e))) g O.
Definition keys (g : graph) : list Z := map fst g.
