From VF Require Import Base.Prelude Generated.Consts C09.Model.
From Coq Require Import ZifyBool ZifyNat.

(* remaining expansion budget over the formula cells *)
Fixpoint budget (ns : list Z) (k : nat) (c : Z -> nat) : nat :=
  match ns with [] => O | n :: r => (S k - c n) + budget r k c end.

Lemma budget_bump_notin ns k c n : ~ In n ns -> budget ns k (bump c n) = budget ns k c.
Proof.
  induction ns as [|m r IH]; intros H; cbn [budget]; [reflexivity|].
  rewrite IH by (intro; apply H; now right). unfold bump. destruct (Z.eqb_spec m n); [exfalso; apply H; left; auto|reflexivity].
Qed.

Lemma budget_bump_in ns k c n : NoDup ns -> In n ns -> (c n <= k)%nat -> S (budget ns k (bump c n)) = budget ns k c.
Proof.
  induction ns as [|m r IH]; intros Hnd Hin Hc; [destruct Hin|]. inversion Hnd as [|? ? Hm Hr]; subst. cbn [budget].
  destruct Hin as [->|Hin].
  - rewrite budget_bump_notin by assumption. unfold bump. rewrite Z.eqb_refl. lia.
  - assert (m <> n) by (intro; subst; contradiction). unfold bump at 1. destruct (Z.eqb_spec m n); [contradiction|].
    rewrite <- (IH Hr Hin Hc). lia.
Qed.

Lemma children_in g n cs : children g n = Some cs -> In n (keys g) /\ In (n, cs) g.
Proof.
  induction g as [|[k c] r IH]; cbn; [discriminate|]. destruct (Z.eqb_spec k n); intros H.
  - inversion H; subst. split; left; reflexivity.
  - destruct (IH H). split; right; assumption.
Qed.

Definition deg_fold (g : graph) (m : nat) : nat := fold_left (fun m (e : Z * list Z) => Nat.max m (length (snd e))) g m.
Lemma deg_fold_ge : forall (g : graph) m, (m <= deg_fold g m)%nat.
Proof. induction g as [|e r IH]; intros m; cbn; [lia|]. specialize (IH (Nat.max m (length (snd e)))). unfold deg_fold in *. lia. Qed.
Lemma max_degree_ge g : forall n cs, In (n, cs) g -> (length cs <= max_degree g)%nat.
Proof.
  unfold max_degree. change (forall n cs, In (n, cs) g -> (length cs <= deg_fold g O)%nat).
  generalize O. induction g as [|e r IH]; intros m n cs Hin; [destruct Hin|]. cbn [deg_fold fold_left].
  destruct Hin as [->|Hin].
  - cbn [snd]. pose proof (deg_fold_ge r (Nat.max m (length cs))). unfold deg_fold in *. lia.
  - apply (IH (Nat.max m (length (snd e))) n cs Hin).
Qed.

(* termination measure: pending work + (degree + 1) * remaining budget *)
Definition mu (g : graph) (k : nat) (s : wst) : nat := length (stack s) + S (max_degree g) * budget (keys g) k (cnt s).

Lemma wstep_decreases g entry k s : NoDup (keys g) -> stack s <> [] -> (mu g k (wstep g entry k s) < mu g k s)%nat.
Proof.
  intros Hnd Hne. unfold wstep, mu. destruct (stack s) as [|n rest] eqn:Es; [contradiction|].
  destruct (children g n) as [cs|] eqn:Ec; cbn [stack cnt length]; [|lia].
  destruct (n =? entry); cbn [stack cnt length]; [lia|].
  destruct (Nat.leb_spec (cnt s n) k) as [Hle|Hgt]; cbn [stack cnt length]; [|lia].
  destruct (children_in g n cs Ec) as [Hk Hin]. pose proof (max_degree_ge g n cs Hin).
  rewrite app_length. pose proof (budget_bump_in (keys g) k (cnt s) n Hnd Hk Hle). nia.
Qed.

(* the walk empties its work stack within mu steps, for every graph (cycles of any shape included) *)
Lemma wrun_terminates g entry k : NoDup (keys g) -> forall fuel s, (mu g k s <= fuel)%nat -> stack (wrun fuel g entry k s) = [].
Proof.
  intros Hnd. induction fuel as [|f IH]; intros s Hm.
  - cbn. unfold mu in Hm. destruct (stack s); [reflexivity|cbn in Hm; lia].
  - cbn [wrun]. destruct (stack s) as [|n rest] eqn:Es; [assumption|]. apply IH.
    pose proof (wstep_decreases g entry k s Hnd ltac:(rewrite Es; discriminate)). lia.
Qed.

(* the number of formula evaluations (calcCellValue calls) is bounded by the budget *)
Lemma wstep_calls g entry k s : NoDup (keys g) ->
  (calls (wstep g entry k s) + budget (keys g) k (cnt (wstep g entry k s)) = calls s + budget (keys g) k (cnt s))%nat.
Proof.
  intros Hnd. unfold wstep. destruct (stack s) as [|n rest]; [reflexivity|].
  destruct (children g n) as [cs|] eqn:Ec; cbn [calls cnt]; [|reflexivity].
  destruct (n =? entry); cbn [calls cnt]; [reflexivity|].
  destruct (Nat.leb_spec (cnt s n) k) as [Hle|Hgt]; cbn [calls cnt]; [|reflexivity].
  destruct (children_in g n cs Ec) as [Hk _]. pose proof (budget_bump_in (keys g) k (cnt s) n Hnd Hk Hle). lia.
Qed.

Lemma wrun_calls g entry k : NoDup (keys g) -> forall fuel s,
  (calls (wrun fuel g entry k s) + budget (keys g) k (cnt (wrun fuel g entry k s)) = calls s + budget (keys g) k (cnt s))%nat.
Proof.
  intros Hnd. induction fuel as [|f IH]; intros s; cbn [wrun]; [reflexivity|].
  destruct (stack s); [reflexivity|]. rewrite IH. now apply wstep_calls.
Qed.

Lemma budget_init ns k : budget ns k (fun _ => O) = (length ns * S k)%nat.
Proof. induction ns as [|n r IH]; cbn [budget length]; [reflexivity|]. rewrite IH. lia. Qed.
