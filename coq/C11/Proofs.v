(* C11 proofs: the streamed sheet, reopened, shows at every position what the equivalent in-memory calls store. *)
From VF Require Import Base.Prelude Generated.Consts Sheet.Model Sheet.Proofs Sheet.View C11.Model.
From Coq Require Import ZifyBool ZifyNat.
Ltac Zify.zify_post_hook ::= Z.div_mod_to_equations.

(* ---------- placing keyed elements into a table (checkSheet rows, checkRow cells) ---------- *)
Section GPlace.
  Context {A : Type} (key : A -> Z).
  Fixpoint gplace (src T : list A) : list A :=
    match src with [] => T | x :: rest => gplace rest (upd T (Z.to_nat (key x - 1)) (fun _ => x)) end.
  Fixpoint glookup (src : list A) (j : nat) : option A :=
    match src with [] => None | x :: rest => if key x =? Z.of_nat j + 1 then Some x else glookup rest j end.
  Fixpoint gincr (b : Z) (src : list A) : Prop :=
    match src with [] => True | x :: rest => b < key x /\ gincr (key x) rest end.

  Lemma glookup_none_below src : forall b j, gincr b src -> Z.of_nat j + 1 <= b -> glookup src j = None.
  Proof.
    induction src as [|x src IH]; intros b j H Hj; cbn [glookup]; [reflexivity|].
    cbn [gincr] in H. destruct H as [H1 H2]. destruct (Z.eqb_spec (key x) (Z.of_nat j + 1)); [lia|].
    apply (IH (key x)); [assumption|lia].
  Qed.

  Lemma gincr_weaken src : forall b b', b' <= b -> gincr b src -> gincr b' src.
  Proof. destruct src as [|x src]; intros b b' Hb H; [exact I|]. cbn [gincr] in *. destruct H; split; [lia|assumption]. Qed.

  Lemma gplace_length src : forall T, length (gplace src T) = length T.
  Proof. induction src as [|x src IH]; intros T; cbn [gplace]; [reflexivity|]. now rewrite IH, upd_length. Qed.

  Lemma gplace_nth src : forall b T j, 0 <= b -> gincr b src ->
    nth_error (gplace src T) j =
    if (j <? length T)%nat then match glookup src j with Some x => Some x | None => nth_error T j end else None.
  Proof.
    induction src as [|x src IH]; intros b T j Hb H; cbn [gplace glookup].
    - destruct (Nat.ltb_spec j (length T)); [reflexivity|]. apply nth_error_None. lia.
    - cbn [gincr] in H. destruct H as [H1 H2].
      rewrite (IH (key x) _ j ltac:(lia) H2), upd_length.
      destruct (Nat.ltb_spec j (length T)) as [Hj|Hj]; [|reflexivity].
      destruct (Z.eqb_spec (key x) (Z.of_nat j + 1)) as [E|N].
      + rewrite (glookup_none_below src (key x) j H2) by lia.
        rewrite nth_error_upd. replace (Z.to_nat (key x - 1)) with j by lia. rewrite Nat.eqb_refl.
        destruct (nth_error T j) eqn:E2; [reflexivity|]. apply nth_error_None in E2. lia.
      + destruct (glookup src j); [reflexivity|].
        rewrite nth_error_upd. destruct (Nat.eqb_spec j (Z.to_nat (key x - 1))); [lia|]. reflexivity.
  Qed.

  Lemma glookup_key src : forall j x, glookup src j = Some x -> key x = Z.of_nat j + 1 /\ In x src.
  Proof.
    induction src as [|y src IH]; intros j x H; cbn [glookup] in H; [discriminate|].
    destruct (Z.eqb_spec (key y) (Z.of_nat j + 1)).
    - inversion H; subst. split; [assumption|now left].
    - destruct (IH j x H). split; [assumption|now right].
  Qed.

  (* in an increasing list the last element has the largest key *)
  Lemma gincr_last src : forall b lc rest, gincr b src -> rev src = lc :: rest ->
    b < key lc /\ forall x, In x src -> key x <= key lc.
  Proof.
    induction src as [|x src IH]; intros b lc rest H Hrev; [discriminate|].
    cbn [gincr] in H. destruct H as [H1 H2]. cbn [rev] in Hrev.
    destruct (rev src) as [|lc' rest'] eqn:E.
    - cbn in Hrev. inversion Hrev; subst lc rest.
      assert (src = []) by (rewrite <- (rev_involutive src), E; reflexivity). subst src.
      split; [assumption|]. intros y [->|[]]. lia.
    - cbn in Hrev. inversion Hrev; subst lc'. destruct (IH (key x) lc rest' H2 eq_refl) as [G1 G2].
      split; [lia|]. intros y [->|Hy]; [lia|now apply G2].
  Qed.

  (* an increasing list starting above b whose last key is b + length is the contiguous run b+1.. *)
  Lemma gincr_lower src : forall b lc rest, gincr b src -> rev src = lc :: rest -> b + Z.of_nat (length src) <= key lc.
  Proof.
    induction src as [|x src IH]; intros b lc rest H Hrev; [discriminate|].
    cbn [gincr] in H. destruct H as [H1 H2]. cbn [rev] in Hrev.
    destruct (rev src) as [|lc' rest'] eqn:E.
    - cbn in Hrev. inversion Hrev; subst lc rest.
      assert (src = []) by (rewrite <- (rev_involutive src), E; reflexivity). subst src. cbn. lia.
    - cbn in Hrev. inversion Hrev; subst lc'. pose proof (IH (key x) lc rest' H2 eq_refl). cbn [length]. lia.
  Qed.

  Lemma gincr_dense src : forall b lc rest, gincr b src -> rev src = lc :: rest -> key lc <= b + Z.of_nat (length src) ->
    forall k x, nth_error src k = Some x -> key x = b + Z.of_nat k + 1.
  Proof.
    induction src as [|x src IH]; intros b lc rest H Hrev Hle k y Hk; [discriminate|].
    cbn [gincr] in H. destruct H as [H1 H2]. cbn [rev] in Hrev.
    destruct (rev src) as [|lc' rest'] eqn:E.
    - cbn in Hrev. inversion Hrev; subst lc rest.
      assert (src = []) by (rewrite <- (rev_involutive src), E; reflexivity). subst src. cbn [length] in Hle.
      destruct k as [|k]; [|destruct k; discriminate]. cbn in Hk. inversion Hk; subst. lia.
    - cbn in Hrev. inversion Hrev; subst lc'. pose proof (gincr_lower src (key x) lc rest' H2 E) as Hlow.
      cbn [length] in Hle. assert (Hx : key x = b + 1) by lia.
      destruct k as [|k]; cbn in Hk; [inversion Hk; subst; lia|].
      rewrite (IH (key x) lc rest' H2 eq_refl ltac:(lia) k y Hk). lia.
  Qed.

  Lemma gincr_dense_lookup src : forall lc rest, gincr 0 src -> rev src = lc :: rest -> key lc <= Z.of_nat (length src) ->
    forall j, nth_error src j = glookup src j.
  Proof.
    intros lc rest H Hrev Hle j.
    pose proof (gincr_dense src 0 lc rest H Hrev ltac:(lia)) as Hd.
    assert (G : forall l k, (forall i x, nth_error l i = Some x -> key x = Z.of_nat (k + i) + 1) ->
                forall j, (k <= j)%nat -> nth_error l (j - k) = glookup l j).
    { induction l as [|x l IHl]; intros k Hl j' Hj; cbn [glookup]; [now rewrite nth_error_nil|].
      pose proof (Hl 0%nat x eq_refl) as Hx. replace (k + 0)%nat with k in Hx by lia.
      destruct (Z.eqb_spec (key x) (Z.of_nat j' + 1)) as [E|N].
      - assert (j' = k) by lia. subst. now rewrite Nat.sub_diag.
      - assert (k < j')%nat by lia. replace (j' - k)%nat with (S (j' - S k)) by lia. cbn [nth_error].
        apply IHl; [|lia]. intros i y Hi. rewrite (Hl (S i) y Hi). f_equal. lia. }
    specialize (G src 0%nat). rewrite <- (G ltac:(intros i x Hi; rewrite (Hd i x Hi); cbn; lia) j ltac:(lia)). f_equal. lia.
  Qed.
End GPlace.

Lemma place_gplace src : forall T, place src T = gplace c_col src T.
Proof. induction src as [|c src IH]; intros T; cbn [place gplace]; [reflexivity|apply IH]. Qed.
Lemma place_rows_gplace src : forall T, place_rows src T = gplace r_r src T.
Proof. induction src as [|c src IH]; intros T; cbn [place_rows gplace]; [reflexivity|apply IH]. Qed.

(* ---------- one streamed row after checkRow ---------- *)
Lemma densify_lookup idx r : gincr c_col 0 (r_cells r) ->
  forall j, obs_of (nth_error (r_cells (densify_row idx r)) j) = obs_of (glookup c_col (r_cells r) j).
Proof.
  intros Hinc j. unfold densify_row. destruct (rev (r_cells r)) as [|lc rest] eqn:Erev.
  - assert (E : r_cells r = []) by (rewrite <- (rev_involutive (r_cells r)), Erev; reflexivity). rewrite E. cbn. now rewrite nth_error_nil.
  - destruct (gincr_last c_col (r_cells r) 0 lc rest Hinc Erev) as [Hpos Hmax].
    destruct (Z.ltb_spec (Z.of_nat (length (r_cells r))) (c_col lc)) as [Hlt|Hge]; cbn [r_cells].
    + rewrite place_gplace, (gplace_nth c_col (r_cells r) 0 _ j ltac:(lia) Hinc), fillers_length.
      destruct (glookup c_col (r_cells r) j) as [x|] eqn:El.
      * destruct (glookup_key c_col _ _ _ El) as [Hk Hin]. specialize (Hmax x Hin).
        destruct (Nat.ltb_spec j (Z.to_nat (c_col lc))); [reflexivity|lia].
      * destruct (Nat.ltb_spec j (Z.to_nat (c_col lc))); [|reflexivity].
        rewrite nth_error_fillers. destruct (Nat.ltb_spec j (Z.to_nat (c_col lc))); [|lia]. reflexivity.
    + now rewrite (gincr_dense_lookup c_col (r_cells r) lc rest Hinc Erev Hge j).
Qed.

Lemma densify_attrs idx r : r_s (densify_row idx r) = r_s r /\ r_r (densify_row idx r) = r_r r.
Proof. unfold densify_row. destruct (rev (r_cells r)); [auto|]. destruct (_ <? _); cbn; auto. Qed.

(* ---------- all streamed rows after checkSheet ---------- *)
Lemma max_row_ge rs : forall a x, In x rs -> r_r x <= fold_left Z.max (map r_r rs) a.
Proof.
  induction rs as [|y rs IH]; intros a x Hin; [destruct Hin|]. cbn [map fold_left].
  assert (G : forall l b, b <= fold_left Z.max l b) by (induction l as [|z l IHl]; intros b; cbn; [lia|]; specialize (IHl (Z.max b z)); lia).
  destruct Hin as [->|Hin]; [|now apply IH]. specialize (G (map r_r rs) (Z.max a (r_r x))). lia.
Qed.

Lemma nth_error_new_rows_some k next i : (i < k)%nat -> nth_error (new_rows k next) i = Some (mkRow (next + Z.of_nat i) [] 0 None false).
Proof. intros H. rewrite nth_error_new_rows. destruct (Nat.ltb_spec i k); [reflexivity|lia]. Qed.

Lemma load_nth rs i : gincr r_r 0 rs ->
  nth_error (load rs) i =
  match glookup r_r rs i with
  | Some r => Some (densify_row (1 + Z.of_nat i) r)
  | None => if (i <? Z.to_nat (max_row rs))%nat then Some (mkRow (1 + Z.of_nat i) [] 0 None false) else None
  end.
Proof.
  intros Hinc. unfold load. rewrite nth_error_densify_rows, place_rows_gplace.
  rewrite (gplace_nth r_r rs 0 _ i ltac:(lia) Hinc), new_rows_length.
  destruct (glookup r_r rs i) as [r|] eqn:El.
  - destruct (glookup_key r_r _ _ _ El) as [Hk Hin]. pose proof (max_row_ge rs 0 r Hin) as Hm. fold (max_row rs) in Hm.
    destruct (Nat.ltb_spec i (Z.to_nat (max_row rs))); [reflexivity|lia].
  - destruct (Nat.ltb_spec i (Z.to_nat (max_row rs))) as [Hi|Hi]; [|reflexivity].
    rewrite nth_error_new_rows_some by assumption. cbn [option_map]. reflexivity.
Qed.

(* the view of the reopened stream at one position *)
Definition row_view (cs : list (Z * Z * Z)) (r : row) (c : Z) : wcell :=
  let o := obs_of (glookup c_col (r_cells r) (Z.to_nat (c - 1))) in
  (content_of o, pcs (r_s r) cs c (style_of o)).

Lemma W_flush st c r : 1 <= c -> 1 <= r -> gincr r_r 0 (sw_out st) ->
  (forall x, In x (sw_out st) -> gincr c_col 0 (r_cells x)) ->
  W (flush st) c r =
  match glookup r_r (sw_out st) (Z.to_nat (r - 1)) with
  | Some x => row_view (sw_cols st) x c
  | None => (empty_content, col_style (sw_cols st) c)
  end.
Proof.
  intros Hc Hr Hinc Hcells. unfold W. rewrite prepare_cell_style_pcs. unfold row_style, abs, flush. cbn [rows cols].
  rewrite (load_nth _ _ Hinc).
  destruct (glookup r_r (sw_out st) (Z.to_nat (r - 1))) as [x|] eqn:El.
  - destruct (glookup_key r_r _ _ _ El) as [Hk Hin].
    pose proof (densify_lookup (1 + Z.of_nat (Z.to_nat (r - 1))) x (Hcells x Hin) (Z.to_nat (c - 1))) as Hd.
    destruct (densify_attrs (1 + Z.of_nat (Z.to_nat (r - 1))) x) as [Hs _]. rewrite Hs.
    unfold row_view.
    rewrite <- Hd. reflexivity.
  - destruct (Z.to_nat (r - 1) <? Z.to_nat (max_row (sw_out st)))%nat; cbn [r_cells r_s].
    + rewrite nth_error_nil. reflexivity.
    + reflexivity.
Qed.

(* ---------- the in-memory side, position by position ---------- *)
Definition cell_apply (x : sval) (w : wcell) : wcell :=
  let c1 := if sv_has x then (sv_t x, sv_v x, @None bytes) else fst w in
  let c2 := if is_nil (sv_f x) then c1 else (let '(t, v, _) := c1 in (3, (if t =? 2 then [] else v), Some (sv_f x))) in
  (c2, if 0 <? sv_style x then sv_style x else snd w).

Lemma fold_at_mem_cell col row x c r w :
  fold_at (mem_cell col row x) c r w = if (c =? col) && (r =? row) then cell_apply x w else w.
Proof.
  unfold mem_cell, cell_apply. rewrite !fold_at_app.
  destruct ((c =? col) && (r =? row)) eqn:E.
  - destruct (sv_has x), (is_nil (sv_f x)) eqn:Ef, (0 <? sv_style x); unfold fold_at; cbn [fold_left wstep_at fst snd];
      rewrite ?E, ?Ef; cbn [fst snd]; try reflexivity; destruct w as [[[t v] f] s]; reflexivity.
  - destruct (sv_has x), (is_nil (sv_f x)), (0 <? sv_style x); unfold fold_at; cbn [fold_left wstep_at]; rewrite ?E; reflexivity.
Qed.

Lemma fold_at_mem_cells vals : forall col row c r w,
  fold_at (mem_cells col row vals) c r w =
  if r =? row
  then match (if col <=? c then nth_error vals (Z.to_nat (c - col)) else None) with
       | Some (Some x) => cell_apply x w
       | _ => w
       end
  else w.
Proof.
  induction vals as [|[x|] vals IH]; intros col row c r w; cbn [mem_cells].
  - unfold fold_at. cbn. rewrite nth_error_nil. destruct (r =? row), (col <=? c); reflexivity.
  - rewrite fold_at_app, fold_at_mem_cell, IH.
    destruct (Z.eqb_spec r row) as [Er|Nr]; [|now rewrite andb_false_r].
    rewrite andb_true_r. destruct (Z.eqb_spec c col) as [Ec|Nc].
    + subst c. destruct (Z.leb_spec (col + 1) col); [lia|]. rewrite Z.leb_refl, Z.sub_diag. reflexivity.
    + destruct (Z.leb_spec (col + 1) c), (Z.leb_spec col c); try lia; [|reflexivity].
      replace (Z.to_nat (c - col)) with (S (Z.to_nat (c - (col + 1)))) by lia. reflexivity.
  - rewrite IH. destruct (Z.eqb_spec r row) as [Er|Nr]; [|reflexivity].
    destruct (Z.leb_spec (col + 1) c), (Z.leb_spec col c); try lia; try reflexivity.
    + replace (Z.to_nat (c - col)) with (S (Z.to_nat (c - (col + 1)))) by lia. reflexivity.
    + assert (c = col) by lia. subst. rewrite Z.sub_diag. reflexivity.
Qed.

Lemma fold_at_mem_row col row rs vals c r w :
  fold_at (mem_row (col, row, rs, vals)) c r w =
  if r =? row
  then (let w1 := (fst w, if rs =? 0 then snd w else rs) in
        match (if col <=? c then nth_error vals (Z.to_nat (c - col)) else None) with
        | Some (Some x) => cell_apply x w1
        | _ => w1
        end)
  else w.
Proof.
  unfold mem_row. rewrite fold_at_app, fold_at_mem_cells.
  destruct (Z.eqb_spec r row) as [E|N].
  - destruct (Z.eqb_spec rs 0); unfold fold_at; cbn [fold_left wstep_at]; [destruct w; reflexivity|].
    subst r. rewrite Z.eqb_refl. reflexivity.
  - destruct (rs =? 0); unfold fold_at; cbn [fold_left wstep_at]; [reflexivity|].
    destruct (Z.eqb_spec r row); [contradiction|reflexivity].
Qed.

(* ---------- what SetRow emits, by column ---------- *)
Lemma emit_cells_spec cs row rs vals : forall col l, 1 <= col -> emit_cells cs col row rs vals = Some l ->
  gincr c_col (col - 1) l /\
  forall j, glookup c_col l j =
    match (if col <=? Z.of_nat j + 1 then nth_error vals (Z.to_nat (Z.of_nat j + 1 - col)) else None) with
    | Some (Some x) => Some (emit_cell cs (Z.of_nat j + 1) row rs x)
    | _ => None
    end.
Proof.
  induction vals as [|[x|] vals IH]; intros col l Hcol H; cbn [emit_cells] in H.
  - inversion H; subst. split; [exact I|]. intros j. cbn. rewrite nth_error_nil. destruct (col <=? _); reflexivity.
  - destruct ((MaxColumns <? col) || sv_bad x); [discriminate|].
    destruct (emit_cells cs (col + 1) row rs vals) as [l'|] eqn:E; [|discriminate]. inversion H; subst l.
    destruct (IH (col + 1) l' ltac:(lia) E) as [G1 G2]. split.
    + cbn [gincr emit_cell c_col]. split; [lia|]. replace (col + 1 - 1) with col in G1 by lia. exact G1.
    + intros j. cbn [glookup emit_cell c_col]. destruct (Z.eqb_spec col (Z.of_nat j + 1)) as [Ej|Nj].
      * rewrite <- Ej. rewrite Z.leb_refl, Z.sub_diag. reflexivity.
      * rewrite G2. destruct (Z.leb_spec (col + 1) (Z.of_nat j + 1)), (Z.leb_spec col (Z.of_nat j + 1)); try lia; [|reflexivity].
        replace (Z.to_nat (Z.of_nat j + 1 - col)) with (S (Z.to_nat (Z.of_nat j + 1 - (col + 1)))) by lia. reflexivity.
  - destruct (IH (col + 1) l ltac:(lia) H) as [G1 G2]. split.
    + apply (gincr_weaken c_col l (col + 1 - 1)); [lia|assumption].
    + intros j. rewrite G2. destruct (Z.leb_spec (col + 1) (Z.of_nat j + 1)), (Z.leb_spec col (Z.of_nat j + 1)); try lia; try reflexivity.
      * replace (Z.to_nat (Z.of_nat j + 1 - col)) with (S (Z.to_nat (Z.of_nat j + 1 - (col + 1)))) by lia. reflexivity.
      * assert (col = Z.of_nat j + 1) by lia. subst. rewrite Z.sub_diag. reflexivity.
Qed.

(* ---------- invariant of the stream state ---------- *)
(* every accepted call is matched by the row it emitted *)
Definition emitted (cs : list (Z * Z * Z)) (e : log_entry) (r : row) : Prop :=
  let '(col, row, rs, vals) := e in
  1 <= col /\ exists l, emit_cells cs col row rs vals = Some l /\ r = mkRow row l rs None false.

Definition SInv (st : sw) : Prop :=
  Forall2 (emitted (sw_cols st)) (sw_log st) (sw_out st) /\
  gincr r_r 0 (sw_out st) /\
  (forall x, In x (sw_out st) -> r_r x <= sw_last st) /\ 0 <= sw_last st /\
  (sw_written st = false -> sw_out st = []) /\
  sw_merges st = [] /\
  sw_cols st = fold_left (fun cs p => cols_set (fst p) (snd p) cs) (sw_collog st) [] /\
  Forall (fun p => 1 <= fst p) (sw_collog st).

Lemma gincr_snoc {A} (key : A -> Z) l : forall b x, gincr key b l -> (forall y, In y l -> key y < key x) -> b < key x -> gincr key b (l ++ [x]).
Proof.
  induction l as [|y l IH]; intros b x H Hlt Hb; cbn [app gincr]; [split; [assumption|exact I]|].
  cbn [gincr] in H. destruct H as [H1 H2]. split; [assumption|].
  apply IH; [assumption| |apply Hlt; now left]. intros z Hz. apply Hlt. now right.
Qed.

Lemma SInv_init : SInv sw_init.
Proof.
  unfold SInv, sw_init. cbn.
  refine (conj (Forall2_nil _) (conj I (conj _ (conj (Z.le_refl 0) (conj (fun _ => eq_refl) (conj eq_refl (conj eq_refl (Forall_nil _)))))))).
  intros x [].
Qed.

Lemma SInv_step st o : SInv st -> SInv (sstep st o).
Proof.
  intros HS. destruct o as [col row rs ok vals|col s ok]; cbn [sstep].
  - unfold set_row.
    destruct ((col <? 1) || (MaxColumns <? col) || (row <? 1) || (TotalRows <? row)) eqn:Eb; [exact HS|].
    destruct (Z.leb_spec row (sw_last st)); [exact HS|].
    destruct ok; cbn [negb]; [|exact HS].
    destruct (emit_cells (sw_cols st) col row rs vals) as [l|] eqn:E; [|exact HS].
    destruct HS as (HF & Hinc & Hlast & Hpos & Hw & Hm & Hcols & Hcl).
    cbn [snd]. unfold SInv. cbn [sw_log sw_out sw_cols sw_last sw_written sw_merges sw_collog].
    assert (Hcol : 1 <= col) by lia.
    refine (conj _ (conj _ (conj _ (conj _ (conj _ (conj Hm (conj Hcols Hcl))))))).
    + apply Forall2_app; [assumption|]. constructor; [|constructor]. cbn. split; [assumption|]. exists l. auto.
    + apply gincr_snoc; [assumption| |cbn; lia]. intros y Hy. specialize (Hlast y Hy). cbn. lia.
    + intros x Hx. apply in_app_or in Hx. destruct Hx as [Hx|[<-|[]]]; [specialize (Hlast x Hx); lia|cbn; lia].
    + lia.
    + discriminate.
  - unfold set_col_style. destruct (sw_written st) eqn:Ew; [exact HS|].
    destruct ((col <? 1) || (MaxColumns <? col)) eqn:Eb; [exact HS|].
    destruct ok; cbn [negb]; [|exact HS].
    destruct HS as (HF & Hinc & Hlast & Hpos & Hw & Hm & Hcols & Hcl).
    cbn [snd]. unfold SInv. cbn [sw_log sw_out sw_cols sw_last sw_written sw_merges sw_collog].
    rewrite (Hw Ew) in *. inversion HF as [E1|]; subst.
    refine (conj _ (conj _ (conj _ (conj Hpos (conj (fun _ => eq_refl) (conj Hm (conj _ _))))))).
    + constructor.
    + exact I.
    + intros x [].
    + rewrite fold_left_app. cbn. now rewrite <- Hcols.
    + apply Forall_app. split; [assumption|]. constructor; [cbn; lia|constructor].
Qed.

Lemma SInv_run ops : SInv (srun ops).
Proof.
  unfold srun. assert (G : forall st, SInv st -> SInv (fold_left sstep ops st)).
  { induction ops as [|o ops IH]; intros st H; cbn [fold_left]; [assumption|]. apply IH. now apply SInv_step. }
  apply G, SInv_init.
Qed.

(* the accepted column calls replayed in memory on the empty workbook give the same <cols> *)
Lemma colops_run l : forall sh, rows sh = [] -> merges sh = [] ->
  run (map (fun p => OColStyle (fst p) (snd p)) l) sh =
  mkSheet [] (fold_left (fun cs p => cols_set (fst p) (snd p) cs) l (cols sh)) [].
Proof.
  induction l as [|p l IH]; intros sh Hr Hm; cbn [map run fold_left].
  - destruct sh as [rs cs ms]; cbn in *; subst; reflexivity.
  - fold (run (map (fun p => OColStyle (fst p) (snd p)) l) (step sh (OColStyle (fst p) (snd p)))).
    assert (E : step sh (OColStyle (fst p) (snd p)) = mkSheet [] (cols_set (fst p) (snd p) (cols sh)) []).
    { cbn [step]. unfold Sheet.Model.set_col_style. rewrite Hr, Hm. reflexivity. }
    rewrite E. now rewrite IH.
Qed.

(* rows not in the log are not touched by its in-memory calls *)
Lemma fold_at_rows_other log : forall c r w, Forall (fun e : log_entry => let '(_, row, _, _) := e in row <> r) log ->
  fold_at (flat_map mem_row log) c r w = w.
Proof.
  induction log as [|[[[col row] rs] vals] log IH]; intros c r w H; cbn [flat_map]; [reflexivity|].
  inversion H; subst. rewrite fold_at_app, fold_at_mem_row. destruct (Z.eqb_spec r row); [congruence|]. now apply IH.
Qed.

Lemma later_rows cs : forall log out b, Forall2 (emitted cs) log out -> gincr r_r b out ->
  Forall (fun e : log_entry => let '(_, row, _, _) := e in b < row) log.
Proof.
  induction log as [|[[[col row] rs] vals] log IH]; intros out b HF Hinc; [constructor|].
  inversion HF as [|? y ? out' He HF']; subst. cbn [gincr] in Hinc. destruct Hinc as [H1 H2].
  destruct He as (_ & l & _ & ->). cbn [r_r] in *. constructor; [assumption|].
  eapply Forall_impl; [|apply (IH out' row HF' H2)]. intros [[[? ?] ?] ?] Hx. lia.
Qed.

(* main lemma: streamed rows and the in-memory replay agree at every position, up to the value kind *)
Lemma rows_agree cs : forall log out b, Forall2 (emitted cs) log out -> gincr r_r b out -> 0 <= b ->
  forall c r, 1 <= c -> 1 <= r ->
  kview (match glookup r_r out (Z.to_nat (r - 1)) with
         | Some x => row_view cs x c
         | None => (empty_content, col_style cs c)
         end) =
  kview (fold_at (flat_map mem_row log) c r (empty_content, col_style cs c)).
Proof.
  induction log as [|[[[col row] rs] vals] log IH]; intros out b HF Hinc Hb c r Hc Hr; inversion HF as [|? y ? out' He HF']; subst.
  - reflexivity.
  - cbn [flat_map glookup gincr] in *. destruct Hinc as [Hby Hinc'].
    destruct He as (Hcol & l & El & ->). cbn [r_r] in *.
    rewrite fold_at_app, fold_at_mem_row.
    destruct (Z.eqb_spec row (Z.of_nat (Z.to_nat (r - 1)) + 1)) as [E|N].
    + assert (r = row) by lia. subst r. rewrite Z.eqb_refl.
      (* later rows do not touch this one *)
      rewrite fold_at_rows_other.
      2:{ eapply Forall_impl; [|apply (later_rows cs log out' row HF' Hinc')]. intros [[[? ?] ?] ?] Hx. lia. }
      destruct (emit_cells_spec cs row rs vals col l Hcol El) as [G1 G2].
      unfold row_view. cbn [r_cells r_s]. rewrite G2. cbn [fst snd].
      replace (Z.of_nat (Z.to_nat (c - 1)) + 1) with c by lia.
      destruct (if col <=? c then nth_error vals (Z.to_nat (c - col)) else None) as [[x|]|].
      * unfold cell_apply, emit_cell, kview, kind, pcs, base_style, empty_content. cbn [obs_of c_t c_v c_f c_s content_of style_of fst snd].
        destruct (sv_has x), (is_nil (sv_f x)); cbn [fst snd];
          destruct (Z.ltb_spec 0 (sv_style x)); cbn [negb];
          repeat match goal with |- context [negb (?a =? 0)] => destruct (Z.eqb_spec a 0); cbn [negb] end;
          try reflexivity; try lia.
      * unfold kview, kind, pcs, empty_content. cbn [obs_of empty_obs content_of style_of fst snd Z.eqb negb].
        destruct (Z.eqb_spec rs 0); cbn [negb]; reflexivity.
      * unfold kview, kind, pcs, empty_content. cbn [obs_of empty_obs content_of style_of fst snd Z.eqb negb].
        destruct (Z.eqb_spec rs 0); cbn [negb]; reflexivity.
    + destruct (Z.eqb_spec r row); [lia|]. apply (IH out' row HF' Hinc' ltac:(lia) c r Hc Hr).
Qed.

(* ---------- assembling: the whole stream against the whole in-memory replay ---------- *)
Lemma mem_cells_ok vals : forall col row, 1 <= col -> 1 <= row ->
  Forall op_ok (mem_cells col row vals) /\ Forall op_simple (mem_cells col row vals).
Proof.
  induction vals as [|[x|] vals IH]; intros col row Hc Hr; cbn [mem_cells].
  - split; constructor.
  - destruct (IH (col + 1) row ltac:(lia) Hr) as [G1 G2]. unfold mem_cell.
    split; repeat (apply Forall_app; split); try assumption;
      destruct (sv_has x), (is_nil (sv_f x)), (Z.ltb_spec 0 (sv_style x)); repeat constructor; cbn; lia.
  - apply IH; lia.
Qed.

Lemma mem_rows_ok cs : forall log out b, Forall2 (emitted cs) log out -> gincr r_r b out -> 0 <= b ->
  Forall op_ok (flat_map mem_row log) /\ Forall op_simple (flat_map mem_row log).
Proof.
  induction log as [|[[[col row] rs] vals] log IH]; intros out b HF Hinc Hb; cbn [flat_map]; [split; constructor|].
  inversion HF as [|? y ? out' He HF']; subst. cbn [gincr] in Hinc. destruct Hinc as [H1 H2].
  destruct He as (Hcol & l & _ & ->). cbn [r_r] in *.
  destruct (IH out' row HF' H2 ltac:(lia)) as [G1 G2].
  destruct (mem_cells_ok vals col row Hcol ltac:(lia)) as [G3 G4]. unfold mem_row.
  split; repeat (apply Forall_app; split); try assumption; destruct (Z.eqb_spec rs 0); repeat constructor; cbn; lia.
Qed.

Lemma run_app a b sh : run (a ++ b) sh = run b (run a sh).
Proof. unfold run. now rewrite fold_left_app. Qed.

Lemma W_save sh c r : Inv sh -> 1 <= c -> 1 <= r -> W (save sh) c r = W sh c r.
Proof.
  intros HI Hc Hr. destruct (save_spec sh HI) as (_ & Habs & Hrs & _ & _ & Hcs).
  unfold W. rewrite !prepare_cell_style_pcs, Habs, Hrs, Hcs by assumption. reflexivity.
Qed.

Lemma W_blank cs c r : W (mkSheet [] cs []) c r = (empty_content, col_style cs c).
Proof. unfold W, abs, prepare_cell_style, row_style. cbn [rows cols]. rewrite !nth_error_nil. reflexivity. Qed.

Theorem stream_equiv : forall sops c r, 1 <= c -> 1 <= r ->
  let st := srun sops in
  let m := run (mem_of st) empty_sheet in
  kview (W (flush st) c r) = kview (W m c r) /\
  kview (W (flush st) c r) = kview (W (save m) c r) /\
  cols (flush st) = cols m /\ cols (flush st) = cols (save m).
Proof.
  intros sops c r Hc Hr st m.
  destruct (SInv_run sops) as (HF & Hinc & Hlast & Hpos & Hw & Hm & Hcols & Hcl). fold st in HF, Hinc, Hlast, Hpos, Hw, Hm, Hcols, Hcl.
  assert (Hcells : forall x, In x (sw_out st) -> gincr c_col 0 (r_cells x)).
  { clear - HF. induction HF as [|e y log out He HF' IH]; intros x Hx; [destruct Hx|].
    destruct Hx as [<-|Hx]; [|now apply IH]. destruct e as [[[col row] rs] vals]. destruct He as (Hcol & l & El & ->).
    cbn [r_cells]. destruct (emit_cells_spec _ _ _ _ _ _ Hcol El) as [G _]. apply (gincr_weaken c_col l (col - 1)); [lia|assumption]. }
  rewrite (W_flush st c r Hc Hr Hinc Hcells).
  (* the in-memory replay *)
  set (sh0 := mkSheet [] (sw_cols st) []).
  assert (Em : m = run (flat_map mem_row (sw_log st)) sh0).
  { unfold m, mem_of. rewrite run_app, (colops_run _ empty_sheet eq_refl eq_refl). cbn [cols empty_sheet]. now rewrite <- Hcols. }
  assert (HW0 : WF sh0) by (split; [intros i x Hi; destruct i; discriminate|constructor]).
  destruct (mem_rows_ok _ _ _ 0 HF Hinc ltac:(lia)) as [Hok Hsimple].
  destruct (W_run _ sh0 HW0 eq_refl Hok Hsimple) as (G1 & G2 & G3 & G4).
  rewrite <- Em in G1, G2, G3, G4.
  assert (E1 : kview (match glookup r_r (sw_out st) (Z.to_nat (r - 1)) with
                      | Some x => row_view (sw_cols st) x c
                      | None => (empty_content, col_style (sw_cols st) c) end) = kview (W m c r)).
  { rewrite (G1 c r Hc Hr). unfold sh0. rewrite W_blank. apply (rows_agree _ _ _ 0 HF Hinc ltac:(lia) c r Hc Hr). }
  split; [exact E1|]. split; [|split].
  - rewrite (W_save m c r (proj1 G4) Hc Hr). exact E1.
  - cbn [flush cols]. now rewrite G2.
  - destruct (save_spec m (proj1 G4)) as (_ & _ & _ & _ & _ & Hcs). rewrite Hcs. cbn [flush cols]. now rewrite G2.
Qed.

(* a rejected row leaves the stream exactly as it was; an accepted one only appends *)
Theorem set_row_reject st col row rs ok vals : fst (set_row st col row rs ok vals) = false -> snd (set_row st col row rs ok vals) = st.
Proof.
  unfold set_row. destruct (_ || _); [reflexivity|]. destruct (row <=? sw_last st); [reflexivity|].
  destruct (negb ok); [reflexivity|]. destruct (emit_cells _ _ _ _ _); [discriminate|reflexivity].
Qed.

Theorem set_row_accept st col row rs ok vals : fst (set_row st col row rs ok vals) = true ->
  exists r, sw_out (snd (set_row st col row rs ok vals)) = sw_out st ++ [r] /\ r_r r = row /\ sw_last st < row /\
            sw_cols (snd (set_row st col row rs ok vals)) = sw_cols st.
Proof.
  unfold set_row. destruct (_ || _); [discriminate|]. destruct (Z.leb_spec row (sw_last st)); [discriminate|].
  destruct (negb ok); [discriminate|]. destruct (emit_cells _ _ _ _ _) as [l|]; [|discriminate].
  intros _. eexists. cbn. repeat split. assumption.
Qed.

(* rows already written are never changed by later calls, accepted or not *)
Theorem out_prefix st o : exists more, sw_out (sstep st o) = sw_out st ++ more.
Proof.
  destruct o as [col row rs ok vals|col s ok]; cbn [sstep].
  - destruct (fst (set_row st col row rs ok vals)) eqn:E.
    + destruct (set_row_accept _ _ _ _ _ _ E) as (r & -> & _). eauto.
    + rewrite (set_row_reject _ _ _ _ _ _ E). exists []. now rewrite app_nil_r.
  - unfold set_col_style. destruct (sw_written st); [cbn; exists []; now rewrite app_nil_r|].
    destruct ((col <? 1) || (MaxColumns <? col)); [cbn; exists []; now rewrite app_nil_r|].
    destruct (negb ok); cbn; exists []; now rewrite app_nil_r.
Qed.

(* ---------- the buffered writer: contents do not depend on the spill threshold ---------- *)
Lemma bw_contents_write b p : bw_contents (bw_write b p) = bw_contents b ++ p.
Proof. unfold bw_contents, bw_write. cbn. destruct (bw_tmp b); [now rewrite app_assoc|reflexivity]. Qed.
Lemma bw_contents_flush b : bw_contents (bw_flush b) = bw_contents b.
Proof. unfold bw_contents, bw_flush. destruct (bw_tmp b) eqn:E; cbn; [now rewrite app_nil_r|now rewrite E]. Qed.
Lemma bw_contents_sync chunk cc b : bw_contents (bw_sync chunk cc b) = bw_contents b.
Proof.
  unfold bw_sync. destruct (_ <? _); [reflexivity|]. destruct (bw_tmp b) eqn:E.
  - apply bw_contents_flush.
  - destruct cc; [|reflexivity]. rewrite bw_contents_flush. unfold bw_contents. cbn. now rewrite E.
Qed.
Theorem bw_spill_independent chunk ops : forall b,
  bw_contents (fold_left (bw_step chunk) ops b) = bw_contents b ++ writes_of ops.
Proof.
  induction ops as [|[p|cc] ops IH]; intros b; cbn [fold_left writes_of bw_step].
  - now rewrite app_nil_r.
  - now rewrite IH, bw_contents_write, app_assoc.
  - now rewrite IH, bw_contents_sync.
Qed.
(* and the in-memory buffer never holds a full chunk after a sync that could create its file *)
Lemma bw_sync_bound chunk b : 0 < chunk -> Z.of_nat (length (bw_buf (bw_sync chunk true b))) < chunk.
Proof.
  intros Hc. unfold bw_sync. destruct (Z.ltb_spec (Z.of_nat (length (bw_buf b))) chunk); [assumption|].
  unfold bw_flush. destruct (bw_tmp b); cbn; lia.
Qed.
