(* C11, the shape of what the writer emits (the part C05 relies on for streamed sheets): over every history of
   stream calls - accepted or rejected - the emitted rows are strictly ascending, inside the grid and not beyond
   the last accepted row; inside each row the cells are strictly ascending by column, start at column >= 1 and
   carry the row's number; and with a positive spill threshold the in-memory buffer is below it after every sync
   that could create its temp file. *)
From VF Require Import Base.Prelude Generated.Consts Sheet.Model Sheet.Proofs Sheet.View C11.Model C11.Proofs.
From Coq Require Import ZifyBool ZifyNat.

Lemma gincr_all {A} (key : A -> Z) l : forall b, gincr key b l -> forall x, In x l -> b < key x.
Proof.
  induction l as [|y l IH]; intros b H x Hx; [destruct Hx|]. cbn [gincr] in H. destruct H as [H1 H2].
  destruct Hx as [<-|Hx]; [assumption|]. specialize (IH _ H2 x Hx). lia.
Qed.

Lemma emitted_in cs : forall log out, Forall2 (emitted cs) log out -> forall r, In r out ->
  exists col row rs vals l, 1 <= col /\ emit_cells cs col row rs vals = Some l /\ r = mkRow row l rs None false.
Proof.
  induction 1 as [|e r0 log out He _ IH]; intros r Hr; [destruct Hr|].
  destruct Hr as [<-|Hr]; [|now apply IH].
  destruct e as [[[col row] rs] vals]. cbn in He. destruct He as (Hc & l & El & ->). now exists col, row, rs, vals, l.
Qed.

Lemma emit_cells_rows cs row rs vals : forall col l, emit_cells cs col row rs vals = Some l ->
  forall c, In c l -> c_row c = row /\ c_col c <= MaxColumns.
Proof.
  induction vals as [|[x|] vals IH]; intros col l H c Hc; cbn [emit_cells] in H.
  - inversion H; subst. destruct Hc.
  - destruct (Z.ltb_spec MaxColumns col); cbn [orb] in H; [discriminate|]. destruct (sv_bad x); [discriminate|].
    destruct (emit_cells cs (col + 1) row rs vals) as [l1|] eqn:E; [|discriminate]. inversion H; subst.
    destruct Hc as [<-|Hc]; [cbn; split; [reflexivity|assumption]|]. eapply IH; eauto.
  - eapply IH; eauto.
Qed.

Theorem stream_output_ordered ops :
  let st := srun ops in
  gincr r_r 0 (sw_out st) /\
  forall r, In r (sw_out st) ->
    1 <= r_r r <= sw_last st /\
    gincr c_col 0 (r_cells r) /\
    forall c, In c (r_cells r) -> c_row c = r_r r /\ 1 <= c_col c <= MaxColumns.
Proof.
  cbv zeta. destruct (SInv_run ops) as (HF & HG & HL & _). split; [exact HG|].
  intros r Hr. pose proof (gincr_all _ _ _ HG r Hr) as Hpos. split; [split; [lia|now apply HL]|].
  destruct (emitted_in _ _ _ HF r Hr) as (col & row & rs & vals & l & Hc & El & ->). cbn [r_cells r_r].
  destruct (emit_cells_spec _ _ _ _ _ _ Hc El) as [Hinc _].
  assert (Hinc0 : gincr c_col 0 l).
  { destruct l as [|c0 l]; [exact I|]. cbn [gincr] in *. destruct Hinc as [H1 H2]. split; [lia|assumption]. }
  split; [exact Hinc0|]. intros c Hin. destruct (emit_cells_rows _ _ _ _ _ _ El c Hin) as [R1 R2].
  pose proof (gincr_all _ _ _ Hinc0 c Hin). split; [assumption|lia].
Qed.

(* the last accepted row is inside the grid *)
Lemma last_bound_step st o : sw_last st <= TotalRows -> sw_last (sstep st o) <= TotalRows.
Proof.
  intros H. destruct o as [col row rs ok vals|col s ok]; cbn [sstep].
  - unfold set_row. destruct (Z.ltb_spec col 1); cbn [orb snd]; [assumption|].
    destruct (Z.ltb_spec MaxColumns col); cbn [orb snd]; [assumption|].
    destruct (Z.ltb_spec row 1); cbn [orb snd]; [assumption|].
    destruct (Z.ltb_spec TotalRows row); cbn [orb snd]; [assumption|].
    destruct (row <=? sw_last st); cbn [snd]; [assumption|]. destruct (negb ok); cbn [snd]; [assumption|].
    destruct (emit_cells _ _ _ _ _); cbn [snd sw_last]; assumption.
  - unfold set_col_style. destruct (sw_written st); cbn [snd]; [assumption|].
    destruct (_ || _); cbn [snd]; [assumption|]. destruct (negb ok); cbn [snd sw_last]; assumption.
Qed.

Lemma last_bound_run ops : forall st, sw_last st <= TotalRows -> sw_last (fold_left sstep ops st) <= TotalRows.
Proof. induction ops as [|o ops IH]; intros st Hs; cbn [fold_left]; [assumption|]. apply IH. now apply last_bound_step. Qed.

Theorem stream_rows_in_grid ops : forall r, In r (sw_out (srun ops)) -> 1 <= r_r r <= TotalRows.
Proof.
  intros r Hr. destruct (stream_output_ordered ops) as [_ H]. destruct (H r Hr) as [[H1 H2] _]. split; [assumption|].
  etransitivity; [exact H2|]. unfold srun. apply last_bound_run. cbn. unfold TotalRows. lia.
Qed.
