(* C11: StreamWriter (stream.go) over the sheet core.
   SetRow (with the row rolled back when rejected), SetColStyle (single column), Flush; reopening the streamed
   sheet (excelize.go:checkSheet placement of sparse rows + rows.go:checkRow densification); the buffered
   writer with its spill threshold.  The in-memory equivalent of an accepted stream is [mem_of]. *)
From VF Require Import Base.Prelude Generated.Consts Sheet.Model.

(* one element of the values slice given to SetRow; None is a nil element (skipped) *)
Record sval := mkSval {
  sv_style : Z;      (* Cell.StyleID, 0 for a bare value *)
  sv_f : bytes;      (* Cell.Formula, [] for none *)
  sv_has : bool;     (* a non-nil value is present *)
  sv_t : Z;          (* type tag the value setter stores *)
  sv_v : bytes;      (* value text the value setter stores *)
  sv_bad : bool }.   (* the value setter rejects it (e.g. rich text beyond the cell limit) *)

Definition log_entry := (Z * Z * Z * list (option sval))%type.   (* start column, row, RowOpts.StyleID, values *)

Record sw := mkSw {
  sw_last : Z;                     (* sw.rows: last row accepted *)
  sw_written : bool;               (* sheetWritten: <sheetData> has been opened *)
  sw_cols : list (Z * Z * Z);      (* worksheet <cols> *)
  sw_out : list row;               (* rows written to the buffer, in order; cells sparse *)
  sw_merges : list rect;
  sw_collog : list (Z * Z);        (* accepted SetColStyle calls *)
  sw_log : list log_entry }.       (* accepted SetRow calls *)

Definition sw_init : sw := mkSw 0 false [] [] [] [] [].

Definition base_style (cs : list (Z * Z * Z)) (rs col : Z) : Z :=
  if negb (rs =? 0) then rs else col_style cs col.

(* stream.go:SetRow loop body: prepareCellStyle against the (empty) worksheet, Cell.StyleID override,
   setCellFormula then setCellValFunc *)
Definition emit_cell (cs : list (Z * Z * Z)) (col row rs : Z) (x : sval) : cell :=
  let s := if 0 <? sv_style x then sv_style x else base_style cs rs col in
  let f := if is_nil (sv_f x) then None else Some (sv_f x) in
  let t := if sv_has x then sv_t x else if is_nil (sv_f x) then 0 else 3 in
  mkCell col row s t (if sv_has x then sv_v x else []) f.

Fixpoint emit_cells (cs : list (Z * Z * Z)) (col row rs : Z) (vals : list (option sval)) : option (list cell) :=
  match vals with
  | [] => Some []
  | None :: rest => emit_cells cs (col + 1) row rs rest
  | Some x :: rest =>
    if (MaxColumns <? col) || sv_bad x then None
    else match emit_cells cs (col + 1) row rs rest with
         | Some l => Some (emit_cell cs col row rs x :: l)
         | None => None
         end
  end.

(* SetRow: (accepted?, new state).  A rejected call returns the state it was given. *)
Definition set_row (st : sw) (col row rs : Z) (opts_ok : bool) (vals : list (option sval)) : bool * sw :=
  if (col <? 1) || (MaxColumns <? col) || (row <? 1) || (TotalRows <? row) then (false, st)
  else if row <=? sw_last st then (false, st)
  else if negb opts_ok then (false, st)
  else match emit_cells (sw_cols st) col row rs vals with
       | None => (false, st)
       | Some cs =>
         (true, mkSw row true (sw_cols st) (sw_out st ++ [mkRow row cs rs None false]) (sw_merges st)
                     (sw_collog st) (sw_log st ++ [(col, row, rs, vals)]))
       end.

(* col.go:setColStyle for one column, shared with the in-memory SetColStyle *)
Definition cols_set (col s : Z) (cs : list (Z * Z * Z)) : list (Z * Z * Z) :=
  (col, col, s) :: filter (fun e => let '(mn, mx, _) := e in negb ((mn =? col) && (mx =? col))) cs.

Definition set_col_style (st : sw) (col s : Z) (style_ok : bool) : bool * sw :=
  if sw_written st then (false, st)
  else if (col <? 1) || (MaxColumns <? col) then (false, st)
  else if negb style_ok then (false, st)
  else (true, mkSw (sw_last st) false (cols_set col s (sw_cols st)) (sw_out st) (sw_merges st)
                   (sw_collog st ++ [(col, s)]) (sw_log st)).

Inductive sop :=
| SRow (col row rs : Z) (opts_ok : bool) (vals : list (option sval))
| SColStyle (col s : Z) (style_ok : bool).

Definition sstep (st : sw) (o : sop) : sw :=
  match o with
  | SRow col row rs ok vals => snd (set_row st col row rs ok vals)
  | SColStyle col s ok => snd (set_col_style st col s ok)
  end.
Definition srun (ops : list sop) : sw := fold_left sstep ops sw_init.

(* ---- reopening the streamed sheet ---- *)
Fixpoint place_rows (src : list row) (T : list row) : list row :=
  match src with
  | [] => T
  | r :: rest => place_rows rest (upd T (Z.to_nat (r_r r - 1)) (fun _ => r))
  end.
Definition max_row (rs : list row) : Z := fold_left Z.max (map r_r rs) 0.
Definition load (rs : list row) : list row :=
  densify_rows 1 (place_rows rs (new_rows (Z.to_nat (max_row rs)) 1)).
Definition flush (st : sw) : sheet := mkSheet (load (sw_out st)) (sw_cols st) (sw_merges st).

(* ---- the equivalent in-memory calls ---- *)
Definition mem_cell (col row : Z) (x : sval) : list op :=
  (if sv_has x then [OSet col row (sv_t x) (sv_v x)] else []) ++
  (if is_nil (sv_f x) then [] else [OFormula col row (sv_f x)]) ++
  (if 0 <? sv_style x then [OStyle col row (sv_style x)] else []).
Fixpoint mem_cells (col row : Z) (vals : list (option sval)) : list op :=
  match vals with
  | [] => []
  | None :: rest => mem_cells (col + 1) row rest
  | Some x :: rest => mem_cell col row x ++ mem_cells (col + 1) row rest
  end.
Definition mem_row (e : log_entry) : list op :=
  let '(col, row, rs, vals) := e in
  (if rs =? 0 then [] else [ORowStyle row rs]) ++ mem_cells col row vals.
Definition mem_of (st : sw) : list op :=
  map (fun p => OColStyle (fst p) (snd p)) (sw_collog st) ++ flat_map mem_row (sw_log st).

(* value kinds the property compares: number, boolean, text, formula (formula wins) *)
Definition kind (t : Z) (f : option bytes) : Z :=
  match f with
  | Some _ => 9
  | None => if (t =? 2) || (t =? 3) || (t =? 4) then 2 else if t =? 7 then 0 else t
  end.
(* the cached value of a formula cell is not part of the compared projection *)
Definition kview (w : (Z * bytes * option bytes) * Z) : Z * bytes * option bytes * Z :=
  let '((t, v, f), s) := w in (kind t f, match f with Some _ => [] | None => v end, f, s).

(* ---- stream.go:bufferedWriter ---- *)
Record bw := mkBw { bw_buf : bytes; bw_tmp : option bytes }.
Definition bw_write (b : bw) (p : bytes) : bw := mkBw (bw_buf b ++ p) (bw_tmp b).
Definition bw_flush (b : bw) : bw :=
  match bw_tmp b with Some t => mkBw [] (Some (t ++ bw_buf b)) | None => b end.
(* Sync: spill when the in-memory buffer reached the threshold; [can_create] = CreateTemp succeeded *)
Definition bw_sync (chunk : Z) (can_create : bool) (b : bw) : bw :=
  if Z.of_nat (length (bw_buf b)) <? chunk then b
  else match bw_tmp b with
       | Some _ => bw_flush b
       | None => if can_create then bw_flush (mkBw (bw_buf b) (Some [])) else b
       end.
Definition bw_contents (b : bw) : bytes :=
  match bw_tmp b with Some t => t ++ bw_buf b | None => bw_buf b end.
Inductive bwop := BWrite (p : bytes) | BSync (can_create : bool).
Definition bw_step (chunk : Z) (b : bw) (o : bwop) : bw :=
  match o with BWrite p => bw_write b p | BSync cc => bw_sync chunk cc b end.
Fixpoint writes_of (ops : list bwop) : bytes :=
  match ops with [] => [] | BWrite p :: rest => p ++ writes_of rest | BSync _ :: rest => writes_of rest end.
