(* Single extraction unit -> ocaml/model_gen.ml. Directives used: those of ExtrOcamlBasic only
   (bool, option, unit, list, prod, sumbool -> OCaml natives). N/Z/positive stay extracted datatypes. *)
From Coq Require Extraction ExtrOcamlBasic ExtrOCamlFloats ExtrOCamlInt63.
From VF Require Import Base.Prelude Generated.Consts C20.Model C20.Range C19.Model Sheet.Model Sheet.Adjust C16.Model C17.Model C07.Model C08.Machine C08.Model C13.Model C13.Chains Sheet.View C11.Model C12.Model C10.Model C18.Model C14.Model C03.Merge.
Extraction Language OCaml.
Extraction "model_gen.ml"
  Z.add Z.mul Z.sub Z.div Z.modulo Z.opp Z.ltb Z.eqb Z.of_nat Z.to_nat Pos.succ
  col_name_to_number col_number_to_name split_cell_name join_cell_name
  cell_name_to_coords coords_to_cell_name range_ref_to_coords coords_to_range_ref sort_coords
  encode_float encode_exact decode_float is_num days_of_civil civil_of_days excel_serial_spec decode_exact_ns
  Sheet.Model.run Sheet.Model.observe Sheet.Model.get_rows Sheet.Model.get_cols Sheet.Model.empty_sheet Sheet.Model.abs Sheet.Model.get_cell_style Sheet.Model.xml_rows Sheet.Model.has_value
  C16.Model.wrun C16.Model.init_wb C16.Model.active_index C16.Model.consistent C16.Model.scope_name
  C17.Model.run_styles C17.Model.init_reg
  Sheet.Adjust.erun
  C07.Model.adjust_operand
  C08.Model.eval_impl C08.Model.agg_sum C08.Model.agg_count C08.Model.agg_counta C08.Model.agg_product C08.Model.agg_min C08.Model.agg_max C08.Machine.prio
  C13.Model.locate C13.Model.encrypt_pkg C13.Model.decrypt_pkg
  C13.Chains.fat_table C13.Chains.minifat_table C13.Chains.msat_header C13.Chains.msat_sector C13.Chains.walk
  Sheet.View.W C11.Model.srun C11.Model.sstep C11.Model.set_row C11.Model.set_col_style C11.Model.sw_init C11.Model.flush C11.Model.kview C11.Model.mem_of
  C11.Model.bw_step C11.Model.bw_contents
  C12.Model.open_with C12.Model.fstep C12.Model.close
  C10.Model.render
  C18.Model.dstep C18.Model.daccept
  C14.Model.check_sheet C14.Model.lookup_guard C14.Model.check_row
  C03.Merge.merge_step C03.Merge.norm.
