From VF Require Import Base.Prelude Base.PreludeFacts Generated.Consts C20.Model C20.Proofs C07.Model.
From Coq Require Import ZifyBool.

Section Edit.
Variables (is_rows : bool) (num offset : Z).
Notation run := (mrun is_rows num offset).
Notation step := (mstep is_rows num offset).

Lemma mrun_app a : forall b st, run (a ++ b) st = bind (run a st) (run b).
Proof.
  induction a as [|x a IH]; intros b st; cbn [app mrun]; [reflexivity|].
  destruct (step st x) as [s| |]; cbn [bind]; [apply IH|reflexivity|reflexivity].
Qed.

Lemma run_letters name : forall st, forallb is_letter name = true ->
  run name st = Ok (mkM (m_col st ++ name) (m_row st) (m_out st)).
Proof.
  induction name as [|x name IH]; intros st H; cbn [mrun].
  - rewrite app_nil_r. now destruct st.
  - cbn [forallb] in H. apply andb_prop in H. destruct H as [Hx Hn].
    unfold mstep. assert (E36 : (x =? 36) = false) by (unfold is_letter, is_upper, is_lower in Hx; lia).
    rewrite E36, Hx. cbn [bind]. rewrite IH by assumption. cbn. now rewrite <- app_assoc.
Qed.

Lemma run_digits ds : forall st, m_col st = [] -> forallb is_digit ds = true ->
  run ds st = Ok (mkM [] (m_row st ++ ds) (m_out st)).
Proof.
  induction ds as [|x ds IH]; intros st Hc H; cbn [mrun].
  - rewrite app_nil_r. destruct st; cbn in *; now subst.
  - cbn [forallb] in H. apply andb_prop in H. destruct H as [Hx Hn].
    unfold mstep. assert (E36 : (x =? 36) = false) by (unfold is_digit in Hx; lia).
    assert (El : is_letter x = false) by (unfold is_letter, is_upper, is_lower, is_digit in *; lia).
    rewrite E36, El, Hx. unfold flush_col. cbn [m_col]. rewrite Hc. cbn [bind].
    rewrite IH by (cbn; auto). cbn. now rewrite <- app_assoc.
Qed.

(* what the pending column letters become *)
Definition col_out (c : Z) : Z := if negb is_rows && (c >=? num) then (if c + offset <? 1 then 1 else c + offset) else c.
Definition row_out (r : Z) : Z := if is_rows && (r >=? num) then (if r + offset <? 1 then 1 else r + offset) else r.

Lemma flush_col_name st name c name' :
  m_col st = name -> name <> [] -> col_name_to_number name = Ok c ->
  col_number_to_name c = Ok name -> col_number_to_name (col_out c) = Ok name' ->
  flush_col is_rows num offset st = Ok (mkM [] (m_row st) (m_out st ++ name')).
Proof.
  intros Hc Hne Hn Hback Hn'. unfold flush_col. rewrite Hc. destruct name as [|x nm]; [contradiction|].
  rewrite Hn. unfold col_out in Hn'. destruct (negb is_rows && (c >=? num)).
  - now rewrite Hn'.
  - rewrite Hback in Hn'. now inversion Hn'.
Qed.

Lemma flush_col_empty st : m_col st = [] -> flush_col is_rows num offset st = Ok st.
Proof. intros H. unfold flush_col. now rewrite H. Qed.

(* the machine on one printed cell reference, from a state with nothing pending: the row digits stay pending *)
Lemma run_ref r name name' out :
  1 <= r_colz r <= MaxColumns -> 0 <= r_rowz r ->
  col_number_to_name (r_colz r) = Ok name -> col_number_to_name (col_out (r_colz r)) = Ok name' ->
  run (print_ref r) (mkM [] [] out) =
  Ok (mkM [] (itoa (r_rowz r)) (out ++ dollar (r_absc r) ++ name' ++ dollar (r_absr r))).
Proof.
  intros Hc Hr Hn Hn'. unfold print_ref. rewrite Hn.
  destruct (col_roundtrip (r_colz r) Hc) as (nm & Hnm & Hback & Hne & Hup). rewrite Hn in Hnm. inversion Hnm; subst nm.
  pose proof (upper_is_letter _ Hup) as Hlet.
  assert (Hdig : forallb is_digit (itoa (r_rowz r)) = true) by (apply n2c_nonneg_digits; lia).
  destruct (itoa_hd_digit (r_rowz r) Hr) as (d & ds & Hit & Hd).
  (* leading $ *)
  rewrite mrun_app.
  assert (E1 : run (dollar (r_absc r)) (mkM [] [] out) = Ok (mkM [] [] (out ++ dollar (r_absc r)))).
  { destruct (r_absc r); cbn [dollar mrun]; [|now rewrite app_nil_r]. unfold mstep. rewrite Z.eqb_refl. rewrite flush_col_empty by reflexivity. reflexivity. }
  rewrite E1. cbn [bind]. rewrite mrun_app, run_letters by assumption. cbn [bind m_col m_row m_out app].
  destruct (r_absr r); cbn [dollar app].
  - (* $ before the row: the column is flushed there *)
    cbn [mrun]. unfold mstep at 1. rewrite Z.eqb_refl.
    rewrite (flush_col_name _ name (r_colz r) name') by (try reflexivity; assumption). cbn [bind m_col m_row m_out].
    rewrite run_digits by (try reflexivity; assumption). cbn [m_row m_out app]. now rewrite <- !app_assoc.
  - (* the first digit flushes the column *)
    rewrite Hit. cbn [mrun]. unfold mstep at 1.
    assert (E36 : (d =? 36) = false) by (unfold is_digit in Hd; lia).
    assert (El : is_letter d = false) by (unfold is_letter, is_upper, is_lower, is_digit in *; lia).
    rewrite E36, El, Hd.
    rewrite (flush_col_name _ name (r_colz r) name') by (try reflexivity; assumption). cbn [bind m_col m_row m_out app].
    rewrite Hit in Hdig. cbn [forallb] in Hdig. apply andb_prop in Hdig. destruct Hdig as [_ Hds].
    rewrite run_digits by (try reflexivity; assumption). cbn [m_row m_out app]. rewrite app_nil_r. now rewrite <- !app_assoc.
Qed.

Lemma flush_row_itoa st r :
  0 <= r <= maxInt64 -> m_row st = itoa r -> 0 <= row_out r <= TotalRows ->
  flush_row is_rows num offset st = Ok (mkM (m_col st) [] (m_out st ++ itoa (row_out r))).
Proof.
  intros Hr Hrow Hout. unfold flush_row. rewrite Hrow.
  destruct (itoa_hd_digit r ltac:(lia)) as (d & ds & Hit & _). rewrite Hit. rewrite <- Hit.
  unfold atoi0. rewrite (atoi_itoa r Hr). unfold row_out in *.
  destruct (is_rows && (r >=? num)).
  - destruct (Z.gtb_spec (if r + offset <? 1 then 1 else r + offset) TotalRows); [lia|reflexivity].
  - reflexivity.
Qed.

(* C07 core: the character-level rewrite of a printed cell reference is the printed relocated reference;
   absolute markers are preserved *)
Lemma adjust_cell_ref r :
  1 <= r_colz r <= MaxColumns -> 1 <= r_rowz r <= TotalRows ->
  1 <= col_out (r_colz r) <= MaxColumns -> 1 <= row_out (r_rowz r) <= TotalRows ->
  adjust_cellpart is_rows num offset (print_ref r) =
  Ok (print_ref (mkRef (r_absc r) (col_out (r_colz r)) (r_absr r) (row_out (r_rowz r)))).
Proof.
  intros Hc Hr Hc' Hr'.
  destruct (col_roundtrip (r_colz r) Hc) as (name & Hn & _).
  destruct (col_roundtrip (col_out (r_colz r)) Hc') as (name' & Hn' & _).
  unfold adjust_cellpart. rewrite (run_ref r name name' []) by (try assumption; lia). cbn [bind app].
  unfold flush_both. rewrite flush_col_empty by reflexivity. cbn [bind].
  rewrite (flush_row_itoa _ (r_rowz r)) by (cbn; unfold TotalRows, maxInt64 in *; try lia; reflexivity).
  cbn [bind m_out]. unfold print_ref. cbn [r_absc r_colz r_absr r_rowz]. rewrite Hn'. now rewrite <- !app_assoc.
Qed.
End Edit.

(* in terms of the S-level relocation *)
Lemma col_out_relocate is_rows num offset c : col_out is_rows num offset c = if is_rows then c else relocate num offset c.
Proof. unfold col_out, relocate. destruct is_rows; cbn; [reflexivity|]. destruct (c >=? num); reflexivity. Qed.
Lemma row_out_relocate is_rows num offset r : row_out is_rows num offset r = if is_rows then relocate num offset r else r.
Proof. unfold row_out, relocate. destruct is_rows; cbn; [|reflexivity]. destruct (r >=? num); reflexivity. Qed.

Theorem adjust_cell_ref_spec is_rows num offset r :
  1 <= r_colz r <= MaxColumns -> 1 <= r_rowz r <= TotalRows ->
  let r' := adjust_ref is_rows num offset r in
  1 <= r_colz r' <= MaxColumns -> 1 <= r_rowz r' <= TotalRows ->
  adjust_cellpart is_rows num offset (print_ref r) = Ok (print_ref r') /\
  r_absc r' = r_absc r /\ r_absr r' = r_absr r.
Proof.
  intros Hc Hr r' Hc' Hr'. split; [|unfold r', adjust_ref; destruct is_rows; auto].
  pose proof (adjust_cell_ref is_rows num offset r Hc Hr) as H.
  rewrite col_out_relocate, row_out_relocate in H. unfold r', adjust_ref in *.
  destruct is_rows; cbn [r_colz r_rowz r_absc r_absr] in *; apply H; assumption.
Qed.

(* ---------- denotation: relocation of lines ---------- *)
(* inserting k lines before num: the line relocation is strictly monotone, and the lines it misses are the new ones *)
Lemma relocate_insert_mono num k a b : 0 < k -> a <= b -> relocate num k a <= relocate num k b.
Proof. intros Hk H. unfold relocate. destruct (Z.geb_spec a num), (Z.geb_spec b num); try lia;
  repeat (match goal with |- context [if ?x <? 1 then _ else _] => destruct (Z.ltb_spec x 1) end); lia. Qed.

Lemma relocate_insert_image num k lo hi p : 0 < k -> 1 <= num -> 1 <= lo <= hi ->
  relocate num k lo <= p <= relocate num k hi ->
  (exists v, lo <= v <= hi /\ relocate num k v = p) \/ (num <= p < num + k).
Proof.
  intros Hk Hn Hl Hp. unfold relocate in *.
  destruct (Z.geb_spec lo num), (Z.geb_spec hi num); try lia;
    repeat (match goal with H : context [if ?x <? 1 then _ else _] |- _ => destruct (Z.ltb_spec x 1) end); try lia.
  - left. exists (p - k). destruct (Z.geb_spec (p - k) num); [|lia]. destruct (Z.ltb_spec (p - k + k) 1); lia.
  - destruct (Z.lt_ge_cases p num).
    + left. exists p. destruct (Z.geb_spec p num); lia.
    + destruct (Z.lt_ge_cases p (num + k)); [right; lia|].
      left. exists (p - k). destruct (Z.geb_spec (p - k) num); [|lia]. destruct (Z.ltb_spec (p - k + k) 1); lia.
  - left. exists p. destruct (Z.geb_spec p num); lia.
Qed.

(* removing line num (endpoints not on the removed line): the adjusted span is exactly the image of the surviving lines *)
Lemma relocate_remove_image num lo hi p : 1 <= num -> 1 <= lo <= hi -> lo <> num -> hi <> num ->
  (relocate num (-1) lo <= p <= relocate num (-1) hi) <->
  (exists v, lo <= v <= hi /\ v <> num /\ relocate num (-1) v = p).
Proof.
  intros Hn Hl H1 H2. unfold relocate. split.
  - intros Hp. destruct (Z.geb_spec lo num), (Z.geb_spec hi num); try lia;
      repeat (match goal with H : context [if ?x <? 1 then _ else _] |- _ => destruct (Z.ltb_spec x 1) end); try lia.
    + exists (p + 1). destruct (Z.geb_spec (p + 1) num); [|lia]. destruct (Z.ltb_spec (p + 1 + -1) 1); lia.
    + destruct (Z.lt_ge_cases p num).
      * exists p. destruct (Z.geb_spec p num); lia.
      * exists (p + 1). destruct (Z.geb_spec (p + 1) num); [|lia]. destruct (Z.ltb_spec (p + 1 + -1) 1); lia.
    + exists p. destruct (Z.geb_spec p num); lia.
  - intros (v & Hv & Hne & E). subst p.
    destruct (Z.geb_spec lo num), (Z.geb_spec hi num), (Z.geb_spec v num); try lia;
      repeat (match goal with |- context [if ?x <? 1 then _ else _] => destruct (Z.ltb_spec x 1) end); lia.
Qed.
