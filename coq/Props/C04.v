(* C04 property theorems: read paths agree on the corresponded model. In the model every reader is a
   function of the sheet (it returns no new state); purity of the implementation's readers is what the
   correspondence and the before/after oracles decide. *)
From VF Require Import Base.Prelude Generated.Consts Sheet.Model Sheet.Proofs Sheet.Readers.

(* GetCellValue & co. (lookup by row number and reference string) = the positional grid at the anchor *)
Theorem C04_get_cell_positional : forall sh col rw, WF sh -> 1 <= col -> 1 <= rw ->
  observe sh col rw = (let '(c, r) := anchor (merges sh) col rw in abs sh c r).
Proof. exact observe_abs. Qed.
Print Assumptions C04_get_cell_positional.

(* GetRows / Rows iterator over the serialised (trimmed) rows: position (col,rw) shows the stored text of
   the cell at (col,rw) if it has a non-empty value or a formula, and "" otherwise; trailing trimming
   never changes what a position shows *)
Theorem C04_rows_agree : forall sh col rw, Inv sh -> 1 <= col -> 1 <= rw ->
  nth (Z.to_nat (col - 1)) (nth (Z.to_nat (rw - 1)) (get_rows c_v sh) []) [] = shown (cell_at sh col rw).
Proof. exact get_rows_agree. Qed.
Print Assumptions C04_rows_agree.

(* hence, for a cell outside merged ranges, GetRows and GetCellValue (raw) show the same text *)
Theorem C04_rows_vs_get : forall sh col rw, WF sh -> 1 <= col -> 1 <= rw ->
  anchor (merges sh) col rw = (col, rw) ->
  nth (Z.to_nat (col - 1)) (nth (Z.to_nat (rw - 1)) (get_rows c_v sh) []) [] =
  (let '(_, v, _, _) := observe sh col rw in v).
Proof.
  intros sh col rw HW Hc Hr Ha. rewrite (get_rows_agree sh col rw (proj1 HW) Hc Hr).
  rewrite (observe_abs sh col rw HW Hc Hr), Ha, abs_cell_at.
  destruct (cell_at sh col rw) as [c|]; [|reflexivity]. cbn. unfold emit.
  destruct (c_v c); cbn; [destruct (c_f c); reflexivity|reflexivity].
Qed.
Print Assumptions C04_rows_vs_get.

(* GetCols / the Cols iterator: the same text at every position (columns are padded with "" up to the row before the
   last one that has cells; positions beyond a column's length read as "") *)
Theorem C04_cols_agree : forall sh col rw, 1 <= col -> 1 <= rw ->
  nth (Z.to_nat (rw - 1)) (nth (Z.to_nat (col - 1)) (get_cols c_v sh) []) [] = shown (cell_at sh col rw).
Proof. exact get_cols_agree. Qed.
Print Assumptions C04_cols_agree.
Theorem C04_cols_vs_rows : forall sh col rw, Inv sh -> 1 <= col -> 1 <= rw ->
  nth (Z.to_nat (rw - 1)) (nth (Z.to_nat (col - 1)) (get_cols c_v sh) []) [] =
  nth (Z.to_nat (col - 1)) (nth (Z.to_nat (rw - 1)) (get_rows c_v sh) []) [].
Proof. exact get_cols_vs_rows. Qed.
Print Assumptions C04_cols_vs_rows.

Theorem C04_trailing_trim : forall (l : list (list bytes)) i, nth i (drop_trailing_empty l) [] = nth i l [].
Proof. exact drop_trailing_nth. Qed.
Print Assumptions C04_trailing_trim.

Example C04_ex :
  get_rows c_v (run [OSet 3 1 0 [53]; OStyle 5 1 2; OSet 1 3 2 [104]; OFormula 2 3 [49]; ORowStyle 5 1] empty_sheet)
  = [[[]; []; [53]]; []; [[104]; []]].
Proof. vm_compute. reflexivity. Qed.
