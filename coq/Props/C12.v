(* C12 property theorems: the location of the parts (memory / temp file) under any size limits never makes a
   part unreadable, the temp files on disk are exactly those Close removes, oversized packages are refused.
   Content equality under different limits is decided on the implementation (twin oracle): in the model a
   part's bytes do not depend on where they are kept, which is exactly what 'available' guarantees. *)
From VF Require Import Base.Prelude Generated.Consts C12.Model C12.Proofs C12.Bounds.

(* every admissible limit pair, every package, every history of reads, streaming reads, writes and saves *)
Theorem C12_limits_history : forall lim size_lim ps ops s, open_with lim size_lim ps = Some s ->
  let s' := frun ops s in
  map pl_part (locs s') = ps /\                       (* the same parts, in the same order, whatever the limits *)
  (forall p, In p (locs s') -> available s' p) /\     (* each readable: in memory, or in a temp file that still exists *)
  (forall n, In n (fs s') <-> In n (registered s')) /\   (* files on disk = files registered for removal *)
  fs (close s') = [].                                  (* after Close none remains *)
Proof.
  intros lim sl ps ops s H. destruct (limits_history lim sl ps ops s H) as (H1 & H2 & H3 & H4).
  cbv zeta. repeat split; try assumption; apply H3.
Qed.
Print Assumptions C12_limits_history.

Theorem C12_reject : forall lim size_lim ps, size_lim < total ps -> open_with lim size_lim ps = None.
Proof. exact open_reject. Qed.
Print Assumptions C12_reject.

Theorem C12_accept : forall lim size_lim ps, total ps <= size_lim -> exists s, open_with lim size_lim ps = Some s.
Proof. exact open_accept. Qed.
Print Assumptions C12_accept.

(* no leak by accumulation: whatever the limits and however long the history, the temp files on disk are pairwise
   distinct and at most one per part plus the shared-string index *)
Theorem C12_temp_files_bounded : forall lim size_lim ps ops s, open_with lim size_lim ps = Some s ->
  NoDup (fs (frun ops s)) /\ (length (fs (frun ops s)) <= length ps + 1)%nat.
Proof. exact temp_files_bounded. Qed.
Print Assumptions C12_temp_files_bounded.

(* a limit no part exceeds: no temporary file is ever created, every part stays in memory *)
Theorem C12_no_spill_no_temp : forall lim size_lim ps ops s, (forall p, In p ps -> p_size p <= lim) ->
  open_with lim size_lim ps = Some s ->
  fs (frun ops s) = [] /\ forall p, In p (locs (frun ops s)) -> pl_temp p = None.
Proof. exact no_spill_no_temp. Qed.
Print Assumptions C12_no_spill_no_temp.

(* whether a package is accepted depends on its declared total and UnzipSizeLimit only, never on UnzipXMLSizeLimit; it
   is monotone in UnzipSizeLimit; an accepted package presents the same parts in the same order under any two XML limits *)
Theorem C12_accept_independent_of_xml_limit : forall lim lim' size_lim ps,
  (open_with lim size_lim ps = None <-> open_with lim' size_lim ps = None) /\
  (forall sl', size_lim <= sl' -> open_with lim size_lim ps <> None -> open_with lim' sl' ps <> None) /\
  (forall s s', open_with lim size_lim ps = Some s -> open_with lim' size_lim ps = Some s' ->
                map pl_part (locs s) = map pl_part (locs s')).
Proof. exact accept_independent_of_xml_limit. Qed.
Print Assumptions C12_accept_independent_of_xml_limit.

Example C12_ex :
  let ps := [mkPart 1 1 5000; mkPart 1 2 300; mkPart 0 0 700; mkPart 2 0 2000] in
  match open_with 1000 100000 ps with
  | Some s => fs s = [0; 1]%nat /\ fs (frun [FGet 1 true] s) = [2; 0; 1]%nat /\ fs (frun [FGet 1 true; FSetStr 2] s) = [0]%nat /\
              fs (close (frun [FGet 1 true; FSave] s)) = []
  | None => False
  end /\ open_with 1000 7999 ps = None.
Proof. vm_compute. repeat split. Qed.
