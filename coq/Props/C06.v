(* C06 property theorems: structural edits relocate grid content exactly (sheet core). *)
From VF Require Import Base.Prelude Generated.Consts Sheet.Model Sheet.Proofs Sheet.Adjust Sheet.AdjustProofs Sheet.DupProofs C03.Merge Sheet.MergeAdjust.

Theorem C06_insert_rows_refines : forall rw n sh sh', insert_rows rw n sh = Ok sh' ->
  forall c r, 1 <= c -> 1 <= r -> abs sh' c r = shift_rows_spec rw n (abs sh) c r.
Proof. exact insert_rows_refines. Qed.
Print Assumptions C06_insert_rows_refines.

Theorem C06_remove_row_refines : forall rw sh sh', remove_row rw sh = Ok sh' ->
  forall c r, 1 <= c -> 1 <= r -> abs sh' c r = remove_row_spec rw (abs sh) c r.
Proof. exact remove_row_refines. Qed.
Print Assumptions C06_remove_row_refines.

Theorem C06_insert_cols_refines : forall col n sh sh', insert_cols col n sh = Ok sh' ->
  forall c r, 1 <= c -> 1 <= r -> abs sh' c r = shift_cols_spec col n (abs sh) c r.
Proof. exact insert_cols_refines. Qed.
Print Assumptions C06_insert_cols_refines.

Theorem C06_remove_col_refines : forall col sh sh', remove_col col sh = Ok sh' ->
  forall c r, 1 <= c -> 1 <= r -> abs sh' c r = remove_col_spec col (abs sh) c r.
Proof. exact remove_col_refines. Qed.
Print Assumptions C06_remove_col_refines.

Theorem C06_rows_inv_kept : forall rw n sh sh', Inv sh ->
  (insert_rows rw n sh = Ok sh' \/ remove_row rw sh = Ok sh') -> Inv sh'.
Proof. intros rw n sh sh' HI [H|H]; [eapply insert_rows_Inv|eapply remove_row_Inv]; eassumption. Qed.
Print Assumptions C06_rows_inv_kept.

Theorem C06_insert_remove_id : forall rw col sh,
  (forall sh1 sh2, insert_rows rw 1 sh = Ok sh1 -> remove_row rw sh1 = Ok sh2 ->
     forall c r, 1 <= c -> 1 <= r -> abs sh2 c r = abs sh c r) /\
  (forall sh1 sh2, insert_cols col 1 sh = Ok sh1 -> remove_col col sh1 = Ok sh2 ->
     forall c r, 1 <= c -> 1 <= r -> abs sh2 c r = abs sh c r).
Proof. intros rw col sh. split; intros sh1 sh2; [apply insert_remove_row_id|apply insert_remove_col_id]. Qed.
Print Assumptions C06_insert_remove_id.

(* a rejected edit changes nothing *)
Theorem C06_reject_atomic : forall sh rw n col e,
  (insert_rows rw n sh = Err e -> estep sh (EInsertRows rw n) = sh) /\
  (insert_cols col n sh = Err e -> estep sh (EInsertCols col n) = sh).
Proof. intros. split; [apply estep_reject_rows|apply estep_reject_cols]. Qed.
Print Assumptions C06_reject_atomic.

(* DuplicateRowTo (and DuplicateRow = DuplicateRowTo r (r+1)): the copy sits at the target row and shows what the
   source row showed, with the source row's attributes; everything from the target row on moves down by one;
   everything above is untouched; removing the copy restores the sheet; a rejected call changes nothing *)
Theorem C06_dup_row_refines : forall rw rw2 sh sh', dup_row_to rw rw2 sh = Ok sh' -> merges sh = [] -> rw <> rw2 -> 1 <= rw2 ->
  (forall c r, 1 <= c -> 1 <= r -> abs sh' c r = dup_rows_spec rw rw2 (abs sh) c r) /\
  (forall r, 1 <= r -> row_attrs sh' r =
     if r <? rw2 then row_attrs sh r else if r =? rw2 then row_attrs sh rw else row_attrs sh (r - 1)).
Proof. intros rw rw2 sh sh' H Hm Hn H2. exact (conj (dup_row_to_refines rw rw2 sh sh' H Hm Hn H2) (dup_row_to_attrs rw rw2 sh sh' H Hm Hn H2)). Qed.
Print Assumptions C06_dup_row_refines.

Theorem C06_dup_remove_id : forall rw rw2 sh sh1 sh2, dup_row_to rw rw2 sh = Ok sh1 -> remove_row rw2 sh1 = Ok sh2 ->
  merges sh = [] -> rw <> rw2 -> 1 <= rw2 -> forall c r, 1 <= c -> 1 <= r -> abs sh2 c r = abs sh c r.
Proof. exact dup_remove_id. Qed.
Print Assumptions C06_dup_remove_id.

Theorem C06_dup_reject_atomic : forall rw rw2 sh e, dup_row_to rw rw2 sh = Err e -> estep sh (EDupRowTo rw rw2) = sh.
Proof. exact estep_reject_dup. Qed.
Print Assumptions C06_dup_reject_atomic.

(* merged ranges under the four edits: each range moves by the shift rule (rows shown; columns are symmetric), and
   a set of well-formed pairwise disjoint ranges stays well formed and pairwise disjoint *)
Theorem C06_merges_stay_disjoint : forall is_rows num offset ms, 1 <= num -> (1 <= offset \/ offset = -1) ->
  Forall rect_ok ms -> ForallOrdPairs disjoint ms ->
  Forall rect_ok (adjust_merges is_rows num offset ms) /\ ForallOrdPairs disjoint (adjust_merges is_rows num offset ms).
Proof. exact adjust_merges_disjoint. Qed.
Print Assumptions C06_merges_stay_disjoint.

Theorem C06_merge_rule_insert_rows : forall num n x1 y1 x2 y2, 1 <= n -> y1 <= y2 -> x1 <= x2 -> (x1 < x2 \/ y1 < y2) ->
  adjust_merges true num n [(x1, y1, x2, y2)] =
  [if num <=? y1 then (x1, y1 + n, x2, y2 + n) else if num <=? y2 then (x1, y1, x2, y2 + n) else (x1, y1, x2, y2)].
Proof. exact adjust_one_rows_insert. Qed.
Print Assumptions C06_merge_rule_insert_rows.

Theorem C06_merge_rule_remove_row : forall num x1 y1 x2 y2, y1 <= y2 -> x1 <= x2 -> (x1 < x2 \/ y1 < y2) ->
  adjust_merges true num (-1) [(x1, y1, x2, y2)] =
  if (y1 =? num) && (y2 =? num) then []
  else if num <? y1 then [(x1, y1 - 1, x2, y2 - 1)]
  else if num <=? y2 then (if (x1 =? x2) && (y1 =? y2 - 1) then [] else [(x1, y1, x2, y2 - 1)])
  else [(x1, y1, x2, y2)].
Proof. exact adjust_one_rows_remove. Qed.
Print Assumptions C06_merge_rule_remove_row.

Example C06_dup_ex :
  let sh := erun [EBase (OSet 1 1 0 [49]); EBase (OSet 2 3 0 [51]); EBase (ORowStyle 3 7); EDupRowTo 3 1; EDupRowTo 2 9] empty_sheet in
  (observe sh 2 1, observe sh 1 2, observe sh 2 4, observe sh 1 9, row_attrs sh 1, row_attrs sh 4, row_attrs sh 9) =
  ((0, [51], None, 7), (0, [49], None, 0), (0, [51], None, 7), (0, [49], None, 0), (7, None, false), (7, None, false), (0, None, false)).
Proof. vm_compute. reflexivity. Qed.

Example C06_ex :
  let sh := erun [EBase (OSet 2 2 0 [53]); EBase (OMerge 2 3 3 4); EBase (ORowStyle 3 7); EInsertRows 3 2; EInsertCols 1 1; ERemoveRow 1] empty_sheet in
  (observe sh 3 1, get_cell_style sh 9 4, merges sh) = ((0, [53], None, 0), 7, [(3, 4, 4, 5)]).
Proof. vm_compute. reflexivity. Qed.
