(* C03 property theorems (sheet core). Nothing but statements closed by [exact]. *)
From VF Require Import Base.Prelude Generated.Consts Sheet.Model Sheet.Proofs C03.Merge C03.MergeProofs.

(* every state reachable by any write history satisfies the Dense invariant *)
Theorem C03_reachable_inv : forall ops, Forall op_ok ops -> WF (run ops empty_sheet).
Proof. intros ops H. exact (run_WF ops empty_sheet WF_empty H). Qed.
Print Assumptions C03_reachable_inv.

(* a value write (every SetCell* variant) is a point update of the grid at the anchor cell of the
   addressed cell: the written cell shows the new payload with no formula, no other cell changes,
   merged ranges are unchanged *)
Theorem C03_step : forall col0 rw0 t v sh, WF sh -> 1 <= col0 -> 1 <= rw0 ->
  let '(col, rw) := anchor (merges sh) col0 rw0 in
  let sh' := set_value col0 rw0 t v sh in
  WF sh' /\ merges sh' = merges sh /\
  exists s', forall col' rw', 1 <= col' -> 1 <= rw' ->
    abs sh' col' rw' = grid_set (abs sh) col rw (t, v, None, s') col' rw'.
Proof. exact set_value_spec. Qed.
Print Assumptions C03_step.

Theorem C03_formula_frame : forall col0 rw0 f sh, WF sh -> 1 <= col0 -> 1 <= rw0 ->
  let '(col, rw) := anchor (merges sh) col0 rw0 in
  let sh' := set_formula col0 rw0 f sh in
  WF sh' /\ merges sh' = merges sh /\
  forall col' rw', 1 <= col' -> 1 <= rw' -> (col' <> col \/ rw' <> rw) -> abs sh' col' rw' = abs sh col' rw'.
Proof. exact set_formula_spec. Qed.
Print Assumptions C03_formula_frame.

Theorem C03_style_frame : forall col rw s sh, WF sh -> 1 <= col -> 1 <= rw ->
  let sh' := set_style col rw s sh in
  WF sh' /\ merges sh' = merges sh /\
  forall col' rw', 1 <= col' -> 1 <= rw' -> (col' <> col \/ rw' <> rw) -> abs sh' col' rw' = abs sh col' rw'.
Proof. exact set_style_spec. Qed.
Print Assumptions C03_style_frame.

(* the getter (lookup by row number and reference string) reads the positional grid at the anchor *)
Theorem C03_read : forall sh col rw, WF sh -> 1 <= col -> 1 <= rw ->
  observe sh col rw = (let '(c, r) := anchor (merges sh) col rw in abs sh c r).
Proof. exact observe_abs. Qed.
Print Assumptions C03_read.

(* non-vacuity: a concrete history with overwrite, merge and save *)
Example C03_ex :
  let sh := run [OSet 3 2 0 [53]; OSet 1 1 2 [104; 105]; OMerge 1 1 2 2; OSet 2 2 0 [55]; OSave; OSet 3 2 1 [49]] empty_sheet in
  observe sh 2 2 = (0, [55], None, 0) /\ observe sh 1 1 = (0, [55], None, 0) /\ observe sh 3 2 = (1, [49], None, 0) /\ observe sh 3 1 = empty_obs.
Proof. vm_compute. repeat split. Qed.

(* the merged ranges reported are always pairwise disjoint: after any history of MergeCell, UnmergeCell and
   GetMergeCells calls with any overlapping, nested, chained or crossing ranges, no position lies in two of the
   ranges that mergeOverlapCells leaves (GetMergeCells, UnmergeCell and the worksheet writer all go through it) *)
Theorem C03_merges_disjoint : forall ops, Forall mop_ok ops ->
  ForallOrdPairs disjoint (reported ops) /\ Forall rect_ok (reported ops).
Proof. exact reported_disjoint. Qed.
Print Assumptions C03_merges_disjoint.

(* the normalisation itself, for every list of ranges; and it never runs out of fuel: the list only gets shorter *)
Theorem C03_norm_disjoint : forall cells, Forall rect_ok cells ->
  ForallOrdPairs disjoint (norm cells) /\ Forall rect_ok (norm cells) /\ (length (norm cells) <= length cells)%nat.
Proof. exact norm_disjoint. Qed.
Print Assumptions C03_norm_disjoint.

(* what must not change: ranges that do not overlap are reported exactly as given, in the order given; a second
   read reports what the first did *)
Theorem C03_norm_fixed : forall cells, Forall rect_ok cells -> ForallOrdPairs disjoint cells -> norm cells = cells.
Proof. exact norm_fixed. Qed.
Print Assumptions C03_norm_fixed.
Theorem C03_read_merges_pure : forall ops, Forall mop_ok ops -> reported (ops ++ [MGet]) = reported ops.
Proof. exact reported_get_pure. Qed.
Print Assumptions C03_read_merges_pure.

(* what must not be lost: every range given lies inside one of the ranges that are left (false of the tree before
   fix 102af9e: a range lying under the bounding box of a join without overlapping any of the joined ranges was
   dropped - MergeCell C3:D4, B4:B6, B2:C3 reported B2:D4 only) *)
Theorem C03_norm_cover : forall cells, Forall rect_ok cells ->
  forall r, In r cells -> exists r', In r' (norm cells) /\ contains r' r = true.
Proof. exact norm_cover. Qed.
Print Assumptions C03_norm_cover.
Theorem C03_merges_cover : forall ops, Forall mop_ok ops ->
  forall r, In r (merge_run ops) -> exists r', In r' (reported ops) /\ contains r' r = true.
Proof. exact reported_cover. Qed.
Print Assumptions C03_merges_cover.

(* non-vacuity: a chain whose last link joins ranges that none of the earlier unions touched (the case the tree
   before fix 1e15404 left overlapping), and a cross that UnmergeCell does not see *)
Example C03_merge_ex :
  reported [MMerge (1,1,2,2); MMerge (2,2,3,3); MMerge (3,3,4,4); MMerge (7,7,8,8); MMerge (4,4,7,7)] = [(1,1,8,8)] /\
  reported [MMerge (2,2,3,9); MMerge (5,2,6,3); MGet; MMerge (1,1,5,2)] = [(1,1,6,9)] /\
  reported [MMerge (1,3,3,3); MMerge (5,5,6,6); MUnmerge (2,1,2,5)] = [(1,3,3,3); (5,5,6,6)] /\
  reported [MMerge (3,3,4,4); MMerge (2,4,2,6); MMerge (2,2,3,3)] = [(2,2,4,6)].
Proof. vm_compute. repeat split. Qed.
