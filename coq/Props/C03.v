(* C03 property theorems (sheet core). Nothing but statements closed by [exact]. *)
From VF Require Import Base.Prelude Generated.Consts Sheet.Model Sheet.Proofs.

(* every state reachable by any write history satisfies the Dense invariant *)
Theorem C03_reachable_inv : forall ops, Forall op_ok ops -> WF (run ops empty_sheet).
Proof. intros ops H. exact (run_WF ops empty_sheet WF_empty H). Qed.
Print Assumptions C03_reachable_inv.

(* a value write (every SetCell* variant) is a point update of the grid at the anchor cell of the
   addressed cell: the written cell shows the new payload with no formula, no other cell changes,
   merged ranges are unchanged *)
Theorem C03_step : forall col0 rw0 t v sh, WF sh -> 1 <= col0 -> 1 <= rw0 ->
  let '(col, rw) := anchor (merges sh) col0 rw0 in
  let sh' := set_value col0 rw0 t v sh in
  WF sh' /\ merges sh' = merges sh /\
  exists s', forall col' rw', 1 <= col' -> 1 <= rw' ->
    abs sh' col' rw' = grid_set (abs sh) col rw (t, v, None, s') col' rw'.
Proof. exact set_value_spec. Qed.
Print Assumptions C03_step.

Theorem C03_formula_frame : forall col0 rw0 f sh, WF sh -> 1 <= col0 -> 1 <= rw0 ->
  let '(col, rw) := anchor (merges sh) col0 rw0 in
  let sh' := set_formula col0 rw0 f sh in
  WF sh' /\ merges sh' = merges sh /\
  forall col' rw', 1 <= col' -> 1 <= rw' -> (col' <> col \/ rw' <> rw) -> abs sh' col' rw' = abs sh col' rw'.
Proof. exact set_formula_spec. Qed.
Print Assumptions C03_formula_frame.

Theorem C03_style_frame : forall col rw s sh, WF sh -> 1 <= col -> 1 <= rw ->
  let sh' := set_style col rw s sh in
  WF sh' /\ merges sh' = merges sh /\
  forall col' rw', 1 <= col' -> 1 <= rw' -> (col' <> col \/ rw' <> rw) -> abs sh' col' rw' = abs sh col' rw'.
Proof. exact set_style_spec. Qed.
Print Assumptions C03_style_frame.

(* the getter (lookup by row number and reference string) reads the positional grid at the anchor *)
Theorem C03_read : forall sh col rw, WF sh -> 1 <= col -> 1 <= rw ->
  observe sh col rw = (let '(c, r) := anchor (merges sh) col rw in abs sh c r).
Proof. exact observe_abs. Qed.
Print Assumptions C03_read.

(* non-vacuity: a concrete history with overwrite, merge and save *)
Example C03_ex :
  let sh := run [OSet 3 2 0 [53]; OSet 1 1 2 [104; 105]; OMerge 1 1 2 2; OSet 2 2 0 [55]; OSave; OSet 3 2 1 [49]] empty_sheet in
  observe sh 2 2 = (0, [55], None, 0) /\ observe sh 1 1 = (0, [55], None, 0) /\ observe sh 3 2 = (1, [49], None, 0) /\ observe sh 3 1 = empty_obs.
Proof. vm_compute. repeat split. Qed.
