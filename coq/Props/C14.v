(* C14 property theorems on the post-decode layer: for EVERY list of row numbers a damaged or hostile worksheet may
   carry, loading allocates at most (sheet limit + number of row elements) rows and writes inside what it allocated;
   an index read from the file selects a table entry only if it is one.  Parsers (zip, XML, compound file), time
   and memory of the whole call battery are measured on the enumerated mutation space (DESIGN C14). *)
From VF Require Import Base.Prelude Generated.Consts C14.Model C14.Proofs C14.Alloc.

Theorem C14_check_sheet_safe : forall rs, Forall (fun p => 0 <= snd p <= TotalRows) rs ->
  let '(n, pl) := check_sheet rs in
  0 <= n <= TotalRows + Z.of_nat (length rs) /\ length pl = length rs /\ forall idx, In (Some idx) pl -> 0 <= idx < n.
Proof. exact check_sheet_safe. Qed.
Print Assumptions C14_check_sheet_safe.

Theorem C14_lookup_guard : forall idx n, match lookup_guard idx n with Some i => 0 <= i < n | None => idx < 0 \/ n <= idx end.
Proof. exact lookup_guard_safe. Qed.
Print Assumptions C14_lookup_guard.

(* rows.go:checkRow: for EVERY list of cell references a row may carry (any order, duplicates, cells without a
   reference), rebuilding the row writes inside the slice it allocated; the rebuilt row is as wide as its largest
   column.  The rule before the repair (width taken from the last cell) is refuted: see C14_check_row_before_repair. *)
Theorem C14_check_row_safe : forall cells, (forall c, In (Some c) cells -> 1 <= c) ->
  exists t, check_row cells = Ok t /\
    (length t = length cells \/ Z.of_nat (length t) = width_max (assign_cols cells 0)).
Proof. exact check_row_safe. Qed.
Print Assumptions C14_check_row_safe.

(* allocation in proportion to the input: the row checkRow rebuilds is never longer than the largest column a cell
   reference names (validated to 1..MaxColumns) plus the number of cells present in the row *)
Theorem C14_check_row_alloc : forall cells, (forall c, In (Some c) cells -> 1 <= c <= MaxColumns) ->
  exists t, check_row cells = Ok t /\ Z.of_nat (length t) <= MaxColumns + Z.of_nat (length cells).
Proof. intros cells H. apply check_row_alloc; [unfold MaxColumns; lia|exact H]. Qed.
Print Assumptions C14_check_row_alloc.

Theorem C14_check_row_before_repair : exists cells, (forall c, In (Some c) cells -> 1 <= c) /\
  check_row_before_repair cells = Panic 1.
Proof. exact check_row_before_repair_refuted. Qed.
Print Assumptions C14_check_row_before_repair.

Example C14_ex_row : check_row [Some 5; None; Some 3; Some 3; None] =
  Ok [None; None; Some 3%nat; None; Some O; Some 1%nat; None; None; Some 4%nat].
Proof. vm_compute. reflexivity. Qed.

Example C14_ex :
  check_sheet [(3, 3); (2147483648, 0); (-1, 1); (0, 0); (0, 7); (5, 5); (7, 7); (99999999999, 2)] =
    (7, [Some 2; None; None; Some 3; Some 6; Some 4; Some 6; None]).
Proof. vm_compute. reflexivity. Qed.
