(* C13 property theorems: package encryption layer and compound-file geometry. *)
From VF Require Import Base.Prelude Generated.Consts C13.Model C13.Proofs C13.Chains C13.ChainProofs.

(* for every payload and every block cipher whose decryption inverts its encryption: Decrypt(Encrypt(b)) = b
   (size prefix, zero padding to 16, ECB, truncation) *)
Theorem C13_crypt_roundtrip : forall (E D : bytes -> bytes),
  (forall x, length x = 16%nat -> D (E x) = x) -> (forall x, length x = 16%nat -> length (E x) = 16%nat) ->
  forall b, Z.of_nat (length b) < 2 ^ 64 -> decrypt_pkg D (encrypt_pkg E b) = Ok b.
Proof. exact crypt_roundtrip. Qed.
Print Assumptions C13_crypt_roundtrip.

(* for every list of stream sizes: the FAT has an entry for every sector (its own and the DIFAT's included),
   header slots + DIFAT sectors enumerate every FAT sector with the fewest DIFAT sectors, mini FAT and mini
   stream container are large enough, and the layout offsets add up *)
Theorem C13_geometry : forall sizes npaths g,
  (forall s, In s sizes -> 0 <= s) -> 0 <= npaths -> locate sizes npaths = Some g ->
  let ministream := (g_mini g + 7) / 8 in
  let sectors := ministream + g_big g + g_dir g + g_minifat g in
  sectors + g_fat g + g_difat g <= 128 * g_fat g /\
  g_fat g <= 109 + 127 * g_difat g /\ g_difat g = difat_for (g_fat g) /\
  g_mini g <= 128 * g_minifat g /\ g_mini g <= 8 * ministream /\
  g_ministream_start g = 1 + g_difat g + g_fat g + g_minifat g + g_dir g + g_big g /\
  g_end g = g_ministream_start g + ministream /\
  4 * g_dir g >= npaths.
Proof. exact locate_geometry. Qed.
Print Assumptions C13_geometry.

(* the FAT/DIFAT fix-point loop terminates for every layout of up to 500000 sectors (about 244 MiB) *)
Theorem C13_locate_total : forall sizes npaths,
  (forall s, In s sizes -> 0 <= s) -> 0 <= npaths ->
  (sumZ (map mini_sectors_of sizes) + 7) / 8 + sumZ (map fat_sectors_of sizes) + (npaths + 3) / 4 + (sumZ (map mini_sectors_of sizes) + 127) / 128 <= 500000 ->
  exists g, locate sizes npaths = Some g.
Proof. exact locate_total. Qed.
Print Assumptions C13_locate_total.

(* the FAT the writer emits for that layout (crypt.go:writeSectorChains), for every list of stream sizes: it fills
   exactly the FAT sectors the layout reserved; a reader following it from the start sector of the mini FAT, of the
   directory, of any stream of 4096 bytes and more, or of the mini stream container visits exactly the consecutive
   sectors that object needs and then meets ENDOFCHAIN; these sector intervals are pairwise disjoint and in layout
   order; and the start sectors written to the header and the root entry are the starts of these chains *)
Theorem C13_fat_chains : forall sizes npaths g t st,
  (forall s, In s sizes -> 0 <= s) -> 0 <= npaths -> locate sizes npaths = Some g ->
  fat_table g sizes = (t, st) ->
  let lens := fat_lens g sizes in
  Z.of_nat (length t) = 128 * g_fat g /\
  length st = length lens /\
  (forall j, (j < length lens)%nat -> (0 < nth j lens O)%nat ->
     walk t (nth j lens O) (nth j st FREE) = Some (seqZ (nth j st FREE) (nth j lens O))) /\
  (forall j k, (j < k)%nat -> (k < length lens)%nat -> nth j st FREE + Z.of_nat (nth j lens O) <= nth k st FREE) /\
  (forall j, (j < length lens)%nat ->
     nth j st FREE = g_difat g + g_fat g + Z.of_nat (sumN (firstn j lens))) /\
  nth 0 st FREE = g_difat g + g_fat g /\
  nth 1 st FREE = g_difat g + g_fat g + g_minifat g /\
  nth (S (S (length sizes))) st FREE = g_ministream_start g - 1.
Proof. exact (fat_table_chains fat_fuel). Qed.
Print Assumptions C13_fat_chains.

(* the DIFAT the writer emits (109 header slots, then 127 slots and a next pointer per DIFAT sector): a reader that
   collects the non-free slots of the header and follows the DIFAT chain finds exactly the FAT sectors
   d, d+1, ..., d+f-1, in order, for every list of stream sizes *)
Theorem C13_msat_read : forall sizes npaths g,
  (forall s, In s sizes -> 0 <= s) -> 0 <= npaths -> locate sizes npaths = Some g ->
  msat_read g = Some (seqZ (g_difat g) (Z.to_nat (g_fat g))).
Proof. exact (msat_read_all fat_fuel). Qed.
Print Assumptions C13_msat_read.

(* the mini FAT: it fills exactly the mini FAT sectors of the layout, every stream below 4096 bytes is read back as
   consecutive mini sectors, pairwise disjoint, all inside the mini stream container the root entry describes *)
Theorem C13_minifat_chains : forall sizes npaths g t st,
  (forall s, In s sizes -> 0 <= s) -> 0 <= npaths -> locate sizes npaths = Some g ->
  minifat_table sizes = (t, st) ->
  let lens := map nmini sizes in
  Z.of_nat (length t) = 128 * g_minifat g /\
  length st = length lens /\
  (forall j, (j < length lens)%nat -> (0 < nth j lens O)%nat ->
     walk t (nth j lens O) (nth j st FREE) = Some (seqZ (nth j st FREE) (nth j lens O))) /\
  (forall j k, (j < k)%nat -> (k < length lens)%nat -> nth j st FREE + Z.of_nat (nth j lens O) <= nth k st FREE) /\
  (forall j, (j < length lens)%nat -> nth j st FREE = Z.of_nat (sumN (firstn j lens))) /\
  (forall j, (j < length lens)%nat -> nth j st FREE + Z.of_nat (nth j lens O) <= g_mini g).
Proof. exact (minifat_table_chains fat_fuel). Qed.
Print Assumptions C13_minifat_chains.

(* writer and reader end to end for the streams of 4096 bytes and more (EncryptedPackage): the bytes a reader
   extracts by following the FAT from the stream's start sector and cutting to the stream size are the bytes that
   were put, for every list of stream contents, whatever the other sectors hold *)
Theorem C13_stream_read_back : forall contents npaths g t st img mfb db cb j,
  let sizes := map (fun c : bytes => Z.of_nat (length c)) contents in
  0 <= npaths -> locate sizes npaths = Some g -> fat_table g sizes = (t, st) ->
  (j < length contents)%nat -> 4096 <= Z.of_nat (length (nth j contents [])) ->
  read_stream (put_streams 512 img st (fat_lens g sizes) (mfb :: db :: contents ++ [cb])) t
              (nsec (Z.of_nat (length (nth j contents [])))) (nth (S (S j)) st FREE) (length (nth j contents []))
  = Some (nth j contents []).
Proof. exact (big_stream_read_back fat_fuel). Qed.
Print Assumptions C13_stream_read_back.

(* writer and reader end to end for a stream below 4096 bytes (EncryptionInfo): its 64-byte mini sectors are laid out
   by the mini FAT, the container holding all mini sectors is stored as the last FAT chain; a reader gets the
   container back through the FAT (from the root entry's start sector) and the stream back through the mini FAT and
   slices of the container - for every list of stream contents *)
Theorem C13_mini_stream_read_back : forall contents npaths g t st mt mst img mfb db j,
  let sizes := map (fun c : bytes => Z.of_nat (length c)) contents in
  let mimg := put_streams 64 (fun _ => repeat 0 64) mst (map nmini sizes) contents in
  let cb := container_bytes mimg (Z.to_nat (g_mini g)) in
  0 <= npaths -> locate sizes npaths = Some g -> fat_table g sizes = (t, st) -> minifat_table sizes = (mt, mst) ->
  (j < length contents)%nat -> 0 < Z.of_nat (length (nth j contents [])) < 4096 ->
  read_stream (put_streams 512 img st (fat_lens g sizes) (mfb :: db :: contents ++ [cb])) t
              (Z.to_nat ((g_mini g + 7) / 8)) (g_ministream_start g - 1) (length cb) = Some cb /\
  read_mini cb mt (nmini (Z.of_nat (length (nth j contents [])))) (nth j mst FREE) (length (nth j contents []))
  = Some (nth j contents []).
Proof. exact (mini_stream_read_back fat_fuel). Qed.
Print Assumptions C13_mini_stream_read_back.

(* the same for any table and any block size (used with 64-byte mini sectors and the mini FAT): streams stored
   block after block at pairwise disjoint, ordered sector intervals are read back through their chains *)
Theorem C13_read_back : forall bsz starts lens contents t img j,
  (0 < bsz)%nat -> length starts = length lens -> length contents = length lens ->
  (forall a b, (a < b)%nat -> (b < length lens)%nat -> nth a starts FREE + Z.of_nat (nth a lens O) <= nth b starts FREE) ->
  (j < length lens)%nat ->
  walk t (nth j lens O) (nth j starts FREE) = Some (seqZ (nth j starts FREE) (nth j lens O)) ->
  (length (nth j contents []) <= bsz * nth j lens O)%nat ->
  read_stream (put_streams bsz img starts lens contents) t (nth j lens O) (nth j starts FREE) (length (nth j contents []))
  = Some (nth j contents []).
Proof. exact read_back. Qed.
Print Assumptions C13_read_back.

Example C13_ex_geometry : locate [248; 7340040] 3 =
  Some (mkGeo 1 113 1 1 14337 4 14454 14455).
Proof. vm_compute. reflexivity. Qed.

(* the same sizes: FAT of 14464 words = 113 sectors, the package chain starts at sector 116 (1 DIFAT + 113 FAT +
   1 mini FAT + 1 directory sector before it), the container at 14453 *)
Example C13_ex_fat : match locate [248; 7340040] 3 with
  | Some g => let '(t, st) := fat_table g [248; 7340040] in
              (Z.of_nat (length t), st, nth (Z.to_nat 116) t 0, nth (Z.to_nat 14452) t 0, nth (Z.to_nat 14453) t 0, walk t 1 14453)
  | None => (0, [], 0, 0, 0, None) end
  = (14464, [114; 115; 116; 116; 14453], 117, EOC, EOC, Some [14453]).
Proof. vm_compute. reflexivity. Qed.
