(* C13 property theorems: package encryption layer and compound-file geometry. *)
From VF Require Import Base.Prelude Generated.Consts C13.Model C13.Proofs.

(* for every payload and every block cipher whose decryption inverts its encryption: Decrypt(Encrypt(b)) = b
   (size prefix, zero padding to 16, ECB, truncation) *)
Theorem C13_crypt_roundtrip : forall (E D : bytes -> bytes),
  (forall x, length x = 16%nat -> D (E x) = x) -> (forall x, length x = 16%nat -> length (E x) = 16%nat) ->
  forall b, Z.of_nat (length b) < 2 ^ 64 -> decrypt_pkg D (encrypt_pkg E b) = Ok b.
Proof. exact crypt_roundtrip. Qed.
Print Assumptions C13_crypt_roundtrip.

(* for every list of stream sizes: the FAT has an entry for every sector (its own and the DIFAT's included),
   header slots + DIFAT sectors enumerate every FAT sector with the fewest DIFAT sectors, mini FAT and mini
   stream container are large enough, and the layout offsets add up *)
Theorem C13_geometry : forall sizes npaths g,
  (forall s, In s sizes -> 0 <= s) -> 0 <= npaths -> locate sizes npaths = Some g ->
  let ministream := (g_mini g + 7) / 8 in
  let sectors := ministream + g_big g + g_dir g + g_minifat g in
  sectors + g_fat g + g_difat g <= 128 * g_fat g /\
  g_fat g <= 109 + 127 * g_difat g /\ g_difat g = difat_for (g_fat g) /\
  g_mini g <= 128 * g_minifat g /\ g_mini g <= 8 * ministream /\
  g_ministream_start g = 1 + g_difat g + g_fat g + g_minifat g + g_dir g + g_big g /\
  g_end g = g_ministream_start g + ministream /\
  4 * g_dir g >= npaths.
Proof. exact locate_geometry. Qed.
Print Assumptions C13_geometry.

(* the FAT/DIFAT fix-point loop terminates for every layout of up to 500000 sectors (about 244 MiB) *)
Theorem C13_locate_total : forall sizes npaths,
  (forall s, In s sizes -> 0 <= s) -> 0 <= npaths ->
  (sumZ (map mini_sectors_of sizes) + 7) / 8 + sumZ (map fat_sectors_of sizes) + (npaths + 3) / 4 + (sumZ (map mini_sectors_of sizes) + 127) / 128 <= 500000 ->
  exists g, locate sizes npaths = Some g.
Proof. exact locate_total. Qed.
Print Assumptions C13_locate_total.

Example C13_ex_geometry : locate [248; 7340040] 3 =
  Some (mkGeo 1 113 1 1 14337 4 14454 14455).
Proof. vm_compute. reflexivity. Qed.
