(* C01 property theorems (save then open preserves the grid). The serialised sheet is the structured
   row list [xml_rows]; opening is [densify_rows 1]; the XML/zip byte layer is assumed (DESIGN 5.7). *)
From VF Require Import Base.Prelude Generated.Consts Sheet.Model Sheet.Proofs.

Definition open_sheet (xs : list row) (cs : list (Z * Z * Z)) (ms : list rect) : sheet := mkSheet (densify_rows 1 xs) cs ms.

(* the core excelize-specific lemma: trimRow/trimCell and checkSheet/checkRow are inverse on observables *)
Theorem C01_densify_trim : forall rw r, 1 <= rw -> r_r r = rw -> cells_dense rw (r_cells r) ->
  let r' := densify_row rw (trim_row r) in
  r_r r' = rw /\ cells_dense rw (r_cells r') /\
  r_s r' = r_s r /\ r_ht r' = r_ht r /\ r_hidden r' = r_hidden r /\
  forall j, obs_of (nth_error (r_cells r') j) = obs_of (nth_error (r_cells r) j).
Proof. exact densify_trim_row. Qed.
Print Assumptions C01_densify_trim.

Theorem C01_roundtrip : forall sh col rw, WF sh -> 1 <= col -> 1 <= rw ->
  let sh1 := open_sheet (xml_rows sh) (cols sh) (merges sh) in
  WF sh1 /\ observe sh1 col rw = observe sh col rw /\ (forall r, row_style sh1 r = row_style sh r).
Proof.
  intros sh col rw HW Hc Hr. change (open_sheet (xml_rows sh) (cols sh) (merges sh)) with (save sh). cbv zeta.
  destruct HW as [HI HM]. destruct (save_spec sh HI) as (HI' & Habs & Hrs & _).
  split; [exact (conj HI' HM)|]. split; [|exact Hrs].
  rewrite (observe_abs (save sh) col rw (conj HI' HM) Hc Hr), (observe_abs sh col rw (conj HI HM) Hc Hr).
  change (merges (save sh)) with (merges sh).
  pose proof (anchor_pos _ HM col rw Hc Hr) as Hp. destruct (anchor (merges sh) col rw) as [c r].
  apply Habs; apply Hp.
Qed.
Print Assumptions C01_roundtrip.

(* a second save/open cycle is a fixed point on observables *)
Theorem C01_fixpoint : forall sh col rw, WF sh -> 1 <= col -> 1 <= rw ->
  observe (save (save sh)) col rw = observe (save sh) col rw.
Proof.
  intros sh col rw HW Hc Hr. destruct HW as [HI HM]. destruct (save_spec sh HI) as (HI' & _).
  destruct (save_spec (save sh) HI') as (HI'' & Habs & _).
  rewrite (observe_abs (save (save sh)) col rw (conj HI'' HM) Hc Hr), (observe_abs (save sh) col rw (conj HI' HM) Hc Hr).
  change (merges (save (save sh))) with (merges sh). change (merges (save sh)) with (merges sh).
  pose proof (anchor_pos _ HM col rw Hc Hr) as Hp. destruct (anchor (merges sh) col rw) as [c r].
  apply Habs; apply Hp.
Qed.
Print Assumptions C01_fixpoint.

Example C01_ex :
  let sh := run [OSet 5 3 2 [32; 120]; OStyle 2 3 7; ORowStyle 4 2; OSet 1 4 0 [49]] empty_sheet in
  let sh1 := open_sheet (xml_rows sh) (cols sh) (merges sh) in
  observe sh1 5 3 = (2, [32; 120], None, 0) /\ get_cell_style sh1 2 3 = 7 /\ get_cell_style sh1 1 4 = 2 /\ get_cell_style sh1 9 4 = 2.
Proof. vm_compute. repeat split. Qed.
