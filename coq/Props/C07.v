(* C07 property theorems: rewriting of references under structural edits. *)
From VF Require Import Base.Prelude Generated.Consts C20.Model C07.Model C07.Proofs.

(* the character-level machine of adjustFormulaOperand on a printed cell reference produces the printed
   reference of the relocated cell, keeps both $ markers (every $ combination, every in-grid position,
   rows or columns, any edit point and offset that keeps the result inside the grid) *)
Theorem C07_cell_ref : forall is_rows num offset r,
  1 <= r_colz r <= MaxColumns -> 1 <= r_rowz r <= TotalRows ->
  let r' := adjust_ref is_rows num offset r in
  1 <= r_colz r' <= MaxColumns -> 1 <= r_rowz r' <= TotalRows ->
  adjust_cellpart is_rows num offset (print_ref r) = Ok (print_ref r') /\
  r_absc r' = r_absc r /\ r_absr r' = r_absr r.
Proof. exact adjust_cell_ref_spec. Qed.
Print Assumptions C07_cell_ref.

(* references to other sheets are re-emitted unchanged (with the sheet name quoted as needed) *)
Theorem C07_other_sheet : forall is_rows num offset sp cell,
  adjust_operand is_rows num offset sp false cell =
  Ok ((match sp with Some s => escape_sheet_name s ++ [33] | None => [] end) ++ cell).
Proof. intros. reflexivity. Qed.
Print Assumptions C07_other_sheet.

(* denotation of ranges. Inserting k lines: the adjusted span [relocate lo, relocate hi] contains the image of
   every line of the original span, and whatever else it contains is a freshly inserted line *)
Theorem C07_den_insert : forall num k lo hi, 0 < k -> 1 <= num -> 1 <= lo <= hi ->
  (forall v, lo <= v <= hi -> relocate num k lo <= relocate num k v <= relocate num k hi) /\
  (forall p, relocate num k lo <= p <= relocate num k hi ->
     (exists v, lo <= v <= hi /\ relocate num k v = p) \/ (num <= p < num + k)).
Proof.
  intros num k lo hi Hk Hn Hl. split.
  - intros v Hv. split; apply relocate_insert_mono; lia.
  - intros p Hp. now apply relocate_insert_image.
Qed.
Print Assumptions C07_den_insert.

(* Removing line num when no endpoint lay on it: the adjusted span is exactly the image of the surviving lines *)
Theorem C07_den_remove : forall num lo hi p, 1 <= num -> 1 <= lo <= hi -> lo <> num -> hi <> num ->
  (relocate num (-1) lo <= p <= relocate num (-1) hi) <->
  (exists v, lo <= v <= hi /\ v <> num /\ relocate num (-1) v = p).
Proof. exact relocate_remove_image. Qed.
Print Assumptions C07_den_remove.

Example C07_ex1 : adjust_operand true 3 2 None true [36;65;36;53;58;66;50] = Ok [36;65;36;55;58;66;50].   (* $A$5:B2 -> $A$7:B2 *)
Proof. vm_compute. reflexivity. Qed.
Example C07_ex2 : adjust_operand false 2 (-1) (Some [73;116;39;115]) true [67;51] = Ok [39;73;116;39;39;115;39;33;66;51]. (* It's!C3 -> 'It''s'!B3 *)
Proof. vm_compute. reflexivity. Qed.
