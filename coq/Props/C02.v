(* C02 property theorems (saving is observationally pure). *)
From VF Require Import Base.Prelude Generated.Consts Sheet.Model Sheet.Proofs Sheet.View C02.Commute.

(* the one that matters: the cached sheet still satisfies the Dense invariant after a save, so every
   later setter indexes the right cell (false of the tree before fix f0b21d6) *)
Theorem C02_inv_kept : forall sh, WF sh -> WF (save sh).
Proof. intros sh [HI HM]. destruct (save_spec sh HI) as (H1 & _). exact (conj H1 HM). Qed.
Print Assumptions C02_inv_kept.

Theorem C02_getters_pure : forall sh, Inv sh ->
  (forall col rw, 1 <= col -> 1 <= rw -> abs (save sh) col rw = abs sh col rw) /\
  (forall rw, row_style (save sh) rw = row_style sh rw) /\
  length (rows (save sh)) = length (rows sh) /\ merges (save sh) = merges sh /\ cols (save sh) = cols sh.
Proof. intros sh HI. exact (proj2 (save_spec sh HI)). Qed.
Print Assumptions C02_getters_pure.

Theorem C02_observe_pure : forall sh col rw, WF sh -> 1 <= col -> 1 <= rw ->
  observe (save sh) col rw = observe sh col rw.
Proof.
  intros sh col rw HW Hc Hr. destruct HW as [HI HM].
  destruct (save_spec sh HI) as (HI' & Habs & _ & _ & Hm & _).
  rewrite (observe_abs (save sh) col rw (conj HI' HM) Hc Hr), (observe_abs sh col rw (conj HI HM) Hc Hr).
  change (merges (save sh)) with (merges sh).
  pose proof (anchor_pos _ HM col rw Hc Hr) as Hp. destruct (anchor (merges sh) col rw) as [c r].
  apply Habs; apply Hp.
Qed.
Print Assumptions C02_observe_pure.

(* saves may be interleaved anywhere in a history: every reachable state is well formed *)
Theorem C02_reachable_with_saves : forall ops, Forall op_ok ops -> WF (run ops empty_sheet).
Proof. intros ops H. exact (run_WF ops empty_sheet WF_empty H). Qed.
Print Assumptions C02_reachable_with_saves.

Example C02_ex :
  let sh := run [OSet 3 1 0 [53]; OSave; OSet 1 1 0 [49]] empty_sheet in
  observe sh 1 1 = (0, [49], None, 0) /\ observe sh 3 1 = (0, [53], None, 0).
Proof. vm_compute. split; reflexivity. Qed.

(* saving commutes with whatever follows: saves inserted at any positions of a history of value, formula, cell-style
   and row-style writes leave the stored content and the resolved style of every position what the history
   without them produces (merges: C02_observe_pure above covers the single save in any well-formed state) *)
Theorem C02_saves_commute : forall ops sh, WF sh -> merges sh = [] -> Forall simple_or_save ops ->
  forall c r, 1 <= c -> 1 <= r -> W (run ops sh) c r = W (run (strip_saves ops) sh) c r.
Proof. intros ops sh HW Hm Ha. exact (proj1 (saves_commute ops sh HW Hm Ha)). Qed.
Print Assumptions C02_saves_commute.

Example C02_commute_ex :
  let ops := [OSet 3 1 0 [53]; OSave; OStyle 3 1 2; OSave; OSave; OFormula 1 2 [65]; ORowStyle 2 4; OSave] in
  Forall simple_or_save ops /\ strip_saves ops = [OSet 3 1 0 [53]; OStyle 3 1 2; OFormula 1 2 [65]; ORowStyle 2 4] /\ W (run ops empty_sheet) 3 1 = ((0, [53], None), 2) /\ W (run ops empty_sheet) 1 2 = ((3, [], Some [65]), 4).
Proof. vm_compute. repeat split; repeat constructor; try lia; discriminate. Qed.
