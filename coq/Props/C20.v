(* C20 property theorems. Nothing but statements closed by [exact]. *)
From VF Require Import Base.Prelude Generated.Consts C20.Model C20.Proofs C20.Range C20.RangeProofs.

Theorem C20_col_roundtrip : forall n, 1 <= n <= MaxColumns ->
  exists s, col_number_to_name n = Ok s /\ col_name_to_number s = Ok n /\
            s <> [] /\ forallb is_upper s = true.
Proof. exact col_roundtrip. Qed.
Print Assumptions C20_col_roundtrip.

Theorem C20_col_canonical : forall s n, col_name_to_number s = Ok n ->
  1 <= n <= MaxColumns /\ col_number_to_name n = Ok (to_upper s).
Proof. exact col_canonical. Qed.
Print Assumptions C20_col_canonical.

Theorem C20_col_case_insensitive : forall s,
  col_name_to_number (to_upper s) = col_name_to_number s.
Proof. exact col_name_upper. Qed.
Print Assumptions C20_col_case_insensitive.

Theorem C20_cell_roundtrip : forall c r abs,
  1 <= c <= MaxColumns -> 1 <= r <= TotalRows ->
  exists s, coords_to_cell_name c r abs = Ok s /\ cell_name_to_coords s = Ok (c, r).
Proof. exact cell_roundtrip. Qed.
Print Assumptions C20_cell_roundtrip.

Theorem C20_cell_strict : forall s c r, cell_name_to_coords s = Ok (c, r) ->
  a1_style s /\ 1 <= c <= MaxColumns /\ 1 <= r <= TotalRows.
Proof. exact cell_strict. Qed.
Print Assumptions C20_cell_strict.

(* every accepted spelling of a cell has the same canonical name, which the cell API
   (mergeCellsParser) uses as the storage key *)
Theorem C20_same_cell : forall s1 s2 c r,
  cell_name_to_coords s1 = Ok (c, r) -> cell_name_to_coords s2 = Ok (c, r) ->
  exists k, coords_to_cell_name c r false = Ok k /\ cell_name_to_coords k = Ok (c, r).
Proof.
  intros s1 s2 c r H1 _. destruct (cell_strict s1 c r H1) as (_ & Hc & Hr).
  exact (cell_roundtrip c r false Hc Hr).
Qed.
Print Assumptions C20_same_cell.

(* range references (merged cells, validations, conditional formats, tables, filters, structural edits): rendering
   the corners of any two cells of the grid as "A1:B2" (plain or with $) and reading the text back gives the same four
   coordinates; sortCoordinates orders each pair of coordinates and keeps them *)
Theorem C20_range_roundtrip : forall c1 r1 c2 r2 abs,
  1 <= c1 <= MaxColumns -> 1 <= r1 <= TotalRows -> 1 <= c2 <= MaxColumns -> 1 <= r2 <= TotalRows ->
  exists s, coords_to_range_ref (c1, r1, c2, r2) abs = Ok s /\ range_ref_to_coords s = Ok (c1, r1, c2, r2).
Proof. exact range_roundtrip. Qed.
Print Assumptions C20_range_roundtrip.

Theorem C20_sort_coords : forall c1 r1 c2 r2,
  sort_coords (c1, r1, c2, r2) = (Z.min c1 c2, Z.min r1 r2, Z.max c1 c2, Z.max r1 r2) /\
  sort_coords (sort_coords (c1, r1, c2, r2)) = sort_coords (c1, r1, c2, r2).
Proof. intros. split; [apply sort_coords_spec|apply sort_coords_idem]. Qed.
Print Assumptions C20_sort_coords.

(* non-vacuity and the former wrap-around witness *)
Example C20_ex_accept : cell_name_to_coords [36;120;102;100;36;48;48;49;48;52;56;53;55;54] = Ok (16384, 1048576).
Proof. vm_compute. reflexivity. Qed.
Example C20_ex_plus_rejected : cell_name_to_coords [65;43;53] = Err E_INVALID_CELL.
Proof. vm_compute. reflexivity. Qed.
Example C20_ex_wrap_rejected :
  col_name_to_number [65;66;65;66;65;65;65;66;66;65;66;66;66;65;65;65;66;66;65;66;65;66;65;66;66;65;65;65;65;66;65;66;
                      66;65;66;65;66;66;66;66;66;65;66;65;65;66;65;66;65;66;65;65;66;65;66;66;65;65;65;66;65;65;66;65] = Err E_COLNUM.
Proof. vm_compute. reflexivity. Qed.
Example C20_ex_range : range_ref_to_coords [36;67;36;49;58;98;51] = Ok (3, 1, 2, 3) /\ sort_coords (3, 1, 2, 3) = (2, 1, 3, 3).
Proof. vm_compute. split; reflexivity. Qed.
