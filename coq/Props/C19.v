(* C19 property theorems. Nothing but statements closed by [exact]. *)
From Coq Require Import Floats.
From VF Require Import Base.Prelude Generated.Consts C19.Model C19.Sweep C19.Proofs.

(* the chunked difference of timeToExcelTime is exactly whole days + remainder, for every instant
   up to 64 chunks (year ~20400) *)
Theorem C19_encode_spec : forall t bmp, 0 <= t -> t / maxDuration < 64 ->
  encode_exact_t t bmp = Some (t / dayNanoseconds + bmp, t mod dayNanoseconds).
Proof. exact encode_exact_spec. Qed.
Print Assumptions C19_encode_spec.

(* a later wall clock never has a smaller exact serial *)
Theorem C19_monotone : forall t1 b1 t2 b2 p1 p2,
  0 <= t1 <= t2 -> t2 / maxDuration < 64 -> 0 <= b1 <= b2 ->
  encode_exact_t t1 b1 = Some p1 -> encode_exact_t t2 b2 = Some p2 ->
  serial_ns p1 <= serial_ns p2.
Proof. exact encode_monotone. Qed.
Print Assumptions C19_monotone.

(* Gregorian branch of timeFromExcelTime: every rational serial a/b within 2^-30 of the exact serial
   T/day of a whole-second instant decodes to exactly that instant *)
Theorem C19_roundtrip : forall a b T,
  0 < b -> 0 <= T -> T mod 1000000000 = 0 ->
  Z.abs (a * dayNanoseconds - T * b) * 1073741824 <= b * dayNanoseconds ->
  decode_exact_ns ((dayNanoseconds * a) / b) = T.
Proof.
  intros a b T Hb HT Hm Hc. apply decode_exact_roundtrip; try assumption.
  exact (floor_close a b T Hb Hc).
Qed.
Print Assumptions C19_roundtrip.

(* calendar arithmetic (finite sweeps, bounds in the statements) *)
Theorem C19_civil_roundtrip : forall y m d, 1899 <= y <= 9999 -> valid_date y m d = true ->
  civil_of_days (days_of_civil y m d) = (y, m, d).
Proof. exact civil_roundtrip. Qed.
Print Assumptions C19_civil_roundtrip.

Theorem C19_daycount_excel : forall y m d,
  1900 <= y <= 9999 -> valid_date y m d = true -> in_excel_range y m d = true ->
  days_of_civil y m d - epoch1900_days + bump_dn false (days_of_civil y m d) = excel_serial_spec y m d.
Proof. exact daycount_excel. Qed.
Print Assumptions C19_daycount_excel.

Theorem C19_fliegel : forall jd, 2415000 <= jd <= 2416600 -> fliegel jd = civil_of_days (jd - 2440588).
Proof. exact fliegel_civil. Qed.
Print Assumptions C19_fliegel.

(* non-vacuity *)
Example C19_ex_last_day : encode_exact false 9999 12 31 86399000000000 = Some (2958465, 86399000000000).
Proof. vm_compute. reflexivity. Qed.
Example C19_ex_range : ns_since_epoch false 9999 12 31 86399000000000 / maxDuration < 64.
Proof. vm_compute. reflexivity. Qed.
Example C19_ex_1904_zero : encode_exact true 1904 1 1 0 = Some (0, 0) /\ is_num true 1904 1 1 0 0%float = true.
Proof. vm_compute. split; reflexivity. Qed.
