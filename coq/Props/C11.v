(* C11 property theorems: StreamWriter output = the in-memory API, spill independence, safe rejection.
   The streamed worksheet is the structured row list the writer emits; reopening is checkSheet/checkRow;
   the XML/zip byte layer is assumed (DESIGN 5.7). *)
From VF Require Import Base.Prelude Generated.Consts Sheet.Model Sheet.Proofs Sheet.View C11.Model C11.Proofs C11.Order.

(* For ANY sequence of stream calls (accepted or rejected, rows with gaps, nil cells, any start column, Cell values with
   style and formula, row style option, column styles before the rows): the reopened streamed sheet and the workbook
   built by the equivalent in-memory calls (SetColStyle, SetRowStyle, SetCellValue, SetCellFormula, SetCellStyle), before
   and after its own save, agree at every position on value kind, stored value, formula and resolved style, and on <cols>. *)
Theorem C11_equiv : forall sops c r, 1 <= c -> 1 <= r ->
  let st := srun sops in
  let m := run (mem_of st) empty_sheet in
  kview (W (flush st) c r) = kview (W m c r) /\
  kview (W (flush st) c r) = kview (W (save m) c r) /\
  cols (flush st) = cols m /\ cols (flush st) = cols (save m).
Proof. exact stream_equiv. Qed.
Print Assumptions C11_equiv.

(* a rejected SetRow (row not above the last one, outside the sheet limits, bad options, a column beyond XFD,
   a value the setter refuses) returns the state it was given *)
Theorem C11_reject_safe : forall st col row rs ok vals,
  fst (set_row st col row rs ok vals) = false -> snd (set_row st col row rs ok vals) = st.
Proof. exact set_row_reject. Qed.
Print Assumptions C11_reject_safe.

(* whatever call comes next, what was already written stays: the written rows are a prefix of the later ones *)
Theorem C11_written_rows_stable : forall st o, exists more, sw_out (sstep st o) = sw_out st ++ more.
Proof. exact out_prefix. Qed.
Print Assumptions C11_written_rows_stable.

(* the bytes a reader gets back do not depend on the spill threshold nor on whether a temp file could be created *)
Theorem C11_spill_independent : forall chunk ops b,
  bw_contents (fold_left (bw_step chunk) ops b) = bw_contents b ++ writes_of ops.
Proof. exact bw_spill_independent. Qed.
Print Assumptions C11_spill_independent.

(* what the writer emits is well-ordered for ANY history of stream calls (accepted or rejected): rows strictly
   ascending and inside the grid, never beyond the last accepted row; inside each row the cells strictly ascending
   by column within 1..MaxColumns and carrying the row's number - "rows submitted out of order are rejected" as an
   invariant of the output *)
Theorem C11_output_ordered : forall ops,
  let st := srun ops in
  gincr r_r 0 (sw_out st) /\
  forall r, In r (sw_out st) ->
    1 <= r_r r <= sw_last st /\ r_r r <= TotalRows /\
    gincr c_col 0 (r_cells r) /\
    forall c, In c (r_cells r) -> c_row c = r_r r /\ 1 <= c_col c <= MaxColumns.
Proof.
  intros ops. cbv zeta. destruct (stream_output_ordered ops) as [H1 H2]. split; [exact H1|].
  intros r Hr. destruct (H2 r Hr) as (A & B & C). pose proof (stream_rows_in_grid ops r Hr) as [_ D].
  repeat split; try assumption; try apply A; apply C; assumption.
Qed.
Print Assumptions C11_output_ordered.

(* with a positive spill threshold the in-memory buffer is below it after every sync that can create its temp file *)
Theorem C11_spill_bounds_memory : forall chunk b, 0 < chunk -> Z.of_nat (length (bw_buf (bw_sync chunk true b))) < chunk.
Proof. exact bw_sync_bound. Qed.
Print Assumptions C11_spill_bounds_memory.

Example C11_ex :
  let v t s := Some (mkSval 0 [] true t s false) in
  let st := srun [SColStyle 2 5 true; SRow 2 3 0 true [v 0 [49]; None; Some (mkSval 7 [65; 49] false 0 [] false)];
                  SRow 1 2 0 true [v 0 [50]]; SRow 16384 9 4 true [v 4 [120]; v 0 [51]]; SRow 1 9 4 true [None; v 4 [120]]] in
  map r_r (sw_out st) = [3; 9] /\
  kview (W (flush st) 2 3) = (0, [49], None, 5) /\ kview (W (flush st) 4 3) = (9, [], Some [65; 49], 7) /\
  kview (W (flush st) 2 9) = (2, [120], None, 4) /\ kview (W (flush st) 1 9) = (0, [], None, 4).
Proof. vm_compute. repeat split. Qed.
