(* C18 property theorems: defined names as a keyed list, and the partial-update law of option structures.
   The individual setter/getter pairs are decided on the implementation against these laws (DESIGN C18). *)
From VF Require Import Base.Prelude Generated.Consts C18.Model C18.Proofs C18.Refine.

Theorem C18_set_name : forall l n s r v, Uniq l ->
  let '(ok, l') := set_name l n s r v in
  Uniq l' /\ (ok = false -> l' = l) /\
  (ok = true -> lookup n s l' = Some r /\ lookup n s l = None /\ forall n' s', (n', s') <> (n, s) -> lookup n' s' l' = lookup n' s' l).
Proof. exact set_name_spec. Qed.
Print Assumptions C18_set_name.

(* deleting removes exactly that item *)
Theorem C18_delete_exact : forall l n s, Uniq l ->
  let '(ok, l') := del_name l n s in
  Uniq l' /\ (ok = false -> l' = l /\ lookup n s l = None) /\
  (ok = true -> lookup n s l' = None /\ length l' = (length l - 1)%nat /\ forall n' s', (n', s') <> (n, s) -> lookup n' s' l' = lookup n' s' l).
Proof. exact del_name_spec. Qed.
Print Assumptions C18_delete_exact.

Theorem C18_names_unique : forall ops, Uniq (fold_left dstep ops []).
Proof. intros ops. apply dstep_uniq. constructor. Qed.
Print Assumptions C18_names_unique.

(* refinement to the simplest specification: over EVERY history of SetDefinedName / DeleteDefinedName calls (accepted
   or refused) GetDefinedName reads what a partial map from (name, scope) to reference holds after the same calls -
   so an item reads back as set after any unrelated edits and a delete removes exactly that item *)
Theorem C18_names_refine_map : forall ops n s, lookup n s (fold_left dstep ops []) = fold_left astep ops aempty n s.
Proof. exact names_refine_map. Qed.
Print Assumptions C18_names_refine_map.

Example C18_refine_ex : fold_left astep [DSet [1] [] [7] true; DSet [2] [9] [8] true; DSet [1] [] [5] true; DDel [2] [9]] aempty [1] [] = Some [7]
  /\ fold_left astep [DSet [1] [] [7] true; DSet [2] [9] [8] true; DDel [2] [9]] aempty [2] [9] = None.
Proof. vm_compute. split; reflexivity. Qed.

Theorem C18_partial_update : forall (A : Type) (cur : list A) (opt : list (option A)) (d : A), length cur = length opt ->
  length (override cur opt) = length cur /\
  forall i, (i < length cur)%nat -> nth i (override cur opt) d = match nth i opt None with Some v => v | None => nth i cur d end.
Proof. intros A. exact (@override_spec A). Qed.
Print Assumptions C18_partial_update.

Example C18_ex :
  let l := fold_left dstep [DSet [97] [] [49] true; DSet [97] [83] [50] true; DSet [97] [] [51] true; DSet [98] [90] [52] false; DDel [97] []; DDel [99] []] [] in
  map dn_ref l = [[50]] /\ lookup [97] [83] l = Some [50] /\ lookup [97] [] l = None.
Proof. vm_compute. repeat split. Qed.
