(* C08 property theorems: the operator-precedence machine realises the expression tree. *)
From VF Require Import Base.Prelude Generated.Consts C08.Machine C08.MachineProofs C08.Model.
From Coq Require Import Floats.

(* for EVERY expression tree (any depth), any value type and any operator semantics: evaluating the token
   string printed with exactly the parentheses that precedence and left associativity require gives the value
   of the tree (errors included, in evaluation order) *)
Theorem C08_machine : forall (V : Type) (apply : binop -> V -> V -> res V) (neg pct : V -> V) (e : expr V),
  eval_tokens V apply neg pct (lin V e) = eval V apply neg pct e.
Proof. exact machine_correct. Qed.
Print Assumptions C08_machine.

(* the regenerated priority table is Excel's: ^ over * / over + - over & over comparisons; unary minus above ^ *)
Theorem C08_precedence_table :
  prio OPow = 5 /\ prio OMul = 4 /\ prio ODiv = 4 /\ prio OAdd = 3 /\ prio OSub = 3 /\ prio OCat = 2 /\
  prio OEq = 1 /\ prio ONe = 1 /\ prio OLt = 1 /\ prio OLe = 1 /\ prio OGt = 1 /\ prio OGe = 1 /\ pre_prio = 6.
Proof. repeat split; reflexivity. Qed.
Print Assumptions C08_precedence_table.

(* on numbers the implementation's arithmetic is Excel's (same float operation, #DIV/0! on a zero divisor) *)
Theorem C08_opsem_numbers : forall o x y bx by_,
  In o [OAdd; OSub; OMul; ODiv] ->
  apply_impl o (VNum x bx) (VNum y by_) = apply_excel_arith o (VNum x bx) (VNum y by_).
Proof. intros o x y bx by_ H. cbn in H. destruct H as [<-|[<-|[<-|[<-|[]]]]]; reflexivity. Qed.
Print Assumptions C08_opsem_numbers.

(* instance of the machine theorem for the concrete semantics that is extracted and corresponded *)
Theorem C08_machine_impl : forall e : expr val, eval_impl (lin val e) = eval val apply_impl neg_impl pct_impl e.
Proof. intro e. exact (machine_correct val apply_impl neg_impl pct_impl e). Qed.
Print Assumptions C08_machine_impl.

(* non-vacuity: -2^2 = 4, 2^3^2 = 64, 2*3% = 0.06 on the concrete instance *)
Example C08_ex1 : eval_impl [TPre val; TLit val (VNum 2 false); TOp val OPow; TLit val (VNum 2 false)] = Ok (VNum 4 false).
Proof. vm_compute. reflexivity. Qed.
Example C08_ex2 : eval_impl (lin val (Bin val OPow (Bin val OPow (Lit val (VNum 2 false)) (Lit val (VNum 3 false))) (Lit val (VNum 2 false)))) = Ok (VNum 64 false).
Proof. vm_compute. reflexivity. Qed.

(* where excelize's operator semantics is NOT Excel's (witnesses, replayed on the implementation each run) *)
Example C08_opsem_refuted_eq_text_number : apply_impl OEq (VStr [49]) (VNum 1 false) = Ok (vbool true).
Proof. vm_compute. reflexivity. Qed.
Example C08_opsem_refuted_case : apply_impl OEq (VStr [97]) (VStr [65]) = Ok (vbool false).
Proof. vm_compute. reflexivity. Qed.
