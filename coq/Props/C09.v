(* C09 property theorems: the evaluator machine does not panic on well-formed token strings, and the
   reference walk terminates on every reference graph. *)
From VF Require Import Base.Prelude Generated.Consts C08.Machine C08.MachineProofs C09.Model C09.Proofs.

(* on the token string of any expression tree the machine returns what the tree evaluates to; in particular it
   does not panic when the operator semantics does not *)
Theorem C09_no_panic_wellformed : forall (V : Type) (apply : binop -> V -> V -> res V) (neg pct : V -> V) (e : expr V),
  (forall o a b p, apply o a b <> Panic p) -> forall p, eval_tokens V apply neg pct (lin V e) <> Panic p.
Proof.
  intros V apply neg pct e Hap p. rewrite (machine_correct V apply neg pct e).
  induction e as [v|a IH|a IH|o a IHa b IHb]; cbn [eval]; try discriminate.
  - destruct (eval V apply neg pct a); cbn; [discriminate|discriminate|exact IH].
  - destruct (eval V apply neg pct a); cbn; [discriminate|discriminate|exact IH].
  - destruct (eval V apply neg pct a) as [va| |]; cbn [bind]; [|discriminate|exact IHa].
    destruct (eval V apply neg pct b) as [vb| |]; cbn [bind]; [apply Hap|discriminate|exact IHb].
Qed.
Print Assumptions C09_no_panic_wellformed.

(* EVERY token string, well-formed or not: the machine returns a value or an error, it never panics
   (the statement was false of the tree before fix cd64408: eval_tokens [TR] was a panic, reproduced on the
   implementation by SUM(({1,2;3,4}) ) *)
Theorem C09_no_panic : forall (V : Type) (apply : binop -> V -> V -> res V) (neg pct : V -> V),
  (forall o a b p, apply o a b <> Panic p) -> forall ts p, eval_tokens V apply neg pct ts <> Panic p.
Proof. intros V apply neg pct H ts p. exact (eval_tokens_no_panic V apply neg pct H ts p). Qed.
Print Assumptions C09_no_panic.

Example C09_ex_unbalanced : forall (V : Type) (apply : binop -> V -> V -> res V) (neg pct : V -> V),
  eval_tokens V apply neg pct [TR V] = Err E_INVALID.
Proof. intros. reflexivity. Qed.

(* the reference walk stops on every graph, cyclic or not, within (pending + (maxdeg+1) * N * (K+1)) steps *)
Theorem C09_terminates : forall g entry k, NoDup (keys g) ->
  forall fuel s, (mu g k s <= fuel)%nat -> stack (wrun fuel g entry k s) = [].
Proof. exact wrun_terminates. Qed.
Print Assumptions C09_terminates.

(* and evaluates at most N * (K+1) formulas besides the entry *)
Theorem C09_call_bound : forall g entry k fuel cs, NoDup (keys g) ->
  (calls (wrun fuel g entry k (mkW cs (fun _ => O) 1)) <= 1 + length (keys g) * S k)%nat.
Proof.
  intros g entry k fuel cs Hnd. pose proof (wrun_calls g entry k Hnd fuel (mkW cs (fun _ => O) 1)) as H.
  cbn [calls cnt] in H. rewrite budget_init in H. lia.
Qed.
Print Assumptions C09_call_bound.

Example C09_ex_cycle :
  let g := [(1, [2; 3]); (2, [3; 1]); (3, [1; 2; 3])] in
  let s := walk 100 g 1 0 in (stack s, calls s) = ([], 3%nat).
Proof. vm_compute. reflexivity. Qed.
