(* C17 property theorems: style registry (token model) and three-level style resolution (sheet core). *)
From VF Require Import Base.Prelude Generated.Consts C17.Model C17.Proofs C17.Dedup Sheet.Model Sheet.Proofs.

Theorem C17_get_new : forall k reg id reg', new_style k reg = Ok (id, reg') ->
  get_style reg' id = Some k /\ valid_id reg' id = true.
Proof. exact new_style_get. Qed.
Print Assumptions C17_get_new.

Theorem C17_stable : forall k reg id reg', new_style k reg = Ok (id, reg') ->
  forall j, valid_id reg j = true -> get_style reg' j = get_style reg j.
Proof. exact new_style_stable. Qed.
Print Assumptions C17_stable.

Theorem C17_dedup : forall k reg id reg', new_style k reg = Ok (id, reg') -> new_style k reg' = Ok (id, reg').
Proof. exact new_style_dedup. Qed.
Print Assumptions C17_dedup.

Theorem C17_history_stable : forall ks reg ids reg', run_styles ks reg = (ids, reg') ->
  forall j, valid_id reg j = true -> get_style reg' j = get_style reg j /\ valid_id reg' j = true.
Proof. exact run_styles_stable. Qed.
Print Assumptions C17_history_stable.

(* deduplicating, at full strength: after any history of registrations from the initial table no definition is
   held twice, and two requests of one history (that were not refused: id >= 0) received the same id exactly when
   they asked for the same (normalised) definition *)
Theorem C17_history_dedup : forall ks ids reg', run_styles ks init_reg = (ids, reg') ->
  NoDup reg' /\
  forall n m a b ka kb, nth_error ids n = Some a -> nth_error ids m = Some b ->
    nth_error ks n = Some ka -> nth_error ks m = Some kb -> 0 <= a -> 0 <= b ->
    (a = b <-> ka = kb).
Proof. exact history_dedup. Qed.
Print Assumptions C17_history_dedup.

(* every id handed out during a history denotes, in the final table, the definition asked for at that point *)
Theorem C17_history_issued : forall ks reg ids reg', run_styles ks reg = (ids, reg') ->
  forall n id k, nth_error ids n = Some id -> nth_error ks n = Some k -> 0 <= id ->
  get_style reg' id = Some k /\ valid_id reg' id = true.
Proof. exact run_styles_issued. Qed.
Print Assumptions C17_history_issued.

(* "registering the definition read back by GetStyle yields a style with that same definition": after any history,
   for every id GetStyle knows, NewStyle of its definition returns that very id and leaves the table as it is *)
Theorem C17_history_idem : forall ks ids reg' id k, run_styles ks init_reg = (ids, reg') -> get_style reg' id = Some k ->
  new_style k reg' = Ok (id, reg').
Proof. exact history_idem. Qed.
Print Assumptions C17_history_idem.

Example C17_dedup_ex : run_styles [7; 9; 7; 0; 9] init_reg = ([1; 2; 1; 0; 2], [0; 7; 9]).
Proof. vm_compute. reflexivity. Qed.

(* resolution order: the explicit cell style, otherwise the row's, otherwise the column's *)
Theorem C17_resolve : forall sh col rw,
  get_cell_style sh col rw =
  let explicit := match nth_error (rows sh) (Z.to_nat (rw - 1)) with
                  | Some r => match nth_error (r_cells r) (Z.to_nat (col - 1)) with Some c => c_s c | None => 0 end
                  | None => 0 end in
  if negb (explicit =? 0) then explicit
  else if negb (row_style sh rw =? 0) then row_style sh rw else col_style (cols sh) col.
Proof. intros. reflexivity. Qed.
Print Assumptions C17_resolve.

(* SetCellStyle on one cell changes that cell only (values, formulas and other cells' styles untouched) *)
Theorem C17_cell_style_exact : forall col rw s sh, WF sh -> 1 <= col -> 1 <= rw ->
  let sh' := set_style col rw s sh in
  WF sh' /\ merges sh' = merges sh /\
  forall col' rw', 1 <= col' -> 1 <= rw' -> (col' <> col \/ rw' <> rw) -> abs sh' col' rw' = abs sh col' rw'.
Proof. exact set_style_spec. Qed.
Print Assumptions C17_cell_style_exact.

Example C17_ex_registry : run_styles [7; 9; 7; 0; 9] init_reg = ([1; 2; 1; 0; 2], [0; 7; 9]).
Proof. vm_compute. reflexivity. Qed.
Example C17_ex_resolve :
  let sh := run [OColStyle 2 5; ORowStyle 3 6; OStyle 2 3 7; OSet 2 4 0 [49]; OSet 1 3 0 [49]] empty_sheet in
  (get_cell_style sh 2 3, get_cell_style sh 2 4, get_cell_style sh 1 3, get_cell_style sh 2 9, get_cell_style sh 4 4) = (7, 5, 6, 5, 0).
Proof. vm_compute. reflexivity. Qed.
