(* C16 property theorems: the sheet collection stays consistent over every operation history. *)
From VF Require Import Base.Prelude Generated.Consts C16.Model C16.Proofs.
From VF Require Import C16.Names C16.Frame.

Theorem C16_inv : forall ops,
  let wb := wrun ops init_wb in
  consistent wb = true /\ 0 <= active_index wb < Z.of_nat (length (sheets wb)).
Proof.
  intros ops. cbv zeta. pose proof (wrun_Cons ops init_wb init_Cons) as H. split.
  - now apply consistent_Cons.
  - apply active_index_in_range. destruct H as (_ & _ & (s & Hin & _)). intros E. rewrite E in Hin. destruct Hin.
Qed.
Print Assumptions C16_inv.

(* step lemmas, one per operation (each: accepted => still consistent) *)
Theorem C16_new_sheet : forall n wb wb', Cons (sheets wb) -> new_sheet n wb = Ok wb' -> Cons (sheets wb').
Proof. exact new_sheet_Cons. Qed.
Print Assumptions C16_new_sheet.
Theorem C16_delete_sheet : forall n wb wb', Cons (sheets wb) -> delete_sheet n wb = Ok wb' -> Cons (sheets wb').
Proof. exact delete_sheet_Cons. Qed.
Print Assumptions C16_delete_sheet.
Theorem C16_move_sheet : forall s t wb wb', Cons (sheets wb) -> move_sheet s t wb = Ok wb' -> Cons (sheets wb').
Proof. exact move_sheet_Cons. Qed.
Print Assumptions C16_move_sheet.
Theorem C16_set_sheet_name : forall s t wb wb', Cons (sheets wb) -> set_sheet_name s t wb = Ok wb' -> Cons (sheets wb').
Proof. exact set_sheet_name_Cons. Qed.
Print Assumptions C16_set_sheet_name.
Theorem C16_set_sheet_visible : forall n v h wb wb', Cons (sheets wb) -> set_sheet_visible n v h wb = Ok wb' -> Cons (sheets wb').
Proof. exact set_sheet_visible_Cons. Qed.
Print Assumptions C16_set_sheet_visible.

(* worksheet-scoped defined names: after any history of sheet operations and scoped definitions, the position a name
   stores as its scope denotes the worksheet (identified by its sheetId, unique in the collection) it was defined
   for, so GetDefinedName reports that worksheet's current name; names scoped to a deleted worksheet are gone *)
Theorem C16_scoped_names_follow : forall ops d k, In d (names (wrun ops init_wb)) -> d_scope d = Some k ->
  exists sh, nth_error (sheets (wrun ops init_wb)) (Z.to_nat k) = Some sh /\ w_id sh = d_home d /\
             scope_name (wrun ops init_wb) d = Some (w_name sh) /\
             (forall sh', In sh' (sheets (wrun ops init_wb)) -> w_id sh' = d_home d -> sh' = sh).
Proof. exact scoped_names_follow. Qed.
Print Assumptions C16_scoped_names_follow.

Example C16_names_ex :
  let wb := wrun [WNew [83;50]; WNew [83;51]; WSetName [97] [83;50] [120]; WSetName [98] [83;51] [121]; WMove [83;51] [83;104;101;101;116;49];
                  WDelete [83;50]; WRename [83;51] [84]] init_wb in
  map (fun d => (d_name d, scope_name wb d)) (names wb) = [([98], Some [84])].
Proof. vm_compute. reflexivity. Qed.

(* non-vacuity: hide / delete attempts on the last visible sheet are refused *)
Example C16_ex :
  let wb := wrun [WNew [83;50]; WVisible [83;50] false false; WActive 1; WVisible [83;104;101;101;116;49] false true;
                  WDelete [115;104;101;101;116;49]; WRename [83;50] [83;104;101;101;116;49]] init_wb in
  map (fun s => (w_name s, w_state s)) (sheets wb) = [([83;104;101;101;116;49], 0); ([83;50], 1)].
Proof. vm_compute. reflexivity. Qed.

(* "the content of sheets not targeted by an operation is unchanged": every sheet of the workbook after any operation
   is a sheet of the workbook before it with the same sheet id and the same content, except the sheet NewSheet
   appends (empty, the next id), the sheet a cell write lands on (fresh content, same id) and the target of CopySheet
   (the source's content under its own id) *)
Theorem C16_content_frame : forall wb o s', In s' (sheets (wstep wb o)) ->
  from_old (sheets wb) s' \/
  (exists n, o = WNew n /\ w_content s' = 0 /\ w_id s' = max_id (sheets wb) + 1) \/
  (exists n, o = WTouch n /\ name_eqf (w_name s') n = true /\ w_content s' = fresh wb /\
             exists s, In s (sheets wb) /\ w_id s = w_id s') \/
  (exists a b sf s, o = WCopy a b /\ nth_error (sheets wb) (Z.to_nat a) = Some sf /\ w_content s' = w_content sf /\
                    nth_error (sheets wb) (Z.to_nat b) = Some s /\ w_id s = w_id s').
Proof. exact content_frame. Qed.
Print Assumptions C16_content_frame.
