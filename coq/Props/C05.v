(* C05 property theorems: in every reachable state of the modelled cores the serialised structure is valid:
   rows strictly ascending and numbered by position, cells strictly ascending by column and consistent with their
   row (sheet core, any history of value/formula/style/row-style/column-style/merge/save operations); sheet names
   unique and valid with at least one visible sheet (sheet collection, any history).  Everything else the property
   lists is decided by the independent validator on the implementation. *)
From VF Require Import Base.Prelude Generated.Consts Sheet.Model Sheet.Proofs Sheet.Readers C05.Proofs C16.Model C16.Proofs.
From VF Require Import C03.Merge C03.MergeProofs.

Theorem C05_rows_cells_wf : forall ops, Forall op_ok ops ->
  forall i r, nth_error (xml_rows (run ops empty_sheet)) i = Some r ->
  r_r r = Z.of_nat i + 1 /\ incr_from 0 (r_cells r) /\ forall c, In c (r_cells r) -> c_row c = r_r r /\ 1 <= c_col c.
Proof. exact history_rows_wf. Qed.
Print Assumptions C05_rows_cells_wf.

Theorem C05_rows_ascending : forall sh, Inv sh -> forall i j ri rj,
  nth_error (xml_rows sh) i = Some ri -> nth_error (xml_rows sh) j = Some rj -> (i < j)%nat -> r_r ri < r_r rj.
Proof. exact serialised_rows_ascending. Qed.
Print Assumptions C05_rows_ascending.

(* the sheet list after any history of sheet-collection operations: unique (case-folded) names, every name valid,
   at least one visible sheet *)
Theorem C05_sheet_list_wf : forall ops, Cons (sheets (wrun ops init_wb)).
Proof. intros ops. exact (wrun_Cons ops init_wb init_Cons). Qed.
Print Assumptions C05_sheet_list_wf.

Example C05_ex :
  let sh := run [OSet 5 3 2 [120]; OStyle 2 3 7; OSet 1 7 0 [49]; OMerge 1 1 2 2; OSave; OSet 3 3 0 [50]] empty_sheet in
  map r_r (xml_rows sh) = [1; 2; 3; 4; 5; 6; 7] /\
  map (fun r => map c_col (r_cells r)) (xml_rows sh) = [[1; 2]; [1; 2]; [2; 3; 5]; []; []; []; [1]].
Proof. vm_compute. repeat split. Qed.

(* the <mergeCells> element the worksheet writer emits (workSheetWriter -> mergeOverlapCells) never holds two
   ranges sharing a cell, whatever ranges the sheet accumulated *)
Theorem C05_merged_ranges_disjoint : forall cells, Forall rect_ok cells ->
  ForallOrdPairs disjoint (norm cells) /\ Forall rect_ok (norm cells).
Proof. intros cells H. destruct (norm_disjoint cells H) as (A & B & _). exact (conj A B). Qed.
Print Assumptions C05_merged_ranges_disjoint.
