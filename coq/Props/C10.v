(* C10 property theorems (numeric rendering on exact decimals). Totality, date/time fields, elapsed forms,
   the float layer and unsupported tokens are decided on the implementation (oracles); DESIGN C10. *)
From VF Require Import Base.Prelude Generated.Consts C10.Model C10.Proofs.

(* the printed number R / 10^k is within half a unit of the last displayed place of the scaled stored decimal N1 / 10^m,
   and exact when the code shows all of its places *)
Theorem C10_round_accuracy : forall N1 m k, 0 <= N1 -> 0 <= k -> 0 <= m ->
  let R := round_to N1 m k in
  (m <= k -> R = N1 * 10 ^ (k - m)) /\
  (k < m -> Z.abs (2 * (R * 10 ^ (m - k) - N1)) <= 10 ^ (m - k)).
Proof. exact round_to_accuracy. Qed.
Print Assumptions C10_round_accuracy.

(* the placeholders of a section share out the pre-formatted text completely and in order, whatever their sizes
   and whatever the length of the text (longer: the first takes the surplus; shorter: leading places stay empty) *)
Theorem C10_layout : forall text ts, ts <> [] -> Forall (fun t => 0 < t) ts ->
  literal_loop text (sumz ts) (holders ts) 0 = text.
Proof. exact layout_whole. Qed.
Print Assumptions C10_layout.

Theorem C10_section : forall nsec sign, 1 <= nsec ->
  let '(idx, minus) := choose_section nsec sign in
  0 <= idx < nsec /\
  (sign > 0 -> idx = 0 /\ minus = false) /\
  (sign < 0 -> (nsec >= 2 -> idx = 1 /\ minus = false) /\ (nsec = 1 -> idx = 0 /\ minus = true)) /\
  (sign = 0 -> (nsec >= 3 -> idx = 2) /\ (nsec < 3 -> idx = 0) /\ minus = false).
Proof. exact choose_section_spec. Qed.
Print Assumptions C10_section.

(* thousands separators only insert commas: dropping them gives the digits back *)
Theorem C10_comma : forall s, (forall x, In x s -> x <> 44) -> filter (fun x => negb (x =? 44)) (comma_loop s) = s.
Proof. exact comma_loop_strip. Qed.
Print Assumptions C10_comma.

Example C10_ex :
  let code := [[NLit [36]; NHash 1; NComma; NHash 2; NZero 1; NPoint; NZero 2]; [NLit [40]; NHash 1; NComma; NHash 2; NZero 1; NPoint; NZero 2; NLit [41]]; [NLit [45]]] in
  render code 1 1234567891 3 = [36; 49; 44; 50; 51; 52; 44; 53; 54; 55; 46; 56; 57] /\      (* $1,234,567.89 *)
  render code (-1) 12346 1 = [40; 49; 44; 50; 51; 52; 46; 54; 48; 41] /\                      (* (1,234.60) *)
  render code 0 0 0 = [45] /\
  render [[NZero 1; NPoint; NZero 1; NPct 1]] (-1) 12345 5 = [45; 49; 50; 46; 51; 37].        (* -12.3% *)
Proof. vm_compute. repeat split. Qed.
