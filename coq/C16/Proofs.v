From VF Require Import Base.Prelude Generated.Consts C16.Model.
From Coq Require Import ZifyBool ZifyNat Permutation.

Definition key (s : wsheet) : bytes := to_upper (w_name s).

Lemma bytes_eqb_refl a : bytes_eqb a a = true.
Proof. induction a as [|x a IH]; cbn; [reflexivity|]. now rewrite Z.eqb_refl, IH. Qed.
Lemma bytes_eqb_true a : forall b, bytes_eqb a b = true <-> a = b.
Proof.
  induction a as [|x a IH]; intros [|y b]; cbn; split; intros H; try discriminate; try reflexivity.
  - apply andb_prop in H. destruct H as [H1 H2]. apply Z.eqb_eq in H1. apply IH in H2. now subst.
  - inversion H; subst. now rewrite Z.eqb_refl, bytes_eqb_refl.
Qed.
Lemma name_eqf_key s t : name_eqf (w_name s) (w_name t) = true <-> key s = key t.
Proof. unfold name_eqf, key. apply bytes_eqb_true. Qed.

Lemma names_unique_NoDup ss : names_unique ss = true <-> NoDup (map key ss).
Proof.
  induction ss as [|s ss IH]; cbn [names_unique map]; [split; [constructor|reflexivity]|].
  rewrite andb_true_iff, IH, negb_true_iff. split.
  - intros [H1 H2]. constructor; [|assumption]. intros Hin. apply in_map_iff in Hin.
    destruct Hin as (t & Ht & Hin). assert (E : existsb (fun t => name_eqf (w_name t) (w_name s)) ss = true).
    { apply existsb_exists. exists t. split; [assumption|]. now apply name_eqf_key. }
    congruence.
  - intros H. inversion H as [|? ? Hn Hd]; subst. split; [|assumption].
    destruct (existsb _ ss) eqn:E; [|reflexivity]. exfalso. apply Hn.
    apply existsb_exists in E. destruct E as (t & Hin & Ht). apply name_eqf_key in Ht.
    apply in_map_iff. exists t. auto.
Qed.

(* the four facts of [consistent] as propositions *)
Definition Cons (ss : list wsheet) : Prop :=
  NoDup (map key ss) /\ Forall (fun s => check_sheet_name (w_name s) = true) ss /\
  (exists s, In s ss /\ visible s = true).

Lemma consistent_Cons wb : consistent wb = true <-> Cons (sheets wb).
Proof.
  unfold consistent, Cons. rewrite !andb_true_iff, names_unique_NoDup, forallb_forall, Forall_forall, existsb_exists.
  split.
  - intros [[[H1 H2] H3] _]. auto.
  - intros (H1 & H2 & (s & Hin & Hv)). repeat split; auto; [exists s; auto|]. destruct (sheets wb); [destruct Hin|reflexivity].
Qed.

(* operations that keep names and states, or change them in a controlled way *)
Lemma map_keep_names (f : wsheet -> wsheet) ss :
  (forall s, w_name (f s) = w_name s) -> map key (map f ss) = map key ss.
Proof. intros H. rewrite map_map. apply map_ext. intros s. unfold key. now rewrite H. Qed.

Lemma combine_seq_map {A B} (f : nat * A -> B) (l : list A) : forall k,
  length (map f (combine (seq k (length l)) l)) = length l.
Proof. intros k. rewrite map_length, combine_length, seq_length. lia. Qed.

Lemma map_combine_names (g : nat -> wsheet -> wsheet) ss :
  (forall i s, w_name (g i s) = w_name s) ->
  forall k, map key (map (fun p => let '(i, s) := p in g i s) (combine (seq k (length ss)) ss)) = map key ss.
Proof.
  intros H. induction ss as [|s ss IH]; intros k; cbn; [reflexivity|].
  f_equal; [unfold key; now rewrite H|]. apply IH.
Qed.

Lemma map_combine_in (g : nat -> wsheet -> wsheet) ss : forall k x,
  In x (map (fun p => let '(i, s) := p in g i s) (combine (seq k (length ss)) ss)) ->
  exists i s, In s ss /\ x = g i s.
Proof.
  induction ss as [|s ss IH]; intros k x Hin; cbn in Hin; [contradiction|].
  destruct Hin as [<-|Hin]; [exists k, s; split; [now left|reflexivity]|].
  destruct (IH (S k) x Hin) as (i & t & Ht & E). exists i, t. split; [now right|assumption].
Qed.

Lemma map_combine_in_rev (g : nat -> wsheet -> wsheet) ss : forall k s,
  In s ss -> exists i, In (g i s) (map (fun p => let '(i, s) := p in g i s) (combine (seq k (length ss)) ss)).
Proof.
  induction ss as [|t ss IH]; intros k s Hin; [contradiction|]. cbn.
  destruct Hin as [->|Hin]; [exists k; now left|]. destruct (IH (S k) s Hin) as (i & Hi). exists i. now right.
Qed.

(* set_active / ungroup / copy / touch only rewrite selection or content *)
Lemma Cons_reindex (g : nat -> wsheet -> wsheet) ss :
  (forall i s, w_name (g i s) = w_name s /\ w_state (g i s) = w_state s) ->
  Cons ss -> Cons (map (fun p => let '(i, s) := p in g i s) (combine (seq 0 (length ss)) ss)).
Proof.
  intros Hg (H1 & H2 & (s & Hin & Hv)). split; [|split].
  - rewrite map_combine_names; [assumption|]. intros i t. apply Hg.
  - apply Forall_forall. intros x Hx. destruct (map_combine_in g ss 0 x Hx) as (i & t & Ht & ->).
    destruct (Hg i t) as [-> _]. rewrite Forall_forall in H2. now apply H2.
  - destruct (map_combine_in_rev g ss 0 s Hin) as (i & Hi). exists (g i s). split; [assumption|].
    unfold visible in *. destruct (Hg i s) as [_ ->]. assumption.
Qed.

Lemma Cons_set_active i wb : Cons (sheets wb) -> Cons (sheets (set_active i wb)).
Proof.
  intros H. unfold set_active. cbn [sheets].
  apply (Cons_reindex (fun i0 s => mkWs (w_name s) (w_id s) (w_state s) (Z.of_nat i0 =? (if i <? 0 then 0 else i)) (w_content s))); [|assumption].
  intros; cbn; auto.
Qed.

Lemma Cons_ungroup wb : Cons (sheets wb) -> Cons (sheets (ungroup wb)).
Proof.
  intros H. unfold ungroup. cbn [sheets].
  apply (Cons_reindex (fun i s => if Z.of_nat i =? active_index wb then s else mkWs (w_name s) (w_id s) (w_state s) false (w_content s))); [|assumption].
  intros i s. destruct (_ =? _); cbn; auto.
Qed.

Lemma Cons_map_same (f : wsheet -> wsheet) ss :
  (forall s, w_name (f s) = w_name s /\ w_state (f s) = w_state s) -> Cons ss -> Cons (map f ss).
Proof.
  intros Hf (H1 & H2 & (s & Hin & Hv)). split; [|split].
  - rewrite map_keep_names; [assumption|]. intros t. apply Hf.
  - apply Forall_forall. intros x Hx. apply in_map_iff in Hx. destruct Hx as (t & <- & Ht).
    destruct (Hf t) as [-> _]. rewrite Forall_forall in H2. now apply H2.
  - exists (f s). split; [now apply in_map|]. unfold visible in *. destruct (Hf s) as [_ ->]. assumption.
Qed.

(* removal and insertion *)
Lemma remove_at_perm {A} (l : list A) : forall n x, nth_error l n = Some x -> Permutation l (x :: remove_at l n).
Proof.
  induction l as [|y l IH]; intros [|n] x H; cbn in *; try discriminate.
  - inversion H; subst. reflexivity.
  - specialize (IH n x H). rewrite perm_swap. now constructor.
Qed.
Lemma insert_at_perm {A} (l : list A) : forall n x, Permutation (x :: l) (insert_at l n x).
Proof.
  induction l as [|y l IH]; intros [|n] x; cbn; try reflexivity.
  rewrite perm_swap. constructor. apply IH.
Qed.

Lemma Cons_perm ss ss' : Permutation ss ss' -> Cons ss -> Cons ss'.
Proof.
  intros P (H1 & H2 & (s & Hin & Hv)). split; [|split].
  - eapply Permutation_NoDup; [|eassumption]. now apply Permutation_map.
  - eapply Permutation_Forall; eassumption.
  - exists s. split; [|assumption]. eapply Permutation_in; eassumption.
Qed.

Lemma index_of_spec ss n : forall i k, index_of ss n i = k -> k <> -1 -> 0 <= i ->
  exists s, nth_error ss (Z.to_nat (k - i)) = Some s /\ name_eqf (w_name s) n = true /\ i <= k.
Proof.
  induction ss as [|s ss IH]; intros i k H Hk Hi; cbn in H; [lia|].
  destruct (name_eqf (w_name s) n) eqn:E.
  - subst k. replace (Z.to_nat (i - i)) with 0%nat by lia. exists s. cbn. repeat split; auto; lia.
  - destruct (IH (i + 1) k H Hk ltac:(lia)) as (t & Ht & Hn & Hle). exists t.
    replace (Z.to_nat (k - i)) with (S (Z.to_nat (k - (i + 1)))) by lia. cbn. repeat split; auto; lia.
Qed.

Lemma index_of_none ss n : forall i, 0 <= i -> index_of ss n i = -1 -> forall s, In s ss -> name_eqf (w_name s) n = false.
Proof.
  induction ss as [|t ss IH]; intros i Hi H s Hin; [contradiction|]. cbn in H.
  destruct (name_eqf (w_name t) n) eqn:E; [lia|]. destruct Hin as [->|Hin]; [assumption|].
  apply (IH (i + 1)); [lia|assumption|assumption].
Qed.

Lemma index_of_ge ss n : forall i, 0 <= i -> index_of ss n i = -1 \/ i <= index_of ss n i.
Proof.
  induction ss as [|t ss IH]; intros i Hi; cbn; [now left|].
  destruct (name_eqf (w_name t) n); [right; lia|]. destruct (IH (i + 1) ltac:(lia)); [now left|right; lia].
Qed.

(* ---- each operation keeps the workbook consistent ---- *)
Lemma NoDup_snoc {A} (l : list A) x : NoDup l -> ~ In x l -> NoDup (l ++ [x]).
Proof.
  induction l as [|a l IH]; intros H Hn; cbn.
  - constructor; [intros []|constructor].
  - inversion H as [|? ? Ha Hd]; subst. constructor.
    + intros Hin. apply in_app_or in Hin. destruct Hin as [Hin|[->|[]]]; [contradiction|]. apply Hn. now left.
    + apply IH; [assumption|]. intros Hin. apply Hn. now right.
Qed.

Lemma new_sheet_Cons n wb wb' : Cons (sheets wb) -> new_sheet n wb = Ok wb' -> Cons (sheets wb').
Proof.
  intros HC H. unfold new_sheet in H. destruct (check_sheet_name n) eqn:Ec; cbn in H; [|discriminate].
  destruct (Z.eqb_spec (sheet_index wb n) (-1)) as [E|N]; cbn in H; inversion H; subst; [|assumption].
  cbn [sheets]. destruct HC as (H1 & H2 & (s & Hin & Hv)). split; [|split].
  - rewrite map_app. cbn [map]. apply NoDup_snoc; [assumption|]. intros Hk. apply in_map_iff in Hk.
    destruct Hk as (t & Ht & Hint). pose proof (index_of_none _ _ 0 ltac:(lia) E t Hint) as Hf.
    unfold key in Ht. cbn [w_name] in Ht. unfold name_eqf in Hf. rewrite Ht, bytes_eqb_refl in Hf. discriminate.
  - apply Forall_app. split; [assumption|]. constructor; [assumption|constructor].
  - exists s. split; [apply in_or_app; now left|assumption].
Qed.

Lemma remove_at_in {A} (l : list A) : forall n x, In x (remove_at l n) -> In x l.
Proof.
  induction l as [|y l IH]; intros [|n] x H; cbn in *; auto. destruct H as [->|H]; [now left|right; eauto].
Qed.

Lemma remove_at_sub {A} (l : list A) : forall n x y, nth_error l n = Some y -> In x l -> x = y \/ In x (remove_at l n).
Proof.
  induction l as [|z l IH]; intros [|n] x y H Hin; cbn in *; try discriminate.
  - inversion H; subst. destruct Hin; [now left|now right].
  - destruct Hin as [->|Hin]; [right; now left|]. destruct (IH n x y H Hin); [now left|right; now right].
Qed.

Lemma delete_sheet_Cons n wb wb' : Cons (sheets wb) -> delete_sheet n wb = Ok wb' -> Cons (sheets wb').
Proof.
  intros HC H. unfold delete_sheet in H. destruct (check_sheet_name n); cbn in H; [|discriminate].
  destruct ((Z.of_nat (length (sheets wb)) =? 1) || (sheet_index wb n =? -1)) eqn:E1; [inversion H; now subst|].
  destruct (existsb (fun s => negb (name_eqf (w_name s) n) && visible s) (sheets wb)) eqn:E2; cbn in H; [|inversion H; now subst].
  inversion H; subst wb'. clear H. apply Cons_set_active. cbn [sheets].
  apply orb_false_elim in E1. destruct E1 as [_ E1]. apply Z.eqb_neq in E1.
  destruct (index_of_spec _ _ 0 _ eq_refl E1 ltac:(lia)) as (sd & Hsd & Hnd & _).
  rewrite Z.sub_0_r in Hsd. unfold sheet_index in *.
  pose proof (remove_at_perm _ _ _ Hsd) as P.
  destruct HC as (H1 & H2 & _). split; [|split].
  - apply (Permutation_map key) in P. apply (Permutation_NoDup P) in H1. cbn [map] in H1. inversion H1; subst; assumption.
  - apply (Permutation_Forall P) in H2. inversion H2; assumption.
  - apply existsb_exists in E2. destruct E2 as (s & Hin & Hs). apply andb_prop in Hs. destruct Hs as [Hne Hv].
    exists s. split; [|assumption]. destruct (remove_at_sub _ _ s sd Hsd Hin) as [->|]; [|assumption].
    rewrite Hnd in Hne. discriminate.
Qed.

Lemma move_sheet_Cons s t wb wb' : Cons (sheets wb) -> move_sheet s t wb = Ok wb' -> Cons (sheets wb').
Proof.
  intros HC H. unfold move_sheet in H. destruct (name_eqf s t); [inversion H; now subst|].
  destruct (negb (check_sheet_name s) || negb (check_sheet_name t)); [discriminate|].
  destruct (sheet_index wb s <? 0); [discriminate|]. destruct (sheet_index wb t <? 0); [discriminate|].
  destruct (nth_error (sheets (ungroup wb)) (Z.to_nat (sheet_index wb s))) as [x|] eqn:Ex; [|discriminate].
  inversion H; subst wb'. clear H. apply Cons_set_active. cbn [sheets].
  pose proof (Cons_ungroup wb HC) as HC0.
  eapply Cons_perm; [|exact HC0].
  etransitivity; [apply (remove_at_perm _ _ _ Ex)|apply insert_at_perm].
Qed.

Lemma set_sheet_name_Cons s t wb wb' : Cons (sheets wb) -> set_sheet_name s t wb = Ok wb' -> Cons (sheets wb').
Proof.
  intros HC H. unfold set_sheet_name in H.
  destruct (check_sheet_name s) eqn:Es; cbn in H; [|discriminate].
  destruct (check_sheet_name t) eqn:Et; cbn in H; [|discriminate].
  destruct (bytes_eqb t s) eqn:Ets; [inversion H; now subst|].
  destruct (negb (name_eqf t s) && negb (sheet_index wb t =? -1)) eqn:Eg; [discriminate|].
  inversion H; subst wb'. clear H. cbn [sheets].
  set (f := fun x => if bytes_eqb (w_name x) s then mkWs t (w_id x) (w_state x) (w_sel x) (w_content x) else x).
  destruct HC as (H1 & H2 & (v & Hin & Hv)). split; [|split].
  - (* keys: either the renamed sheet keeps its key (case change), or the new key is fresh *)
    destruct (name_eqf t s) eqn:Ef.
    + assert (Ek : map key (map f (sheets wb)) = map key (sheets wb)).
      { rewrite map_map. apply map_ext. intros x. unfold f, key. destruct (bytes_eqb (w_name x) s) eqn:Ex; [|reflexivity].
        cbn [w_name]. apply bytes_eqb_true in Ex. rewrite Ex. unfold name_eqf in Ef. now apply bytes_eqb_true in Ef. }
      now rewrite Ek.
    + cbn [negb andb] in Eg. apply negb_false_iff in Eg. apply Z.eqb_eq in Eg.
      pose proof (index_of_none _ _ 0 ltac:(lia) Eg) as Hfree.
      (* at most one sheet has exactly the name s (keys are unique) *)
      clear - H1 Hfree. induction (sheets wb) as [|x l IH]; cbn [map]; [constructor|].
      inversion H1 as [|? ? Hn Hd]; subst. specialize (IH Hd (fun y Hy => Hfree y (or_intror Hy))).
      constructor; [|assumption]. intros Hk. apply in_map_iff in Hk. destruct Hk as (y & Hy & Hiny).
      apply in_map_iff in Hiny. destruct Hiny as (z & <- & Hz).
      unfold f in Hy at 1. unfold f in Hy. 
      destruct (bytes_eqb (w_name z) s) eqn:Ez; destruct (bytes_eqb (w_name x) s) eqn:Ex; unfold key in Hy; cbn [w_name] in Hy.
      * apply bytes_eqb_true in Ez, Ex. apply Hn. apply in_map_iff. exists z. split; [unfold key; now rewrite Ez, Ex|assumption].
      * pose proof (Hfree x (or_introl eq_refl)) as Hx. unfold name_eqf in Hx. rewrite <- Hy, bytes_eqb_refl in Hx. discriminate.
      * pose proof (Hfree z (or_intror Hz)) as Hzf. unfold name_eqf in Hzf. rewrite Hy, bytes_eqb_refl in Hzf. discriminate.
      * apply Hn. apply in_map_iff. exists z. split; [exact Hy|assumption].
  - apply Forall_forall. intros x Hx. apply in_map_iff in Hx. destruct Hx as (y & <- & Hy). unfold f.
    destruct (bytes_eqb (w_name y) s); [exact Et|]. rewrite Forall_forall in H2. now apply H2.
  - exists (f v). split; [now apply in_map|]. unfold f. destruct (bytes_eqb (w_name v) s); assumption.
Qed.

Lemma NoDup_map_filter (p : wsheet -> bool) ss : NoDup (map key ss) -> NoDup (map key (filter p ss)).
Proof.
  induction ss as [|x ss IH]; cbn; intros H; [constructor|]. inversion H as [|? ? Hn Hd]; subst.
  destruct (p x); cbn; [|now apply IH]. constructor; [|now apply IH].
  intros Hin. apply Hn. apply in_map_iff in Hin. destruct Hin as (y & Hy & Hin). apply filter_In in Hin.
  apply in_map_iff. exists y. tauto.
Qed.

Lemma name_eqf_trans_key x n : name_eqf (w_name x) n = true -> key x = to_upper n.
Proof. unfold name_eqf, key. apply bytes_eqb_true. Qed.

Lemma set_sheet_visible_Cons n vis very wb wb' :
  Cons (sheets wb) -> set_sheet_visible n vis very wb = Ok wb' -> Cons (sheets wb').
Proof.
  intros HC H. unfold set_sheet_visible in H. destruct (check_sheet_name n); cbn in H; [|discriminate].
  destruct HC as (H1 & H2 & (v & Hin & Hv)).
  destruct vis; inversion H; subst wb'; clear H; cbn [sheets].
  - (* making a sheet visible *)
    set (f := fun s => if name_eqf (w_name s) n then mkWs (w_name s) (w_id s) 0 (w_sel s) (w_content s) else s).
    split; [|split].
    + rewrite map_keep_names; [assumption|]. intros s. unfold f. destruct (name_eqf _ _); reflexivity.
    + apply Forall_forall. intros x Hx. apply in_map_iff in Hx. destruct Hx as (y & <- & Hy).
      rewrite Forall_forall in H2. unfold f. destruct (name_eqf _ _); cbn; now apply H2.
    + exists (f v). split; [now apply in_map|]. unfold f. destruct (name_eqf _ _); [reflexivity|assumption].
  - (* hiding: only when another visible sheet remains *)
    set (cnt := Z.of_nat (length (filter visible (sheets wb)))).
    set (f := fun s => if name_eqf (w_name s) n && (cnt >? 1) && negb (w_sel s)
                       then mkWs (w_name s) (w_id s) (if very then 2 else 1) (w_sel s) (w_content s) else s).
    split; [|split].
    + rewrite map_keep_names; [assumption|]. intros s. unfold f. destruct (_ && _ && _); reflexivity.
    + apply Forall_forall. intros x Hx. apply in_map_iff in Hx. destruct Hx as (y & <- & Hy).
      rewrite Forall_forall in H2. unfold f. destruct (_ && _ && _); cbn; now apply H2.
    + destruct (Z.gtb_spec cnt 1) as [Hgt|Hle].
      * (* two visible sheets with different keys: one of them is not the target *)
        pose proof (NoDup_map_filter visible _ H1) as Hnd.
        unfold cnt in Hgt. destruct (filter visible (sheets wb)) as [|a [|b l]] eqn:Ef; cbn [length] in Hgt; try lia.
        assert (Ha : In a (filter visible (sheets wb))) by (rewrite Ef; now left).
        assert (Hb : In b (filter visible (sheets wb))) by (rewrite Ef; right; now left).
        apply filter_In in Ha, Hb. destruct Ha as [Ha1 Ha2], Hb as [Hb1 Hb2].
        cbn [map] in Hnd. inversion Hnd as [|? ? Hnab _]; subst.
        assert (Hab : key a <> key b) by (intros E; apply Hnab; left; now symmetry).
        destruct (name_eqf (w_name a) n) eqn:Ea.
        -- destruct (name_eqf (w_name b) n) eqn:Eb.
           ++ exfalso. apply Hab. now rewrite (name_eqf_trans_key a n Ea), (name_eqf_trans_key b n Eb).
           ++ exists (f b). split; [now apply in_map|]. unfold f. rewrite Eb. assumption.
        -- exists (f a). split; [now apply in_map|]. unfold f. rewrite Ea. assumption.
      * exists (f v). split; [now apply in_map|]. unfold f. rewrite andb_false_r. assumption.
Qed.

Lemma copy_sheet_Cons a b wb wb' : Cons (sheets wb) -> copy_sheet a b wb = Ok wb' -> Cons (sheets wb').
Proof.
  intros HC H. unfold copy_sheet in H. destruct ((a <? 0) || (b <? 0) || (a =? b)); [discriminate|].
  destruct (nth_error (sheets wb) (Z.to_nat a)) as [sf|]; [|discriminate].
  destruct (nth_error (sheets wb) (Z.to_nat b)); [|discriminate]. inversion H; subst wb'. cbn [sheets].
  apply (Cons_reindex (fun i s => if Z.of_nat i =? b then mkWs (w_name s) (w_id s) (w_state s) false (w_content sf) else s)); [|assumption].
  intros i s. destruct (_ =? _); cbn; auto.
Qed.

Lemma touch_Cons n wb wb' : Cons (sheets wb) -> touch n wb = Ok wb' -> Cons (sheets wb').
Proof.
  intros HC H. unfold touch in H. destruct (sheet_index wb n =? -1); [discriminate|]. inversion H; subst wb'. cbn [sheets].
  apply Cons_map_same; [|assumption]. intros s. destruct (name_eqf _ _); cbn; auto.
Qed.

Lemma wstep_Cons wb o : Cons (sheets wb) -> Cons (sheets (wstep wb o)).
Proof.
  intros HC. unfold wstep. destruct o as [n|n|s t|s t|n v h|i|a b|n|nm sc rf].
  - destruct (new_sheet n wb) eqn:E; try assumption. eapply new_sheet_Cons; eassumption.
  - destruct (delete_sheet n wb) eqn:E; try assumption. eapply delete_sheet_Cons; eassumption.
  - destruct (move_sheet s t wb) eqn:E; try assumption. eapply move_sheet_Cons; eassumption.
  - destruct (set_sheet_name s t wb) eqn:E; try assumption. eapply set_sheet_name_Cons; eassumption.
  - destruct (set_sheet_visible n v h wb) eqn:E; try assumption. eapply set_sheet_visible_Cons; eassumption.
  - now apply Cons_set_active.
  - destruct (copy_sheet a b wb) eqn:E; try assumption. eapply copy_sheet_Cons; eassumption.
  - destruct (touch n wb) eqn:E; try assumption. eapply touch_Cons; eassumption.
  - destruct (set_scoped_name nm sc rf wb) eqn:E; try assumption. unfold set_scoped_name in E.
    destruct (sheet_index wb sc <? 0); [discriminate|]. destruct (nth_error _ _); [|discriminate]. inversion E; subst. exact HC.
Qed.

Lemma wrun_Cons ops : forall wb, Cons (sheets wb) -> Cons (sheets (wrun ops wb)).
Proof.
  induction ops as [|o ops IH]; intros wb H; cbn [wrun fold_left]; [assumption|]. apply IH. now apply wstep_Cons.
Qed.

Lemma init_Cons : Cons (sheets init_wb).
Proof. apply consistent_Cons. vm_compute. reflexivity. Qed.

(* the active index always denotes an existing sheet *)
Lemma active_index_in_range wb : sheets wb <> [] -> 0 <= active_index wb < Z.of_nat (length (sheets wb)).
Proof.
  intros Hne. unfold active_index. destruct ((0 <=? active wb) && (active wb <? Z.of_nat (length (sheets wb)))) eqn:E; [lia|].
  destruct (sheets wb); [contradiction|cbn; lia].
Qed.
