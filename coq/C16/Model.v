(* C16 model: the sheet collection of a workbook (sheet.go NewSheet, DeleteSheet, MoveSheet, SetSheetName,
   SetSheetVisible, SetActiveSheet, CopySheet, GroupSheets, UngroupSheets; workbook.go setWorkbook). *)
From VF Require Import Base.Prelude Generated.Consts.

Record wsheet := mkWs {
  w_name : bytes;
  w_id : Z;                    (* sheetId *)
  w_state : Z;                 (* 0 visible | 1 hidden | 2 veryHidden *)
  w_sel : bool;                (* sheetView tabSelected *)
  w_content : Z }.             (* opaque content token (cells are the sheet core's business) *)

(* d_home is specification state: the sheetId of the worksheet the name was defined for (workbook names: -1) *)
Record dname := mkDn { d_name : bytes; d_scope : option Z (* localSheetId *); d_ref : bytes; d_home : Z }.

Record wbook := mkWb {
  sheets : list wsheet;
  active : Z;                  (* bookViews activeTab *)
  names : list dname;
  fresh : Z }.                 (* next content token *)

Definition init_wb : wbook := mkWb [mkWs [83;104;101;101;116;49] 1 0 true 0] 0 [] 1.

(* strings.EqualFold restricted to ASCII letters (names used by the harness fold only in ASCII) *)
Definition name_eqf (a b : bytes) : bool := bytes_eqb (to_upper a) (to_upper b).

(* sheet.go:checkSheetName on bytes: length counted in runes = bytes for ASCII names *)
Definition bad_char (b : Z) : bool :=
  (b =? 58) || (b =? 92) || (b =? 47) || (b =? 63) || (b =? 42) || (b =? 91) || (b =? 93).
Definition check_sheet_name (n : bytes) : bool :=
  match n with
  | [] => false
  | c :: _ => (Z.of_nat (length n) <=? MaxSheetNameLength) && negb (c =? 39) &&
              negb (match rev n with l :: _ => l =? 39 | [] => false end) && negb (existsb bad_char n)
  end.

Fixpoint index_of (ss : list wsheet) (n : bytes) (i : Z) : Z :=
  match ss with
  | [] => -1
  | s :: rest => if name_eqf (w_name s) n then i else index_of rest n (i + 1)
  end.
Definition sheet_index (wb : wbook) (n : bytes) : Z := index_of (sheets wb) n 0.

Definition max_id (ss : list wsheet) : Z := fold_left (fun m s => Z.max m (w_id s)) ss 0.
Definition visible (s : wsheet) : bool := w_state s =? 0.

(* sheet.go:GetActiveSheetIndex: the activeTab when it denotes a sheet, else the first sheet *)
Definition active_index (wb : wbook) : Z :=
  if (0 <=? active wb) && (active wb <? Z.of_nat (length (sheets wb))) then active wb else 0.
Definition name_at (wb : wbook) (i : Z) : bytes :=
  match nth_error (sheets wb) (Z.to_nat i) with Some s => if 0 <=? i then w_name s else [] | None => [] end.

(* sheet.go:SetActiveSheet *)
Definition set_active (idx0 : Z) (wb : wbook) : wbook :=
  let idx := if idx0 <? 0 then 0 else idx0 in
  let act := if idx <? Z.of_nat (length (sheets wb)) then idx else active wb in
  let ss := map (fun p => let '(i, s) := p in mkWs (w_name s) (w_id s) (w_state s) (Z.of_nat i =? idx) (w_content s))
                (combine (seq 0 (length (sheets wb))) (sheets wb)) in
  mkWb ss act (names wb) (fresh wb).

(* sheet.go:NewSheet *)
Definition new_sheet (n : bytes) (wb : wbook) : res wbook :=
  if negb (check_sheet_name n) then Err 1
  else if negb (sheet_index wb n =? -1) then Ok wb
  else Ok (mkWb (sheets wb ++ [mkWs n (max_id (sheets wb) + 1) 0 false 0]) (active wb) (names wb) (fresh wb)).

(* sheet.go:deleteAndAdjustDefinedNames *)
Definition adjust_names (k : Z) (ns : list dname) : list dname :=
  flat_map (fun d => match d_scope d with
                     | Some s => if s =? k then [] else if s >? k then [mkDn (d_name d) (Some (s - 1)) (d_ref d) (d_home d)] else [d]
                     | None => [d]
                     end) ns.

Fixpoint remove_at {A} (l : list A) (n : nat) : list A :=
  match l, n with
  | [], _ => []
  | _ :: r, O => r
  | x :: r, S k => x :: remove_at r k
  end.

(* sheet.go:DeleteSheet (after fix af0455d: the last visible sheet is kept) *)
Definition delete_sheet (n : bytes) (wb : wbook) : res wbook :=
  if negb (check_sheet_name n) then Err 1
  else
    let idx := sheet_index wb n in
    if (Z.of_nat (length (sheets wb)) =? 1) || (idx =? -1) then Ok wb
    else
      let others_visible := existsb (fun s => negb (name_eqf (w_name s) n) && visible s) (sheets wb) in
      if negb others_visible then Ok wb
      else
        let act_name := name_at wb (active_index wb) in
        let wb1 := mkWb (remove_at (sheets wb) (Z.to_nat idx)) (active wb) (adjust_names idx (names wb)) (fresh wb) in
        Ok (set_active (sheet_index wb1 act_name) wb1).

(* sheet.go:MoveSheet *)
Fixpoint insert_at {A} (l : list A) (n : nat) (x : A) : list A :=
  match n, l with
  | O, _ => x :: l
  | S k, [] => [x]
  | S k, y :: r => y :: insert_at r k x
  end.
(* sheet.go:MoveSheet, last loop: a scoped name follows its worksheet (matched by sheetId) to the new position *)
Fixpoint index_by_id (ss : list wsheet) (id : Z) (i : Z) : Z :=
  match ss with [] => -1 | s :: r => if w_id s =? id then i else index_by_id r id (i + 1) end.
Definition remap_names (old new : list wsheet) (ns : list dname) : list dname :=
  map (fun d => match d_scope d with
                | Some k => if (k <? 0) || (Z.of_nat (length old) <=? k) then d
                            else match nth_error old (Z.to_nat k) with
                                 | Some sh => let k' := index_by_id new (w_id sh) 0 in
                                              if k' <? 0 then d else mkDn (d_name d) (Some k') (d_ref d) (d_home d)
                                 | None => d
                                 end
                | None => d
                end) ns.
Definition ungroup (wb : wbook) : wbook :=
  let a := active_index wb in
  mkWb (map (fun p => let '(i, s) := p in
                      if Z.of_nat i =? a then s else mkWs (w_name s) (w_id s) (w_state s) false (w_content s))
            (combine (seq 0 (length (sheets wb))) (sheets wb)))
       (active wb) (names wb) (fresh wb).
Definition move_sheet (src tgt : bytes) (wb : wbook) : res wbook :=
  if name_eqf src tgt then Ok wb
  else if negb (check_sheet_name src) || negb (check_sheet_name tgt) then Err 1
  else
    let si := sheet_index wb src in
    let ti := sheet_index wb tgt in
    if si <? 0 then Err 2 else if ti <? 0 then Err 2
    else
      let wb0 := ungroup wb in
      let act_name := name_at wb0 (active_index wb0) in
      match nth_error (sheets wb0) (Z.to_nat si) with
      | None => Panic 1
      | Some s =>
        let rest := remove_at (sheets wb0) (Z.to_nat si) in
        let ti' := if ti >? si then ti - 1 else ti in
        let moved := insert_at rest (Z.to_nat ti') s in
        let wb1 := mkWb moved (active wb0) (remap_names (sheets wb0) moved (names wb0)) (fresh wb0) in
        Ok (set_active (sheet_index wb1 act_name) wb1)
      end.

(* sheet.go:SetSheetName (after fix e373db7); the source is matched exactly, the target case-insensitively *)
Definition set_sheet_name (src tgt : bytes) (wb : wbook) : res wbook :=
  if negb (check_sheet_name src) || negb (check_sheet_name tgt) then Err 1
  else if bytes_eqb tgt src then Ok wb
  else if negb (name_eqf tgt src) && negb (sheet_index wb tgt =? -1) then Err 3
  else Ok (mkWb (map (fun s => if bytes_eqb (w_name s) src then mkWs tgt (w_id s) (w_state s) (w_sel s) (w_content s) else s) (sheets wb))
                (active wb) (names wb) (fresh wb)).

(* sheet.go:SetSheetVisible (after fix 0859ca8) *)
Definition set_sheet_visible (n : bytes) (vis very : bool) (wb : wbook) : res wbook :=
  if negb (check_sheet_name n) then Err 1
  else if vis then
    Ok (mkWb (map (fun s => if name_eqf (w_name s) n then mkWs (w_name s) (w_id s) 0 (w_sel s) (w_content s) else s) (sheets wb))
             (active wb) (names wb) (fresh wb))
  else
    let count := Z.of_nat (length (filter visible (sheets wb))) in
    let st := if very then 2 else 1 in
    Ok (mkWb (map (fun s => if name_eqf (w_name s) n && (count >? 1) && negb (w_sel s)
                            then mkWs (w_name s) (w_id s) st (w_sel s) (w_content s) else s) (sheets wb))
             (active wb) (names wb) (fresh wb)).

(* sheet.go:CopySheet: the content of sheet [to] becomes a copy of sheet [from] *)
Definition copy_sheet (from to : Z) (wb : wbook) : res wbook :=
  if (from <? 0) || (to <? 0) || (from =? to) then Err 4
  else match nth_error (sheets wb) (Z.to_nat from), nth_error (sheets wb) (Z.to_nat to) with
       | Some sf, Some _ =>
         Ok (mkWb (map (fun p => let '(i, s) := p in
                                 if Z.of_nat i =? to then mkWs (w_name s) (w_id s) (w_state s) false (w_content sf) else s)
                       (combine (seq 0 (length (sheets wb))) (sheets wb)))
                  (active wb) (names wb) (fresh wb))
       | _, _ => Err 4
       end.

(* a cell write on a sheet gives it fresh content *)
Definition touch (n : bytes) (wb : wbook) : res wbook :=
  if sheet_index wb n =? -1 then Err 2
  else Ok (mkWb (map (fun s => if name_eqf (w_name s) n then mkWs (w_name s) (w_id s) (w_state s) (w_sel s) (fresh wb) else s) (sheets wb))
                (active wb) (names wb) (fresh wb + 1)).

(* sheet.go:SetDefinedName with a worksheet scope (the harness gives every call a new name; uniqueness per scope is
   C18's subject): the scope is stored as the worksheet's position *)
Definition set_scoped_name (nm scope ref : bytes) (wb : wbook) : res wbook :=
  let k := sheet_index wb scope in
  if k <? 0 then Err 2
  else match nth_error (sheets wb) (Z.to_nat k) with
       | Some sh => Ok (mkWb (sheets wb) (active wb) (names wb ++ [mkDn nm (Some k) ref (w_id sh)]) (fresh wb))
       | None => Err 2
       end.
(* what GetDefinedName reports as the scope of a name *)
Definition scope_name (wb : wbook) (d : dname) : option bytes :=
  match d_scope d with
  | Some k => if k <? 0 then None else option_map w_name (nth_error (sheets wb) (Z.to_nat k))
  | None => None
  end.

Inductive wop :=
| WNew (n : bytes) | WDelete (n : bytes) | WMove (s t : bytes) | WRename (s t : bytes)
| WVisible (n : bytes) (vis very : bool) | WActive (i : Z) | WCopy (from to : Z) | WTouch (n : bytes)
| WSetName (nm scope ref : bytes).

Definition wstep (wb : wbook) (o : wop) : wbook :=
  let r := match o with
           | WNew n => new_sheet n wb
           | WDelete n => delete_sheet n wb
           | WMove s t => move_sheet s t wb
           | WRename s t => set_sheet_name s t wb
           | WVisible n v h => set_sheet_visible n v h wb
           | WActive i => Ok (set_active i wb)
           | WCopy a b => copy_sheet a b wb
           | WTouch n => touch n wb
           | WSetName nm sc ref => set_scoped_name nm sc ref wb
           end in
  match r with Ok wb' => wb' | _ => wb end.      (* a rejected operation changes nothing *)
Definition wrun (ops : list wop) (wb : wbook) : wbook := fold_left wstep ops wb.

(* the consistency the user relies on *)
Fixpoint names_unique (ss : list wsheet) : bool :=
  match ss with
  | [] => true
  | s :: rest => negb (existsb (fun t => name_eqf (w_name t) (w_name s)) rest) && names_unique rest
  end.
Definition is_nil_ws (l : list wsheet) : bool := match l with [] => true | _ => false end.
Definition consistent (wb : wbook) : bool :=
  names_unique (sheets wb) && forallb (fun s => check_sheet_name (w_name s)) (sheets wb) &&
  existsb visible (sheets wb) && negb (is_nil_ws (sheets wb)).
