(* C16: "the content of sheets not targeted by an operation is unchanged" on the list model.  Every sheet of the
   workbook after an operation is a sheet of the workbook before it with the same sheet id and the same content,
   except: the sheet NewSheet appends (empty, a new id), the sheet a cell write lands on (fresh content, same id),
   and the target of CopySheet (the source's content, its own id). *)
From VF Require Import Base.Prelude Generated.Consts C16.Model.

Definition keeps (s s' : wsheet) : Prop := w_id s = w_id s' /\ w_content s = w_content s'.
Definition from_old (ss : list wsheet) (s' : wsheet) : Prop := exists s, In s ss /\ keeps s s'.

Lemma from_old_self ss s : In s ss -> from_old ss s.
Proof. intros H. exists s. split; [exact H|split; reflexivity]. Qed.

Lemma from_old_trans ss1 ss s' : from_old ss1 s' -> (forall s, In s ss1 -> from_old ss s) -> from_old ss s'.
Proof.
  intros (s1 & H1 & K1a & K1b) H. destruct (H s1 H1) as (s0 & H0 & K0a & K0b).
  exists s0. split; [exact H0|]. split; congruence.
Qed.

Lemma in_remove_at {A} : forall (l : list A) n x, In x (remove_at l n) -> In x l.
Proof.
  induction l as [|y r IH]; intros n x H; destruct n; cbn [remove_at] in H; try contradiction.
  - now right.
  - destruct H as [<-|H]; [now left|right; exact (IH _ _ H)].
Qed.

Lemma in_insert_at {A} : forall (l : list A) n y x, In x (insert_at l n y) -> x = y \/ In x l.
Proof.
  induction l as [|z r IH]; intros n y x H; destruct n; cbn [insert_at] in H.
  - destruct H as [<-|[]]. now left.
  - destruct H as [<-|[]]. now left.
  - destruct H as [<-|H]; [now left|now right].
  - destruct H as [<-|H]; [right; now left|]. destruct (IH _ _ _ H) as [->|H']; [now left|right; now right].
Qed.

(* an indexed rewrite of the sheet list that keeps ids and contents *)
Lemma indexed_map_from (f : nat -> wsheet -> wsheet) ss s' :
  (forall i s, keeps s (f i s)) ->
  In s' (map (fun p => let '(i, s) := p in f i s) (combine (seq 0 (length ss)) ss)) -> from_old ss s'.
Proof.
  intros Hf H. apply in_map_iff in H. destruct H as ([i s] & <- & Hin).
  exists s. split; [exact (in_combine_r _ _ _ _ Hin)|apply Hf].
Qed.

Lemma set_active_from i wb s' : In s' (sheets (set_active i wb)) -> from_old (sheets wb) s'.
Proof.
  unfold set_active. cbn [sheets]. intros H.
  apply (indexed_map_from (fun i0 s => mkWs (w_name s) (w_id s) (w_state s) (Z.of_nat i0 =? (if i <? 0 then 0 else i)) (w_content s))); [|exact H].
  intros; split; reflexivity.
Qed.

Lemma ungroup_from wb s' : In s' (sheets (ungroup wb)) -> from_old (sheets wb) s'.
Proof.
  unfold ungroup. cbn [sheets]. intros H.
  apply (indexed_map_from (fun i s => if Z.of_nat i =? active_index wb then s else mkWs (w_name s) (w_id s) (w_state s) false (w_content s))); [|exact H].
  intros i s. destruct (Z.of_nat i =? active_index wb); split; reflexivity.
Qed.

Lemma map_from (f : wsheet -> wsheet) ss s' : (forall s, keeps s (f s)) -> In s' (map f ss) -> from_old ss s'.
Proof. intros Hf H. apply in_map_iff in H. destruct H as (s & <- & Hin). exists s. split; [exact Hin|apply Hf]. Qed.

Theorem content_frame wb o s' : In s' (sheets (wstep wb o)) ->
  from_old (sheets wb) s' \/
  (exists n, o = WNew n /\ w_content s' = 0 /\ w_id s' = max_id (sheets wb) + 1) \/
  (exists n, o = WTouch n /\ name_eqf (w_name s') n = true /\ w_content s' = fresh wb /\
             exists s, In s (sheets wb) /\ w_id s = w_id s') \/
  (exists a b sf s, o = WCopy a b /\ nth_error (sheets wb) (Z.to_nat a) = Some sf /\ w_content s' = w_content sf /\
                    nth_error (sheets wb) (Z.to_nat b) = Some s /\ w_id s = w_id s').
Proof.
  intros H. unfold wstep in H. destruct o as [n|n|s t|s t|n v h|i|a b|n|nm sc ref].
  - (* NewSheet *)
    unfold new_sheet in H. destruct (negb (check_sheet_name n)); [left; now apply from_old_self|].
    destruct (negb (sheet_index wb n =? -1)); [left; now apply from_old_self|].
    cbn [sheets] in H. apply in_app_or in H. destruct H as [H|[<-|[]]]; [left; now apply from_old_self|].
    right; left. exists n. repeat split; reflexivity.
  - (* DeleteSheet *)
    left. unfold delete_sheet in H. destruct (negb (check_sheet_name n)); [now apply from_old_self|].
    destruct ((Z.of_nat (length (sheets wb)) =? 1) || (sheet_index wb n =? -1)); [now apply from_old_self|].
    destruct (negb (existsb _ (sheets wb))); [now apply from_old_self|].
    apply set_active_from in H. cbn [sheets] in H.
    apply (from_old_trans _ _ _ H). intros s0 Hs0. apply from_old_self. exact (in_remove_at _ _ _ Hs0).
  - (* MoveSheet *)
    left. unfold move_sheet in H. destruct (name_eqf s t); [now apply from_old_self|].
    destruct (negb (check_sheet_name s) || negb (check_sheet_name t)); [now apply from_old_self|].
    destruct (sheet_index wb s <? 0); [now apply from_old_self|]. destruct (sheet_index wb t <? 0); [now apply from_old_self|].
    destruct (nth_error (sheets (ungroup wb)) (Z.to_nat (sheet_index wb s))) as [sm|] eqn:En; [|now apply from_old_self].
    apply set_active_from in H. cbn [sheets] in H.
    apply (from_old_trans _ _ _ H). intros s0 Hs0.
    destruct (in_insert_at _ _ _ _ Hs0) as [->|Hr].
    + apply ungroup_from. exact (nth_error_In _ _ En).
    + apply ungroup_from. exact (in_remove_at _ _ _ Hr).
  - (* SetSheetName *)
    left. unfold set_sheet_name in H. destruct (negb (check_sheet_name s) || negb (check_sheet_name t)); [now apply from_old_self|].
    destruct (bytes_eqb t s); [now apply from_old_self|].
    destruct (negb (name_eqf t s) && negb (sheet_index wb t =? -1)); [now apply from_old_self|].
    cbn [sheets] in H. apply in_map_iff in H. destruct H as (s0 & <- & Hin). exists s0. split; [exact Hin|].
    destruct (bytes_eqb (w_name s0) s); split; reflexivity.
  - (* SetSheetVisible *)
    left. unfold set_sheet_visible in H. destruct (negb (check_sheet_name n)); [now apply from_old_self|].
    destruct v; cbn [sheets] in H.
    + apply in_map_iff in H. destruct H as (s0 & <- & Hin). exists s0. split; [exact Hin|].
      destruct (name_eqf (w_name s0) n); split; reflexivity.
    + apply in_map_iff in H. destruct H as (s0 & <- & Hin). exists s0. split; [exact Hin|].
      destruct (name_eqf (w_name s0) n && (Z.of_nat (length (filter visible (sheets wb))) >? 1) && negb (w_sel s0)); split; reflexivity.
  - (* SetActiveSheet *)
    left. exact (set_active_from i wb s' H).
  - (* CopySheet *)
    unfold copy_sheet in H. destruct ((a <? 0) || (b <? 0) || (a =? b)); [left; now apply from_old_self|].
    destruct (nth_error (sheets wb) (Z.to_nat a)) as [sf|] eqn:Ea; [|left; now apply from_old_self].
    destruct (nth_error (sheets wb) (Z.to_nat b)) as [sb|] eqn:Eb; [|left; now apply from_old_self].
    cbn [sheets] in H. apply in_map_iff in H. destruct H as ([i s0] & Hs' & Hin).
    destruct (Z.eqb_spec (Z.of_nat i) b) as [Ei|Ni].
    + right; right; right. exists a, b, sf, s0. subst s'. cbn [w_content w_id]. repeat split; try assumption.
      (* the i-th element of the list is the one paired with i *)
      assert (G : forall (l : list wsheet) k j x, In (j, x) (combine (seq k (length l)) l) -> nth_error l (j - k) = Some x /\ (k <= j)%nat).
      { induction l as [|y r IH]; intros k j x Hx; cbn [length seq combine] in Hx; [destruct Hx|].
        destruct Hx as [E|Hx].
        - inversion E; subst. rewrite Nat.sub_diag. split; [reflexivity|lia].
        - destruct (IH (S k) j x Hx) as [Hn Hk]. split; [|lia].
          replace (j - k)%nat with (S (j - S k)) by lia. exact Hn. }
      destruct (G (sheets wb) O i s0 Hin) as [Hn _]. rewrite Nat.sub_0_r in Hn.
      rewrite <- Ei, Nat2Z.id. exact Hn.
    + left. subst s'. exists s0. split; [exact (in_combine_r _ _ _ _ Hin)|split; reflexivity].
  - (* a cell write *)
    unfold touch in H. destruct (sheet_index wb n =? -1); [left; now apply from_old_self|].
    cbn [sheets] in H. apply in_map_iff in H. destruct H as (s0 & Hs' & Hin).
    destruct (name_eqf (w_name s0) n) eqn:En.
    + right; right; left. exists n. subst s'. cbn [w_name w_content w_id]. repeat split; try assumption. exists s0. split; [exact Hin|reflexivity].
    + left. subst s'. now apply from_old_self.
  - (* a scoped defined name *)
    left. unfold set_scoped_name in H. destruct (sheet_index wb sc <? 0); [now apply from_old_self|].
    destruct (nth_error (sheets wb) (Z.to_nat (sheet_index wb sc))); now apply from_old_self.
Qed.
