(* C16: worksheet-scoped defined names follow their worksheet through every operation on the sheet collection:
   the position stored as the scope always denotes the worksheet (identified by its sheetId) the name was defined
   for, and names scoped to a deleted worksheet go with it. *)
From VF Require Import Base.Prelude Generated.Consts C16.Model C16.Proofs.
From Coq Require Import ZifyBool ZifyNat Permutation.

Arguments ungroup : simpl never.
Arguments set_active : simpl never.

Definition ids (wb : wbook) : list Z := map w_id (sheets wb).
Definition NamesOK (idl : list Z) (ns : list dname) : Prop :=
  forall d k, In d ns -> d_scope d = Some k -> 0 <= k /\ nth_error idl (Z.to_nat k) = Some (d_home d).
Definition InvN (wb : wbook) : Prop := NoDup (ids wb) /\ NamesOK (ids wb) (names wb).

Lemma ids_combine (g : nat -> wsheet -> wsheet) ss : (forall i s, w_id (g i s) = w_id s) ->
  forall k, map w_id (map (fun p => let '(i, s) := p in g i s) (combine (seq k (length ss)) ss)) = map w_id ss.
Proof. intros H. induction ss as [|s ss IH]; intros k; cbn; [reflexivity|]. f_equal; [apply H|apply IH]. Qed.
Lemma ids_map (f : wsheet -> wsheet) ss : (forall s, w_id (f s) = w_id s) -> map w_id (map f ss) = map w_id ss.
Proof. intros H. rewrite map_map. apply map_ext. exact H. Qed.

Lemma ids_set_active i wb : ids (set_active i wb) = ids wb.
Proof. unfold ids, set_active. cbn [sheets]. apply (ids_combine (fun i0 s => mkWs (w_name s) (w_id s) (w_state s) (Z.of_nat i0 =? _) (w_content s))). reflexivity. Qed.
Lemma ids_ungroup wb : ids (ungroup wb) = ids wb.
Proof.
  unfold ids, ungroup. cbn [sheets].
  apply (ids_combine (fun i0 s => if Z.of_nat i0 =? active_index wb then s else mkWs (w_name s) (w_id s) (w_state s) false (w_content s))).
  intros i0 s. destruct (_ =? _); reflexivity.
Qed.
Lemma names_set_active i wb : names (set_active i wb) = names wb. Proof. reflexivity. Qed.

Lemma InvN_same wb wb' : ids wb' = ids wb -> names wb' = names wb -> InvN wb -> InvN wb'.
Proof. unfold InvN. intros -> ->. tauto. Qed.

Lemma max_id_ge ss : forall m, (forall s, In s ss -> w_id s <= fold_left (fun m s => Z.max m (w_id s)) ss m) /\ m <= fold_left (fun m s => Z.max m (w_id s)) ss m.
Proof.
  induction ss as [|a ss IH]; intros m; cbn [fold_left]; [split; [intros s []|lia]|].
  destruct (IH (Z.max m (w_id a))) as [H1 H2]. split; [|lia].
  intros s [E|Hi]; [subst; lia|exact (H1 s Hi)].
Qed.

Lemma nth_error_remove_at {A} (l : list A) : forall n i,
  nth_error (remove_at l n) i = if (i <? n)%nat then nth_error l i else nth_error l (S i).
Proof.
  induction l as [|x l IH]; intros n i.
  - destruct n; cbn [remove_at]; destruct (i <? _)%nat; destruct i; reflexivity.
  - destruct n as [|n]; cbn [remove_at].
    + destruct (Nat.ltb_spec i 0); [lia|reflexivity].
    + destruct i as [|i]; [reflexivity|]. cbn [nth_error]. rewrite IH.
      destruct (Nat.ltb_spec i n), (Nat.ltb_spec (S i) (S n)); try lia; reflexivity.
Qed.
Lemma remove_at_map {A B} (f : A -> B) (l : list A) : forall n, map f (remove_at l n) = remove_at (map f l) n.
Proof. induction l as [|x l IH]; intros [|n]; cbn; try reflexivity. now rewrite IH. Qed.
Lemma NoDup_remove_at {A} (l : list A) : forall n, NoDup l -> NoDup (remove_at l n).
Proof.
  induction l as [|x l IH]; intros [|n] H; cbn; try assumption; inversion H; subst; [assumption|].
  constructor; [|now apply IH]. intros Hin. apply H2. eapply remove_at_in. exact Hin.
Qed.

Lemma index_by_id_spec ss id : forall i, In id (map w_id ss) -> 0 <= i ->
  i <= index_by_id ss id i /\ nth_error (map w_id ss) (Z.to_nat (index_by_id ss id i - i)) = Some id.
Proof.
  induction ss as [|s ss IH]; intros i Hin Hi; [destruct Hin|]. cbn [index_by_id map].
  destruct (Z.eqb_spec (w_id s) id) as [E|N].
  - split; [lia|]. replace (Z.to_nat (i - i)) with 0%nat by lia. cbn. now rewrite E.
  - destruct Hin as [E|Hin]; [contradiction|]. destruct (IH (i + 1) Hin ltac:(lia)) as [H1 H2]. split; [lia|].
    replace (Z.to_nat (index_by_id ss id (i + 1) - i)) with (S (Z.to_nat (index_by_id ss id (i + 1) - (i + 1)))) by lia.
    exact H2.
Qed.

(* ---- each operation keeps the invariant ---- *)
Lemma new_sheet_InvN n wb wb' : InvN wb -> new_sheet n wb = Ok wb' -> InvN wb'.
Proof.
  unfold new_sheet. intros [Hnd Hn] H. destruct (negb (check_sheet_name n)); [discriminate|].
  destruct (negb (sheet_index wb n =? -1)); inversion H; subst wb'; [split; assumption|].
  unfold InvN, ids. cbn [sheets names]. rewrite map_app. cbn [map w_id]. split.
  - apply NoDup_snoc; [exact Hnd|]. intros Hin. apply in_map_iff in Hin. destruct Hin as (s & E & Hi).
    pose proof (proj1 (max_id_ge (sheets wb) 0) s Hi) as Hle. unfold max_id in E. lia.
  - intros d k Hd Hk. destruct (Hn d k Hd Hk) as [H0 Hnth]. split; [exact H0|].
    rewrite nth_error_app1; [exact Hnth|]. apply nth_error_Some. unfold ids in Hnth. rewrite Hnth. discriminate.
Qed.

Lemma set_scoped_name_InvN nm sc rf wb wb' : InvN wb -> set_scoped_name nm sc rf wb = Ok wb' -> InvN wb'.
Proof.
  unfold set_scoped_name. intros [Hnd Hn] H. destruct (Z.ltb_spec (sheet_index wb sc) 0); [discriminate|].
  destruct (nth_error (sheets wb) (Z.to_nat (sheet_index wb sc))) as [sh|] eqn:E; [|discriminate].
  inversion H; subst wb'. split; [exact Hnd|]. cbn [names]. unfold ids. cbn [sheets].
  intros d k Hd Hk. apply in_app_or in Hd. destruct Hd as [Hd|[Hd|[]]]; [exact (Hn d k Hd Hk)|].
  subst d. cbn [d_scope d_home] in *. injection Hk as <-. split; [assumption|]. now apply map_nth_error.
Qed.

Lemma delete_sheet_InvN n wb wb' : InvN wb -> delete_sheet n wb = Ok wb' -> InvN wb'.
Proof.
  unfold delete_sheet. intros [Hnd Hn] H. destruct (negb (check_sheet_name n)); [discriminate|].
  destruct ((Z.of_nat (length (sheets wb)) =? 1) || (sheet_index wb n =? -1)) eqn:E1; [inversion H; subst; split; assumption|].
  destruct (negb (existsb _ (sheets wb))); inversion H; subst wb'; [split; assumption|]. clear H.
  apply (InvN_same _ _ (ids_set_active _ _) (names_set_active _ _)).
  set (idx := sheet_index wb n) in *.
  assert (Hidx : 0 <= idx).
  { unfold idx, sheet_index. destruct (index_of_ge (sheets wb) n 0 ltac:(lia)) as [E|E]; [|exact E].
    apply Bool.orb_false_iff in E1. destruct E1 as [_ E1]. fold (sheet_index wb n) in E. lia. }
  unfold InvN, ids. cbn [sheets names]. rewrite remove_at_map. split; [now apply NoDup_remove_at|].
  intros d k Hd Hk. unfold adjust_names in Hd. apply in_flat_map in Hd. destruct Hd as (d0 & Hd0 & Hd).
  destruct (d_scope d0) as [s|] eqn:Es.
  - destruct (Hn d0 s Hd0 Es) as [Hs0 Hnth]. destruct (Z.eqb_spec s idx); [destruct Hd|].
    destruct (Z.gtb_spec s idx) as [Hgt|Hle]; destruct Hd as [Hd|[]]; subst d.
    + cbn [d_scope d_home] in *. injection Hk as <-. split; [lia|]. rewrite nth_error_remove_at.
      destruct (Nat.ltb_spec (Z.to_nat (s - 1)) (Z.to_nat idx)); [lia|]. replace (S (Z.to_nat (s - 1))) with (Z.to_nat s) by lia. exact Hnth.
    + rewrite Es in Hk. injection Hk as <-. split; [lia|]. rewrite nth_error_remove_at.
      destruct (Nat.ltb_spec (Z.to_nat s) (Z.to_nat idx)); [exact Hnth|lia].
  - destruct Hd as [Hd|[]]; subst d. rewrite Es in Hk. discriminate.
Qed.

Lemma remap_ok old moved ns : Permutation old moved -> NamesOK (map w_id old) ns ->
  NamesOK (map w_id moved) (remap_names old moved ns).
Proof.
  intros Hperm Hn d k Hd Hk. unfold remap_names in Hd. apply in_map_iff in Hd. destruct Hd as (d0 & E & Hd0).
  destruct (d_scope d0) as [k0|] eqn:Es; [|subst d; rewrite Es in Hk; discriminate].
  destruct (Hn d0 k0 Hd0 Es) as [H0 Hnth].
  assert (Hlen : (Z.to_nat k0 < length old)%nat) by (rewrite <- (map_length w_id); apply nth_error_Some; rewrite Hnth; discriminate).
  destruct (Z.ltb_spec k0 0); [lia|]. destruct (Z.leb_spec (Z.of_nat (length old)) k0); [lia|]. cbn [orb] in E.
  destruct (nth_error old (Z.to_nat k0)) as [sh|] eqn:Esh; [|apply nth_error_None in Esh; lia].
  assert (Hhome : w_id sh = d_home d0) by (rewrite (map_nth_error w_id _ _ Esh) in Hnth; now inversion Hnth).
  assert (Hin : In (w_id sh) (map w_id moved)).
  { eapply Permutation_in; [apply Permutation_map; exact Hperm|]. apply in_map. eapply nth_error_In. exact Esh. }
  destruct (index_by_id_spec moved (w_id sh) 0 Hin ltac:(lia)) as [Hge Hnth'].
  cbv zeta in E. destruct (Z.ltb_spec (index_by_id moved (w_id sh) 0) 0); [lia|]. subst d. cbn [d_scope d_home] in *.
  injection Hk as <-. split; [lia|]. rewrite Z.sub_0_r in Hnth'. rewrite Hnth', Hhome. reflexivity.
Qed.

Lemma move_sheet_InvN s t wb wb' : InvN wb -> move_sheet s t wb = Ok wb' -> InvN wb'.
Proof.
  intros [Hnd Hn] H. unfold move_sheet in H. destruct (name_eqf s t); [inversion H; subst; split; assumption|].
  destruct (negb (check_sheet_name s) || negb (check_sheet_name t)); [discriminate|].
  destruct (sheet_index wb s <? 0); [discriminate|]. destruct (sheet_index wb t <? 0); [discriminate|].
  destruct (nth_error (sheets (ungroup wb)) (Z.to_nat (sheet_index wb s))) as [x|] eqn:Ex; [|discriminate].
  inversion H; subst wb'. clear H.
  apply (InvN_same _ _ (ids_set_active _ _) (names_set_active _ _)). unfold InvN, ids. cbn [sheets names].
  assert (Hperm : Permutation (sheets (ungroup wb))
            (insert_at (remove_at (sheets (ungroup wb)) (Z.to_nat (sheet_index wb s)))
               (Z.to_nat (if sheet_index wb t >? sheet_index wb s then sheet_index wb t - 1 else sheet_index wb t)) x))
    by (etransitivity; [apply (remove_at_perm _ _ _ Ex)|apply insert_at_perm]).
  split.
  - eapply Permutation_NoDup; [apply Permutation_map; exact Hperm|]. exact (eq_ind_r (fun l => NoDup l) Hnd (ids_ungroup wb)).
  - apply remap_ok; [exact Hperm|]. exact (eq_ind_r (fun l => NamesOK l (names wb)) Hn (ids_ungroup wb)).
Qed.

Lemma rename_InvN s t wb wb' : InvN wb -> set_sheet_name s t wb = Ok wb' -> InvN wb'.
Proof.
  unfold set_sheet_name. intros HI H. destruct (negb (check_sheet_name s) || negb (check_sheet_name t)); [discriminate|].
  destruct (bytes_eqb t s); [inversion H; now subst|]. destruct (negb (name_eqf t s) && negb (sheet_index wb t =? -1)); [discriminate|].
  inversion H; subst wb'. apply InvN_same with (wb := wb); [|reflexivity|exact HI]. unfold ids. cbn [sheets]. apply ids_map. intros x. destruct (bytes_eqb _ _); reflexivity.
Qed.
Lemma visible_InvN n v h wb wb' : InvN wb -> set_sheet_visible n v h wb = Ok wb' -> InvN wb'.
Proof.
  unfold set_sheet_visible. intros HI H. destruct (negb (check_sheet_name n)); [discriminate|].
  destruct v; inversion H; subst wb'; (apply InvN_same with (wb := wb); [|reflexivity|exact HI]); unfold ids; cbn [sheets]; apply ids_map; intros x;
    match goal with |- context [if ?c then _ else _] => destruct c end; reflexivity.
Qed.
Lemma copy_InvN a b wb wb' : InvN wb -> copy_sheet a b wb = Ok wb' -> InvN wb'.
Proof.
  unfold copy_sheet. intros HI H. destruct ((a <? 0) || (b <? 0) || (a =? b)); [discriminate|].
  destruct (nth_error (sheets wb) (Z.to_nat a)) as [sf|]; [|discriminate]. destruct (nth_error (sheets wb) (Z.to_nat b)); [|discriminate].
  inversion H; subst wb'. apply InvN_same with (wb := wb); [|reflexivity|exact HI]. unfold ids. cbn [sheets].
  apply (ids_combine (fun i s => if Z.of_nat i =? b then mkWs (w_name s) (w_id s) (w_state s) false (w_content sf) else s)).
  intros i s. destruct (_ =? _); reflexivity.
Qed.
Lemma touch_InvN n wb wb' : InvN wb -> touch n wb = Ok wb' -> InvN wb'.
Proof.
  unfold touch. intros HI H. destruct (sheet_index wb n =? -1); [discriminate|]. inversion H; subst wb'.
  apply InvN_same with (wb := wb); [|reflexivity|exact HI]. unfold ids. cbn [sheets]. apply ids_map. intros x. destruct (name_eqf _ _); reflexivity.
Qed.

Lemma wstep_InvN wb o : InvN wb -> InvN (wstep wb o).
Proof.
  intros HI. unfold wstep. destruct o as [n|n|s t|s t|n v h|i|a b|n|nm sc rf].
  - destruct (new_sheet n wb) eqn:E; try assumption. eapply new_sheet_InvN; eassumption.
  - destruct (delete_sheet n wb) eqn:E; try assumption. eapply delete_sheet_InvN; eassumption.
  - destruct (move_sheet s t wb) eqn:E; try assumption. eapply move_sheet_InvN; eassumption.
  - destruct (set_sheet_name s t wb) eqn:E; try assumption. eapply rename_InvN; eassumption.
  - destruct (set_sheet_visible n v h wb) eqn:E; try assumption. eapply visible_InvN; eassumption.
  - exact (InvN_same _ _ (ids_set_active _ _) (names_set_active _ _) HI).
  - destruct (copy_sheet a b wb) eqn:E; try assumption. eapply copy_InvN; eassumption.
  - destruct (touch n wb) eqn:E; try assumption. eapply touch_InvN; eassumption.
  - destruct (set_scoped_name nm sc rf wb) eqn:E; try assumption. eapply set_scoped_name_InvN; eassumption.
Qed.
Lemma wrun_InvN ops : forall wb, InvN wb -> InvN (wrun ops wb).
Proof. induction ops as [|o ops IH]; intros wb H; cbn [wrun fold_left]; [assumption|]. apply IH. now apply wstep_InvN. Qed.
Lemma init_InvN : InvN init_wb.
Proof. split; [repeat constructor; intros []|intros d k []]. Qed.

(* what GetDefinedName reports: the name of the worksheet the name was defined for *)
Theorem scoped_names_follow ops : forall d k, In d (names (wrun ops init_wb)) -> d_scope d = Some k ->
  exists sh, nth_error (sheets (wrun ops init_wb)) (Z.to_nat k) = Some sh /\ w_id sh = d_home d /\
             scope_name (wrun ops init_wb) d = Some (w_name sh) /\
             (forall sh', In sh' (sheets (wrun ops init_wb)) -> w_id sh' = d_home d -> sh' = sh).
Proof.
  intros d k Hd Hk. destruct (wrun_InvN ops init_wb init_InvN) as [Hnd Hn]. destruct (Hn d k Hd Hk) as [H0 Hnth].
  unfold ids in Hnth. destruct (nth_error (sheets (wrun ops init_wb)) (Z.to_nat k)) as [sh|] eqn:E.
  - rewrite (map_nth_error w_id _ _ E) in Hnth. injection Hnth as Hid. exists sh. refine (conj eq_refl (conj Hid (conj _ _))).
    + unfold scope_name. rewrite Hk. destruct (Z.ltb_spec k 0); [lia|]. rewrite E. reflexivity.
    + intros sh' Hin' Hid'. apply In_nth_error in Hin'. destruct Hin' as [j Hj].
      assert (Ej : nth_error (ids (wrun ops init_wb)) j = Some (w_id sh')) by (unfold ids; now apply map_nth_error).
      assert (Ek : nth_error (ids (wrun ops init_wb)) (Z.to_nat k) = Some (w_id sh)) by (unfold ids; now apply map_nth_error).
      assert (j = Z.to_nat k).
      { apply (proj1 (NoDup_nth_error _) Hnd); [apply nth_error_Some; rewrite Ej; discriminate|]. rewrite Ej, Ek, Hid', Hid. reflexivity. }
      subst j. rewrite E in Hj. now inversion Hj.
  - apply nth_error_None in E. assert (nth_error (map w_id (sheets (wrun ops init_wb))) (Z.to_nat k) = None) by (apply nth_error_None; rewrite map_length; exact E).
    rewrite H in Hnth. discriminate.
Qed.
