(* C19 finite sweeps, closed by the VM (kept apart so that the other proofs re-check quickly). *)
From VF Require Import Base.Prelude Generated.Consts C19.Model C20.Proofs.
(* ---------- finite sweeps over the calendar ---------- *)
Definition in_excel_range (y m d : Z) : bool := (1900 <? y) || ((y =? 1900) && (3 <=? m)).

Definition date_ok_with (yb y m d : Z) : bool :=
  if valid_date y m d then
    let dn := days_of_civil y m d in
    (let '(y', m', d') := civil_of_days dn in (y' =? y) && (m' =? m) && (d' =? d)) &&
    (if in_excel_range y m d
     then (dn - epoch1900_days + bump_dn false dn =? excel_serial_from yb y m d)
     else true)
  else true.
Definition date_ok (y m d : Z) : bool := date_ok_with (excel_year_base y) y m d.

Definition year_ok_with (yb y : Z) : bool :=
  forallb (fun m => forallb (fun d => date_ok_with yb y m d) (zrange 1 31)) (zrange 1 12).

Definition ylen (y : Z) : Z := if excel_leap y then 366 else 365.

(* the year base is carried along instead of being recomputed for every year *)
Fixpoint sweep_years (k : nat) (y yb : Z) : bool :=
  match k with
  | O => true
  | S k' => year_ok_with yb y && sweep_years k' (y + 1) (yb + ylen y)
  end.

Lemma sweep_calendar : sweep_years (Z.to_nat 8100) 1900 0 = true.
Proof. vm_cast_no_check (eq_refl true). Qed.
Lemma sweep_1899 : year_ok_with 0 1899 = true.
Proof. vm_cast_no_check (eq_refl true). Qed.

Definition fliegel_ok (jd : Z) : bool :=
  let '(y, m, d) := fliegel jd in let '(y', m', d') := civil_of_days (jd - 2440588) in
  (y =? y') && (m =? m') && (d =? d').
Lemma sweep_fliegel : forallb fliegel_ok (zrange 2415000 1601) = true.
Proof. vm_cast_no_check (eq_refl true). Qed.

