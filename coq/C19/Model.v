(* C19 model: date.go timeToExcelTime / timeFromExcelTime, cell.go setCellTime.
   Two layers: exact integers (nanoseconds, days) and binary64 (Coq primitive floats, executed). *)
From VF Require Import Base.Prelude Generated.Consts.
From Coq Require Import Floats.

(* ---------- civil calendar (stands for Go's time.Date / AddDate; corresponded every run) ---------- *)
Definition days_of_civil (y m d : Z) : Z :=
  let y' := if m <=? 2 then y - 1 else y in
  let era := y' / 400 in
  let yoe := y' - era * 400 in
  let mp := if m >? 2 then m - 3 else m + 9 in
  let doy := (153 * mp + 2) / 5 + d - 1 in
  let doe := yoe * 365 + yoe / 4 - yoe / 100 + doy in
  era * 146097 + doe - 719468.

Definition civil_of_days (z0 : Z) : Z * Z * Z :=
  let z := z0 + 719468 in
  let era := z / 146097 in
  let doe := z - era * 146097 in
  let yoe := (doe - doe / 1460 + doe / 36524 - doe / 146096) / 365 in
  let y := yoe + era * 400 in
  let doy := doe - (365 * yoe + yoe / 4 - yoe / 100) in
  let mp := (5 * doy + 2) / 153 in
  let d := doy - (153 * mp + 2) / 5 + 1 in
  let m := if mp <? 10 then mp + 3 else mp - 9 in
  ((if m <=? 2 then y + 1 else y), m, d).

Definition greg_leap (y : Z) : bool :=
  ((y mod 4 =? 0) && negb (y mod 100 =? 0)) || (y mod 400 =? 0).
Definition month_len (leap : bool) (m : Z) : Z :=
  if m =? 2 then (if leap then 29 else 28)
  else nth (Z.to_nat (m - 1)) daysInMonth 0.
Definition valid_date (y m d : Z) : bool :=
  (1 <=? m) && (m <=? 12) && (1 <=? d) && (d <=? month_len (greg_leap y) m).

(* ---------- exact layer ---------- *)
Definition civ3 (t : Z * Z * Z) : Z := let '(y, m, d) := t in days_of_civil y m d.
Definition epoch1900_days : Z := civ3 excelMinTime1900.
Definition epoch1904_days : Z := civ3 excel1904Epoc.
Definition decode_epoch1900_days : Z := civ3 excel1900Epoc.
Definition epoch_days (date1904 : bool) : Z := if date1904 then epoch1904_days else epoch1900_days.
Definition decode_epoch_days (date1904 : bool) : Z := if date1904 then epoch1904_days else decode_epoch1900_days.
Definition buggy_start_days : Z := days_of_civil 1900 3 1.

(* nanoseconds between the wall-clock instant (day number dn, ns of day) and the epoch used by timeToExcelTime *)
Definition ns_since_epoch_dn (date1904 : bool) (dn nsod : Z) : Z :=
  (dn - epoch_days date1904) * dayNanoseconds + nsod.
Definition ns_since_epoch (date1904 : bool) (y m d nsod : Z) : Z :=
  ns_since_epoch_dn date1904 (days_of_civil y m d) nsod.

Definition chunk_days : Z := maxDuration / dayNanoseconds.   (* float64(maxDuration / dayNanoseconds) *)
Definition sat63 (z : Z) : Z := Z.max minInt64 (Z.min z maxInt64).   (* time.Time.Sub saturates *)

(* the chunk loop of timeToExcelTime on exact integers: returns (chunks, remaining diff) *)
Fixpoint chunk_loop (fuel : nat) (t chunks : Z) : option (Z * Z) :=
  match fuel with
  | O => None
  | S f => if sat63 t >=? maxDuration then chunk_loop f (t - maxDuration) (chunks + 1)
           else Some (chunks, sat63 t)
  end.

Definition bump_dn (date1904 : bool) (dn : Z) : Z :=
  if negb date1904 && (buggy_start_days <=? dn) then 1 else 0.

(* exact serial as a pair (whole days, ns remainder): serial = whole + rem / dayNanoseconds *)
Definition encode_exact_t (t bmp : Z) : option (Z * Z) :=
  if t <? 0 then Some (0, 0) else
  match chunk_loop 64 t 0 with
  | Some (chunks, diff) =>
    let rem := Z.rem diff dayNanoseconds in
    Some (chunks * chunk_days + (diff - rem) / dayNanoseconds + bmp, rem)
  | None => None
  end.
Definition encode_exact (date1904 : bool) (y m d nsod : Z) : option (Z * Z) :=
  let dn := days_of_civil y m d in
  encode_exact_t (ns_since_epoch_dn date1904 dn nsod) (bump_dn date1904 dn).

(* the day count Excel defines, written independently: years since 1900 with 1900 counted as a leap year *)
Definition excel_leap (y : Z) : bool := greg_leap y || (y =? 1900).
Fixpoint excel_days_before_year (k : nat) (y acc : Z) : Z :=   (* days in years y .. y+k-1, added to acc *)
  match k with O => acc | S k' => excel_days_before_year k' (y + 1) (acc + (if excel_leap y then 366 else 365)) end.
Fixpoint days_before_month (leap : bool) (m : nat) : Z :=
  match m with O => 0 | S m' => days_before_month leap m' + month_len leap (Z.of_nat (S m')) end.
Definition excel_year_base (y : Z) : Z := excel_days_before_year (Z.to_nat (y - 1900)) 1900 0.
Definition excel_serial_from (ybase y m d : Z) : Z :=
  ybase + days_before_month (excel_leap y) (Z.to_nat (m - 1)) + d.
Definition excel_serial_spec (y m d : Z) : Z := excel_serial_from (excel_year_base y) y m d.

(* decode on exact integers: Y = floor(N * x); Gregorian branch of timeFromExcelTime *)
Definition round_rule (t : Z) : Z :=
  let nsec := t mod 1000000000 in
  if nsec / 1000000 >? 500 then ((t + 500000000) / 1000000000) * 1000000000
  else (t / 1000000000) * 1000000000.
Definition decode_exact_ns (yfloor : Z) : Z := round_rule (yfloor + 86400).

(* ---------- binary64 layer (executed; bit-identical to Go for + - * /) ---------- *)
Definition f_of_Z (z : Z) : float := if z <? 0 then (- of_uint63 (Uint63.of_Z (- z)))%float else of_uint63 (Uint63.of_Z z).
Definition f_trunc (x : float) : Z :=
  match Prim2SF x with
  | S754_finite s m e =>
    let v := if 0 <=? e then Zpos m * 2 ^ e else Zpos m / 2 ^ (- e) in
    if s then - v else v
  | _ => 0
  end.

Fixpoint chunk_loop_f (fuel : nat) (t : Z) (result : float) : option (Z * float) :=
  match fuel with
  | O => None
  | S f => if sat63 t >=? maxDuration
           then chunk_loop_f f (t - maxDuration) (result + f_of_Z chunk_days)%float
           else Some (sat63 t, result)
  end.

(* date.go:timeToExcelTime *)
Definition encode_float_t (t bmp : Z) : option float :=
  if t <? 0 then Some 0%float else
  match chunk_loop_f 64 t 0%float with
  | Some (diff, result) =>
    let rem := Z.rem diff dayNanoseconds in
    let r := (result + (f_of_Z (diff - rem) / f_of_Z dayNanoseconds + f_of_Z rem / f_of_Z dayNanoseconds))%float in
    Some (if Z.eqb bmp 1 then (r + 1)%float else r)
  | None => None
  end.
Definition encode_float (date1904 : bool) (y m d nsod : Z) : option float :=
  let dn := days_of_civil y m d in
  encode_float_t (ns_since_epoch_dn date1904 dn nsod) (bump_dn date1904 dn).

(* cell.go:setCellTime: numeric iff serial > 0, or any instant from the epoch on in the 1904 system *)
Definition is_num (date1904 : bool) (y m d nsod : Z) (x : float) : bool :=
  (0 <? x)%float || (date1904 && (0 <=? ns_since_epoch true y m d nsod)).

(* date.go:doTheFliegelAndVanFlandernAlgorithm (all intermediate values non-negative here) *)
Definition fliegel (jd : Z) : Z * Z * Z :=
  let l := jd + 68569 in
  let n := Z.quot (4 * l) 146097 in
  let l := l - Z.quot (146097 * n + 3) 4 in
  let i := Z.quot (4000 * (l + 1)) 1461001 in
  let l := l - Z.quot (1461 * i) 4 + 31 in
  let j := Z.quot (80 * l) 2447 in
  let d := l - Z.quot (2447 * j) 80 in
  let l := Z.quot j 11 in
  let m := j + 2 - 12 * l in
  let y := 100 * (n - 49) + i + l in
  (y, m, d).

Definition modf (x : float) : float * float :=
  let i := f_of_Z (f_trunc x) in (i, (x - i)%float).

(* split ns since 0000-03-01-based day number into civil fields *)
Definition fields_of_ns (total : Z) : Z * Z * Z * Z * Z * Z * Z :=
  let day := total / dayNanoseconds in
  let nsod := total mod dayNanoseconds in
  let '(y, m, d) := civil_of_days day in
  (y, m, d, nsod / 3600000000000, (nsod / 60000000000) mod 60, (nsod / 1000000000) mod 60, nsod mod 1000000000).

(* date.go:julianDateToGregorianTime, shiftJulianToNoon, fractionOfADay *)
Definition julian_to_fields (part1 part2 : float) : Z * Z * Z * Z * Z * Z * Z :=
  let '(p1i, p1f) := modf part1 in
  let '(p2i, p2f) := modf part2 in
  let jd := (p1i + p2i)%float in
  let jf := (p1f + p2f)%float in
  let '(jd, jf) :=
    if ((-0.5 <? jf) && (jf <? 0.5))%float then (jd, (jf + 0.5)%float)
    else if (0.5 <=? jf)%float then ((jd + 1)%float, (jf - 0.5)%float)
    else if (jf <=? -0.5)%float then ((jd - 1)%float, (jf + 1.5)%float)
    else (jd, jf) in
  let '(y, m, d) := fliegel (f_trunc jd) in
  let frac := f_trunc (86400000000000 * jf + 500)%float in
  let nanos := Z.quot (Z.rem frac 1000000000) 1000 * 1000 in
  let frac := Z.quot frac 1000000000 in
  let secs := Z.rem frac 60 in
  let frac := Z.quot frac 60 in
  let mins := Z.rem frac 60 in
  let hours := Z.quot frac 60 in
  (* time.Date normalises overflowing fields *)
  fields_of_ns (days_of_civil y m d * dayNanoseconds + hours * 3600000000000 + mins * 60000000000 + secs * 1000000000 + nanos).

(* date.go:timeFromExcelTime *)
Definition decode_float (date1904 : bool) (x : float) : Z * Z * Z * Z * Z * Z * Z :=
  let whole := f_trunc x in
  if whole <=? 61 then
    julian_to_fields 2400000.5%float (x + (if date1904 then 16480 else 15018))%float
  else
    let floatPart := (x - f_of_Z whole + 1e-9)%float in
    let dur := f_trunc (86400000000000 * floatPart)%float in
    let total := (decode_epoch_days date1904 + whole) * dayNanoseconds + dur in
    fields_of_ns (round_rule total).
