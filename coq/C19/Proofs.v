From VF Require Import Base.Prelude Base.PreludeFacts Generated.Consts C19.Model C20.Proofs C19.Sweep.
From Coq Require Import ZifyBool.

(* ---------- the chunk loop computes whole days and remainder exactly (all t, unbounded) ---------- *)
Lemma sat63_id t : 0 <= t <= maxInt64 -> sat63 t = t.
Proof. unfold sat63, minInt64, maxInt64. lia. Qed.

Lemma sat63_ge t : 0 <= t -> (sat63 t >=? maxDuration) = (t >=? maxDuration).
Proof. unfold sat63, minInt64, maxInt64, maxDuration. lia. Qed.

Lemma chunk_loop_spec : forall fuel t chunks,
  0 <= t -> t / maxDuration < Z.of_nat fuel ->
  chunk_loop fuel t chunks = Some (chunks + t / maxDuration, t mod maxDuration).
Proof.
  induction fuel as [|f IH]; intros t chunks Ht Hf.
  - pose proof (Z.div_pos t maxDuration Ht). unfold maxDuration in *. lia.
  - cbn [chunk_loop]. rewrite sat63_ge by assumption.
    destruct (Z.geb_spec t maxDuration) as [Hge|Hlt].
    + assert (E : t = (t - maxDuration) + 1 * maxDuration) by ring.
      assert (Hd : t / maxDuration = (t - maxDuration) / maxDuration + 1).
      { rewrite E at 1. rewrite Z.div_add by (unfold maxDuration; lia). reflexivity. }
      assert (Hm : t mod maxDuration = (t - maxDuration) mod maxDuration).
      { rewrite E at 1. rewrite Z.mod_add by (unfold maxDuration; lia). reflexivity. }
      rewrite IH by lia. rewrite Hd, Hm. f_equal. f_equal. ring.
    + rewrite Z.div_small, Z.mod_small by lia.
      rewrite sat63_id by (unfold maxInt64, maxDuration in *; lia).
      f_equal. f_equal. ring.
Qed.

Lemma maxDuration_days : maxDuration = chunk_days * dayNanoseconds.
Proof. reflexivity. Qed.

Lemma encode_exact_spec t bmp :
  0 <= t -> t / maxDuration < 64 ->
  encode_exact_t t bmp = Some (t / dayNanoseconds + bmp, t mod dayNanoseconds).
Proof.
  intros Ht Hf. unfold encode_exact_t.
  destruct (Z.ltb_spec t 0); [lia|].
  rewrite chunk_loop_spec by (try assumption; cbn; lia).
  set (k := t / maxDuration). set (r := t mod maxDuration).
  assert (Hr : 0 <= r < maxDuration) by (apply Z.mod_pos_bound; reflexivity).
  assert (Et : t = maxDuration * k + r) by (apply Z.div_mod; discriminate).
  rewrite Z.rem_mod_nonneg by (try lia; unfold dayNanoseconds; lia).
  set (s := r mod dayNanoseconds). set (q := r / dayNanoseconds).
  assert (Hs : 0 <= s < dayNanoseconds) by (apply Z.mod_pos_bound; reflexivity).
  assert (Er : r = dayNanoseconds * q + s) by (apply Z.div_mod; discriminate).
  assert (Eq : (r - s) / dayNanoseconds = q).
  { replace (r - s) with (q * dayNanoseconds) by lia. apply Z.div_mul. discriminate. }
  assert (Ht2 : t = dayNanoseconds * (k * chunk_days + q) + s).
  { rewrite Et, maxDuration_days, Er. ring. }
  assert (Hdiv : t / dayNanoseconds = k * chunk_days + q).
  { symmetry. apply (Z.div_unique_pos t dayNanoseconds (k * chunk_days + q) s); assumption. }
  assert (Hmod : t mod dayNanoseconds = s).
  { symmetry. apply (Z.mod_unique_pos t dayNanoseconds (k * chunk_days + q) s); assumption. }
  cbn [Z.add]. rewrite Eq, Hdiv, Hmod. reflexivity.
Qed.

(* serial as one integer: whole * day + rem *)
Definition serial_ns (p : Z * Z) : Z := fst p * dayNanoseconds + snd p.

Lemma encode_monotone t1 b1 t2 b2 p1 p2 :
  0 <= t1 <= t2 -> t2 / maxDuration < 64 -> 0 <= b1 <= b2 ->
  encode_exact_t t1 b1 = Some p1 -> encode_exact_t t2 b2 = Some p2 ->
  serial_ns p1 <= serial_ns p2.
Proof.
  intros Ht Hf Hb H1 H2.
  assert (Hf1 : t1 / maxDuration < 64).
  { apply Z.le_lt_trans with (t2 / maxDuration); [|assumption]. apply Z.div_le_mono; [reflexivity|lia]. }
  rewrite encode_exact_spec in H1, H2 by lia. inversion H1; inversion H2; subst.
  unfold serial_ns. cbn [fst snd].
  pose proof (Z.div_mod t1 dayNanoseconds). pose proof (Z.div_mod t2 dayNanoseconds).
  unfold dayNanoseconds in *. nia.
Qed.

(* ---------- decode: any Y within 80467 ns of a whole-second instant T decodes to T ---------- *)
Lemma decode_exact_roundtrip T Y :
  0 <= T -> T mod 1000000000 = 0 -> -80467 <= Y - T <= 80467 -> decode_exact_ns Y = T.
Proof.
  intros HT Hmod HY. unfold decode_exact_ns, round_rule.
  set (t := Y + 86400).
  assert (E : T = 1000000000 * (T / 1000000000)) by (pose proof (Z.div_mod T 1000000000); lia).
  set (k := T / 1000000000) in *.
  assert (Ht : t = 1000000000 * k + (t - T)) by lia.
  assert (Hr : 0 <= t - T < 1000000000) by (unfold t; lia).
  assert (Hq : t / 1000000000 = k) by (symmetry; apply (Z.div_unique_pos t 1000000000 k (t - T)); lia).
  assert (Hm : t mod 1000000000 = t - T) by (symmetry; apply (Z.mod_unique_pos t 1000000000 k (t - T)); lia).
  rewrite Hm.
  assert (Hms : (t - T) / 1000000 <= 500).
  { apply Z.div_le_upper_bound; unfold t; lia. }
  destruct (Z.gtb_spec ((t - T) / 1000000) 500); [lia|].
  rewrite Hq. lia.
Qed.

(* a serial x = a / b within 2^-30 of the exact serial E / day has floor(day * x) within 80467 of E *)
Lemma floor_close a b E :
  0 < b -> Z.abs (a * dayNanoseconds - E * b) * 1073741824 <= b * dayNanoseconds ->
  -80467 <= (dayNanoseconds * a) / b - E <= 80467.
Proof.
  intros Hb Hc. unfold dayNanoseconds in *.
  pose proof (Z.div_mod (86400000000000 * a) b) as Hd.
  pose proof (Z.mod_pos_bound (86400000000000 * a) b Hb) as Hm.
  set (Y := 86400000000000 * a / b) in *.
  set (r := (86400000000000 * a) mod b) in *.
  assert (Hd' : 86400000000000 * a = b * Y + r) by lia.
  split.
  - apply Z.abs_le in Hc || idtac.
    assert (H1 : - (b * 86400000000000) <= (a * 86400000000000 - E * b) * 1073741824) by lia.
    assert (H2 : b * (Y - E) * 1073741824 + b * 1073741824 > - (b * 86400000000000)) by nia.
    assert (H3 : b * ((Y - E) * 1073741824 + 1073741824 + 86400000000000) > 0) by nia.
    assert (H4 : (Y - E) * 1073741824 + 1073741824 + 86400000000000 > 0) by nia.
    lia.
  - assert (H1 : (a * 86400000000000 - E * b) * 1073741824 <= b * 86400000000000) by lia.
    assert (H2 : b * (Y - E) * 1073741824 <= b * 86400000000000) by nia.
    assert (H3 : b * (86400000000000 - (Y - E) * 1073741824) >= 0) by nia.
    assert (H4 : 86400000000000 - (Y - E) * 1073741824 >= 0) by nia.
    lia.
Qed.

Lemma edby_acc : forall k y acc, excel_days_before_year k y acc = acc + excel_days_before_year k y 0.
Proof.
  induction k as [|k IH]; intros y acc; cbn [excel_days_before_year]; [lia|].
  rewrite IH. rewrite (IH (y + 1) (0 + _)). lia.
Qed.

Lemma sweep_years_spec : forall k y yb, sweep_years k y yb = true ->
  forall j, (j < k)%nat ->
  year_ok_with (yb + excel_days_before_year j y 0) (y + Z.of_nat j) = true.
Proof.
  induction k as [|k IH]; intros y yb H j Hj; [lia|].
  cbn [sweep_years] in H. apply andb_prop in H. destruct H as [H0 Hrest].
  destruct j as [|j].
  - cbn [excel_days_before_year]. replace (yb + 0) with yb by lia.
    replace (y + Z.of_nat 0) with y by lia. exact H0.
  - specialize (IH (y + 1) (yb + ylen y) Hrest j ltac:(lia)).
    cbn [excel_days_before_year]. rewrite edby_acc.
    replace (y + Z.of_nat (S j)) with (y + 1 + Z.of_nat j) by lia.
    unfold ylen in IH.
    replace (yb + (0 + (if excel_leap y then 366 else 365) + excel_days_before_year j (y + 1) 0))
      with (yb + (if excel_leap y then 366 else 365) + excel_days_before_year j (y + 1) 0) by lia.
    exact IH.
Qed.

Lemma year_ok_all y : 1899 <= y <= 9999 -> year_ok_with (excel_year_base y) y = true.
Proof.
  intros Hy. destruct (Z.eq_dec y 1899) as [->|Hne].
  - exact sweep_1899.
  - pose proof (sweep_years_spec _ _ _ sweep_calendar (Z.to_nat (y - 1900)) ltac:(lia)) as H.
    replace (1900 + Z.of_nat (Z.to_nat (y - 1900))) with y in H by lia.
    unfold excel_year_base. replace (0 + excel_days_before_year (Z.to_nat (y - 1900)) 1900 0)
      with (excel_days_before_year (Z.to_nat (y - 1900)) 1900 0) in H by lia.
    exact H.
Qed.

Lemma nth_days_le k : nth k daysInMonth 0 <= 31.
Proof.
  unfold daysInMonth.
  do 12 (destruct k as [|k]; [cbn [nth]; lia|]). destruct k; cbn [nth]; lia.
Qed.

Lemma month_len_le leap m : month_len leap m <= 31.
Proof.
  unfold month_len. destruct (m =? 2); [destruct leap; lia|]. apply nth_days_le.
Qed.

Lemma valid_date_bounds y m d : valid_date y m d = true -> 1 <= m <= 12 /\ 1 <= d <= 31.
Proof.
  unfold valid_date. intros H.
  repeat (match goal with H : (_ && _)%bool = true |- _ => apply andb_prop in H; destruct H end).
  pose proof (month_len_le (greg_leap y) m). lia.
Qed.

Lemma date_ok_all y m d :
  1899 <= y <= 9999 -> valid_date y m d = true -> date_ok y m d = true.
Proof.
  intros Hy Hv. destruct (valid_date_bounds y m d Hv) as (Hm & Hd).
  pose proof (year_ok_all y Hy) as Hs. unfold year_ok_with in Hs. rewrite forallb_forall in Hs.
  assert (Him : In m (zrange 1 12)) by (apply in_zrange; lia).
  specialize (Hs m Him). rewrite forallb_forall in Hs.
  unfold date_ok. apply Hs. apply in_zrange. lia.
Qed.

Lemma civil_roundtrip y m d :
  1899 <= y <= 9999 -> valid_date y m d = true ->
  civil_of_days (days_of_civil y m d) = (y, m, d).
Proof.
  intros Hy Hv. pose proof (date_ok_all y m d Hy Hv) as H. unfold date_ok, date_ok_with in H. rewrite Hv in H.
  apply andb_prop in H. destruct H as [H _].
  destruct (civil_of_days (days_of_civil y m d)) as [[y' m'] d'].
  repeat (match goal with H : (_ && _)%bool = true |- _ => apply andb_prop in H; destruct H end).
  f_equal; [f_equal|]; lia.
Qed.

Lemma daycount_excel y m d :
  1900 <= y <= 9999 -> valid_date y m d = true -> in_excel_range y m d = true ->
  days_of_civil y m d - epoch1900_days + bump_dn false (days_of_civil y m d) = excel_serial_spec y m d.
Proof.
  intros Hy Hv Hr. assert (Hy' : 1899 <= y <= 9999) by lia.
  pose proof (date_ok_all y m d Hy' Hv) as H. unfold date_ok, date_ok_with in H. rewrite Hv, Hr in H.
  apply andb_prop in H. destruct H as [_ H]. unfold excel_serial_spec. lia.
Qed.

Lemma fliegel_civil jd : 2415000 <= jd <= 2416600 -> fliegel jd = civil_of_days (jd - 2440588).
Proof.
  intros H. pose proof sweep_fliegel as Hs. rewrite forallb_forall in Hs.
  assert (Hin : In jd (zrange 2415000 1601)) by (apply in_zrange; change (Z.of_nat 1601) with 1601; lia).
  specialize (Hs jd Hin). unfold fliegel_ok in Hs.
  destruct (fliegel jd) as [[y m] d]. destruct (civil_of_days (jd - 2440588)) as [[y' m'] d'].
  repeat (match goal with H : (_ && _)%bool = true |- _ => apply andb_prop in H; destruct H end).
  f_equal; [f_equal|]; lia.
Qed.
