(* C03: merge.go:mergeOverlapCells / flatMergedCells / mergeCell, the normalisation that GetMergeCells and the
   worksheet writer apply to the list of merged ranges.
   The Go code keeps a matrix of *xlsxMergeCell pointers; pointer identity is modelled by a number that is unique
   within a pass (index i for the i-th range as given, n+i for the union created while the i-th range is processed). *)
From VF Require Import Base.Prelude Generated.Consts Sheet.Model.

Definition ent := (nat * rect)%type.              (* identity, rectangle *)
Definition matrix := Z -> Z -> option ent.
Definition mempty : matrix := fun _ _ => None.
Definition fill (m : matrix) (r : rect) (e : ent) : matrix := fun x y => if in_rect x y r then Some e else m x y.

(* positions of a rectangle in the order of the Go loops (x outer, y inner): Sheet.Model.rect_cells *)
Definition scan_cells (r : rect) : list (Z * Z) := rect_cells r.
(* overlapCells as collected by the scan (one entry per covered position that is already taken) *)
Definition overlaps (m : matrix) (r : rect) : list ent :=
  flat_map (fun p => match m (fst p) (snd p) with Some e => [e] | None => [] end) (scan_cells r).

(* merge.go:mergeCell: bounding box.  The Go function swaps coordinates inside the two cached rect slices, and the
   range it returns shares its slice with its first argument: after `newCell = mergeCell(cell, overlapCell)` for
   every overlapCell, cell.rect (and so the last newCell) holds the bounding box of cell and ALL of them, while each
   overlapCell.rect shrinks to the intersection.  A shrunk range never survives the pass (all its positions are
   overwritten), so the model keeps rectangles immutable and takes the bounding box of everything overlapped; the
   correspondence check compares the result with the implementation on overlapping histories. *)
Definition union_rect (a b : rect) : rect :=
  let '(a1, b1, a2, b2) := a in let '(c1, d1, c2, d2) := b in (Z.min a1 c1, Z.min b1 d1, Z.max a2 c2, Z.max b2 d2).
Definition union_all (r : rect) (ls : list ent) : rect := fold_left (fun a e => union_rect a (snd e)) ls r.

(* one iteration of the loop in flatMergedCells for the range with index i of n *)
Definition flat_step (n i : nat) (m : matrix) (r : rect) : matrix * ent :=
  match overlaps m r with
  | [] => (fill m r (i, r), (i, r))
  | ls => let nr := union_all r ls in (fill (fill m r (i, r)) nr ((n + i)%nat, nr), ((n + i)%nat, nr))
  end.

Fixpoint flat (n i : nat) (m : matrix) (l : list rect) : matrix * list ent :=
  match l with
  | [] => (m, [])
  | r :: l' =>
    let '(m1, e) := flat_step n i m r in
    let '(m2, es) := flat n (S i) m1 l' in (m2, e :: es)
  end.

(* second loop of mergeOverlapCells: a range goes away only when the range now at its top-left position is another
   one that contains it (it has been joined into that one); a range that merely lies under the bounding box of a
   join is kept and joined by the next pass *)
Definition contains (outer inner : rect) : bool :=
  let '(a1, b1, a2, b2) := outer in let '(c1, d1, c2, d2) := inner in (a1 <=? c1) && (b1 <=? d1) && (c2 <=? a2) && (d2 <=? b2).
Definition keep (m : matrix) (e : ent) : bool :=
  let '(x1, y1, _, _) := snd e in
  match m x1 y1 with Some (id, r) => Nat.eqb id (fst e) || negb (contains r (snd e)) | None => true end.
Definition sweep (m : matrix) (l : list ent) : list ent := filter (keep m) l.

Definition pass (cells : list rect) : list rect :=
  let '(m, es) := flat (length cells) 0 mempty cells in map snd (sweep m es).

(* mergeOverlapCells repeats the pass while it shortened the list; fuel = number of ranges suffices (norm_fuel) *)
Fixpoint norm_fuel (fuel : nat) (cells : list rect) : list rect :=
  match fuel with
  | O => cells
  | S k => let out := pass cells in if Nat.ltb (length out) (length cells) then norm_fuel k out else out
  end.
Definition norm (cells : list rect) : list rect := norm_fuel (length cells) cells.

Definition disjoint (a b : rect) : Prop := forall x y, in_rect x y a = true -> in_rect x y b = true -> False.

(* cell.go:isOverlap as used by UnmergeCell: a corner of one rectangle lies in the other (two ranges crossing like a
   plus sign share cells but no corner, and are not "overlapping" for UnmergeCell) *)
Definition is_overlap (a b : rect) : bool :=
  let '(a1, b1, a2, b2) := a in let '(c1, d1, c2, d2) := b in
  in_rect a1 b1 b || in_rect a2 b1 b || in_rect a1 b2 b || in_rect a2 b2 b ||
  in_rect c1 d1 a || in_rect c2 d1 a || in_rect c1 d2 a || in_rect c2 d2 a.

(* the merged-range list of a worksheet under MergeCell / UnmergeCell / GetMergeCells (which normalises in place) *)
Inductive mop := MMerge (r : rect) | MUnmerge (r : rect) | MGet.
Definition merge_step (cells : list rect) (o : mop) : list rect :=
  match o with
  | MMerge r => cells ++ [r]
  | MUnmerge r => filter (fun c => negb (is_overlap r c)) (norm cells)
  | MGet => norm cells
  end.
Definition merge_run (ops : list mop) : list rect := fold_left merge_step ops [].
Definition reported (ops : list mop) : list rect := norm (merge_run ops).
Definition mop_ok (o : mop) : Prop := match o with MMerge r | MUnmerge r => let '(c1, r1, c2, r2) := r in 1 <= c1 <= c2 /\ 1 <= r1 <= r2 | MGet => True end.
