(* C03: the ranges mergeOverlapCells leaves are pairwise disjoint, for every list of ranges. *)
From VF Require Import Base.Prelude Generated.Consts Sheet.Model Sheet.Proofs C03.Merge.
From Coq Require Import ZifyBool ZifyNat.

Arguments union_all : simpl never.

Lemma in_zseq lo n x : In x (zseq lo n) <-> lo <= x < lo + Z.of_nat n.
Proof.
  revert lo; induction n as [|n IH]; intros lo; cbn [zseq In].
  - split; [tauto|lia].
  - rewrite IH. split; [intros [E|H]; lia | intros H; destruct (Z.eq_dec lo x); [left; assumption | right; lia]].
Qed.

Lemma in_scan x y r : In (x, y) (scan_cells r) <-> in_rect x y r = true.
Proof.
  unfold scan_cells, rect_cells, in_rect. destruct r as [[[x1 y1] x2] y2]. rewrite in_flat_map. split.
  - intros (cx & Hcx & Hin). apply in_map_iff in Hin. destruct Hin as (cy & E & Hcy). inversion E; subst.
    apply in_zseq in Hcx. apply in_zseq in Hcy. lia.
  - intros H. exists x. split; [apply in_zseq; lia|]. apply in_map_iff. exists y. split; [reflexivity|]. apply in_zseq; lia.
Qed.

Lemma overlaps_in m r e : In e (overlaps m r) <-> exists x y, in_rect x y r = true /\ m x y = Some e.
Proof.
  unfold overlaps. rewrite in_flat_map. split.
  - intros ([x y] & Hin & He). cbn [fst snd] in He. exists x, y. split; [apply in_scan; exact Hin|].
    destruct (m x y) as [e'|]; [destruct He as [E|[]]; subst; reflexivity|destruct He].
  - intros (x & y & Hin & Hm). exists (x, y). split; [apply in_scan; exact Hin|]. cbn [fst snd]. rewrite Hm. left; reflexivity.
Qed.
Lemma overlaps_nil m r : overlaps m r = [] <-> (forall x y, in_rect x y r = true -> m x y = None).
Proof.
  split.
  - intros H x y Hin. destruct (m x y) as [e|] eqn:E; [|reflexivity].
    assert (In e (overlaps m r)) by (apply overlaps_in; exists x, y; split; assumption). rewrite H in *. contradiction.
  - intros H. destruct (overlaps m r) as [|e l] eqn:E; [reflexivity|].
    assert (Hi : In e (overlaps m r)) by (rewrite E; left; reflexivity).
    apply overlaps_in in Hi. destruct Hi as (x & y & Hin & Hm). rewrite (H x y Hin) in Hm. discriminate.
Qed.

Lemma in_union_l x y a b : in_rect x y a = true -> in_rect x y (union_rect a b) = true.
Proof. unfold in_rect, union_rect. destruct a as [[[a1 b1] a2] b2], b as [[[c1 d1] c2] d2]. lia. Qed.
Lemma in_union_r x y a b : in_rect x y b = true -> in_rect x y (union_rect a b) = true.
Proof. unfold in_rect, union_rect. destruct a as [[[a1 b1] a2] b2], b as [[[c1 d1] c2] d2]. lia. Qed.
Lemma union_ok a b : rect_ok a -> rect_ok b -> rect_ok (union_rect a b).
Proof. unfold rect_ok, union_rect. destruct a as [[[a1 b1] a2] b2], b as [[[c1 d1] c2] d2]. lia. Qed.
Lemma union_all_spec : forall ls r, rect_ok r -> (forall e, In e ls -> rect_ok (snd e)) ->
  rect_ok (union_all r ls) /\ (forall x y, in_rect x y r = true -> in_rect x y (union_all r ls) = true) /\
  (forall e, In e ls -> forall x y, in_rect x y (snd e) = true -> in_rect x y (union_all r ls) = true).
Proof.
  unfold union_all. induction ls as [|a ls IH]; intros r Hr Hls; cbn [fold_left].
  - refine (conj Hr (conj (fun x y H => H) _)). intros e [].
  - destruct (IH (union_rect r (snd a)) (union_ok r (snd a) Hr (Hls a (or_introl eq_refl))) (fun e Hi => Hls e (or_intror Hi))) as (A & B & C).
    refine (conj A (conj _ _)).
    + intros x y H. apply B. apply in_union_l. exact H.
    + intros e [E|Hi] x y H; [subst; apply B; apply in_union_r; exact H|exact (C e Hi x y H)].
Qed.
Lemma tl_in r : rect_ok r -> let '(x1, y1, _, _) := r in in_rect x1 y1 r = true.
Proof. unfold rect_ok, in_rect. destruct r as [[[x1 y1] x2] y2]. lia. Qed.

(* ---- identities ---- *)
Definition old_id (n i id : nat) : Prop := (id < i)%nat \/ (n <= id < n + i)%nat.
Definition new_id (n i id : nat) : Prop := (i <= id < n)%nat \/ (n + i <= id)%nat.
Definition tlx (e : ent) : Z := let '(x1, _, _, _) := snd e in x1.
Definition tly (e : ent) : Z := let '(_, y1, _, _) := snd e in y1.
Lemma keep_eq m e : keep m e = match m (tlx e) (tly e) with Some (id, _) => Nat.eqb id (fst e) | None => false end.
Proof. unfold keep, tlx, tly. destruct (snd e) as [[[x1 y1] x2] y2]. reflexivity. Qed.
Lemma tl_in_e e : rect_ok (snd e) -> in_rect (tlx e) (tly e) (snd e) = true.
Proof. intros H. pose proof (tl_in (snd e) H) as T. unfold tlx, tly. destruct (snd e) as [[[x1 y1] x2] y2]. exact T. Qed.

(* ---- one step ---- *)
Lemma flat_step_spec n i m r m1 e : flat_step n i m r = (m1, e) -> rect_ok r ->
  (forall x y e0, m x y = Some e0 -> rect_ok (snd e0)) ->
  (fst e = i \/ fst e = (n + i)%nat) /\ rect_ok (snd e) /\
  (forall x y, in_rect x y r = true -> in_rect x y (snd e) = true) /\
  (forall x y, in_rect x y (snd e) = true -> m1 x y = Some e) /\
  (forall x y, in_rect x y (snd e) = false -> m1 x y = m x y) /\
  match overlaps m r with
  | [] => e = (i, r) /\ (forall x y, in_rect x y r = true -> m x y = None)
  | L :: _ => fst e = (n + i)%nat /\ (exists x y, m x y = Some L) /\ m1 (tlx L) (tly L) = Some e
  end.
Proof.
  unfold flat_step. intros H Hr Hm. destruct (overlaps m r) as [|L ls] eqn:LO.
  - inversion H; subst; clear H. cbn [fst snd].
    refine (conj (or_introl eq_refl) (conj Hr (conj (fun x y H => H) (conj _ (conj _ (conj eq_refl _)))))).
    + intros x y Hin. unfold fill. rewrite Hin. reflexivity.
    + intros x y Hout. unfold fill. rewrite Hout. reflexivity.
    + apply overlaps_nil. exact LO.
  - inversion H; subst; clear H. cbn [fst snd].
    assert (Hls : forall e, In e (L :: ls) -> rect_ok (snd e)).
    { intros e Hi. rewrite <- LO in Hi. apply overlaps_in in Hi. destruct Hi as (x & y & _ & Hxy). exact (Hm x y e Hxy). }
    destruct (union_all_spec (L :: ls) r Hr Hls) as (Uok & Ur & Uls).
    assert (HL : In L (overlaps m r)) by (rewrite LO; left; reflexivity).
    apply overlaps_in in HL. destruct HL as (x0 & y0 & Hin0 & Hm0).
    refine (conj (or_intror eq_refl) (conj Uok (conj Ur (conj _ (conj _ (conj eq_refl (conj _ _))))))).
    + intros x y Hin. unfold fill. rewrite Hin. reflexivity.
    + intros x y Hout. unfold fill. rewrite Hout.
      destruct (in_rect x y r) eqn:E; [|reflexivity]. cbn [snd] in Hout. rewrite (Ur x y E) in Hout. discriminate.
    + exists x0, y0. exact Hm0.
    + unfold fill. rewrite (Uls L (or_introl eq_refl) _ _ (tl_in_e L (Hls L (or_introl eq_refl)))). reflexivity.
Qed.

(* positions only ever receive identities of the ranges being processed *)
Lemma flat_sticky n : forall l i m m' es, flat n i m l = (m', es) -> Forall rect_ok l ->
  (forall x y e0, m x y = Some e0 -> rect_ok (snd e0)) ->
  (forall x y, m' x y = m x y \/ exists e, m' x y = Some e /\ (fst e = fst e) /\
                 exists j, (i <= j < i + length l)%nat /\ (fst e = j \/ fst e = (n + j)%nat)) /\
  (forall x y e0, m' x y = Some e0 -> rect_ok (snd e0)).
Proof.
  induction l as [|r l IH]; intros i m m' es H Hl Hm; cbn [flat] in H.
  - inversion H; subst. split; [intros; left; reflexivity|exact Hm].
  - destruct (flat_step n i m r) as [m1 e] eqn:FS. destruct (flat n (S i) m1 l) as [m2 es'] eqn:FL. inversion H; subst; clear H.
    inversion Hl as [|? ? Hr Hl']; subst.
    destruct (flat_step_spec n i m r m1 e FS Hr Hm) as (Hid & Hok & _ & Hin & Hout & _).
    assert (Hm1 : forall x y e0, m1 x y = Some e0 -> rect_ok (snd e0)).
    { intros x y e0 E. destruct (in_rect x y (snd e)) eqn:B.
      - rewrite (Hin x y B) in E. inversion E; subst. exact Hok.
      - rewrite (Hout x y B) in E. exact (Hm x y e0 E). }
    destruct (IH (S i) m1 m' es' FL Hl' Hm1) as (St & Hok').
    split; [|exact Hok'].
    intros x y. destruct (St x y) as [E|(e1 & E1 & _ & j & Hj & Hje)].
    + destruct (in_rect x y (snd e)) eqn:B.
      * right. exists e. rewrite E, (Hin x y B). refine (conj eq_refl (conj eq_refl _)). exists i. split; [cbn [length]; lia|exact Hid].
      * left. rewrite E. apply Hout. exact B.
    + right. exists e1. refine (conj E1 (conj eq_refl _)). exists j. split; [cbn [length]; lia|exact Hje].
Qed.

(* ---- the first loop ---- *)
Lemma flat_spec n : forall l i m done m' es,
  flat n i m l = (m', es) -> (i + length l <= n)%nat -> Forall rect_ok l ->
  (forall x y e0, m x y = Some e0 -> In e0 done) ->
  (forall e0, In e0 done -> old_id n i (fst e0) /\ rect_ok (snd e0)) ->
  length es = length l /\ (forall e0, In e0 es -> rect_ok (snd e0)) /\
  ((map snd es = l /\ ForallOrdPairs disjoint l /\ (forall r, In r l -> forall x y, in_rect x y r = true -> m x y = None))
   \/ (exists e0, In e0 (done ++ es) /\ keep m' e0 = false)).
Proof.
  induction l as [|r l IH]; intros i m done m' es H Hn Hl Hm Hd; cbn [flat] in H.
  - inversion H; subst. refine (conj eq_refl (conj (fun e0 (F : In e0 []) => match F with end) (or_introl (conj eq_refl (conj (FOP_nil _) _))))).
    intros r [].
  - destruct (flat_step n i m r) as [m1 e] eqn:FS. destruct (flat n (S i) m1 l) as [m2 es'] eqn:FL. inversion H; subst; clear H.
    inversion Hl as [|? ? Hr Hl']; subst. cbn [length] in Hn.
    assert (Hmok : forall x y e0, m x y = Some e0 -> rect_ok (snd e0)) by (intros x y e0 E; exact (proj2 (Hd e0 (Hm x y e0 E)))).
    destruct (flat_step_spec n i m r m1 e FS Hr Hmok) as (Hid & Hok & Hsub & Hin & Hout & Hcase).
    assert (Hm1 : forall x y e0, m1 x y = Some e0 -> In e0 (done ++ [e])).
    { intros x y e0 E. apply in_or_app. destruct (in_rect x y (snd e)) eqn:B.
      - rewrite (Hin x y B) in E. inversion E; subst. right; left; reflexivity.
      - rewrite (Hout x y B) in E. left. exact (Hm x y e0 E). }
    assert (Hd1 : forall e0, In e0 (done ++ [e]) -> old_id n (S i) (fst e0) /\ rect_ok (snd e0)).
    { intros e0 Hi. apply in_app_or in Hi. destruct Hi as [Hi|[Hi|[]]].
      - destruct (Hd e0 Hi) as [Ho Hk]. split; [unfold old_id in *; lia|exact Hk].
      - subst e0. split; [unfold old_id; lia|exact Hok]. }
    destruct (IH (S i) m1 (done ++ [e]) m' es' FL ltac:(lia) Hl' Hm1 Hd1) as (Hlen & Hoks & Hdisj).
    refine (conj _ (conj _ _)).
    + cbn [length]. rewrite Hlen. reflexivity.
    + intros e0 [E|Hi]; [subst; exact Hok|exact (Hoks e0 Hi)].
    + destruct (overlaps m r) as [|L ls] eqn:LO.
      * destruct Hcase as (He & Hnone). subst e. cbn [snd] in *.
        destruct Hdisj as [(Hmap & Hfop & Hfree)|(e0 & Hi & Hk)].
        -- left. refine (conj _ (conj _ _)).
           ++ cbn [map snd]. rewrite Hmap. reflexivity.
           ++ apply FOP_cons; [|exact Hfop]. apply Forall_forall. intros r' Hr' x y A B.
              pose proof (Hfree r' Hr' x y B) as N. rewrite (Hin x y A) in N. discriminate.
           ++ intros r' [E|Hr'] x y B; [subst r'; exact (Hnone x y B)|].
              pose proof (Hfree r' Hr' x y B) as N. destruct (in_rect x y r) eqn:A; [rewrite (Hin x y A) in N; discriminate|].
              rewrite (Hout x y A) in N. exact N.
        -- right. exists e0. split; [|exact Hk]. rewrite <- app_assoc in Hi. exact Hi.
      * (* an overlap was found: the overlapped range no longer sits at its own top-left position *)
        right. destruct Hcase as (Hide & (x0 & y0 & HL) & HtlL). exists L. split; [apply in_or_app; left; exact (Hm x0 y0 L HL)|].
        destruct (Hd L (Hm x0 y0 L HL)) as [HoL HokL].
        assert (Hmok1 : forall x y e0, m1 x y = Some e0 -> rect_ok (snd e0)) by (intros x y e0 E; exact (proj2 (Hd1 e0 (Hm1 x y e0 E)))).
        destruct (flat_sticky n l (S i) m1 m' es' FL Hl' Hmok1) as (St & _).
        rewrite keep_eq. destruct (St (tlx L) (tly L)) as [E|(e1 & E1 & _ & j & Hj & Hje)].
        -- rewrite E, HtlL. destruct e as [ide re]. cbn [fst] in Hide. subst ide. apply Nat.eqb_neq. unfold old_id in HoL. lia.
        -- rewrite E1. destruct e1 as [id1 r1]. cbn [fst] in Hje. apply Nat.eqb_neq. unfold old_id in HoL. lia.
Qed.

(* ---- the second loop ---- *)
Definition below (m' m : matrix) : Prop := forall x y, m' x y = None \/ m' x y = m x y.
Lemma below_refl m : below m m. Proof. intros x y; right; reflexivity. Qed.
Lemma below_clear m' m r : below m' m -> below (clear m' r) m.
Proof. intros H x y. unfold clear. destruct (in_rect x y r); [left; reflexivity|apply H]. Qed.
Lemma keep_below m' m e : below m' m -> keep m' e = true -> keep m e = true.
Proof. intros H. rewrite !keep_eq. destruct (H (tlx e) (tly e)) as [E|E]; rewrite E; [discriminate|tauto]. Qed.

Lemma sweep_in m l e : In e (sweep m l) -> In e l.
Proof.
  revert m; induction l as [|a l IH]; intros m; cbn [sweep]; [tauto|].
  destruct (keep m a); [intros [E|H]; [left; exact E|right; exact (IH _ H)]|intros H; right; exact (IH _ H)].
Qed.
Lemma sweep_len m l : (length (sweep m l) <= length l)%nat.
Proof.
  revert m; induction l as [|a l IH]; intros m; cbn [sweep length]; [lia|].
  destruct (keep m a); cbn [length]; [specialize (IH (clear m (snd a)))|specialize (IH m)]; lia.
Qed.
Lemma sweep_lt mf : forall l m, below m mf -> (exists e, In e l /\ keep mf e = false) -> (length (sweep m l) < length l)%nat.
Proof.
  induction l as [|a l IH]; intros m Hb (e & Hi & Hk); [destruct Hi|]. cbn [sweep length].
  destruct (keep m a) eqn:K.
  - destruct Hi as [E|Hi].
    + subst a. rewrite (keep_below m mf e Hb K) in Hk. discriminate.
    + cbn [length]. specialize (IH (clear m (snd a)) (below_clear m mf (snd a) Hb) (ex_intro _ e (conj Hi Hk))). lia.
  - pose proof (sweep_len m l). lia.
Qed.
Lemma sweep_pairs (P : rect -> rect -> Prop) : forall l m, ForallOrdPairs P (map snd l) -> ForallOrdPairs P (map snd (sweep m l)).
Proof.
  induction l as [|a l IH]; intros m H; cbn [sweep map] in *; [exact H|].
  inversion H as [|? ? Ha Hl]; subst. destruct (keep m a); [|exact (IH m Hl)].
  cbn [map]. apply FOP_cons; [|exact (IH _ Hl)].
  apply Forall_forall. intros r Hr. apply in_map_iff in Hr. destruct Hr as (e & E & Hi). subst r.
  apply (proj1 (Forall_forall _ _) Ha). apply in_map. exact (sweep_in _ l e Hi).
Qed.

(* ---- one pass, and the repetition ---- *)
Lemma pass_spec cells : Forall rect_ok cells ->
  Forall rect_ok (pass cells) /\ (length (pass cells) <= length cells)%nat /\
  (length (pass cells) = length cells -> ForallOrdPairs disjoint (pass cells)).
Proof.
  intros Hok. unfold pass. destruct (flat (length cells) 0 mempty cells) as [mf es] eqn:F.
  destruct (flat_spec (length cells) cells 0%nat mempty [] mf es F ltac:(lia) Hok
              ltac:(intros x y e0 E; discriminate) ltac:(intros e0 [])) as (Hlen & Hoks & Hcase).
  refine (conj _ (conj _ _)).
  - apply Forall_forall. intros r Hr. apply in_map_iff in Hr. destruct Hr as (e & E & Hi). subst r.
    exact (Hoks e (sweep_in mf es e Hi)).
  - rewrite map_length, <- Hlen. apply sweep_len.
  - rewrite map_length. intros Hfull. destruct Hcase as [(Hmap & Hfop & _)|Hdead].
    + apply sweep_pairs. rewrite Hmap. exact Hfop.
    + pose proof (sweep_lt mf es mf (below_refl mf) Hdead). exfalso. change (@length (nat * rect) (sweep mf es)) with (@length ent (sweep mf es)) in Hfull. lia.
Qed.

Lemma norm_fuel_spec : forall fuel cells, (length cells <= fuel)%nat -> Forall rect_ok cells ->
  ForallOrdPairs disjoint (norm_fuel fuel cells) /\ Forall rect_ok (norm_fuel fuel cells) /\
  (length (norm_fuel fuel cells) <= length cells)%nat.
Proof.
  induction fuel as [|k IH]; intros cells Hf Hok; cbn [norm_fuel].
  - destruct cells; [|cbn [length] in Hf; lia]. refine (conj (FOP_nil _) (conj Hok _)). lia.
  - destruct (pass_spec cells Hok) as (Hok' & Hle & Hfull).
    destruct (Nat.ltb_spec (length (pass cells)) (length cells)) as [Hlt|Hge].
    + destruct (IH (pass cells) ltac:(lia) Hok') as (A & B & C). refine (conj A (conj B _)). lia.
    + refine (conj (Hfull ltac:(lia)) (conj Hok' Hle)).
Qed.

Theorem norm_disjoint cells : Forall rect_ok cells ->
  ForallOrdPairs disjoint (norm cells) /\ Forall rect_ok (norm cells) /\ (length (norm cells) <= length cells)%nat.
Proof. intros Hok. exact (norm_fuel_spec (length cells) cells (le_n _) Hok). Qed.

(* ---- ranges that do not overlap are left exactly as they are ---- *)
Lemma flat_disjoint n : forall l i m m' es, flat n i m l = (m', es) -> Forall rect_ok l -> ForallOrdPairs disjoint l ->
  (forall r, In r l -> forall x y, in_rect x y r = true -> m x y = None) ->
  map snd es = l /\
  (forall e, In e es -> forall x y, in_rect x y (snd e) = true -> m' x y = Some e) /\
  (forall x y, (forall r, In r l -> in_rect x y r = false) -> m' x y = m x y).
Proof.
  induction l as [|r l IH]; intros i m m' es H Hok Hfop Hfree; cbn [flat] in H.
  - inversion H; subst. refine (conj eq_refl (conj _ (fun x y _ => eq_refl))). intros e [].
  - unfold flat_step in H. rewrite (proj2 (overlaps_nil m r) (Hfree r (or_introl eq_refl))) in H.
    destruct (flat n (S i) (fill m r (i, r)) l) as [m2 es'] eqn:FL. inversion H; subst; clear H.
    inversion Hok as [|? ? Hr Hok']; subst. inversion Hfop as [|? ? Hrl Hfop']; subst.
    assert (Hfree1 : forall r', In r' l -> forall x y, in_rect x y r' = true -> fill m r (i, r) x y = None).
    { intros r' Hr' x y B. unfold fill. destruct (in_rect x y r) eqn:A.
      - exfalso. exact (proj1 (Forall_forall _ _) Hrl r' Hr' x y A B).
      - exact (Hfree r' (or_intror Hr') x y B). }
    destruct (IH (S i) (fill m r (i, r)) m' es' FL Hok' Hfop' Hfree1) as (Hmap & Hin & Hout).
    refine (conj _ (conj _ _)).
    + cbn [map snd]. rewrite Hmap. reflexivity.
    + intros e [E|Hi] x y B; [|exact (Hin e Hi x y B)]. subst e. cbn [snd] in B.
      rewrite Hout; [unfold fill; rewrite B; reflexivity|].
      intros r' Hr'. destruct (in_rect x y r') eqn:B'; [|reflexivity].
      exfalso. exact (proj1 (Forall_forall _ _) Hrl r' Hr' x y B B').
    + intros x y Hnot. rewrite Hout by (intros r' Hr'; exact (Hnot r' (or_intror Hr'))).
      unfold fill. rewrite (Hnot r (or_introl eq_refl)). reflexivity.
Qed.

Lemma sweep_all : forall es m, ForallOrdPairs disjoint (map snd es) -> (forall e, In e es -> rect_ok (snd e)) ->
  (forall e, In e es -> forall x y, in_rect x y (snd e) = true -> m x y = Some e) -> sweep m es = es.
Proof.
  induction es as [|e es IH]; intros m Hfop Hok Hm; cbn [sweep]; [reflexivity|].
  cbn [map] in Hfop. inversion Hfop as [|? ? He Hfop']; subst.
  rewrite keep_eq, (Hm e (or_introl eq_refl) _ _ (tl_in_e e (Hok e (or_introl eq_refl)))).
  destruct e as [id r]. cbn [fst snd]. rewrite Nat.eqb_refl. f_equal.
  apply IH; [exact Hfop'|intros e' Hi; exact (Hok e' (or_intror Hi))|].
  intros e' Hi x y B. unfold clear. destruct (in_rect x y r) eqn:A.
  - exfalso. exact (proj1 (Forall_forall _ _) He (snd e') (in_map snd es e' Hi) x y A B).
  - exact (Hm e' (or_intror Hi) x y B).
Qed.

Lemma pass_fixed l : Forall rect_ok l -> ForallOrdPairs disjoint l -> pass l = l.
Proof.
  intros Hok Hfop. unfold pass. destruct (flat (length l) 0 mempty l) as [mf es] eqn:F.
  destruct (flat_disjoint (length l) l 0%nat mempty mf es F Hok Hfop ltac:(intros; reflexivity)) as (Hmap & Hin & _).
  rewrite sweep_all; [exact Hmap|rewrite Hmap; exact Hfop| |exact Hin].
  intros e Hi. apply (proj1 (Forall_forall _ _) Hok). rewrite <- Hmap. apply in_map. exact Hi.
Qed.

Theorem norm_fixed l : Forall rect_ok l -> ForallOrdPairs disjoint l -> norm l = l.
Proof.
  intros Hok Hfop. unfold norm. destruct l as [|r l']; [reflexivity|]. cbn [length norm_fuel].
  rewrite (pass_fixed _ Hok Hfop). rewrite Nat.ltb_irrefl. reflexivity.
Qed.

Theorem norm_idem cells : Forall rect_ok cells -> norm (norm cells) = norm cells.
Proof. intros Hok. destruct (norm_disjoint cells Hok) as (A & B & _). exact (norm_fixed _ B A). Qed.

(* ---- histories of MergeCell / UnmergeCell / GetMergeCells ---- *)
Lemma merge_step_ok cells o : Forall rect_ok cells -> mop_ok o -> Forall rect_ok (merge_step cells o).
Proof.
  intros Hc Ho. destruct o as [r|r|]; cbn [merge_step mop_ok] in *.
  - apply Forall_app. split; [exact Hc|]. constructor; [exact Ho|constructor].
  - destruct (norm_disjoint cells Hc) as (_ & B & _). apply Forall_forall. intros c Hi. apply filter_In in Hi.
    exact (proj1 (Forall_forall _ _) B c (proj1 Hi)).
  - exact (proj1 (proj2 (norm_disjoint cells Hc))).
Qed.
Lemma merge_run_ok ops : Forall mop_ok ops -> Forall rect_ok (merge_run ops).
Proof.
  unfold merge_run. assert (G : forall cells, Forall rect_ok cells -> Forall mop_ok ops -> Forall rect_ok (fold_left merge_step ops cells)).
  { induction ops as [|o ops IH]; intros cells Hc Ho; cbn [fold_left]; [exact Hc|].
    inversion Ho; subst. apply IH; [apply merge_step_ok; assumption|assumption]. }
  intros H. apply G; [constructor|exact H].
Qed.
Theorem reported_disjoint ops : Forall mop_ok ops -> ForallOrdPairs disjoint (reported ops) /\ Forall rect_ok (reported ops).
Proof. intros H. destruct (norm_disjoint (merge_run ops) (merge_run_ok ops H)) as (A & B & _). exact (conj A B). Qed.
(* reading the merged ranges twice gives the same answer, and reading does not change what a later read reports *)
Theorem reported_get_pure ops : Forall mop_ok ops -> reported (ops ++ [MGet]) = reported ops.
Proof.
  intros H. unfold reported, merge_run. rewrite fold_left_app. cbn [fold_left merge_step]. apply norm_idem. exact (merge_run_ok ops H).
Qed.
