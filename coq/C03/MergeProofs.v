(* C03: the ranges mergeOverlapCells leaves are pairwise disjoint, for every list of ranges. *)
From VF Require Import Base.Prelude Generated.Consts Sheet.Model Sheet.Proofs C03.Merge.
From Coq Require Import ZifyBool ZifyNat.

Arguments union_all : simpl never.

Lemma in_zseq lo n x : In x (zseq lo n) <-> lo <= x < lo + Z.of_nat n.
Proof.
  revert lo; induction n as [|n IH]; intros lo; cbn [zseq In].
  - split; [tauto|lia].
  - rewrite IH. split; [intros [E|H]; lia | intros H; destruct (Z.eq_dec lo x); [left; assumption | right; lia]].
Qed.

Lemma in_scan x y r : In (x, y) (scan_cells r) <-> in_rect x y r = true.
Proof.
  unfold scan_cells, rect_cells, in_rect. destruct r as [[[x1 y1] x2] y2]. rewrite in_flat_map. split.
  - intros (cx & Hcx & Hin). apply in_map_iff in Hin. destruct Hin as (cy & E & Hcy). inversion E; subst.
    apply in_zseq in Hcx. apply in_zseq in Hcy. lia.
  - intros H. exists x. split; [apply in_zseq; lia|]. apply in_map_iff. exists y. split; [reflexivity|]. apply in_zseq; lia.
Qed.

Lemma overlaps_in m r e : In e (overlaps m r) <-> exists x y, in_rect x y r = true /\ m x y = Some e.
Proof.
  unfold overlaps. rewrite in_flat_map. split.
  - intros ([x y] & Hin & He). cbn [fst snd] in He. exists x, y. split; [apply in_scan; exact Hin|].
    destruct (m x y) as [e'|]; [destruct He as [E|[]]; subst; reflexivity|destruct He].
  - intros (x & y & Hin & Hm). exists (x, y). split; [apply in_scan; exact Hin|]. cbn [fst snd]. rewrite Hm. left; reflexivity.
Qed.
Lemma overlaps_nil m r : overlaps m r = [] <-> (forall x y, in_rect x y r = true -> m x y = None).
Proof.
  split.
  - intros H x y Hin. destruct (m x y) as [e|] eqn:E; [|reflexivity].
    assert (In e (overlaps m r)) by (apply overlaps_in; exists x, y; split; assumption). rewrite H in *. contradiction.
  - intros H. destruct (overlaps m r) as [|e l] eqn:E; [reflexivity|].
    assert (Hi : In e (overlaps m r)) by (rewrite E; left; reflexivity).
    apply overlaps_in in Hi. destruct Hi as (x & y & Hin & Hm). rewrite (H x y Hin) in Hm. discriminate.
Qed.

Lemma in_union_l x y a b : in_rect x y a = true -> in_rect x y (union_rect a b) = true.
Proof. unfold in_rect, union_rect. destruct a as [[[a1 b1] a2] b2], b as [[[c1 d1] c2] d2]. lia. Qed.
Lemma in_union_r x y a b : in_rect x y b = true -> in_rect x y (union_rect a b) = true.
Proof. unfold in_rect, union_rect. destruct a as [[[a1 b1] a2] b2], b as [[[c1 d1] c2] d2]. lia. Qed.
Lemma union_ok a b : rect_ok a -> rect_ok b -> rect_ok (union_rect a b).
Proof. unfold rect_ok, union_rect. destruct a as [[[a1 b1] a2] b2], b as [[[c1 d1] c2] d2]. lia. Qed.
Lemma union_all_spec : forall ls r, rect_ok r -> (forall e, In e ls -> rect_ok (snd e)) ->
  rect_ok (union_all r ls) /\ (forall x y, in_rect x y r = true -> in_rect x y (union_all r ls) = true) /\
  (forall e, In e ls -> forall x y, in_rect x y (snd e) = true -> in_rect x y (union_all r ls) = true).
Proof.
  unfold union_all. induction ls as [|a ls IH]; intros r Hr Hls; cbn [fold_left].
  - refine (conj Hr (conj (fun x y H => H) _)). intros e [].
  - destruct (IH (union_rect r (snd a)) (union_ok r (snd a) Hr (Hls a (or_introl eq_refl))) (fun e Hi => Hls e (or_intror Hi))) as (A & B & C).
    refine (conj A (conj _ _)).
    + intros x y H. apply B. apply in_union_l. exact H.
    + intros e [E|Hi] x y H; [subst; apply B; apply in_union_r; exact H|exact (C e Hi x y H)].
Qed.
Lemma tl_in r : rect_ok r -> let '(x1, y1, _, _) := r in in_rect x1 y1 r = true.
Proof. unfold rect_ok, in_rect. destruct r as [[[x1 y1] x2] y2]. lia. Qed.

(* ---- identities ---- *)
Definition old_id (n i id : nat) : Prop := (id < i)%nat \/ (n <= id < n + i)%nat.
Definition new_id (n i id : nat) : Prop := (i <= id < n)%nat \/ (n + i <= id)%nat.
Definition tlx (e : ent) : Z := let '(x1, _, _, _) := snd e in x1.
Definition tly (e : ent) : Z := let '(_, y1, _, _) := snd e in y1.
Lemma keep_eq m e : keep m e =
  match m (tlx e) (tly e) with Some (id, r) => Nat.eqb id (fst e) || negb (contains r (snd e)) | None => true end.
Proof. unfold keep, tlx, tly. destruct (snd e) as [[[x1 y1] x2] y2]. reflexivity. Qed.
Lemma contains_spec a b : rect_ok b -> (contains a b = true <-> forall x y, in_rect x y b = true -> in_rect x y a = true).
Proof.
  destruct a as [[[a1 b1] a2] b2], b as [[[c1 d1] c2] d2]. unfold rect_ok, contains, in_rect. intros Hb. split.
  - intros H x y Hin. lia.
  - intros H. pose proof (H c1 d1 ltac:(lia)). pose proof (H c2 d2 ltac:(lia)). lia.
Qed.
Lemma contains_trans a b c : contains a b = true -> contains b c = true -> contains a c = true.
Proof. destruct a as [[[a1 b1] a2] b2], b as [[[c1 d1] c2] d2], c as [[[e1 f1] e2] f2]. unfold contains. lia. Qed.
Lemma contains_refl a : contains a a = true.
Proof. destruct a as [[[a1 b1] a2] b2]. unfold contains. lia. Qed.
Lemma tl_in_e e : rect_ok (snd e) -> in_rect (tlx e) (tly e) (snd e) = true.
Proof. intros H. pose proof (tl_in (snd e) H) as T. unfold tlx, tly. destruct (snd e) as [[[x1 y1] x2] y2]. exact T. Qed.

(* ---- one step ---- *)
Lemma flat_step_spec n i m r m1 e : flat_step n i m r = (m1, e) -> rect_ok r ->
  (forall x y e0, m x y = Some e0 -> rect_ok (snd e0)) ->
  (fst e = i \/ fst e = (n + i)%nat) /\ rect_ok (snd e) /\
  (forall x y, in_rect x y r = true -> in_rect x y (snd e) = true) /\
  (forall x y, in_rect x y (snd e) = true -> m1 x y = Some e) /\
  (forall x y, in_rect x y (snd e) = false -> m1 x y = m x y) /\
  match overlaps m r with
  | [] => e = (i, r) /\ (forall x y, in_rect x y r = true -> m x y = None)
  | L :: _ => fst e = (n + i)%nat /\ (exists x y, m x y = Some L) /\ m1 (tlx L) (tly L) = Some e /\ contains (snd e) (snd L) = true
  end.
Proof.
  unfold flat_step. intros H Hr Hm. destruct (overlaps m r) as [|L ls] eqn:LO.
  - inversion H; subst; clear H. cbn [fst snd].
    refine (conj (or_introl eq_refl) (conj Hr (conj (fun x y H => H) (conj _ (conj _ (conj eq_refl _)))))).
    + intros x y Hin. unfold fill. rewrite Hin. reflexivity.
    + intros x y Hout. unfold fill. rewrite Hout. reflexivity.
    + apply overlaps_nil. exact LO.
  - inversion H; subst; clear H. cbn [fst snd].
    assert (Hls : forall e, In e (L :: ls) -> rect_ok (snd e)).
    { intros e Hi. rewrite <- LO in Hi. apply overlaps_in in Hi. destruct Hi as (x & y & _ & Hxy). exact (Hm x y e Hxy). }
    destruct (union_all_spec (L :: ls) r Hr Hls) as (Uok & Ur & Uls).
    assert (HL : In L (overlaps m r)) by (rewrite LO; left; reflexivity).
    apply overlaps_in in HL. destruct HL as (x0 & y0 & Hin0 & Hm0).
    refine (conj (or_intror eq_refl) (conj Uok (conj Ur (conj _ (conj _ (conj eq_refl (conj _ (conj _ _)))))))).
    + intros x y Hin. unfold fill. rewrite Hin. reflexivity.
    + intros x y Hout. unfold fill. rewrite Hout.
      destruct (in_rect x y r) eqn:E; [|reflexivity]. cbn [snd] in Hout. rewrite (Ur x y E) in Hout. discriminate.
    + exists x0, y0. exact Hm0.
    + unfold fill. rewrite (Uls L (or_introl eq_refl) _ _ (tl_in_e L (Hls L (or_introl eq_refl)))). reflexivity.
    + apply (contains_spec _ _ (Hls L (or_introl eq_refl))). exact (Uls L (or_introl eq_refl)).
Qed.

(* ---- the first loop ---- *)
(* either nothing overlapped (the entries are the ranges as given, pairwise disjoint, and no position that was taken
   has changed), or some entry has been joined into another: the position of its top-left corner now holds a different
   entry that contains it *)
Lemma flat_spec n : forall l i m done m' es,
  flat n i m l = (m', es) -> (i + length l <= n)%nat -> Forall rect_ok l ->
  (forall x y e0, m x y = Some e0 -> In e0 done) ->
  (forall e0, In e0 done -> old_id n i (fst e0) /\ rect_ok (snd e0)) ->
  length es = length l /\ (forall e0, In e0 es -> rect_ok (snd e0)) /\
  ((map snd es = l /\ ForallOrdPairs disjoint l /\ (forall r, In r l -> forall x y, in_rect x y r = true -> m x y = None) /\
    (forall x y, m x y <> None -> m' x y = m x y))
   \/ (exists e0, In e0 (done ++ es) /\ keep m' e0 = false)).
Proof.
  induction l as [|r l IH]; intros i m done m' es H Hn Hl Hm Hd; cbn [flat] in H.
  - inversion H; subst. refine (conj eq_refl (conj (fun e0 (F : In e0 []) => match F with end) (or_introl (conj eq_refl (conj (FOP_nil _) (conj _ (fun x y _ => eq_refl))))))).
    intros r [].
  - destruct (flat_step n i m r) as [m1 e] eqn:FS. destruct (flat n (S i) m1 l) as [m2 es'] eqn:FL. inversion H; subst; clear H.
    inversion Hl as [|? ? Hr Hl']; subst. cbn [length] in Hn.
    assert (Hmok : forall x y e0, m x y = Some e0 -> rect_ok (snd e0)) by (intros x y e0 E; exact (proj2 (Hd e0 (Hm x y e0 E)))).
    destruct (flat_step_spec n i m r m1 e FS Hr Hmok) as (Hid & Hok & Hsub & Hin & Hout & Hcase).
    assert (Hm1 : forall x y e0, m1 x y = Some e0 -> In e0 (done ++ [e])).
    { intros x y e0 E. apply in_or_app. destruct (in_rect x y (snd e)) eqn:B.
      - rewrite (Hin x y B) in E. inversion E; subst. right; left; reflexivity.
      - rewrite (Hout x y B) in E. left. exact (Hm x y e0 E). }
    assert (Hd1 : forall e0, In e0 (done ++ [e]) -> old_id n (S i) (fst e0) /\ rect_ok (snd e0)).
    { intros e0 Hi. apply in_app_or in Hi. destruct Hi as [Hi|[Hi|[]]].
      - destruct (Hd e0 Hi) as [Ho Hk]. split; [unfold old_id in *; lia|exact Hk].
      - subst e0. split; [unfold old_id; lia|exact Hok]. }
    destruct (IH (S i) m1 (done ++ [e]) m' es' FL ltac:(lia) Hl' Hm1 Hd1) as (Hlen & Hoks & Hdisj).
    refine (conj _ (conj _ _)).
    + cbn [length]. rewrite Hlen. reflexivity.
    + intros e0 [E|Hi]; [subst; exact Hok|exact (Hoks e0 Hi)].
    + destruct Hdisj as [(Hmap & Hfop & Hfree & Hsame)|(e0 & Hi & Hk)].
      2:{ right. exists e0. split; [|exact Hk]. rewrite <- app_assoc in Hi. exact Hi. }
      destruct (overlaps m r) as [|L ls] eqn:LO.
      * destruct Hcase as (He & Hnone). subst e. cbn [snd] in *. left. refine (conj _ (conj _ (conj _ _))).
        -- cbn [map snd]. rewrite Hmap. reflexivity.
        -- apply FOP_cons; [|exact Hfop]. apply Forall_forall. intros r' Hr' x y A B.
           pose proof (Hfree r' Hr' x y B) as N. rewrite (Hin x y A) in N. discriminate.
        -- intros r' [E|Hr'] x y B; [subst r'; exact (Hnone x y B)|].
           pose proof (Hfree r' Hr' x y B) as N. destruct (in_rect x y r) eqn:A; [rewrite (Hin x y A) in N; discriminate|].
           rewrite (Hout x y A) in N. exact N.
        -- intros x y Hne. destruct (in_rect x y r) eqn:A; [rewrite (Hnone x y A) in Hne; contradiction|].
           rewrite Hsame; [exact (Hout x y A)|]. rewrite (Hout x y A). exact Hne.
      * (* an overlap was found here and none later: the overlapped entry stays joined into the new one *)
        right. destruct Hcase as (Hide & (x0 & y0 & HL) & HtlL & Hcont). exists L. split; [apply in_or_app; left; exact (Hm x0 y0 L HL)|].
        destruct (Hd L (Hm x0 y0 L HL)) as [HoL HokL].
        rewrite keep_eq, Hsame by (rewrite HtlL; discriminate). rewrite HtlL. destruct e as [ide re]. cbn [fst snd] in *. subst ide.
        rewrite Hcont. cbn [negb]. rewrite Bool.orb_false_r. apply Nat.eqb_neq. unfold old_id in HoL. lia.
Qed.

(* ---- the second loop ---- *)
Lemma sweep_in m l e : In e (sweep m l) -> In e l.
Proof. unfold sweep. intros H. apply filter_In in H. exact (proj1 H). Qed.
Lemma sweep_len m l : (length (sweep m l) <= length l)%nat.
Proof. unfold sweep. induction l as [|a l IH]; cbn [filter length]; [lia|]. destruct (keep m a); cbn [length]; lia. Qed.
Lemma sweep_lt m : forall l, (exists e, In e l /\ keep m e = false) -> (length (sweep m l) < length l)%nat.
Proof.
  unfold sweep. induction l as [|a l IH]; intros (e & Hi & Hk); [destruct Hi|]. cbn [filter length].
  destruct Hi as [E|Hi].
  - subst a. rewrite Hk. pose proof (sweep_len m l). unfold sweep in *. lia.
  - specialize (IH (ex_intro _ e (conj Hi Hk))). destruct (keep m a); cbn [length]; lia.
Qed.
Lemma sweep_pairs (P : rect -> rect -> Prop) m : forall l, ForallOrdPairs P (map snd l) -> ForallOrdPairs P (map snd (sweep m l)).
Proof.
  unfold sweep. induction l as [|a l IH]; intros H; cbn [filter map] in *; [exact H|].
  inversion H as [|? ? Ha Hl]; subst. destruct (keep m a); [|exact (IH Hl)].
  cbn [map]. apply FOP_cons; [|exact (IH Hl)].
  apply Forall_forall. intros r Hr. apply in_map_iff in Hr. destruct Hr as (e & E & Hi). subst r.
  apply (proj1 (Forall_forall _ _) Ha). apply in_map. apply filter_In in Hi. exact (proj1 Hi).
Qed.

(* ---- one pass, and the repetition ---- *)
Lemma pass_spec cells : Forall rect_ok cells ->
  Forall rect_ok (pass cells) /\ (length (pass cells) <= length cells)%nat /\
  (length (pass cells) = length cells -> ForallOrdPairs disjoint (pass cells)).
Proof.
  intros Hok. unfold pass. destruct (flat (length cells) 0 mempty cells) as [mf es] eqn:F.
  destruct (flat_spec (length cells) cells 0%nat mempty [] mf es F ltac:(lia) Hok
              ltac:(intros x y e0 E; discriminate) ltac:(intros e0 [])) as (Hlen & Hoks & Hcase).
  refine (conj _ (conj _ _)).
  - apply Forall_forall. intros r Hr. apply in_map_iff in Hr. destruct Hr as (e & E & Hi). subst r.
    exact (Hoks e (sweep_in mf es e Hi)).
  - rewrite map_length, <- Hlen. apply sweep_len.
  - rewrite map_length. intros Hfull. destruct Hcase as [(Hmap & Hfop & _ & _)|Hdead].
    + apply sweep_pairs. rewrite Hmap. exact Hfop.
    + pose proof (sweep_lt mf es Hdead). exfalso. change (@length (nat * rect) (sweep mf es)) with (@length ent (sweep mf es)) in Hfull. lia.
Qed.

Lemma norm_fuel_spec : forall fuel cells, (length cells <= fuel)%nat -> Forall rect_ok cells ->
  ForallOrdPairs disjoint (norm_fuel fuel cells) /\ Forall rect_ok (norm_fuel fuel cells) /\
  (length (norm_fuel fuel cells) <= length cells)%nat.
Proof.
  induction fuel as [|k IH]; intros cells Hf Hok; cbn [norm_fuel].
  - destruct cells; [|cbn [length] in Hf; lia]. refine (conj (FOP_nil _) (conj Hok _)). lia.
  - destruct (pass_spec cells Hok) as (Hok' & Hle & Hfull).
    destruct (Nat.ltb_spec (length (pass cells)) (length cells)) as [Hlt|Hge].
    + destruct (IH (pass cells) ltac:(lia) Hok') as (A & B & C). refine (conj A (conj B _)). lia.
    + refine (conj (Hfull ltac:(lia)) (conj Hok' Hle)).
Qed.

Theorem norm_disjoint cells : Forall rect_ok cells ->
  ForallOrdPairs disjoint (norm cells) /\ Forall rect_ok (norm cells) /\ (length (norm cells) <= length cells)%nat.
Proof. intros Hok. exact (norm_fuel_spec (length cells) cells (le_n _) Hok). Qed.

(* ---- ranges that do not overlap are left exactly as they are ---- *)
Lemma flat_disjoint n : forall l i m m' es, flat n i m l = (m', es) -> Forall rect_ok l -> ForallOrdPairs disjoint l ->
  (forall r, In r l -> forall x y, in_rect x y r = true -> m x y = None) ->
  map snd es = l /\
  (forall e, In e es -> forall x y, in_rect x y (snd e) = true -> m' x y = Some e) /\
  (forall x y, (forall r, In r l -> in_rect x y r = false) -> m' x y = m x y).
Proof.
  induction l as [|r l IH]; intros i m m' es H Hok Hfop Hfree; cbn [flat] in H.
  - inversion H; subst. refine (conj eq_refl (conj _ (fun x y _ => eq_refl))). intros e [].
  - unfold flat_step in H. rewrite (proj2 (overlaps_nil m r) (Hfree r (or_introl eq_refl))) in H.
    destruct (flat n (S i) (fill m r (i, r)) l) as [m2 es'] eqn:FL. inversion H; subst; clear H.
    inversion Hok as [|? ? Hr Hok']; subst. inversion Hfop as [|? ? Hrl Hfop']; subst.
    assert (Hfree1 : forall r', In r' l -> forall x y, in_rect x y r' = true -> fill m r (i, r) x y = None).
    { intros r' Hr' x y B. unfold fill. destruct (in_rect x y r) eqn:A.
      - exfalso. exact (proj1 (Forall_forall _ _) Hrl r' Hr' x y A B).
      - exact (Hfree r' (or_intror Hr') x y B). }
    destruct (IH (S i) (fill m r (i, r)) m' es' FL Hok' Hfop' Hfree1) as (Hmap & Hin & Hout).
    refine (conj _ (conj _ _)).
    + cbn [map snd]. rewrite Hmap. reflexivity.
    + intros e [E|Hi] x y B; [|exact (Hin e Hi x y B)]. subst e. cbn [snd] in B.
      rewrite Hout; [unfold fill; rewrite B; reflexivity|].
      intros r' Hr'. destruct (in_rect x y r') eqn:B'; [|reflexivity].
      exfalso. exact (proj1 (Forall_forall _ _) Hrl r' Hr' x y B B').
    + intros x y Hnot. rewrite Hout by (intros r' Hr'; exact (Hnot r' (or_intror Hr'))).
      unfold fill. rewrite (Hnot r (or_introl eq_refl)). reflexivity.
Qed.

Lemma sweep_all : forall es m, (forall e, In e es -> rect_ok (snd e)) ->
  (forall e, In e es -> forall x y, in_rect x y (snd e) = true -> m x y = Some e) -> sweep m es = es.
Proof.
  unfold sweep. induction es as [|e es IH]; intros m Hok Hm; cbn [filter]; [reflexivity|].
  rewrite keep_eq, (Hm e (or_introl eq_refl) _ _ (tl_in_e e (Hok e (or_introl eq_refl)))).
  destruct e as [id r]. cbn [fst snd]. rewrite Nat.eqb_refl. cbn [orb]. f_equal.
  apply IH; [intros e' Hi; exact (Hok e' (or_intror Hi))|intros e' Hi; exact (Hm e' (or_intror Hi))].
Qed.

Lemma pass_fixed l : Forall rect_ok l -> ForallOrdPairs disjoint l -> pass l = l.
Proof.
  intros Hok Hfop. unfold pass. destruct (flat (length l) 0 mempty l) as [mf es] eqn:F.
  destruct (flat_disjoint (length l) l 0%nat mempty mf es F Hok Hfop ltac:(intros; reflexivity)) as (Hmap & Hin & _).
  rewrite sweep_all; [exact Hmap| |exact Hin].
  intros e Hi. apply (proj1 (Forall_forall _ _) Hok). rewrite <- Hmap. apply in_map. exact Hi.
Qed.

Theorem norm_fixed l : Forall rect_ok l -> ForallOrdPairs disjoint l -> norm l = l.
Proof.
  intros Hok Hfop. unfold norm. destruct l as [|r l']; [reflexivity|]. cbn [length norm_fuel].
  rewrite (pass_fixed _ Hok Hfop). rewrite Nat.ltb_irrefl. reflexivity.
Qed.

Theorem norm_idem cells : Forall rect_ok cells -> norm (norm cells) = norm cells.
Proof. intros Hok. destruct (norm_disjoint cells Hok) as (A & B & _). exact (norm_fixed _ B A). Qed.

(* ---- nothing that was merged is lost: every range given lies inside a range that is left ---- *)
Lemma flat_overwrite n : forall l i m m' es, flat n i m l = (m', es) -> Forall rect_ok l ->
  (forall x y e0, m x y = Some e0 -> rect_ok (snd e0)) ->
  (forall x y, m' x y = m x y \/ exists e', In e' es /\ m' x y = Some e') /\
  (forall x y e0, m' x y = Some e0 -> rect_ok (snd e0)) /\
  Forall2 (fun r e => contains (snd e) r = true) l es.
Proof.
  induction l as [|r l IH]; intros i m m' es H Hl Hm; cbn [flat] in H.
  - inversion H; subst. refine (conj (fun x y => or_introl eq_refl) (conj Hm (Forall2_nil _))).
  - destruct (flat_step n i m r) as [m1 e] eqn:FS. destruct (flat n (S i) m1 l) as [m2 es'] eqn:FL. inversion H; subst; clear H.
    inversion Hl as [|? ? Hr Hl']; subst.
    destruct (flat_step_spec n i m r m1 e FS Hr Hm) as (_ & Hok & Hsub & Hin & Hout & _).
    assert (Hm1 : forall x y e0, m1 x y = Some e0 -> rect_ok (snd e0)).
    { intros x y e0 E. destruct (in_rect x y (snd e)) eqn:B.
      - rewrite (Hin x y B) in E. inversion E; subst. exact Hok.
      - rewrite (Hout x y B) in E. exact (Hm x y e0 E). }
    destruct (IH (S i) m1 m' es' FL Hl' Hm1) as (Ov & Hok' & F2).
    refine (conj _ (conj Hok' (Forall2_cons _ _ _ F2))).
    + intros x y. destruct (Ov x y) as [E|(e' & Hi & E)].
      * destruct (in_rect x y (snd e)) eqn:B.
        -- right. exists e. split; [left; reflexivity|]. rewrite E. exact (Hin x y B).
        -- left. rewrite E. exact (Hout x y B).
      * right. exists e'. split; [right; exact Hi|exact E].
    + apply (contains_spec _ _ Hr). exact Hsub.
Qed.

Lemma flat_self_or_later n : forall l i m m' es, flat n i m l = (m', es) -> Forall rect_ok l ->
  (forall x y e0, m x y = Some e0 -> rect_ok (snd e0)) ->
  forall es1 e es2, es = es1 ++ e :: es2 -> forall x y, in_rect x y (snd e) = true ->
  exists e', In e' (e :: es2) /\ m' x y = Some e'.
Proof.
  induction l as [|r l IH]; intros i m m' es H Hl Hm es1 e es2 Hes x y Hxy; cbn [flat] in H.
  - inversion H; subst. destruct es1; discriminate.
  - destruct (flat_step n i m r) as [m1 e0] eqn:FS. destruct (flat n (S i) m1 l) as [m2 es'] eqn:FL.
    inversion H as [[Em Ees]]; clear H. subst m2. rewrite <- Ees in Hes. clear Ees es.
    inversion Hl as [|? ? Hr Hl']; subst.
    destruct (flat_step_spec n i m r m1 e0 FS Hr Hm) as (_ & Hok & _ & Hin & Hout & _).
    assert (Hm1 : forall x y e1, m1 x y = Some e1 -> rect_ok (snd e1)).
    { intros x' y' e1 E. destruct (in_rect x' y' (snd e0)) eqn:B.
      - rewrite (Hin x' y' B) in E. inversion E; subst. exact Hok.
      - rewrite (Hout x' y' B) in E. exact (Hm x' y' e1 E). }
    destruct es1 as [|a es1']; cbn [app] in Hes; inversion Hes; subst.
    + destruct (flat_overwrite n l (S i) m1 m' es2 FL Hl' Hm1) as (Ov & _ & _).
      destruct (Ov x y) as [E|(e' & Hi & E)].
      * exists e. split; [left; reflexivity|]. rewrite E. exact (Hin x y Hxy).
      * exists e'. split; [right; exact Hi|exact E].
    + exact (IH (S i) m1 m' (es1' ++ e :: es2) FL Hl' Hm1 es1' e es2 eq_refl x y Hxy).
Qed.

Lemma cover_kept n cells mf es : flat n 0 mempty cells = (mf, es) -> (0 + length cells <= n)%nat -> Forall rect_ok cells ->
  forall e, In e es -> exists e', In e' (sweep mf es) /\ contains (snd e') (snd e) = true.
Proof.
  intros F Hn Hok.
  assert (Hm0 : forall x y e0, mempty x y = Some e0 -> rect_ok (snd e0)) by (intros; discriminate).
  assert (Hoks : forall e, In e es -> rect_ok (snd e)).
  { exact (proj1 (proj2 (flat_spec n cells 0%nat mempty [] mf es F Hn Hok ltac:(intros x y e0 E; discriminate) ltac:(intros e0 [])))). }
  assert (G : forall es2 es1, es = es1 ++ es2 -> forall e, In e es2 ->
              exists e', In e' (sweep mf es) /\ contains (snd e') (snd e) = true).
  { induction es2 as [|e0 es2 IH]; intros es1 Hes e Hi; [destruct Hi|].
    assert (IH' : forall e, In e es2 -> exists e', In e' (sweep mf es) /\ contains (snd e') (snd e) = true).
    { intros e1 Hi1. apply (IH (es1 ++ [e0])); [rewrite <- app_assoc; exact Hes|exact Hi1]. }
    destruct Hi as [E|Hi]; [subst e|exact (IH' e Hi)].
    assert (Hin0 : In e0 es) by (rewrite Hes; apply in_or_app; right; left; reflexivity).
    destruct (keep mf e0) eqn:K.
    - exists e0. split; [unfold sweep; apply filter_In; split; assumption|apply contains_refl].
    - rewrite keep_eq in K.
      destruct (flat_self_or_later n cells 0%nat mempty mf es F Hok Hm0 es1 e0 es2 Hes _ _ (tl_in_e e0 (Hoks e0 Hin0))) as (e'' & Hi'' & E'').
      rewrite E'' in K. destruct e'' as [id'' r'']. apply Bool.orb_false_iff in K. destruct K as [Kid Kc].
      apply Bool.negb_false_iff in Kc. destruct Hi'' as [E|Hi''].
      + subst e0. cbn [fst] in Kid. rewrite Nat.eqb_refl in Kid. discriminate.
      + destruct (IH' _ Hi'') as (e' & Hk & Hc). exists e'. split; [exact Hk|]. cbn [snd] in Hc. exact (contains_trans _ _ _ Hc Kc). }
  intros e Hi. exact (G es [] eq_refl e Hi).
Qed.

Lemma pass_cover cells : Forall rect_ok cells -> forall r, In r cells -> exists r', In r' (pass cells) /\ contains r' r = true.
Proof.
  intros Hok r Hr. unfold pass. destruct (flat (length cells) 0 mempty cells) as [mf es] eqn:F.
  assert (Hm0 : forall x y e0, mempty x y = Some e0 -> rect_ok (snd e0)) by (intros; discriminate).
  destruct (flat_overwrite (length cells) cells 0%nat mempty mf es F Hok Hm0) as (_ & _ & F2).
  assert (He : exists e, In e es /\ contains (snd e) r = true).
  { clear F. induction F2 as [|r0 e l es' Hc _ IH]; [destruct Hr|]. destruct Hr as [E|Hr].
    - subst r0. exists e. split; [left; reflexivity|exact Hc].
    - inversion Hok; subst. destruct (IH H2 Hr) as (e1 & Hi & Hc1). exists e1. split; [right; exact Hi|exact Hc1]. }
  destruct He as (e & Hi & Hc). destruct (cover_kept (length cells) cells mf es F (le_n _) Hok e Hi) as (e' & Hk & Hc').
  exists (snd e'). split; [apply in_map; exact Hk|exact (contains_trans _ _ _ Hc' Hc)].
Qed.

Theorem norm_cover cells : Forall rect_ok cells -> forall r, In r cells -> exists r', In r' (norm cells) /\ contains r' r = true.
Proof.
  unfold norm. generalize (length cells) as fuel. intros fuel. revert cells.
  induction fuel as [|k IH]; intros cells Hok r Hr; cbn [norm_fuel].
  - exists r. split; [exact Hr|apply contains_refl].
  - destruct (pass_spec cells Hok) as (Hok' & _ & _). destruct (pass_cover cells Hok r Hr) as (r1 & Hi1 & Hc1).
    destruct (Nat.ltb (length (pass cells)) (length cells)).
    + destruct (IH (pass cells) Hok' r1 Hi1) as (r2 & Hi2 & Hc2). exists r2. split; [exact Hi2|exact (contains_trans _ _ _ Hc2 Hc1)].
    + exists r1. split; assumption.
Qed.

(* ---- histories of MergeCell / UnmergeCell / GetMergeCells ---- *)
Lemma merge_step_ok cells o : Forall rect_ok cells -> mop_ok o -> Forall rect_ok (merge_step cells o).
Proof.
  intros Hc Ho. destruct o as [r|r|]; cbn [merge_step mop_ok] in *.
  - apply Forall_app. split; [exact Hc|]. constructor; [exact Ho|constructor].
  - destruct (norm_disjoint cells Hc) as (_ & B & _). apply Forall_forall. intros c Hi. apply filter_In in Hi.
    exact (proj1 (Forall_forall _ _) B c (proj1 Hi)).
  - exact (proj1 (proj2 (norm_disjoint cells Hc))).
Qed.
Lemma merge_run_ok ops : Forall mop_ok ops -> Forall rect_ok (merge_run ops).
Proof.
  unfold merge_run. assert (G : forall cells, Forall rect_ok cells -> Forall mop_ok ops -> Forall rect_ok (fold_left merge_step ops cells)).
  { induction ops as [|o ops IH]; intros cells Hc Ho; cbn [fold_left]; [exact Hc|].
    inversion Ho; subst. apply IH; [apply merge_step_ok; assumption|assumption]. }
  intros H. apply G; [constructor|exact H].
Qed.
Theorem reported_disjoint ops : Forall mop_ok ops -> ForallOrdPairs disjoint (reported ops) /\ Forall rect_ok (reported ops).
Proof. intros H. destruct (norm_disjoint (merge_run ops) (merge_run_ok ops H)) as (A & B & _). exact (conj A B). Qed.
(* reading the merged ranges twice gives the same answer, and reading does not change what a later read reports *)
Theorem reported_get_pure ops : Forall mop_ok ops -> reported (ops ++ [MGet]) = reported ops.
Proof.
  intros H. unfold reported, merge_run. rewrite fold_left_app. cbn [fold_left merge_step]. apply norm_idem. exact (merge_run_ok ops H).
Qed.

Theorem reported_cover ops : Forall mop_ok ops -> forall r, In r (merge_run ops) -> exists r', In r' (reported ops) /\ contains r' r = true.
Proof. intros H r Hr. exact (norm_cover (merge_run ops) (merge_run_ok ops H) r Hr). Qed.
