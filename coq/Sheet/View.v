(* A second, functional view of the sheet core: per position the stored content (type, value, formula)
   and the *resolved* style (explicit, else row, else column).  Value, formula, cell-style and row-style
   writes are pointwise functions on this view (W_step); used by C11 (stream = in-memory). *)
From VF Require Import Base.Prelude Generated.Consts Sheet.Model Sheet.Proofs.
From Coq Require Import ZifyBool ZifyNat.

Definition content := (Z * bytes * option bytes)%type.
Definition wcell := (content * Z)%type.
Definition wgrid := Z -> Z -> wcell.
Definition content_of (o : obs) : content := let '(t, v, f, _) := o in (t, v, f).
Definition style_of (o : obs) : Z := let '(_, _, _, s) := o in s.
Definition empty_content : content := (0, [], None).

(* prepareCellStyle as a pure function of the row style and the column list *)
Definition pcs (rs : Z) (cs : list (Z * Z * Z)) (col s : Z) : Z :=
  if negb (s =? 0) then s else if negb (rs =? 0) then rs else col_style cs col.
Lemma prepare_cell_style_pcs sh col rw s : prepare_cell_style sh col rw s = pcs (row_style sh rw) (cols sh) col s.
Proof. reflexivity. Qed.
Lemma pcs_idem rs cs col s : pcs rs cs col (pcs rs cs col s) = pcs rs cs col s.
Proof.
  unfold pcs. destruct (Z.eqb_spec s 0) as [E|N]; cbn [negb].
  - destruct (Z.eqb_spec rs 0) as [E2|N2]; cbn [negb].
    + destruct (Z.eqb_spec (col_style cs col) 0) as [E3|N3]; cbn [negb]; [rewrite E3|]; reflexivity.
    + destruct (Z.eqb_spec rs 0); [contradiction|]. reflexivity.
  - destruct (Z.eqb_spec s 0); [contradiction|]. reflexivity.
Qed.
Lemma pcs_nonzero rs cs col s : s <> 0 -> pcs rs cs col s = s.
Proof. intros H. unfold pcs. destruct (Z.eqb_spec s 0); [contradiction|]. reflexivity. Qed.

Definition W (sh : sheet) : wgrid := fun col rw =>
  (content_of (abs sh col rw), prepare_cell_style sh col rw (style_of (abs sh col rw))).

Lemma get_cell_style_W sh col rw : get_cell_style sh col rw = snd (W sh col rw).
Proof.
  unfold get_cell_style, W, abs. cbn [snd].
  destruct (nth_error (rows sh) _) as [r|]; [|reflexivity].
  destruct (nth_error (r_cells r) _); reflexivity.
Qed.

(* the effect of one operation on one position, as a function of the old view of that position *)
Definition wstep_at (o : op) (c r : Z) (w : wcell) : wcell :=
  match o with
  | OSet col rw t v => if (c =? col) && (r =? rw) then ((t, v, None), snd w) else w
  | OFormula col rw f =>
      if (c =? col) && (r =? rw)
      then (let '(t, v, _) := fst w in if is_nil f then (t, v, None) else (3, (if t =? 2 then [] else v), Some f), snd w)
      else w
  | OStyle col rw s => if (c =? col) && (r =? rw) then (fst w, s) else w
  | ORowStyle rw s => if r =? rw then (fst w, s) else w
  | _ => w
  end.
Definition wstep (g : wgrid) (o : op) : wgrid := fun c r => wstep_at o c r (g c r).

(* operations covered by the view: no merge redirect in force, non-zero style ids *)
Definition op_simple (o : op) : Prop :=
  match o with
  | OSet _ _ _ _ | OFormula _ _ _ => True
  | OStyle _ _ s | ORowStyle _ s => s <> 0
  | _ => False
  end.

Lemma row_style_prepare col rw sh rw' : 1 <= rw -> 1 <= rw' ->
  row_style (prepare_sheet_xml col rw sh) rw' = row_style sh rw'.
Proof.
  intros Hr Hr'. unfold row_style. rewrite prepare_rows, nth_error_upd, nth_error_ext_rows.
  destruct (Nat.eqb_spec (Z.to_nat (rw' - 1)) (Z.to_nat (rw - 1))) as [E|N].
  - destruct (nth_error (rows sh) (Z.to_nat (rw' - 1))) as [r0|]; cbn [option_map].
    + now destruct (fill_columns_attrs col rw r0) as (_ & -> & _).
    + destruct (Z.of_nat (Z.to_nat (rw' - 1)) <? rw); cbn [option_map]; [|reflexivity].
      now destruct (fill_columns_attrs col rw (mkRow (Z.of_nat (Z.to_nat (rw' - 1)) + 1) [] 0 None false)) as (_ & -> & _).
  - destruct (nth_error (rows sh) (Z.to_nat (rw' - 1))) as [r0|]; [reflexivity|].
    destruct (Z.of_nat (Z.to_nat (rw' - 1)) <? rw); reflexivity.
Qed.

Lemma row_style_upd_cell col rw f sh rw' : row_style (upd_cell col rw f sh) rw' = row_style sh rw'.
Proof.
  unfold row_style, upd_cell. cbn [rows]. rewrite nth_error_upd.
  destruct (Nat.eqb _ _); [|reflexivity]. destruct (nth_error (rows sh) _); reflexivity.
Qed.

(* one prepared point update, seen through W *)
Lemma W_point_update col rw (f : cell -> cell) sh :
  1 <= col -> 1 <= rw ->
  forall c r, 1 <= c -> 1 <= r ->
  let sh' := upd_cell col rw f (prepare_sheet_xml col rw sh) in
  abs sh' c r = (if (c =? col) && (r =? rw)
                 then obs_of (Some (f (match cell_at sh col rw with Some c0 => c0 | None => filler col rw end)))
                 else abs sh c r) /\
  row_style sh' r = row_style sh r /\ cols sh' = cols sh.
Proof.
  intros Hc Hr c r Hc' Hr'. cbv zeta. split; [|split; [|reflexivity]].
  - rewrite abs_cell_at, cell_at_upd_cell by assumption.
    destruct ((c =? col) && (r =? rw)).
    + rewrite cell_at_prepare by lia. destruct (cell_at sh col rw); [reflexivity|].
      now rewrite Z.eqb_refl, Z.leb_refl.
    + rewrite <- abs_cell_at. apply abs_prepare; lia.
  - now rewrite row_style_upd_cell, row_style_prepare.
Qed.

Lemma obs_default sh col rw :
  obs_of (Some (match cell_at sh col rw with Some c0 => c0 | None => filler col rw end)) = abs sh col rw.
Proof. rewrite abs_cell_at. destruct (cell_at sh col rw); reflexivity. Qed.

Lemma W_step sh o : WF sh -> merges sh = [] -> op_ok o -> op_simple o ->
  (forall c r, 1 <= c -> 1 <= r -> W (step sh o) c r = wstep (W sh) o c r) /\
  cols (step sh o) = cols sh /\ merges (step sh o) = [].
Proof.
  intros HW Hm Hok Hs.
  destruct o as [col rw t v|col rw f|col rw s|rw s|col s|c1 r1 c2 r2|]; cbn [step op_ok op_simple] in *; try contradiction.
  - (* value *)
    destruct Hok as [Hc Hr]. unfold set_value. rewrite Hm. cbn [anchor].
    set (sh1 := prepare_sheet_xml col rw sh).
    set (fn := fun c0 => mkCell (c_col c0) (c_row c0) (prepare_cell_style sh1 col rw (c_s c0)) t v None).
    split; [|split; [reflexivity|exact Hm]].
    intros c r Hc' Hr'. destruct (W_point_update col rw fn sh Hc Hr c r Hc' Hr') as (Ha & Hrs & Hcs).
    fold sh1 in Ha, Hrs, Hcs. unfold W, wstep, wstep_at. rewrite Ha. rewrite !prepare_cell_style_pcs, Hrs, Hcs.
    destruct ((c =? col) && (r =? rw)) eqn:E; [|reflexivity].
    apply andb_prop in E. destruct E as [E1 E2]. apply Z.eqb_eq in E1, E2. subst c r.
    pose proof (obs_default sh col rw) as Hd. unfold fn. cbn [obs_of c_t c_v c_f c_s content_of style_of fst snd].
    rewrite prepare_cell_style_pcs. unfold sh1. rewrite row_style_prepare by assumption.
    change (cols (prepare_sheet_xml col rw sh)) with (cols sh).
    replace (c_s (match cell_at sh col rw with Some c0 => c0 | None => filler col rw end)) with (style_of (abs sh col rw))
      by (rewrite <- Hd; reflexivity).
    now rewrite pcs_idem.
  - (* formula *)
    destruct Hok as [Hc Hr]. unfold set_formula. rewrite Hm. cbn [anchor].
    match goal with |- context [upd_cell col rw ?g _] => set (fn := g) end.
    split; [|split; [reflexivity|exact Hm]].
    intros c r Hc' Hr'. destruct (W_point_update col rw fn sh Hc Hr c r Hc' Hr') as (Ha & Hrs & Hcs).
    unfold W, wstep, wstep_at. rewrite Ha. rewrite !prepare_cell_style_pcs, Hrs, Hcs.
    destruct ((c =? col) && (r =? rw)) eqn:E; [|reflexivity].
    apply andb_prop in E. destruct E as [E1 E2]. apply Z.eqb_eq in E1, E2. subst c r.
    pose proof (obs_default sh col rw) as Hd. cbn [fst snd].
    destruct (match cell_at sh col rw with Some c0 => c0 | None => filler col rw end) as [cc cr cs ct cv cf] eqn:E0.
    rewrite <- Hd. unfold fn. cbn [obs_of c_t c_v c_f c_s c_col c_row content_of style_of].
    destruct (is_nil f); reflexivity.
  - (* cell style *)
    destruct Hok as [Hc Hr]. unfold set_style.
    match goal with |- context [upd_cell col rw ?g _] => set (fn := g) end.
    split; [|split; [reflexivity|exact Hm]].
    intros c r Hc' Hr'. destruct (W_point_update col rw fn sh Hc Hr c r Hc' Hr') as (Ha & Hrs & Hcs).
    unfold W, wstep, wstep_at. rewrite Ha. rewrite !prepare_cell_style_pcs, Hrs, Hcs.
    destruct ((c =? col) && (r =? rw)) eqn:E; [|reflexivity].
    apply andb_prop in E. destruct E as [E1 E2]. apply Z.eqb_eq in E1, E2. subst c r.
    pose proof (obs_default sh col rw) as Hd. cbn [fst snd].
    destruct (match cell_at sh col rw with Some c0 => c0 | None => filler col rw end) as [cc cr cs ct cv cf] eqn:E0.
    rewrite <- Hd. unfold fn. cbn [obs_of c_t c_v c_f c_s c_col c_row content_of style_of].
    now rewrite pcs_nonzero.
  - (* row style *)
    split; [|split; [reflexivity|exact Hm]].
    intros c r Hc' Hr'. unfold set_row_style. set (sh1 := prepare_sheet_xml 0 rw sh).
    match goal with |- W ?x c r = _ => set (sh2 := x) end.
    unfold W, wstep, wstep_at.
    assert (Hrow : exists r1, nth_error (rows sh1) (Z.to_nat (rw - 1)) = Some r1).
    { unfold sh1. rewrite prepare_rows, nth_error_upd, Nat.eqb_refl, nth_error_ext_rows.
      destruct (nth_error (rows sh) (Z.to_nat (rw - 1))); cbn [option_map]; [eauto|].
      destruct (Z.ltb_spec (Z.of_nat (Z.to_nat (rw - 1))) rw); [|lia]. cbn [option_map]. eauto. }
    destruct Hrow as [r1 Er1].
    assert (Hrs : row_style sh2 r = if r =? rw then s else row_style sh r).
    { unfold row_style at 1, sh2. cbn [rows]. rewrite nth_error_upd.
      destruct (Nat.eqb_spec (Z.to_nat (r - 1)) (Z.to_nat (rw - 1))) as [E|N].
      - assert (r = rw) by lia. subst r. rewrite Z.eqb_refl, Er1. reflexivity.
      - destruct (Z.eqb_spec r rw); [lia|]. fold (row_style sh1 r). unfold sh1. now apply row_style_prepare. }
    assert (Habs : abs sh2 c r =
                   if r =? rw then (match cell_at sh1 c r with Some c0 => (c_t c0, c_v c0, c_f c0, s) | None => empty_obs end) else abs sh c r).
    { unfold abs at 1, sh2. cbn [rows]. rewrite nth_error_upd.
      destruct (Nat.eqb_spec (Z.to_nat (r - 1)) (Z.to_nat (rw - 1))) as [E|N].
      - assert (r = rw) by lia. subst r. rewrite Z.eqb_refl. unfold cell_at. rewrite Er1. cbn [option_map r_cells].
        rewrite nth_error_map. destruct (nth_error (r_cells r1) _); reflexivity.
      - destruct (Z.eqb_spec r rw); [lia|]. fold (abs sh1 c r). unfold sh1. apply abs_prepare; lia. }
    rewrite !prepare_cell_style_pcs, Hrs, Habs. change (cols sh2) with (cols sh).
    destruct (Z.eqb_spec r rw) as [E|N]; [|reflexivity]. subst r.
    assert (Hcont : content_of (match cell_at sh1 c rw with Some c0 => (c_t c0, c_v c0, c_f c0, s) | None => empty_obs end)
                    = content_of (abs sh c rw)).
    { rewrite <- (abs_prepare 0 rw sh c rw) by lia. fold sh1. rewrite abs_cell_at.
      destruct (cell_at sh1 c rw); reflexivity. }
    rewrite Hcont. cbn [fst snd]. f_equal.
    destruct (cell_at sh1 c rw); cbn [style_of empty_obs].
    + now rewrite pcs_nonzero.
    + unfold pcs. cbn [Z.eqb negb]. destruct (Z.eqb_spec s 0); [contradiction|]. reflexivity.
Qed.

Definition fold_at (ops : list op) (c r : Z) (w : wcell) : wcell := fold_left (fun w o => wstep_at o c r w) ops w.

Lemma fold_at_app a b c r w : fold_at (a ++ b) c r w = fold_at b c r (fold_at a c r w).
Proof. unfold fold_at. now rewrite fold_left_app. Qed.

(* any history of simple operations acts position by position *)
Lemma W_run ops : forall sh, WF sh -> merges sh = [] -> Forall op_ok ops -> Forall op_simple ops ->
  (forall c r, 1 <= c -> 1 <= r -> W (run ops sh) c r = fold_at ops c r (W sh c r)) /\
  cols (run ops sh) = cols sh /\ merges (run ops sh) = [] /\ WF (run ops sh).
Proof.
  induction ops as [|o ops IH]; intros sh HW Hm Hok Hs; cbn [run fold_left].
  - refine (conj _ (conj eq_refl (conj Hm HW))). intros; reflexivity.
  - inversion Hok as [|? ? Ho Hok']; subst. inversion Hs as [|? ? Hso Hs']; subst.
    destruct (W_step sh o HW Hm Ho Hso) as (H1 & H2 & H3).
    pose proof (step_WF sh o HW Ho) as HW'.
    destruct (IH (step sh o) HW' H3 Hok' Hs') as (G1 & G2 & G3 & G4).
    fold (run ops (step sh o)). split; [|split; [congruence|split; assumption]].
    intros c r Hc Hr. rewrite (G1 c r Hc Hr), (H1 c r Hc Hr). reflexivity.
Qed.
