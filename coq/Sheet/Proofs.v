From VF Require Import Base.Prelude Generated.Consts Sheet.Model.
From Coq Require Import ZifyBool ZifyNat.

(* ---------- list update ---------- *)
Lemma nth_error_firstn {A} (l : list A) : forall n j, (j < n)%nat -> nth_error (firstn n l) j = nth_error l j.
Proof.
  induction l as [|x l IH]; intros n j H.
  - rewrite firstn_nil. reflexivity.
  - destruct n; [lia|]. destruct j; cbn; [reflexivity|]. apply IH. lia.
Qed.

Lemma nth_error_nil {A} n : nth_error (@nil A) n = None.
Proof. destruct n; reflexivity. Qed.

Lemma upd_length {A} (l : list A) n f : length (upd l n f) = length l.
Proof. revert n; induction l as [|x l IH]; intros [|n]; cbn; auto. Qed.

Lemma nth_error_upd {A} (l : list A) n f m :
  nth_error (upd l n f) m = if Nat.eqb m n then option_map f (nth_error l m) else nth_error l m.
Proof.
  revert n m; induction l as [|x l IH]; intros n m.
  - cbn. destruct m, n; cbn; try reflexivity; destruct (Nat.eqb _ _); reflexivity.
  - destruct n as [|n], m as [|m]; cbn; try reflexivity. apply IH.
Qed.

Lemma nth_error_new_rows k : forall next i,
  nth_error (new_rows k next) i =
  if (i <? k)%nat then Some (mkRow (next + Z.of_nat i) [] 0 None false) else None.
Proof.
  induction k as [|k IH]; intros next i; cbn [new_rows].
  - destruct i; reflexivity.
  - destruct i as [|i]; cbn [nth_error].
    + replace (next + Z.of_nat 0) with next by lia. reflexivity.
    + rewrite IH. replace (next + 1 + Z.of_nat i) with (next + Z.of_nat (S i)) by lia.
      change (S i <? S k)%nat with (i <? k)%nat. reflexivity.
Qed.

Lemma new_rows_length k next : length (new_rows k next) = k.
Proof. revert next; induction k; intros; cbn; auto. Qed.

Lemma nth_error_fillers k : forall col rw j,
  nth_error (fillers k col rw) j = if (j <? k)%nat then Some (filler (col + Z.of_nat j) rw) else None.
Proof.
  induction k as [|k IH]; intros col rw j; cbn [fillers].
  - destruct j; reflexivity.
  - destruct j as [|j]; cbn [nth_error].
    + replace (col + Z.of_nat 0) with col by lia. reflexivity.
    + rewrite IH. replace (col + 1 + Z.of_nat j) with (col + Z.of_nat (S j)) by lia.
      change (S j <? S k)%nat with (j <? k)%nat. reflexivity.
Qed.

Lemma fillers_length k col rw : length (fillers k col rw) = k.
Proof. revert col; induction k; intros; cbn; auto. Qed.

(* ---------- positional view ---------- *)
Definition cell_at (sh : sheet) (col rw : Z) : option cell :=
  match nth_error (rows sh) (Z.to_nat (rw - 1)) with
  | Some r => nth_error (r_cells r) (Z.to_nat (col - 1))
  | None => None
  end.

Lemma abs_cell_at sh col rw : abs sh col rw = obs_of (cell_at sh col rw).
Proof.
  unfold abs, cell_at. destruct (nth_error (rows sh) _) as [r|]; [|reflexivity].
  destruct (nth_error (r_cells r) _); reflexivity.
Qed.

(* ---------- fill_columns / prepare_sheet_xml ---------- *)
Lemma fill_columns_cells col rw r j :
  nth_error (r_cells (fill_columns col rw r)) j =
  match nth_error (r_cells r) j with
  | Some c => Some c
  | None => if (Z.of_nat j <? col) then Some (filler (Z.of_nat j + 1) rw) else None
  end.
Proof.
  unfold fill_columns. set (n := Z.of_nat (length (r_cells r))).
  destruct (Z.ltb_spec n col) as [Hlt|Hge]; cbn [r_cells].
  - destruct (Nat.ltb_spec j (length (r_cells r))) as [Hj|Hj].
    + rewrite nth_error_app1 by assumption.
      destruct (nth_error (r_cells r) j) eqn:E; [reflexivity|].
      apply nth_error_None in E. lia.
    + rewrite nth_error_app2 by assumption.
      assert (E : nth_error (r_cells r) j = None) by (apply nth_error_None; lia). rewrite E.
      rewrite nth_error_fillers.
      destruct (Nat.ltb_spec (j - length (r_cells r)) (Z.to_nat (col - n))) as [H1|H1];
        destruct (Z.ltb_spec (Z.of_nat j) col) as [H2|H2]; try (unfold n in *; lia).
      * f_equal. f_equal. unfold n. lia.
      * reflexivity.
  - destruct (nth_error (r_cells r) j) eqn:E; [reflexivity|].
    apply nth_error_None in E. destruct (Z.ltb_spec (Z.of_nat j) col); [unfold n in *; lia|reflexivity].
Qed.

Lemma fill_columns_attrs col rw r :
  r_r (fill_columns col rw r) = r_r r /\ r_s (fill_columns col rw r) = r_s r /\
  r_ht (fill_columns col rw r) = r_ht r /\ r_hidden (fill_columns col rw r) = r_hidden r.
Proof. unfold fill_columns. destruct (_ <? _); cbn; auto. Qed.

(* rows after the append step of prepareSheetXML *)
Definition ext_rows (rw : Z) (sh : sheet) : list row :=
  let n := Z.of_nat (length (rows sh)) in
  if n <? rw then rows sh ++ new_rows (Z.to_nat (rw - n)) (n + 1) else rows sh.

Lemma nth_error_ext_rows rw sh i :
  nth_error (ext_rows rw sh) i =
  match nth_error (rows sh) i with
  | Some r => Some r
  | None => if Z.of_nat i <? rw then Some (mkRow (Z.of_nat i + 1) [] 0 None false) else None
  end.
Proof.
  unfold ext_rows. set (n := Z.of_nat (length (rows sh))).
  destruct (Z.ltb_spec n rw) as [Hlt|Hge].
  - destruct (Nat.ltb_spec i (length (rows sh))) as [Hi|Hi].
    + rewrite nth_error_app1 by assumption.
      destruct (nth_error (rows sh) i) eqn:E; [reflexivity|]. apply nth_error_None in E. lia.
    + rewrite nth_error_app2 by assumption.
      assert (E : nth_error (rows sh) i = None) by (apply nth_error_None; lia). rewrite E.
      rewrite nth_error_new_rows.
      destruct (Nat.ltb_spec (i - length (rows sh)) (Z.to_nat (rw - n))) as [H1|H1];
        destruct (Z.ltb_spec (Z.of_nat i) rw) as [H2|H2]; try (unfold n in *; lia).
      * f_equal. f_equal. unfold n. lia.
      * reflexivity.
  - destruct (nth_error (rows sh) i) eqn:E; [reflexivity|].
    apply nth_error_None in E. destruct (Z.ltb_spec (Z.of_nat i) rw); [unfold n in *; lia|reflexivity].
Qed.

Lemma prepare_rows col rw sh :
  rows (prepare_sheet_xml col rw sh) = upd (ext_rows rw sh) (Z.to_nat (rw - 1)) (fill_columns col rw).
Proof. reflexivity. Qed.

(* the cell at a position after prepareSheetXML: what was there, or a filler in the new region *)
Lemma cell_at_prepare col rw sh col' rw' :
  0 <= col -> 1 <= rw -> 1 <= col' -> 1 <= rw' ->
  cell_at (prepare_sheet_xml col rw sh) col' rw' =
  match cell_at sh col' rw' with
  | Some c => Some c
  | None => if (rw' =? rw) && (col' <=? col) then Some (filler col' rw') else None
  end.
Proof.
  intros Hc Hr Hc' Hr'. unfold cell_at. rewrite prepare_rows, nth_error_upd, nth_error_ext_rows.
  destruct (Nat.eqb_spec (Z.to_nat (rw' - 1)) (Z.to_nat (rw - 1))) as [E|N].
  - assert (rw' = rw) by lia. subst rw'. rewrite Z.eqb_refl. cbn [andb].
    destruct (nth_error (rows sh) (Z.to_nat (rw - 1))) as [r|] eqn:Er; cbn [option_map].
    + rewrite fill_columns_cells.
      destruct (nth_error (r_cells r) (Z.to_nat (col' - 1))); [reflexivity|].
      replace (Z.of_nat (Z.to_nat (col' - 1)) + 1) with col' by lia.
      destruct (Z.ltb_spec (Z.of_nat (Z.to_nat (col' - 1))) col), (Z.leb_spec col' col); try lia; reflexivity.
    + destruct (Z.ltb_spec (Z.of_nat (Z.to_nat (rw - 1))) rw); [|lia]. cbn [option_map].
      rewrite fill_columns_cells. cbn [r_cells]. rewrite nth_error_nil.
      replace (Z.of_nat (Z.to_nat (col' - 1)) + 1) with col' by lia.
      destruct (Z.ltb_spec (Z.of_nat (Z.to_nat (col' - 1))) col), (Z.leb_spec col' col); try lia; reflexivity.
  - assert (rw' <> rw) by lia. destruct (Z.eqb_spec rw' rw); [contradiction|]. cbn [andb].
    destruct (nth_error (rows sh) (Z.to_nat (rw' - 1))) as [r|]; [now destruct (nth_error (r_cells r) _)|].
    destruct (Z.of_nat (Z.to_nat (rw' - 1)) <? rw); [|reflexivity].
    cbn [r_cells]. now rewrite nth_error_nil.
Qed.

Lemma abs_prepare col rw sh col' rw' :
  0 <= col -> 1 <= rw -> 1 <= col' -> 1 <= rw' ->
  abs (prepare_sheet_xml col rw sh) col' rw' = abs sh col' rw'.
Proof.
  intros. rewrite !abs_cell_at, cell_at_prepare by lia.
  destruct (cell_at sh col' rw'); [reflexivity|].
  destruct ((rw' =? rw) && (col' <=? col)); reflexivity.
Qed.

Lemma cell_at_prepare_target col rw sh :
  1 <= col -> 1 <= rw -> exists c, cell_at (prepare_sheet_xml col rw sh) col rw = Some c /\
    (cell_at sh col rw = Some c \/ (cell_at sh col rw = None /\ c = filler col rw)).
Proof.
  intros Hc Hr. rewrite cell_at_prepare by lia.
  destruct (cell_at sh col rw) as [c|]; [exists c; auto|].
  rewrite Z.eqb_refl, Z.leb_refl. cbn. exists (filler col rw). auto.
Qed.

(* ---------- upd_cell ---------- *)
Lemma cell_at_upd_cell col rw f sh col' rw' :
  1 <= col -> 1 <= rw -> 1 <= col' -> 1 <= rw' ->
  cell_at (upd_cell col rw f sh) col' rw' =
  if (col' =? col) && (rw' =? rw) then option_map f (cell_at sh col rw) else cell_at sh col' rw'.
Proof.
  intros Hc Hr Hc' Hr'. unfold cell_at, upd_cell. cbn [rows]. rewrite nth_error_upd.
  destruct (Nat.eqb_spec (Z.to_nat (rw' - 1)) (Z.to_nat (rw - 1))) as [E|N].
  - assert (rw' = rw) by lia. subst rw'. rewrite Z.eqb_refl, andb_true_r.
    destruct (nth_error (rows sh) (Z.to_nat (rw - 1))) as [r|]; cbn [option_map r_cells].
    + rewrite nth_error_upd.
      destruct (Nat.eqb_spec (Z.to_nat (col' - 1)) (Z.to_nat (col - 1))) as [E2|N2].
      * assert (col' = col) by lia. subst. rewrite Z.eqb_refl. reflexivity.
      * destruct (Z.eqb_spec col' col); [lia|reflexivity].
    + destruct (col' =? col); reflexivity.
  - destruct (Z.eqb_spec rw' rw); [lia|]. rewrite andb_false_r. reflexivity.
Qed.

(* ---------- the invariant ---------- *)
Definition Inv' (sh : sheet) : Prop :=
  (forall i r, nth_error (rows sh) i = Some r -> r_r r = Z.of_nat i + 1) /\
  (forall col rw c, 1 <= col -> 1 <= rw -> cell_at sh col rw = Some c -> c_col c = col /\ c_row c = rw).

Lemma Inv_Inv' sh : Inv sh <-> Inv' sh.
Proof.
  unfold Inv, Inv', cells_dense, cell_at. split.
  - intros H. split.
    + intros i r Hi. apply (H i r Hi).
    + intros col rw c Hc Hr Hat.
      destruct (nth_error (rows sh) (Z.to_nat (rw - 1))) as [r|] eqn:Er; [|discriminate].
      destruct (H _ _ Er) as [_ Hd]. specialize (Hd _ _ Hat). lia.
  - intros [H1 H2] i r Hi. split; [now apply H1|].
    intros j c Hj. specialize (H2 (Z.of_nat j + 1) (Z.of_nat i + 1) c ltac:(lia) ltac:(lia)).
    replace (Z.to_nat (Z.of_nat i + 1 - 1)) with i in H2 by lia. rewrite Hi in H2.
    replace (Z.to_nat (Z.of_nat j + 1 - 1)) with j in H2 by lia. specialize (H2 Hj). lia.
Qed.

Lemma Inv_empty : Inv empty_sheet.
Proof. intros i r H. destruct i; discriminate. Qed.

Lemma Inv'_prepare col rw sh : 0 <= col -> 1 <= rw -> Inv' sh -> Inv' (prepare_sheet_xml col rw sh).
Proof.
  intros Hc Hr [H1 H2]. split.
  - intros i r Hi. rewrite prepare_rows, nth_error_upd, nth_error_ext_rows in Hi.
    destruct (Nat.eqb_spec i (Z.to_nat (rw - 1))) as [E|N].
    + destruct (nth_error (rows sh) i) as [r0|] eqn:Er; cbn [option_map] in Hi.
      * inversion Hi; subst r. destruct (fill_columns_attrs col rw r0) as (Ea & _). rewrite Ea. eauto.
      * destruct (Z.of_nat i <? rw); [|discriminate]. cbn [option_map] in Hi. inversion Hi; subst r.
        destruct (fill_columns_attrs col rw (mkRow (Z.of_nat i + 1) [] 0 None false)) as (Ea & _).
        rewrite Ea. reflexivity.
    + destruct (nth_error (rows sh) i) as [r0|] eqn:Er.
      * inversion Hi; subst. eauto.
      * destruct (Z.of_nat i <? rw); [|discriminate]. inversion Hi; subst. reflexivity.
  - intros col' rw' c Hc' Hr' Hat. rewrite cell_at_prepare in Hat by lia.
    destruct (cell_at sh col' rw') as [c0|] eqn:E.
    + inversion Hat; subst. eauto.
    + destruct ((rw' =? rw) && (col' <=? col)); [|discriminate]. inversion Hat; subst. cbn. auto.
Qed.

Lemma Inv'_upd_cell col rw f sh :
  1 <= col -> 1 <= rw -> (forall c, c_col (f c) = c_col c /\ c_row (f c) = c_row c) ->
  Inv' sh -> Inv' (upd_cell col rw f sh).
Proof.
  intros Hc Hr Hf [H1 H2]. split.
  - intros i r Hi. unfold upd_cell in Hi. cbn [rows] in Hi. rewrite nth_error_upd in Hi.
    destruct (Nat.eqb i (Z.to_nat (rw - 1))).
    + destruct (nth_error (rows sh) i) as [r0|] eqn:Er; [|discriminate]. cbn in Hi. inversion Hi; subst. cbn. eauto.
    + eauto.
  - intros col' rw' c Hc' Hr' Hat. rewrite cell_at_upd_cell in Hat by assumption.
    destruct ((col' =? col) && (rw' =? rw)) eqn:E.
    + apply andb_prop in E. destruct E as [E1 E2]. apply Z.eqb_eq in E1, E2. subst.
      destruct (cell_at sh col rw) as [c0|] eqn:E0; [|discriminate]. cbn in Hat. inversion Hat; subst.
      destruct (Hf c0) as [-> ->]. eauto.
    + eauto.
Qed.

(* ---------- reading by reference = reading by position, under the invariant ---------- *)
Lemma find_cell_spec cells col rw :
  (forall j c, nth_error cells j = Some c -> c_col c = Z.of_nat j + 1 /\ c_row c = rw) ->
  1 <= col -> find_cell cells col rw = nth_error cells (Z.to_nat (col - 1)).
Proof.
  intros Hd Hc.
  assert (G : forall k cs, (forall j c, nth_error cs j = Some c -> c_col c = Z.of_nat (k + j) + 1 /\ c_row c = rw) ->
              Z.of_nat k < col -> find_cell cs col rw = nth_error cs (Z.to_nat (col - 1) - k)).
  { intros k cs. revert k. induction cs as [|c cs IH]; intros k Hcs Hk; cbn [find_cell].
    - now rewrite nth_error_nil.
    - destruct (Hcs 0%nat c eq_refl) as [E1 E2]. rewrite E2, Z.eqb_refl, andb_true_r.
      destruct (Z.eqb_spec (c_col c) col) as [E|N].
      + replace (Z.to_nat (col - 1) - k)%nat with 0%nat by lia. reflexivity.
      + rewrite (IH (S k)).
        * replace (Z.to_nat (col - 1) - k)%nat with (S (Z.to_nat (col - 1) - S k)) by lia. reflexivity.
        * intros j c' Hj. specialize (Hcs (S j) c' Hj). replace (S k + j)%nat with (k + S j)%nat by lia. exact Hcs.
        * lia. }
  rewrite (G 0%nat cells); [f_equal; lia| |lia]. intros j c Hj. now apply Hd.
Qed.

Lemma find_in_rows_spec rs col rw :
  (forall i r, nth_error rs i = Some r -> r_r r = Z.of_nat i + 1 /\ cells_dense (Z.of_nat i + 1) (r_cells r)) ->
  1 <= col -> 1 <= rw ->
  find_in_rows rs col rw =
  match nth_error rs (Z.to_nat (rw - 1)) with Some r => nth_error (r_cells r) (Z.to_nat (col - 1)) | None => None end.
Proof.
  intros Hd Hc Hr.
  assert (G : forall k l, (forall i r, nth_error l i = Some r -> r_r r = Z.of_nat (k + i) + 1 /\ cells_dense (Z.of_nat (k + i) + 1) (r_cells r)) ->
              Z.of_nat k < rw ->
              find_in_rows l col rw =
              match nth_error l (Z.to_nat (rw - 1) - k) with Some r => nth_error (r_cells r) (Z.to_nat (col - 1)) | None => None end).
  { intros k l. revert k. induction l as [|r l IH]; intros k Hl Hk; cbn [find_in_rows].
    - now rewrite nth_error_nil.
    - destruct (Hl 0%nat r eq_refl) as [E1 E2]. replace (k + 0)%nat with k in * by lia.
      destruct (Z.eqb_spec (r_r r) rw) as [E|N].
      + replace (Z.to_nat (rw - 1) - k)%nat with 0%nat by lia. cbn [nth_error].
        rewrite find_cell_spec; [|intros j c Hj; destruct (E2 j c Hj); split; lia|assumption].
        destruct (nth_error (r_cells r) (Z.to_nat (col - 1))) eqn:En; [reflexivity|].
        (* not in this row: later rows have other numbers *)
        clear IH. assert (F : forall l' k', (forall i r', nth_error l' i = Some r' -> r_r r' = Z.of_nat (k' + i) + 1) -> rw < Z.of_nat k' + 1 ->
                      find_in_rows l' col rw = None).
        { induction l' as [|r' l' IH']; intros k' Hl' Hk'; cbn [find_in_rows]; [reflexivity|].
          pose proof (Hl' 0%nat r' eq_refl) as E'. replace (k' + 0)%nat with k' in E' by lia.
          destruct (Z.eqb_spec (r_r r') rw); [lia|]. apply (IH' (S k')); [|lia].
          intros i r'' Hi. specialize (Hl' (S i) r'' Hi). replace (S k' + i)%nat with (k' + S i)%nat by lia. exact Hl'. }
        apply (F l (S k)); [|lia]. intros i r' Hi. destruct (Hl (S i) r' Hi) as [Ha _].
        replace (S k + i)%nat with (k + S i)%nat by lia. exact Ha.
      + rewrite (IH (S k)).
        * replace (Z.to_nat (rw - 1) - k)%nat with (S (Z.to_nat (rw - 1) - S k)) by lia. reflexivity.
        * intros i r' Hi. specialize (Hl (S i) r' Hi). replace (S k + i)%nat with (k + S i)%nat by lia. exact Hl.
        * lia. }
  rewrite (G 0%nat rs); [replace (Z.to_nat (rw - 1) - 0)%nat with (Z.to_nat (rw - 1)) by lia; reflexivity| |lia].
  intros i r Hi. now apply Hd.
Qed.

Lemma last_row_num_spec rs :
  (forall i r, nth_error rs i = Some r -> r_r r = Z.of_nat i + 1) -> last_row_num rs = Z.of_nat (length rs).
Proof.
  intros H. unfold last_row_num. destruct (rev rs) as [|x l] eqn:E.
  - assert (rs = []) by (rewrite <- (rev_involutive rs), E; reflexivity). subst. reflexivity.
  - assert (Ers : rs = rev l ++ [x]) by (rewrite <- (rev_involutive rs), E; reflexivity).
    specialize (H (length (rev l)) x). rewrite Ers, nth_error_app2 in H by lia.
    rewrite Nat.sub_diag in H. rewrite (H eq_refl), Ers, app_length. cbn. lia.
Qed.

Lemma get_cell_positional sh col rw :
  Inv sh -> 1 <= col -> 1 <= rw ->
  (let '(c, r) := anchor (merges sh) col rw in 1 <= c /\ 1 <= r) ->
  get_cell sh col rw = (let '(c, r) := anchor (merges sh) col rw in cell_at sh c r).
Proof.
  intros HI Hc Hr. unfold get_cell. destruct (anchor (merges sh) col rw) as [c r]. intros [Hc' Hr'].
  rewrite (last_row_num_spec (rows sh)) by (intros i r0 Hi; now apply (HI i r0 Hi)).
  unfold cell_at. destruct (Z.gtb_spec r (Z.of_nat (length (rows sh)))) as [Hgt|Hle].
  - assert (E : nth_error (rows sh) (Z.to_nat (r - 1)) = None) by (apply nth_error_None; lia). now rewrite E.
  - now apply find_in_rows_spec.
Qed.

(* ---------- well-formed states ---------- *)
Definition rect_ok (r : rect) : Prop := let '(c1, r1, c2, r2) := r in 1 <= c1 <= c2 /\ 1 <= r1 <= r2.
Definition WF (sh : sheet) : Prop := Inv sh /\ Forall rect_ok (merges sh).

Lemma anchor_pos ms : Forall rect_ok ms -> forall col rw, 1 <= col -> 1 <= rw ->
  1 <= fst (anchor ms col rw) /\ 1 <= snd (anchor ms col rw).
Proof.
  induction 1 as [|r ms Hr _ IH]; intros col rw Hc Hrw; cbn [anchor]; [cbn; lia|].
  destruct (in_rect col rw r).
  - destruct r as [[[c1 r1] c2] r2]. cbn in *. lia.
  - now apply IH.
Qed.

Lemma prepare_merges col rw sh : merges (prepare_sheet_xml col rw sh) = merges sh.
Proof. reflexivity. Qed.
Lemma upd_cell_merges col rw f sh : merges (upd_cell col rw f sh) = merges sh.
Proof. reflexivity. Qed.

(* a cell update through prepareCell: invariant kept, exactly one grid point changes *)
Lemma prepared_update col rw f sh :
  1 <= col -> 1 <= rw -> (forall c, c_col (f c) = c_col c /\ c_row (f c) = c_row c) ->
  Inv sh ->
  let sh' := upd_cell col rw f (prepare_sheet_xml col rw sh) in
  Inv sh' /\
  exists c0, (cell_at sh col rw = Some c0 \/ (cell_at sh col rw = None /\ c0 = filler col rw)) /\
  forall col' rw', 1 <= col' -> 1 <= rw' ->
    cell_at sh' col' rw' =
    if (col' =? col) && (rw' =? rw) then Some (f c0)
    else cell_at (prepare_sheet_xml col rw sh) col' rw'.
Proof.
  intros Hc Hr Hf HI. cbv zeta. split.
  - apply Inv_Inv'. apply Inv'_upd_cell; try assumption. apply Inv'_prepare; try assumption; [lia|]. now apply Inv_Inv'.
  - destruct (cell_at_prepare_target col rw sh Hc Hr) as (c0 & E0 & Hor).
    exists c0. split; [assumption|]. intros col' rw' Hc' Hr'.
    rewrite cell_at_upd_cell by assumption. rewrite E0. reflexivity.
Qed.

Lemma obs_filler col rw : obs_of (Some (filler col rw)) = empty_obs.
Proof. reflexivity. Qed.

(* C03 core: a value write is a point update of the grid at the anchor cell; nothing else changes *)
Lemma set_value_spec col0 rw0 t v sh :
  WF sh -> 1 <= col0 -> 1 <= rw0 ->
  let '(col, rw) := anchor (merges sh) col0 rw0 in
  let sh' := set_value col0 rw0 t v sh in
  WF sh' /\ merges sh' = merges sh /\
  exists s', forall col' rw', 1 <= col' -> 1 <= rw' ->
    abs sh' col' rw' = grid_set (abs sh) col rw (t, v, None, s') col' rw'.
Proof.
  intros [HI HM] Hc0 Hr0. pose proof (anchor_pos _ HM col0 rw0 Hc0 Hr0) as Hpos.
  unfold set_value. destruct (anchor (merges sh) col0 rw0) as [col rw]. cbn [fst snd] in Hpos.
  destruct Hpos as [Hc Hr]. cbv zeta.
  set (sh1 := prepare_sheet_xml col rw sh).
  set (f := fun c => mkCell (c_col c) (c_row c) (prepare_cell_style sh1 col rw (c_s c)) t v None).
  destruct (prepared_update col rw f sh Hc Hr ltac:(intros c; cbn; auto) HI) as (HI' & c0 & Hc0' & Hat).
  split; [split; [exact HI'|exact HM]|]. split; [reflexivity|].
  exists (prepare_cell_style sh1 col rw (c_s c0)). intros col' rw' Hc' Hr'.
  rewrite abs_cell_at. fold sh1 in Hat. rewrite (Hat col' rw' Hc' Hr'). unfold grid_set.
  destruct ((col' =? col) && (rw' =? rw)); [reflexivity|].
  rewrite <- abs_cell_at. unfold sh1. apply abs_prepare; lia.
Qed.

Lemma set_formula_spec col0 rw0 f sh :
  WF sh -> 1 <= col0 -> 1 <= rw0 ->
  let '(col, rw) := anchor (merges sh) col0 rw0 in
  let sh' := set_formula col0 rw0 f sh in
  WF sh' /\ merges sh' = merges sh /\
  forall col' rw', 1 <= col' -> 1 <= rw' -> (col' <> col \/ rw' <> rw) -> abs sh' col' rw' = abs sh col' rw'.
Proof.
  intros [HI HM] Hc0 Hr0. pose proof (anchor_pos _ HM col0 rw0 Hc0 Hr0) as Hpos.
  unfold set_formula. destruct (anchor (merges sh) col0 rw0) as [col rw]. cbn [fst snd] in Hpos.
  destruct Hpos as [Hc Hr]. cbv zeta.
  match goal with |- context [upd_cell col rw ?g _] => set (fn := g) end.
  destruct (prepared_update col rw fn sh Hc Hr ltac:(intros c; unfold fn; destruct (is_nil f); cbn; auto) HI) as (HI' & c0 & Hc0' & Hat).
  split; [split; [exact HI'|exact HM]|]. split; [reflexivity|].
  intros col' rw' Hc' Hr' Hne. rewrite abs_cell_at, (Hat col' rw' Hc' Hr').
  assert (E : (col' =? col) && (rw' =? rw) = false) by lia. rewrite E.
  rewrite <- abs_cell_at. apply abs_prepare; lia.
Qed.

Lemma set_style_spec col rw s sh :
  WF sh -> 1 <= col -> 1 <= rw ->
  let sh' := set_style col rw s sh in
  WF sh' /\ merges sh' = merges sh /\
  forall col' rw', 1 <= col' -> 1 <= rw' -> (col' <> col \/ rw' <> rw) -> abs sh' col' rw' = abs sh col' rw'.
Proof.
  intros [HI HM] Hc Hr. cbv zeta. unfold set_style.
  match goal with |- context [upd_cell col rw ?g _] => set (fn := g) end.
  destruct (prepared_update col rw fn sh Hc Hr ltac:(intros c; cbn; auto) HI) as (HI' & c0 & Hc0' & Hat).
  split; [split; [exact HI'|exact HM]|]. split; [reflexivity|].
  intros col' rw' Hc' Hr' Hne. rewrite abs_cell_at, (Hat col' rw' Hc' Hr').
  assert (E : (col' =? col) && (rw' =? rw) = false) by lia. rewrite E.
  rewrite <- abs_cell_at. apply abs_prepare; lia.
Qed.

(* ---------- save: trim then re-densify keeps the invariant and every observable ---------- *)
Lemma obs_no_value c : has_value c = false -> obs_of (Some c) = empty_obs.
Proof.
  unfold has_value, obs_of, empty_obs. intros H.
  destruct c as [cc cr cs ct cv cf]. cbn in *.
  destruct cf; [rewrite !orb_true_r in H; cbn in H; try discriminate; destruct (negb _ || _); discriminate|].
  destruct cv; [|destruct (negb (cs =? 0)); cbn in H; discriminate].
  cbn in H. repeat f_equal; lia.
Qed.

Definition dense_from (k : nat) (cells : list cell) : Prop :=
  forall j c, nth_error cells j = Some c -> c_col c = Z.of_nat (k + j) + 1.

Lemma dense_from_tail k c cells : dense_from k (c :: cells) -> dense_from (S k) cells.
Proof. intros H j c' Hj. specialize (H (S j) c' Hj). rewrite H. f_equal. lia. Qed.

Lemma place_filter : forall cells k T, dense_from k cells ->
  forall j, nth_error (place (filter has_value cells) T) j =
    match (if (k <=? j)%nat then nth_error cells (j - k) else None) with
    | Some c => if has_value c && (j <? length T)%nat then Some c else nth_error T j
    | None => nth_error T j
    end.
Proof.
  induction cells as [|c cells IH]; intros k T Hd j; cbn [filter place].
  - rewrite nth_error_nil. destruct (k <=? j)%nat; reflexivity.
  - pose proof (Hd 0%nat c eq_refl) as Hc. replace (k + 0)%nat with k in Hc by lia.
    pose proof (dense_from_tail _ _ _ Hd) as Hd'.
    destruct (has_value c) eqn:Hv; cbn [place].
    + replace (Z.to_nat (c_col c - 1)) with k by lia.
      rewrite (IH (S k) _ Hd' j). rewrite upd_length, nth_error_upd.
      destruct (Nat.leb_spec (S k) j) as [H1|H1].
      * destruct (Nat.leb_spec k j); [|lia]. replace (j - k)%nat with (S (j - S k)) by lia. cbn [nth_error].
        destruct (Nat.eqb_spec j k); [lia|]. reflexivity.
      * destruct (Nat.leb_spec k j) as [H2|H2].
        -- assert (j = k) by lia. subst j. rewrite Nat.sub_diag. cbn [nth_error]. rewrite Hv, Nat.eqb_refl.
           destruct (Nat.ltb_spec k (length T)) as [H3|H3]; cbn [andb].
           ++ destruct (nth_error T k) eqn:E; [reflexivity|]. apply nth_error_None in E. lia.
           ++ assert (E : nth_error T k = None) by (apply nth_error_None; lia). rewrite E. reflexivity.
        -- destruct (Nat.eqb_spec j k); [lia|]. reflexivity.
    + rewrite (IH (S k) _ Hd' j).
      destruct (Nat.leb_spec (S k) j) as [H1|H1].
      * destruct (Nat.leb_spec k j); [|lia]. replace (j - k)%nat with (S (j - S k)) by lia. reflexivity.
      * destruct (Nat.leb_spec k j) as [H2|H2]; [|reflexivity].
        assert (j = k) by lia. subst j. rewrite Nat.sub_diag. cbn [nth_error]. rewrite Hv. reflexivity.
Qed.

(* the last valued cell bounds every valued cell *)
Lemma last_filter_bound : forall cells k lc rest, dense_from k cells ->
  rev (filter has_value cells) = lc :: rest ->
  Z.of_nat k + 1 <= c_col lc /\
  (forall j c, nth_error cells j = Some c -> has_value c = true -> c_col c <= c_col lc) /\
  (exists j, nth_error cells j = Some lc) /\ has_value lc = true.
Proof.
  induction cells as [|c cells IH]; intros k lc rest Hd Hrev; cbn [filter] in Hrev; [discriminate|].
  pose proof (Hd 0%nat c eq_refl) as Hc. replace (k + 0)%nat with k in Hc by lia.
  pose proof (dense_from_tail _ _ _ Hd) as Hd'.
  destruct (has_value c) eqn:Hv.
  - cbn [rev] in Hrev. destruct (rev (filter has_value cells)) as [|lc' rest'] eqn:E.
    + cbn in Hrev. inversion Hrev; subst lc rest. split; [lia|]. split; [|split; [exists 0%nat; reflexivity|assumption]].
      intros j c' Hj Hv'. destruct j as [|j]; [cbn in Hj; inversion Hj; subst; lia|]. cbn in Hj.
      exfalso. assert (Hin : In c' (filter has_value cells)) by (apply filter_In; split; [eapply nth_error_In; eauto|assumption]).
      apply in_rev in Hin. rewrite E in Hin. destruct Hin.
    + cbn in Hrev. inversion Hrev; subst lc'. destruct (IH (S k) lc rest' Hd' eq_refl) as (G1 & H2 & (j0 & H3) & H4).
      split; [lia|]. split; [|split; [exists (S j0); exact H3|assumption]].
      intros j c' Hj Hv'. destruct j as [|j]; [cbn in Hj; inversion Hj; subst; lia|]. cbn in Hj. eauto.
  - destruct (IH (S k) lc rest Hd' Hrev) as (H1 & H2 & (j0 & H3) & H4).
    split; [lia|]. split; [|split; [exists (S j0); exact H3|assumption]].
    intros j c' Hj Hv'. destruct j as [|j]; [cbn in Hj; inversion Hj; subst; congruence|]. cbn in Hj. eauto.
Qed.

(* a filtered dense list at least as long as its last column is a dense prefix *)
Lemma filter_full_prefix : forall cells k lc rest, dense_from k cells ->
  rev (filter has_value cells) = lc :: rest ->
  c_col lc - Z.of_nat k <= Z.of_nat (length (filter has_value cells)) ->
  filter has_value cells = firstn (Z.to_nat (c_col lc - Z.of_nat k)) cells.
Proof.
  induction cells as [|c cells IH]; intros k lc rest Hd Hrev Hlen; cbn [filter] in *; [discriminate|].
  pose proof (Hd 0%nat c eq_refl) as Hc. replace (k + 0)%nat with k in Hc by lia.
  pose proof (dense_from_tail _ _ _ Hd) as Hd'.
  destruct (has_value c) eqn:Hv.
  - cbn [rev] in Hrev. destruct (rev (filter has_value cells)) as [|lc' rest'] eqn:E.
    + cbn in Hrev. inversion Hrev; subst lc rest.
      assert (En : filter has_value cells = []) by (rewrite <- (rev_involutive (filter _ _)), E; reflexivity).
      rewrite En. replace (Z.to_nat (c_col c - Z.of_nat k)) with 1%nat by lia. reflexivity.
    + cbn in Hrev. inversion Hrev; subst lc'.
      destruct (last_filter_bound cells (S k) lc rest' Hd' E) as (Hb & _).
      cbn [length] in Hlen.
      rewrite (IH (S k) lc rest' Hd' eq_refl) by lia.
      replace (Z.to_nat (c_col lc - Z.of_nat k)) with (S (Z.to_nat (c_col lc - Z.of_nat (S k)))) by lia.
      reflexivity.
  - exfalso. destruct (last_filter_bound cells (S k) lc rest Hd' Hrev) as (Hb & _).
    destruct (Z.le_gt_cases (c_col lc - Z.of_nat (S k)) (Z.of_nat (length (filter has_value cells)))) as [Hle|Hgt]; [|lia].
    pose proof (IH (S k) lc rest Hd' Hrev Hle) as E. rewrite E in Hlen. rewrite firstn_length in Hlen. lia.
Qed.

Lemma filter_nil_all (cells : list cell) :
  filter has_value cells = [] -> forall j c, nth_error cells j = Some c -> has_value c = false.
Proof.
  intros H j c Hj. destruct (has_value c) eqn:Hv; [|reflexivity].
  assert (Hin : In c (filter has_value cells)) by (apply filter_In; split; [eapply nth_error_In; eauto|assumption]).
  rewrite H in Hin. destruct Hin.
Qed.

(* one row through save *)
Lemma densify_trim_row rw r :
  1 <= rw -> r_r r = rw -> cells_dense rw (r_cells r) ->
  let r' := densify_row rw (trim_row r) in
  r_r r' = rw /\ cells_dense rw (r_cells r') /\
  r_s r' = r_s r /\ r_ht r' = r_ht r /\ r_hidden r' = r_hidden r /\
  forall j, obs_of (nth_error (r_cells r') j) = obs_of (nth_error (r_cells r) j).
Proof.
  intros Hrw HR Hd. cbv zeta.
  assert (Hd0 : dense_from 0 (r_cells r)) by (intros j c Hj; destruct (Hd j c Hj); lia).
  unfold trim_row. cbn [trim_cell r_cells r_s r_ht r_hidden row_has_attr].
  destruct (filter has_value (r_cells r)) as [|f0 frest] eqn:EF.
  - (* no valued cell *)
    pose proof (filter_nil_all _ EF) as Hnv.
    destruct (row_has_attr (trim_cell r)) eqn:Hattr; cbn [is_nil_cells negb orb].
    + unfold trim_cell in *. rewrite EF. cbn. unfold densify_row. cbn [r_cells rev].
      refine (conj HR (conj _ (conj eq_refl (conj eq_refl (conj eq_refl _))))).
      * intros j c Hj. destruct j; discriminate.
      * intros j. rewrite nth_error_nil. destruct (nth_error (r_cells r) j) eqn:E; [|reflexivity].
        symmetry. apply obs_no_value. eauto.
    + unfold trim_cell in Hattr. rewrite EF in *. cbn [is_nil_cells negb orb] in *.
      replace (row_has_attr {| r_r := r_r r; r_cells := []; r_s := r_s r; r_ht := r_ht r; r_hidden := r_hidden r |}) with false.
      unfold densify_row. destruct (rev (r_cells r)) as [|lc rest] eqn:Erev; [refine (conj HR (conj Hd (conj eq_refl (conj eq_refl (conj eq_refl _))))); reflexivity|].
      assert (Hlast : c_col lc = Z.of_nat (length (r_cells r))).
      { assert (Ers : r_cells r = rev rest ++ [lc]) by (rewrite <- (rev_involutive (r_cells r)), Erev; reflexivity).
        destruct (Hd (length (rev rest)) lc) as [Hcol _].
        { rewrite Ers, nth_error_app2 by lia. now rewrite Nat.sub_diag. }
        rewrite Hcol, Ers, app_length. cbn. lia. }
      rewrite Hlast, Z.ltb_irrefl. refine (conj HR (conj Hd (conj eq_refl (conj eq_refl (conj eq_refl _))))); reflexivity.
  - (* some valued cells *)
    cbn [is_nil_cells negb orb]. unfold trim_cell. rewrite EF. unfold densify_row. cbn [r_cells r_r r_s r_ht r_hidden].
    destruct (rev (f0 :: frest)) as [|lc rest] eqn:Erev.
    { exfalso. assert (f0 :: frest = []) by (rewrite <- (rev_involutive (f0 :: frest)), Erev; reflexivity). discriminate. }
    rewrite <- EF in Erev.
    destruct (last_filter_bound _ 0%nat lc rest Hd0 Erev) as (Hb & Hmax & (jl & Hjl) & Hvl).
    assert (Hlc : c_col lc = Z.of_nat jl + 1) by (destruct (Hd jl lc Hjl); lia).
    (* beyond the last valued cell nothing has a value *)
    assert (Hbeyond : forall j c, nth_error (r_cells r) j = Some c -> (jl < j)%nat -> has_value c = false).
    { intros j c Hj Hlt. destruct (has_value c) eqn:Hv; [|reflexivity].
      specialize (Hmax j c Hj Hv). destruct (Hd j c Hj). lia. }
    rewrite <- EF.
    destruct (Z.ltb_spec (Z.of_nat (length (filter has_value (r_cells r)))) (c_col lc)) as [Hlt|Hge]; cbn [r_r r_cells r_s r_ht r_hidden].
    + (* rebuilt through place *)
      assert (Hchar : forall j, nth_error (place (filter has_value (r_cells r)) (fillers (Z.to_nat (c_col lc)) 1 rw)) j =
                if (j <=? jl)%nat then
                  match nth_error (r_cells r) j with
                  | Some c => if has_value c then Some c else Some (filler (Z.of_nat j + 1) rw)
                  | None => Some (filler (Z.of_nat j + 1) rw)
                  end
                else None).
      { intros j. rewrite (place_filter _ 0%nat _ Hd0 j). cbn [Nat.leb]. rewrite Nat.sub_0_r, fillers_length, nth_error_fillers.
        replace (1 + Z.of_nat j) with (Z.of_nat j + 1) by lia.
        destruct (Nat.leb_spec j jl) as [H1|H1].
        - destruct (Nat.ltb_spec j (Z.to_nat (c_col lc))); [|lia].
          destruct (nth_error (r_cells r) j) as [c|]; [|reflexivity].
          destruct (has_value c); reflexivity.
        - destruct (Nat.ltb_spec j (Z.to_nat (c_col lc))); [lia|].
          destruct (nth_error (r_cells r) j) as [c|] eqn:E; [|reflexivity].
          rewrite (Hbeyond j c E) by lia. reflexivity. }
      refine (conj HR (conj _ (conj eq_refl (conj eq_refl (conj eq_refl _))))).
      * intros j c Hj. rewrite Hchar in Hj. destruct (j <=? jl)%nat; [|discriminate].
        destruct (nth_error (r_cells r) j) as [c'|] eqn:E.
        -- destruct (has_value c'); inversion Hj; subst; [destruct (Hd j c E); split; lia|cbn; split; lia].
        -- inversion Hj; subst. cbn. split; lia.
      * intros j. rewrite Hchar. destruct (Nat.leb_spec j jl) as [H1|H1].
        -- destruct (nth_error (r_cells r) j) as [c|] eqn:E; [|reflexivity].
           destruct (has_value c) eqn:Hv; [reflexivity|]. rewrite obs_filler. symmetry. now apply obs_no_value.
        -- destruct (nth_error (r_cells r) j) as [c|] eqn:E; [|reflexivity].
           symmetry. apply obs_no_value. apply (Hbeyond j c E). lia.
    + (* already contiguous: a dense prefix *)
      pose proof (filter_full_prefix _ 0%nat lc rest Hd0 Erev ltac:(lia)) as Epre.
      replace (c_col lc - Z.of_nat 0) with (c_col lc) in Epre by lia.
      rewrite Epre. refine (conj HR (conj _ (conj eq_refl (conj eq_refl (conj eq_refl _))))).
      * intros j c Hj. assert (Hj' : nth_error (r_cells r) j = Some c).
        { destruct (Nat.ltb_spec j (Z.to_nat (c_col lc))).
          - rewrite nth_error_firstn in Hj by assumption. exact Hj.
          - exfalso. assert (E : nth_error (firstn (Z.to_nat (c_col lc)) (r_cells r)) j = None).
            { apply nth_error_None. rewrite firstn_length. lia. } congruence. }
        destruct (Hd j c Hj'). split; lia.
      * intros j. destruct (Nat.ltb_spec j (Z.to_nat (c_col lc))) as [H1|H1].
        -- now rewrite nth_error_firstn.
        -- assert (E : nth_error (firstn (Z.to_nat (c_col lc)) (r_cells r)) j = None).
           { apply nth_error_None. rewrite firstn_length. lia. }
           rewrite E. destruct (nth_error (r_cells r) j) as [c|] eqn:E2; [|reflexivity].
           symmetry. apply obs_no_value. apply (Hbeyond j c E2). lia.
Qed.

Lemma nth_error_densify_rows l : forall idx i,
  nth_error (densify_rows idx l) i = option_map (densify_row (idx + Z.of_nat i)) (nth_error l i).
Proof.
  induction l as [|r l IH]; intros idx i; cbn [densify_rows].
  - now rewrite !nth_error_nil.
  - destruct i as [|i]; cbn [nth_error option_map].
    + now replace (idx + Z.of_nat 0) with idx by lia.
    + rewrite IH. now replace (idx + 1 + Z.of_nat i) with (idx + Z.of_nat (S i)) by lia.
Qed.

Lemma save_row sh i :
  nth_error (rows (save sh)) i = option_map (fun r => densify_row (1 + Z.of_nat i) (trim_row r)) (nth_error (rows sh) i).
Proof.
  unfold save, xml_rows. cbn [rows]. rewrite nth_error_densify_rows, nth_error_map.
  destruct (nth_error (rows sh) i); reflexivity.
Qed.

(* saving keeps the invariant, every grid observable and every row attribute *)
Lemma save_spec sh : Inv sh ->
  Inv (save sh) /\
  (forall col rw, 1 <= col -> 1 <= rw -> abs (save sh) col rw = abs sh col rw) /\
  (forall rw, row_style (save sh) rw = row_style sh rw) /\
  length (rows (save sh)) = length (rows sh) /\
  merges (save sh) = merges sh /\ cols (save sh) = cols sh.
Proof.
  intros HI.
  assert (Hrow : forall i r, nth_error (rows sh) i = Some r ->
            let r' := densify_row (1 + Z.of_nat i) (trim_row r) in
            r_r r' = Z.of_nat i + 1 /\ cells_dense (Z.of_nat i + 1) (r_cells r') /\
            r_s r' = r_s r /\ r_ht r' = r_ht r /\ r_hidden r' = r_hidden r /\
            forall j, obs_of (nth_error (r_cells r') j) = obs_of (nth_error (r_cells r) j)).
  { intros i r Hi. destruct (HI i r Hi) as [HR Hd]. replace (1 + Z.of_nat i) with (Z.of_nat i + 1) by lia.
    apply densify_trim_row; [lia|assumption|assumption]. }
  split; [|split; [|split; [|split; [|split]]]].
  - intros i r' Hi. rewrite save_row in Hi. destruct (nth_error (rows sh) i) as [r|] eqn:E; [|discriminate].
    cbn in Hi. inversion Hi; subst r'. destruct (Hrow i r E) as (H1 & H2 & _). auto.
  - intros col rw Hc Hr. unfold abs. rewrite save_row.
    destruct (nth_error (rows sh) (Z.to_nat (rw - 1))) as [r|] eqn:E; cbn [option_map]; [|reflexivity].
    destruct (Hrow _ r E) as (_ & _ & _ & _ & _ & Hobs). specialize (Hobs (Z.to_nat (col - 1))).
    unfold obs_of in Hobs.
    destruct (nth_error (r_cells (densify_row _ (trim_row r))) _); destruct (nth_error (r_cells r) _); exact Hobs.
  - intros rw. unfold row_style. rewrite save_row.
    destruct (nth_error (rows sh) (Z.to_nat (rw - 1))) as [r|] eqn:E; cbn [option_map]; [|reflexivity].
    destruct (Hrow _ r E) as (_ & _ & Hs & _). exact Hs.
  - unfold save, xml_rows. cbn [rows].
    assert (G : forall l idx, length (densify_rows idx l) = length l) by (induction l; intros; cbn; auto).
    now rewrite G, map_length.
  - reflexivity.
  - reflexivity.
Qed.

(* ---------- histories ---------- *)
Lemma clear_cells_WF : forall cells sh, WF sh -> Forall (fun p => 1 <= fst p /\ 1 <= snd p) cells ->
  WF (clear_cells cells sh) /\ merges (clear_cells cells sh) = merges sh.
Proof.
  induction cells as [|[col rw] cells IH]; intros sh HW Hall; cbn [clear_cells]; [auto|].
  inversion Hall as [|? ? [Hc Hr] Hrest]; subst. cbn [fst snd] in *.
  destruct HW as [HI HM].
  match goal with |- context [upd_cell col rw ?g _] => set (fn := g) end.
  destruct (prepared_update col rw fn sh Hc Hr ltac:(intros c; cbn; auto) HI) as (HI' & _).
  destruct (IH (upd_cell col rw fn (prepare_sheet_xml col rw sh)) (conj HI' HM) Hrest) as [H1 H2].
  split; [exact H1|]. rewrite H2. reflexivity.
Qed.

Lemma zseq_ge lo n x : In x (zseq lo n) -> lo <= x.
Proof. revert lo; induction n as [|n IH]; intros lo H; cbn in H; [contradiction|]. destruct H as [->|H]; [lia|]. apply IH in H. lia. Qed.

Lemma set_style_rows_WF col s : 1 <= col -> forall k rw sh, 1 <= rw -> WF sh -> WF (set_style_rows col s k rw sh).
Proof.
  intros Hc. induction k as [|k IH]; intros rw sh Hr HW; cbn [set_style_rows]; [assumption|].
  apply IH; [lia|]. apply (set_style_spec col rw s sh HW Hc Hr).
Qed.

Lemma step_WF sh o : WF sh -> op_ok o -> WF (step sh o).
Proof.
  intros HW Hok. destruct o as [col rw t v|col rw f|col rw s|rw s|col s|c1 r1 c2 r2|]; cbn [step op_ok] in *.
  - destruct Hok as [Hc Hr]. pose proof (set_value_spec col rw t v sh HW Hc Hr) as H.
    destruct (anchor (merges sh) col rw). apply H.
  - destruct Hok as [Hc Hr]. pose proof (set_formula_spec col rw f sh HW Hc Hr) as H.
    destruct (anchor (merges sh) col rw). apply H.
  - destruct Hok as [Hc Hr]. apply (set_style_spec col rw s sh HW Hc Hr).
  - (* row style *)
    destruct HW as [HI HM]. unfold set_row_style. split; [|exact HM].
    pose proof (proj1 (Inv_Inv' _) HI) as HI0.
    pose proof (Inv'_prepare 0 rw sh ltac:(lia) Hok HI0) as HI1. apply Inv_Inv' in HI1.
    intros i r Hi. cbn [rows] in Hi. rewrite nth_error_upd in Hi.
    destruct (Nat.eqb i (Z.to_nat (rw - 1))).
    + destruct (nth_error (rows (prepare_sheet_xml 0 rw sh)) i) as [r0|] eqn:E; [|discriminate].
      cbn in Hi. inversion Hi; subst r. cbn [r_r r_cells]. destruct (HI1 i r0 E) as [H1 H2]. split; [exact H1|].
      intros j c Hj. rewrite nth_error_map in Hj. destruct (nth_error (r_cells r0) j) as [c0|] eqn:E0; [|discriminate].
      cbn in Hj. inversion Hj; subst c. cbn. apply (H2 j c0 E0).
    + apply (HI1 i r Hi).
  - (* column style *)
    unfold set_col_style. apply set_style_rows_WF; [assumption|lia|]. destruct HW as [HI HM]. split; assumption.
  - (* merge *)
    destruct Hok as [Hc Hr]. unfold merge_cell.
    match goal with |- context [clear_cells ?cs sh] => set (covered := cs) end.
    assert (Hcov : Forall (fun p => 1 <= fst p /\ 1 <= snd p) covered).
    { apply Forall_forall. intros [x y] Hin. unfold covered in Hin. apply filter_In in Hin. destruct Hin as [Hin _].
      unfold rect_cells in Hin. apply in_flat_map in Hin. destruct Hin as (cc & Hcc & Hin).
      apply in_map_iff in Hin. destruct Hin as (rr & Heq & Hrr). inversion Heq; subst.
      apply zseq_ge in Hcc. apply zseq_ge in Hrr. cbn. lia. }
    destruct (clear_cells_WF covered sh HW Hcov) as [[HI' HM'] Hm]. split; [exact HI'|].
    cbn [merges]. rewrite Hm. apply Forall_app. split; [apply HW|]. constructor; [cbn; lia|constructor].
  - destruct HW as [HI HM]. destruct (save_spec sh HI) as (H1 & _). split; [exact H1|exact HM].
Qed.

Lemma run_WF ops : forall sh, WF sh -> Forall op_ok ops -> WF (run ops sh).
Proof.
  induction ops as [|o ops IH]; intros sh HW Hall; cbn [run fold_left]; [assumption|].
  inversion Hall; subst. apply IH; [|assumption]. now apply step_WF.
Qed.

Lemma WF_empty : WF empty_sheet.
Proof. split; [exact Inv_empty|constructor]. Qed.

(* reads by reference agree with the positional grid in every reachable state *)
Lemma observe_abs sh col rw :
  WF sh -> 1 <= col -> 1 <= rw ->
  observe sh col rw = (let '(c, r) := anchor (merges sh) col rw in abs sh c r).
Proof.
  intros [HI HM] Hc Hr. unfold observe.
  pose proof (anchor_pos _ HM col rw Hc Hr) as Hpos.
  rewrite get_cell_positional; try assumption.
  - destruct (anchor (merges sh) col rw) as [c r]. now rewrite abs_cell_at.
  - destruct (anchor (merges sh) col rw) as [c r]. exact Hpos.
Qed.
