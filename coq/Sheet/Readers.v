(* C04: the streaming row reader over the serialised rows agrees with the positional grid. *)
From VF Require Import Base.Prelude Generated.Consts Sheet.Model Sheet.Proofs.
From Coq Require Import ZifyBool ZifyNat.
Ltac blia := unfold bytes in *; lia.

Definition emit (c : cell) : bool := negb (is_nil (c_v c)) || (match c_f c with Some _ => true | None => false end).
Definition rstep (acc : list bytes) (c : cell) : list bytes :=
  if emit c then pad (Z.to_nat (c_col c - 1)) [] acc ++ [c_v c] else acc.

Lemma row_values_fold r : row_values c_v r = fold_left rstep (r_cells r) [].
Proof. reflexivity. Qed.

Fixpoint lookup (cs : list cell) (j : nat) : option cell :=
  match cs with
  | [] => None
  | c :: rest => if c_col c =? Z.of_nat j + 1 then Some c else lookup rest j
  end.

(* strictly increasing columns, all beyond a bound *)
Fixpoint incr_from (b : Z) (cs : list cell) : Prop :=
  match cs with [] => True | c :: rest => b < c_col c /\ incr_from (c_col c) rest end.

Lemma lookup_none_below cs : forall b j, incr_from b cs -> Z.of_nat j + 1 <= b -> lookup cs j = None.
Proof.
  induction cs as [|c cs IH]; intros b j H Hj; cbn [lookup]; [reflexivity|].
  cbn [incr_from] in H. destruct H as [H1 H2]. destruct (Z.eqb_spec (c_col c) (Z.of_nat j + 1)); [lia|].
  apply (IH (c_col c)); [assumption|lia].
Qed.

Lemma nth_pad (acc : list (list Z)) n j : nth j (pad n [] acc) [] = nth j acc [].
Proof.
  unfold pad. destruct (Nat.ltb_spec j (length acc)).
  - now rewrite app_nth1.
  - rewrite app_nth2 by lia. rewrite (nth_overflow acc) by lia.
    destruct (Nat.ltb_spec (j - length acc) (n - length acc)).
    + now rewrite nth_repeat.
    + rewrite nth_overflow; [reflexivity|]. rewrite repeat_length. lia.
Qed.

Lemma pad_length (acc : list (list Z)) n : length (pad n [] acc) = Nat.max n (length acc).
Proof. unfold pad. rewrite app_length, repeat_length. lia. Qed.

Lemma fold_rstep_spec cs : forall acc, incr_from (Z.of_nat (length acc)) cs ->
  forall j, nth j (fold_left rstep cs acc) [] =
    if (j <? length acc)%nat then nth j acc []
    else match lookup cs j with Some c => if emit c then c_v c else [] | None => [] end.
Proof.
  induction cs as [|c cs IH]; intros acc Hinc j; cbn [fold_left lookup].
  - unfold bytes in *. destruct (Nat.ltb_spec j (length acc)); [reflexivity|]. now rewrite nth_overflow by lia.
  - cbn [incr_from] in Hinc. destruct Hinc as [H1 H2]. unfold rstep at 2. destruct (emit c) eqn:He.
    + rewrite IH.
      2:{ unfold bytes in *. rewrite app_length, pad_length. cbn [length].
          replace (Z.of_nat (Nat.max (Z.to_nat (c_col c - 1)) (length acc) + 1)) with (c_col c) by lia. exact H2. }
      unfold bytes in *. rewrite app_length, pad_length. cbn [length].
      replace (Nat.max (Z.to_nat (c_col c - 1)) (length acc) + 1)%nat with (Z.to_nat (c_col c)) by lia.
      destruct (Nat.ltb_spec j (Z.to_nat (c_col c))) as [Hj|Hj].
      * destruct (Nat.ltb_spec j (length acc)) as [Hj2|Hj2].
        -- rewrite app_nth1 by (rewrite pad_length; lia). apply nth_pad.
        -- destruct (Z.eqb_spec (c_col c) (Z.of_nat j + 1)) as [E|N].
           ++ rewrite He. rewrite app_nth2 by (rewrite pad_length; lia).
              rewrite pad_length. replace (j - Nat.max (Z.to_nat (c_col c - 1)) (length acc))%nat with 0%nat by lia. reflexivity.
           ++ rewrite (lookup_none_below cs (c_col c) j H2) by lia.
              rewrite app_nth1 by (rewrite pad_length; lia). rewrite nth_pad. now rewrite nth_overflow by lia.
      * destruct (Nat.ltb_spec j (length acc)); [lia|].
        destruct (Z.eqb_spec (c_col c) (Z.of_nat j + 1)); [lia|]. reflexivity.
    + rewrite (IH acc) by (clear - H1 H2; destruct cs as [|c' cs]; [exact I|cbn [incr_from] in *; destruct H2; split; [lia|assumption]]).
      unfold bytes in *.
      destruct (Nat.ltb_spec j (length acc)); [reflexivity|].
      destruct (Z.eqb_spec (c_col c) (Z.of_nat j + 1)) as [E|N]; [|reflexivity].
      rewrite He. now rewrite (lookup_none_below cs (c_col c) j H2) by lia.
Qed.

(* filtering a dense list: increasing columns, and lookup = the positional cell when it has a value *)
Lemma filter_dense_incr cells : forall k, dense_from k cells -> incr_from (Z.of_nat k) (filter has_value cells).
Proof.
  induction cells as [|c cells IH]; intros k Hd; cbn [filter]; [exact I|].
  pose proof (Hd 0%nat c eq_refl) as Hc. replace (k + 0)%nat with k in Hc by lia.
  pose proof (dense_from_tail _ _ _ Hd) as Hd'. specialize (IH (S k) Hd').
  destruct (has_value c).
  - split; [lia|]. replace (c_col c) with (Z.of_nat (S k)) by lia. exact IH.
  - clear - IH. destruct (filter has_value cells) as [|c' r]; [exact I|]. destruct IH; split; [lia|assumption].
Qed.

Lemma lookup_filter_dense cells : forall k j, dense_from k cells ->
  lookup (filter has_value cells) j =
  if (k <=? j)%nat then match nth_error cells (j - k) with Some c => if has_value c then Some c else None | None => None end
  else None.
Proof.
  induction cells as [|c cells IH]; intros k j Hd; cbn [filter].
  - cbn. rewrite nth_error_nil. destruct (k <=? j)%nat; reflexivity.
  - pose proof (Hd 0%nat c eq_refl) as Hc. replace (k + 0)%nat with k in Hc by lia.
    pose proof (dense_from_tail _ _ _ Hd) as Hd'.
    destruct (has_value c) eqn:Hv; cbn [lookup].
    + destruct (Z.eqb_spec (c_col c) (Z.of_nat j + 1)) as [E|N].
      * assert (j = k) by lia. subst j. rewrite Nat.leb_refl, Nat.sub_diag. cbn. now rewrite Hv.
      * rewrite (IH (S k) j Hd'). destruct (Nat.leb_spec (S k) j), (Nat.leb_spec k j); try lia; try reflexivity.
        replace (j - k)%nat with (S (j - S k)) by lia. reflexivity.
    + rewrite (IH (S k) j Hd'). destruct (Nat.leb_spec (S k) j), (Nat.leb_spec k j); try lia; try reflexivity.
      * replace (j - k)%nat with (S (j - S k)) by lia. reflexivity.
      * assert (j = k) by lia. subst j. rewrite Nat.sub_diag. cbn. now rewrite Hv.
Qed.

Lemma no_value_no_emit c : has_value c = false -> emit c = false.
Proof.
  unfold has_value, emit. destruct (c_f c); [rewrite !orb_true_r; cbn; intros H; destruct (negb (c_s c =? 0) || negb (is_nil (c_v c))); discriminate|].
  destruct (is_nil (c_v c)); cbn; [reflexivity|]. rewrite orb_true_r. discriminate.
Qed.

(* value text a streaming reader shows at a position *)
Definition shown (oc : option cell) : bytes := match oc with Some c => if emit c then c_v c else [] | None => [] end.

Lemma row_values_trim rw r : cells_dense rw (r_cells r) ->
  forall j, nth j (row_values c_v (trim_row r)) [] = shown (nth_error (r_cells r) j).
Proof.
  intros Hd j. assert (Hd0 : dense_from 0 (r_cells r)) by (intros i c Hi; destruct (Hd i c Hi); lia).
  rewrite row_values_fold. unfold trim_row.
  destruct (negb (is_nil_cells (r_cells (trim_cell r))) || row_has_attr (trim_cell r)) eqn:E.
  - cbn [trim_cell r_cells]. rewrite (fold_rstep_spec _ [] (filter_dense_incr _ 0%nat Hd0) j). cbn [length Nat.ltb Nat.leb].
    rewrite (lookup_filter_dense _ 0%nat j Hd0). cbn [Nat.leb]. rewrite Nat.sub_0_r.
    unfold shown. destruct (nth_error (r_cells r) j) as [c|]; [|reflexivity].
    destruct (has_value c) eqn:Hv; [reflexivity|]. now rewrite (no_value_no_emit c Hv).
  - (* nothing has a value: the row keeps its filler cells, none is emitted *)
    apply orb_false_elim in E. destruct E as [E _]. apply negb_false_iff in E. cbn [trim_cell r_cells] in E.
    assert (En : filter has_value (r_cells r) = []) by (destruct (filter has_value (r_cells r)); [reflexivity|discriminate]).
    pose proof (filter_nil_all _ En) as Hnv.
    assert (G : forall cs acc, (forall c, In c cs -> emit c = false) -> fold_left rstep cs acc = acc).
    { induction cs as [|c cs IH]; intros acc H; cbn [fold_left]; [reflexivity|].
      unfold rstep at 2. rewrite (H c (or_introl eq_refl)). apply IH. intros c' Hc'. apply H. now right. }
    rewrite G.
    + replace (nth j (@nil bytes) []) with (@nil Z) by (destruct j; reflexivity).
      unfold shown. destruct (nth_error (r_cells r) j) as [c|] eqn:Ec; [|reflexivity].
      now rewrite (no_value_no_emit c (Hnv j c Ec)).
    + intros c Hc. apply In_nth_error in Hc. destruct Hc as [i Hi]. apply no_value_no_emit. eauto.
Qed.

Lemma drop_trailing_nth (l : list (list bytes)) : forall i, nth i (drop_trailing_empty l) [] = nth i l [].
Proof.
  induction l as [|x l IH]; intros i; cbn [drop_trailing_empty]; [reflexivity|].
  destruct (drop_trailing_empty l) as [|y r'] eqn:E.
  - destruct x as [|b x'].
    + destruct i as [|i]; cbn; [reflexivity|]. rewrite <- IH. now destruct i.
    + destruct i as [|i]; cbn [nth]; [reflexivity|]. rewrite <- IH. now destruct i.
  - destruct i as [|i]; cbn [nth]; [reflexivity|]. apply IH.
Qed.

Lemma nth_map_error {A B} (f : A -> B) (l : list A) : forall i d,
  nth i (map f l) d = match nth_error l i with Some x => f x | None => d end.
Proof. induction l as [|x l IH]; intros [|i] d; cbn; auto. Qed.

(* GetRows / the Rows iterator show, at every position, the stored text of the positional cell *)
Theorem get_rows_agree sh col rw : Inv sh -> 1 <= col -> 1 <= rw ->
  nth (Z.to_nat (col - 1)) (nth (Z.to_nat (rw - 1)) (get_rows c_v sh) []) [] = shown (cell_at sh col rw).
Proof.
  intros HI Hc Hr. unfold get_rows. rewrite drop_trailing_nth. unfold xml_rows, cell_at.
  rewrite map_map, nth_map_error.
  destruct (nth_error (rows sh) (Z.to_nat (rw - 1))) as [r|] eqn:E.
  - destruct (HI _ r E) as [_ Hd]. now apply (row_values_trim _ r Hd).
  - now destruct (Z.to_nat (col - 1)).
Qed.

(* ---- GetCols / the Cols iterator ---- *)
Lemma shown_cv oc : shown oc = match oc with Some c => c_v c | None => [] end.
Proof.
  destruct oc as [c|]; [|reflexivity]. unfold shown, emit. destruct (c_v c) eqn:E; cbn; [destruct (c_f c); reflexivity|reflexivity].
Qed.

Lemma nth_app_repeat (acc : list bytes) n i : nth i (acc ++ repeat [] n) [] = nth i acc [].
Proof.
  destruct (Nat.lt_ge_cases i (length acc)) as [H|H].
  - now rewrite app_nth1.
  - rewrite app_nth2 by lia. rewrite (nth_overflow acc) by lia.
    destruct (Nat.lt_ge_cases (i - length acc) n) as [H2|H2].
    + apply nth_repeat.
    + apply nth_overflow. rewrite repeat_length. lia.
Qed.

Lemma col_fold_spec (c : nat) : forall rs k acc, (length acc <= k)%nat ->
  (forall i, (i < k)%nat -> nth i (col_fold c_v c rs k acc) [] = nth i acc []) /\
  (forall j, nth (k + j) (col_fold c_v c rs k acc) [] =
     match nth_error rs j with
     | Some r => match nth_error (r_cells r) c with Some cl => c_v cl | None => [] end
     | None => []
     end).
Proof.
  induction rs as [|r rs IH]; intros k acc Hlen; cbn [col_fold].
  - split; [reflexivity|]. intros j. rewrite nth_overflow by lia. now destruct j.
  - set (acc' := match r_cells r with [] => acc | _ => _ end).
    assert (Hacc' : (length acc' <= S k)%nat /\ (forall i, (i < k)%nat -> nth i acc' [] = nth i acc []) /\
                    nth k acc' [] = match nth_error (r_cells r) c with Some cl => c_v cl | None => [] end).
    { unfold acc'. destruct (r_cells r) as [|c0 cs] eqn:Ec.
      - split; [lia|]. split; [reflexivity|]. rewrite nth_overflow by lia. now destruct c.
      - rewrite <- Ec. set (a1 := acc ++ repeat [] (k - length acc)).
        assert (La1 : length a1 = k) by (unfold a1; rewrite app_length, repeat_length; lia).
        destruct (nth_error (r_cells r) c) as [cl|].
        + destruct (c_v cl) as [|b v] eqn:Ev; cbn [is_nil].
          * split; [lia|]. split; [intros i _; apply nth_app_repeat|]. apply nth_overflow. lia.
          * refine (conj _ (conj _ _)).
            -- rewrite app_length, La1. cbn. lia.
            -- intros i Hi. rewrite app_nth1 by lia. apply nth_app_repeat.
            -- rewrite app_nth2 by lia. rewrite La1, Nat.sub_diag. reflexivity.
        + split; [lia|]. split; [intros i _; apply nth_app_repeat|]. apply nth_overflow. lia. }
    destruct Hacc' as (L' & Hpre & Hk). destruct (IH (S k) acc' L') as [I1 I2]. split.
    + intros i Hi. rewrite I1 by lia. apply Hpre. exact Hi.
    + intros [|j].
      * rewrite Nat.add_0_r, I1 by lia. cbn [nth_error]. exact Hk.
      * replace (k + S j)%nat with (S k + j)%nat by lia. rewrite I2. reflexivity.
Qed.

Lemma last_content_ge cs : forall i j cl, nth_error cs j = Some cl -> has_content cl = true -> (S (i + j) <= last_content cs i)%nat.
Proof.
  induction cs as [|c cs IH]; intros i j cl Hn Hc; [destruct j; discriminate|]. cbn [last_content].
  destruct j as [|j]; cbn [nth_error] in Hn.
  - injection Hn as ->. rewrite Hc. lia.
  - specialize (IH (S i) j cl Hn Hc). lia.
Qed.
Lemma fold_max_ge (l : list row) : forall m,
  (m <= fold_left (fun m r => Nat.max m (last_content (r_cells r) 0)) l m)%nat /\
  (forall r, In r l -> (last_content (r_cells r) 0 <= fold_left (fun m r => Nat.max m (last_content (r_cells r) 0)) l m)%nat).
Proof.
  induction l as [|a l IH]; intros m; cbn [fold_left]; [split; [lia|intros r []]|].
  destruct (IH (Nat.max m (last_content (r_cells a) 0))) as [H1 H2]. split; [lia|].
  intros r [E|Hi]; [subst a; lia|exact (H2 r Hi)].
Qed.
Lemma total_cols_ge sh : forall r, In r (rows sh) -> (last_content (r_cells r) 0 <= total_cols sh)%nat.
Proof. intros r Hi. exact (proj2 (fold_max_ge (rows sh) 0%nat) r Hi). Qed.

Lemma drop_trailing_nil_nth (l : list bytes) : forall i, nth i (drop_trailing_nil l) [] = nth i l [].
Proof.
  induction l as [|x l IH]; intros i; cbn [drop_trailing_nil]; [reflexivity|].
  destruct (drop_trailing_nil l) as [|y r] eqn:E.
  - destruct x as [|b x']; cbn [is_nil].
    + destruct i as [|i]; cbn; [reflexivity|]. rewrite <- IH. now destruct i.
    + destruct i as [|i]; cbn [nth]; [reflexivity|]. rewrite <- IH. now destruct i.
  - destruct i as [|i]; cbn [nth]; [reflexivity|]. apply IH.
Qed.

(* GetCols / the Cols iterator show, at every position, the stored text of the positional cell *)
Theorem get_cols_agree sh col rw : 1 <= col -> 1 <= rw ->
  nth (Z.to_nat (rw - 1)) (nth (Z.to_nat (col - 1)) (get_cols c_v sh) []) [] = shown (cell_at sh col rw).
Proof.
  intros Hc Hr. rewrite shown_cv. unfold get_cols, cell_at.
  destruct (Nat.lt_ge_cases (Z.to_nat (col - 1)) (total_cols sh)) as [Hin|Hout].
  - rewrite (nth_indep _ [] (drop_trailing_nil (col_fold c_v 0 (rows sh) 0 []))) by (rewrite map_length, seq_length; exact Hin).
    rewrite (map_nth (fun c => drop_trailing_nil (col_fold c_v c (rows sh) 0 []))), seq_nth by exact Hin. cbv beta. cbn [Nat.add]. rewrite drop_trailing_nil_nth.
    pose proof (proj2 (col_fold_spec (Z.to_nat (col - 1)) (rows sh) 0 [] (le_n 0)) (Z.to_nat (rw - 1))) as G. cbn [Nat.add] in G.
    rewrite G. destruct (nth_error (rows sh) (Z.to_nat (rw - 1))); reflexivity.
  - assert (E0 : nth (Z.to_nat (col - 1)) (map (fun c => drop_trailing_nil (col_fold c_v c (rows sh) 0 [])) (seq 0 (total_cols sh))) [] = [])
      by (apply nth_overflow; rewrite map_length, seq_length; exact Hout).
    rewrite E0. rewrite (nth_overflow []) by (cbn; lia).
    destruct (nth_error (rows sh) (Z.to_nat (rw - 1))) as [r|] eqn:E; [|reflexivity].
    pose proof (total_cols_ge sh r (nth_error_In _ _ E)) as Hle.
    destruct (nth_error (r_cells r) (Z.to_nat (col - 1))) as [cl|] eqn:E2; [|reflexivity].
    (* a cell beyond the last column with content has no content: its text is empty *)
    destruct (has_content cl) eqn:Hcc.
    + pose proof (last_content_ge (r_cells r) 0 _ cl E2 Hcc). lia.
    + unfold has_content in Hcc. destruct (c_v cl); [reflexivity|discriminate].
Qed.

(* hence GetCols and GetRows show the same text at every position *)
Theorem get_cols_vs_rows sh col rw : Inv sh -> 1 <= col -> 1 <= rw ->
  nth (Z.to_nat (rw - 1)) (nth (Z.to_nat (col - 1)) (get_cols c_v sh) []) [] =
  nth (Z.to_nat (col - 1)) (nth (Z.to_nat (rw - 1)) (get_rows c_v sh) []) [].
Proof. intros HI Hc Hr. rewrite (get_cols_agree sh col rw Hc Hr), (get_rows_agree sh col rw HI Hc Hr). reflexivity. Qed.
